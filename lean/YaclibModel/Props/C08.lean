/-
C08 — FairThreadPool: accepted jobs all run, rejected ones drop, Wait means done.

Property theorems about the model `Yaclib.Pool` (Model/Pool.lean), for **every** workload (any number of
workers, any number of submitters with any number of jobs each, a stopper calling Stop / SoftStop / HardStop or
nobody), every interleaving at lock/unlock/notify granularity, every choice of the worker a `notify_one` wakes
and every spurious wake-up.  Helper lemmas and the inductive invariants are in Proofs/Pool*.lean; the bit layout
of the counter word comes from Extracted/PoolConsts.lean (regenerated from the source on every run).
-/
import YaclibModel.Proofs.PoolBlocked
import YaclibModel.Proofs.PoolExecContract
import YaclibModel.Proofs.PoolExecNoDrop
import YaclibModel.Proofs.StrandTowerN
import YaclibModel.Extracted.Kernels
import YaclibModel.Model.Skeletons

namespace Yaclib.Props.C08
open Yaclib.Pool Yaclib.Extracted.PoolConsts

variable {w : Workload} {s : State}

/-! ### the counter word -/

/-- `_jobs_count >> 2` counts the queued jobs plus the jobs a worker has popped and not yet subtracted
    (plus, after HardStop, the jobs it took away: HardStop never subtracts them) -/
theorem counter_layout (h : Reachable w s) :
    s.cnt >>> 2 = s.queue.length + s.workers.countP WPc.running + s.stolen.length := by
  have := (invA_reachable h).cnt_jobs
  omega

theorem counter_layout_no_hardstop (h : Reachable w s) (hk : w.stop ≠ some .hard) :
    s.cnt >>> 2 = s.queue.length + s.workers.countP WPc.running := by
  have ha := invA_reachable h
  have hst : s.stolen = [] := by
    cases hs : s.stolen with
    | nil => rfl
    | cons a as =>
        have := (ha.stolen_kind (by rw [hs]; simp)).1
        rw [ha.kind_eq] at this
        exact absurd this hk
  have := counter_layout h
  rw [hst] at this
  simpa using this

/-- `_jobs_count -= 4` never underflows: whenever a worker is about to execute it the counter is at least 4 -/
theorem counter_no_underflow (h : Reachable w s) {i : Nat} (hw : s.workers[i]? = some (.held true)) :
    4 ≤ s.cnt ∧ loopSub s.cnt + 4 = s.cnt := by
  have ha := invA_reachable h
  have hp := countP_pos_get WPc.running hw rfl
  have := ha.cnt_jobs
  rw [Pool.Bits.loopSub_eq]
  omega

/-- the mutex: at most one thread is inside a critical section, and exactly when `_m` is locked -/
theorem mutual_exclusion (h : Reachable w s) :
    s.workers.countP WPc.isHeld + s.subs.countP Sub.isHeld + (if s.xpc = .held then 1 else 0) =
      (if s.locked = true then 1 else 0) := (invA_reachable h).lock_cnt

/-! ### accepted xor dropped at submission -/

/-- every job handed to `Submit` is — once `Submit` has made its decision and acted on it — either accepted
    (pushed) or Dropped by `Submit`, never both, never twice -/
theorem accepted_xor_dropped (h : Reachable w s) (j : JobId) :
    s.accepted.count j + s.rejected.count j + inFlight s j = (if j ∈ s.submitted then 1 else 0) := by
  have hb := invB_reachable h
  have hf := hb.sub_flight j
  have hle := count_le_one_of_nodup hb.sub_nodup j
  by_cases hm : j ∈ s.submitted
  · have := List.count_pos_iff.mpr hm
    simp only [hm, ↓reduceIte]; omega
  · have := List.count_eq_zero.mpr hm
    simp only [hm, ↓reduceIte]; omega

theorem accepted_nodup (h : Reachable w s) : s.accepted.Nodup := by
  apply List.nodup_iff_count.mpr
  intro j
  have := accepted_xor_dropped h j
  split at this <;> omega

theorem rejected_nodup (h : Reachable w s) : s.rejected.Nodup := by
  apply List.nodup_iff_count.mpr
  intro j
  have := accepted_xor_dropped h j
  split at this <;> omega

theorem accepted_not_rejected (h : Reachable w s) {j : JobId} (ha : j ∈ s.accepted) : j ∉ s.rejected := by
  intro hr
  have := accepted_xor_dropped h j
  have h1 := List.count_pos_iff.mpr ha
  have h2 := List.count_pos_iff.mpr hr
  split at this <;> omega

/-- `Submit` Drops only if the pool was already stopped (and the stop bit never goes away) -/
theorem rejected_only_if_stopped (h : Reachable w s) (hr : s.rejected ≠ []) : wasStop s.cnt = true := by
  have := (invA_reachable h).rejected_was hr
  rw [Pool.Bits.wasStop_eq]; simp [this]

/-- … and once the stop bit is set nothing is accepted any more and the bit stays -/
theorem no_accept_after_stop (h : Reachable w s) {l : Label} {s' : State} (hs : Step s l s')
    (hw : wasStop s.cnt = true) : s'.accepted = s.accepted ∧ wasStop s'.cnt = true := by
  have ha := invA_reachable h
  have hcj := ha.cnt_jobs
  cases hs with
  | sAccept i sb hi hpc hw' => rw [hw] at hw'; cases hw'
  | wPop i b j rest hi hq =>
      have hR := countP_pos_get WPc.running hi
      refine ⟨rfl, ?_⟩
      cases b <;> simp only [doPop] <;> bits_simp
      · exact hw
      · have := hR rfl; omega
  | wStop i b hi hq hc => refine ⟨rfl, ?_⟩; simp only [doWStop]; bits_simp; omega
  | wExit i b hi hq hc hw' => exact ⟨rfl, hw'⟩
  | wWait i b hi hq hc hw' =>
      have hR := countP_pos_get WPc.running hi
      refine ⟨rfl, ?_⟩
      cases b <;> simp only [doWWait] <;> bits_simp
      · exact hw
      · have := hR rfl; omega
  | xStop hx hk => refine ⟨rfl, ?_⟩; simp only [doXStop]; bits_simp; omega
  | xSoftNow hx hk hn => refine ⟨rfl, ?_⟩; simp only [doXStop]; bits_simp; omega
  | xSoftWant hx hk hn => refine ⟨rfl, ?_⟩; simp only [doXSoftWant]; bits_simp; omega
  | xHard hx hk => refine ⟨rfl, ?_⟩; simp only [doXHard]; bits_simp; omega
  | _ => exact ⟨rfl, hw⟩

/-! ### accepted ⇒ Called at most once, or Dropped at most once by HardStop -/

/-- a job is Called at most once and Dropped by HardStop at most once, never both, and only if it was accepted;
    a job rejected by `Submit` is never Called -/
theorem accepted_called_once_or_hardstopped (h : Reachable w s) (j : JobId) :
    s.started.count j + s.hardDropped.count j ≤ s.accepted.count j ∧ s.accepted.count j ≤ 1 := by
  have hb := invB_reachable h
  have h1 := hb.call_count j
  have h2 := hardDropped_le_stolen h j
  have h3 : s.accepted.count j = s.popped.count j + s.queue.count j + s.stolen.count j := by
    rw [hb.acc_split, List.count_append, List.count_append]
  have h4 := count_le_one_of_nodup (accepted_nodup h) j
  omega

theorem called_only_if_accepted (h : Reachable w s) {j : JobId} (hj : j ∈ s.started) : j ∈ s.accepted ∧ j ∉ s.rejected := by
  have := (accepted_called_once_or_hardstopped h j).1
  have h1 := List.count_pos_iff.mpr hj
  have ha : j ∈ s.accepted := List.count_pos_iff.mp (by omega)
  exact ⟨ha, accepted_not_rejected h ha⟩

/-- only HardStop takes jobs away: under Stop / SoftStop / no stop no accepted job is ever Dropped -/
theorem only_hardstop_drops_accepted (h : Reachable w s) (hk : w.stop ≠ some .hard) : s.hardDropped = [] ∧ s.stolen = [] := by
  have ha := invA_reachable h
  have hst : s.stolen = [] := by
    cases hs : s.stolen with
    | nil => rfl
    | cons a as =>
        have := (ha.stolen_kind (by rw [hs]; simp)).1
        rw [ha.kind_eq] at this
        exact absurd this hk
  refine ⟨?_, hst⟩
  apply List.eq_nil_iff_forall_not_mem.mpr
  intro j hj
  have := hardDropped_le_stolen h j
  have h1 := List.count_pos_iff.mpr hj
  rw [hst] at this
  simp at this
  omega

/-! ### SoftStop -/

/-- under SoftStop the stop bit is set only in a state with no queued and no running job -/
theorem softstop_only_when_idle (h : Reachable w s) {l : Label} {s' : State} (hs : Step s l s') (hk : w.stop = some .soft)
    (h0 : wasStop s.cnt = false) (h1 : wasStop s'.cnt = true) :
    s'.queue = [] ∧ s'.workers.countP WPc.running = 0 := by
  have ha := invA_reachable h
  have ha' := invA_step ha hs
  have hkind : s.kind = some .soft := by rw [ha.kind_eq]; exact hk
  have key : s'.cnt / 4 = 0 := by
    cases hs with
    | sAccept i sb hi hpc hw => simp only [doAccept] at *; bits_simp; omega
    | wPop i b j rest hi hq => cases b <;> simp only [doPop] at * <;> bits_simp <;> omega
    | wStop i b hi hq hc => cases b <;> simp only [doWStop] at * <;> bits_simp <;> omega
    | wExit i b hi hq hc hw => cases b <;> simp only [doWExit] at * <;> bits_simp <;> omega
    | wWait i b hi hq hc hw => cases b <;> simp only [doWWait] at * <;> bits_simp <;> omega
    | xStop hx hk' => rw [hkind] at hk'; cases hk'
    | xSoftNow hx hk' hn => simp only [doXStop] at *; bits_simp; omega
    | xSoftWant hx hk' hn => simp only [doXSoftWant] at *; bits_simp; omega
    | xHard hx hk' => rw [hkind] at hk'; cases hk'
    | _ => (try simp only [doSubmit, doSLock, doReject, doSDrop, doNotifyNone, doNotifyOne, doWLock, doCall, doWNotifyAll,
              doSpurious, doXLock, doXNotifyAll, doXDrop] at h1); rw [h0] at h1; cases h1
  have := ha'.cnt_jobs
  rw [key] at this
  refine ⟨List.eq_nil_of_length_eq_zero (by omega), by omega⟩

/-! ### after Wait -/

/-- after Wait returned every worker has left `Loop`, no job is running, no Call can happen … -/
theorem after_wait_nothing_runs (h : Reachable w s) (hr : s.waitReturned = true) :
    (∀ pc ∈ s.workers, pc = .exited) ∧ s.workers.countP WPc.running = 0 ∧ (∀ i j s', ¬ Step s (.call i j) s') := by
  have hall := (invA_reachable h).wait_exited hr
  refine ⟨hall, ?_, ?_⟩
  · apply List.countP_eq_zero.mpr
    intro pc hm; rw [hall pc hm]; simp [WPc.running]
  · intro i j s' hs
    cases hs with
    | wCall _ _ hi => have := hall _ (List.mem_of_getElem? hi); cases this

/-- … not in any later state either: the list of Calls is frozen -/
theorem no_call_after_wait (h : Reachable w s) (hr : s.waitReturned = true) {t : State} (hl : Later s t) :
    t.waitReturned = true ∧ t.started = s.started := by
  induction hl with
  | refl => exact ⟨hr, rfl⟩
  | step hl' hs ih =>
      have hrt := later_reachable h hl'
      refine ⟨wait_stable hs ih.1, ?_⟩
      rw [← ih.2]
      have hno := (after_wait_nothing_runs hrt ih.1).2.2
      cases hs with
      | wCall i j hi => exact absurd (Step.wCall _ i j hi) (hno i j _)
      | _ => rfl

/-- with at least one worker: after Wait returned the pool is stopped, the queue is empty, and every later
    `Submit` Drops its job (nothing is accepted any more) -/
theorem after_wait_submit_drops (h : Reachable w s) (hr : s.waitReturned = true) (hn : 0 < w.workers) :
    wasStop s.cnt = true ∧ s.queue = [] ∧
    ∀ {t : State}, Later s t → t.accepted = s.accepted ∧ t.queue = [] ∧ wasStop t.cnt = true := by
  have ha := invA_reachable h
  have hall := ha.wait_exited hr
  obtain ⟨pc, hm⟩ : ∃ pc, pc ∈ s.workers := by
    cases hws : s.workers with
    | nil => have := ha.wlen; rw [hws] at this; simp at this; omega
    | cons a as => exact ⟨a, by simp⟩
  have hex := hall pc hm
  subst hex
  have hw : wasStop s.cnt = true := by rw [Pool.Bits.wasStop_eq]; simp [ha.gone_was _ hm rfl]
  refine ⟨hw, ha.gone_queue _ hm rfl, ?_⟩
  intro t hl
  induction hl with
  | refl => exact ⟨rfl, ha.gone_queue _ hm rfl, hw⟩
  | @step t0 l0 t1 hl' hs ih =>
      have hrt := later_reachable h hl'
      have := no_accept_after_stop hrt hs ih.2.2
      refine ⟨by rw [this.1, ih.1], ?_, this.2⟩
      have hat := invA_step (invA_reachable hrt) hs
      have hrt' := wait_stable hs (no_call_after_wait h hr hl').1
      have hall' := hat.wait_exited hrt'
      have hlen : 0 < t1.workers.length := by rw [hat.wlen]; exact hn
      obtain ⟨pc', hm'⟩ := List.exists_mem_of_length_pos hlen
      have := hall' pc' hm'
      subst this
      exact hat.gone_queue _ hm' rfl

/-! ### single worker: FIFO -/

/-- with a single worker jobs start in acceptance (= push) order: the list of Calls is a prefix of the list of
    accepted jobs -/
theorem single_worker_fifo (h : Reachable w s) (h1 : w.workers = 1) : s.started <+: s.accepted := by
  have ha := invA_reachable h
  have hb := invB_reachable h
  have hf := invF_reachable h
  have hlen : s.workers.length = 1 := by rw [ha.wlen]; exact h1
  match hws : s.workers, hlen with
  | [pc], _ =>
      have := hf.fifo pc hws
      refine ⟨pendOf pc ++ s.queue ++ s.stolen, ?_⟩
      rw [hb.acc_split, ← this]
      simp [List.append_assoc]

/-! ### quiescence: nothing is lost, no wake-up is lost -/

/-- a parked worker is never forgotten: once the stop bit is set and the accompanying `notify_all` has been issued
    nobody is parked; and while the queue is not empty some worker is on its way to it or a notification is
    still to come -/
theorem parked_is_watched (h : Reachable w s) :
    (wasStop s.cnt = true → s.xpc ≠ .notifyAll → WPc.stopping ∉ s.workers → WPc.parked ∉ s.workers) ∧
    (s.queue ≠ [] → 0 < w.workers →
      0 < s.workers.countP WPc.active + s.subs.countP Sub.isNotifying + (if s.xpc = .notifyAll then 1 else 0)) := by
  have hc := invC_reachable h
  refine ⟨?_, hc.queue_watch⟩
  intro hw
  rw [Pool.Bits.wasStop_eq] at hw
  exact hc.no_parked_after_stop (by simpa using hw)

/-- **no lost wake-up / nothing lost** (safety form).  In a state in which nothing can happen any more (except a
    spurious wake-up), with at least one worker:  the mutex is free, every submitter has submitted all its jobs,
    the stopper has finished, the queue is empty, no job is running, and
      * if nobody stops the pool, all workers sleep and the pool was never stopped;
      * otherwise the pool is stopped, every worker has left and `Wait` has returned. -/
theorem no_lost_wakeup (h : Reachable w s) (hn : 0 < w.workers) (hq : Quiescent s) : Rest w s :=
  rest_of_quiescent (invA_reachable h) (invB_reachable h) (invC_reachable h) hn hq

/-- … every job of the workload has been submitted and was accepted xor rejected exactly once … -/
theorem quiescent_all_submitted (h : Reachable w s) (hn : 0 < w.workers) (hq : Quiescent s) {i n k : Nat}
    (hi : w.subs[i]? = some n) (hk : k < n) :
    (⟨i, k⟩ : JobId) ∈ s.submitted ∧ s.accepted.count ⟨i, k⟩ + s.rejected.count ⟨i, k⟩ = 1 := by
  have hb := invB_reachable h
  have hr := no_lost_wakeup h hn hq
  have hlt : i < s.subs.length := by
    rw [hb.slen]; exact (List.getElem?_eq_some_iff.mp hi).1
  have hget : s.subs[i]? = some s.subs[i] := List.getElem?_eq_getElem hlt
  have hwf := hb.sub_wf i _ hget
  have hdone := hr.subs_done _ (List.getElem_mem hlt)
  have htot : s.subs[i].total = n := by
    have := hwf.1; rw [hi] at this; cases this; rfl
  have hmem : (⟨i, k⟩ : JobId) ∈ s.submitted := (hb.sub_all i _ hget).1 k (by omega)
  refine ⟨hmem, ?_⟩
  have := accepted_xor_dropped h ⟨i, k⟩
  have hfl : inFlight s ⟨i, k⟩ = 0 := by
    simp only [inFlight, hget]
    simp [hdone.1]
  simp only [hmem, ↓reduceIte, hfl] at this
  omega

/-- … and every accepted job has been Called exactly once or Dropped exactly once by HardStop -/
theorem quiescent_all_finished (h : Reachable w s) (hn : 0 < w.workers) (hq : Quiescent s) {j : JobId}
    (hj : j ∈ s.accepted) : s.started.count j + s.hardDropped.count j = 1 := by
  have hb := invB_reachable h
  have hr := no_lost_wakeup h hn hq
  have h1 := hb.call_count j
  have hnc : s.workers.countP (WPc.isCalling j) = 0 := by
    apply List.countP_eq_zero.mpr
    intro pc hm
    have hz := List.countP_eq_zero.mp hr.none_running pc hm
    cases pc <;> simp_all [WPc.isCalling, WPc.running]
  have h3 : s.accepted.count j = s.popped.count j + s.queue.count j + s.stolen.count j := by
    rw [hb.acc_split, List.count_append, List.count_append]
  have h4 := count_le_one_of_nodup (accepted_nodup h) j
  have h5 := List.count_pos_iff.mpr hj
  rw [hr.queue_empty] at h3
  rw [hb.hard_done hr.stopper_done]
  simp at h3
  omega

/-- Stop (and SoftStop): everything that was accepted — necessarily before the stop bit was set,
    `no_accept_after_stop` — is Called exactly once; nothing accepted is ever Dropped -/
theorem stop_runs_accepted (h : Reachable w s) (hn : 0 < w.workers) (hk : w.stop ≠ some .hard) (hq : Quiescent s)
    {j : JobId} (hj : j ∈ s.accepted) : s.started.count j = 1 ∧ s.hardDropped = [] ∧ j ∉ s.rejected := by
  have := quiescent_all_finished h hn hq hj
  have hd := (only_hardstop_drops_accepted h hk).1
  rw [hd] at this
  simp at this
  exact ⟨this, hd, accepted_not_rejected h hj⟩

/-- with a single worker, when everything has come to rest, the Calls followed by HardStop's Drops are exactly the
    accepted jobs in acceptance order -/
theorem single_worker_fifo_complete (h : Reachable w s) (h1 : w.workers = 1) (hq : Quiescent s) :
    s.started ++ s.hardDropped = s.accepted := by
  have ha := invA_reachable h
  have hb := invB_reachable h
  have hf := invF_reachable h
  have hr := no_lost_wakeup h (by omega) hq
  have hlen : s.workers.length = 1 := by rw [ha.wlen]; exact h1
  match hws : s.workers, hlen with
  | [pc], _ =>
      have hfifo := hf.fifo pc hws
      have hp : pendOf pc = [] := by
        have hz := List.countP_eq_zero.mp hr.none_running pc (by rw [hws]; simp)
        cases pc <;> simp_all [pendOf, WPc.running]
      rw [hb.acc_split, hr.queue_empty, hb.hard_done hr.stopper_done, ← hfifo, hp]
      simp

/-! ### client code that blocks or re-enters the pool

The pool does not know what a job does.  A job body may submit to the same pool and wait for that job; a `Drop`
(of a future core, say) passes the cancellation on by submitting its continuation to the same pool.  In the model
every such Submit is one more Submit stream (`w.subs`): the theorems above hold whoever performs a Submit and
whenever.  What the pool must guarantee for this to work is stated here. -/

/-- `Call` and `Drop` are invoked with the mutex released: the calling thread is not inside a critical section
    (so a `Call`/`Drop` that re-enters `Submit`/`Alive` does not deadlock with itself) … -/
theorem client_code_outside_lock {l : Label} {s' : State} (hs : Step s l s') :
    (∀ i j, l = .call i j → s.workers[i]? = some (.calling j)) ∧
    (∀ j, l = .drop .stopper j → ∃ rest, s.xpc = .dropping (j :: rest)) ∧
    (∀ i j, l = .drop (.sub i) j → ∃ sb, s.subs[i]? = some sb ∧ sb.pc = .dropping) := by
  cases hs <;> refine ⟨?_, ?_, ?_⟩ <;> intros <;> simp_all

/-- … and a critical section never contains client code or a blocking operation: whenever the mutex is held,
    its holder can release it at once.  Hence every Submit — also one made from inside a Call or a Drop — gets the
    mutex -/
theorem critical_section_always_ends (h : Reachable w s) (hl : s.locked = true) : ∃ t s', Step s (.unlock t) s' :=
  unlock_enabled_of_locked (invA_reachable h) hl

/-- **work conservation**: while a worker sleeps, every queued job is covered by a wake-up that is already on its
    way and does not depend on any job body returning — a worker that just started / left the wait queue / holds the
    mutex, or a `notify_one` that a Submit is about to issue.  Workers inside a Call do not count. -/
theorem work_conserving (h : Reachable w s) (hp : WPc.parked ∈ s.workers) :
    s.queue.length ≤ s.workers.countP WPc.heading + s.subs.countP Sub.isNotifying :=
  (invW_reachable h).conserve hp

/-- consequently: when the pool's own code has come to rest — only client-controlled steps remain: a job body that has
    not returned yet (it may be waiting for a queued job!), a client that has not called Submit / Stop / Wait yet,
    HardStop's next Drop — no accepted job is left in the queue while a worker sleeps.  (This is the "no lost
    wake-up" theorem for jobs that depend on each other; `no_lost_wakeup` is the case where no client code blocks.) -/
theorem no_idle_worker_with_queued_job (h : Reachable w s) (hq : PoolAtRest s) :
    s.locked = false ∧ (s.queue = [] ∨ WPc.parked ∉ s.workers) := by
  have hr := heading_zero_of_at_rest (invA_reachable h) hq
  refine ⟨hr.1, ?_⟩
  by_cases hp : WPc.parked ∈ s.workers
  · left
    have := work_conserving h hp
    rw [hr.2.1, hr.2.2] at this
    exact List.eq_nil_of_length_eq_zero (by omega)
  · exact Or.inr hp

/-! ### the pool as a base executor for strands (composition with C07)

`poolExec n stop spur` (Proofs/PoolExec.lean) is the pool model as an *open* executor in the sense of
Proofs/StrandTower.lean: clients may call `Submit` with any fresh job at any time (Submit streams are created on
demand — the model is monotone in its workload, Proofs/PoolExt.lean), job bodies belong to the client (a body returns
when the client says so, and only then does the worker go on to `lock.lock()`).  Interface events: `sub a` = `Submit(a)`
is called, `call a` / `ret a` = the body is entered / returns, `drop a` = `a.Drop()` by the rejecting Submit or by
HardStop; every other step of the model (lock, unlock, notify, wake-up, the stopper's own steps, Wait) is invisible. -/

/-- **the FairThreadPool honours the IExecutor contract** (`Strand.ExecContract`), for every number of workers
    n ≥ 1, whichever of Stop / SoftStop / HardStop is called (or none) at whatever moment, with or without spurious
    wake-ups: it Calls / Drops only pending jobs; `Submit` can always be called and a body can always return; when
    the pool has nothing left to do and no body is running, no submitted job is pending. -/
theorem pool_honours_contract {n : Nat} (hn : 0 < n) (stop : Option StopKind) (spur : Bool) :
    Strand.ExecContract (poolExec n stop spur) := pool_contract hn stop spur

/-- the interface state of the open pool is a function of its state (`absP`), i.e. the events are the only way the
    clients' view changes: every non-event step of the pool is invisible -/
theorem pool_interface_state {n : Nat} {stop : Option StopKind} {spur : Bool} {x : (poolExec n stop spur).σ}
    {p : Strand.Prot} (h : (poolExec n stop spur).Run x p) : p = absP x ∧ Reachable (wN n stop x.m.subs.length) x.m :=
  ⟨run_abs h, (pxinv_reach h.reach).reach⟩

/-- **a pool that nobody stops never Drops**: in every reachable state of the open pool without a stopper no `drop`
    event is possible (the stop bits are never set, so no Submit rejects; there is no HardStop).  (The literal
    `CoMutex.NeverDrops (poolExec n none spur)`, which quantifies over unreachable states too, is false — see
    Proofs/PoolExecNoDrop.lean and `CoMutex.pool_none_neverDrops_false`.) -/
theorem pool_never_drops_unstopped {n : Nat} {spur : Bool} {x : (poolExec n none spur).σ}
    (hr : (poolExec n none spur).Reach x) {l : PLab} {x' : PX} (hs : (poolExec n none spur).step x l x') (a : Nat) :
    (poolExec n none spur).ev l ≠ some (.drop a) := unstopped_no_drop hr hs a

/-- the same system with the unreachable drop steps removed from its step relation (`poolExecAlive`) has the same
    reachable states and the same steps from them, never Drops from *any* state, and honours the contract — this is the
    form the composition theorem of C14 (coroutine Mutex over an executor that keeps accepting work) consumes -/
theorem unstopped_pool_alive {n : Nat} (hn : 0 < n) (spur : Bool) :
    (∀ x, (poolExecAlive n spur).Reach x ↔ (poolExec n none spur).Reach x) ∧
    (∀ x, (poolExec n none spur).Reach x → ∀ l x', (poolExecAlive n spur).step x l x' ↔ (poolExec n none spur).step x l x') ∧
    (∀ x l x' a, (poolExecAlive n spur).step x l x' → (poolExecAlive n spur).ev l ≠ some (.drop a)) ∧
    Strand.ExecContract (poolExecAlive n spur) :=
  ⟨fun _ => alive_reach_iff, fun _ h l x' => alive_step_iff h l x', alive_never_drops n spur, alive_contract hn spur⟩

/-- **strands stacked on a FairThreadPool**: a tower of strands of any height over the pool honours the contract … -/
theorem tower_over_pool {n : Nat} (hn : 0 < n) (stop : Option StopKind) (spur : Bool) (k : Nat) :
    Strand.ExecContract (Strand.tower (poolExec n stop spur) k) :=
  Strand.tower_satisfies_contract (pool_contract hn stop spur) k

/-- … and nothing is lost in it: when no thread of the whole system (clients with any workload, the strands of every
    level, the pool's workers, submitting threads and stopper) can take a step, every client has returned from its last
    Submit, the top strand is idle, and every strand below is idle with every job handed to it Called or Dropped -/
theorem tower_over_pool_nothing_lost {n : Nat} (hn : 0 < n) (stop : Option StopKind) (spur : Bool) {w : Strand.Workload}
    {k : Nat} {s : (Strand.towerTop w (poolExec n stop spur) k).σ}
    (hr : (Strand.towerTop w (poolExec n stop spur) k).Reach s)
    (hq : ∀ l s', ¬ (Strand.towerTop w (poolExec n stop spur) k).step s l s') :
    Strand.LevelDone s.1 ∧ (∀ i, s.1.sidx i = Strand.jobsOf w i) ∧
    ∀ v ∈ Strand.levels (poolExec n stop spur) k s.2.1, Strand.LevelDone v :=
  Strand.top_quiescent (pool_contract hn stop spur) hr hq

/-- non-vacuity: the open pool (one worker, Stop possible) takes a job through Submit → push → pop → Call → return;
    the client's view goes fresh → pending → calling → finished -/
example : ∃ (x : (poolExec 1 (some .stop) false).σ) (p : Strand.Prot), (poolExec 1 (some .stop) false).Run x p ∧
    p 0 = .finished ∧ p 1 = .fresh ∧ x.m.started = [⟨0, 0⟩] ∧ x.inBody = [] := by
  have h0 : (poolExec 1 (some .stop) false).Run _ _ := Strand.Exec.Run.init
  have h1 := Strand.Exec.Run.inp h0 (PStep.m 1 (next_sound (l := .submit 0 ⟨0, 0⟩) rfl) trivial (fun _ => rfl)) rfl rfl rfl
  have h2 := Strand.Exec.Run.tau h1 (PStep.m 0 (next_sound (l := .lock (.sub 0)) rfl) trivial (fun _ => rfl)) rfl
  have h3 := Strand.Exec.Run.tau h2 (PStep.m 0 (next_sound (l := .unlock (.sub 0)) rfl) trivial (fun _ => rfl)) rfl
  have h4 := Strand.Exec.Run.tau h3 (PStep.m 0 (next_sound (l := .notifyOne 0 none) rfl) trivial (fun _ => rfl)) rfl
  have h5 := Strand.Exec.Run.tau h4 (PStep.m 0 (next_sound (l := .lock (.worker 0)) rfl)
    (fun _ a => List.not_mem_nil) (fun _ => rfl)) rfl
  have h6 := Strand.Exec.Run.tau h5 (PStep.m 0 (next_sound (l := .unlock (.worker 0)) rfl) trivial (fun _ => rfl)) rfl
  have h7 := Strand.Exec.Run.out h6 (PStep.m 0 (next_sound (l := .call 0 ⟨0, 0⟩) rfl) trivial (fun _ => rfl)) rfl rfl
  have h8 := Strand.Exec.Run.inp h7 (PStep.ret (i := 0) (a := 0) (List.mem_singleton.mpr rfl)) rfl rfl rfl
  exact ⟨_, _, h8, rfl, rfl, rfl, rfl⟩

/-- everything the trace validator accepts is a behaviour the theorems speak about -/
theorem validator_sound {l : Label} {s' : State} (h : Reachable w s) (hn : next s l = some s') : Reachable w s' :=
  .step h (next_sound hn)

/-! ### non-vacuity: concrete workloads reach the interesting states -/

/-- one worker, one job, Stop after the submission: the worker sleeps, is woken by `notify_one`, sees the stop bit
    only after it drained the queue, runs the job, leaves; Wait returns -/
example : ∃ s, Reachable ⟨1, [1], some .stop⟩ s ∧ s.started = [⟨0, 0⟩] ∧ s.waitReturned = true ∧ s.cnt = 1 := by
  have h0 : Reachable (⟨1, [1], some .stop⟩ : Workload) (init ⟨1, [1], some .stop⟩) := .init
  have h1 := validator_sound h0 (l := .lock (.worker 0)) (s' := _) rfl
  have h2 := validator_sound h1 (l := .unlock (.worker 0)) (s' := _) rfl     -- waits
  have h3 := validator_sound h2 (l := .submit 0 ⟨0, 0⟩) (s' := _) rfl
  have h4 := validator_sound h3 (l := .lock (.sub 0)) (s' := _) rfl
  have h5 := validator_sound h4 (l := .unlock (.sub 0)) (s' := _) rfl        -- accepted, count = 4
  have h6 := validator_sound h5 (l := .stopBegin .stop) (s' := _) rfl
  have h7 := validator_sound h6 (l := .lock .stopper) (s' := _) rfl
  have h8 := validator_sound h7 (l := .unlock .stopper) (s' := _) rfl        -- count = 5
  have h9 := validator_sound h8 (l := .notifyOne 0 (some 0)) (s' := _) rfl
  have h10 := validator_sound h9 (l := .notifyAll .stopper) (s' := _) rfl
  have h11 := validator_sound h10 (l := .lock (.worker 0)) (s' := _) rfl
  have h12 := validator_sound h11 (l := .unlock (.worker 0)) (s' := _) rfl   -- pops although stopped
  have h13 := validator_sound h12 (l := .call 0 ⟨0, 0⟩) (s' := _) rfl
  have h14 := validator_sound h13 (l := .lock (.worker 0)) (s' := _) rfl
  have h15 := validator_sound h14 (l := .unlock (.worker 0)) (s' := _) rfl   -- count = 1, exits
  have h16 := validator_sound h15 (l := .waitReturn) (s' := _) rfl
  exact ⟨_, h16, rfl, rfl, rfl⟩

/-- HardStop takes a queued job away and Drops it; a Submit after the stop is rejected -/
example : ∃ s, Reachable ⟨1, [2], some .hard⟩ s ∧ s.started = [] ∧ s.hardDropped = [⟨0, 0⟩] ∧ s.rejected = [⟨0, 1⟩] ∧
    s.cnt = 5 := by
  have h0 : Reachable (⟨1, [2], some .hard⟩ : Workload) (init ⟨1, [2], some .hard⟩) := .init
  have h1 := validator_sound h0 (l := .submit 0 ⟨0, 0⟩) (s' := _) rfl
  have h2 := validator_sound h1 (l := .lock (.sub 0)) (s' := _) rfl
  have h3 := validator_sound h2 (l := .unlock (.sub 0)) (s' := _) rfl
  have h4 := validator_sound h3 (l := .notifyOne 0 none) (s' := _) rfl
  have h5 := validator_sound h4 (l := .stopBegin .hard) (s' := _) rfl
  have h6 := validator_sound h5 (l := .lock .stopper) (s' := _) rfl
  have h7 := validator_sound h6 (l := .unlock .stopper) (s' := _) rfl
  have h8 := validator_sound h7 (l := .notifyAll .stopper) (s' := _) rfl
  have h9 := validator_sound h8 (l := .drop .stopper ⟨0, 0⟩) (s' := _) rfl
  have h10 := validator_sound h9 (l := .submit 0 ⟨0, 1⟩) (s' := _) rfl
  have h11 := validator_sound h10 (l := .lock (.sub 0)) (s' := _) rfl
  have h12 := validator_sound h11 (l := .unlock (.sub 0)) (s' := _) rfl
  have h13 := validator_sound h12 (l := .drop (.sub 0) ⟨0, 1⟩) (s' := _) rfl
  have h14 := validator_sound h13 (l := .lock (.worker 0)) (s' := _) rfl
  have h15 := validator_sound h14 (l := .unlock (.worker 0)) (s' := _) rfl   -- sees the stop bit, leaves
  exact ⟨_, h15, rfl, rfl, rfl, rfl⟩

/-- SoftStop with a job in flight only sets the want bit (count 4 → 6); the worker that finishes the last job sets
    the stop bit (6 → 2 → 3) and notifies; two workers -/
example : ∃ s, Reachable ⟨2, [1], some .soft⟩ s ∧ s.started = [⟨0, 0⟩] ∧ s.cnt = 3 ∧ s.workers = [.exited, .exited] ∧
    s.waitReturned = true := by
  have h0 : Reachable (⟨2, [1], some .soft⟩ : Workload) (init ⟨2, [1], some .soft⟩) := .init
  have h1 := validator_sound h0 (l := .lock (.worker 1)) (s' := _) rfl
  have h2 := validator_sound h1 (l := .unlock (.worker 1)) (s' := _) rfl     -- worker 1 waits
  have h3 := validator_sound h2 (l := .submit 0 ⟨0, 0⟩) (s' := _) rfl
  have h4 := validator_sound h3 (l := .lock (.sub 0)) (s' := _) rfl
  have h5 := validator_sound h4 (l := .unlock (.sub 0)) (s' := _) rfl
  have h6 := validator_sound h5 (l := .lock (.worker 0)) (s' := _) rfl
  have h7 := validator_sound h6 (l := .unlock (.worker 0)) (s' := _) rfl     -- worker 0 pops
  have h8 := validator_sound h7 (l := .stopBegin .soft) (s' := _) rfl
  have h9 := validator_sound h8 (l := .lock .stopper) (s' := _) rfl
  have h10 := validator_sound h9 (l := .unlock .stopper) (s' := _) rfl       -- want bit only
  have h11 := validator_sound h10 (l := .notifyOne 0 (some 1)) (s' := _) rfl
  have h12 := validator_sound h11 (l := .lock (.worker 1)) (s' := _) rfl
  have h13 := validator_sound h12 (l := .unlock (.worker 1)) (s' := _) rfl   -- a job is running: waits again
  have h14 := validator_sound h13 (l := .call 0 ⟨0, 0⟩) (s' := _) rfl
  have h15 := validator_sound h14 (l := .lock (.worker 0)) (s' := _) rfl
  have h16 := validator_sound h15 (l := .unlock (.worker 0)) (s' := _) rfl   -- NoJobs && WantStop: Stop
  have h17 := validator_sound h16 (l := .notifyAll (.worker 0)) (s' := _) rfl
  have h18 := validator_sound h17 (l := .lock (.worker 1)) (s' := _) rfl
  have h19 := validator_sound h18 (l := .unlock (.worker 1)) (s' := _) rfl   -- Stop once more, harmless
  have h20 := validator_sound h19 (l := .notifyAll (.worker 1)) (s' := _) rfl
  have h21 := validator_sound h20 (l := .waitReturn) (s' := _) rfl
  exact ⟨_, h21, rfl, rfl, rfl, rfl⟩

/-- the quiescence theorem is not vacuous: without a stopper the pool comes to rest with all workers asleep -/
example : ∃ s, Reachable ⟨1, [], none⟩ s ∧ s.workers = [.parked] ∧ s.locked = false := by
  have h0 : Reachable (⟨1, [], none⟩ : Workload) (init ⟨1, [], none⟩) := .init
  have h1 := validator_sound h0 (l := .lock (.worker 0)) (s' := _) rfl
  have h2 := validator_sound h1 (l := .unlock (.worker 0)) (s' := _) rfl
  exact ⟨_, h2, rfl, rfl⟩

end Yaclib.Props.C08

/-! ### tie to the source
T1: `Extracted/PoolConsts.lean` (bit predicates and increments of `_jobs_count`) is regenerated from /repo on every
check run; the model *uses* those definitions, and the layout the proofs rely on is re-proved from them here.
T2: the kernels this model was written from are unchanged (`Extracted/Kernels.lean` is regenerated, too). -/
namespace Yaclib.Props.C08.Tie
open Yaclib Yaclib.Extracted.PoolConsts

theorem t1_extraction_ok : extractionOk = true := Pool.Bits.extraction_ok
theorem t1_init : initCount = 0 := Pool.Bits.initCount_eq
/-- count = 4 * jobs + 2 * wantStop + wasStop -/
theorem t1_layout (jobs : Nat) (want was : Bool) :
    let c := 4 * jobs + 2 * want.toNat + was.toNat
    wasStop c = was ∧ wantStop c = want ∧ noJobs c = decide (jobs = 0) ∧
    submitAdd c = 4 * (jobs + 1) + 2 * want.toNat + was.toNat ∧
    (0 < jobs → loopSub c = 4 * (jobs - 1) + 2 * want.toNat + was.toNat) ∧
    softWant c = 4 * jobs + 2 + was.toNat ∧ stopSet c = 4 * jobs + 2 * want.toNat + 1 := by
  intro c
  rw [Pool.Bits.wasStop_eq, Pool.Bits.wantStop_eq, Pool.Bits.noJobs_eq, Pool.Bits.submitAdd_eq, Pool.Bits.loopSub_eq,
    Pool.Bits.softWant_eq, Pool.Bits.stopSet_eq]
  have hc : c = 4 * jobs + 2 * want.toNat + was.toNat := rfl
  cases want <;> cases was <;> simp only [Bool.toNat_true, Bool.toNat_false] at hc <;>
    refine ⟨?_, ?_, ?_, ?_, ?_, ?_, ?_⟩ <;> (try intro _) <;>
    simp only [Bool.toNat_true, Bool.toNat_false, decide_eq_true_eq, decide_eq_false_iff_not,
      decide_eq_decide] <;> omega

theorem tie_ctor : Extracted.Kernels.FairThreadPool_ctor = Skeletons.FairThreadPool_ctor := rfl
theorem tie_Submit : Extracted.Kernels.FairThreadPool_Submit = Skeletons.FairThreadPool_Submit := rfl
theorem tie_SoftStop : Extracted.Kernels.FairThreadPool_SoftStop = Skeletons.FairThreadPool_SoftStop := rfl
theorem tie_Stop : Extracted.Kernels.FairThreadPool_Stop = Skeletons.FairThreadPool_Stop := rfl
theorem tie_StopLocked : Extracted.Kernels.FairThreadPool_StopLocked = Skeletons.FairThreadPool_StopLocked := rfl
theorem tie_HardStop : Extracted.Kernels.FairThreadPool_HardStop = Skeletons.FairThreadPool_HardStop := rfl
theorem tie_Wait : Extracted.Kernels.FairThreadPool_Wait = Skeletons.FairThreadPool_Wait := rfl
theorem tie_Loop : Extracted.Kernels.FairThreadPool_Loop = Skeletons.FairThreadPool_Loop := rfl
theorem tie_WasStop : Extracted.Kernels.FairThreadPool_WasStop = Skeletons.FairThreadPool_WasStop := rfl
theorem tie_WantStop : Extracted.Kernels.FairThreadPool_WantStop = Skeletons.FairThreadPool_WantStop := rfl
theorem tie_NoJobs : Extracted.Kernels.FairThreadPool_NoJobs = Skeletons.FairThreadPool_NoJobs := rfl
theorem tie_Alive : Extracted.Kernels.FairThreadPool_Alive = Skeletons.FairThreadPool_Alive := rfl
theorem tie_List_MoveCtor : Extracted.Kernels.List_MoveCtor = Skeletons.List_MoveCtor := rfl
theorem tie_List_PushBack : Extracted.Kernels.List_PushBack = Skeletons.List_PushBack := rfl
theorem tie_List_Empty : Extracted.Kernels.List_Empty = Skeletons.List_Empty := rfl
theorem tie_List_PopFront : Extracted.Kernels.List_PopFront = Skeletons.List_PopFront := rfl

end Yaclib.Props.C08.Tie
