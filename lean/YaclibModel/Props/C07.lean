/-
C07 — Strand: one job at a time, in submission order, none lost.

Property theorems about the model `Yaclib.Strand` (Model/Strand.lean) for **every** workload `w` (any number of
submitting threads, any number of jobs per thread), every interleaving at atomic-operation granularity, every
admissible stale read, every number of spurious weak-CAS failures and **every** behaviour of the underlying
executor that honours the `IExecutor` contract (each activation handed to it is started exactly once, at any
time, on any thread, concurrently with anything, as Call or as Drop).
Helper lemmas and the inductive invariants are in Proofs/Strand*.lean.  Happens-before between consecutive jobs
is C04 (`strand_jobs_ordered`), not stated here.
-/
import YaclibModel.Proofs.StrandRun
import YaclibModel.Proofs.StrandTowerBase
import YaclibModel.Proofs.StrandTowerInline
import YaclibModel.Proofs.StrandTowerManual
import YaclibModel.Proofs.StrandTowerNoDrop
import YaclibModel.Proofs.PoolExecContract
import YaclibModel.Extracted.Kernels
import YaclibModel.Model.Skeletons

namespace Yaclib.Props.C07
open Yaclib.Strand

variable {w : Workload} {s : State}

/-- **token invariant**: the word is the idle marker iff nobody is responsible for the strand; otherwise exactly
    the party named by the ghost `holder` is: a submitter between its successful CAS on the marker and
    `_executor->Submit(*this)`, or an activation that is queued / running a batch / about to resubmit. -/
theorem token_inv (h : Reachable w s) :
    (s.holder = none ↔ s.word = .mark) ∧
    (∀ i, s.spc i = .sched ↔ s.holder = some (.sub i)) ∧
    (∀ a, holdsTok (s.acts a) = true ↔ s.holder = some (.act a)) :=
  let hi := (inv_reachable h).tok
  ⟨hi.tok_none, hi.tok_sub, hi.tok_act⟩

/-- the strand is never scheduled twice: a non-idle word has an owner … -/
theorem token_exists (h : Reachable w s) (hw : s.word ≠ .mark) :
    (∃ i, s.spc i = .sched) ∨ (∃ a, holdsTok (s.acts a) = true) := by
  have hi := (inv_reachable h).tok
  cases hh : s.holder with
  | none => exact absurd (hi.tok_none.mp hh) hw
  | some x =>
      cases x with
      | sub i => exact Or.inl ⟨i, (hi.tok_sub i).mpr hh⟩
      | act a => exact Or.inr ⟨a, (hi.tok_act a).mpr hh⟩

/-- … and an idle word has none -/
theorem idle_no_token (h : Reachable w s) (hw : s.word = .mark) :
    (∀ i, s.spc i ≠ .sched) ∧ (∀ a, holdsTok (s.acts a) = false) := by
  have hi := (inv_reachable h).tok
  have hh := hi.tok_none.mpr hw
  constructor
  · intro i hs; have := (hi.tok_sub i).mp hs; rw [hh] at this; cases this
  · intro a
    cases hx : holdsTok (s.acts a) with
    | false => rfl
    | true => have := (hi.tok_act a).mp hx; rw [hh] at this; cases this

/-- **at most one activation** is queued or running a batch at any time, and none while a submitter is still
    on its way to schedule the strand -/
theorem at_most_one_activation (h : Reachable w s) :
    (∀ a b, holdsTok (s.acts a) = true → holdsTok (s.acts b) = true → a = b) ∧
    (∀ i a, s.spc i = .sched → holdsTok (s.acts a) = false) ∧
    (∀ i i', s.spc i = .sched → s.spc i' = .sched → i = i') := by
  have hi := (inv_reachable h).tok
  refine ⟨?_, ?_, ?_⟩
  · intro a b ha hb
    have h1 := (hi.tok_act a).mp ha
    have h2 := (hi.tok_act b).mp hb
    rw [h1] at h2; cases h2; rfl
  · intro i a hs
    cases hx : holdsTok (s.acts a) with
    | false => rfl
    | true =>
        have h1 := (hi.tok_sub i).mp hs
        have h2 := (hi.tok_act a).mp hx
        rw [h1] at h2; cases h2
  · intro i i' h1 h2
    have h1 := (hi.tok_sub i).mp h1
    have h2 := (hi.tok_sub i').mp h2
    rw [h1] at h2; cases h2; rfl

/-- **jobs never overlap**: at most one job body is running … -/
theorem jobs_never_overlap (h : Reachable w s) : s.running ≤ 1 := by
  have hi := (inv_reachable h).tok
  rw [hi.running_eq, curBusy]
  cases s.holder with
  | none => simp [busyOf]
  | some x => cases x <;> simp [busyOf]; split <;> omega

/-- … and a job body is entered only when none is running -/
theorem begin_only_when_idle (h : Reachable w s) {a : Nat} {j : JobId} {s' : State} (hs : Step s (.aBegin a j) s') :
    s.running = 0 := by
  have hi := (inv_reachable h).tok
  cases hs with
  | aBegin _ _ rem hp =>
      have hh := (hi.tok_act a).mp (by rw [hp]; rfl)
      rw [hi.running_eq, curBusy, hh]
      simp [busyOf, hp, isBusy]

/-- **the batch runner never dereferences nullptr or the marker**: no activation ever reaches `crashed` … -/
theorem no_mark_deref (h : Reachable w s) : ∀ a, s.acts a ≠ .crashed := (inv_reachable h).tok.no_crash

/-- … because every `exchange` (by `Call` and by `Drop`) finds a non-empty list -/
theorem exchange_finds_jobs (h : Reachable w s) {a : Nat} {s' : State}
    (hs : Step s (.aCall a) s' ∨ Step s (.aDropX a) s') : ∃ j js, s.word = .list (j :: js) := by
  have hi := (inv_reachable h).tok
  rcases hs with hs | hs
  · cases hs with
    | aCall _ hp => exact word_nonempty_cases (hi.tok_act_word a (by rw [hp]; rfl))
  · cases hs with
    | aDropX _ hp => exact word_nonempty_cases (hi.tok_act_word a (by rw [hp]; rfl))

/-- **execution order = order in which the submissions took effect.**  Every successful push is either already
    taken out of the inbox by an exchange (`taken`, in push order, tagged Call / Drop) or still in the inbox; and
    what the Call activations took is exactly what has been executed, in that order, followed by the not yet
    executed rest of the current batch. -/
theorem executed_eq_push_order (h : Reachable w s) :
    s.pushOrder = fsts s.taken ++ s.word.inbox.reverse ∧ calls s.taken = s.executed ++ curRem s :=
  ⟨(inv_reachable h).ord.order, (inv_reachable h).ord.exec_eq⟩

/-- in particular the executed jobs are a subsequence of the successful pushes … -/
theorem executed_sublist_push_order (h : Reachable w s) : s.executed.Sublist s.pushOrder := by
  have ho := (inv_reachable h).ord
  have h1 : s.executed.Sublist (calls s.taken) := by rw [ho.exec_eq]; exact List.sublist_append_left _ _
  have h2 : (fsts s.taken).Sublist s.pushOrder := by rw [ho.order]; exact List.sublist_append_left _ _
  exact (h1.trans (calls_sublist _)).trans h2

/-- … and as long as the underlying executor has not refused an activation, they are exactly a prefix of them:
    pushes = executed ++ rest of the running batch ++ inbox (oldest first) -/
theorem executed_eq_push_order_nodrop (h : Reachable w s) (hd : s.execDrops = 0) :
    s.pushOrder = s.executed ++ curRem s ++ s.word.inbox.reverse := by
  have ho := (inv_reachable h).ord
  rw [← ho.exec_eq, calls_eq_fsts (ho.nodrop hd)]
  exact ho.order

/-- **program order per submitter**: two executed jobs of the same submitter ran in the order they were submitted
    (and so did their pushes take effect) -/
theorem fifo_per_submitter (h : Reachable w s) :
    s.executed.Pairwise (fun a b => a.sub = b.sub → a.idx < b.idx) ∧
    s.pushOrder.Pairwise (fun a b => a.sub = b.sub → a.idx < b.idx) :=
  ⟨List.Pairwise.sublist (executed_sublist_push_order h) (inv_reachable h).ord.push_pw, (inv_reachable h).ord.push_pw⟩

/-- only jobs of the workload are ever pushed, each at most once -/
theorem pushes_are_jobs (h : Reachable w s) : s.pushOrder.Nodup ∧ ∀ j ∈ s.pushOrder, j.idx < jobsOf w j.sub := by
  have hi := inv_reachable h
  refine ⟨hi.ord.push_nodup, fun j hj => ?_⟩
  have h1 := hi.ord.push_lt j hj
  have h2 := hi.tok.sidx_le j.sub
  omega

/-- **Called xor Dropped, at most once**: no job body is entered twice, no job is Dropped twice, and no job is both -/
theorem called_xor_dropped (h : Reachable w s) :
    s.executed.Nodup ∧ s.dropped.Nodup ∧ ∀ j, j ∈ s.executed → j ∉ s.dropped := by
  have hi := inv_reachable h
  refine ⟨?_, hi.drop.dropped_nodup, ?_⟩
  · have h1 : (calls s.taken).Nodup := List.Nodup.sublist (calls_sublist _) hi.ord.fsts_nodup
    rw [hi.ord.exec_eq, List.nodup_append] at h1
    exact h1.1
  · intro j hc hd
    exact hi.ord.taken_excl (executed_taken (inv_reachable h).ord hc) (hi.drop.drop_taken j hd)

/-- a job is Dropped only if the underlying executor refused an activation of the strand -/
theorem dropped_only_if_executor_dropped (h : Reachable w s) (hd : s.dropped ≠ []) : 0 < s.execDrops := by
  have hi := inv_reachable h
  cases hdl : s.dropped with
  | nil => exact absurd hdl hd
  | cons j rest =>
      have hm := hi.drop.drop_taken j (by rw [hdl]; exact List.mem_cons_self)
      apply Nat.pos_of_ne_zero
      intro h0
      have := hi.ord.nodrop h0 _ hm
      cases this

/-- **nothing is lost** (safety form): in every state in which no thread of the system can take a step — no
    submitter, no activation, and nothing left in the underlying executor — every submitter has returned from its
    last Submit, the word is the idle marker again, no job body is running, and every job of the workload has been
    Called or Dropped (by `called_xor_dropped`: exactly one of the two, exactly once). -/
theorem quiescent_all_done (h : Reachable w s) (hq : ∀ l s', ¬ Step s l s') :
    (∀ i, s.spc i = .idle ∧ s.sidx i = jobsOf w i) ∧ (∀ a, s.acts a = .none ∨ s.acts a = .done) ∧
    s.word = .mark ∧ s.running = 0 ∧
    ∀ i k, k < jobsOf w i → (⟨i, k⟩ : JobId) ∈ s.executed ∨ (⟨i, k⟩ : JobId) ∈ s.dropped := by
  have hi := inv_reachable h
  obtain ⟨hs, ha⟩ := quiescent_threads hi.tok hq
  obtain ⟨hh, hwm⟩ := quiescent_idle hi.tok hq
  refine ⟨hs, ha, hwm, ?_, ?_⟩
  · rw [hi.tok.running_eq, curBusy, hh]; rfl
  · intro i k hk
    have hp : (⟨i, k⟩ : JobId) ∈ s.pushOrder := hi.ord.push_mem i k (by rw [(hs i).2]; exact hk)
    rw [hi.ord.order, hwm] at hp
    simp only [Word.inbox, List.reverse_nil, List.append_nil] at hp
    rcases mem_fsts.mp hp with ht | ht
    · left
      have := mem_calls.mpr ht
      rw [hi.ord.exec_eq, curRem, hh] at this
      simpa [remOf] using this
    · right
      rcases hi.drop.taken_drop _ ht with hd | hd
      · exact hd
      · rcases ha (s.takenBy ⟨i, k⟩) with hx | hx <;> rw [hx] at hd <;> simp [drainRem] at hd

/-- the hypothesis of `quiescent_all_done` is exactly "every submitter has returned from its last Submit and every
    activation that was created has returned" (so it is reached by every run that lets the threads finish) -/
theorem quiescent_iff_finished (h : Reachable w s) :
    (∀ l s', ¬ Step s l s') ↔ ((∀ i, subFinished w s i) ∧ (∀ a, actTerminal (s.acts a))) :=
  ⟨quiescent_threads (inv_reachable h).tok, fun hf => finished_quiescent (inv_reachable h).tok hf.1 hf.2⟩

/-- **the strand never blocks**: whatever the other threads do, a submitter inside `Submit` and a started
    activation (a thread of the underlying executor inside `Strand::Call` / `Strand::Drop`) always has an enabled
    step of its own — the model has no waiting rule, and none is needed to prove the rest; a queued activation can
    always be started.  (The CAS loop is lock-free, not wait-free: it retries only when another push or exchange
    took effect, or spuriously.) -/
theorem never_blocks (h : Reachable w s) :
    (∀ i, ¬ subFinished w s i → ∃ l s', Step s l s' ∧ l.actor = .sub i) ∧
    (∀ a, ¬ actTerminal (s.acts a) → ∃ l s', Step s l s' ∧ l.actor = .act a) :=
  ⟨sub_enabled (inv_reachable h).tok, act_enabled (inv_reachable h).tok⟩

/-- the `IExecutor` contract as a predicate on the monotone histories of an executor -/
structure ExecutorContract (submitted called dropped : List JobId) : Prop where
  called_once : called.Nodup
  dropped_once : dropped.Nodup
  not_both : ∀ j, j ∈ called → j ∉ dropped
  only_submitted : ∀ j, j ∈ called ∨ j ∈ dropped → j ∈ submitted

/-- **the strand is itself an executor honouring the contract** whenever the underlying executor does (which is all
    the model assumes about it): every job handed to `Strand::Submit` is Called or Dropped at most once, never both,
    and only after its submission took effect; with `quiescent_all_done` (exactly once, eventually) and
    `never_blocks` this is the contract the model assumes of the *underlying* executor, so a strand may serve as the
    underlying executor of another strand (strands over strands), to any depth. -/
theorem refines_executor_contract (h : Reachable w s) : ExecutorContract s.pushOrder s.executed s.dropped := by
  have hi := inv_reachable h
  obtain ⟨h1, h2, h3⟩ := called_xor_dropped h
  refine ⟨h1, h2, h3, ?_⟩
  rintro j (hj | hj)
  · exact (executed_sublist_push_order h).subset hj
  · have := hi.drop.drop_taken j hj
    rw [hi.ord.order]
    exact List.mem_append_left _ (mem_fsts.mpr (Or.inr this))

/-- everything the trace validator accepts is a behaviour the theorems speak about -/
theorem validator_sound {l : Label} {s' : State} (h : Reachable w s) (hn : next s l = some s') : Reachable w s' :=
  .step h (next_sound hn)

/-! ### non-vacuity: concrete workloads reach the interesting states -/

def j00 : JobId := ⟨0, 0⟩
def j01 : JobId := ⟨0, 1⟩
def j10 : JobId := ⟨1, 0⟩

/-- two submitters race for the idle strand: the loser's CAS fails, reloads, pushes on top; one activation runs
    both jobs in the order the pushes took effect and gives the strand back -/
example : ∃ s, Reachable [1, 1] s ∧
    (s.executed, s.pushOrder, s.word, s.nacts, s.running) = ([j00, j10], [j00, j10], Word.mark, 1, 0) :=
  run_witness (ls := [.sLoad 0 .mark, .sLoad 1 .mark, .sCasOk 0, .sCasFail 1 (.job j00), .sCasOk 1, .sSched 0,
    .aCall 0, .aBegin 0 j00, .aEnd 0 j00, .aBegin 0 j10, .aEnd 0 j10, .aLoad 0 true, .aCasOk 0]) _ _ rfl

/-- the window of the property statement: a submission lands between the batch runner's last check (it saw
    nullptr) and its CAS back to idle — the submitter does not schedule (it saw nullptr, not the marker), the
    runner's CAS fails, it resubmits the strand and the job runs in a second activation: nothing is lost -/
example : ∃ s, Reachable [1, 1] s ∧ (s.executed, s.word, s.nacts, s.dropped) = ([j00, j10], Word.mark, 2, []) :=
  run_witness (ls := [.sLoad 0 .mark, .sCasOk 0, .sSched 0, .aCall 0, .aBegin 0 j00, .aEnd 0 j00, .aLoad 0 true,
    .sLoad 1 .null, .sCasOk 1, .aCasFail 0, .aResub 0, .aCall 1, .aBegin 1 j10, .aEnd 1 j10, .aLoad 1 true,
    .aCasOk 1]) _ _ rfl

/-- stale pre-check loads and a spurious failure change nothing: the submitter still sees the marker it loaded
    long ago, the CAS re-validates it -/
example : ∃ s, Reachable [1, 1] s ∧ (s.executed, s.word, s.nacts) = ([j00, j10], Word.mark, 2) :=
  run_witness (ls := [.sLoad 1 .mark, .sLoad 0 .mark, .sCasSpur 0, .sCasOk 0, .sSched 0, .aCall 0, .aBegin 0 j00,
    .aEnd 0 j00, .aLoad 0 true, .aCasOk 0, .sCasOk 1, .sSched 1, .aCall 1, .aBegin 1 j10, .aEnd 1 j10,
    .aLoad 1 true, .aCasOk 1]) _ _ rfl

/-- … whereas a stale marker does not let a submitter schedule a strand that is already scheduled: the CAS fails -/
example : (runL (init [1, 1]) [.sLoad 1 .mark, .sLoad 0 .mark, .sCasOk 0, .sCasOk 1]).isNone = true := rfl

/-- the underlying executor refuses the activation: both jobs are Dropped (and the strand is idle again) -/
example : ∃ s, Reachable [2] s ∧ (s.executed, s.dropped, s.word, s.execDrops) = ([], [j01, j00], Word.mark, 1) :=
  run_witness (ls := [.sLoad 0 .mark, .sCasOk 0, .sSched 0, .sLoad 0 (.job j00), .sCasOk 0, .aDropX 0, .aDrop 0 j01,
    .aDrop 0 j00]) _ _ rfl

/-! ### observations about `Strand::Drop` (not part of the property as stated, reported in notes/C07.md)

`Strand::Drop` walks the inbox without reversing it and has already published the idle marker when it does so. -/

/-- jobs of one batch are Dropped in the reverse of their submission order (most recently pushed first), also
    for one submitter: `j01` was submitted after `j00` by the same thread and is Dropped before it -/
theorem drop_order_is_lifo_witness : ∃ s, Reachable [2] s ∧ s.pushOrder = [j00, j01] ∧ s.dropped = [j01, j00] := by
  obtain ⟨s, h, he⟩ := run_witness (w := [2]) (ls := [.sLoad 0 .mark, .sCasOk 0, .sSched 0, .sLoad 0 (.job j00),
    .sCasOk 0, .aDropX 0, .aDrop 0 j01, .aDrop 0 j00]) (fun s => (s.pushOrder, s.dropped)) _ rfl
  exact ⟨s, h, congrArg Prod.fst he, congrArg Prod.snd he⟩

/-- a Drop activation that is still walking its batch does not own the strand any more: if the underlying
    executor accepts work again, a later job's body (`j10`) runs while an earlier job (`j00`) is being Dropped -/
theorem drop_may_overlap_call_witness :
    ∃ s s', Reachable [2, 1] s ∧ s.running = 1 ∧ s.acts 1 = .busy j10 [] ∧ Step s (.aDrop 0 j00) s' := by
  obtain ⟨s, h, he⟩ := run_witness (w := [2, 1]) (ls := [.sLoad 0 .mark, .sCasOk 0, .sSched 0, .sLoad 0 (.job j00),
    .sCasOk 0, .aDropX 0, .aDrop 0 j01, .sLoad 1 .mark, .sCasOk 1, .sSched 1, .aCall 1, .aBegin 1 j10])
    (fun s => (s.running, s.acts 1, s.acts 0)) _ rfl
  have h1 : s.running = 1 := congrArg Prod.fst he
  have h2 : s.acts 1 = .busy j10 [] := congrArg (fun x => x.2.1) he
  have h3 : s.acts 0 = .drain [j00] := congrArg (fun x => x.2.2) he
  exact ⟨s, _, h, h1, h2, .aDrop s 0 j00 [] h3⟩

/-! ### strands over strands: towers of any height over any executor that honours the contract

`Exec` (Proofs/StrandTower.lean) is an executor as an open transition system with the client-interface events
`sub a` / `call a` / `ret a` / `drop a`; `ExecContract E` is the `IExecutor` contract for it (Calls / Drops only
pending jobs, accepts every Submit and every return, nothing pending when it has nothing left to do).
`strandExec w L` (Proofs/StrandTowerProd.lean) composes the single-strand model with a lower executor `L`: the
model's environment steps (`sSched`/`aResub` = Submit of activation a, `aCall a`, `aDropX a`) happen only as the
events `sub a` / `call a` / `drop a` of `L`, and `L`'s job a returns only after activation a has returned.
`strandOver L = strandExec ones L` is the strand as an open executor again, `tower base n` iterates it. -/

/-- the most general executor honouring the contract (the environment of the single-strand model) honours it -/
theorem specBase_honours_contract : ExecContract specBase := specBase_contract

/-- a restrictive base honours it too: one worker thread with a FIFO queue (abstraction of a one-thread pool / of a
    manual executor drained by one thread) that may refuse the job at the head of its queue at any time -/
theorem worker1_honours_contract : ExecContract worker1 := worker1_contract

/-- **contract preservation**, in the form that iterates -/
theorem strand_refines_contract {L : Exec} (hL : ExecContract L) : ExecContract (strandOver L) :=
  Yaclib.Strand.strand_refines_contract hL

/-- **towers**: n strands on top of each other over any contract-honouring base honour the contract, for every n -/
theorem tower_satisfies_contract {base : Exec} (hb : ExecContract base) : ∀ n, ExecContract (tower base n) :=
  Yaclib.Strand.tower_satisfies_contract hb

/-- e.g. strands over strands … over a single worker, and over the most general executor -/
theorem tower_over_worker1_and_spec (n : Nat) : ExecContract (tower worker1 n) ∧ ExecContract (tower specBase n) :=
  ⟨tower_satisfies_contract worker1_contract n, tower_satisfies_contract specBase_contract n⟩

/-- … and over the FairThreadPool model of C08 (`Pool.poolExec`: n ≥ 1 workers, Stop / SoftStop / HardStop or nobody at
    any moment, with or without spurious wake-ups; `Pool.pool_contract`, stated as `pool_honours_contract` in Props/C08) -/
theorem tower_over_pool {n : Nat} (hn : 0 < n) (stop : Option Pool.StopKind) (spur : Bool) (k : Nat) :
    ExecContract (tower (Pool.poolExec n stop spur) k) :=
  tower_satisfies_contract (Pool.pool_contract hn stop spur) k

/-! #### the library's Inline and Manual executors as bases (models in Proofs/StrandTowerInline.lean, StrandTowerManual.lean) -/

/-- `MakeInline()` (`alive = true`: Submit Calls the job at once in the caller's thread) and `MakeInline(StopTag)`
    (`alive = false`: Submit Drops it at once) honour the contract; no client obligation beyond the protocol -/
theorem inline_honours_contract (alive : Bool) : ExecContract (inlineExec alive) := inline_contract alive

/-- `Alive()` is `!Stopped`: the alive Inline never Drops, the stopped one never Calls -/
theorem inline_alive_iff_calls {p p' : Prot} {a : Nat} :
    ¬ (inlineExec true).step p (.drop a) p' ∧ ¬ (inlineExec false).step p (.call a) p' :=
  ⟨inline_alive_never_drops, inline_stopped_never_calls⟩

/-- the ManualExecutor honours the contract **under the obligation that its owner keeps draining it and does not
    destroy it while jobs are queued**: in `manualExec false` entering `Drain()` is a step that is enabled whenever
    something is queued (the owner's side, like `ret` is the job's side), which is what makes "nothing pending when
    nothing can move" true.  It never Drops (`Alive()` is constantly true; there is no Stop). -/
theorem manual_honours_contract : ExecContract (manualExec false) := manual_contract

/-- … and the obligation is necessary: the code has no destructor that Drops the queue, so with an owner that may
    destroy the executor at any moment (`manualExec true`) a submitted job can end up neither Called nor Dropped -/
theorem manual_needs_draining_owner_witness : ¬ ExecContract (manualExec true) := manual_destroy_leaks_witness

/-- towers of strands over the Inline executors and over a (drained) ManualExecutor honour the contract … -/
theorem tower_over_inline (alive : Bool) (n : Nat) : ExecContract (tower (inlineExec alive) n) :=
  tower_satisfies_contract (inline_contract alive) n

theorem tower_over_manual (n : Nat) : ExecContract (tower (manualExec false) n) :=
  tower_satisfies_contract manual_contract n

/-- … and lose nothing: when nothing in the whole system (clients with any workload, n strands, the Inline executor
    or the ManualExecutor with its draining owner) can move, every job of the workload was Called or Dropped by the
    top strand and every level is idle and done.  (Over the stopped Inline executor every job is Dropped; over the
    ManualExecutor the state cannot be quiescent while a strand activation is queued, because `Drain()` is enabled.) -/
theorem tower_over_inline_nothing_lost (alive : Bool) {w : Workload} {n : Nat} {s : (towerTop w (inlineExec alive) n).σ}
    (hr : (towerTop w (inlineExec alive) n).Reach s) (hq : ∀ l s', ¬ (towerTop w (inlineExec alive) n).step s l s') :
    LevelDone s.1 ∧ (∀ i k, k < jobsOf w i → (⟨i, k⟩ : JobId) ∈ s.1.executed ∨ (⟨i, k⟩ : JobId) ∈ s.1.dropped) ∧
    ∀ v ∈ levels (inlineExec alive) n s.2.1, LevelDone v := by
  obtain ⟨h1, h2, h3⟩ := top_quiescent (inline_contract alive) hr hq
  exact ⟨h1, fun i k hk => h1.all_done i k (by rw [h2 i]; exact hk), h3⟩

theorem tower_over_manual_nothing_lost {w : Workload} {n : Nat} {s : (towerTop w (manualExec false) n).σ}
    (hr : (towerTop w (manualExec false) n).Reach s) (hq : ∀ l s', ¬ (towerTop w (manualExec false) n).step s l s') :
    LevelDone s.1 ∧ (∀ i k, k < jobsOf w i → (⟨i, k⟩ : JobId) ∈ s.1.executed ∨ (⟨i, k⟩ : JobId) ∈ s.1.dropped) ∧
    ∀ v ∈ levels (manualExec false) n s.2.1, LevelDone v := by
  obtain ⟨h1, h2, h3⟩ := top_quiescent manual_contract hr hq
  exact ⟨h1, fun i k hk => h1.all_done i k (by rw [h2 i]; exact hk), h3⟩

/-- non-vacuity: one strand over a ManualExecutor — the job is pushed, the strand's activation is queued in the
    ManualExecutor, the owner enters `Drain()`, the loop Calls the activation, which runs the job and gives the strand
    back; `Drain()` returns 1 -/
example : ∃ (s : (tower (manualExec false) 1).σ) (p : Prot), (tower (manualExec false) 1).Run s p ∧ p 0 = .finished ∧
    (levels (manualExec false) 1 s).map (·.executed) = [[j00]] ∧ s.2.1.queue = [] ∧ s.2.1.draining = false ∧
    s.2.1.done = 1 := by
  have h0 : (tower (manualExec false) 1).Run (tower (manualExec false) 1).init protInit := .init
  have h1 := Exec.Run.inp h0 (PStep.up (viaNext (.sLoad 0 .mark) rfl) rfl) rfl rfl rfl
  have h2 := Exec.Run.tau h1 (PStep.up (viaNext (.sCasOk 0) rfl) rfl) rfl
  have h3 := Exec.Run.tau h2 (PStep.sync (viaNext (.sSched 0) rfl) rfl
    (lx := MLab.ev (.sub 0)) (x' := _) (by exact ⟨rfl, rfl, rfl⟩) rfl) rfl
  have h4 := Exec.Run.tau h3 (PStep.low (lx := MLab.drainEnter) (x' := _) (by exact ⟨rfl, rfl, by simp, rfl⟩) rfl) rfl
  have h5 := Exec.Run.tau h4 (PStep.sync (viaNext (.aCall 0) rfl) rfl
    (lx := MLab.ev (.call 0)) (x' := _) (by exact ⟨rfl, rfl, rfl, [], rfl, rfl⟩) rfl) rfl
  have h6 := Exec.Run.out h5 (PStep.up (viaNext (.aBegin 0 j00) rfl) rfl) rfl rfl
  have h7 := Exec.Run.inp h6 (PStep.up (viaNext (.aEnd 0 j00) rfl) rfl) rfl rfl rfl
  have h8 := Exec.Run.tau h7 (PStep.up (viaNext (.aLoad 0 true) rfl) rfl) rfl
  have h9 := Exec.Run.tau h8 (PStep.up (viaNext (.aCasOk 0) rfl) rfl) rfl
  have h10 := Exec.Run.tau h9 (PStep.lret (lx := MLab.ev (.ret 0)) (x' := _) (by exact ⟨rfl, rfl, rfl⟩) rfl rfl
    (Or.inr rfl)) rfl
  have h11 := Exec.Run.tau h10 (PStep.low (lx := MLab.drainExit) (x' := _) (by exact ⟨rfl, rfl, rfl, rfl, rfl⟩) rfl) rfl
  exact ⟨_, _, h11, rfl, rfl, rfl, rfl, rfl⟩

/-- non-vacuity: one strand over `MakeInline(StopTag)` — Submit of the strand's activation Drops it at once, the
    strand Drops the job and is idle again -/
example : ∃ (s : (tower (inlineExec false) 1).σ) (p : Prot), (tower (inlineExec false) 1).Run s p ∧ p 0 = .finished ∧
    (levels (inlineExec false) 1 s).map (fun v => (v.executed, v.dropped, v.word)) = [([], [j00], .mark)] := by
  have h0 : (tower (inlineExec false) 1).Run (tower (inlineExec false) 1).init protInit := .init
  have h1 := Exec.Run.inp h0 (PStep.up (viaNext (.sLoad 0 .mark) rfl) rfl) rfl rfl rfl
  have h2 := Exec.Run.tau h1 (PStep.up (viaNext (.sCasOk 0) rfl) rfl) rfl
  have h3 := Exec.Run.tau h2 (PStep.sync (viaNext (.sSched 0) rfl) rfl
    (lx := XEv.sub 0) (x' := _) (by exact ⟨rfl, rfl⟩) rfl) rfl
  have h4 := Exec.Run.tau h3 (PStep.sync (viaNext (.aDropX 0) rfl) rfl
    (lx := XEv.drop 0) (x' := _) (by exact ⟨rfl, rfl, rfl⟩) rfl) rfl
  have h5 := Exec.Run.out h4 (PStep.up (viaNext (.aDrop 0 j00) rfl) rfl) rfl rfl
  exact ⟨_, _, h5, rfl, rfl⟩

/-- **a tower over an executor that never Drops never Drops**: a strand Drops a job only if the executor below refused
    one of its activations (`dropped_only_if_executor_dropped`), so with a base that — in the states it reaches with
    protocol-honouring clients — never Drops, no level of the tower ever Drops, in any state the tower reaches.
    (`NeverDropsRun` has to be read over reachable states: the single-strand relation over *all* states has `aDrop`
    steps from unreachable states.)  Used by C14 for coroutine mutexes resumed through a tower of strands. -/
theorem tower_never_drops {base : Exec} (hb : NeverDropsRun base) : ∀ n, NeverDropsRun (tower base n) :=
  Yaclib.Strand.tower_never_drops hb

/-- … e.g. over the alive Inline executor and over the ManualExecutor; and with clients of any workload on top nothing
    is ever Dropped or refused at the top level -/
theorem tower_over_inline_manual_never_drops (n : Nat) :
    NeverDropsRun (tower (inlineExec true) n) ∧ NeverDropsRun (tower (manualExec false) n) :=
  ⟨tower_never_drops (.of_all fun _ l _ a hs he => by
      cases Option.some.inj he; exact inline_alive_never_drops hs) n,
   tower_never_drops (.of_all fun _ l _ a hs he => by
      cases l <;> simp [manualExec, manualEv] at he
      subst he; exact manual_never_drops hs) n⟩

theorem tower_top_never_drops {w : Workload} {base : Exec} (hb : NeverDropsRun base) {n : Nat}
    {s : (towerTop w base n).σ} (hr : (towerTop w base n).Reach s) : s.1.dropped = [] ∧ s.1.execDrops = 0 :=
  top_never_drops hb hr

/-- what C07 says about one strand, as a predicate on its state -/
structure LevelProps (v : State) : Prop where
  one_at_a_time : v.running ≤ 1
  one_activation : ∀ a b, holdsTok (v.acts a) = true → holdsTok (v.acts b) = true → a = b
  no_bad_deref : ∀ a, v.acts a ≠ .crashed
  order : v.executed.Sublist v.pushOrder
  order_exact : v.execDrops = 0 → v.pushOrder = v.executed ++ curRem v ++ v.word.inbox.reverse
  program_order : v.executed.Pairwise (fun a b => a.sub = b.sub → a.idx < b.idx)
  call_xor_drop : ExecutorContract v.pushOrder v.executed v.dropped
  drop_only_if_refused : v.dropped ≠ [] → 0 < v.execDrops

theorem levelProps_of_reachable {w : Workload} {v : State} (h : Reachable w v) : LevelProps v :=
  ⟨jobs_never_overlap h, (at_most_one_activation h).1, no_mark_deref h, executed_sublist_push_order h,
   executed_eq_push_order_nodrop h, (fifo_per_submitter h).1, refines_executor_contract h,
   dropped_only_if_executor_dropped h⟩

/-- **every level of a tower has the strand's guarantees**: in every reachable state of clients with any workload
    `w` on a tower of any height over any base executor (no assumption on the base is needed for safety), the top
    strand and every strand below it never run two of their jobs at once, run them in the order their pushes took
    effect, Call xor Drop each at most once and only after its submission, never dereference an empty batch.
    (Each level's state is a reachable state of the single-strand model — the projection the trace validator checks
    for the traced level of the harness' tower scenarios.) -/
theorem tower_level_properties {w : Workload} {base : Exec} {n : Nat} {s : (towerTop w base n).σ}
    (hr : (towerTop w base n).Reach s) :
    (Reachable w s.1 ∧ LevelProps s.1) ∧ ∀ v ∈ levels base n s.2.1, Reachable ones v ∧ LevelProps v := by
  obtain ⟨h1, h2⟩ := top_levels_reachable hr
  exact ⟨⟨h1, levelProps_of_reachable h1⟩, fun v hv => ⟨h2 v hv, levelProps_of_reachable (h2 v hv)⟩⟩

/-- **nothing is lost in a tower** (safety form of "every job is eventually Called or Dropped, at every level"):
    over a contract-honouring base, a state of the whole system in which nothing can move is one in which every
    client has returned from its last Submit, every job of the workload was Called or Dropped by the top strand, and
    every level is idle (word = marker, all activations returned, nothing running, every job handed to it done). -/
theorem tower_quiescent_all_done {w : Workload} {base : Exec} (hb : ExecContract base) {n : Nat}
    {s : (towerTop w base n).σ} (hr : (towerTop w base n).Reach s) (hq : ∀ l s', ¬ (towerTop w base n).step s l s') :
    LevelDone s.1 ∧ (∀ i k, k < jobsOf w i → (⟨i, k⟩ : JobId) ∈ s.1.executed ∨ (⟨i, k⟩ : JobId) ∈ s.1.dropped) ∧
    ∀ v ∈ levels base n s.2.1, LevelDone v := by
  obtain ⟨h1, h2, h3⟩ := top_quiescent hb hr hq
  exact ⟨h1, fun i k hk => h1.all_done i k (by rw [h2 i]; exact hk), h3⟩

/-- the same for an open tower (its clients hand over each job with its own Submit): when only the clients could
    move and no client body is running, every level is idle and done -/
theorem tower_levels_quiescent {base : Exec} (hb : ExecContract base) (n : Nat) {s : (tower base n).σ} {p : Prot}
    (hr : (tower base n).Run s p) (hq : (tower base n).Quiet s) (hnc : ∀ a, p a ≠ .calling) :
    ∀ v ∈ levels base n s, LevelDone v :=
  Yaclib.Strand.tower_levels_quiescent hb n hr hq hnc

/-- non-vacuity: a three-level tower over the most general base, driven through `next` at every level: the client
    submits job 0 to level 2; each level pushes, schedules itself on the level below (the Submit of its activation 0
    there), the base Calls level 0's activation, whose batch runner Calls level 1's, whose batch runner Calls level
    2's, which runs the job; the activations return innermost first and every level goes back to idle. -/
theorem tower3_run_witness : ∃ (s : (tower specBase 3).σ) (p : Prot), (tower specBase 3).Run s p ∧ p 0 = .finished ∧
    (levels specBase 3 s).map (·.executed) = [[j00], [j00], [j00]] ∧
    (levels specBase 3 s).map (·.word) = [.mark, .mark, .mark] ∧
    (levels specBase 3 s).map (·.nacts) = [1, 1, 1] := by
  have h0 : (tower specBase 3).Run (tower specBase 3).init protInit := .init
  have h1 := Exec.Run.inp h0 (PStep.up (viaNext (.sLoad 0 .mark) rfl) rfl) rfl rfl rfl
  have h2 := Exec.Run.tau h1 (PStep.up (viaNext (.sCasOk 0) rfl) rfl) rfl
  have h3 := Exec.Run.tau h2 (PStep.sync (viaNext (.sSched 0) rfl) rfl (PStep.up (viaNext (.sLoad 0 .mark) rfl) rfl) rfl) rfl
  have h4 := Exec.Run.tau h3 (PStep.low (PStep.up (viaNext (.sCasOk 0) rfl) rfl) rfl) rfl
  have h5 := Exec.Run.tau h4 (PStep.low (PStep.sync (viaNext (.sSched 0) rfl) rfl
    (PStep.up (viaNext (.sLoad 0 .mark) rfl) rfl) rfl) rfl) rfl
  have h6 := Exec.Run.tau h5 (PStep.low (PStep.low (PStep.up (viaNext (.sCasOk 0) rfl) rfl) rfl) rfl) rfl
  have h7 := Exec.Run.tau h6 (PStep.low (PStep.low (PStep.sync (viaNext (.sSched 0) rfl) rfl
    (specBase_step _ (.sub 0) (by rfl)) rfl) rfl) rfl) rfl
  have h8 := Exec.Run.tau h7 (PStep.low (PStep.low (PStep.sync (viaNext (.aCall 0) rfl) rfl
    (specBase_step _ (.call 0) (by rfl)) rfl) rfl) rfl) rfl
  have h9 := Exec.Run.tau h8 (PStep.low (PStep.sync (viaNext (.aCall 0) rfl) rfl
    (PStep.up (viaNext (.aBegin 0 j00) rfl) rfl) rfl) rfl) rfl
  have h10 := Exec.Run.tau h9 (PStep.sync (viaNext (.aCall 0) rfl) rfl (PStep.up (viaNext (.aBegin 0 j00) rfl) rfl) rfl) rfl
  have h11 := Exec.Run.out h10 (PStep.up (viaNext (.aBegin 0 j00) rfl) rfl) rfl rfl
  have h12 := Exec.Run.inp h11 (PStep.up (viaNext (.aEnd 0 j00) rfl) rfl) rfl rfl rfl
  have h13 := Exec.Run.tau h12 (PStep.up (viaNext (.aLoad 0 true) rfl) rfl) rfl
  have h14 := Exec.Run.tau h13 (PStep.up (viaNext (.aCasOk 0) rfl) rfl) rfl
  have h15 := Exec.Run.tau h14 (PStep.lret (PStep.up (viaNext (.aEnd 0 j00) rfl) rfl) rfl rfl (Or.inr rfl)) rfl
  have h16 := Exec.Run.tau h15 (PStep.low (PStep.up (viaNext (.aLoad 0 true) rfl) rfl) rfl) rfl
  have h17 := Exec.Run.tau h16 (PStep.low (PStep.up (viaNext (.aCasOk 0) rfl) rfl) rfl) rfl
  have h18 := Exec.Run.tau h17 (PStep.low (PStep.lret (PStep.up (viaNext (.aEnd 0 j00) rfl) rfl) rfl rfl (Or.inr rfl)) rfl) rfl
  have h19 := Exec.Run.tau h18 (PStep.low (PStep.low (PStep.up (viaNext (.aLoad 0 true) rfl) rfl) rfl) rfl) rfl
  have h20 := Exec.Run.tau h19 (PStep.low (PStep.low (PStep.up (viaNext (.aCasOk 0) rfl) rfl) rfl) rfl) rfl
  have h21 := Exec.Run.tau h20 (PStep.low (PStep.low (PStep.lret (specBase_step _ (.ret 0) (by rfl)) rfl rfl
    (Or.inr rfl)) rfl) rfl) rfl
  exact ⟨_, _, h21, rfl, rfl, rfl, rfl⟩

end Yaclib.Props.C07

/-! ### tie to the source (T2): the kernels this model was written from are unchanged.
`Extracted/Kernels.lean` is regenerated from /repo on every check run. -/
namespace Yaclib.Props.C07.Tie
open Yaclib

theorem tie_Strand_Submit : Extracted.Kernels.Strand_Submit = Skeletons.Strand_Submit := rfl
theorem tie_Strand_Call : Extracted.Kernels.Strand_Call = Skeletons.Strand_Call := rfl
theorem tie_Strand_Drop : Extracted.Kernels.Strand_Drop = Skeletons.Strand_Drop := rfl
/-- the base executor models `inlineExec` / `manualExec` were written from these (also tied in Props/C05) -/
theorem tie_Inline_Submit : Extracted.Kernels.Inline_Submit = Skeletons.Inline_Submit := rfl
theorem tie_Inline_Alive : Extracted.Kernels.Inline_Alive = Skeletons.Inline_Alive := rfl
theorem tie_Manual_Submit : Extracted.Kernels.Manual_Submit = Skeletons.Manual_Submit := rfl
theorem tie_Manual_Drain : Extracted.Kernels.Manual_Drain = Skeletons.Manual_Drain := rfl

end Yaclib.Props.C07.Tie
