/-
C18 — the yaclib_std locks, condition variable, thread and thread-local pointer of the FIBER backend keep the std
contracts.

Property theorems about the models of Model/FiberSync*.lean, for **every** number of fibers, every sequence of
operations each fiber chooses to perform and every scheduler choice (which runnable fiber moves next, which waiter a
`NotifyOne` wakes, the jitter of timed waits).  Invariants and helper lemmas are in Proofs/FiberSync*.lean.

All theorems hold at full strength on the tree with the fix commits 72143ee, 32ae58e, 4d75ee5, 37d0a59, 5d29c51, 33a96a1,
33c5ab3.  Before them the code had the defects D4-D8, D11-D14; the models contained them and this file carried a
`…_violated_witness` theorem for each refuted statement (git history of this file; notes/C18.md lists every defect with
its fix commit and the scenario + choice string that exhibited it on the implementation):
  excl_TimedMutex, try_sound_TimedMutex            D6   32ae58e  `timed f0=L,U f1=F50,U f2=L,U`
  sleep_list_lookup (end() dereference)              D8   33a96a1  `timed f0=L,U f1=F0,U`
  quiescent_none_parked_RecursiveMutex               D4   4d75ee5  `rec f0=L,L,U,U f1=L,U`
  (repairing D4 without the `while` ⇒ two owners)    D6   4d75ee5  model run f0 lock, f1 park, f0 unlock+notify, f2 lock, f1 resume
  excl_SharedMutex                                   D6   5d29c51  `shared f0=LS,US f1=L,U f2=LS,US`
  excl_SharedTimedMutex, try_sound_SharedTimedMutex  D5   37d0a59  `sharedt f0=LS,US f1=F50,U f2=TS,US`, `sharedt f0=F50,U f1=LS,US f2=L,U`
  quiescent_none_parked_SharedMutex                  D7   5d29c51  `shared f0=L,U f1=LS,J2,US f2=LS,US`
  tls_per_fiber (copy, alias)                        D14, D13  33c5ab3  `tls f0=P1,C,GQ,E,GQ f1=GQ,P2,E,GQ`, `tls f0=GL,P1,GL f1=GL,G`
-/
import YaclibModel.Proofs.FiberSyncWitness
import YaclibModel.Proofs.FiberSyncBridge
import YaclibModel.Extracted.Kernels
import YaclibModel.Extracted.FiberAlias
import YaclibModel.Model.Skeletons

namespace Yaclib.Props.C18
open Yaclib.FiberSync

theorem eq_singleton_of_mem {l : List Fid} {f : Fid} (hl : l.length ≤ 1) (hf : f ∈ l) : l = [f] := by
  cases l with
  | nil => cases hf
  | cons a t =>
      cases t with
      | nil => simp at hf; rw [hf]
      | cons b u => simp at hl

/-! ## Mutex, TimedMutex, ConditionVariable (model `Mx`) -/
section MutexCv
open Mx
variable {k : Bool} {n : Nat} {s : State}

/-- `yaclib_std::mutex` (also under `condition_variable::wait`) and `yaclib_std::timed_mutex`: never two holders -/
theorem excl_Mutex (h : Reachable k n s) : s.holders.length ≤ 1 := (inv_reachable h).len

theorem excl_TimedMutex (h : Reachable true n s) : s.holders.length ≤ 1 := excl_Mutex h

/-- `try_lock`: success means the caller is the only holder, failure means somebody really holds the mutex -/
theorem try_sound_Mutex (h : Reachable k n s) {f : Fid} {ok : Bool} {s' : State} (hs : Step s (.tryLock f ok) s') :
    (ok = true → s.holders = [] ∧ s'.holders = [f]) ∧ (ok = false → s.holders ≠ []) := by
  have hi := inv_reachable h
  match hs with
  | .tryOk _ _ _ ho => simp [acquire, hi.occ_free ho]
  | .tryFail _ _ _ ho => simp; exact hi.occ_held ho

/-- `try_lock_for/until`: returning true, the caller is the only holder (whether it had to wait or not); returning
    false, the requested deadline has passed (in virtual time) -/
theorem try_sound_TimedMutex (h : Reachable k n s) {f : Fid} {t : Nat} {s' : State} :
    (Step s (.tlfAcq f) s' → s'.holders = [f]) ∧
    (Step s (.tlfTimeout f t) s' → ∃ req dl, s.pc f = .tlfParked req dl ∧ req ≤ t) := by
  have hi := inv_reachable h
  constructor
  · intro hs
    have hl := excl_Mutex (.step h hs)
    refine eq_singleton_of_mem hl ?_
    match hs with
    | .tlfFast .. => simp [acquire]
    | .tlfRecheckAcq .. => simp [acquire]
  · intro hs
    match hs with
    | .tlfTimeout _ _ _ req dl _ hp hd _ => exact ⟨req, dl, hp, Nat.le_trans (hi.dl_tlf f req dl hp) hd⟩

/-- a blocked locker is woken when the mutex becomes available (safety form): in a state in which no fiber can move —
    now or at any later virtual time — every fiber has finished, waits on the condition variable for a notify, or is
    parked in `lock()` (possibly the re-lock of a cv wait) on a mutex that really is held.  Also for `timed_mutex`. -/
theorem quiescent_none_parked_Mutex (h : Reachable k n s) (hq : Quiescent s) (f : Fid) :
    s.pc f = .done ∨ s.pc f = .cvParked ∨ (∃ c, s.pc f = .lockParked c ∧ s.occupied = true ∧ s.holders ≠ []) := by
  have hi := inv_reachable h
  rcases quiescent_classify hi hq f with hd | ⟨c, hc⟩ | hcv
  · exact Or.inl hd
  · have := quiescent_parked_held hi hq f (by rw [hc]; rfl)
    exact Or.inr (Or.inr ⟨c, hc, this.1, this.2⟩)
  · exact Or.inr (Or.inl hcv)

/-- the invariant behind it: a free mutex with parked lockers always has a notified locker on its way -/
theorem no_lost_wakeup_Mutex (h : Reachable k n s) (ho : s.occupied = false) (hm : s.mq ≠ []) :
    ∃ g, g ∈ s.transit ∧ (s.pc g).woken = true := by
  have hi := inv_reachable h
  have ht := hi.free_transit ho hm
  cases htr : s.transit with
  | nil => exact absurd htr ht
  | cons g rest => exact ⟨g, by simp, hi.transit_pc g (by rw [htr]; simp)⟩

/-- `notify_one` wakes a waiter that was already blocked on the condition variable (and exactly when there is one) -/
theorem notify_wakes_blocked (h : Reachable k n s) {f : Fid} {w : Option Fid} {s' : State}
    (hs : Step s (.notifyOne f w) s') :
    (w = none → s.cq = []) ∧
    (∀ g, w = some g → g ∈ s.cq ∧ (s.pc g).inCq = true ∧ s'.pc g = .locking (.cv false) ∧ g ∉ s'.cq) := by
  have hi := inv_reachable h
  match hs with
  | .notifyOne _ _ _ _ hw =>
      cases w with
      | none => simp [PickOk] at hw; simp [hw]
      | some g =>
          simp only [PickOk] at hw
          refine ⟨by simp, ?_⟩
          intro g' hg'; cases hg'
          exact ⟨hw, hi.cq_pc g hw, by simp [doNotifyOne], by simp [doNotifyOne, not_mem_rm_self]⟩

/-- `notify_all` wakes every blocked waiter -/
theorem notify_all_wakes_all (h : Reachable k n s) {f : Fid} {s' : State} (hs : Step s (.notifyAll f) s') :
    s'.cq = [] ∧ ∀ g, (s.pc g).inCq = true → s'.pc g = .locking (.cv false) := by
  have hi := inv_reachable h
  match hs with
  | .notifyAll .. =>
      refine ⟨rfl, ?_⟩
      intro g hg
      simp [doNotifyAll, hi.pc_cq g hg]

/-- no spurious wake-ups: a fiber leaves the un-timed cv wait only through a notify -/
theorem cv_wait_ends_by_notify {l : Label} {s' : State} (hs : Step s l s') {g : Fid} (hg : s.pc g = .cvParked)
    (hg' : s'.pc g ≠ .cvParked) : (∃ f, l = .notifyOne f (some g)) ∨ (∃ f, l = .notifyAll f) := by
  cases hs with
  | notifyOne f w h hw =>
      cases w with
      | none => simp [doNotifyOne] at hg'; exact absurd hg hg'
      | some w =>
          by_cases hwg : w = g
          · subst hwg; exact Or.inl ⟨f, rfl⟩
          · simp [doNotifyOne, upd_apply, Ne.symm hwg] at hg'; exact absurd hg hg'
  | notifyAll f h => exact Or.inr ⟨f, rfl⟩
  | unlock f w h hh hw => cases w <;> simp [release, notifyM, upd_apply] at hg' <;> grind [wake]
  | cvWait f w h hh hw => cases w <;> simp [doCvWait, release, notifyM, upd_apply] at hg' <;> grind [wake]
  | cvWaitFor f w t d j h hh hw ht => cases w <;> simp [doCvWaitFor, release, notifyM, upd_apply] at hg' <;> grind [wake]
  | cvWaitUntil f w t req j h hh hw ht => cases w <;> simp [doCvWaitUntil, release, notifyM, upd_apply] at hg' <;> grind [wake]
  | tryFail f h ho => exact absurd hg hg'
  | _ => simp [acquire, doLockPark, doTlfPark, doTlfTimeout, doTlfRepark, doCvTimeout, upd_apply] at hg' <;> grind

/-- timed waits end at or after the deadline that was asked for (virtual time): `try_lock_for/until` failing,
    `cv.wait_for/until` timing out, `sleep_for` returning -/
theorem timed_wait_not_early (h : Reachable k n s) {f : Fid} {t : Nat} {s' : State} :
    (Step s (.tlfTimeout f t) s' → ∃ req dl, s.pc f = .tlfParked req dl ∧ req ≤ t) ∧
    (Step s (.cvTimeout f t) s' → ∃ req dl, s.pc f = .cvTimed req dl ∧ req ≤ t) ∧
    (Step s (.sleepWake f t) s' → ∃ dl, s.pc f = .sleeping dl ∧ dl ≤ t) := by
  have hi := inv_reachable h
  refine ⟨(try_sound_TimedMutex h).2, ?_, ?_⟩
  · intro hs
    match hs with
    | .cvTimeout _ _ _ req dl hp hd _ => exact ⟨req, dl, hp, Nat.le_trans (hi.dl_cv f req dl hp) hd⟩
  · intro hs
    match hs with
    | .sleepWake _ _ _ dl hp hd _ => exact ⟨dl, hp, hd⟩

/-- the deadline a timed wait records is the time of the call plus the duration that was asked for; a timed lock that is
    woken and has to wait again keeps the deadline of the call -/
theorem timed_wait_deadline {f : Fid} {t d j : Nat} {w : Option Fid} {s' : State} :
    (Step s (.tlfPark f t d j) s' → s'.pc f = .tlfParked (t + d) (t + d + j)) ∧
    (Step s (.tlfRepark f j) s' → ∃ req, s.pc f = .tlfLocking req ∧ s'.pc f = .tlfParked req (req + j)) ∧
    (Step s (.cvWaitFor f w t d j) s' → s'.pc f = .cvTimed (t + d) (t + d + j)) ∧
    (Step s (.cvWaitUntil f w t d j) s' → s'.pc f = .cvTimed d (d + j)) ∧
    (Step s (.sleepStart f t d) s' → s'.pc f = .sleeping (t + d)) := by
  refine ⟨?_, ?_, ?_, ?_, ?_⟩ <;> intro hs
  · cases hs; simp [doTlfPark]
  · match hs with
    | .tlfRepark _ _ req _ _ hp _ => exact ⟨req, hp, by simp [doTlfRepark]⟩
  · cases hs; simp [doCvWaitFor]
  · cases hs; simp [doCvWaitUntil]
  · cases hs; simp

/-- everything the trace validator accepts is a behaviour the theorems speak about -/
theorem validator_sound_Mx {l : Label} {s' : State} (h : Reachable k n s) (hn : next s l = some s') : Reachable k n s' :=
  .step h (next_sound hn)

/-! non-vacuity -/

/-- a contended mutex: f1 parks, f0's unlock notifies it, it re-checks and takes the lock -/
example : ∃ s, Reachable false 2 s ∧ s.holders = [1] ∧ s.transit = [] := by
  have h := reach_run (k := false) (n := 2) Reachable.init
    (ls := [.lockStart 0, .lockAcq 0, .lockStart 1, .lockPark 1, .unlock 0 (some 1), .lockAcq 1]) (s' := _) rfl
  exact ⟨_, h, rfl, rfl⟩

/-- barging is harmless: the notified fiber finds the mutex taken again and parks again -/
example : ∃ s, Reachable false 3 s ∧ s.holders = [2] ∧ s.mq = [1] := by
  have h := reach_run (k := false) (n := 3) Reachable.init
    (ls := [.lockStart 0, .lockAcq 0, .lockStart 1, .lockPark 1, .unlock 0 (some 1), .lockStart 2, .lockAcq 2, .lockPark 1])
    (s' := _) rfl
  exact ⟨_, h, rfl, rfl⟩

/-- the schedule that exhibited D6 on `timed_mutex`: the woken `try_lock_for` finds the mutex taken again and parks again,
    with the deadline of its call (80) and a fresh jitter -/
example : ∃ s, Reachable true 3 s ∧ s.holders = [2] ∧ s.mq = [1] ∧ s.pc 1 = .tlfParked 80 81 := by
  have h := reach_run (k := true) (n := 3) Reachable.init
    (ls := [.lockStart 0, .lockAcq 0, .tlfPark 1 30 50 0, .unlock 0 (some 1), .lockStart 2, .lockAcq 2, .tlfRepark 1 1])
    (s' := _) rfl
  exact ⟨_, h, rfl, rfl, rfl⟩

/-- cv: wait releases the mutex, notify_one wakes the waiter, it re-locks after the notifier unlocked -/
example : ∃ s, Reachable false 2 s ∧ s.holders = [0] ∧ s.pc 0 = .idle := by
  have h := reach_run (k := false) (n := 2) Reachable.init
    (ls := [.lockStart 0, .lockAcq 0, .cvWait 0 none, .lockStart 1, .lockAcq 1, .notifyOne 1 (some 0), .lockPark 0,
            .unlock 1 (some 0), .lockAcq 0]) (s' := _) rfl
  exact ⟨_, h, rfl, rfl⟩

/-- a timed cv wait that times out at its deadline and re-locks -/
example : ∃ s, Reachable false 1 s ∧ s.holders = [0] ∧ s.now = 61 := by
  have h := reach_run (k := false) (n := 1) Reachable.init
    (ls := [.lockStart 0, .lockAcq 0, .cvWaitFor 0 none 20 40 1, .cvTimeout 0 61, .lockAcq 0]) (s' := _) rfl
  exact ⟨_, h, rfl, rfl⟩

/-- a quiescent state with a parked locker exists (the quiescence theorem is not vacuous): f0 finished holding the
    mutex, f1 parked -/
example : ∃ s, Reachable false 2 s ∧ Quiescent s ∧ s.pc 1 = .lockParked .plain := by
  have h := reach_run (k := false) (n := 2) Reachable.init
    (ls := [.lockStart 0, .lockAcq 0, .finish 0, .lockStart 1, .lockPark 1]) (s' := _) rfl
  refine ⟨_, h, ?_, rfl⟩
  intro l s' hs
  cases hs <;> simp_all [init, upd, acquire, doLockPark] <;> grind

end MutexCv

/-! ## RecursiveMutex, RecursiveTimedMutex (model `Rm`) -/
section Recursive
open Rm
variable {k : Bool} {n : Nat} {s : State}

/-- all acquisitions not yet released belong to one fiber -/
theorem excl_RecursiveMutex (h : Reachable k n s) : ∀ a ∈ s.holders, ∀ b ∈ s.holders, a = b := by
  intro a ha b hb
  have hi := inv_reachable h
  have := hi.own a ha
  rw [hi.own b hb] at this
  exact (Option.some.inj this).symm

/-- `_occupied_count` is the number of acquisitions not yet released -/
theorem count_exact_RecursiveMutex (h : Reachable k n s) : s.count = s.holders.length := (inv_reachable h).cnt

/-- `try_lock`: after success every holder is the caller; failure means another fiber really holds the mutex -/
theorem try_sound_RecursiveMutex (h : Reachable k n s) {f : Fid} {ok : Bool} {s' : State}
    (hs : Step s (.tryLock f ok) s') :
    (ok = true → ∀ a ∈ s'.holders, a = f) ∧ (ok = false → ∃ g, g ≠ f ∧ g ∈ s.holders) := by
  have hi := inv_reachable h
  have hi' := inv_reachable (.step h hs)
  match hs with
  | .tryOk _ _ _ hf =>
      refine ⟨fun _ a ha => ?_, by simp⟩
      have := hi'.own a ha
      simp [lockHelper] at this
      exact this.symm
  | .tryFail _ _ _ hf =>
      refine ⟨by simp, fun _ => ?_⟩
      simp only [Free, not_or] at hf
      have hne : s.holders ≠ [] := by
        intro h0; have := hi.cnt; rw [h0] at this; exact hf.1 (by simpa using this)
      cases hh : s.holders with
      | nil => exact absurd hh hne
      | cons g rest =>
          have hg : g ∈ s.holders := by rw [hh]; simp
          refine ⟨g, ?_, by simp⟩
          intro hgf; subst hgf; exact hf.2 (hi.own g hg)

/-- `try_lock_for/until`: returning true every holder is the caller, returning false the requested deadline has passed -/
theorem try_sound_RecursiveTimedMutex (h : Reachable k n s) {f : Fid} {t : Nat} {s' : State} :
    (Step s (.tlfAcq f) s' → ∀ a ∈ s'.holders, a = f) ∧
    (Step s (.tlfTimeout f t) s' → ∃ req dl, s.pc f = .tParked req dl ∧ req ≤ t) := by
  have hi := inv_reachable h
  constructor
  · intro hs a ha
    have hi' := inv_reachable (.step h hs)
    have := hi'.own a ha
    match hs with
    | .tlfFast .. => simp [lockHelper] at this; exact this.symm
    | .tlfRecheckAcq .. => simp [lockHelper] at this; exact this.symm
  · intro hs
    match hs with
    | .tlfTimeout _ _ _ req dl _ hp hd _ => exact ⟨req, dl, hp, Nat.le_trans (hi.dl f req dl hp) hd⟩

/-- a blocked locker is woken when the mutex becomes available (safety form): in a quiescent state every fiber has
    finished or is parked in `lock()` on a mutex that really is held -/
theorem quiescent_none_parked_RecursiveMutex (h : Reachable k n s) (hq : Quiescent s) (f : Fid) :
    s.pc f = .done ∨ (s.pc f = .parked ∧ s.count ≠ 0 ∧ s.holders ≠ []) := by
  have hi := inv_reachable h
  rcases quiescent_classify hi hq f with hd | hp
  · exact Or.inl hd
  · exact Or.inr ⟨hp, quiescent_parked_held hi hq f hp⟩

theorem no_lost_wakeup_RecursiveMutex (h : Reachable k n s) (hc : s.count = 0) (hr : s.rq ≠ []) :
    ∃ g, g ∈ s.transit ∧ (s.pc g).rechecks = true := by
  have hi := inv_reachable h
  have ht := hi.free_transit hc hr
  cases htr : s.transit with
  | nil => exact absurd htr ht
  | cons g rest => exact ⟨g, by simp, hi.transit_pc g (by rw [htr]; simp)⟩

theorem validator_sound_Rm {l : Label} {s' : State} (h : Reachable k n s) (hn : next s l = some s') : Reachable k n s' :=
  .step h (next_sound hn)

/-- recursion works: lock twice, unlock once, still owned; try_lock by another fiber fails -/
example : ∃ s, Reachable false 2 s ∧ s.count = 1 ∧ s.owner = some 0 ∧ s.holders = [0] := by
  have h := reach_run (k := false) (n := 2) Reachable.init
    (ls := [.lockAcq 0, .tryLock 0 true, .tryLock 1 false, .unlock 0 none]) (s' := _) rfl
  exact ⟨_, h, rfl, rfl, rfl⟩

/-- the schedule that exhibited D4: f1 is notified by the last unlock, re-checks and takes the mutex -/
example : ∃ s, Reachable false 2 s ∧ s.holders = [1] ∧ s.owner = some 1 ∧ s.transit = [] := by
  have h := reach_run (k := false) (n := 2) Reachable.init
    (ls := [.lockAcq 0, .lockPark 1, .unlock 0 (some 1), .finish 0, .lockAcq 1]) (s' := _) rfl
  exact ⟨_, h, rfl, rfl, rfl⟩

/-- the schedule in which a notify without the `while` would give two owners: f1 re-checks and parks again -/
example : ∃ s, Reachable false 3 s ∧ s.holders = [2] ∧ s.rq = [1] := by
  have h := reach_run (k := false) (n := 3) Reachable.init
    (ls := [.lockAcq 0, .lockPark 1, .unlock 0 (some 1), .lockAcq 2, .lockPark 1]) (s' := _) rfl
  exact ⟨_, h, rfl, rfl⟩

/-- a contended `try_lock_for` is woken by the unlock and succeeds before its deadline -/
example : ∃ s, Reachable true 2 s ∧ s.holders = [1] ∧ s.pc 1 = .idle := by
  have h := reach_run (k := true) (n := 2) Reachable.init
    (ls := [.tlfAcq 0, .tlfPark 1 10 1000 0, .unlock 0 (some 1), .tlfAcq 1]) (s' := _) rfl
  exact ⟨_, h, rfl, rfl⟩

end Recursive

/-! ## SharedMutex, SharedTimedMutex (model `Sm`) -/
section Shared
open Sm
variable {k : Bool} {n : Nat} {s : State}

/-- compatible holders: at most one writer, and no reader next to a writer -/
def Compatible (s : State) : Prop := s.xh.length ≤ 1 ∧ (s.xh ≠ [] → s.sh = [])

/-- `shared_mutex` and `shared_timed_mutex`: holders are always compatible -/
theorem excl_SharedMutex (h : Reachable k n s) : Compatible s := by
  have hi := inv_reachable h
  rcases hi.modes with ⟨_, hx, _, _⟩ | ⟨_, _, hx, hs, _⟩ | ⟨_, _, hx, _, _⟩
  · simp [Compatible, hx]
  · simp [Compatible, hx, hs]
  · simp [Compatible, hx]

theorem excl_SharedTimedMutex (h : Reachable true n s) : Compatible s := excl_SharedMutex h

/-- the flags describe the holders exactly: free / one writer / `_shared_owners_count` readers -/
theorem shared_flags_exact (h : Reachable k n s) :
    (s.occ = false ∧ s.xh = [] ∧ s.sh = [] ∧ s.cnt = 0) ∨
    (s.occ = true ∧ s.excl = true ∧ s.xh.length = 1 ∧ s.sh = [] ∧ s.cnt = 0) ∨
    (s.occ = true ∧ s.excl = false ∧ s.xh = [] ∧ s.sh.length = s.cnt ∧ 0 < s.cnt) := (inv_reachable h).modes

/-- `try_lock` / `try_lock_shared` succeed exactly in the requested mode and fail only with an incompatible holder -/
theorem try_sound_SharedMutex (h : Reachable k n s) {f : Fid} {ok : Bool} {s' : State} :
    (Step s (.tryX f ok) s' → (ok = true → s'.xh = [f] ∧ s'.sh = []) ∧ (ok = false → s.xh ≠ [] ∨ s.sh ≠ [])) ∧
    (Step s (.tryS f ok) s' → (ok = true → s'.xh = [] ∧ f ∈ s'.sh) ∧ (ok = false → s.xh ≠ [])) := by
  have hi := inv_reachable h
  constructor
  · intro hs
    match hs with
    | .tryXOk _ _ _ ho =>
        refine ⟨fun _ => ?_, by simp⟩
        rcases hi.modes with ⟨_, hx, hs, _⟩ | ⟨ho', _⟩ | ⟨ho', _⟩
        · simp [lockHelper, hx, hs]
        · rw [ho] at ho'; cases ho'
        · rw [ho] at ho'; cases ho'
    | .tryXFail _ _ _ ho =>
        refine ⟨by simp, fun _ => ?_⟩
        rcases hi.modes with ⟨ho', _⟩ | ⟨_, _, hx, _⟩ | ⟨_, _, _, hs, hp⟩
        · rw [ho] at ho'; cases ho'
        · left; intro h0; rw [h0] at hx; simp at hx
        · right; intro h0; rw [h0] at hs; simp at hs; omega
  · intro hs
    match hs with
    | .trySOk _ _ _ hx =>
        refine ⟨fun _ => ?_, by simp⟩
        rcases hi.modes with ⟨_, hxh, _⟩ | ⟨ho, he, _⟩ | ⟨_, _, hxh, _⟩
        · simp [sharedHelper, hxh]
        · exact absurd ⟨ho, he⟩ hx
        · simp [sharedHelper, hxh]
    | .trySFail _ _ _ hx =>
        refine ⟨by simp, fun _ => ?_⟩
        rcases hi.modes with ⟨ho, _⟩ | ⟨_, _, hxh, _⟩ | ⟨_, he, _⟩
        · rw [hx.1] at ho; cases ho
        · intro h0; rw [h0] at hxh; simp at hxh
        · rw [hx.2] at he; cases he

/-- timed acquisitions: an exclusive one that returns true is the only holder, a shared one that returns true holds next
    to readers only; returning false, the requested deadline has passed -/
theorem try_sound_SharedTimedMutex (h : Reachable k n s) {f : Fid} {t : Nat} {s' : State} :
    (Step s (.txAcq f) s' → s'.xh = [f] ∧ s'.sh = []) ∧
    (Step s (.tsAcq f) s' → s'.xh = [] ∧ f ∈ s'.sh) ∧
    (Step s (.txTimeout f t) s' → ∃ req dl, s.pc f = .txParked req dl ∧ req ≤ t) ∧
    (Step s (.tsTimeout f t) s' → ∃ req dl, s.pc f = .tsParked req dl ∧ req ≤ t) := by
  have hi := inv_reachable h
  refine ⟨?_, ?_, ?_, ?_⟩ <;> intro hs
  · have hfree : s.occ = false → s'.xh = [f] ∧ s'.sh = [] → s'.xh = [f] ∧ s'.sh = [] := fun _ x => x
    have key : s.occ = false → (lockHelper s f).xh = [f] ∧ (lockHelper s f).sh = [] := by
      intro ho
      rcases hi.modes with ⟨_, hx, hs', _⟩ | ⟨ho', _⟩ | ⟨ho', _⟩
      · simp [lockHelper, hx, hs']
      · rw [ho] at ho'; cases ho'
      · rw [ho] at ho'; cases ho'
    match hs with
    | .txFast _ _ _ _ ho => exact key ho
    | .txRecheckAcq _ _ _ _ _ ho => exact key ho
  · have key : ¬ XHeld s → (sharedHelper s f).xh = [] ∧ f ∈ (sharedHelper s f).sh := by
      intro hx
      rcases hi.modes with ⟨_, hxh, _⟩ | ⟨ho, he, _⟩ | ⟨_, _, hxh, _⟩
      · simp [sharedHelper, hxh]
      · exact absurd ⟨ho, he⟩ hx
      · simp [sharedHelper, hxh]
    match hs with
    | .tsFast _ _ _ _ hx => exact key hx
    | .tsRecheckAcq _ _ _ _ _ hx => exact key hx
  · match hs with
    | .txTimeout _ _ _ req dl _ hp hd _ => exact ⟨req, dl, hp, Nat.le_trans (hi.dl_tx f req dl hp) hd⟩
  · match hs with
    | .tsTimeout _ _ _ req dl _ hp hd _ => exact ⟨req, dl, hp, Nat.le_trans (hi.dl_ts f req dl hp) hd⟩

/-- a blocked locker is woken when the lock becomes available (safety form): in a quiescent state every fiber has
    finished, or is a writer parked on a lock that is held, or a reader parked on a lock that a writer holds -/
theorem quiescent_none_parked_SharedMutex (h : Reachable k n s) (hq : Quiescent s) (f : Fid) :
    s.pc f = .done ∨ (s.pc f = .xParked ∧ s.occ = true ∧ (s.xh ≠ [] ∨ s.sh ≠ [])) ∨
      (s.pc f = .sParked ∧ s.occ = true ∧ s.excl = true ∧ s.xh ≠ []) := by
  have hi := inv_reachable h
  rcases quiescent_classify hi hq f with hd | hx | hs
  · exact Or.inl hd
  · exact Or.inr (Or.inl ⟨hx, quiescent_writer_held hi hq f hx⟩)
  · exact Or.inr (Or.inr ⟨hs, quiescent_reader_held hi f hs⟩)

/-- readers are parked only while a writer holds the lock (no transient either) -/
theorem readers_wait_for_writers_only (h : Reachable k n s) (hs : s.sq ≠ []) : s.occ = true ∧ s.excl = true :=
  (inv_reachable h).sq_held hs

theorem validator_sound_Sm {l : Label} {s' : State} (h : Reachable k n s) (hn : next s l = some s') : Reachable k n s' :=
  .step h (next_sound hn)

/-- readers share, a writer waits for the last reader and is woken by it -/
example : ∃ s, Reachable false 3 s ∧ s.xh = [2] ∧ s.sh = [] ∧ Compatible s := by
  have h := reach_run (k := false) (n := 3) Reachable.init
    (ls := [.sAcq 0, .tryS 1 true, .tryX 2 false, .xPark 2, .unlockS 0 none, .unlockS 1 (some 2), .xAcq 2]) (s' := _) rfl
  exact ⟨_, h, rfl, rfl, excl_SharedMutex h⟩

/-- the schedule that exhibited D7: the writer's `unlock` wakes both readers, both hold the lock in shared mode -/
example : ∃ s, Reachable false 3 s ∧ s.sh = [1, 2] ∧ s.xh = [] ∧ s.cnt = 2 := by
  have h := reach_run (k := false) (n := 3) Reachable.init
    (ls := [.xAcq 0, .sPark 1, .sPark 2, .unlock 0 none, .sAcq 1, .sAcq 2]) (s' := _) rfl
  exact ⟨_, h, rfl, rfl, rfl⟩

/-- the schedule that exhibited D6: the woken writer finds a reader inside and parks again -/
example : ∃ s, Reachable false 3 s ∧ s.sh = [2] ∧ s.xh = [] ∧ s.eq = [1] := by
  have h := reach_run (k := false) (n := 3) Reachable.init
    (ls := [.sAcq 0, .xPark 1, .unlockS 0 (some 1), .sAcq 2, .xPark 1]) (s' := _) rfl
  exact ⟨_, h, rfl, rfl, rfl⟩

/-- the schedule that exhibited D5: after an exclusive `try_lock_for` the shared `try_lock` fails -/
example : ∃ s, Reachable true 2 s ∧ s.xh = [0] ∧ s.sh = [] ∧ s.excl = true := by
  have h := reach_run (k := true) (n := 2) Reachable.init (ls := [.txAcq 0, .tryS 1 false]) (s' := _) rfl
  exact ⟨_, h, rfl, rfl, rfl⟩

/-- a quiescent state with a parked reader exists: the writer finished holding the lock -/
example : ∃ s, Reachable false 2 s ∧ Quiescent s ∧ s.pc 1 = .sParked := by
  have h := reach_run (k := false) (n := 2) Reachable.init (ls := [.xAcq 0, .finish 0, .sPark 1]) (s' := _) rfl
  refine ⟨_, h, ?_, rfl⟩
  intro l s' hs
  cases hs <;> simp_all [init, upd, lockHelper, parkS, XHeld, rm] <;> grind

end Shared

/-! ## thread::join, sleep_for, thread-local pointers (model `Th`) -/
section Thread
open Th
variable {inits : Var → Ptr} {n : Nat} {s : State}

/-- `join` returns only after the thread function of the joined fiber has returned — and that fiber never runs again -/
theorem join_after_finish (h : Reachable inits n s) {f j : Fid} {s' : State} (hs : Step s (.joinRet f j) s') :
    s.fin j = true ∧ s.pc j = .done := by
  have hi := inv_reachable h
  match hs with
  | .joinRet _ _ _ _ hf => exact ⟨hf, hi.fin_done j hf⟩

/-- `sleep_for` returns at or after its deadline -/
theorem sleep_not_early {f : Fid} {t : Nat} {s' : State} (hs : Step s (.sleepWake f t) s') :
    ∃ dl, s.pc f = .sleeping dl ∧ dl ≤ t := by
  match hs with
  | .sleepWake _ _ _ dl hp hd _ => exact ⟨dl, hp, hd⟩

/-- thread-local pointers are per fiber, with the semantics of `thread_local T* x = initialiser;`, for any number of
    variables of any pointee types and any initialisers: `x.Get()` returns what *this* fiber last assigned to *this*
    variable — a pointer or nullptr, directly or by a copy `x = y` from another thread-local (whose value is the one this
    fiber reads from `y`) — and the variable's initialiser if it never assigned it, whatever other fibers do; an
    assignment changes nothing for another fiber or another variable -/
theorem tls_per_fiber (h : Reachable inits n s) {f : Fid} {v : Var} {s' : State} :
    (∀ r, Step s (.get f v r) s' → r = specRead inits s v f) ∧
    (∀ x, Step s (.set f v x) s' → specRead inits s' v f = x) ∧
    (∀ src, Step s (.copy f v src) s' → specRead inits s' v f = specRead inits s src f) ∧
    (∀ l, Step s l s' → ∀ u g, (u ≠ v ∨ g ≠ f) → (∃ x, l = .set f v x) ∨ (∃ src, l = .copy f v src) →
      specRead inits s' u g = specRead inits s u g) := by
  have hi := tls_inv_reachable h
  refine ⟨?_, ?_, ?_, ?_⟩
  · intro r hs
    match hs with
    | .get .. => exact read_eq_spec hi v f
  · intro x hs
    match hs with
    | .set .. => simp [specRead, doSet]
  · intro src hs
    match hs with
    | .copy .. => simp [specRead, doSet]; exact read_eq_spec hi src f
  · intro l hs u g hne hl
    have key : ∀ x, specRead inits (doSet s f v x) u g = specRead inits s u g := by
      intro x
      simp only [specRead, doSet, upd2_apply]
      rcases hne with hu | hg
      · simp [hu]
      · simp [hg]
    rcases hl with ⟨x, hl⟩ | ⟨src, hl⟩ <;> subst hl
    · match hs with
      | .set .. => exact key x
    · match hs with
      | .copy .. => exact key _

theorem validator_sound_Th {l : Label} {s' : State} (h : Reachable inits n s) (hn : next s l = some s') :
    Reachable inits n s' := .step h (next_sound hn)

/-- a join that has to wait: f0 joins f1 while it runs, f1 finishes, the join returns -/
example : ∃ s, Reachable (fun _ => none) 2 s ∧ s.pc 0 = .idle ∧ s.fin 1 = true := by
  have h := reach_run (inits := fun _ => none) (n := 2) Reachable.init
    (ls := [.joinStart 0 1, .work 1, .finish 1, .joinRet 0 1]) (s' := _) rfl
  exact ⟨_, h, rfl, rfl⟩

/-- the schedules that exhibited D14 and D13 (variables 0 = `p`, 1 = `q`, 2 = a `long*`): f0's `q = p` is invisible to f1,
    visible to f0 itself (also over an own earlier assignment), and the third variable stays null -/
example : ∃ s, Reachable (fun _ => none) 2 s ∧ read s 1 1 = none ∧ read s 1 0 = some 1 ∧ read s 2 0 = none := by
  have h := reach_run (inits := fun _ => none) (n := 2) Reachable.init
    (ls := [.set 0 1 (some 3), .set 0 0 (some 1), .copy 0 1 0, .get 0 1 (some 1), .get 1 1 none, .get 0 2 none]) (s' := _) rfl
  exact ⟨_, h, rfl, rfl, rfl⟩

/-- a variable with a non-null initialiser (variable 4, `&slot[7]`): a fiber that stores nullptr — directly or by copying a
    null thread-local (variable 3) — reads nullptr, not the initialiser; the other fiber still reads the initialiser -/
example : ∃ s, Reachable (fun v => if v = 4 then some 7 else none) 2 s ∧
    read s 4 0 = none ∧ read s 4 1 = some 7 := by
  have h := reach_run (inits := fun v => if v = 4 then some 7 else none) (n := 2) Reachable.init
    (ls := [.get 0 4 (some 7), .set 0 4 none, .get 0 4 none, .set 0 4 (some 2), .copy 0 4 3, .get 0 4 none, .get 1 4 (some 7)])
    (s' := _) rfl
  exact ⟨_, h, rfl, rfl⟩

end Thread

end Yaclib.Props.C18

/-! ## tie to the source (T1): the models' effects on the fields of the primitives are the functions regenerated from
the C++ method bodies (`Extracted/FiberSync.lean`, vlib/x_fibersync.py).  `core` (Proofs/FiberSyncBridge.lean) projects a
model state to the fields of the C++ object.  Each theorem: running the extracted method (from its entry, or from the
return of its wait) in the projection of a model state ends exactly as the model's `Step` rule says — same new field
values, same return value, same notifications, same queue to wait on.  In particular every wait re-evaluates its
condition after the wake-up (`…_resume` = the entry function). -/
namespace Yaclib.Props.C18.Bridge
open Yaclib.FiberSync Yaclib.Extracted.FiberSync

section BridgeMx
open Mx
/-- `Mutex::lock`, condition false: rule `lockAcq`; condition true: rule `lockPark` -/
theorem bridge_Mx_lock (s : State) (f : Fid) (k : Kont) :
    Mutex.lock (core s) =
      if s.occupied then .wait (core (doLockPark s f k)) "_queue" false [] else .ret (core (acquire s f)) none [] := rfl

/-- … and after the wake-up the condition is evaluated again (the `while`): the woken fiber is in `locking` again -/
theorem bridge_Mx_lock_recheck (c : Mutex) (ready : Bool) : Mutex.lock_resume c ready = Mutex.lock c := rfl

theorem bridge_Mx_try_lock (s : State) (f : Fid) :
    Mutex.try_lock (core s) =
      if s.occupied then .ret (core s) (some false) [] else .ret (core (acquire s f)) (some true) [] := rfl

/-- `Mutex::unlock`: rule `unlock` (and the first half of `cvWait`) -/
theorem bridge_Mx_unlock (s : State) (f : Fid) (w : Option Fid) :
    Mutex.unlock (core s) = .ret (core (release s f w)) none [.one "_queue"] := by
  cases w <;> rfl

/-- `TimedMutex::TimedWaitHelper`: rules `tlfFast` / `tlfPark`, and after the wake-up `tlfRecheckAcq` / `tlfRepark`
    (`_occupied` is looked at again) or the timeout -/
theorem bridge_Mx_timed (s : State) (f : Fid) (t d j req : Nat) :
    TimedMutex.TimedWaitHelper (core s) =
      (if s.occupied then .wait (core (doTlfPark s f t d j)) "_queue" true []
       else .ret (core (acquire s f)) (some true) []) ∧
    TimedMutex.TimedWaitHelper_resume (core s) true =
      (if s.occupied then .wait (core (doTlfRepark s f req j)) "_queue" true []
       else .ret (core (acquire s f)) (some true) []) ∧
    TimedMutex.TimedWaitHelper_resume (core s) false = .ret (core (doTlfTimeout s f t)) (some false) [] := by
  refine ⟨?_, ?_, ?_⟩ <;> by_cases ho : s.occupied = true <;>
    simp [TimedMutex.TimedWaitHelper, TimedMutex.TimedWaitHelper_resume, core, ho, doTlfPark, doTlfRepark, doTlfTimeout, acquire]
end BridgeMx

section BridgeRm
open Rm
/-- `RecursiveMutex::lock`: rules `lockFast` / `lockPark` -/
theorem bridge_Rm_lock (s : State) (f : Fid) :
    RecursiveMutex.lock (core s) f =
      if Free s f then .ret (core (lockHelper s f)) none [] else .wait (core (doPark s f)) "_queue" false [] := by
  by_cases hc : s.count = 0
  · simp [Free, core, hc, lockHelper, RecursiveMutex.lock]
  · by_cases ho : s.owner = some f
    · simp [Free, core, hc, ho, lockHelper, RecursiveMutex.lock]
    · simp [Free, core, hc, ho, doPark, RecursiveMutex.lock]

/-- … the continuation after the wait is the loop again (rules `lockRecheckAcq` / `lockRepark`) -/
theorem bridge_Rm_lock_recheck (c : RecursiveMutex) (me : Nat) (ready : Bool) :
    RecursiveMutex.lock_resume c me ready = RecursiveMutex.lock c me := rfl

theorem bridge_Rm_try_lock (s : State) (f : Fid) :
    RecursiveMutex.try_lock (core s) f =
      if Free s f then .ret (core (lockHelper s f)) (some true) [] else .ret (core s) (some false) [] := by
  by_cases hc : s.count = 0
  · simp [Free, core, hc, lockHelper, RecursiveMutex.try_lock]
  · by_cases ho : s.owner = some f
    · simp [Free, core, hc, ho, lockHelper, RecursiveMutex.try_lock]
    · simp [Free, core, hc, ho, RecursiveMutex.try_lock]

/-- `RecursiveMutex::unlock`: rule `unlock` — one waiter is notified when the count drops to 0 -/
theorem bridge_Rm_unlock (s : State) (f : Fid) (w : Option Fid) :
    RecursiveMutex.unlock (core s) =
      .ret (core (notifyR (doUnlock s f) w)) none (if s.count - 1 = 0 then [.one "_queue"] else []) := by
  simp only [core_notifyR]
  by_cases h : s.count - 1 = 0 <;> simp [RecursiveMutex.unlock, core, doUnlock, h]

/-- `RecursiveTimedMutex::TimedWaitHelper`: rules `tlfFast` / `tlfPark`, `tlfRecheckAcq` / `tlfRepark`, the timeout -/
theorem bridge_Rm_timed (s : State) (f : Fid) (t d j req : Nat) :
    RecursiveTimedMutex.TimedWaitHelper (core s) f =
      (if Free s f then .ret (core (lockHelper s f)) (some true) []
       else .wait (core (doTlfPark s f t d j)) "_queue" true []) ∧
    RecursiveTimedMutex.TimedWaitHelper_resume (core s) f true =
      (if Free s f then .ret (core (lockHelper s f)) (some true) []
       else .wait (core (doTlfRepark s f req j)) "_queue" true []) ∧
    RecursiveTimedMutex.TimedWaitHelper_resume (core s) f false = .ret (core (doTlfTimeout s f t)) (some false) [] := by
  refine ⟨?_, ?_, ?_⟩
  · by_cases hc : s.count = 0
    · simp [Free, core, hc, lockHelper, RecursiveTimedMutex.TimedWaitHelper]
    · by_cases ho : s.owner = some f
      · simp [Free, core, hc, ho, lockHelper, RecursiveTimedMutex.TimedWaitHelper]
      · simp [Free, core, hc, ho, doTlfPark, RecursiveTimedMutex.TimedWaitHelper]
  · by_cases hc : s.count = 0
    · simp [Free, core, hc, lockHelper, RecursiveTimedMutex.TimedWaitHelper_resume]
    · by_cases ho : s.owner = some f
      · simp [Free, core, hc, ho, lockHelper, RecursiveTimedMutex.TimedWaitHelper_resume]
      · simp [Free, core, hc, ho, doTlfRepark, RecursiveTimedMutex.TimedWaitHelper_resume]
  · simp [core, doTlfTimeout, RecursiveTimedMutex.TimedWaitHelper_resume]
end BridgeRm

section BridgeSm
open Sm
/-- `SharedMutex::lock`: rules `xFast` / `xPark` (exclusive queue) -/
theorem bridge_Sm_lock (s : State) (f : Fid) :
    SharedMutex.lock (core s) =
      if s.occ then .wait (core (parkE s f .xParked)) "_exclusive_queue" false [] else .ret (core (lockHelper s f)) none [] :=
  rfl

/-- `lock` / `lock_shared`: the continuation after the wait is the loop again -/
theorem bridge_Sm_recheck (c : SharedMutex) (ready : Bool) :
    SharedMutex.lock_resume c ready = SharedMutex.lock c ∧ SharedMutex.lock_shared_resume c ready = SharedMutex.lock_shared c :=
  ⟨rfl, rfl⟩

theorem bridge_Sm_try_lock (s : State) (f : Fid) :
    SharedMutex.try_lock (core s) =
      if s.occ then .ret (core s) (some false) [] else .ret (core (lockHelper s f)) (some true) [] := rfl

/-- `SharedMutex::lock_shared`: rules `sFast` / `sPark` — readers wait on the shared queue -/
theorem bridge_Sm_lock_shared (s : State) (f : Fid) :
    SharedMutex.lock_shared (core s) =
      if XHeld s then .wait (core (parkS s f .sParked)) "_shared_queue" false []
      else .ret (core (sharedHelper s f)) none [] := by
  by_cases ho : s.occ = true <;> by_cases he : s.excl = true <;>
    simp [XHeld, SharedMutex.lock_shared, core, ho, he, parkS, sharedHelper]

theorem bridge_Sm_try_lock_shared (s : State) (f : Fid) :
    SharedMutex.try_lock_shared (core s) =
      if XHeld s then .ret (core s) (some false) [] else .ret (core (sharedHelper s f)) (some true) [] := by
  by_cases ho : s.occ = true <;> by_cases he : s.excl = true <;>
    simp [XHeld, SharedMutex.try_lock_shared, core, ho, he, sharedHelper]

/-- `SharedMutex::unlock`: rule `unlock`: all readers and one writer are notified, no random draw -/
theorem bridge_Sm_unlock (s : State) (f : Fid) (w : Option Fid) :
    SharedMutex.unlock (core s) = .ret (core (doUnlock s f w)) none [.all "_shared_queue", .one "_exclusive_queue"] := by
  simp only [doUnlock, core_notifyE, core_notifyAllS]; rfl

/-- `SharedMutex::unlock_shared`: rule `unlockS` -/
theorem bridge_Sm_unlock_shared (s : State) (f : Fid) (w : Option Fid) :
    SharedMutex.unlock_shared (core s) =
      .ret (core (doUnlockS s f w)) none (if s.cnt - 1 = 0 then [.one "_exclusive_queue"] else []) := by
  have hc : core (doUnlockS s f w) = ⟨s.cnt - 1, if s.cnt - 1 = 0 then false else s.occ, s.excl⟩ := by
    simp only [doUnlockS, core_notifyE]; rfl
  rw [hc]
  by_cases h : s.cnt - 1 = 0 <;> simp [SharedMutex.unlock_shared, core, h]

/-- `SharedTimedMutex::TimedWaitHelper(timeout, exclusive)`: the exclusive request ends in `LockHelper()` (rules `txFast`,
    `txRecheckAcq`) and waits on the exclusive queue, the shared one in `SharedLockHelper()` and waits on the shared
    queue; both look at the fields again after the wake-up; nothing happens after a timeout -/
theorem bridge_Sm_timed (s : State) (f : Fid) (t d j req : Nat) (exclusive : Bool) :
    SharedTimedMutex.TimedWaitHelper (core s) true =
      (if s.occ then .wait (core { parkE s f (.txParked (t + d) (t + d + j)) with now := t }) "_exclusive_queue" true []
       else .ret (core (lockHelper s f)) (some true) []) ∧
    SharedTimedMutex.TimedWaitHelper (core s) false =
      (if XHeld s then .wait (core { parkS s f (.tsParked (t + d) (t + d + j)) with now := t }) "_shared_queue" true []
       else .ret (core (sharedHelper s f)) (some true) []) ∧
    SharedTimedMutex.TimedWaitHelper_resume (core s) true true =
      (if s.occ then .wait (core (parkE s f (.txParked req (req + j)))) "_exclusive_queue" true []
       else .ret (core (lockHelper s f)) (some true) []) ∧
    SharedTimedMutex.TimedWaitHelper_resume (core s) false true =
      (if XHeld s then .wait (core (parkS s f (.tsParked req (req + j)))) "_shared_queue" true []
       else .ret (core (sharedHelper s f)) (some true) []) ∧
    SharedTimedMutex.TimedWaitHelper_resume (core s) exclusive false = .ret (core s) (some false) [] := by
  refine ⟨?_, ?_, ?_, ?_, ?_⟩ <;> by_cases ho : s.occ = true <;> by_cases he : s.excl = true <;>
    simp [XHeld, SharedTimedMutex.TimedWaitHelper, SharedTimedMutex.TimedWaitHelper_resume, core, ho, he, parkE, parkS,
      sharedHelper, lockHelper]
end BridgeSm

/-- every blocking method re-checks its condition after the wake-up -/
theorem recheck_table :
    Extracted.FiberSync.methods.filter (fun m => m.2.2.1 = true ∧ m.2.2.2 ≠ "loop") = [] := by decide

end Yaclib.Props.C18.Bridge

/-! ## tie to the source (T2): the functions these models were written from are unchanged.
`Extracted/Kernels.lean` is regenerated from /repo on every check run; `Skeletons.lean` is the copy the models were
written from.  Every method of the FIBER primitives, the wait queue, the parts of thread / fiber / scheduler /
thread-local proxy the models use, and the `yaclib_std` wrappers (injection points only) are covered. -/
namespace Yaclib.Props.C18.Tie
open Yaclib

theorem tie_FiberMutex_lock : Extracted.Kernels.FiberMutex_lock = Skeletons.FiberMutex_lock := rfl
theorem tie_FiberMutex_try_lock : Extracted.Kernels.FiberMutex_try_lock = Skeletons.FiberMutex_try_lock := rfl
theorem tie_FiberMutex_unlock : Extracted.Kernels.FiberMutex_unlock = Skeletons.FiberMutex_unlock := rfl
theorem tie_FiberTimedMutex_TimedWaitHelper : Extracted.Kernels.FiberTimedMutex_TimedWaitHelper = Skeletons.FiberTimedMutex_TimedWaitHelper := rfl
theorem tie_FiberTimedMutex_try_lock_for : Extracted.Kernels.FiberTimedMutex_try_lock_for = Skeletons.FiberTimedMutex_try_lock_for := rfl
theorem tie_FiberTimedMutex_try_lock_until : Extracted.Kernels.FiberTimedMutex_try_lock_until = Skeletons.FiberTimedMutex_try_lock_until := rfl
theorem tie_FiberRecursiveMutex_lock : Extracted.Kernels.FiberRecursiveMutex_lock = Skeletons.FiberRecursiveMutex_lock := rfl
theorem tie_FiberRecursiveMutex_try_lock : Extracted.Kernels.FiberRecursiveMutex_try_lock = Skeletons.FiberRecursiveMutex_try_lock := rfl
theorem tie_FiberRecursiveMutex_unlock : Extracted.Kernels.FiberRecursiveMutex_unlock = Skeletons.FiberRecursiveMutex_unlock := rfl
theorem tie_FiberRecursiveMutex_LockHelper : Extracted.Kernels.FiberRecursiveMutex_LockHelper = Skeletons.FiberRecursiveMutex_LockHelper := rfl
theorem tie_FiberRecursiveTimedMutex_TimedWaitHelper : Extracted.Kernels.FiberRecursiveTimedMutex_TimedWaitHelper = Skeletons.FiberRecursiveTimedMutex_TimedWaitHelper := rfl
theorem tie_FiberRecursiveTimedMutex_try_lock_for : Extracted.Kernels.FiberRecursiveTimedMutex_try_lock_for = Skeletons.FiberRecursiveTimedMutex_try_lock_for := rfl
theorem tie_FiberRecursiveTimedMutex_try_lock_until : Extracted.Kernels.FiberRecursiveTimedMutex_try_lock_until = Skeletons.FiberRecursiveTimedMutex_try_lock_until := rfl
theorem tie_FiberSharedMutex_lock : Extracted.Kernels.FiberSharedMutex_lock = Skeletons.FiberSharedMutex_lock := rfl
theorem tie_FiberSharedMutex_try_lock : Extracted.Kernels.FiberSharedMutex_try_lock = Skeletons.FiberSharedMutex_try_lock := rfl
theorem tie_FiberSharedMutex_unlock : Extracted.Kernels.FiberSharedMutex_unlock = Skeletons.FiberSharedMutex_unlock := rfl
theorem tie_FiberSharedMutex_lock_shared : Extracted.Kernels.FiberSharedMutex_lock_shared = Skeletons.FiberSharedMutex_lock_shared := rfl
theorem tie_FiberSharedMutex_try_lock_shared : Extracted.Kernels.FiberSharedMutex_try_lock_shared = Skeletons.FiberSharedMutex_try_lock_shared := rfl
theorem tie_FiberSharedMutex_unlock_shared : Extracted.Kernels.FiberSharedMutex_unlock_shared = Skeletons.FiberSharedMutex_unlock_shared := rfl
theorem tie_FiberSharedMutex_LockHelper : Extracted.Kernels.FiberSharedMutex_LockHelper = Skeletons.FiberSharedMutex_LockHelper := rfl
theorem tie_FiberSharedMutex_SharedLockHelper : Extracted.Kernels.FiberSharedMutex_SharedLockHelper = Skeletons.FiberSharedMutex_SharedLockHelper := rfl
theorem tie_FiberSharedTimedMutex_TimedWaitHelper : Extracted.Kernels.FiberSharedTimedMutex_TimedWaitHelper = Skeletons.FiberSharedTimedMutex_TimedWaitHelper := rfl
theorem tie_FiberSharedTimedMutex_try_lock_for : Extracted.Kernels.FiberSharedTimedMutex_try_lock_for = Skeletons.FiberSharedTimedMutex_try_lock_for := rfl
theorem tie_FiberSharedTimedMutex_try_lock_until : Extracted.Kernels.FiberSharedTimedMutex_try_lock_until = Skeletons.FiberSharedTimedMutex_try_lock_until := rfl
theorem tie_FiberSharedTimedMutex_try_lock_shared_for : Extracted.Kernels.FiberSharedTimedMutex_try_lock_shared_for = Skeletons.FiberSharedTimedMutex_try_lock_shared_for := rfl
theorem tie_FiberSharedTimedMutex_try_lock_shared_until : Extracted.Kernels.FiberSharedTimedMutex_try_lock_shared_until = Skeletons.FiberSharedTimedMutex_try_lock_shared_until := rfl
theorem tie_FiberCondVar_notify_one : Extracted.Kernels.FiberCondVar_notify_one = Skeletons.FiberCondVar_notify_one := rfl
theorem tie_FiberCondVar_notify_all : Extracted.Kernels.FiberCondVar_notify_all = Skeletons.FiberCondVar_notify_all := rfl
theorem tie_FiberCondVar_wait : Extracted.Kernels.FiberCondVar_wait = Skeletons.FiberCondVar_wait := rfl
theorem tie_FiberCondVar_WaitImpl : Extracted.Kernels.FiberCondVar_WaitImpl = Skeletons.FiberCondVar_WaitImpl := rfl
theorem tie_FiberCondVar_WaitImplWithPredicate : Extracted.Kernels.FiberCondVar_WaitImplWithPredicate = Skeletons.FiberCondVar_WaitImplWithPredicate := rfl
theorem tie_FiberCondVar_wait_for : Extracted.Kernels.FiberCondVar_wait_for = Skeletons.FiberCondVar_wait_for := rfl
theorem tie_FiberCondVar_wait_until : Extracted.Kernels.FiberCondVar_wait_until = Skeletons.FiberCondVar_wait_until := rfl
theorem tie_FiberQueue_WaitNoTimeout : Extracted.Kernels.FiberQueue_WaitNoTimeout = Skeletons.FiberQueue_WaitNoTimeout := rfl
theorem tie_FiberQueue_WaitTimed : Extracted.Kernels.FiberQueue_WaitTimed = Skeletons.FiberQueue_WaitTimed := rfl
theorem tie_FiberQueue_NotifyAll : Extracted.Kernels.FiberQueue_NotifyAll = Skeletons.FiberQueue_NotifyAll := rfl
theorem tie_FiberQueue_NotifyOne : Extracted.Kernels.FiberQueue_NotifyOne = Skeletons.FiberQueue_NotifyOne := rfl
theorem tie_FiberQueue_ScheduleAndRemove : Extracted.Kernels.FiberQueue_ScheduleAndRemove = Skeletons.FiberQueue_ScheduleAndRemove := rfl
theorem tie_FiberThread_join : Extracted.Kernels.FiberThread_join = Skeletons.FiberThread_join := rfl
theorem tie_FiberThread_AfterJoinOrDetach : Extracted.Kernels.FiberThread_AfterJoinOrDetach = Skeletons.FiberThread_AfterJoinOrDetach := rfl
theorem tie_FiberBase_Exit : Extracted.Kernels.FiberBase_Exit = Skeletons.FiberBase_Exit := rfl
theorem tie_FiberBase_Resume : Extracted.Kernels.FiberBase_Resume = Skeletons.FiberBase_Resume := rfl
theorem tie_FiberBase_Suspend : Extracted.Kernels.FiberBase_Suspend = Skeletons.FiberBase_Suspend := rfl
theorem tie_FiberBase_GetTLS : Extracted.Kernels.FiberBase_GetTLS = Skeletons.FiberBase_GetTLS := rfl
theorem tie_FiberBase_SetTLS : Extracted.Kernels.FiberBase_SetTLS = Skeletons.FiberBase_SetTLS := rfl
theorem tie_FiberTls_GetImpl : Extracted.Kernels.FiberTls_GetImpl = Skeletons.FiberTls_GetImpl := rfl
theorem tie_FiberTls_Set : Extracted.Kernels.FiberTls_Set = Skeletons.FiberTls_Set := rfl
theorem tie_FiberTls_SetDefault : Extracted.Kernels.FiberTls_SetDefault = Skeletons.FiberTls_SetDefault := rfl
theorem tie_FiberTlsProxy_assign_ptr : Extracted.Kernels.FiberTlsProxy_assign_ptr = Skeletons.FiberTlsProxy_assign_ptr := rfl
theorem tie_FiberTlsProxy_assign_move : Extracted.Kernels.FiberTlsProxy_assign_move = Skeletons.FiberTlsProxy_assign_move := rfl
theorem tie_FiberTlsProxy_assign_copy : Extracted.Kernels.FiberTlsProxy_assign_copy = Skeletons.FiberTlsProxy_assign_copy := rfl
theorem tie_FiberTlsProxy_assign_conv : Extracted.Kernels.FiberTlsProxy_assign_conv = Skeletons.FiberTlsProxy_assign_conv := rfl
theorem tie_FiberTlsProxy_ctor_default : Extracted.Kernels.FiberTlsProxy_ctor_default = Skeletons.FiberTlsProxy_ctor_default := rfl
theorem tie_FiberTlsProxy_ctor_ptr : Extracted.Kernels.FiberTlsProxy_ctor_ptr = Skeletons.FiberTlsProxy_ctor_ptr := rfl
theorem tie_FiberTlsProxy_ctor_copy : Extracted.Kernels.FiberTlsProxy_ctor_copy = Skeletons.FiberTlsProxy_ctor_copy := rfl
theorem tie_FiberTlsProxy_Get : Extracted.Kernels.FiberTlsProxy_Get = Skeletons.FiberTlsProxy_Get := rfl
theorem tie_FiberSched_Sleep : Extracted.Kernels.FiberSched_Sleep = Skeletons.FiberSched_Sleep := rfl
theorem tie_FiberSched_SleepPreemptive : Extracted.Kernels.FiberSched_SleepPreemptive = Skeletons.FiberSched_SleepPreemptive := rfl
theorem tie_FiberSched_Schedule : Extracted.Kernels.FiberSched_Schedule = Skeletons.FiberSched_Schedule := rfl
theorem tie_FiberSched_RescheduleCurrent : Extracted.Kernels.FiberSched_RescheduleCurrent = Skeletons.FiberSched_RescheduleCurrent := rfl
theorem tie_FiberSched_Suspend : Extracted.Kernels.FiberSched_Suspend = Skeletons.FiberSched_Suspend := rfl
theorem tie_FiberThisThread_sleep : Extracted.Kernels.FiberThisThread_sleep = Skeletons.FiberThisThread_sleep := rfl
theorem tie_FiberThisThread_sleep_for : Extracted.Kernels.FiberThisThread_sleep_for = Skeletons.FiberThisThread_sleep_for := rfl
theorem tie_FaultMutex_lock : Extracted.Kernels.FaultMutex_lock = Skeletons.FaultMutex_lock := rfl
theorem tie_FaultMutex_try_lock : Extracted.Kernels.FaultMutex_try_lock = Skeletons.FaultMutex_try_lock := rfl
theorem tie_FaultMutex_unlock : Extracted.Kernels.FaultMutex_unlock = Skeletons.FaultMutex_unlock := rfl
theorem tie_FaultTimedMutex_try_lock_for : Extracted.Kernels.FaultTimedMutex_try_lock_for = Skeletons.FaultTimedMutex_try_lock_for := rfl
theorem tie_FaultTimedMutex_try_lock_until : Extracted.Kernels.FaultTimedMutex_try_lock_until = Skeletons.FaultTimedMutex_try_lock_until := rfl
theorem tie_FaultSharedMutex_lock_shared : Extracted.Kernels.FaultSharedMutex_lock_shared = Skeletons.FaultSharedMutex_lock_shared := rfl
theorem tie_FaultSharedMutex_try_lock_shared : Extracted.Kernels.FaultSharedMutex_try_lock_shared = Skeletons.FaultSharedMutex_try_lock_shared := rfl
theorem tie_FaultSharedMutex_unlock_shared : Extracted.Kernels.FaultSharedMutex_unlock_shared = Skeletons.FaultSharedMutex_unlock_shared := rfl
theorem tie_FaultSharedTimedMutex_try_lock_for : Extracted.Kernels.FaultSharedTimedMutex_try_lock_for = Skeletons.FaultSharedTimedMutex_try_lock_for := rfl
theorem tie_FaultSharedTimedMutex_try_lock_shared_for : Extracted.Kernels.FaultSharedTimedMutex_try_lock_shared_for = Skeletons.FaultSharedTimedMutex_try_lock_shared_for := rfl
theorem tie_FaultCondVar_wait : Extracted.Kernels.FaultCondVar_wait = Skeletons.FaultCondVar_wait := rfl
theorem tie_FaultCondVar_wait_for : Extracted.Kernels.FaultCondVar_wait_for = Skeletons.FaultCondVar_wait_for := rfl
theorem tie_FaultCondVar_notify_one : Extracted.Kernels.FaultCondVar_notify_one = Skeletons.FaultCondVar_notify_one := rfl
theorem tie_FaultCondVar_notify_all : Extracted.Kernels.FaultCondVar_notify_all = Skeletons.FaultCondVar_notify_all := rfl
theorem tie_FaultMutex_GetImpl : Extracted.Kernels.FaultMutex_GetImpl = Skeletons.FaultMutex_GetImpl := rfl
theorem tie_FaultSharedTimedMutex_try_lock_until : Extracted.Kernels.FaultSharedTimedMutex_try_lock_until = Skeletons.FaultSharedTimedMutex_try_lock_until := rfl
theorem tie_FaultSharedTimedMutex_try_lock_shared_until : Extracted.Kernels.FaultSharedTimedMutex_try_lock_shared_until = Skeletons.FaultSharedTimedMutex_try_lock_shared_until := rfl
theorem tie_FaultCondVar_wait_pred : Extracted.Kernels.FaultCondVar_wait_pred = Skeletons.FaultCondVar_wait_pred := rfl
theorem tie_FaultCondVar_wait_until : Extracted.Kernels.FaultCondVar_wait_until = Skeletons.FaultCondVar_wait_until := rfl
theorem tie_FaultCondVar_From_lock : Extracted.Kernels.FaultCondVar_From_lock = Skeletons.FaultCondVar_From_lock := rfl
theorem tie_FaultCondVar_From_pair : Extracted.Kernels.FaultCondVar_From_pair = Skeletons.FaultCondVar_From_pair := rfl
theorem tie_FaultCondVar_CVStatusFrom_wait : Extracted.Kernels.FaultCondVar_CVStatusFrom_wait = Skeletons.FaultCondVar_CVStatusFrom_wait := rfl
theorem tie_FaultCondVar_CVStatusFrom_cv : Extracted.Kernels.FaultCondVar_CVStatusFrom_cv = Skeletons.FaultCondVar_CVStatusFrom_cv := rfl
theorem tie_FaultCondVarAny_notify_one : Extracted.Kernels.FaultCondVarAny_notify_one = Skeletons.FaultCondVarAny_notify_one := rfl
theorem tie_FaultCondVarAny_notify_all : Extracted.Kernels.FaultCondVarAny_notify_all = Skeletons.FaultCondVarAny_notify_all := rfl
theorem tie_FaultCondVarAny_wait : Extracted.Kernels.FaultCondVarAny_wait = Skeletons.FaultCondVarAny_wait := rfl
theorem tie_FaultCondVarAny_wait_for : Extracted.Kernels.FaultCondVarAny_wait_for = Skeletons.FaultCondVarAny_wait_for := rfl
theorem tie_FaultCondVarAny_wait_until : Extracted.Kernels.FaultCondVarAny_wait_until = Skeletons.FaultCondVarAny_wait_until := rfl

end Yaclib.Props.C18.Tie

/-! ## which std name is which type (T1, text): the `yaclib_std` alias headers and the class shells of the wrappers.
`Extracted/FiberAlias.lean` is regenerated on every run from include/yaclib_std/{mutex,shared_mutex,condition_variable,
thread,chrono,thread_local}, include/yaclib_std/detail/*.hpp and include/yaclib/fault/detail/{mutex,…,condition_variable_any}.hpp.
The expected tables below are the ones the harness and the models were written against: under the FIBER backend every
lock name is the injection wrapper of the same name around the fiber primitive of the same name, all three clocks are the
scheduler's virtual clock, `thread` is the fiber thread, the thread-local macro is the per-fiber proxy, and
`condition_variable_any` does not exist. -/
namespace Yaclib.Props.C18.Alias
open Yaclib Yaclib.Extracted.FiberAlias

/-- every component selector follows the global backend switch, except the two that are not implemented -/
def expectedSelectors : List (String × String × String) := [
  ("mutex", "YACLIB_FAULT_CALL_ONCE", "0"),
  ("mutex", "YACLIB_FAULT_MUTEX", "YACLIB_FAULT"),
  ("mutex", "YACLIB_FAULT_RECURSIVE_MUTEX", "YACLIB_FAULT"),
  ("mutex", "YACLIB_FAULT_RECURSIVE_TIMED_MUTEX", "YACLIB_FAULT"),
  ("mutex", "YACLIB_FAULT_TIMED_MUTEX", "YACLIB_FAULT"),
  ("shared_mutex", "YACLIB_FAULT_SHARED_MUTEX", "YACLIB_FAULT"),
  ("shared_mutex", "YACLIB_FAULT_SHARED_TIMED_MUTEX", "YACLIB_FAULT"),
  ("condition_variable", "YACLIB_FAULT_CONDITION_VARIABLE", "YACLIB_FAULT"),
  ("condition_variable", "YACLIB_FAULT_CONDITION_VARIABLE_ANY", "YACLIB_FAULT"),
  ("thread", "YACLIB_FAULT_JTHREAD", "0"),
  ("thread", "YACLIB_FAULT_THIS_THREAD", "YACLIB_FAULT"),
  ("thread", "YACLIB_FAULT_THREAD", "YACLIB_FAULT"),
  ("chrono", "YACLIB_FAULT_CLOCK", "YACLIB_FAULT"),
  ("thread_local", "YACLIB_FAULT_THREAD_LOCAL", "YACLIB_FAULT")
]

def expectedAliases : List (String × String × String × String × String) := [
  ("mutex", "fiber", "alias", "mutex", "yaclib::detail::Mutex<yaclib::detail::fiber::Mutex>"),
  ("mutex", "thread", "alias", "mutex", "yaclib::detail::Mutex<std::mutex>"),
  ("mutex", "off", "alias", "mutex", "std::mutex"),
  ("timed_mutex", "fiber", "alias", "timed_mutex", "yaclib::detail::TimedMutex<yaclib::detail::fiber::TimedMutex>"),
  ("timed_mutex", "thread", "alias", "timed_mutex", "yaclib::detail::TimedMutex<std::timed_mutex>"),
  ("timed_mutex", "off", "alias", "timed_mutex", "std::timed_mutex"),
  ("recursive_mutex", "fiber", "alias", "recursive_mutex", "yaclib::detail::RecursiveMutex<yaclib::detail::fiber::RecursiveMutex>"),
  ("recursive_mutex", "thread", "alias", "recursive_mutex", "yaclib::detail::RecursiveMutex<std::recursive_mutex>"),
  ("recursive_mutex", "off", "alias", "recursive_mutex", "std::recursive_mutex"),
  ("recursive_timed_mutex", "fiber", "alias", "recursive_timed_mutex", "yaclib::detail::RecursiveTimedMutex<yaclib::detail::fiber::RecursiveTimedMutex>"),
  ("recursive_timed_mutex", "thread", "alias", "recursive_timed_mutex", "yaclib::detail::RecursiveTimedMutex<std::recursive_timed_mutex>"),
  ("recursive_timed_mutex", "off", "alias", "recursive_timed_mutex", "std::recursive_timed_mutex"),
  ("shared_mutex", "fiber", "alias", "shared_mutex", "yaclib::detail::SharedMutex<yaclib::detail::fiber::SharedMutex>"),
  ("shared_mutex", "thread", "alias", "shared_mutex", "yaclib::detail::SharedMutex<std::shared_mutex>"),
  ("shared_mutex", "off", "alias", "shared_mutex", "std::shared_mutex"),
  ("shared_timed_mutex", "fiber", "alias", "shared_timed_mutex", "yaclib::detail::SharedTimedMutex<yaclib::detail::fiber::SharedTimedMutex>"),
  ("shared_timed_mutex", "thread", "alias", "shared_timed_mutex", "yaclib::detail::SharedTimedMutex<std::shared_timed_mutex>"),
  ("shared_timed_mutex", "off", "alias", "shared_timed_mutex", "std::shared_timed_mutex"),
  ("condition_variable", "fiber", "alias", "condition_variable", "yaclib::detail::ConditionVariable<yaclib::detail::fiber::ConditionVariable>"),
  ("condition_variable", "thread", "alias", "condition_variable", "yaclib::detail::ConditionVariable<std::condition_variable>"),
  ("condition_variable", "off", "alias", "condition_variable", "std::condition_variable"),
  ("condition_variable_any", "fiber", "absent", "-", "-"),
  ("condition_variable_any", "thread", "alias", "condition_variable_any", "yaclib::detail::ConditionVariableAny<std::condition_variable_any>"),
  ("condition_variable_any", "off", "alias", "condition_variable_any", "std::condition_variable_any"),
  ("thread", "fiber", "alias", "thread", "yaclib::detail::fiber::Thread"),
  ("thread", "thread", "alias", "thread", "std::thread"),
  ("thread", "off", "alias", "thread", "std::thread"),
  ("this_thread", "fiber", "function", "sleep_until", "const std::chrono::time_point<Clock, Duration>& sleep_time"),
  ("this_thread", "fiber", "function", "sleep_for", "const std::chrono::duration<Rep, Period>& sleep_duration"),
  ("this_thread", "fiber", "object", "yield", "yaclib::fault::Scheduler::RescheduleCurrent"),
  ("this_thread", "fiber", "object", "get_id", "yaclib::fault::Scheduler::GetId"),
  ("this_thread", "thread", "using", "sleep_for", "std::this_thread::sleep_for"),
  ("this_thread", "thread", "using", "sleep_until", "std::this_thread::sleep_until"),
  ("this_thread", "thread", "using", "yield", "std::this_thread::yield"),
  ("this_thread", "thread", "using", "get_id", "std::this_thread::get_id"),
  ("this_thread", "off", "using", "sleep_for", "std::this_thread::sleep_for"),
  ("this_thread", "off", "using", "sleep_until", "std::this_thread::sleep_until"),
  ("this_thread", "off", "using", "yield", "std::this_thread::yield"),
  ("this_thread", "off", "using", "get_id", "std::this_thread::get_id"),
  ("clock", "fiber", "alias", "steady_clock", "yaclib::detail::fiber::SystemClock"),
  ("clock", "fiber", "alias", "high_resolution_clock", "yaclib::detail::fiber::SystemClock"),
  ("clock", "fiber", "alias", "system_clock", "yaclib::detail::fiber::SystemClock"),
  ("clock", "thread", "alias", "system_clock", "std::chrono::system_clock"),
  ("clock", "thread", "alias", "steady_clock", "std::chrono::steady_clock"),
  ("clock", "thread", "alias", "high_resolution_clock", "std::chrono::high_resolution_clock"),
  ("clock", "off", "alias", "system_clock", "std::chrono::system_clock"),
  ("clock", "off", "alias", "steady_clock", "std::chrono::steady_clock"),
  ("clock", "off", "alias", "high_resolution_clock", "std::chrono::high_resolution_clock"),
  ("thread_local", "fiber", "macro", "YACLIB_THREAD_LOCAL_PTR", "yaclib::detail::fiber::ThreadLocalPtrProxy<type>"),
  ("thread_local", "thread", "macro", "YACLIB_THREAD_LOCAL_PTR", "thread_local type*"),
  ("thread_local", "off", "macro", "YACLIB_THREAD_LOCAL_PTR", "thread_local type*")
]

def expectedWrappers : List (String × String × String × String) := [
  ("mutex", "-", "include", "yaclib/fault/inject.hpp"),
  ("mutex", "Mutex", "class", "protected Impl"),
  ("mutex", "Mutex", "access", "public"),
  ("mutex", "Mutex", "using", "Impl::Impl"),
  ("mutex", "Mutex", "using[!_MSC_VER]", "Impl::native_handle"),
  ("mutex", "Mutex", "method", "void lock()"),
  ("mutex", "Mutex", "method", "bool try_lock()"),
  ("mutex", "Mutex", "method", "void unlock()"),
  ("mutex", "Mutex", "using", "impl_t = Impl"),
  ("mutex", "Mutex", "method", "impl_t& GetImpl()"),
  ("timed_mutex", "-", "include", "yaclib/fault/detail/mutex.hpp"),
  ("timed_mutex", "-", "include", "yaclib/fault/inject.hpp"),
  ("timed_mutex", "-", "include", "yaclib_std/chrono"),
  ("timed_mutex", "TimedMutex", "class", "public Mutex<Impl>"),
  ("timed_mutex", "TimedMutex", "using", "Base = Mutex<Impl>"),
  ("timed_mutex", "TimedMutex", "access", "public"),
  ("timed_mutex", "TimedMutex", "using", "Base::Base"),
  ("timed_mutex", "TimedMutex", "method", "template <typename Rep, typename Period> bool try_lock_for(const std::chrono::duration<Rep, Period>& timeout_duration)"),
  ("timed_mutex", "TimedMutex", "method", "template <typename Clock, typename Duration> bool try_lock_until(const std::chrono::time_point<Clock, Duration>& timeout_time)"),
  ("recursive_mutex", "-", "include", "yaclib/fault/detail/mutex.hpp"),
  ("recursive_mutex", "RecursiveMutex", "class", "public Mutex<Impl>"),
  ("recursive_mutex", "RecursiveMutex", "using", "Base = Mutex<Impl>"),
  ("recursive_mutex", "RecursiveMutex", "access", "public"),
  ("recursive_mutex", "RecursiveMutex", "using", "Base::Base"),
  ("recursive_timed_mutex", "-", "include", "yaclib/fault/detail/timed_mutex.hpp"),
  ("recursive_timed_mutex", "RecursiveTimedMutex", "class", "public TimedMutex<Impl>"),
  ("recursive_timed_mutex", "RecursiveTimedMutex", "using", "Base = TimedMutex<Impl>"),
  ("recursive_timed_mutex", "RecursiveTimedMutex", "access", "public"),
  ("recursive_timed_mutex", "RecursiveTimedMutex", "using", "Base::Base"),
  ("shared_mutex", "-", "include", "yaclib/fault/detail/mutex.hpp"),
  ("shared_mutex", "-", "include", "yaclib/fault/inject.hpp"),
  ("shared_mutex", "SharedMutex", "class", "public Mutex<Impl>"),
  ("shared_mutex", "SharedMutex", "using", "Base = Mutex<Impl>"),
  ("shared_mutex", "SharedMutex", "access", "public"),
  ("shared_mutex", "SharedMutex", "using", "Base::Base"),
  ("shared_mutex", "SharedMutex", "method", "void lock_shared()"),
  ("shared_mutex", "SharedMutex", "method", "bool try_lock_shared()"),
  ("shared_mutex", "SharedMutex", "method", "void unlock_shared()"),
  ("shared_timed_mutex", "-", "include", "yaclib/fault/detail/shared_mutex.hpp"),
  ("shared_timed_mutex", "-", "include", "yaclib/fault/inject.hpp"),
  ("shared_timed_mutex", "-", "include", "yaclib_std/chrono"),
  ("shared_timed_mutex", "SharedTimedMutex", "class", "public SharedMutex<Impl>"),
  ("shared_timed_mutex", "SharedTimedMutex", "using", "Base = SharedMutex<Impl>"),
  ("shared_timed_mutex", "SharedTimedMutex", "access", "public"),
  ("shared_timed_mutex", "SharedTimedMutex", "using", "Base::Base"),
  ("shared_timed_mutex", "SharedTimedMutex", "method", "template <typename Rep, typename Period> bool try_lock_for(const std::chrono::duration<Rep, Period>& timeout_duration)"),
  ("shared_timed_mutex", "SharedTimedMutex", "method", "template <typename Clock, typename Duration> bool try_lock_until(const std::chrono::time_point<Clock, Duration>& timeout_time)"),
  ("shared_timed_mutex", "SharedTimedMutex", "method", "template <typename Rep, typename Period> bool try_lock_shared_for(const std::chrono::duration<Rep, Period>& timeout_duration)"),
  ("shared_timed_mutex", "SharedTimedMutex", "method", "template <typename Clock, typename Duration> bool try_lock_shared_until(const std::chrono::time_point<Clock, Duration>& timeout_time)"),
  ("condition_variable", "-", "include", "yaclib/fault/detail/wait_status.hpp"),
  ("condition_variable", "-", "include", "yaclib/fault/inject.hpp"),
  ("condition_variable", "-", "include", "yaclib/log.hpp"),
  ("condition_variable", "-", "include", "condition_variable"),
  ("condition_variable", "-", "include", "tuple"),
  ("condition_variable", "-", "include", "yaclib_std/chrono"),
  ("condition_variable", "-", "include", "yaclib_std/mutex"),
  ("condition_variable", "-", "function", "constexpr std::cv_status CVStatusFrom(WaitStatus status)"),
  ("condition_variable", "-", "function", "constexpr std::cv_status CVStatusFrom(std::cv_status status)"),
  ("condition_variable", "ConditionVariable", "class", "private Impl"),
  ("condition_variable", "ConditionVariable", "access", "public"),
  ("condition_variable", "ConditionVariable", "using", "Impl::Impl"),
  ("condition_variable", "ConditionVariable", "using[!_MSC_VER]", "Impl::native_handle"),
  ("condition_variable", "ConditionVariable", "method", "void notify_one() noexcept"),
  ("condition_variable", "ConditionVariable", "method", "void notify_all() noexcept"),
  ("condition_variable", "ConditionVariable", "method", "void wait(std::unique_lock<yaclib_std::mutex>& lock)"),
  ("condition_variable", "ConditionVariable", "method", "template <typename Predicate> void wait(std::unique_lock<yaclib_std::mutex>& lock, Predicate&& stop_waiting)"),
  ("condition_variable", "ConditionVariable", "method", "template <typename Rep, typename Period> std::cv_status wait_for(std::unique_lock<yaclib_std::mutex>& lock, const std::chrono::duration<Rep, Period>& rel_time)"),
  ("condition_variable", "ConditionVariable", "method", "template <typename Rep, typename Period, typename Predicate> bool wait_for(std::unique_lock<yaclib_std::mutex>& lock, const std::chrono::duration<Rep, Period>& rel_time, Predicate&& stop_waiting)"),
  ("condition_variable", "ConditionVariable", "method", "template <typename Clock, typename Duration> std::cv_status wait_until(std::unique_lock<yaclib_std::mutex>& lock, const std::chrono::time_point<Clock, Duration>& timeout_time)"),
  ("condition_variable", "ConditionVariable", "method", "template <typename Clock, typename Duration, typename Predicate> bool wait_until(std::unique_lock<yaclib_std::mutex>& lock, const std::chrono::time_point<Clock, Duration>& timeout_time, Predicate&& stop_waiting)"),
  ("condition_variable", "ConditionVariable", "access", "private"),
  ("condition_variable", "ConditionVariable", "method", "static auto From(std::unique_lock<yaclib_std::mutex>& lock)"),
  ("condition_variable", "ConditionVariable", "method", "static auto From(yaclib_std::mutex* mutex, std::unique_lock<yaclib_std::mutex::impl_t>& lock_impl)"),
  ("condition_variable_any", "-", "include", "yaclib/fault/inject.hpp"),
  ("condition_variable_any", "-", "include", "yaclib_std/chrono"),
  ("condition_variable_any", "-", "include", "yaclib_std/mutex"),
  ("condition_variable_any", "ConditionVariableAny", "class", "private Impl"),
  ("condition_variable_any", "ConditionVariableAny", "access", "public"),
  ("condition_variable_any", "ConditionVariableAny", "using", "Impl::Impl"),
  ("condition_variable_any", "ConditionVariableAny", "method", "void notify_one() noexcept"),
  ("condition_variable_any", "ConditionVariableAny", "method", "void notify_all() noexcept"),
  ("condition_variable_any", "ConditionVariableAny", "method", "template <typename Lock> void wait(Lock& lock)"),
  ("condition_variable_any", "ConditionVariableAny", "method", "template <typename Lock, typename Predicate> void wait(Lock& lock, Predicate&& stop_waiting)"),
  ("condition_variable_any", "ConditionVariableAny", "method", "template <typename Lock, typename Rep, typename Period> std::cv_status wait_for(Lock& lock, const std::chrono::duration<Rep, Period>& rel_time)"),
  ("condition_variable_any", "ConditionVariableAny", "method", "template <typename Lock, typename Rep, typename Period, typename Predicate> bool wait_for(Lock& lock, const std::chrono::duration<Rep, Period>& rel_time, Predicate&& stop_waiting)"),
  ("condition_variable_any", "ConditionVariableAny", "method", "template <typename Lock, typename Clock, typename Duration> std::cv_status wait_until(Lock& lock, const std::chrono::time_point<Clock, Duration>& timeout_time)"),
  ("condition_variable_any", "ConditionVariableAny", "method", "template <typename Lock, typename Clock, typename Duration, typename Predicate> bool wait_until(Lock& lock, const std::chrono::time_point<Clock, Duration>& timeout_time, Predicate&& stop_waiting)")
]

theorem selector_table_expected : selectorTable = expectedSelectors := rfl
theorem alias_table_expected : aliasTable = expectedAliases := rfl
theorem wrapper_table_expected : wrapperTable = expectedWrappers := rfl

/-- what a name of a detail header stands for under a backend (none: not declared there) -/
def target (hdr backend name : String) : Option String :=
  (aliasTable.find? fun r => r.1 == hdr && r.2.1 == backend && r.2.2.2.1 == name).map (·.2.2.2.2)

/-- the wrapper W<I> -/
def wrap (w i : String) : String := "yaclib::detail::" ++ w ++ "<" ++ i ++ ">"

/-- FIBER: each lock / condition-variable name is the wrapper of the same name around the fiber primitive of the same name -/
theorem fiber_locks_are_their_own_wrappers :
    ∀ p ∈ [("mutex", "Mutex"), ("timed_mutex", "TimedMutex"), ("recursive_mutex", "RecursiveMutex"),
           ("recursive_timed_mutex", "RecursiveTimedMutex"), ("shared_mutex", "SharedMutex"),
           ("shared_timed_mutex", "SharedTimedMutex"), ("condition_variable", "ConditionVariable")],
      target p.1 "fiber" p.1 = some (wrap p.2 ("yaclib::detail::fiber::" ++ p.2)) := by decide

/-- THREAD: the same wrappers around the std types; OFF: the std types themselves -/
theorem thread_and_off_locks :
    ∀ p ∈ [("mutex", "Mutex"), ("timed_mutex", "TimedMutex"), ("recursive_mutex", "RecursiveMutex"),
           ("recursive_timed_mutex", "RecursiveTimedMutex"), ("shared_mutex", "SharedMutex"),
           ("shared_timed_mutex", "SharedTimedMutex"), ("condition_variable", "ConditionVariable"),
           ("condition_variable_any", "ConditionVariableAny")],
      target p.1 "thread" p.1 = some (wrap p.2 ("std::" ++ p.1)) ∧ target p.1 "off" p.1 = some ("std::" ++ p.1) := by decide

/-- FIBER: all three clocks are the scheduler's virtual clock (so a deadline of any of them is a virtual time) -/
theorem fiber_clocks_are_virtual :
    ∀ c ∈ ["steady_clock", "system_clock", "high_resolution_clock"],
      target "clock" "fiber" c = some "yaclib::detail::fiber::SystemClock" := by decide

/-- FIBER: thread is the fiber thread, the thread-local macro the per-fiber proxy, yield / get_id the scheduler's -/
theorem fiber_thread_and_tls :
    target "thread" "fiber" "thread" = some "yaclib::detail::fiber::Thread"
    ∧ target "thread_local" "fiber" "YACLIB_THREAD_LOCAL_PTR" = some "yaclib::detail::fiber::ThreadLocalPtrProxy<type>"
    ∧ target "this_thread" "fiber" "yield" = some "yaclib::fault::Scheduler::RescheduleCurrent"
    ∧ target "this_thread" "fiber" "get_id" = some "yaclib::fault::Scheduler::GetId" := by decide

/-- FIBER: `condition_variable_any` is not declared (the harness cannot name it; its wrapper is tied by text and skeleton only) -/
theorem fiber_has_no_condition_variable_any :
    ("condition_variable_any", "fiber", "absent", "-", "-") ∈ aliasTable
    ∧ target "condition_variable_any" "fiber" "condition_variable_any" = none := by decide

/-- the methods a wrapper class declares itself -/
def methodsOf (cls : String) : List String :=
  (wrapperTable.filter fun r => r.2.1 == cls && r.2.2.1 == "method").map (·.2.2.2)

/-- the bases of a wrapper class -/
def basesOf (cls : String) : List String :=
  (wrapperTable.filter fun r => r.2.1 == cls && r.2.2.1 == "class").map (·.2.2.2)

/-- the inheritance chain the harness relies on: timed ⊂ plain, recursive = plain, shared-timed ⊂ shared ⊂ plain;
    the recursive wrappers add no member of their own (so the ties of Mutex / TimedMutex cover them) -/
theorem wrapper_inheritance :
    basesOf "Mutex" = ["protected Impl"] ∧ basesOf "TimedMutex" = ["public Mutex<Impl>"]
    ∧ basesOf "RecursiveMutex" = ["public Mutex<Impl>"] ∧ basesOf "RecursiveTimedMutex" = ["public TimedMutex<Impl>"]
    ∧ basesOf "SharedMutex" = ["public Mutex<Impl>"] ∧ basesOf "SharedTimedMutex" = ["public SharedMutex<Impl>"]
    ∧ basesOf "ConditionVariable" = ["private Impl"] ∧ basesOf "ConditionVariableAny" = ["private Impl"]
    ∧ methodsOf "RecursiveMutex" = [] ∧ methodsOf "RecursiveTimedMutex" = [] := by decide

end Yaclib.Props.C18.Alias
