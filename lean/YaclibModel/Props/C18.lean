/-
C18 — the yaclib_std locks, condition variable, thread and thread-local pointer of the FIBER backend keep the std
contracts.

Property theorems about the models of Model/FiberSync*.lean, for **every** number of fibers, every sequence of
operations each fiber chooses to perform and every scheduler choice (which runnable fiber moves next, which waiter a
`NotifyOne` wakes, the jitter of timed waits, the coin of `SharedMutex::unlock`).  Invariants and helper lemmas are in
Proofs/FiberSync*.lean.

Outcome on the code as it is:
  `Mutex` + `ConditionVariable`                 every theorem holds;
  `TimedMutex`                                   exclusion fails (D6), everything else holds; D8 is a memory-safety
                                                 defect of `SleepPreemptive` reached by every kind of timed wait;
  `RecursiveMutex`, `RecursiveTimedMutex`        exclusion holds *because* nobody is ever woken (D4): the wake-up theorem
                                                 fails; repairing D4 alone makes exclusion fail (D6);
  `SharedMutex`, `SharedTimedMutex`              exclusion, try-soundness and the wake-up theorem fail (D5, D6, D7);
                                                 what holds is stated for executions that have not taken a D5/D6 path;
  `thread::join`, `sleep_for`                    hold;
  thread-local pointers                          per fiber for `p = ptr` / `p.Get()`; not for pointers of different
                                                 pointee types (D13) and not for `q = p` (D14).
Each refuted statement has a `…_violated_witness` theorem: a concrete run of the executable model (the same runs
are replayed on the real library by harness/c18.cpp, see notes/C18.md).
-/
import YaclibModel.Proofs.FiberSyncWitness
import YaclibModel.Proofs.FiberSyncBridge
import YaclibModel.Proofs.FiberSyncBridgeRepaired
import YaclibModel.Extracted.Kernels
import YaclibModel.Model.Skeletons

namespace Yaclib.Props.C18
open Yaclib.FiberSync

theorem eq_singleton_of_mem {l : List Fid} {f : Fid} (hl : l.length ≤ 1) (hf : f ∈ l) : l = [f] := by
  cases l with
  | nil => cases hf
  | cons a t =>
      cases t with
      | nil => simp at hf; rw [hf]
      | cons b u => simp at hl

/-! ## Mutex, TimedMutex, ConditionVariable (model `Mx`) -/
section MutexCv
open Mx
variable {k fx : Bool} {n : Nat} {s : State}

/-- `yaclib_std::mutex` (also under `condition_variable::wait`): never two holders -/
theorem excl_Mutex (h : Reachable false fx n s) : s.holders.length ≤ 1 := by
  have hi := inv_reachable h
  have := hi.len
  have hb := hi.barge_timed hi.hk
  omega

/-- `timed_mutex`: at most one holder *plus one per D6 hit* … -/
theorem excl_TimedMutex_partial (h : Reachable k fx n s) : s.holders.length ≤ 1 + s.barge := (inv_reachable h).len

/-- … and D6 does strike: f0 holds, f1 parks in `try_lock_for`, f0 unlocks (f1 notified), f2 locks, f1 resumes and
    "locks" too.  Replayed on the implementation: scenario `timed f0=L,U f1=F50,U f2=L,U`. -/
theorem excl_TimedMutex_violated_witness : ∃ s, Reachable true false 3 s ∧ s.holders = [2, 1] ∧ s.barge = 1 := by
  have h := reach_run (k := true) (fx := false) (n := 3) Reachable.init
    (ls := [.lockStart 0, .lockAcq 0, .tlfPark 1 30 50 0, .unlock 0 (some 1), .lockStart 2, .lockAcq 2, .tlfAcq 1])
    (s' := _) rfl
  exact ⟨_, h, rfl, rfl⟩

/-- `try_lock`: success means the caller is the only holder, failure means somebody really holds the mutex -/
theorem try_sound_Mutex (h : Reachable false fx n s) {f : Fid} {ok : Bool} {s' : State} (hs : Step s (.tryLock f ok) s') :
    (ok = true → s.holders = [] ∧ s'.holders = [f]) ∧ (ok = false → s.holders ≠ []) := by
  have hi := inv_reachable h
  match hs with
  | .tryOk _ _ _ ho =>
      have h0 : s.holders = [] := by
        have := hi.occ_free ho
        have hb := hi.barge_timed hi.hk
        exact List.length_eq_zero_iff.mp (by omega)
      simp [acquire, h0]
  | .tryFail _ _ _ ho => simp; exact hi.occ_held ho

/-- `try_lock_for/until` returning false: the requested deadline has passed (in virtual time) … -/
theorem try_sound_TimedMutex_fail (h : Reachable k fx n s) {f : Fid} {t : Nat} {s' : State} (hs : Step s (.tlfTimeout f t) s') :
    ∃ req dl, s.pc f = .tlfParked req dl ∧ req ≤ t := by
  have hi := inv_reachable h
  match hs with
  | .tlfTimeout _ _ _ req dl _ hp hd _ => exact ⟨req, dl, hp, Nat.le_trans (hi.dl_tlf f req dl hp) hd⟩

/-- … returning true: the caller is the only holder as long as D6 has not struck … -/
theorem try_sound_TimedMutex_partial (h : Reachable k fx n s) {f : Fid} {s' : State} (hs : Step s (.tlfAcq f) s')
    (hb : s'.barge = 0) : s'.holders = [f] := by
  have hi' := inv_reachable (.step h hs)
  have hl := hi'.len
  refine eq_singleton_of_mem (by omega) ?_
  match hs with
  | .tlfFast .. => simp [acquire]
  | .tlfWokenAcq .. => simp [doTlfWokenAcq, acquire]
  | .tlfRecheckAcq .. => simp [acquire]

/-- … and when it has, `try_lock_for` reports success while another fiber holds the mutex -/
theorem try_sound_TimedMutex_violated_witness :
    ∃ s s', Reachable true false 3 s ∧ Step s (.tlfAcq 1) s' ∧ s.holders = [2] ∧ s'.holders = [2, 1] := by
  have h := reach_run (k := true) (fx := false) (n := 3) Reachable.init
    (ls := [.lockStart 0, .lockAcq 0, .tlfPark 1 30 50 0, .unlock 0 (some 1), .lockStart 2, .lockAcq 2]) (s' := _) rfl
  exact ⟨_, _, h, next_sound (l := .tlfAcq 1) (s' := _) rfl, rfl, rfl⟩

/-- the proposed repair of D6 (`while (r && _occupied)` with the deadline fixed at the call, model flag `fixed`) is
    sufficient: never two holders of a `timed_mutex`, and a successful `try_lock_for` is the only holder -/
theorem excl_TimedMutex_repaired (h : Reachable k true n s) : s.holders.length ≤ 1 := by
  have hi := inv_reachable h
  have hfx : s.fixed = true := by
    clear hi
    induction h with
    | init => rfl
    | step _ hs ih => cases hs <;> (try cases ‹Option Fid›) <;> simp_all [acquire, doLockPark, release, notifyM, doTlfPark, doTlfWokenAcq, doTlfRepark, doTlfTimeout, doCvWait, doCvWaitFor, doCvTimeout, doNotifyOne, doNotifyAll]
  have := hi.len
  have := hi.barge_fixed hfx
  omega

theorem try_sound_TimedMutex_repaired (h : Reachable k true n s) {f : Fid} {s' : State} (hs : Step s (.tlfAcq f) s') :
    s'.holders = [f] := by
  have h' : Reachable k true n s' := .step h hs
  have hl := excl_TimedMutex_repaired h'
  refine eq_singleton_of_mem hl ?_
  match hs with
  | .tlfFast .. => simp [acquire]
  | .tlfWokenAcq .. => simp [doTlfWokenAcq, acquire]
  | .tlfRecheckAcq .. => simp [acquire]

/-- a blocked locker is woken when the mutex becomes available (safety form): in a state in which no fiber can move —
    now or at any later virtual time — every fiber has finished, waits on the condition variable for a notify, or is
    parked in `lock()` (possibly the re-lock of a cv wait) on a mutex that really is held.  Holds for `timed_mutex` too. -/
theorem quiescent_none_parked_Mutex (h : Reachable k fx n s) (hq : Quiescent s) (f : Fid) :
    s.pc f = .done ∨ s.pc f = .cvParked ∨ (∃ c, s.pc f = .lockParked c ∧ s.occupied = true ∧ s.holders ≠ []) := by
  have hi := inv_reachable h
  rcases quiescent_classify hi hq f with hd | ⟨c, hc⟩ | hcv
  · exact Or.inl hd
  · have := quiescent_parked_held hi hq f (by rw [hc]; rfl)
    exact Or.inr (Or.inr ⟨c, hc, this.1, this.2⟩)
  · exact Or.inr (Or.inl hcv)

/-- the invariant behind it: a free mutex with parked lockers always has a notified locker on its way -/
theorem no_lost_wakeup_Mutex (h : Reachable k fx n s) (ho : s.occupied = false) (hm : s.mq ≠ []) :
    ∃ g, g ∈ s.transit ∧ (s.pc g).woken = true := by
  have hi := inv_reachable h
  have ht := hi.free_transit ho hm
  cases htr : s.transit with
  | nil => exact absurd htr ht
  | cons g rest => exact ⟨g, by simp, hi.transit_pc g (by rw [htr]; simp)⟩

/-- `notify_one` wakes a waiter that was already blocked on the condition variable (and exactly when there is one) -/
theorem notify_wakes_blocked (h : Reachable k fx n s) {f : Fid} {w : Option Fid} {s' : State}
    (hs : Step s (.notifyOne f w) s') :
    (w = none → s.cq = []) ∧
    (∀ g, w = some g → g ∈ s.cq ∧ (s.pc g).inCq = true ∧ s'.pc g = .locking (.cv false) ∧ g ∉ s'.cq) := by
  have hi := inv_reachable h
  match hs with
  | .notifyOne _ _ _ _ hw =>
      cases w with
      | none => simp [PickOk] at hw; simp [hw]
      | some g =>
          simp only [PickOk] at hw
          refine ⟨by simp, ?_⟩
          intro g' hg'; cases hg'
          exact ⟨hw, hi.cq_pc g hw, by simp [doNotifyOne], by simp [doNotifyOne, not_mem_rm_self]⟩

/-- `notify_all` wakes every blocked waiter -/
theorem notify_all_wakes_all (h : Reachable k fx n s) {f : Fid} {s' : State} (hs : Step s (.notifyAll f) s') :
    s'.cq = [] ∧ ∀ g, (s.pc g).inCq = true → s'.pc g = .locking (.cv false) := by
  have hi := inv_reachable h
  match hs with
  | .notifyAll .. =>
      refine ⟨rfl, ?_⟩
      intro g hg
      simp [doNotifyAll, hi.pc_cq g hg]

/-- no spurious wake-ups: a fiber leaves the un-timed cv wait only through a notify -/
theorem cv_wait_ends_by_notify {l : Label} {s' : State} (hs : Step s l s') {g : Fid} (hg : s.pc g = .cvParked)
    (hg' : s'.pc g ≠ .cvParked) : (∃ f, l = .notifyOne f (some g)) ∨ (∃ f, l = .notifyAll f) := by
  cases hs with
  | notifyOne f w h hw =>
      cases w with
      | none => simp [doNotifyOne] at hg'; exact absurd hg hg'
      | some w =>
          by_cases hwg : w = g
          · subst hwg; exact Or.inl ⟨f, rfl⟩
          · simp [doNotifyOne, upd_apply, Ne.symm hwg] at hg'; exact absurd hg hg'
  | notifyAll f h => exact Or.inr ⟨f, rfl⟩
  | unlock f w h hh hw => cases w <;> simp [release, notifyM, upd_apply] at hg' <;> grind [wake]
  | cvWait f w h hh hw => cases w <;> simp [doCvWait, release, notifyM, upd_apply] at hg' <;> grind [wake]
  | cvWaitFor f w t d j h hh hw ht => cases w <;> simp [doCvWaitFor, release, notifyM, upd_apply] at hg' <;> grind [wake]
  | tryFail f h ho => exact absurd hg hg'
  | _ => simp [acquire, doLockPark, doTlfPark, doTlfWokenAcq, doTlfTimeout, doTlfRepark, doCvTimeout, upd_apply] at hg' <;> grind

/-- timed waits end at or after the deadline that was asked for (virtual time): `try_lock_for/until` failing,
    `cv.wait_for/until` timing out, `sleep_for` returning -/
theorem timed_wait_not_early (h : Reachable k fx n s) {f : Fid} {t : Nat} {s' : State} :
    (Step s (.tlfTimeout f t) s' → ∃ req dl, s.pc f = .tlfParked req dl ∧ req ≤ t) ∧
    (Step s (.cvTimeout f t) s' → ∃ req dl, s.pc f = .cvTimed req dl ∧ req ≤ t) ∧
    (Step s (.sleepWake f t) s' → ∃ dl, s.pc f = .sleeping dl ∧ dl ≤ t) := by
  have hi := inv_reachable h
  refine ⟨try_sound_TimedMutex_fail h, ?_, ?_⟩
  · intro hs
    match hs with
    | .cvTimeout _ _ _ req dl hp hd _ => exact ⟨req, dl, hp, Nat.le_trans (hi.dl_cv f req dl hp) hd⟩
  · intro hs
    match hs with
    | .sleepWake _ _ _ dl hp hd _ => exact ⟨dl, hp, hd⟩

/-- the deadline a timed wait records is the time of the call plus the duration that was asked for -/
theorem timed_wait_deadline {f : Fid} {t d j : Nat} {w : Option Fid} {s' : State} :
    (Step s (.tlfPark f t d j) s' → s'.pc f = .tlfParked (t + d) (t + d + j)) ∧
    (Step s (.cvWaitFor f w t d j) s' → s'.pc f = .cvTimed (t + d) (t + d + j)) ∧
    (Step s (.sleepStart f t d) s' → s'.pc f = .sleeping (t + d)) := by
  refine ⟨?_, ?_, ?_⟩ <;> intro hs <;> cases hs <;> simp [doTlfPark, doCvWaitFor]

/-- D8: a timed wait whose jittered deadline equals the current time makes `SleepPreemptive` dereference
    `_sleep_list.end()` (`try_lock_for(0ns)` with jitter 0).  Replayed: scenario `timed f0=L,U f1=F0,U`. -/
theorem sleep_list_lookup_violated_witness : ∃ s, Reachable true false 2 s ∧ s.endDeref = 1 := by
  have h := reach_run (k := true) (fx := false) (n := 2) Reachable.init
    (ls := [.lockStart 0, .lockAcq 0, .tlfPark 1 30 0 0, .tlfTimeout 1 30]) (s' := _) rfl
  exact ⟨_, h, rfl⟩

/-- … and only then -/
theorem sleep_list_lookup_partial {l : Label} {s' : State} (hs : Step s l s') (hd : s.endDeref < s'.endDeref) :
    (∃ f t, l = .tlfPark f t 0 0) ∨ (∃ f w t, l = .cvWaitFor f w t 0 0) := by
  cases hs with
  | tlfPark f t d j hk h ho ht =>
      by_cases h0 : d + j = 0
      · have hd0 : d = 0 := by omega
        have hj0 : j = 0 := by omega
        subst hd0 hj0; exact Or.inl ⟨f, t, rfl⟩
      · simp only [doTlfPark, if_neg h0] at hd; omega
  | cvWaitFor f w t d j h hh hw ht =>
      by_cases h0 : d + j = 0
      · have hd0 : d = 0 := by omega
        have hj0 : j = 0 := by omega
        subst hd0 hj0; exact Or.inr ⟨f, w, t, rfl⟩
      · cases w <;> simp only [doCvWaitFor, release, notifyM, if_neg h0] at hd <;> omega
  | unlock f w h hh hw => cases w <;> simp [release, notifyM] at hd
  | cvWait f w h hh hw => cases w <;> simp [doCvWait, release, notifyM] at hd
  | notifyOne f w h hw => cases w <;> simp [doNotifyOne] at hd
  | _ => simp [acquire, doLockPark, doTlfWokenAcq, doTlfTimeout, doTlfRepark, doCvTimeout, doNotifyAll] at hd

/-- everything the trace validator accepts is a behaviour the theorems speak about -/
theorem validator_sound_Mx {l : Label} {s' : State} (h : Reachable k fx n s) (hn : next s l = some s') : Reachable k fx n s' :=
  .step h (next_sound hn)

/-! non-vacuity -/

/-- a contended mutex: f1 parks, f0's unlock notifies it, it re-checks and takes the lock -/
example : ∃ s, Reachable false false 2 s ∧ s.holders = [1] ∧ s.transit = [] := by
  have h := reach_run (k := false) (fx := false) (n := 2) Reachable.init
    (ls := [.lockStart 0, .lockAcq 0, .lockStart 1, .lockPark 1, .unlock 0 (some 1), .lockAcq 1]) (s' := _) rfl
  exact ⟨_, h, rfl, rfl⟩

/-- barging on a plain mutex is harmless: the notified fiber finds the mutex taken again and parks again -/
example : ∃ s, Reachable false false 3 s ∧ s.holders = [2] ∧ s.mq = [1] := by
  have h := reach_run (k := false) (fx := false) (n := 3) Reachable.init
    (ls := [.lockStart 0, .lockAcq 0, .lockStart 1, .lockPark 1, .unlock 0 (some 1), .lockStart 2, .lockAcq 2, .lockPark 1])
    (s' := _) rfl
  exact ⟨_, h, rfl, rfl⟩

/-- cv: wait releases the mutex, notify_one wakes the waiter, it re-locks after the notifier unlocked -/
example : ∃ s, Reachable false false 2 s ∧ s.holders = [0] ∧ s.pc 0 = .idle := by
  have h := reach_run (k := false) (fx := false) (n := 2) Reachable.init
    (ls := [.lockStart 0, .lockAcq 0, .cvWait 0 none, .lockStart 1, .lockAcq 1, .notifyOne 1 (some 0), .lockPark 0,
            .unlock 1 (some 0), .lockAcq 0]) (s' := _) rfl
  exact ⟨_, h, rfl, rfl⟩

/-- a timed cv wait that times out at its deadline and re-locks -/
example : ∃ s, Reachable false false 1 s ∧ s.holders = [0] ∧ s.now = 61 := by
  have h := reach_run (k := false) (fx := false) (n := 1) Reachable.init
    (ls := [.lockStart 0, .lockAcq 0, .cvWaitFor 0 none 20 40 1, .cvTimeout 0 61, .lockAcq 0]) (s' := _) rfl
  exact ⟨_, h, rfl, rfl⟩

/-- the repaired `try_lock_for` in the D6 schedule: the woken waiter finds the mutex taken again and parks again -/
example : ∃ s, Reachable true true 3 s ∧ s.holders = [2] ∧ s.mq = [1] ∧ s.pc 1 = .tlfParked 80 81 := by
  have h := reach_run (k := true) (fx := true) (n := 3) Reachable.init
    (ls := [.lockStart 0, .lockAcq 0, .tlfPark 1 30 50 0, .unlock 0 (some 1), .lockStart 2, .lockAcq 2, .tlfRepark 1 1])
    (s' := _) rfl
  exact ⟨_, h, rfl, rfl, rfl⟩

/-- a quiescent state with a parked locker exists (the quiescence theorem is not vacuous): f0 finished holding the
    mutex, f1 parked -/
example : ∃ s, Reachable false false 2 s ∧ Quiescent s ∧ s.pc 1 = .lockParked .plain := by
  have h := reach_run (k := false) (fx := false) (n := 2) Reachable.init
    (ls := [.lockStart 0, .lockAcq 0, .finish 0, .lockStart 1, .lockPark 1]) (s' := _) rfl
  refine ⟨_, h, ?_, rfl⟩
  intro l s' hs
  cases hs <;> simp_all [init, upd, acquire, doLockPark] <;> grind

end MutexCv

/-! ## RecursiveMutex, RecursiveTimedMutex (model `Rm`, the code as it is: `patch = false`) -/
section Recursive
open Rm
variable {k lp : Bool} {n : Nat} {s : State}

/-- all acquisitions not yet released belong to one fiber -/
theorem excl_RecursiveMutex (h : Reachable k false lp n s) : ∀ a ∈ s.holders, ∀ b ∈ s.holders, a = b := by
  intro a ha b hb
  have hi := inv_reachable h
  have := hi.own a ha
  rw [hi.own b hb] at this
  exact (Option.some.inj this).symm

/-- `_occupied_count` is the number of acquisitions not yet released -/
theorem count_exact_RecursiveMutex (h : Reachable k false lp n s) : s.count = s.holders.length := (inv_reachable h).cnt

/-- `try_lock`: after success every holder is the caller; failure means another fiber really holds the mutex -/
theorem try_sound_RecursiveMutex (h : Reachable k false lp n s) {f : Fid} {ok : Bool} {s' : State}
    (hs : Step s (.tryLock f ok) s') :
    (ok = true → ∀ a ∈ s'.holders, a = f) ∧ (ok = false → ∃ g, g ≠ f ∧ g ∈ s.holders) := by
  have hi := inv_reachable h
  have hi' := inv_reachable (.step h hs)
  match hs with
  | .tryOk _ _ _ hf =>
      refine ⟨fun _ a ha => ?_, by simp⟩
      have := hi'.own a ha
      simp [lockHelper] at this
      exact this.symm
  | .tryFail _ _ _ hf =>
      refine ⟨by simp, fun _ => ?_⟩
      simp only [Free, not_or] at hf
      have hne : s.holders ≠ [] := by
        intro h0; have := hi.cnt; rw [h0] at this; exact hf.1 (by simpa using this)
      cases hh : s.holders with
      | nil => exact absurd hh hne
      | cons g rest =>
          have hg : g ∈ s.holders := by rw [hh]; simp
          refine ⟨g, ?_, by simp⟩
          intro hgf; subst hgf; exact hf.2 (hi.own g hg)

/-- `try_lock_for/until` returning false: the requested deadline has passed -/
theorem try_sound_RecursiveTimedMutex_fail (h : Reachable k false lp n s) {f : Fid} {t : Nat} {s' : State}
    (hs : Step s (.tlfTimeout f t) s') : ∃ req dl, s.pc f = .tParked req dl ∧ req ≤ t := by
  have hi := inv_reachable h
  match hs with
  | .tlfTimeout _ _ _ req dl _ hp hd _ => exact ⟨req, dl, hp, Nat.le_trans (hi.dl f req dl hp) hd⟩

/-- D4, stated positively: no fiber parked by `lock()` / `try_lock_for()` is ever woken by a notify -/
theorem recursive_waiter_never_notified (h : Reachable k false lp n s) (g : Fid) : (s.pc g).woke = false :=
  (inv_reachable h).no_woke g

/-- D4: `quiescent_none_parked_RecursiveMutex` is false.  f0 locks, f1 calls `lock()` and parks, f0 unlocks and
    finishes: nobody can move, f1 is parked on a free mutex.  Replayed: scenario `rec f0=L,L,U,U f1=L,U`. -/
theorem quiescent_none_parked_RecursiveMutex_violated_witness :
    ∃ s, Reachable false false false 2 s ∧ Quiescent s ∧ s.pc 1 = .parked ∧ s.count = 0 ∧ s.holders = [] := by
  have h := reach_run (k := false) (p := false) (lp := false) (n := 2) Reachable.init
    (ls := [.lockAcq 0, .lockPark 1, .unlock 0 none, .finish 0]) (s' := _) rfl
  refine ⟨_, h, ?_, rfl, rfl, rfl⟩
  intro l s' hs
  cases hs <;> simp_all [init, upd, lockHelper, doPark, doUnlock, rm] <;> grind

/-- what the repair has to contain: with `unlock` notifying (D4 repaired) but the single `if` left in `lock()` (D6),
    two fibers own the mutex.  f0 holds, f1 parks, f0 unlocks and notifies f1, f2 locks, f1 resumes → `LockHelper()`. -/
theorem patchD4_alone_violated_witness : ∃ s, Reachable false true false 3 s ∧ s.holders = [2, 1] ∧ s.barge = 1 := by
  have h := reach_run (k := false) (p := true) (lp := false) (n := 3) Reachable.init
    (ls := [.lockAcq 0, .lockPark 1, .unlock 0 (some 1), .lockAcq 2, .lockAcq 1]) (s' := _) rfl
  exact ⟨_, h, rfl, rfl⟩

/-- the proposed repair (`unlock` notifies when the count drops to 0 **and** `lock()` / `TimedWaitHelper` re-check in a
    `while`; model flags `patch = loop = true`) is sufficient: exclusion … -/
theorem excl_RecursiveMutex_repaired (h : Reachable k true true n s) : ∀ a ∈ s.holders, ∀ b ∈ s.holders, a = b := by
  intro a ha b hb
  have hi := invF_reachable h
  have := hi.own a ha
  rw [hi.own b hb] at this
  exact (Option.some.inj this).symm

/-- … and the wake-up theorem that D4 refutes: in a quiescent state every fiber has finished or is parked in `lock()`
    on a mutex that really is held -/
theorem quiescent_none_parked_RecursiveMutex_repaired (h : Reachable k true true n s) (hq : Quiescent s) (f : Fid) :
    s.pc f = .done ∨ (s.pc f = .parked ∧ s.count ≠ 0 ∧ s.holders ≠ []) := by
  have hi := invF_reachable h
  rcases quiescent_classifyF hi hq f with hd | hp
  · exact Or.inl hd
  · exact Or.inr ⟨hp, quiescent_parked_heldF hi hq f hp⟩

/-- the D4 schedule on the repaired code: f1 is notified, re-checks and takes the mutex -/
example : ∃ s, Reachable false true true 2 s ∧ s.holders = [1] ∧ s.owner = some 1 ∧ s.transit = [] := by
  have h := reach_run (k := false) (p := true) (lp := true) (n := 2) Reachable.init
    (ls := [.lockAcq 0, .lockPark 1, .unlock 0 (some 1), .finish 0, .lockAcq 1]) (s' := _) rfl
  exact ⟨_, h, rfl, rfl, rfl⟩

theorem validator_sound_Rm {p : Bool} {l : Label} {s' : State} (h : Reachable k p lp n s) (hn : next s l = some s') :
    Reachable k p lp n s' := .step h (next_sound hn)

/-- recursion works: lock twice, unlock once, still owned; try_lock by another fiber fails -/
example : ∃ s, Reachable false false false 2 s ∧ s.count = 1 ∧ s.owner = some 0 ∧ s.holders = [0] := by
  have h := reach_run (k := false) (p := false) (lp := false) (n := 2) Reachable.init
    (ls := [.lockAcq 0, .tryLock 0 true, .tryLock 1 false, .unlock 0 none]) (s' := _) rfl
  exact ⟨_, h, rfl, rfl, rfl⟩

/-- a contended `try_lock_for` can only time out, even though the mutex was released long before the deadline -/
example : ∃ s, Reachable true false false 2 s ∧ s.count = 0 ∧ s.pc 1 = .idle ∧ s.holders = [] := by
  have h := reach_run (k := true) (p := false) (lp := false) (n := 2) Reachable.init
    (ls := [.tlfAcq 0, .tlfPark 1 10 1000 0, .unlock 0 none, .tlfTimeout 1 1010]) (s' := _) rfl
  exact ⟨_, h, rfl, rfl, rfl⟩

end Recursive

/-! ## SharedMutex, SharedTimedMutex (model `Sm`) -/
section Shared
open Sm
variable {k fx : Bool} {n : Nat} {s : State}

/-- compatible holders: at most one writer, and no reader next to a writer -/
def Compatible (s : State) : Prop := s.xh.length ≤ 1 ∧ (s.xh ≠ [] → s.sh = [])

theorem not_compatible_of {s : State} {a b : Fid} (hx : s.xh = [a]) (hs : s.sh = [b]) : ¬ Compatible s := by
  intro hc
  have := hc.2 (by rw [hx]; simp)
  rw [hs] at this; cases this

theorem compatible_of_writer {s : State} {a : Fid} (hx : s.xh = [a]) (hs : s.sh = []) : Compatible s := by
  simp [Compatible, hx, hs]

/-- D6 on `shared_mutex`: f0 reads, f1 calls `lock()` and parks, f0's `unlock_shared` notifies f1, f2 takes a shared
    lock, f1 resumes → `LockHelper()`: a writer next to a reader.  Replayed: scenario `shared f0=LS,US f1=L,U f2=LS,US`. -/
theorem excl_SharedMutex_violated_witness : ∃ s, Reachable false false 3 s ∧ s.xh = [1] ∧ s.sh = [2] ∧ ¬ Compatible s := by
  have h := reach_run (k := false) (fx := false) (n := 3) Reachable.init
    (ls := [.sAcq 0, .xPark 1, .unlockS 0 (some 1), .sAcq 2, .xAcq 1]) (s' := _) rfl
  exact ⟨_, h, rfl, rfl, not_compatible_of rfl rfl⟩

/-- D5 on `shared_timed_mutex`, no contention needed: an exclusive `try_lock_for` succeeds, then `try_lock_shared`
    succeeds as well.  Replayed: scenario `sharedt f0=LS,US f1=F50,U f2=TS,US`. -/
theorem excl_SharedTimedMutex_violated_witness : ∃ s, Reachable true false 2 s ∧ s.xh = [0] ∧ s.sh = [1] ∧ ¬ Compatible s := by
  have h := reach_run (k := true) (fx := false) (n := 2) Reachable.init (ls := [.txAcq 0, .tryS 1 true]) (s' := _) rfl
  exact ⟨_, h, rfl, rfl, not_compatible_of rfl rfl⟩

/-- what does hold: as long as no D5/D6 path was taken, holders are compatible -/
theorem excl_Shared_partial (h : Reachable k false n s) (hc : Clean s) : Compatible s := by
  have hi := inv_reachable h
  rcases hi.modes hc with ⟨_, hx, _, _⟩ | ⟨_, _, hx, hs, _⟩ | ⟨_, _, hx, _, _⟩
  · simp [Compatible, hx]
  · simp [Compatible, hx, hs]
  · simp [Compatible, hx]

/-- `_shared_owners_count` never underflows: every shared holder is counted -/
theorem shared_count_no_underflow (h : Reachable k false n s) : s.sh.length ≤ s.cnt := (inv_reachable h).sh_cnt

/-- try-operations under the same proviso: success holds in the requested mode, failure had an incompatible holder -/
theorem try_sound_Shared_partial (h : Reachable k false n s) {f : Fid} {ok : Bool} {s' : State} (hc : Clean s') :
    (Step s (.tryX f ok) s' → (ok = true → s'.xh = [f] ∧ s'.sh = []) ∧ (ok = false → s.xh ≠ [] ∨ s.sh ≠ [])) ∧
    (Step s (.tryS f ok) s' → (ok = true → s'.xh = [] ∧ f ∈ s'.sh) ∧ (ok = false → s.xh ≠ [])) := by
  have hi := inv_reachable h
  constructor
  · intro hs
    have hi' := inv_reachable (.step h hs)
    match hs with
    | .tryXOk _ _ _ ho =>
        refine ⟨fun _ => ?_, by simp⟩
        rcases hi.modes (by simpa [Clean, lockHelper] using hc) with ⟨_, hx, hs, _⟩ | ⟨ho', _⟩ | ⟨ho', _⟩
        · simp [lockHelper, hx, hs]
        · rw [ho] at ho'; cases ho'
        · rw [ho] at ho'; cases ho'
    | .tryXFail _ _ _ ho =>
        refine ⟨by simp, fun _ => ?_⟩
        rcases hi.modes hc with ⟨ho', _⟩ | ⟨_, _, hx, _⟩ | ⟨_, _, _, hs, hp⟩
        · rw [ho] at ho'; cases ho'
        · left; intro h0; rw [h0] at hx; simp at hx
        · right; intro h0; rw [h0] at hs; simp at hs; omega
  · intro hs
    match hs with
    | .trySOk _ _ _ hx =>
        refine ⟨fun _ => ?_, by simp⟩
        rcases hi.modes (by simpa [Clean, sharedHelper] using hc) with ⟨_, hxh, _⟩ | ⟨ho, he, _⟩ | ⟨_, _, hxh, _⟩
        · simp [sharedHelper, hxh]
        · exact absurd ⟨ho, he⟩ hx
        · simp [sharedHelper, hxh]
    | .trySFail _ _ _ hx =>
        refine ⟨by simp, fun _ => ?_⟩
        rcases hi.modes hc with ⟨ho, _⟩ | ⟨_, _, hxh, _⟩ | ⟨_, he, _⟩
        · rw [hx.1] at ho; cases ho
        · intro h0; rw [h0] at hxh; simp at hxh
        · rw [hx.2] at he; cases he

/-- D5, sequential use: after an exclusive `try_lock_for` + `unlock` and a reader's `lock_shared` + `unlock_shared`
    the count is stuck at 1 and `_occupied` stays true: `try_lock` fails although nobody holds the lock (and `lock()`
    would park forever).  Replayed: scenario `sharedt f0=F50,U f1=LS,US f2=L,U`. -/
theorem try_sound_SharedTimedMutex_violated_witness :
    ∃ s s', Reachable true false 2 s ∧ Step s (.tryX 1 false) s' ∧ s.xh = [] ∧ s.sh = [] ∧ s.occ = true := by
  have h := reach_run (k := true) (fx := false) (n := 2) Reachable.init
    (ls := [.txAcq 0, .unlock 0 false none, .sAcq 1, .unlockS 1 none]) (s' := _) rfl
  exact ⟨_, _, h, next_sound (l := .tryX 1 false) (s' := _) rfl, rfl, rfl, rfl⟩

/-- timed acquisitions returning false: the requested deadline has passed -/
theorem try_sound_SharedTimedMutex_fail (h : Reachable k false n s) {f : Fid} {t : Nat} {s' : State} :
    (Step s (.txTimeout f t) s' → ∃ req dl, s.pc f = .txParked req dl ∧ req ≤ t) ∧
    (Step s (.tsTimeout f t) s' → ∃ req dl, s.pc f = .tsParked req dl ∧ req ≤ t) := by
  have hi := inv_reachable h
  constructor <;> intro hs
  · match hs with
    | .txTimeout _ _ _ req dl _ hp hd _ => exact ⟨req, dl, hp, Nat.le_trans (hi.dl_tx f req dl hp) hd⟩
  · match hs with
    | .tsTimeout _ _ _ req dl _ hp hd _ => exact ⟨req, dl, hp, Nat.le_trans (hi.dl_ts f req dl hp) hd⟩

/-- D7: `quiescent_none_parked_SharedMutex` is false.  A writer holds, two readers call `lock_shared()` and park (on
    the exclusive queue), the writer's `unlock` wakes ONE of them; it takes the lock in shared mode — and the other
    reader stays parked although the lock is held by readers only.  Replayed: `shared f0=L,U f1=LS,J2,US f2=LS,US`. -/
theorem quiescent_none_parked_SharedMutex_violated_witness :
    ∃ s, Reachable false false 3 s ∧ Quiescent s ∧ s.pc 2 = .sParked ∧ s.xh = [] ∧ s.sh = [1] ∧ s.d5 = 0 ∧ s.d6 = 0 := by
  have h := reach_run (k := false) (fx := false) (n := 3) Reachable.init
    (ls := [.xAcq 0, .sPark 1, .sPark 2, .unlock 0 false (some 1), .finish 0, .sAcq 1, .finish 1]) (s' := _) rfl
  refine ⟨_, h, ?_, rfl, rfl, rfl, rfl, rfl⟩
  intro l s' hs
  cases hs <;> simp_all [init, upd, lockHelper, sharedHelper, parkE, parkS, doUnlock, notifyE, notifyAllS, wakesShared, bumpS, wake, rm] <;> grind

/-- the proposed repairs of D5, D6, D7 (model flag `fixed`) are sufficient: holders are always compatible … -/
theorem excl_Shared_repaired (h : Reachable k true n s) : Compatible s := by
  have hi := invF_reachable h
  rcases hi.modes with ⟨_, hx, _, _⟩ | ⟨_, _, hx, hs, _⟩ | ⟨_, _, hx, _, _⟩
  · simp [Compatible, hx]
  · simp [Compatible, hx, hs]
  · simp [Compatible, hx]

/-- … `try_lock` / `try_lock_shared` succeed exactly in the requested mode and fail only with an incompatible holder … -/
theorem try_sound_Shared_repaired (h : Reachable k true n s) {f : Fid} {ok : Bool} {s' : State} :
    (Step s (.tryX f ok) s' → (ok = true → s'.xh = [f] ∧ s'.sh = []) ∧ (ok = false → s.xh ≠ [] ∨ s.sh ≠ [])) ∧
    (Step s (.tryS f ok) s' → (ok = true → s'.xh = [] ∧ f ∈ s'.sh) ∧ (ok = false → s.xh ≠ [])) := by
  have hi := invF_reachable h
  constructor
  · intro hs
    match hs with
    | .tryXOk _ _ _ ho =>
        refine ⟨fun _ => ?_, by simp⟩
        rcases hi.modes with ⟨_, hx, hs, _⟩ | ⟨ho', _⟩ | ⟨ho', _⟩
        · simp [lockHelper, hx, hs]
        · rw [ho] at ho'; cases ho'
        · rw [ho] at ho'; cases ho'
    | .tryXFail _ _ _ ho =>
        refine ⟨by simp, fun _ => ?_⟩
        rcases hi.modes with ⟨ho', _⟩ | ⟨_, _, hx, _⟩ | ⟨_, _, _, hs, hp⟩
        · rw [ho] at ho'; cases ho'
        · left; intro h0; rw [h0] at hx; simp at hx
        · right; intro h0; rw [h0] at hs; simp at hs; omega
  · intro hs
    match hs with
    | .trySOk _ _ _ hx =>
        refine ⟨fun _ => ?_, by simp⟩
        rcases hi.modes with ⟨_, hxh, _⟩ | ⟨ho, he, _⟩ | ⟨_, _, hxh, _⟩
        · simp [sharedHelper, hxh]
        · exact absurd ⟨ho, he⟩ hx
        · simp [sharedHelper, hxh]
    | .trySFail _ _ _ hx =>
        refine ⟨by simp, fun _ => ?_⟩
        rcases hi.modes with ⟨ho, _⟩ | ⟨_, _, hxh, _⟩ | ⟨_, he, _⟩
        · rw [hx.1] at ho; cases ho
        · intro h0; rw [h0] at hxh; simp at hxh
        · rw [hx.2] at he; cases he

/-- … and the wake-up theorem that D7 (and D5) refute: in a quiescent state every fiber has finished, or is a writer
    parked on a lock that is held, or a reader parked on a lock that a writer holds -/
theorem quiescent_none_parked_SharedMutex_repaired (h : Reachable k true n s) (hq : Quiescent s) (f : Fid) :
    s.pc f = .done ∨ (s.pc f = .xParked ∧ s.occ = true ∧ (s.xh ≠ [] ∨ s.sh ≠ [])) ∨
      (s.pc f = .sParked ∧ s.occ = true ∧ s.excl = true ∧ s.xh ≠ []) := by
  have hi := invF_reachable h
  rcases quiescent_classifyF hi hq f with hd | hx | hs
  · exact Or.inl hd
  · exact Or.inr (Or.inl ⟨hx, quiescent_writer_heldF hi hq f hx⟩)
  · exact Or.inr (Or.inr ⟨hs, quiescent_reader_heldF hi f hs⟩)

/-- the D7 schedule on the repaired code: the writer's `unlock` wakes both readers, both hold the lock in shared mode -/
example : ∃ s, Reachable false true 3 s ∧ s.sh = [1, 2] ∧ s.xh = [] ∧ s.cnt = 2 := by
  have h := reach_run (k := false) (fx := true) (n := 3) Reachable.init
    (ls := [.xAcq 0, .sPark 1, .sPark 2, .unlock 0 false none, .sAcq 1, .sAcq 2]) (s' := _) rfl
  exact ⟨_, h, rfl, rfl, rfl⟩

/-- the D5 schedule on the repaired code: after an exclusive `try_lock_for` the shared `try_lock` fails -/
example : ∃ s, Reachable true true 2 s ∧ s.xh = [0] ∧ s.sh = [] ∧ s.excl = true := by
  have h := reach_run (k := true) (fx := true) (n := 2) Reachable.init (ls := [.txAcq 0, .tryS 1 false]) (s' := _) rfl
  exact ⟨_, h, rfl, rfl, rfl⟩

theorem validator_sound_Sm {l : Label} {s' : State} (h : Reachable k false n s) (hn : next s l = some s') : Reachable k false n s' :=
  .step h (next_sound hn)

/-- readers share, a writer waits for the last reader and is woken by it -/
example : ∃ s, Reachable false false 3 s ∧ s.xh = [2] ∧ s.sh = [] ∧ s.d6 = 0 ∧ Compatible s := by
  have h := reach_run (k := false) (fx := false) (n := 3) Reachable.init
    (ls := [.sAcq 0, .tryS 1 true, .tryX 2 false, .xPark 2, .unlockS 0 none, .unlockS 1 (some 2), .xAcq 2]) (s' := _) rfl
  exact ⟨_, h, rfl, rfl, rfl, compatible_of_writer rfl rfl⟩

/-- `unlock` with both queues non-empty draws the coin; here it wakes the timed shared waiters -/
example : ∃ s, Reachable true false 3 s ∧ s.pc 1 = .tsWoken ∧ s.pc 2 = .xParked := by
  have h := reach_run (k := true) (fx := false) (n := 3) Reachable.init
    (ls := [.xAcq 0, .tsPark 1 10 50 0, .xPark 2, .unlock 0 true none]) (s' := _) rfl
  exact ⟨_, h, rfl, rfl⟩

end Shared

/-! ## thread::join, sleep_for, thread-local pointers (model `Th`) -/
section Thread
open Th
variable {fx : Bool} {n : Nat} {s : State}

/-- `join` returns only after the thread function of the joined fiber has returned — and that fiber never runs again -/
theorem join_after_finish (h : Reachable fx n s) {f j : Fid} {s' : State} (hs : Step s (.joinRet f j) s') :
    s.fin j = true ∧ s.pc j = .done := by
  have hi := inv_reachable h
  match hs with
  | .joinRet _ _ _ _ hf => exact ⟨hf, hi.fin_done j hf⟩

/-- `sleep_for` returns at or after its deadline -/
theorem sleep_not_early {f : Fid} {t : Nat} {s' : State} (hs : Step s (.sleepWake f t) s') :
    ∃ dl, s.pc f = .sleeping dl ∧ dl ≤ t := by
  match hs with
  | .sleepWake _ _ _ dl hp hd _ => exact ⟨dl, hp, hd⟩

/-- thread-local pointers are per fiber, for plain pointer assignment `p = ptr` and reads of the same pointer:
    a fiber reads what it stored last, and a store by another fiber changes nothing for it.
    (The full property — "thread-local pointers are per fiber" for every use a `thread_local T*` supports — is
    false: see the two witnesses below.) -/
theorem tls_per_fiber_partial {f : Fid} {s' : State} :
    (∀ r v, Step s (.getP f r) s' → s.slot0 f = some v → r = some v) ∧
    (∀ v g, Step s (.setP f v) s' → s'.slot0 f = some v ∧ (g ≠ f → read0 s' g = read0 s g ∧ read1 s' g = read1 s g)) := by
  constructor
  · intro r v hs hv
    match hs with
    | .getP .. => simp [read0, hv]
  · intro v g hs
    match hs with
    | .setP .. =>
        refine ⟨by simp, fun hg => ?_⟩
        simp [read0, read1, upd_apply, hg]

/-- D14: `q = p` between two thread-local pointers writes the process-wide default of `q`: a fiber that never touched
    `q` reads the value another fiber copied.  Replayed: scenario `tls f0=P1,C,GQ,E,GQ f1=GQ,P2,E,GQ`. -/
theorem tls_copy_violated_witness :
    ∃ s s', Reachable false 2 s ∧ Step s (.getQ 1 (some 1)) s' ∧ s.lastQ 1 = none ∧ s.slot1 1 = none := by
  have h := reach_run (fx := false) (n := 2) Reachable.init (ls := [.setP 0 1, .copyQP 0]) (s' := _) rfl
  exact ⟨_, _, h, next_sound (l := .getQ 1 (some 1)) (s' := _) rfl, rfl, rfl⟩

/-- D14, second half: a fiber that has assigned `q` itself does not see its own later `q = p` (the copy went to the
    default, the fiber's own entry wins).  Replayed: scenario `tls f0=PQ3,GQ,P1,C,GQ f1=GQ,PQ2,GQ`. -/
theorem tls_copy_lost_violated_witness :
    ∃ s s', Reachable false 1 s ∧ Step s (.getQ 0 (some 3)) s' ∧ s.lastQ 0 = some (some 1) := by
  have h := reach_run (fx := false) (n := 1) Reachable.init (ls := [.setQ 0 3, .setP 0 1, .copyQP 0]) (s' := _) rfl
  exact ⟨_, _, h, next_sound (l := .getQ 0 (some 3)) (s' := _) rfl, rfl⟩

/-- D13: thread-local pointers of different pointee types share slot indices: a never-assigned `long*` reads what the
    fiber stored into an `int*`.  Replayed: scenario `tls f0=GL,P1,GL f1=GL,G`. -/
theorem tls_alias_violated_witness : ∃ s s', Reachable false 1 s ∧ Step s (.getL 0 (some 1)) s' := by
  have h := reach_run (fx := false) (n := 1) Reachable.init (ls := [.setP 0 1]) (s' := _) rfl
  exact ⟨_, _, h, next_sound (l := .getL 0 (some 1)) (s' := _) rfl⟩

/-- the proposed repairs of D13 / D14 (model flag `fixed`) are sufficient: `q.Get()` returns what this fiber last assigned
    to `q` — by `q = ptr` or by `q = p` — or null if it never did, whatever other fibers do; a never-assigned pointer of
    another type reads null -/
theorem tls_per_fiber_repaired (h : Reachable true n s) {f : Fid} {r : Option Nat} {s' : State} :
    (Step s (.getQ f r) s' → (∀ v, s.lastQ f = some v → r = v) ∧ (s.lastQ f = none → r = none)) ∧
    (Step s (.getL f r) s' → r = none) := by
  have hi := invF_reachable h
  constructor <;> intro hs
  · match hs with
    | .getQ .. =>
        refine ⟨fun v hv => ?_, fun hn => ?_⟩
        · have := hi.q_own f v hv
          cases v <;> simp_all [read1, hi.def1]
        · simp [read1, hi.q_none f hn, hi.def1]
  · match hs with
    | .getL .. => simp [readL, hi.hfx]

theorem validator_sound_Th {l : Label} {s' : State} (h : Reachable fx n s) (hn : next s l = some s') : Reachable fx n s' :=
  .step h (next_sound hn)

/-- a join that has to wait: f0 joins f1 while it runs, f1 finishes, the join returns -/
example : ∃ s, Reachable false 2 s ∧ s.pc 0 = .idle ∧ s.fin 1 = true := by
  have h := reach_run (fx := false) (n := 2) Reachable.init (ls := [.joinStart 0 1, .work 1, .finish 1, .joinRet 0 1]) (s' := _) rfl
  exact ⟨_, h, rfl, rfl⟩

end Thread

end Yaclib.Props.C18

/-! ## tie to the source (T1): the models' effects on the fields of the primitives are the functions regenerated from
the C++ method bodies (`Extracted/FiberSync.lean`, vlib/x_fibersync.py).  `core` (Proofs/FiberSyncBridge.lean) projects a
model state to the fields of the C++ object.  Each theorem: running the extracted method (from its entry, or from the
return of its wait) in the projection of a model state ends exactly as the model's `Step` rule says — same new field
values, same return value, same notifications, same queue to wait on. -/
namespace Yaclib.Props.C18.Bridge
open Yaclib.FiberSync Yaclib.Extracted.FiberSync

section BridgeMx
open Mx
/-- `Mutex::lock`, condition false: rule `lockAcq`; condition true: rule `lockPark` -/
theorem bridge_Mx_lock (s : State) (f : Fid) (k : Kont) :
    Mutex.lock (core s) =
      if s.occupied then .wait (core (doLockPark s f k)) "_queue" false [] else .ret (core (acquire s f)) none [] := rfl

/-- … and after the wake-up the condition is evaluated again (the `while`): the woken fiber is in `locking` again -/
theorem bridge_Mx_lock_recheck (c : Mutex) (ready : Bool) : Mutex.lock_resume c ready = Mutex.lock c := rfl

theorem bridge_Mx_try_lock (s : State) (f : Fid) :
    Mutex.try_lock (core s) =
      if s.occupied then .ret (core s) (some false) [] else .ret (core (acquire s f)) (some true) [] := rfl

/-- `Mutex::unlock`: rule `unlock` (and the first half of `cvWait`) -/
theorem bridge_Mx_unlock (s : State) (f : Fid) (w : Option Fid) :
    Mutex.unlock (core s) = .ret (core (release s f w)) none [.one "_queue"] := by
  cases w <;> rfl

/-- `TimedMutex::TimedWaitHelper` from the call: rules `tlfFast` / `tlfPark` -/
theorem bridge_Mx_timed (s : State) (f : Fid) (t d j : Nat) :
    TimedMutex.TimedWaitHelper (core s) =
      if s.occupied then .wait (core (doTlfPark s f t d j)) "_queue" true []
      else .ret (core (acquire s f)) (some true) [] := by
  simp [TimedMutex.TimedWaitHelper, core, doTlfPark, acquire]

/-- … from the return of the wait: rule `tlfWokenAcq` (D6: `_occupied` is not looked at) and rule `tlfTimeout` -/
theorem bridge_Mx_timed_resume (s : State) (f : Fid) (t : Nat) :
    TimedMutex.TimedWaitHelper_resume (core s) true = .ret (core (doTlfWokenAcq s f)) (some true) [] ∧
    TimedMutex.TimedWaitHelper_resume (core s) false = .ret (core (doTlfTimeout s f t)) (some false) [] := ⟨rfl, rfl⟩
end BridgeMx

section BridgeRm
open Rm
/-- `RecursiveMutex::lock`: rules `lockFast` / `lockPark` -/
theorem bridge_Rm_lock (s : State) (f : Fid) :
    RecursiveMutex.lock (core s) f =
      if Free s f then .ret (core (lockHelper s f)) none [] else .wait (core (doPark s f)) "_queue" false [] := by
  by_cases hc : s.count = 0
  · simp [Free, core, hc, lockHelper, RecursiveMutex.lock]
  · by_cases ho : s.owner = some f
    · simp [Free, core, hc, ho, lockHelper, RecursiveMutex.lock]
    · simp [Free, core, hc, ho, doPark, doTlfPark, RecursiveMutex.lock]

/-- … after the wake-up: `LockHelper()` without looking at the fields (D6): rule `lockWokenAcq` -/
theorem bridge_Rm_lock_resume (s : State) (f : Fid) (ready : Bool) :
    RecursiveMutex.lock_resume (core s) f ready = .ret (core (doWokenAcq s f)) none [] := rfl

theorem bridge_Rm_try_lock (s : State) (f : Fid) :
    RecursiveMutex.try_lock (core s) f =
      if Free s f then .ret (core (lockHelper s f)) (some true) [] else .ret (core s) (some false) [] := by
  by_cases hc : s.count = 0
  · simp [Free, core, hc, lockHelper, RecursiveMutex.try_lock]
  · by_cases ho : s.owner = some f
    · simp [Free, core, hc, ho, lockHelper, RecursiveMutex.try_lock]
    · simp [Free, core, hc, ho, doPark, doTlfPark, RecursiveMutex.try_lock]

/-- `RecursiveMutex::unlock`: rule `unlock` — the list of notifications is empty (D4) -/
theorem bridge_Rm_unlock (s : State) (f : Fid) :
    RecursiveMutex.unlock (core s) = .ret (core (doUnlock s f)) none [] := by
  simp only [RecursiveMutex.unlock, core, doUnlock]
  by_cases h : s.count - 1 = 0 <;> simp [h]

/-- `RecursiveTimedMutex::TimedWaitHelper`: rules `tlfFast` / `tlfPark`, `tlfWokenAcq` (D6) / `tlfTimeout` -/
theorem bridge_Rm_timed (s : State) (f : Fid) (t d j : Nat) :
    RecursiveTimedMutex.TimedWaitHelper (core s) f =
      if Free s f then .ret (core (lockHelper s f)) (some true) []
      else .wait (core (doTlfPark s f t d j)) "_queue" true [] := by
  by_cases hc : s.count = 0
  · simp [Free, core, hc, lockHelper, RecursiveTimedMutex.TimedWaitHelper]
  · by_cases ho : s.owner = some f
    · simp [Free, core, hc, ho, lockHelper, RecursiveTimedMutex.TimedWaitHelper]
    · simp [Free, core, hc, ho, doPark, doTlfPark, RecursiveTimedMutex.TimedWaitHelper]

theorem bridge_Rm_timed_resume (s : State) (f : Fid) (t : Nat) :
    RecursiveTimedMutex.TimedWaitHelper_resume (core s) f true = .ret (core (doWokenAcq s f)) (some true) [] ∧
    RecursiveTimedMutex.TimedWaitHelper_resume (core s) f false = .ret (core (doTlfTimeout s f t)) (some false) [] :=
  ⟨rfl, rfl⟩
end BridgeRm

section BridgeSm
open Sm
/-- `SharedMutex::lock`: rules `xFast` / `xPark`; after the wake-up `LockHelper()` unconditionally (D6): `xWokenAcq` -/
theorem bridge_Sm_lock (s : State) (f : Fid) :
    SharedMutex.lock (core s) =
      (if s.occ then .wait (core (parkE s f .xParked)) "_exclusive_queue" false [] else .ret (core (lockHelper s f)) none []) ∧
    ∀ ready, SharedMutex.lock_resume (core s) ready = .ret (core { lockHelper s f with d6 := bumpX s }) none [] :=
  ⟨rfl, fun _ => rfl⟩

theorem bridge_Sm_try_lock (s : State) (f : Fid) :
    SharedMutex.try_lock (core s) =
      if s.occ then .ret (core s) (some false) [] else .ret (core (lockHelper s f)) (some true) [] := rfl

/-- `SharedMutex::lock_shared`: rules `sFast` / `sPark` — it waits on the *exclusive* queue (D7); `sWokenAcq` (D6) -/
theorem bridge_Sm_lock_shared (s : State) (f : Fid) :
    SharedMutex.lock_shared (core s) =
      (if XHeld s then .wait (core (parkE s f .sParked)) "_exclusive_queue" false []
       else .ret (core (sharedHelper s f)) none []) ∧
    ∀ ready, SharedMutex.lock_shared_resume (core s) ready = .ret (core { sharedHelper s f with d6 := bumpS s }) none [] := by
  refine ⟨?_, fun _ => rfl⟩
  by_cases ho : s.occ = true <;> by_cases he : s.excl = true <;>
    simp [XHeld, SharedMutex.lock_shared, core, ho, he, parkE, sharedHelper]

theorem bridge_Sm_try_lock_shared (s : State) (f : Fid) :
    SharedMutex.try_lock_shared (core s) =
      if XHeld s then .ret (core s) (some false) [] else .ret (core (sharedHelper s f)) (some true) [] := by
  by_cases ho : s.occ = true <;> by_cases he : s.excl = true <;>
    simp [XHeld, SharedMutex.try_lock_shared, core, ho, he, sharedHelper]

/-- `SharedMutex::unlock`: rule `unlock`: `_occupied = false`, the counters untouched, and the whole shared queue or ONE
    fiber of the exclusive queue is notified (D7), by the coin when both are non-empty -/
theorem bridge_Sm_unlock (s : State) (f : Fid) (rand : Nat) (w : Option Fid) :
    SharedMutex.unlock (core s) (qempty s) rand =
      .ret (core (doUnlock s f (rand == 0) w)) none
        (if wakesShared s (rand == 0) then [.all "_shared_queue"] else [.one "_exclusive_queue"]) := by
  have hc : core (doUnlock s f (rand == 0) w) = ⟨s.cnt, false, s.excl⟩ := by
    simp only [doUnlock, core_notifyE, core_notifyAllS]; rfl
  rw [hc]
  by_cases hs : s.sq = [] <;> by_cases he : s.eq = [] <;> by_cases hr : rand = 0 <;>
    simp [SharedMutex.unlock, core, qempty, wakesShared, hs, he, hr]

/-- `SharedMutex::unlock_shared`: rule `unlockS` -/
theorem bridge_Sm_unlock_shared (s : State) (f : Fid) (w : Option Fid) :
    SharedMutex.unlock_shared (core s) =
      .ret (core (doUnlockS s f w)) none (if s.cnt - 1 = 0 then [.one "_exclusive_queue"] else []) := by
  have hc : core (doUnlockS s f w) = ⟨s.cnt - 1, if s.cnt - 1 = 0 then false else s.occ, s.excl⟩ := by
    simp only [doUnlockS, core_notifyE]; rfl
  rw [hc]
  by_cases h : s.cnt - 1 = 0 <;> simp [SharedMutex.unlock_shared, core, h]

/-- `SharedTimedMutex::TimedWaitHelper(timeout, exclusive)`: an *exclusive* request that does not wait ends in
    `SharedLockHelper()` (D5: rule `txFast` uses `sharedHelperX`), one that waits waits on the exclusive queue; a shared
    request: rules `tsFast` / `tsPark` (shared queue) -/
theorem bridge_Sm_timed (s : State) (f : Fid) (t d j : Nat) :
    SharedTimedMutex.TimedWaitHelper (core s) true =
      (if s.occ then .wait (core { parkE s f (.txParked (t + d) (t + d + j)) with now := t }) "_exclusive_queue" true []
       else .ret (core (sharedHelperX s f)) (some true) []) ∧
    SharedTimedMutex.TimedWaitHelper (core s) false =
      (if XHeld s then .wait (core { parkS s f (.tsParked (t + d) (t + d + j)) with now := t }) "_shared_queue" true []
       else .ret (core (sharedHelper s f)) (some true) []) := by
  constructor <;> by_cases ho : s.occ = true <;> by_cases he : s.excl = true <;>
    simp [XHeld, SharedTimedMutex.TimedWaitHelper, core, ho, he, parkE, parkS, sharedHelper, sharedHelperX]

/-- … from the return of the wait: `SharedLockHelper()` whatever the fields say (D5 + D6), or nothing after a timeout -/
theorem bridge_Sm_timed_resume (s : State) (f : Fid) (exclusive : Bool) :
    SharedTimedMutex.TimedWaitHelper_resume (core s) true true = .ret (core { sharedHelperX s f with d6 := bumpX s }) (some true) [] ∧
    SharedTimedMutex.TimedWaitHelper_resume (core s) false true = .ret (core { sharedHelper s f with d6 := bumpS s }) (some true) [] ∧
    SharedTimedMutex.TimedWaitHelper_resume (core s) exclusive false = .ret (core s) (some false) [] := ⟨rfl, rfl, rfl⟩
end BridgeSm

/-- which waits re-check their condition after the wake-up: only `Mutex::lock` -/
theorem recheck_table : Extracted.FiberSync.methods.filter (fun m => m.2.2.2 = "loop") = [("Mutex", "lock", true, "loop")] := by
  decide

end Yaclib.Props.C18.Bridge

/-! ## the repaired variants and the repaired code
`Extracted/FiberSyncRepaired.lean` is the (golden) output of the same translator on /repo with
notes/C18_proposed_patches.diff applied.  These theorems pin what the `fixed` / `patch` / `loop` variants of the models
describe: every wait re-evaluates its condition after the wake-up (`…_resume` = the entry function), `unlock` of the
recursive mutex notifies, readers wait on the shared queue, `unlock` of the shared mutex wakes all readers and one
writer, the exclusive timed acquisition ends in `LockHelper()`. -/
namespace Yaclib.Props.C18.BridgeRepaired
open Yaclib.FiberSync Yaclib.Extracted.FiberSyncRepaired

section RMx
open Mx
/-- repaired `TimedWaitHelper`: rules `tlfFast` / `tlfPark`, and after the wake-up `tlfRecheckAcq` / `tlfRepark`
    (`_occupied` is looked at again) or the timeout -/
theorem repaired_Mx_timed (s : State) (f : Fid) (t d j req : Nat) :
    TimedMutex.TimedWaitHelper (coreR s) =
      (if s.occupied then .wait (coreR (doTlfPark s f t d j)) "_queue" true []
       else .ret (coreR (acquire s f)) (some true) []) ∧
    TimedMutex.TimedWaitHelper_resume (coreR s) true =
      (if s.occupied then .wait (coreR (doTlfRepark s f req j)) "_queue" true []
       else .ret (coreR (acquire s f)) (some true) []) ∧
    TimedMutex.TimedWaitHelper_resume (coreR s) false = .ret (coreR (doTlfTimeout s f t)) (some false) [] := by
  refine ⟨?_, ?_, ?_⟩ <;> by_cases ho : s.occupied = true <;>
    simp [TimedMutex.TimedWaitHelper, TimedMutex.TimedWaitHelper_resume, coreR, ho, doTlfPark, doTlfRepark, doTlfTimeout, acquire]
end RMx

section RRm
open Rm
/-- repaired `RecursiveMutex::lock`: the continuation after the wait is the loop again (rules `lockRecheckAcq` / `lockRepark`) -/
theorem repaired_Rm_lock_rechecks (c : RecursiveMutex) (me : Nat) (ready : Bool) :
    RecursiveMutex.lock_resume c me ready = RecursiveMutex.lock c me := rfl

theorem repaired_Rm_lock (s : State) (f : Fid) :
    RecursiveMutex.lock (coreR s) f =
      if Free s f then .ret (coreR (lockHelper s f)) none [] else .wait (coreR (doPark s f)) "_queue" false [] := by
  by_cases hc : s.count = 0
  · simp [Free, coreR, hc, lockHelper, RecursiveMutex.lock]
  · by_cases ho : s.owner = some f
    · simp [Free, coreR, hc, ho, lockHelper, RecursiveMutex.lock]
    · simp [Free, coreR, hc, ho, doPark, RecursiveMutex.lock]

/-- repaired `unlock`: one waiter is notified when the count drops to 0 (rule `unlockPatched`) -/
theorem repaired_Rm_unlock (s : State) (f : Fid) (w : Option Fid) :
    RecursiveMutex.unlock (coreR s) =
      .ret (coreR (notifyR (doUnlock s f) w)) none (if s.count - 1 = 0 then [.one "_queue"] else []) := by
  simp only [coreR_notifyR]
  by_cases h : s.count - 1 = 0 <;> simp [RecursiveMutex.unlock, coreR, doUnlock, h]

/-- repaired `RecursiveTimedMutex::TimedWaitHelper` after the wake-up: `tlfRecheckAcq` / `tlfRepark` / the timeout -/
theorem repaired_Rm_timed_resume (s : State) (f : Fid) (t req j : Nat) :
    RecursiveTimedMutex.TimedWaitHelper_resume (coreR s) f true =
      (if Free s f then .ret (coreR (lockHelper s f)) (some true) []
       else .wait (coreR (doTlfRepark s f req j)) "_queue" true []) ∧
    RecursiveTimedMutex.TimedWaitHelper_resume (coreR s) f false = .ret (coreR (doTlfTimeout s f t)) (some false) [] := by
  constructor
  · by_cases hc : s.count = 0
    · simp [Free, coreR, hc, lockHelper, RecursiveTimedMutex.TimedWaitHelper_resume]
    · by_cases ho : s.owner = some f
      · simp [Free, coreR, hc, ho, lockHelper, RecursiveTimedMutex.TimedWaitHelper_resume]
      · simp [Free, coreR, hc, ho, doTlfRepark, RecursiveTimedMutex.TimedWaitHelper_resume]
  · simp [coreR, doTlfTimeout, RecursiveTimedMutex.TimedWaitHelper_resume]
end RRm

section RSm
open Sm
/-- repaired `lock` / `lock_shared`: the continuation after the wait is the loop again; readers wait on the shared queue -/
theorem repaired_Sm_rechecks (c : SharedMutex) (ready : Bool) :
    SharedMutex.lock_resume c ready = SharedMutex.lock c ∧ SharedMutex.lock_shared_resume c ready = SharedMutex.lock_shared c :=
  ⟨rfl, rfl⟩

theorem repaired_Sm_lock_shared (s : State) (f : Fid) :
    SharedMutex.lock_shared (coreR s) =
      if XHeld s then .wait (coreR (parkS s f .sParked)) "_shared_queue" false []
      else .ret (coreR (sharedHelper s f)) none [] := by
  by_cases ho : s.occ = true <;> by_cases he : s.excl = true <;>
    simp [XHeld, SharedMutex.lock_shared, coreR, ho, he, parkS, sharedHelper]

/-- repaired `unlock`: all readers and one writer are notified (rule `unlockF`) -/
theorem repaired_Sm_unlock (s : State) (f : Fid) (w : Option Fid) :
    SharedMutex.unlock (coreR s) = .ret (coreR (doUnlockF s f w)) none [.all "_shared_queue", .one "_exclusive_queue"] := by
  simp only [doUnlockF, coreR_notifyE, coreR_notifyAllS]; rfl

/-- repaired `TimedWaitHelper`: the exclusive request ends in `LockHelper()` (rules `txFastF`, `txRecheckAcq`), and both
    kinds look at the fields again after the wake-up -/
theorem repaired_Sm_timed (s : State) (f : Fid) (t d j req : Nat) :
    SharedTimedMutex.TimedWaitHelper (coreR s) true =
      (if s.occ then .wait (coreR { parkE s f (.txParked (t + d) (t + d + j)) with now := t }) "_exclusive_queue" true []
       else .ret (coreR (lockHelper s f)) (some true) []) ∧
    SharedTimedMutex.TimedWaitHelper_resume (coreR s) true true =
      (if s.occ then .wait (coreR (parkE s f (.txParked req (req + j)))) "_exclusive_queue" true []
       else .ret (coreR (lockHelper s f)) (some true) []) ∧
    SharedTimedMutex.TimedWaitHelper_resume (coreR s) false true =
      (if XHeld s then .wait (coreR (parkS s f (.tsParked req (req + j)))) "_shared_queue" true []
       else .ret (coreR (sharedHelper s f)) (some true) []) := by
  refine ⟨?_, ?_, ?_⟩ <;> by_cases ho : s.occ = true <;> by_cases he : s.excl = true <;>
    simp [XHeld, SharedTimedMutex.TimedWaitHelper, SharedTimedMutex.TimedWaitHelper_resume, coreR, ho, he, parkE, parkS,
      sharedHelper, lockHelper]
end RSm

/-- in the repaired code every blocking method re-checks -/
theorem repaired_recheck_table :
    Extracted.FiberSyncRepaired.methods.filter (fun m => m.2.2.1 = true ∧ m.2.2.2 ≠ "loop") = [] := by decide

end Yaclib.Props.C18.BridgeRepaired

/-! ## tie to the source (T2): the functions these models were written from are unchanged.
`Extracted/Kernels.lean` is regenerated from /repo on every check run; `Skeletons.lean` is the copy the models were
written from.  Every method of the FIBER primitives, the wait queue, the parts of thread / fiber / scheduler /
thread-local proxy the models use, and the `yaclib_std` wrappers (injection points only) are covered. -/
namespace Yaclib.Props.C18.Tie
open Yaclib

theorem tie_FiberMutex_lock : Extracted.Kernels.FiberMutex_lock = Skeletons.FiberMutex_lock := rfl
theorem tie_FiberMutex_try_lock : Extracted.Kernels.FiberMutex_try_lock = Skeletons.FiberMutex_try_lock := rfl
theorem tie_FiberMutex_unlock : Extracted.Kernels.FiberMutex_unlock = Skeletons.FiberMutex_unlock := rfl
theorem tie_FiberTimedMutex_TimedWaitHelper : Extracted.Kernels.FiberTimedMutex_TimedWaitHelper = Skeletons.FiberTimedMutex_TimedWaitHelper := rfl
theorem tie_FiberTimedMutex_try_lock_for : Extracted.Kernels.FiberTimedMutex_try_lock_for = Skeletons.FiberTimedMutex_try_lock_for := rfl
theorem tie_FiberTimedMutex_try_lock_until : Extracted.Kernels.FiberTimedMutex_try_lock_until = Skeletons.FiberTimedMutex_try_lock_until := rfl
theorem tie_FiberRecursiveMutex_lock : Extracted.Kernels.FiberRecursiveMutex_lock = Skeletons.FiberRecursiveMutex_lock := rfl
theorem tie_FiberRecursiveMutex_try_lock : Extracted.Kernels.FiberRecursiveMutex_try_lock = Skeletons.FiberRecursiveMutex_try_lock := rfl
theorem tie_FiberRecursiveMutex_unlock : Extracted.Kernels.FiberRecursiveMutex_unlock = Skeletons.FiberRecursiveMutex_unlock := rfl
theorem tie_FiberRecursiveMutex_LockHelper : Extracted.Kernels.FiberRecursiveMutex_LockHelper = Skeletons.FiberRecursiveMutex_LockHelper := rfl
theorem tie_FiberRecursiveTimedMutex_TimedWaitHelper : Extracted.Kernels.FiberRecursiveTimedMutex_TimedWaitHelper = Skeletons.FiberRecursiveTimedMutex_TimedWaitHelper := rfl
theorem tie_FiberRecursiveTimedMutex_try_lock_for : Extracted.Kernels.FiberRecursiveTimedMutex_try_lock_for = Skeletons.FiberRecursiveTimedMutex_try_lock_for := rfl
theorem tie_FiberRecursiveTimedMutex_try_lock_until : Extracted.Kernels.FiberRecursiveTimedMutex_try_lock_until = Skeletons.FiberRecursiveTimedMutex_try_lock_until := rfl
theorem tie_FiberSharedMutex_lock : Extracted.Kernels.FiberSharedMutex_lock = Skeletons.FiberSharedMutex_lock := rfl
theorem tie_FiberSharedMutex_try_lock : Extracted.Kernels.FiberSharedMutex_try_lock = Skeletons.FiberSharedMutex_try_lock := rfl
theorem tie_FiberSharedMutex_unlock : Extracted.Kernels.FiberSharedMutex_unlock = Skeletons.FiberSharedMutex_unlock := rfl
theorem tie_FiberSharedMutex_lock_shared : Extracted.Kernels.FiberSharedMutex_lock_shared = Skeletons.FiberSharedMutex_lock_shared := rfl
theorem tie_FiberSharedMutex_try_lock_shared : Extracted.Kernels.FiberSharedMutex_try_lock_shared = Skeletons.FiberSharedMutex_try_lock_shared := rfl
theorem tie_FiberSharedMutex_unlock_shared : Extracted.Kernels.FiberSharedMutex_unlock_shared = Skeletons.FiberSharedMutex_unlock_shared := rfl
theorem tie_FiberSharedMutex_LockHelper : Extracted.Kernels.FiberSharedMutex_LockHelper = Skeletons.FiberSharedMutex_LockHelper := rfl
theorem tie_FiberSharedMutex_SharedLockHelper : Extracted.Kernels.FiberSharedMutex_SharedLockHelper = Skeletons.FiberSharedMutex_SharedLockHelper := rfl
theorem tie_FiberSharedTimedMutex_TimedWaitHelper : Extracted.Kernels.FiberSharedTimedMutex_TimedWaitHelper = Skeletons.FiberSharedTimedMutex_TimedWaitHelper := rfl
theorem tie_FiberSharedTimedMutex_try_lock_for : Extracted.Kernels.FiberSharedTimedMutex_try_lock_for = Skeletons.FiberSharedTimedMutex_try_lock_for := rfl
theorem tie_FiberSharedTimedMutex_try_lock_until : Extracted.Kernels.FiberSharedTimedMutex_try_lock_until = Skeletons.FiberSharedTimedMutex_try_lock_until := rfl
theorem tie_FiberSharedTimedMutex_try_lock_shared_for : Extracted.Kernels.FiberSharedTimedMutex_try_lock_shared_for = Skeletons.FiberSharedTimedMutex_try_lock_shared_for := rfl
theorem tie_FiberSharedTimedMutex_try_lock_shared_until : Extracted.Kernels.FiberSharedTimedMutex_try_lock_shared_until = Skeletons.FiberSharedTimedMutex_try_lock_shared_until := rfl
theorem tie_FiberCondVar_notify_one : Extracted.Kernels.FiberCondVar_notify_one = Skeletons.FiberCondVar_notify_one := rfl
theorem tie_FiberCondVar_notify_all : Extracted.Kernels.FiberCondVar_notify_all = Skeletons.FiberCondVar_notify_all := rfl
theorem tie_FiberCondVar_wait : Extracted.Kernels.FiberCondVar_wait = Skeletons.FiberCondVar_wait := rfl
theorem tie_FiberCondVar_WaitImpl : Extracted.Kernels.FiberCondVar_WaitImpl = Skeletons.FiberCondVar_WaitImpl := rfl
theorem tie_FiberCondVar_WaitImplWithPredicate : Extracted.Kernels.FiberCondVar_WaitImplWithPredicate = Skeletons.FiberCondVar_WaitImplWithPredicate := rfl
theorem tie_FiberCondVar_wait_for : Extracted.Kernels.FiberCondVar_wait_for = Skeletons.FiberCondVar_wait_for := rfl
theorem tie_FiberCondVar_wait_until : Extracted.Kernels.FiberCondVar_wait_until = Skeletons.FiberCondVar_wait_until := rfl
theorem tie_FiberQueue_WaitNoTimeout : Extracted.Kernels.FiberQueue_WaitNoTimeout = Skeletons.FiberQueue_WaitNoTimeout := rfl
theorem tie_FiberQueue_WaitTimed : Extracted.Kernels.FiberQueue_WaitTimed = Skeletons.FiberQueue_WaitTimed := rfl
theorem tie_FiberQueue_NotifyAll : Extracted.Kernels.FiberQueue_NotifyAll = Skeletons.FiberQueue_NotifyAll := rfl
theorem tie_FiberQueue_NotifyOne : Extracted.Kernels.FiberQueue_NotifyOne = Skeletons.FiberQueue_NotifyOne := rfl
theorem tie_FiberQueue_ScheduleAndRemove : Extracted.Kernels.FiberQueue_ScheduleAndRemove = Skeletons.FiberQueue_ScheduleAndRemove := rfl
theorem tie_FiberThread_join : Extracted.Kernels.FiberThread_join = Skeletons.FiberThread_join := rfl
theorem tie_FiberThread_AfterJoinOrDetach : Extracted.Kernels.FiberThread_AfterJoinOrDetach = Skeletons.FiberThread_AfterJoinOrDetach := rfl
theorem tie_FiberBase_Exit : Extracted.Kernels.FiberBase_Exit = Skeletons.FiberBase_Exit := rfl
theorem tie_FiberBase_Resume : Extracted.Kernels.FiberBase_Resume = Skeletons.FiberBase_Resume := rfl
theorem tie_FiberBase_Suspend : Extracted.Kernels.FiberBase_Suspend = Skeletons.FiberBase_Suspend := rfl
theorem tie_FiberBase_GetTLS : Extracted.Kernels.FiberBase_GetTLS = Skeletons.FiberBase_GetTLS := rfl
theorem tie_FiberBase_SetTLS : Extracted.Kernels.FiberBase_SetTLS = Skeletons.FiberBase_SetTLS := rfl
theorem tie_FiberTls_GetImpl : Extracted.Kernels.FiberTls_GetImpl = Skeletons.FiberTls_GetImpl := rfl
theorem tie_FiberTls_Set : Extracted.Kernels.FiberTls_Set = Skeletons.FiberTls_Set := rfl
theorem tie_FiberTls_SetDefault : Extracted.Kernels.FiberTls_SetDefault = Skeletons.FiberTls_SetDefault := rfl
theorem tie_FiberTlsProxy_assign_ptr : Extracted.Kernels.FiberTlsProxy_assign_ptr = Skeletons.FiberTlsProxy_assign_ptr := rfl
theorem tie_FiberTlsProxy_assign_move : Extracted.Kernels.FiberTlsProxy_assign_move = Skeletons.FiberTlsProxy_assign_move := rfl
theorem tie_FiberTlsProxy_assign_copy : Extracted.Kernels.FiberTlsProxy_assign_copy = Skeletons.FiberTlsProxy_assign_copy := rfl
theorem tie_FiberTlsProxy_assign_conv : Extracted.Kernels.FiberTlsProxy_assign_conv = Skeletons.FiberTlsProxy_assign_conv := rfl
theorem tie_FiberTlsProxy_ctor_default : Extracted.Kernels.FiberTlsProxy_ctor_default = Skeletons.FiberTlsProxy_ctor_default := rfl
theorem tie_FiberTlsProxy_ctor_ptr : Extracted.Kernels.FiberTlsProxy_ctor_ptr = Skeletons.FiberTlsProxy_ctor_ptr := rfl
theorem tie_FiberTlsProxy_ctor_copy : Extracted.Kernels.FiberTlsProxy_ctor_copy = Skeletons.FiberTlsProxy_ctor_copy := rfl
theorem tie_FiberTlsProxy_Get : Extracted.Kernels.FiberTlsProxy_Get = Skeletons.FiberTlsProxy_Get := rfl
theorem tie_FiberSched_Sleep : Extracted.Kernels.FiberSched_Sleep = Skeletons.FiberSched_Sleep := rfl
theorem tie_FiberSched_SleepPreemptive : Extracted.Kernels.FiberSched_SleepPreemptive = Skeletons.FiberSched_SleepPreemptive := rfl
theorem tie_FiberSched_Schedule : Extracted.Kernels.FiberSched_Schedule = Skeletons.FiberSched_Schedule := rfl
theorem tie_FiberSched_RescheduleCurrent : Extracted.Kernels.FiberSched_RescheduleCurrent = Skeletons.FiberSched_RescheduleCurrent := rfl
theorem tie_FiberSched_Suspend : Extracted.Kernels.FiberSched_Suspend = Skeletons.FiberSched_Suspend := rfl
theorem tie_FiberThisThread_sleep : Extracted.Kernels.FiberThisThread_sleep = Skeletons.FiberThisThread_sleep := rfl
theorem tie_FiberThisThread_sleep_for : Extracted.Kernels.FiberThisThread_sleep_for = Skeletons.FiberThisThread_sleep_for := rfl
theorem tie_FaultMutex_lock : Extracted.Kernels.FaultMutex_lock = Skeletons.FaultMutex_lock := rfl
theorem tie_FaultMutex_try_lock : Extracted.Kernels.FaultMutex_try_lock = Skeletons.FaultMutex_try_lock := rfl
theorem tie_FaultMutex_unlock : Extracted.Kernels.FaultMutex_unlock = Skeletons.FaultMutex_unlock := rfl
theorem tie_FaultTimedMutex_try_lock_for : Extracted.Kernels.FaultTimedMutex_try_lock_for = Skeletons.FaultTimedMutex_try_lock_for := rfl
theorem tie_FaultTimedMutex_try_lock_until : Extracted.Kernels.FaultTimedMutex_try_lock_until = Skeletons.FaultTimedMutex_try_lock_until := rfl
theorem tie_FaultSharedMutex_lock_shared : Extracted.Kernels.FaultSharedMutex_lock_shared = Skeletons.FaultSharedMutex_lock_shared := rfl
theorem tie_FaultSharedMutex_try_lock_shared : Extracted.Kernels.FaultSharedMutex_try_lock_shared = Skeletons.FaultSharedMutex_try_lock_shared := rfl
theorem tie_FaultSharedMutex_unlock_shared : Extracted.Kernels.FaultSharedMutex_unlock_shared = Skeletons.FaultSharedMutex_unlock_shared := rfl
theorem tie_FaultSharedTimedMutex_try_lock_for : Extracted.Kernels.FaultSharedTimedMutex_try_lock_for = Skeletons.FaultSharedTimedMutex_try_lock_for := rfl
theorem tie_FaultSharedTimedMutex_try_lock_shared_for : Extracted.Kernels.FaultSharedTimedMutex_try_lock_shared_for = Skeletons.FaultSharedTimedMutex_try_lock_shared_for := rfl
theorem tie_FaultCondVar_wait : Extracted.Kernels.FaultCondVar_wait = Skeletons.FaultCondVar_wait := rfl
theorem tie_FaultCondVar_wait_for : Extracted.Kernels.FaultCondVar_wait_for = Skeletons.FaultCondVar_wait_for := rfl
theorem tie_FaultCondVar_notify_one : Extracted.Kernels.FaultCondVar_notify_one = Skeletons.FaultCondVar_notify_one := rfl
theorem tie_FaultCondVar_notify_all : Extracted.Kernels.FaultCondVar_notify_all = Skeletons.FaultCondVar_notify_all := rfl

end Yaclib.Props.C18.Tie
