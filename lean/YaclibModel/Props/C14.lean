/-
C14 — coroutine Mutex: mutual exclusion and no lost wake-up.

Property theorems about the model `Yaclib.CoMutex` (Model/CoMutex.lean) for **every** configuration
`cfg : Cfg` — both template options `batching`, `fifo` (all four combinations; the proofs are parametric in
them), any number of coroutines, any program of rounds `(acquire form, release form)` per coroutine — every
interleaving at atomic-operation granularity, every spurious weak-CAS failure and every stale pre-check load.
Helper lemmas and the inductive invariant are in Proofs/CoMutex*.lean.

"What one critical section wrote is visible in the next" is the memory-model half of the property: C04
(`comutex_sections_ordered`), not this file.
-/
import YaclibModel.Proofs.CoMutexProgress
import YaclibModel.Proofs.CoMutexExecInst
import YaclibModel.Proofs.CoMutexExecInst2
import YaclibModel.Extracted.Kernels
import YaclibModel.Model.Skeletons

namespace Yaclib.Props.C14
open Yaclib.CoMutex

variable {cfg : Cfg} {s : State}

/-- at most one coroutine is inside the critical section … -/
theorem mutual_exclusion (h : Reachable cfg s) {c d : Cid} (hc : s.pc c = .cs) (hd : s.pc d = .cs) : c = d := by
  have hi := inv_reachable h
  have h1 := (hi.holder c).mp (Or.inr hc)
  have h2 := (hi.holder d).mp (Or.inr hd)
  rw [h1] at h2
  cases h2; rfl

/-- … and more: the coroutines that own the mutex (already granted but not yet running, or inside the critical
    section) are at most one, and while a release operation is still in progress nobody owns it -/
theorem owner_unique (h : Reachable cfg s) {c d : Cid} (hc : s.pc c = .acq ∨ s.pc c = .cs)
    (hd : s.pc d = .acq ∨ s.pc d = .cs) : c = d ∧ s.own = .held c ∧ s.word ≠ .notLocked := by
  have hi := inv_reachable h
  have h1 := (hi.holder c).mp hc
  have h2 := (hi.holder d).mp hd
  refine ⟨?_, h1, ?_⟩
  · rw [h1] at h2; cases h2; rfl
  · intro hw; have := hi.own_free.mpr hw; rw [h1] at this; cases this

/-- `TryLock`/`TryGuard` (and the `await_ready` fast path of every lock form) succeed only when the mutex is free:
    the word says so, no coroutine owns it, no release is in progress and nothing waits in `_receiver` -/
theorem trylock_only_when_free (h : Reachable cfg s) {c : Cid} {s' : State} (hs : Step s (.tlCas c true) s') :
    s.word = .notLocked ∧ s.own = .free ∧ s.receiver = [] ∧ ∀ d, s.pc d ≠ .cs ∧ s.pc d ≠ .acq := by
  have hi := inv_reachable h
  cases hs with
  | tlCasOk _ hpc hw' =>
      have hw := hw'
      have hfree := hi.own_free.mpr hw
      refine ⟨hw, hfree, ?_, fun d => ⟨?_, ?_⟩⟩
      · cases hr : s.receiver with
        | nil => rfl
        | cons n rest => exact absurd hfree (hi.recv_own (by rw [hr]; simp))
      · intro hd; have := (hi.holder d).mp (Or.inr hd); rw [hfree] at this; cases this
      · intro hd; have := (hi.holder d).mp (Or.inl hd); rw [hfree] at this; cases this

/-- the same for the acquiring CAS of the slow path (`AwaitLock`) -/
theorem await_lock_acquires_only_when_free (h : Reachable cfg s) {c : Cid} {s' : State}
    (hs : Step s (.alCas c true) s') (hacq : s'.pc c = .acq) :
    s.word = .notLocked ∧ s.own = .free ∧ ∀ d, s.pc d ≠ .cs ∧ s.pc d ≠ .acq := by
  have hi := inv_reachable h
  cases hs with
  | alCasLock _ hpc hw =>
      have hfree := hi.own_free.mpr hw
      refine ⟨hw, hfree, fun d => ⟨?_, ?_⟩⟩
      · intro hd; have := (hi.holder d).mp (Or.inr hd); rw [hfree] at this; cases this
      · intro hd; have := (hi.holder d).mp (Or.inl hd); rw [hfree] at this; cases this
  | alCasPush _ hd l hpc hw hh => simp [doPush] at hacq

/-- conservation of waiters: every successful push is, as a multiset, either already granted or still in exactly
    one of the two lists (`arrived = granted ⊎ in sender ⊎ in receiver`) … -/
theorem conservation (h : Reachable cfg s) (c : Cid) :
    s.arrivals.count c = s.granted.count c + (senderList s).count c + s.receiver.count c :=
  (inv_reachable h).counts c

/-- … no coroutine is linked twice, and the linked coroutines are exactly the parked ones -/
theorem waiters_nodup (h : Reachable cfg s) : (senderList s ++ s.receiver).Nodup := by
  rw [List.nodup_iff_count]
  intro c
  have := (inv_reachable h).parked c
  simp only [senderList, List.count_append]
  split at this <;> omega

theorem parked_iff_linked (h : Reachable cfg s) (c : Cid) :
    s.pc c = .parked ↔ c ∈ senderList s ∨ c ∈ s.receiver := by
  have h1 := (inv_reachable h).parked c
  have e1 : c ∈ senderList s ↔ 0 < (senderList s).count c := List.count_pos_iff.symm
  have e2 : c ∈ s.receiver ↔ 0 < s.receiver.count c := List.count_pos_iff.symm
  rw [e1, e2]
  unfold senderList
  by_cases hp : s.pc c = .parked
  · rw [if_pos hp] at h1
    exact ⟨fun _ => by omega, fun _ => hp⟩
  · rw [if_neg hp] at h1
    exact ⟨fun h' => absurd h' hp, fun h' => by omega⟩

/-- every request that had to wait is granted exactly once: each push of `c` is matched by one grant of `c`, except
    the one for which `c` is still parked -/
theorem grant_once (h : Reachable cfg s) (c : Cid) :
    s.arrivals.count c = s.granted.count c + (if s.pc c = .parked then 1 else 0) := by
  have hi := inv_reachable h
  have h1 := hi.counts c
  have h2 := hi.parked c
  omega

/-- every round is one critical section (or one reported try-lock failure): nothing is granted twice, nothing skipped -/
theorem rounds_accounted (h : Reachable cfg s) (c : Cid) :
    s.enters c + s.fails c + (s.todo c).length =
      (cfg.prog c).length + (if s.pc c = .cs ∨ s.pc c = .unlocking then 1 else 0) :=
  (inv_reachable h).rounds c

/-- no lost wake-up (safety form): a state in which no step is enabled is a state in which the mutex is free, nobody
    is parked, no request is outstanding, and every coroutine has completed every round of its program — each
    lock request entered its critical section exactly once.  (Every holder releases and executors accept work are
    built into the model: a holder's program continues with its release form, a granted coroutine is runnable.) -/
theorem quiescent_none_parked (h : Reachable cfg s) (hq : ∀ l s', ¬ Step s l s') :
    s.word = .notLocked ∧ s.receiver = [] ∧ s.own = .free ∧
    ∀ c, s.pc c = .idle ∧ s.todo c = [] ∧ s.enters c + s.fails c = (cfg.prog c).length ∧
         s.arrivals.count c = s.granted.count c := by
  have hi := inv_reachable h
  obtain ⟨hf, hw, hr, hall⟩ := quiescent hi hq
  refine ⟨hw, hr, hf, fun c => ?_⟩
  obtain ⟨hp, ht⟩ := hall c
  have h1 := hi.rounds c
  have h2 := grant_once h c
  rw [hp, ht] at h1
  rw [hp] at h2
  simp at h1 h2
  exact ⟨hp, ht, h1, h2⟩

/-- waiting never occupies a thread: a parked coroutine executes no step at all (so it needs no worker, and a
    single-thread executor is enough) … -/
theorem waiting_holds_no_thread (h : Reachable cfg s) {c : Cid} (hp : s.pc c = .parked) {l : Label} {s' : State}
    (hs : Step s l s') : l.agent ≠ .co c := by
  have hi := inv_reachable h
  have hne : ∀ c' : Cid, s.pc c' ≠ .parked → Agent.co c' ≠ Agent.co c := by
    intro c' hc' he; cases he; exact hc' hp
  have hag : ∀ (c' : Cid) (p : RelPc) (k : RelK) (d : Bool), s.own = .rel c' p k d → agentOf c' d ≠ .co c := by
    intro c' p k d ho
    cases d with
    | true => simp [agentOf]
    | false =>
        have : s.pc c' = .unlocking := (hi.blocked c').mpr (by rw [ho]; rfl)
        simp only [agentOf, Bool.false_eq_true, ↓reduceIte]
        exact hne c' (by rw [this]; simp)
  cases hs with
  | tlLoad c' _ h' _ => exact hne c' (by rw [h']; simp)
  | tlCasOk c' h' _ => exact hne c' (by rw [h']; simp)
  | tlCasFail c' h' _ => exact hne c' (by rw [h']; simp)
  | tryFail c' h' => exact hne c' (by rw [h']; simp)
  | alLoad c' _ h' => exact hne c' (by rw [h']; simp)
  | alCasLock c' h' _ => exact hne c' (by rw [h']; simp)
  | alCasPush c' _ _ h' _ _ => exact hne c' (by rw [h']; simp)
  | alCasFail c' _ h' => exact hne c' (by rw [h']; simp)
  | enter c' h' => exact hne c' (by rw [h']; simp)
  | exit c' h' => exact hne c' (by rw [h']; simp)
  | resubmit c' k h' =>
      have : s.pc c' = .unlocking := (hi.blocked c').mpr (by rw [h']; rfl)
      exact hne c' (by rw [this]; simp)
  | ulLoad c' k d _ h' _ _ => exact hag c' _ k d h'
  | ulCasOk c' k d h' _ => exact hag c' _ k d h'
  | ulCasFail c' k d h' _ => exact hag c' _ k d h'
  | ulXchg c' k d _ h' _ _ => exact hag c' _ k d h'
  | grant c' p k d _ _ h' _ _ => exact hag c' p k d h'

/-- … and it stays parked until the step in which a releaser hands the mutex to it -/
theorem parked_until_granted (_h : Reachable cfg s) {c : Cid} (hp : s.pc c = .parked) {l : Label} {s' : State}
    (hs : Step s l s') : s'.pc c = .parked ∨ (∃ a inl, l = .grant a c inl) ∧ s'.pc c = .acq := by
  have hne : ∀ (c' : Cid) (v : Pc), s.pc c' ≠ .parked → upd s.pc c' v c = .parked := by
    intro c' v hc'
    have : c ≠ c' := by intro he; rw [he] at hp; exact hc' hp
    rw [upd_other _ _ _ _ this]; exact hp
  cases hs with
  | tlLoad c' sf h' _ =>
      cases sf
      · simp only [doTlLoad, failAcq, Bool.false_eq_true, ↓reduceIte]; exact Or.inl (hne c' _ (by rw [h']; simp))
      · simp only [doTlLoad, ↓reduceIte]; exact Or.inl (hne c' _ (by rw [h']; simp))
  | tlCasOk c' h' _ => exact Or.inl (hne c' _ (by rw [h']; simp))
  | tlCasFail c' h' _ => exact Or.inl (hne c' _ (by rw [h']; simp))
  | tryFail c' h' => exact Or.inl (hne c' _ (by rw [h']; simp))
  | alLoad c' _ h' => exact Or.inl (hne c' _ (by rw [h']; simp))
  | alCasLock c' h' _ => exact Or.inl (hne c' _ (by rw [h']; simp))
  | alCasPush c' _ _ h' _ _ => exact Or.inl (hne c' _ (by rw [h']; simp))
  | alCasFail c' _ h' => exact Or.inl (hne c' _ (by rw [h']; simp))
  | enter c' h' => exact Or.inl (hne c' _ (by rw [h']; simp))
  | exit c' h' => exact Or.inl (hne c' _ (by rw [h']; simp))
  | resubmit c' k h' =>
      by_cases he : c = c'
      · -- a detached release is about to start while `c'` itself is parked? impossible: it is `unlocking`
        subst he
        have hi := inv_reachable _h
        have : s.pc c = .unlocking := (hi.blocked c).mpr (by rw [h']; rfl)
        rw [hp] at this; cases this
      · left; simp only [doResubmit]; rw [upd_other _ _ _ _ he]; exact hp
  | ulLoad c' k d _ h' _ _ => exact Or.inl hp
  | ulCasOk c' k d h' _ =>
      cases d
      · have hi := inv_reachable _h
        have hu : s.pc c' = .unlocking := (hi.blocked c').mpr (by rw [h']; rfl)
        simp only [doRelease, finish, Bool.false_eq_true, ↓reduceIte]
        exact Or.inl (hne c' _ (by rw [hu]; simp))
      · simp only [doRelease, finish, ↓reduceIte]; exact Or.inl hp
  | ulCasFail c' k d h' _ => exact Or.inl hp
  | ulXchg c' k d _ h' _ _ => exact Or.inl hp
  | grant c' p k d n rest h' _ hr =>
      by_cases hn : c = n
      · subst hn
        right
        exact ⟨⟨_, _, rfl⟩, by simp [doGrant]⟩
      · left
        simp only [doGrant]
        rw [upd_other _ _ _ _ hn]
        cases d
        · have hi := inv_reachable _h
          have hu : s.pc c' = .unlocking := (hi.blocked c').mpr (by rw [h']; rfl)
          simp only [finish, Bool.false_eq_true, ↓reduceIte]
          exact hne c' _ (by rw [hu]; simp)
        · simp only [finish, ↓reduceIte]; exact hp

/-- FIFO = true: the waiters are served in the order of their successful pushes — what was granted so far, followed
    by what the holder has taken over, followed by the not yet taken-over stack (newest first, hence reversed) is
    exactly the arrival sequence … -/
theorem fifo_grant_order (h : Reachable cfg s) (hf : cfg.fifo = true) :
    s.granted ++ s.receiver ++ (senderList s).reverse = s.arrivals := by
  have hi := inv_reachable h
  exact hi.fifo (by rw [hi.hcfg]; exact hf)

/-- … in particular the grant sequence is always a prefix of the arrival sequence -/
theorem fifo_granted_prefix (h : Reachable cfg s) (hf : cfg.fifo = true) : s.granted <+: s.arrivals := by
  have := fifo_grant_order h hf
  exact ⟨s.receiver ++ (senderList s).reverse, by rw [← this, List.append_assoc]⟩

/-- everything the trace validator accepts is a behaviour the theorems speak about -/
theorem validator_sound {l : Label} {s' : State} (h : Reachable cfg s) (hn : next s l = some s') : Reachable cfg s' :=
  .step h (next_sound hn)

/-! ### non-vacuity: concrete workloads reach the interesting states -/

def prog2 (r0 r1 : List Round) : Cid → List Round := fun c => if c = 0 then r0 else if c = 1 then r1 else []

/-- the lost-wake-up window: coroutine 1 pushes itself exactly between the holder's "no waiters" pre-check and its
    release CAS; the CAS fails, the holder takes the stack over and hands the mutex to 1, which enters -/
example : ∃ s, Reachable ⟨true, false, prog2 [⟨.lock, .here⟩] [⟨.lock, .here⟩]⟩ s ∧ s.granted = [1] ∧ s.enters 1 = 1 ∧
    s.word = .notLocked ∧ s.pc 0 = .idle ∧ s.pc 1 = .idle := by
  let cfg : Cfg := ⟨true, false, prog2 [⟨.lock, .here⟩] [⟨.lock, .here⟩]⟩
  have h0 : Reachable cfg (init cfg) := .init
  have h1 := validator_sound h0 (l := .tlLoad 0 true) (s' := _) rfl
  have h2 := validator_sound h1 (l := .tlCas 0 true) (s' := _) rfl
  have h3 := validator_sound h2 (l := .enter 0) (s' := _) rfl
  have h4 := validator_sound h3 (l := .tlLoad 1 false) (s' := _) rfl
  have h5 := validator_sound h4 (l := .alLoad 1 (.locked none)) (s' := _) rfl
  have h6 := validator_sound h5 (l := .exit 0) (s' := _) rfl
  have h7 := validator_sound h6 (l := .ulLoad (.co 0) true) (s' := _) rfl
  have h8 := validator_sound h7 (l := .alCas 1 true) (s' := _) rfl          -- the push lands in the window
  have h9 := validator_sound h8 (l := .ulCas (.co 0) false) (s' := _) rfl
  have h10 := validator_sound h9 (l := .ulXchg (.co 0)) (s' := _) rfl
  have h11 := validator_sound h10 (l := .grant (.co 0) 1 false) (s' := _) rfl
  have h12 := validator_sound h11 (l := .enter 1) (s' := _) rfl
  have h13 := validator_sound h12 (l := .exit 1) (s' := _) rfl
  have h14 := validator_sound h13 (l := .ulLoad (.co 1) true) (s' := _) rfl
  have h15 := validator_sound h14 (l := .ulCas (.co 1) true) (s' := _) rfl
  exact ⟨_, h15, rfl, rfl, rfl, rfl, rfl⟩

/-- FIFO with three coroutines: 1 then 2 park, the stack is [2, 1], the holder's `UnlockOn` (detached: coroutine 0 is
    re-submitted first and finishes while its release is still running) reverses it and grants 1 first; 1's
    `co_await Unlock()` then resumes 2 in place (batching) -/
example : ∃ s, Reachable ⟨true, true, fun c => if c < 3 then [⟨.lock, if c = 0 then .unlockOn else .unlock⟩] else []⟩ s ∧
    s.arrivals = [1, 2] ∧ s.granted = [1, 2] ∧ s.pc 0 = .idle ∧ s.todo 0 = [] ∧ s.pc 2 = .cs := by
  let cfg : Cfg := ⟨true, true, fun c => if c < 3 then [⟨.lock, if c = 0 then .unlockOn else .unlock⟩] else []⟩
  have h0 : Reachable cfg (init cfg) := .init
  have h1 := validator_sound h0 (l := .tlLoad 0 true) (s' := _) rfl
  have h2 := validator_sound h1 (l := .tlCas 0 true) (s' := _) rfl
  have h3 := validator_sound h2 (l := .enter 0) (s' := _) rfl
  have h4 := validator_sound h3 (l := .tlLoad 1 false) (s' := _) rfl
  have h5 := validator_sound h4 (l := .alLoad 1 (.locked none)) (s' := _) rfl
  have h6 := validator_sound h5 (l := .alCas 1 true) (s' := _) rfl
  have h7 := validator_sound h6 (l := .tlLoad 2 true) (s' := _) rfl          -- stale pre-check
  have h8 := validator_sound h7 (l := .tlCas 2 false) (s' := _) rfl
  have h9 := validator_sound h8 (l := .alLoad 2 (.locked none)) (s' := _) rfl -- stale initial load
  have h10 := validator_sound h9 (l := .alCas 2 false) (s' := _) rfl         -- fails, reloads head = 1
  have h11 := validator_sound h10 (l := .alCas 2 false) (s' := _) rfl        -- spurious failure
  have h12 := validator_sound h11 (l := .alCas 2 true) (s' := _) rfl
  have h13 := validator_sound h12 (l := .exit 0) (s' := _) rfl
  have h14 := validator_sound h13 (l := .resubmit 0) (s' := _) rfl
  have h15 := validator_sound h14 (l := .ulLoad (.tail 0) false) (s' := _) rfl
  have h16 := validator_sound h15 (l := .ulXchg (.tail 0)) (s' := _) rfl
  have h17 := validator_sound h16 (l := .grant (.tail 0) 1 false) (s' := _) rfl
  have h18 := validator_sound h17 (l := .enter 1) (s' := _) rfl
  have h19 := validator_sound h18 (l := .exit 1) (s' := _) rfl
  have h20 := validator_sound h19 (l := .grant (.co 1) 2 true) (s' := _) rfl  -- batching: resumed in place
  have h21 := validator_sound h20 (l := .enter 2) (s' := _) rfl
  exact ⟨_, h21, rfl, rfl, rfl, rfl, rfl⟩

/-- a failed TryLock is reported and the round is skipped; a sticky guard that had to park releases through the
    detached path -/
example : ∃ s, Reachable ⟨false, false, prog2 [⟨.lock, .here⟩] [⟨.try_, .here⟩, ⟨.sticky, .stickyUnlock⟩]⟩ s ∧
    s.fails 1 = 1 ∧ s.sticky 1 = true ∧ s.own = .rel 1 .start .unlockOn true ∧ s.pc 1 = .idle := by
  let cfg : Cfg := ⟨false, false, prog2 [⟨.lock, .here⟩] [⟨.try_, .here⟩, ⟨.sticky, .stickyUnlock⟩]⟩
  have h0 : Reachable cfg (init cfg) := .init
  have h1 := validator_sound h0 (l := .tlLoad 0 true) (s' := _) rfl
  have h2 := validator_sound h1 (l := .tlCas 0 true) (s' := _) rfl
  have h3 := validator_sound h2 (l := .enter 0) (s' := _) rfl
  have h4 := validator_sound h3 (l := .tlLoad 1 false) (s' := _) rfl
  have h5 := validator_sound h4 (l := .tryFail 1) (s' := _) rfl
  have h6 := validator_sound h5 (l := .tlLoad 1 false) (s' := _) rfl
  have h7 := validator_sound h6 (l := .alLoad 1 (.locked none)) (s' := _) rfl
  have h8 := validator_sound h7 (l := .alCas 1 true) (s' := _) rfl
  have h9 := validator_sound h8 (l := .exit 0) (s' := _) rfl
  have h10 := validator_sound h9 (l := .ulLoad (.co 0) false) (s' := _) rfl
  have h11 := validator_sound h10 (l := .ulXchg (.co 0)) (s' := _) rfl
  have h12 := validator_sound h11 (l := .grant (.co 0) 1 false) (s' := _) rfl
  have h13 := validator_sound h12 (l := .enter 1) (s' := _) rfl
  have h14 := validator_sound h13 (l := .exit 1) (s' := _) rfl
  have h15 := validator_sound h14 (l := .resubmit 1) (s' := _) rfl
  exact ⟨_, h15, rfl, rfl, rfl, rfl⟩

/-! ### over a real executor (Proofs/CoMutexExec*.lean)

The premise "the executors involved keep accepting work" made precise: the hand-over to a parked coroutine is a
`Submit` at an executor `E` (an open transition system, Proofs/StrandTower.lean), its critical section is the body of
that job (`call … ret`).  Safety holds over EVERY `E`; no lost wake-up holds over every `E` that honours the IExecutor
contract (`ExecContract E`) and never Drops (a Dropped waiter would be completed with StopError while owning the mutex
and never release it: that is exactly what the premise excludes). -/
section OverExecutor
open Yaclib.Strand (Exec ExecContract)
variable {E : Exec} {x : XState E}

theorem mutual_exclusion_over (h : XReach cfg E x) {c d : Cid} (hc : x.m.pc c = .cs) (hd : x.m.pc d = .cs) : c = d :=
  mutual_exclusion (xmutex_projects h).1 hc hd

theorem grant_once_over (h : XReach cfg E x) (c : Cid) :
    x.m.arrivals.count c = x.m.granted.count c + (if x.m.pc c = .parked then 1 else 0) :=
  grant_once (xmutex_projects h).1 c

theorem fifo_grant_order_over (h : XReach cfg E x) (hf : cfg.fifo = true) :
    x.m.granted ++ x.m.receiver ++ (senderList x.m).reverse = x.m.arrivals :=
  fifo_grant_order (xmutex_projects h).1 hf

/-- the mutex is a well-behaved client of its executor: it submits a job once and returns only from a body that was entered -/
theorem executor_protocol_honoured (h : XReach cfg E x) : E.Run x.x x.p := (xmutex_projects h).2

/-- no lost wake-up over every contract-honouring executor that keeps accepting work -/
theorem quiescent_none_parked_over (hc : ExecContract E) (hnd : NeverDrops E) (h : XReach cfg E x)
    (hq : ∀ x', ¬ XStep E x x') :
    x.m.word = .notLocked ∧ x.m.receiver = [] ∧ x.m.own = .free ∧
    ∀ c, x.m.pc c = .idle ∧ x.m.todo c = [] ∧ x.m.enters c + x.m.fails c = (cfg.prog c).length ∧
         x.m.arrivals.count c = x.m.granted.count c :=
  quiescent_none_parked (xmutex_projects h).1 (xmutex_quiescent hc hnd h hq)

/-- … in particular over Inline, over a ManualExecutor that is drained, over the FairThreadPool (n ≥ 1 workers) and over
    any tower of Strands on a contract-honouring base; for the last two "never Drops" (nobody stops the executor) stays a
    hypothesis — the contract itself is discharged by `pool_contract` / `tower_satisfies_contract` -/
theorem over_inline {x : XState (Yaclib.Strand.inlineExec true)} (h : XReach cfg _ x) (hq : ∀ x', ¬ XStep _ x x') :
    QuiescentDone cfg x := comutex_over_inline h hq

theorem over_manual {x : XState (Yaclib.Strand.manualExec false)} (h : XReach cfg _ x) (hq : ∀ x', ¬ XStep _ x x') :
    QuiescentDone cfg x := comutex_over_manual h hq

theorem over_pool {n : Nat} (hn : 0 < n) (stop : Option Yaclib.Pool.StopKind) (spur : Bool)
    (hnd : NeverDrops (Yaclib.Pool.poolExec n stop spur)) {x : XState (Yaclib.Pool.poolExec n stop spur)}
    (h : XReach cfg _ x) (hq : ∀ x', ¬ XStep _ x x') : QuiescentDone cfg x := comutex_over_pool hn stop spur hnd h hq

/-- the FairThreadPool that nobody stops (`Pool.poolExecAlive`: the open pool model without a stopper; same reachable
    states and steps as `Pool.poolExec n none spur`, see Props/C08 `unstopped_pool_alive`): no hypothesis left.
    (`NeverDrops (Pool.poolExec n none spur)` itself is false, because `NeverDrops` also speaks about unreachable states:
    `pool_none_neverDrops_false`.) -/
theorem over_pool_unstopped {n : Nat} (hn : 0 < n) (spur : Bool) {x : XState (Yaclib.Pool.poolExecAlive n spur)}
    (h : XReach cfg _ x) (hq : ∀ x', ¬ XStep _ x x') : QuiescentDone cfg x := comutex_over_pool_unstopped hn spur h hq

theorem over_strand_tower {base : Exec} (hb : ExecContract base) (k : Nat) (hnd : NeverDrops (Yaclib.Strand.tower base k))
    {x : XState (Yaclib.Strand.tower base k)} (h : XReach cfg _ x) (hq : ∀ x', ¬ XStep _ x x') : QuiescentDone cfg x :=
  comutex_over_strand_tower hb k hnd h hq

theorem xplain {s : XState E} (l : Label) {m' : State} (h : next s.m l = some m') (hs : synced s.job l = false) :
    XStep E s { s with m := m' } := .plain (next_sound h) hs

/-- non-vacuity: over the Inline executor coroutine 1 parks, the holder's release Submits it (job 0), Inline Calls the
    job and coroutine 1 is inside its critical section, which is the body of that job -/
example : ∃ x : XState (Yaclib.Strand.inlineExec true),
    XReach ⟨false, false, prog2 [⟨.lock, .here⟩] [⟨.lock, .here⟩]⟩ (Yaclib.Strand.inlineExec true) x ∧
    x.m.pc 1 = .cs ∧ x.job 1 = some 0 ∧ x.p 0 = .calling ∧ x.m.granted = [1] := by
  let cfg : Cfg := ⟨false, false, prog2 [⟨.lock, .here⟩] [⟨.lock, .here⟩]⟩
  have h0 : XReach cfg (Yaclib.Strand.inlineExec true) (xinit cfg (Yaclib.Strand.inlineExec true)) := .init
  have h1 := XReach.step h0 (xplain (.tlLoad 0 true) rfl rfl)
  have h2 := XReach.step h1 (xplain (.tlCas 0 true) rfl rfl)
  have h3 := XReach.step h2 (xplain (.enter 0) rfl rfl)
  have h4 := XReach.step h3 (xplain (.tlLoad 1 false) rfl rfl)
  have h5 := XReach.step h4 (xplain (.alLoad 1 (.locked none)) rfl rfl)
  have h6 := XReach.step h5 (xplain (.alCas 1 true) rfl rfl)
  have h7 := XReach.step h6 (xplain (.exit 0) rfl rfl)
  have h8 := XReach.step h7 (xplain (.ulLoad (.co 0) false) rfl rfl)
  have h9 := XReach.step h8 (xplain (.ulXchg (.co 0)) rfl rfl)
  have h10 := XReach.step h9 (XStep.grantSub (a := .co 0) (n := 1) (lx := Yaclib.Strand.XEv.sub 0)
    (x' := Yaclib.Strand.upd Yaclib.Strand.protInit 0 .pending)
    (next_sound (l := .grant (.co 0) 1 false) rfl)
    (by exact ⟨rfl, rfl⟩) rfl rfl)
  have h11 := XReach.step h10 (XStep.enterCall (n := 1) (j := 0) (lx := Yaclib.Strand.XEv.call 0)
    (x' := Yaclib.Strand.upd (Yaclib.Strand.upd Yaclib.Strand.protInit 0 .pending) 0 .calling)
    (next_sound (l := .enter 1) rfl) rfl
    (by exact ⟨rfl, rfl, rfl⟩) rfl)
  exact ⟨_, h11, rfl, rfl, rfl, rfl⟩

end OverExecutor

end Yaclib.Props.C14

/-! ### tie to the source (T2): the kernels this model was written from are unchanged.
`Extracted/Kernels.lean` is regenerated from /repo on every check run. -/
namespace Yaclib.Props.C14.Tie
open Yaclib

theorem tie_TryLockAwait : Extracted.Kernels.MutexImpl_TryLockAwait = Skeletons.MutexImpl_TryLockAwait := rfl
theorem tie_AwaitLock : Extracted.Kernels.MutexImpl_AwaitLock = Skeletons.MutexImpl_AwaitLock := rfl
theorem tie_TryUnlockAwait : Extracted.Kernels.MutexImpl_TryUnlockAwait = Skeletons.MutexImpl_TryUnlockAwait := rfl
theorem tie_BatchingPossible : Extracted.Kernels.MutexImpl_BatchingPossible = Skeletons.MutexImpl_BatchingPossible := rfl
theorem tie_UnlockHereAwait : Extracted.Kernels.MutexImpl_UnlockHereAwait = Skeletons.MutexImpl_UnlockHereAwait := rfl
theorem tie_AwaitUnlock : Extracted.Kernels.MutexImpl_AwaitUnlock = Skeletons.MutexImpl_AwaitUnlock := rfl
theorem tie_AwaitUnlockOn : Extracted.Kernels.MutexImpl_AwaitUnlockOn = Skeletons.MutexImpl_AwaitUnlockOn := rfl
theorem tie_TryLock : Extracted.Kernels.MutexImpl_TryLock = Skeletons.MutexImpl_TryLock := rfl
theorem tie_UnlockHere : Extracted.Kernels.MutexImpl_UnlockHere = Skeletons.MutexImpl_UnlockHere := rfl
theorem tie_GetHead : Extracted.Kernels.MutexImpl_GetHead = Skeletons.MutexImpl_GetHead := rfl
theorem tie_UnlockAwaiter_await_ready :
    Extracted.Kernels.UnlockAwaiter_await_ready = Skeletons.UnlockAwaiter_await_ready := rfl
theorem tie_UnlockAwaiter_await_suspend :
    Extracted.Kernels.UnlockAwaiter_await_suspend = Skeletons.UnlockAwaiter_await_suspend := rfl
theorem tie_UnlockOnAwaiter_await_ready :
    Extracted.Kernels.UnlockOnAwaiter_await_ready = Skeletons.UnlockOnAwaiter_await_ready := rfl
theorem tie_UnlockOnAwaiter_await_suspend :
    Extracted.Kernels.UnlockOnAwaiter_await_suspend = Skeletons.UnlockOnAwaiter_await_suspend := rfl
theorem tie_LockAwaiter_await_ready :
    Extracted.Kernels.LockAwaiter_await_ready = Skeletons.LockAwaiter_await_ready := rfl
theorem tie_LockAwaiter_await_suspend :
    Extracted.Kernels.LockAwaiter_await_suspend = Skeletons.LockAwaiter_await_suspend := rfl
theorem tie_GuardAwaiter_await_resume :
    Extracted.Kernels.GuardAwaiter_await_resume = Skeletons.GuardAwaiter_await_resume := rfl
theorem tie_LockStickyAwaiter_await_ready :
    Extracted.Kernels.LockStickyAwaiter_await_ready = Skeletons.LockStickyAwaiter_await_ready := rfl
theorem tie_LockStickyAwaiter_await_suspend :
    Extracted.Kernels.LockStickyAwaiter_await_suspend = Skeletons.LockStickyAwaiter_await_suspend := rfl
theorem tie_UnlockStickyAwaiter_await_ready :
    Extracted.Kernels.UnlockStickyAwaiter_await_ready = Skeletons.UnlockStickyAwaiter_await_ready := rfl
theorem tie_UnlockStickyAwaiter_await_suspend :
    Extracted.Kernels.UnlockStickyAwaiter_await_suspend = Skeletons.UnlockStickyAwaiter_await_suspend := rfl
theorem tie_GuardStickyAwaiter_await_ready :
    Extracted.Kernels.GuardStickyAwaiter_await_ready = Skeletons.GuardStickyAwaiter_await_ready := rfl
theorem tie_GuardStickyAwaiter_await_suspend :
    Extracted.Kernels.GuardStickyAwaiter_await_suspend = Skeletons.GuardStickyAwaiter_await_suspend := rfl
theorem tie_GuardStickyAwaiter_await_resume :
    Extracted.Kernels.GuardStickyAwaiter_await_resume = Skeletons.GuardStickyAwaiter_await_resume := rfl
theorem tie_StickyGuard_Lock : Extracted.Kernels.StickyGuard_Lock = Skeletons.StickyGuard_Lock := rfl
theorem tie_StickyGuard_Unlock : Extracted.Kernels.StickyGuard_Unlock = Skeletons.StickyGuard_Unlock := rfl
theorem tie_Guard_dtor : Extracted.Kernels.Guard_dtor = Skeletons.Guard_dtor := rfl
theorem tie_Guard_Lock : Extracted.Kernels.Guard_Lock = Skeletons.Guard_Lock := rfl
theorem tie_Guard_TryLock : Extracted.Kernels.Guard_TryLock = Skeletons.Guard_TryLock := rfl
theorem tie_Guard_Unlock : Extracted.Kernels.Guard_Unlock = Skeletons.Guard_Unlock := rfl
theorem tie_Guard_UnlockOn : Extracted.Kernels.Guard_UnlockOn = Skeletons.Guard_UnlockOn := rfl
theorem tie_Guard_UnlockHere : Extracted.Kernels.Guard_UnlockHere = Skeletons.Guard_UnlockHere := rfl
theorem tie_Guard_TryLockImpl : Extracted.Kernels.Guard_TryLockImpl = Skeletons.Guard_TryLockImpl := rfl
theorem tie_Mutex_TryGuard : Extracted.Kernels.Mutex_TryGuard = Skeletons.Mutex_TryGuard := rfl
theorem tie_Mutex_Guard : Extracted.Kernels.Mutex_Guard = Skeletons.Mutex_Guard := rfl
theorem tie_Mutex_GuardSticky : Extracted.Kernels.Mutex_GuardSticky = Skeletons.Mutex_GuardSticky := rfl
theorem tie_Mutex_Lock : Extracted.Kernels.Mutex_Lock = Skeletons.Mutex_Lock := rfl
theorem tie_Mutex_Unlock : Extracted.Kernels.Mutex_Unlock = Skeletons.Mutex_Unlock := rfl
theorem tie_Mutex_UnlockOn : Extracted.Kernels.Mutex_UnlockOn = Skeletons.Mutex_UnlockOn := rfl
/-- the YACLIB_TRANSFER / YACLIB_RESUME / YACLIB_SUSPEND macro block of coro.hpp (symmetric and non-symmetric branch) that
    `AwaitUnlock` / `AwaitUnlockOn` expand: `grant … inl = true` is "resume the next holder, the unlocker stays suspended" -/
theorem tie_coro_transfer_macros :
    Extracted.Kernels.CoMutexSrc_coro_transfer_macros = Skeletons.CoMutexSrc_coro_transfer_macros := rfl

end Yaclib.Props.C14.Tie

/-! over towers of Strands "never Drops" is discharged from the base (Proofs/StrandTowerNoDrop.lean, CoMutexExecInst2.lean) -/
namespace Yaclib.Props.C14
open Yaclib.CoMutex

theorem over_strand_tower_inline {cfg : Cfg} (k : Nat) {x : XState (Yaclib.Strand.tower (Yaclib.Strand.inlineExec true) k)}
    (h : XReach cfg _ x) (hq : ∀ x', ¬ XStep _ x x') : QuiescentDone cfg x := comutex_over_strand_tower_inline k h hq
theorem over_strand_tower_manual {cfg : Cfg} (k : Nat) {x : XState (Yaclib.Strand.tower (Yaclib.Strand.manualExec false) k)}
    (h : XReach cfg _ x) (hq : ∀ x', ¬ XStep _ x x') : QuiescentDone cfg x := comutex_over_strand_tower_manual k h hq

end Yaclib.Props.C14
