/-
C02 — a pipeline computes what its steps say: routing, recovery, unwrapping.

`spec` (Model/Pipeline.lean) is the obvious sequential reading, a fold over the steps.  `mech` is the mechanism written
from core.hpp, with the routing decisions taken from `Extracted/Dispatch.lean` (regenerated from the source on every
run).  The theorems hold for ALL programs (any length, asyncs nested to any depth), all executor configurations
(`cfg`: queue / inline, any rejection point) and ALL orders of client events (`evs`: attach, fulfil, let an executor run
a job, start, drop, get — in any order, including ill-timed ones, which `mech` ignores like the C++ type system does).

Defect D10 (an inner Task with a Run-type / PromiseCore head — Schedule / LazyContract — returned from a continuation was
entered through Here() and crashed) was exhibited by this machinery and repaired in /repo by fix 4f7ebfc; since then the
theorems are unconditional.  See the comment at the end of the file.
-/
import YaclibModel.Proofs.PipelineSpec
import YaclibModel.Model.ResultAlg
import YaclibModel.Extracted.Kernels
import YaclibModel.Model.Skeletons

namespace Yaclib.Props.C02
open Yaclib Yaclib.Pipeline Yaclib.Extracted

variable (cfg : Cfg) (evs : List Event) (p : Prog) (h : Handle)

/-- the client-level invariant: after ANY list of client events the state of the mechanism denotes the sequential
    reading of the program written so far (Proofs/PipelineInv.lean `Inv`) -/
theorem mech_denotes_spec (hc : client evs = some (p, h)) :
    Inv cfg (run cfg {} evs) p h := by
  have := inv_run cfg evs
  rw [hc] at this
  exact this

/-- **final Result and invocation list = sequential reading**, in every state in which the pipeline has come to its
    end: a ready Future is held (`future`), or nothing is left (`gone`: detached, dropped or consumed by Get) -/
theorem mech_terminal_eq_spec (hc : client evs = some (p, h)) :
    (∀ r inh, (run cfg {} evs).ctl = .future r inh →
      r = (spec cfg p).r ∧ (run cfg {} evs).g.invoked = (spec cfg p).invoked ∧
      (run cfg {} evs).g.subs = (spec cfg p).subs) ∧
    ((run cfg {} evs).ctl = .gone →
      (run cfg {} evs).result = some (spec cfg p).r ∧ (run cfg {} evs).g.invoked = (spec cfg p).invoked ∧
      (run cfg {} evs).g.subs = (spec cfg p).subs) := by
  have hi := mech_denotes_spec cfg evs p h hc
  obtain ⟨_, hi⟩ := hi
  constructor
  · intro r inh hctl
    rw [hctl] at hi
    obtain ⟨_, _, _, hs, _, _⟩ := hi
    simp [hs]
  · intro hctl
    rw [hctl] at hi
    obtain ⟨_, _, r, inh, hr, hs⟩ := hi
    simp [hs, hr]

/-- nothing crashes -/
theorem no_crash (hc : client evs = some (p, h)) : (run cfg {} evs).crashed = false :=
  (mech_denotes_spec cfg evs p h hc).1

/-- in EVERY reachable state what has been invoked so far is a prefix of what the sequential reading invokes -/
theorem invoked_prefix_spec (hc : client evs = some (p, h)) :
    ∃ x, (spec cfg p).invoked = (run cfg {} evs).g.invoked ++ x ∨
      ((run cfg {} evs).g.invoked = [] ∧ x = []) := by
  have hi := mech_denotes_spec cfg evs p h hc
  obtain ⟨_, hi⟩ := hi
  cases hctl : (run cfg {} evs).ctl with
  | idle => rw [hctl] at hi; exact hi.elim
  | task src steps => rw [hctl] at hi; exact ⟨[], Or.inr ⟨hi.2.2.2.1, rfl⟩⟩
  | future r inh => rw [hctl] at hi; exact ⟨[], Or.inl (by simp [hi.2.2.2.1])⟩
  | pending t =>
    rw [hctl] at hi
    obtain ⟨x, hx⟩ := specThread_invoked cfg t (run cfg {} evs).g.subs (run cfg {} evs).g.invoked
    exact ⟨x, Or.inl (by rw [hi.2.1, hx])⟩
  | gone =>
    rw [hctl] at hi
    obtain ⟨_, _, r, inh, _, hs⟩ := hi
    exact ⟨[], Or.inl (by simp [hs])⟩

/-- steps are invoked in pipeline order (a sub-sequence of the identifiers in program order) … -/
theorem invoked_order (hc : client evs = some (p, h)) :
    (run cfg {} evs).g.invoked.Sublist p.ids := by
  obtain ⟨x, hx⟩ := invoked_prefix_spec cfg evs p h hc
  cases hx with
  | inl hx =>
    have h1 := spec_invoked_sublist cfg p
    rw [hx] at h1
    exact (List.sublist_append_left _ _).trans h1
  | inr hx => rw [hx.1]; exact List.nil_sublist _

/-- … and every step at most once, in every reachable state (confluence: no event order can run a callback twice) -/
theorem invoked_nodup (hc : client evs = some (p, h)) (hids : p.ids.Nodup) :
    (run cfg {} evs).g.invoked.Nodup :=
  List.Nodup.sublist (invoked_order cfg evs p h hc) hids

/-- confluence: two histories of the same program that both end with a ready future hold the same Result,
    whatever the order in which promises were fulfilled and executors drained -/
theorem confluence (evs' : List Event) (h' : Handle) (hc : client evs = some (p, h)) (hc' : client evs' = some (p, h'))
    (r r' : R) (inh inh' : Exec)
    (h1 : (run cfg {} evs).ctl = .future r inh) (h2 : (run cfg {} evs').ctl = .future r' inh') : r = r' := by
  rw [((mech_terminal_eq_spec cfg evs p h hc).1 r inh h1).1, ((mech_terminal_eq_spec cfg evs' p h' hc').1 r' inh' h2).1]

/-! ### the clauses of the property, about one step of the sequential reading
    (`specCall cfg s input own subs inv`: step `s` is offered `input`) and about the extracted routing -/

section clauses
variable (id : Nat) (sig : Sig) (mode : Mode) (beh : Beh) (input : R) (own : Exec) (subs inv : List Nat)

/-- the routing extracted from Core::CallImpl / CallResolveState invokes the functor exactly when the reading says so -/
theorem extracted_routing_agrees (hd dropped : Bool) (input0 : R) :
    route sig (passesUnit (stepType mode hd) dropped sig) (Dispatch.isRun (stepType mode hd))
        (seenInput (stepType mode hd) dropped input0) = .call
      ↔ runsOn sig (seenInput (stepType mode hd) dropped input0) = true :=
  route_call_iff sig mode hd dropped input0

/-- a callback taking the value runs only on success … -/
theorem value_callback_only_on_value : runsOn .val input = true ↔ ∃ n, input = .val n := by
  cases input <;> simp [runsOn]
/-- a callback taking the error type runs only on an error … -/
theorem error_callback_only_on_error : runsOn .err input = true ↔ ∃ c, input = .err c := by
  cases input <;> simp [runsOn]
/-- a callback taking std::exception_ptr runs only on an exception … -/
theorem exception_callback_only_on_exception : runsOn .exc input = true ↔ ∃ t, input = .exc t := by
  cases input <;> simp [runsOn]
/-- a callback taking Result always runs -/
theorem result_callback_always : runsOn .res input = true := by
  cases input <;> rfl

/-- … and otherwise the failure / the Result passes through unchanged, nothing is invoked -/
theorem not_invoked_passes_unchanged (hr : runsOn sig input = false) :
    specCall cfg (.mk id sig mode beh) input own subs inv = ⟨input, own, subs, inv⟩ :=
  specCall_skip cfg id sig mode input own subs inv beh hr

/-- whatever a callback throws becomes the Exception state -/
theorem throw_becomes_exception (t : Nat) (hr : runsOn sig input = true) :
    (specCall cfg (.mk id sig mode (.throw t)) input own subs inv).r = .exc t := by
  rw [specCall_throw _ _ _ _ _ _ _ _ _ hr]

/-- a returned Result is stored as is -/
theorem result_stored_as_is (r : R) (hr : runsOn sig input = true) :
    (specCall cfg (.mk id sig mode (.res r)) input own subs inv).r = r := by
  rw [specCall_res _ _ _ _ _ _ _ _ _ hr]

/-- a returned Future / SharedFuture / Task (however built: any source, any steps, lazy or not) is flattened: the step
    completes with the inner pipeline's own result, and keeps its own executor -/
theorem async_flattened (src : Src) (lazy : Bool) (steps : List Step) (hr : runsOn sig input = true) :
    (specCall cfg (.mk id sig mode (.async src lazy steps)) input own subs inv).r =
      (specSteps cfg steps (src == .unit) (specSrc cfg src none false subs).1 (specSrc cfg src none false subs).2.1
        (specSrc cfg src none false subs).2.2 (inv ++ [id])).r ∧
    (specCall cfg (.mk id sig mode (.async src lazy steps)) input own subs inv).inh = own := by
  rw [specCall_async _ _ _ _ _ _ _ _ _ _ _ hr]
  exact ⟨rfl, rfl⟩

/-- SharedFuture as a source (of the pipeline, or of a pipeline a functor builds / returns): a COPY of a SharedFuture the client
    keeps contributes the Result its promise was used with — however often copies are consumed, whenever the promise is used
    (before the pipeline is built: `pre`; before the copy is consumed: ready at once; later: the pipeline waits for it). -/
theorem kept_shared_source_delivers_original (e : Exec) (p : Nat) (f : Ful) (pre : Bool) (ctx : Option Nat) (g : G) :
    specSrc cfg (.sharedKept e p f pre) none false subs = (f.result, e, subs) ∧
    (match startSrc cfg (.sharedKept e p f pre) ctx g with
     | .go r inh _ g' => r = f.result ∧ inh = e ∧ g' = g
     | .wait w inh g' => w = .promise p f ∧ inh = e ∧ g' = g
     | .crash _ => False) := by
  refine ⟨rfl, ?_⟩
  cases h : g.isSet p pre <;> simp [startSrc, h]
/- What the model does NOT state: that the kept handle ITSELF still holds the value after consumers of copies ran (C06's "the
   value is moved out only by the provably last holder", seen from the pipeline).  The model has no handle count — the kept
   handles are the client's objects, values are plain — so this is (a) monitored on the implementation: the harness value type
   shows moved-from (`dead`), every program that uses kept handles ends with `obs s<j>` lines (Get() const& of the kept handle)
   and the monitor demands the value the promise was used with; (b) tied: `tie_Core_Impl` (T2) and the verbatim check of
   `async_done`'s body by vlib/x_dispatch.py (T1): `Done<…, true>(core.MoveOrConst<!AsyncShared>())` — always COPY from an
   inner SharedFuture. -/
end clauses

/-! ### defect D10 (fixed: /repo 4f7ebfc)

   Until 4f7ebfc a continuation returning a Task whose head is a Schedule() / LazyContract() core crashed: CallResolveAsync
   enters the head through Here(); Core::Impl took the IsRun branch to async_done() with `_self.caller == nullptr`
   (PromiseCore: UniqueCore::Here read a Result out of the outer core's Callback bytes).  This file then contained

     theorem mech_terminal_eq_spec_violated_witness :
         (progOf d10Events).map (fun p => (spec cfgQ p).r) = some (.val 7) ∧ (run cfgQ {} d10Events).crashed = true

   and the theorems above carried the guard "no inner Task with a Run-type head" (`d10FreeProg`).  Replay (regression
   input corpus/pipe/d10_schedule_returned.txt):
       in 1 src schedule 2 V on:e1 val:7  /  src ready v1  /  then 1 V inline async:1        (segmentation fault)
   Since the fix the head is Submitted to ITS executor (extracted: `Dispatch.implRunEntry`, `Dispatch.promiseCoreHere`),
   shows in Submits / placement / Called-xor-Dropped, and a stopped executor rejects it (StopError path). -/

def cfgQ : Cfg := fun _ => ⟨true, none⟩

/-- `MakeFuture(1).ThenInline([](int) { return Schedule(e1, [] { return 7; }); })` -/
def d10Events : List Event :=
  [.src (.ready (.val 1)) false none,
   .attach (.mk 1 .val .inline (.async .unit true [.mk 2 .val (.on (.user 1)) (.val 7)]))]

/-- the former D10 witness now behaves: the inner head waits in e1's queue (one Submit), runs when e1 runs it, 7 comes out -/
example : (run cfgQ {} d10Events).crashed = false ∧ (run cfgQ {} d10Events).g.subs = [1] ∧
    (run cfgQ {} (d10Events ++ [.call 1])).result = some (.val 7) ∧
    (run cfgQ {} (d10Events ++ [.call 1])).g.ran.map (fun x => (x.id, x.ctx)) = [(1, none), (2, some 1)] ∧
    (run cfgQ {} (d10Events ++ [.call 1])).g.jobs = [(0, true)] := by decide +kernel

/-- … and with e1 stopped the head is Dropped: its value callback is skipped, the outer step completes with StopError -/
example : (run (fun _ => ⟨true, some 0⟩) {} d10Events).result = some (.err 0) ∧
    (run (fun _ => ⟨true, some 0⟩) {} d10Events).g.invoked = [1] ∧
    (run (fun _ => ⟨true, some 0⟩) {} d10Events).g.jobs = [(0, false)] := by decide +kernel

/-- LazyContract head: the functor receives its promise when the head is started through Here -/
example : (run cfgQ {} [.src (.ready (.val 1)) false none,
      .attach (.mk 1 .val .inline (.async (.promiseFn .inl 0 (.set (.val 4))) true [])), .set 0]).result = some (.val 4) := by
  decide +kernel

/-! ### non-vacuity: a concrete pipeline with every kind of routing, late fulfilment, two executors, rejection -/

def cfgEx : Cfg := fun k => if k = 2 then ⟨true, some 1⟩ else ⟨true, none⟩

def exEvents : List Event :=
  [.src (.contract 0 (.set (.val 3))) false none,
   .attach (.mk 1 .val .inline (.val 1)),                    -- runs: 4
   .attach (.mk 2 .err .inline (.val 50)),                   -- skipped
   .attach (.mk 3 .res (.on (.user 1)) (.res (.err 7))),     -- runs on e1: Error 7
   .attach (.mk 4 .val .inherit (.val 1)),                   -- skipped (inherits e1, submitted, called)
   .attach (.mk 5 .err .inherit (.async (.ready (.exc 9)) true [.mk 6 .exc .inline (.val 2)])),  -- recovers: inner task gives 2
   .attach (.mk 7 .val (.on (.user 2)) (.val 10)),           -- accepted by e2: 12
   .attach (.mk 8 .val (.on (.user 2)) (.val 100)),          -- rejected by e2: StopError
   .attach (.mk 9 .res .inline (.val 0)),                    -- sees the StopError, returns 0
   .set 0, .call 1, .call 1, .call 1, .call 2]

example : (run cfgEx {} exEvents).ctl.isFuture = true := by decide +kernel
example : (run cfgEx {} exEvents).result = some (.val 0) ∧ (run cfgEx {} exEvents).g.invoked = [1, 3, 5, 6, 7, 9] ∧
    (run cfgEx {} exEvents).g.jobs = [(0, true), (1, true), (2, true), (3, true), (4, false)] := by decide +kernel
example : (progOf exEvents).map (fun p => (spec cfgEx p).invoked) = some [1, 3, 5, 6, 7, 9] := by decide +kernel
/-- before the promise is fulfilled nothing has run -/
example : (run cfgEx {} (exEvents.take 9)).g.invoked = [] := by decide +kernel

end Yaclib.Props.C02

/-! ### T2: the kernel functions the mechanism was written from are still the ones in the source -/
/-! ### The Result algebra (util/result.hpp; Model/ResultAlg.lean) — for EVERY pair of states

`a` = what the target holds, `b` = what the source holds: any of value / exception / error / empty, with a live or a
moved-from payload.  The differential of vlib/resultalg.py runs exactly these operations on `yaclib::Result`. -/
namespace Yaclib.Props.C02.ResultAlgebra
open Yaclib.ResultAlg

/-- **assignment makes the target equal to the source's former content** (copy assignment): the source keeps it, no other
    object changes -/
theorem copy_assign (s : St) (i j : Nat) (a b : RS) (hij : i ≠ j) (hi : s.slots i = some a) (hj : s.slots j = some b) :
    (step s (.copyA i j)).2 = .none ∧
    (step s (.copyA i j)).1.slots i = some b ∧ (step s (.copyA i j)).1.slots j = some b ∧
    ∀ k, k ≠ i → (step s (.copyA i j)).1.slots k = s.slots k := by
  have hji : j ≠ i := fun h => hij h.symm
  simp [step, hi, hj, hij, hji, St.put, upd]
  intro k hk; simp [hk]

/-- **move assignment**: the target equals the source's former content (seeded r2a-4: the Exception alternative was
    re-created empty); the source keeps its STATE with a moved-from payload; no other object changes -/
theorem move_assign (s : St) (i j : Nat) (a b : RS) (hij : i ≠ j) (hi : s.slots i = some a) (hj : s.slots j = some b) :
    (step s (.moveA i j)).2 = .none ∧
    (step s (.moveA i j)).1.slots i = some b ∧ (step s (.moveA i j)).1.slots j = some (movedFrom s.unit b) ∧
    ∀ k, k ≠ i → k ≠ j → (step s (.moveA i j)).1.slots k = s.slots k := by
  have hji : j ≠ i := fun h => hij h.symm
  simp [step, hi, hj, hij, hji, St.put, upd]
  intro k hk hk'; simp [hk, hk']

/-- move assignment gives the target what copy assignment gives it -/
theorem move_assign_eq_copy_assign_on_target (s : St) (i j : Nat) (a b : RS) (hij : i ≠ j) (hi : s.slots i = some a)
    (hj : s.slots j = some b) : (step s (.moveA i j)).1.slots i = (step s (.copyA i j)).1.slots i := by
  rw [(move_assign s i j a b hij hi hj).2.1, (copy_assign s i j a b hij hi hj).2.1]

/-- copy / move CONSTRUCTION of slot i from slot j (whatever slot i was): the same two laws -/
theorem copy_construct (s : St) (i j : Nat) (b : RS) (hij : i ≠ j) (hj : s.slots j = some b) :
    (step s (.copyC i j)).1.slots i = some b ∧ (step s (.copyC i j)).1.slots j = some b := by
  have hji : j ≠ i := fun h => hij h.symm
  simp [step, hj, hij, hji, St.put, upd]

theorem move_construct (s : St) (i j : Nat) (b : RS) (hij : i ≠ j) (hj : s.slots j = some b) :
    (step s (.moveC i j)).1.slots i = some b ∧ (step s (.moveC i j)).1.slots j = some (movedFrom s.unit b) := by
  have hji : j ≠ i := fun h => hij h.symm
  simp [step, hj, hij, hji, St.put, upd]

/-- a moved-from Result keeps its state (std::variant moves the alternative, the index stays), and moving twice is moving once -/
theorem moved_from_keeps_state (u : Bool) (b : RS) :
    (movedFrom u b).tag = b.tag ∧ movedFrom u (movedFrom u b) = movedFrom u b := by
  cases b <;> cases u <;> simp [movedFrom, RS.tag]

/-- `Ok()` is the dispatch on the state: the value, or the exception rethrown, or ResultError{error}, or ResultEmpty; the
    const& flavour changes nothing, the && flavour leaves a moved-from Result -/
theorem ok_dispatch (s : St) (i : Nat) (a : RS) (hi : s.slots i = some a) :
    step s (.ok i) = (s, okObs a) ∧
    (okObs a ≠ .bad → (step s (.okMove i)).2 = okObs a ∧ (step s (.okMove i)).1.slots i = some (movedFrom s.unit a)) := by
  refine ⟨by simp [step, hi], fun h => ?_⟩
  simp [step, hi, h, St.put, upd]

/-- converting assignment `r = value / error / exception_ptr / StopTag{}` and construction build the named alternative -/
theorem set_builds (s : St) (i : Nat) (a : RS) (c : Ctor) (hi : s.slots i = some a) :
    (step s (.set i c)).1.slots i = some c.build ∧ (step s (.new i c)).1.slots i = some c.build := by
  simp [step, hi, St.put, upd]

/-- non-vacuity: the sequence of the seeded change (value target, exception source, move assignment, then look) -/
example : let s0 : St := {}
    let s1 := (step s0 (.new 0 (.val 5))).1
    let s2 := (step s1 (.new 1 (.exc 3))).1
    let s3 := (step s2 (.moveA 0 1)).1
    s3.slots 0 = some (.exception (some 3)) ∧ s3.slots 1 = some (.exception none) ∧ (step s3 (.ok 0)).2 = .throwExc 3 := by
  decide

end Yaclib.Props.C02.ResultAlgebra

namespace Yaclib.Props.C02.Tie
open Yaclib

theorem tie_Core_Call : Extracted.Kernels.Core_Call = Skeletons.Core_Call := rfl
theorem tie_Core_Drop : Extracted.Kernels.Core_Drop = Skeletons.Core_Drop := rfl
theorem tie_Core_Impl : Extracted.Kernels.Core_Impl = Skeletons.Core_Impl := rfl
theorem tie_Core_Here : Extracted.Kernels.Core_Here = Skeletons.Core_Here := rfl
theorem tie_Core_CallImpl : Extracted.Kernels.Core_CallImpl = Skeletons.Core_CallImpl := rfl
/-- util/detail/type_traits_impl.hpp and util/type_traits.hpp, whole text: IsInvocable / Invoke and their aliases -/
theorem tie_type_traits_impl_hpp :
    Extracted.Kernels.TraitSrc_type_traits_impl_hpp = Skeletons.TraitSrc_type_traits_impl_hpp := rfl
theorem tie_type_traits_hpp : Extracted.Kernels.TraitSrc_type_traits_hpp = Skeletons.TraitSrc_type_traits_hpp := rfl
/-- **the spelling of a callback's parameter does not matter — only what it is invocable with** (T1, Extracted/Dispatch.lean).
    `is_invocable_v<F, X…>` is `detail::IsInvocable<F, X…>::Value`; IsInvocable has exactly the primary template
    (`std::is_invocable_v<Func, Args...>`: the probe is passed on as written) and the `void` specialization; core.hpp
    probes exactly these eleven argument lists, each naming a TYPE without a reference, i.e. std::is_invocable asks for an
    RVALUE — what the core passes for unique futures.  Hence `Result<V,E>`, `Result<V,E>&&`, `const Result<V,E>&`, `auto&&`,
    `auto` are all Result callbacks (class `Sig.res` of the model), `V` / `V&&` / `const V&` value callbacks, and so on:
    the model's signature class is the whole story.  (Seeded r3b-4: a specialization for Result<V,E> probing an LVALUE made
    `Result<V,E>&&` callbacks value callbacks.)  The implementation side is the fixed matrix of harness/spell.cpp (incl. a
    move-only V) and the spelling suffixes of the random programs. -/
theorem callback_class_probes :
    Extracted.Dispatch.isInvocableDefs =
      [("IsInvocable", "(primary)", "staticconstexprboolValue=std::is_invocable_v<Func,Args...>;"),
       ("IsInvocable", "<Func,void>", "staticconstexprboolValue=std::is_invocable_v<Func>;"),
       ("Invoke", "(primary)", "usingType=std::invoke_result_t<Func,Args...>;"),
       ("Invoke", "<Func,void>", "usingType=std::invoke_result_t<Func>;")] ∧
    Extracted.Dispatch.isInvocableAlias = "detail::IsInvocable<Func,Arg...>::Value" ∧
    Extracted.Dispatch.invokeAlias = "typenamedetail::Invoke<Func,Arg...>::Type" ∧
    Extracted.Dispatch.coreProbes =
      ["Func,E", "Func,Result<V,E>", "Func,Unit", "Func,V", "Func,std::exception_ptr", "Invoke", "Invoke,Arg", "Invoke,E",
       "Invoke,Result<Arg,E>", "Invoke,Unit", "Invoke,std::exception_ptr"] := ⟨rfl, rfl, rfl, rfl⟩
/-- util/result.hpp, whole text (comments and white space dropped): the Result algebra model was written from it -/
theorem tie_result_hpp : Extracted.Kernels.ResultSrc_result_hpp = Skeletons.ResultSrc_result_hpp := rfl
theorem tie_Core_Done : Extracted.Kernels.Core_Done = Skeletons.Core_Done := rfl
theorem tie_Core_CallResolveState : Extracted.Kernels.Core_CallResolveState = Skeletons.Core_CallResolveState := rfl
theorem tie_Core_CallResolveAsync : Extracted.Kernels.Core_CallResolveAsync = Skeletons.Core_CallResolveAsync := rfl
theorem tie_Core_CallResolveVoid : Extracted.Kernels.Core_CallResolveVoid = Skeletons.Core_CallResolveVoid := rfl
theorem tie_Core_Tag : Extracted.Kernels.Core_Tag = Skeletons.Core_Tag := rfl
theorem tie_MakeCore : Extracted.Kernels.MakeCore = Skeletons.MakeCore := rfl
theorem tie_InlineCore_Loop : Extracted.Kernels.InlineCore_Loop = Skeletons.InlineCore_Loop := rfl
theorem tie_InlineCore_Step : Extracted.Kernels.InlineCore_Step = Skeletons.InlineCore_Step := rfl
theorem tie_InlineCore_Noop : Extracted.Kernels.InlineCore_Noop = Skeletons.InlineCore_Noop := rfl
theorem tie_ResultCore_Impl : Extracted.Kernels.ResultCore_Impl = Skeletons.ResultCore_Impl := rfl
theorem tie_UniqueCore_Here : Extracted.Kernels.UniqueCore_Here = Skeletons.UniqueCore_Here := rfl
theorem tie_detail_SetCallback : Extracted.Kernels.detail_SetCallback = Skeletons.detail_SetCallback := rfl
theorem tie_MoveToCaller : Extracted.Kernels.MoveToCaller = Skeletons.MoveToCaller := rfl

/-- T1: the Tag() chain tests Result first, then value, error, exception_ptr, Unit -/
theorem tag_order : Extracted.Dispatch.tagOrder =
    [(.result, 1), (.value, 2), (.error, 3), (.exception, 4), (.unit, 5)] := by decide

end Yaclib.Props.C02.Tie
