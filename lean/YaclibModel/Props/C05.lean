/-
C05 — executors: every job is Called xor Dropped, and steps run where they were told.

Executors of the program-level model (Model/Pipeline.lean): the library's `MakeInline()` (`inl`: Call inside Submit), the
library's stopped inline executor (`stp`: Drop inside Submit; it is what `Task::Cancel` starts on), and user executors
`user k`, each either a FIFO queue drained by the client (ManualExecutor-like) or Call-inside-Submit, with an acceptance
decision made at the Submit (`limit = some n`: Submits n+1, n+2, … are refused ⇒ Drop) — "the k-th submission rejected".
Strand and FairThreadPool satisfy the same contract by C07 / C08; this file is about the contract for Inline / Manual and
about *placement* for all pipelines.  The last section is about jobs that are not pipeline steps: the free function
`yaclib::Submit(executor, f)` of exe/submit.hpp (Model/FreeJob.lean).

All theorems are for ALL event lists `evs` (any program, any length, any order of fulfilling / draining / starting /
dropping) and ALL executor configurations `cfg` (any rejection position).  The log theorems (`called_xor_dropped`,
`drop_only_if_stopped`, `placement`) and the ones that compare with `spec` are unconditional (D10 is fixed: /repo 4f7ebfc;
an inner Schedule / LazyContract head returned from a continuation is now a submitted job like any other).
-/
import YaclibModel.Proofs.PipelineLog2
import YaclibModel.Proofs.PipelineSpec
import YaclibModel.Proofs.PipelineTerm
import YaclibModel.Proofs.FreeJob
import YaclibModel.Proofs.StrandTowerInline
import YaclibModel.Proofs.StrandTowerManual
import YaclibModel.Extracted.Kernels
import YaclibModel.Model.Skeletons

namespace Yaclib.Props.C05
open Yaclib Yaclib.Pipeline Yaclib.Extracted

variable (cfg : Cfg) (evs : List Event)

theorem log_invariant : LInv cfg (run cfg {} evs) := linv_run cfg evs {} (linv_init cfg)

/-- job ids of finished jobs, and of the one still queued (if the pipeline waits in an executor queue) -/
def pending (st : State) : List Nat :=
  match st.ctl with
  | .pending t => pendOf t.wait
  | _ => []

theorem jobs_range :
    (run cfg {} evs).g.jobs.map (·.1) ++ pending (run cfg {} evs) = List.range (run cfg {} evs).g.subs.length := by
  have hc := run_not_crashed cfg evs
  have h := log_invariant cfg evs
  cases h with
  | inl h => rw [hc] at h; cases h
  | inr h =>
    unfold pending
    cases hctl : (run cfg {} evs).ctl <;> rw [hctl] at h <;> first | exact h.1.1 | exact h.1.1.1

/-- **contract_manual / contract_inline — Called xor Dropped, exactly once**: in every reachable state no job has been
    finished twice and only submitted jobs are finished; once nothing is queued any more (in particular in every terminal
    state) EVERY submitted job has been finished exactly once, in submission (FIFO) order -/
theorem called_xor_dropped :
    ((run cfg {} evs).g.jobs.map (·.1)).Nodup ∧
    (∀ j ∈ (run cfg {} evs).g.jobs.map (·.1), j < (run cfg {} evs).g.subs.length) ∧
    (pending (run cfg {} evs) = [] →
      (run cfg {} evs).g.jobs.map (·.1) = List.range (run cfg {} evs).g.subs.length) := by
  have h := jobs_range cfg evs
  have hnd : ((run cfg {} evs).g.jobs.map (·.1) ++ pending (run cfg {} evs)).Nodup := by
    rw [h]; exact List.nodup_range
  refine ⟨(List.nodup_append.1 hnd).1, ?_, ?_⟩
  · intro j hj
    have : j ∈ (run cfg {} evs).g.jobs.map (·.1) ++ pending (run cfg {} evs) := List.mem_append_left _ hj
    rw [h] at this
    exact List.mem_range.1 this
  · intro hp
    rw [hp, List.append_nil] at h
    exact h

/-- **drop_only_if_stopped**: a job is Dropped iff its executor refused it at the Submit (it had accepted `limit` Submits
    already); otherwise it is Called -/
theorem drop_only_if_stopped (j : Nat) (called : Bool)
    (hj : (j, called) ∈ (run cfg {} evs).g.jobs) :
    called = !(rejects cfg ((run cfg {} evs).g.subs.take j) ((run cfg {} evs).g.subs.getD j 0)) := by
  have hc := run_not_crashed cfg evs
  have h := log_invariant cfg evs
  cases h with
  | inl h => rw [hc] at h; cases h
  | inr h =>
    cases hctl : (run cfg {} evs).ctl <;> rw [hctl] at h <;> first | exact h.1.2 _ hj | exact h.1.1.2 _ hj

/-- a terminal state has nothing queued -/
theorem terminal_nothing_queued (ht : (run cfg {} evs).terminal = true) : pending (run cfg {} evs) = [] := by
  unfold pending
  cases hctl : (run cfg {} evs).ctl <;> simp_all [State.terminal]

/-- **placement**: a functor body of a step that was submitted to user executor k (Then(e,f) / Detach(e,f): e = k;
    Then(f) / Detach(f): the inherited executor is k; a Run / Schedule head: its executor) runs inside k's
    Submit / Call / Drop frame and nowhere else -/
theorem placement (x : Ran) (hx : x ∈ (run cfg {} evs).g.ran) (k : Nat)
    (hv : x.via = some (.user k)) : x.ctx = some k := by
  have hc := run_not_crashed cfg evs
  have h := log_invariant cfg evs
  cases h with
  | inl h => rw [hc] at h; cases h
  | inr h =>
    cases hctl : (run cfg {} evs).ctl <;> rw [hctl] at h <;> first | exact h.2 x hx k hv | exact h.1.2 x hx k hv

/-! ### which executor: explicit, else inherited along the chain -/

/-- **inherit_executor**: the executor a step carries (and is submitted to if it is a Call-type step) is the one named at
    its attachment, else the one of the state it is attached to; it hands the same on to its successor — so `inh` is "the
    explicit executor of the nearest predecessor that named one, else the source's".  This is what
    BaseCore::TransferExecutorTo (extracted) computes. -/
theorem inherit_executor (m : Mode) (inh : Exec) :
    Dispatch.transferExecutorTo m.explicit inh = ownExec m inh ∧
    (∀ e, ownExec (.on e) inh = e) ∧ (∀ e, ownExec (.detach e) inh = e) ∧
    ownExec .inline inh = inh ∧ ownExec .inherit inh = inh ∧ ownExec .detachInline inh = inh ∧
    ownExec .detachInherit inh = inh :=
  ⟨transferExecutorTo_eq m inh, fun _ => rfl, fun _ => rfl, rfl, rfl, rfl, rfl⟩

/-- a step's successor inherits the step's own executor, also through unwrapping: the inner pipeline's executors do not
    leak out -/
theorem successor_inherits_own (s : Step) (input : R) (own : Exec) (subs inv : List Nat) :
    (specCall cfg s input own subs inv).inh = own := by
  cases s with
  | mk id sig mode beh =>
    by_cases hr : runsOn sig input = true
    · cases beh with
      | val n => rw [specCall_val _ _ _ _ _ _ _ _ _ hr]
      | res r => rw [specCall_res _ _ _ _ _ _ _ _ _ hr]
      | throw t => rw [specCall_throw _ _ _ _ _ _ _ _ _ hr]
      | async src lazy steps => rw [specCall_async _ _ _ _ _ _ _ _ _ _ _ hr]
    · rw [specCall_skip _ _ _ _ _ _ _ _ _ (by simpa using hr)]

/-- the Submits the mechanism made are exactly the ones the sequential reading makes (same executors, same order) -/
theorem submits_as_spec (p : Prog) (h : Handle) (hcl : client evs = some (p, h))
    (ht : (run cfg {} evs).terminal = true) : (run cfg {} evs).g.subs = (spec cfg p).subs := by
  have hi := inv_run cfg evs
  rw [hcl] at hi
  obtain ⟨_, hi⟩ := hi
  cases hctl : (run cfg {} evs).ctl with
  | idle => rw [hctl] at hi; exact hi.elim
  | task src steps => simp [State.terminal, hctl] at ht
  | pending t => simp [State.terminal, hctl] at ht
  | future r inh => rw [hctl] at hi; simp [hi.2.2.2.1]
  | gone => rw [hctl] at hi; obtain ⟨_, _, r, inh, _, hs⟩ := hi; simp [hs]

/-! ### Share(shared future, e) carries e -/

/-- `Share(sf, e)` (async/share.hpp: MakeContractOn(e) + Connect) as the source of a pipeline: whether the SharedFuture is
    ready already or fulfilled later, the state the first step is attached to carries `e` — so a `Then(f)` without executor
    is given to `e` (inheritance clause), in `mech` and in the sequential reading alike.  `Share(sf)` carries the inline
    executor.  (Seeded r3b-2: a fast path for a ready SharedFuture returned a core that had forgotten `e`.) -/
theorem share_carries_executor (e : Exec) (p : Nat) (f : Ful) (pre : Bool) (ctx : Option Nat) (g : G) (subs : List Nat) :
    (specSrc cfg (.sharedKept e p f pre) none false subs).2.1 = e ∧
    (match startSrc cfg (.sharedKept e p f pre) ctx g with
     | .go _ inh _ _ => inh = e
     | .wait _ inh _ => inh = e
     | .crash _ => False) ∧
    ownExec .inherit e = e := by
  refine ⟨rfl, ?_, rfl⟩
  cases h : g.isSet p pre <;> simp [startSrc, h]

/-! ### ThenInline never submits -/

/-- **inline_never_submits** (T1): ThenInline / DetachInline cores are not Call-type: Core::Impl calls CallImpl directly;
    every other attachment and the Run / Schedule head go through Submit -/
theorem inline_never_submits :
    Dispatch.implSubmits (stepType .inline false) = false ∧ Dispatch.implSubmits (stepType .detachInline false) = false ∧
    (∀ m hd, Dispatch.implSubmits (stepType m hd) = (m.submits || hd)) :=
  ⟨by decide, by decide, implSubmits_stepType⟩

/-- … and on the mechanism: running a ThenInline step whose functor does not build an inner pipeline leaves the Submit
    counter and the Submit log untouched -/
theorem inline_step_no_submit (id : Nat) (sig : Sig) (beh : Beh) (hb : beh.isAsync = false) (flow : Bool)
    (ctx : Option Nat) (r : R) (inh : Exec) (g : G) :
    ∃ r' c' g', runSteps cfg [.mk id sig .inline beh] false flow ctx r inh g = .done r' inh c' g' ∧
      g'.submitCalls = g.submitCalls ∧ g'.subs = g.subs ∧ g'.jobs = g.jobs := by
  have hnil : ∀ r0 c0 g0, runSteps cfg [] false flow c0 r0 inh g0 = .done r0 inh c0 g0 := by
    intro r0 c0 g0; rw [runSteps.eq_def]
  rw [runSteps.eq_def]
  simp only [Step.mode, inline_never_submits.1, Bool.false_eq_true, ite_false, Mode.explicit, Dispatch.transferExecutorTo]
  rw [callStep.eq_def]
  simp only []
  cases hact : route sig (passesUnit (stepType .inline false) false sig) (Dispatch.isRun (stepType .inline false))
      (seenInput (stepType .inline false) false r) with
  | call =>
    cases beh with
    | val n => exact ⟨_, _, _, by simp only []; rw [hnil], by simp, by simp, by simp⟩
    | res r1 => exact ⟨_, _, _, by simp only []; rw [hnil], by simp, by simp, by simp⟩
    | throw t => exact ⟨_, _, _, by simp only []; rw [hnil], by simp, by simp, by simp⟩
    | async src lazy steps => simp [Beh.isAsync] at hb
  | doneException => exact ⟨_, _, _, by simp only []; rw [hnil], by simp, by simp, by simp⟩
  | doneError => exact ⟨_, _, _, by simp only []; rw [hnil], by simp, by simp, by simp⟩
  | doneResult => exact ⟨_, _, _, by simp only []; rw [hnil], by simp, by simp, by simp⟩

/-! ### a stopped executor -/

/-- **reject_gives_stop_error**: what a step submitted to a refusing executor is offered is StopError, whatever its input
    was (Core::Drop ⇒ CallImpl(Result{StopTag{}}), extracted) … -/
theorem reject_gives_stop_error (k : Nat) (r : R) (subs : List Nat) (hrej : rejects cfg subs k = true) :
    offered cfg (.user k) r subs = (R.stop, subs ++ [k]) ∧
    (∀ ty input0, seenInput ty true input0 = R.stop) ∧ Dispatch.dropInput = .stopTag := by
  refine ⟨by simp [offered, hrej], fun ty input0 => by simp [seenInput, Dispatch.dropInput], rfl⟩

/-- … so value callbacks are skipped (and exception callbacks), error and Result callbacks see the StopError -/
theorem stop_error_routing :
    runsOn .val R.stop = false ∧ runsOn .exc R.stop = false ∧ runsOn .err R.stop = true ∧ runsOn .res R.stop = true :=
  ⟨rfl, rfl, rfl, rfl⟩

/-- **chain_completes_after_reject** — for EVERY rejection position (any `cfg`, i.e. any `limit` on any executor), from
    every reachable state: nothing crashes; finitely many deliveries (fulfil the promise the pipeline waits for / let the
    executor run the queued job — at most `measure` many, Proofs/PipelineTerm.lean) bring the pipeline to rest; and when it
    rests with a result, that is `spec`'s outcome, which folds over ALL steps behind the rejected one
    (C02.mech_terminal_eq_spec, `submits_as_spec`). -/
theorem chain_completes_after_reject (p : Prog) (h : Handle) (hcl : client evs = some (p, h)) :
    (run cfg {} evs).crashed = false ∧
    (∀ t, (deliverN cfg (run cfg {} evs).measure (run cfg {} evs)).ctl ≠ .pending t) ∧
    (∀ t, (run cfg {} evs).ctl = .pending t →
      (mech cfg (run cfg {} evs) t.delivery).measure < (run cfg {} evs).measure) := by
  have hi := inv_run cfg evs
  rw [hcl] at hi
  obtain ⟨hc, _⟩ := hi
  refine ⟨hc, ?_, fun t ht => delivery_decreases cfg _ t hc ht⟩
  -- the deliveries are client events: the states `deliverN` visits are reachable, hence do not crash
  have hreach : ∀ (n : Nat) (evs' : List Event), client evs' = some (p, h) →
      ∃ evs'', client evs'' = some (p, h) ∧ deliverN cfg n (run cfg {} evs') = run cfg {} evs'' := by
    intro n
    induction n with
    | zero => intro evs' hc'; exact ⟨evs', hc', rfl⟩
    | succ n ih =>
      intro evs' hc'
      simp only [deliverN]
      split
      · exact ⟨evs', hc', rfl⟩
      · cases hctl : (run cfg {} evs').ctl with
        | pending t =>
          simp only []
          have hcl2 : client (evs' ++ [t.delivery]) = some (p, h) := by
            have hfold : ∀ (l : List Event) (ph : Prog × Handle), l.foldl clientEv ph = ph →
                (l ++ [t.delivery]).foldl clientEv ph = ph := by
              intro l ph hl
              rw [List.foldl_append, hl]
              unfold Thread.delivery
              cases t.wait <;> cases ph.2 <;> rfl
            have : ∀ l : List Event, client l = some (p, h) → client (l ++ [t.delivery]) = some (p, h) := by
              intro l
              induction l with
              | nil => intro hl; simp [client] at hl
              | cons e es ihl =>
                intro hl
                cases e with
                | src s lazy head =>
                  simp only [client, List.cons_append] at hl ⊢
                  split at hl
                  · rename_i hwf; simp only [hwf, ite_true]; exact ihl hl
                  · rename_i hwf
                    simp only [hwf, Bool.false_eq_true, ite_false, Option.some.injEq] at hl ⊢
                    rw [List.foldl_append, hl]
                    unfold Thread.delivery
                    cases t.wait <;> cases h <;> rfl
                | attach s => simp only [client, List.cons_append] at hl ⊢; exact ihl hl
                | set q => simp only [client, List.cons_append] at hl ⊢; exact ihl hl
                | call k => simp only [client, List.cons_append] at hl ⊢; exact ihl hl
                | start k => simp only [client, List.cons_append] at hl ⊢; exact ihl hl
                | dropFuture => simp only [client, List.cons_append] at hl ⊢; exact ihl hl
                | get => simp only [client, List.cons_append] at hl ⊢; exact ihl hl
            exact this evs' hc'
          have hrun : run cfg {} (evs' ++ [t.delivery]) = mech cfg (run cfg {} evs') t.delivery := by
            simp [run, List.foldl_append]
          obtain ⟨evs'', h1, h2⟩ := ih (evs' ++ [t.delivery]) hcl2
          exact ⟨evs'', h1, by rw [← h2, hrun]⟩
        | idle => exact ⟨evs', hc', rfl⟩
        | task src steps => exact ⟨evs', hc', rfl⟩
        | future r inh => exact ⟨evs', hc', rfl⟩
        | gone => exact ⟨evs', hc', rfl⟩
  obtain ⟨evs'', h1, h2⟩ := hreach (run cfg {} evs).measure evs hcl
  have hnc : (run cfg {} evs'').crashed = false := by
    have hi2 := inv_run cfg evs''
    rw [h1] at hi2
    exact hi2.1
  cases comes_to_rest cfg _ (run cfg {} evs) (Nat.le_refl _) with
  | inl hcr => rw [h2, hnc] at hcr; cases hcr
  | inr hrest => exact hrest

/-! ### non-vacuity -/

def cfgEx : Cfg := fun k => if k = 2 then ⟨true, some 1⟩ else if k = 3 then ⟨false, none⟩ else ⟨true, none⟩

/-- e1 queue, e2 queue accepting one Submit, e3 inline-type.  Steps on e1, inherited e1, e3, e2 (accepted), e2 (rejected) -/
def exEvents : List Event :=
  [.src (.contractOn (.user 1) 0 (.set (.val 1))) false none,
   .attach (.mk 1 .val .inherit (.val 1)),
   .attach (.mk 2 .val .inline (.val 1)),
   .attach (.mk 3 .val .inherit (.val 1)),
   .attach (.mk 4 .val (.on (.user 3)) (.val 1)),
   .attach (.mk 5 .val (.on (.user 2)) (.val 1)),
   .attach (.mk 6 .val (.on (.user 2)) (.val 1)),
   .attach (.mk 7 .err .inherit (.val 40)),
   .set 0, .call 1, .call 1, .call 2]

example : (run cfgEx {} exEvents).result = some (.val 40) ∧
    (run cfgEx {} exEvents).g.ran.map (fun x => (x.id, x.ctx)) =
      [(1, some 1), (2, some 1), (3, some 1), (4, some 3), (5, some 2), (7, some 2)] ∧
    (run cfgEx {} exEvents).g.subs = [1, 1, 3, 2, 2, 2] ∧
    (run cfgEx {} exEvents).g.jobs = [(0, true), (1, true), (2, true), (3, true), (4, false), (5, false)] := by
  decide +kernel

/-! ### jobs that are not pipeline steps: `yaclib::Submit(executor, f)` (exe/submit.hpp, Model/FreeJob.lean)

For ALL executor configurations and ALL sequences of `Submit(e, f_id)` / `call k` events. -/

section FreeJobs
open Yaclib.FreeJob
variable (fevs : List FEvent)

/-- every functor handed to Submit(e, f) is in exactly one place: invoked (Call), destroyed without being invoked (Drop), or
    still lying in a queue — counted per functor number, so a functor submitted once is never both called and dropped, never
    called twice, never lost -/
theorem free_job_one_place (id : Nat) :
    (frun cfg {} fevs).submitted.count id =
      (frun cfg {} fevs).called.count id + (frun cfg {} fevs).dropped.count id + (frun cfg {} fevs).queued.count id :=
  (finv_run cfg fevs {} finv_init).place id

/-- Called xor Dropped: once no job is queued any more, a functor that was submitted once was either called once and not
    dropped, or dropped once and not called -/
theorem free_job_called_xor_dropped (id : Nat) (hq : (frun cfg {} fevs).queue = [])
    (h1 : (frun cfg {} fevs).submitted.count id = 1) :
    ((frun cfg {} fevs).called.count id = 1 ∧ (frun cfg {} fevs).dropped.count id = 0) ∨
    ((frun cfg {} fevs).called.count id = 0 ∧ (frun cfg {} fevs).dropped.count id = 1) := by
  have h := free_job_one_place cfg fevs id
  simp only [FState.queued, hq, List.map_nil, List.count_nil] at h
  omega

/-- Drop happens only — and always — when the executor refused the Submit (stopped inline executor, or a user executor past
    its limit): the dropped functors are exactly the refused ones, in order -/
theorem free_job_dropped_iff_refused : (frun cfg {} fevs).dropped = (frun cfg {} fevs).refused :=
  (finv_run cfg fevs {} finv_init).dropRef

/-- the callbacks that ran are the called functors, in order: nothing else is invoked -/
theorem free_job_invoked_eq_called : (frun cfg {} fevs).g.invoked = (frun cfg {} fevs).called :=
  (finv_run cfg fevs {} finv_init).inv

/-- `Submit(MakeInline(StopTag{}), f)`: f is destroyed without being invoked, inside the Submit -/
theorem free_job_stopped_inline_drops (s : FState) (id : Nat) (o : Outcome) :
    (fmech cfg s (.submit .stp id o)).called = s.called ∧
    (fmech cfg s (.submit .stp id o)).g.invoked = s.g.invoked ∧
    (fmech cfg s (.submit .stp id o)).dropped = s.dropped ++ [id] ∧
    (fmech cfg s (.submit .stp id o)).queue = s.queue := by
  simp [fmech, submitId, submit]

/-- `Submit(MakeInline(), f)`: f is invoked inside the Submit, in the caller's context -/
theorem free_job_inline_calls (s : FState) (id : Nat) (o : Outcome) :
    (fmech cfg s (.submit .inl id o)).called = s.called ++ [id] ∧
    (fmech cfg s (.submit .inl id o)).g.invoked = s.g.invoked ++ [id] ∧
    (fmech cfg s (.submit .inl id o)).dropped = s.dropped := by
  simp [fmech, submitId, submit, G.invoke]

/-- **a free job owns a COPY of its functor, taken at the Submit**: `Submit(e, f_n)` with a named (lvalue) functor is the
    Submit of a functor owning the state f_n has AT THAT MOMENT, and leaves the caller's f_n as it is (seeded r2b-2:
    `std::move(f)` guts it).  The job's state sits in the queue entry … -/
theorem free_job_lvalue_submit_copies (s : FState) (e : Exec) (n tag : Nat) (o : Outcome) (h : s.fns.lookup n = some tag) :
    fmech cfg s (.submitL e n) = fmech cfg s (.submit e tag o) ∧ (fmech cfg s (.submitL e n)).fns = s.fns := by
  constructor
  · simp [fmech, h]
  · simp only [fmech, h, submitId]
    cases submit cfg e none s.g <;> rfl

/-- … and nothing the client does to its own functor afterwards — changing its state, destroying it, creating another one
    under the same name — reaches a job that was submitted before: queue, log and ghost lists are untouched (seeded r2b-4:
    the job holds a REFERENCE to the caller's object and runs whatever it is by then) -/
theorem free_job_independent_of_caller_functor (s : FState) (n tag : Nat) (o : Outcome) :
    (∀ ev, ev = FEvent.change n tag ∨ ev = FEvent.kill n ∨ ev = FEvent.mk n tag o →
      (fmech cfg s ev).queue = s.queue ∧ (fmech cfg s ev).g = s.g ∧ (fmech cfg s ev).called = s.called ∧
      (fmech cfg s ev).dropped = s.dropped ∧ (fmech cfg s ev).submitted = s.submitted ∧
      (fmech cfg s ev).news = s.news ∧ (fmech cfg s ev).deletes = s.deletes) := by
  intro ev hev
  rcases hev with h | h | h <;> subst h <;> simp [fmech]

/-- a queued job runs with exactly the state it was queued with: the `call` logs the `id` stored in the queue entry -/
theorem free_job_runs_with_submitted_state (s : FState) (k : Nat) (j : QJob)
    (h : s.queue.find? (fun x => x.k == k) = some j) :
    (fmech cfg s (.call k)).called = s.called ++ [j.id] ∧ (fmech cfg s (.call k)).g.invoked = s.g.invoked ++ [j.id] := by
  simp [fmech, h, G.invoke, G.finishJob]

/-- **exceptions of the body are swallowed** (SafeCall::Call: `try { f() } catch (...) {}`): however the body ends —
    returning, throwing a std::exception, an int, a user struct — the transition is the same: the job counts as Called, the
    UniqueJob is deleted, the executor and every other job are undisturbed (seeded r2b-3: `catch (const std::exception&)`
    lets `throw 42` escape the noexcept Call ⇒ std::terminate) -/
theorem free_job_body_outcome_irrelevant (s : FState) (e : Exec) (id : Nat) (o : Outcome) :
    fmech cfg s (.submit e id o) = fmech cfg s (.submit e id .ret) := rfl

/-- exactly one allocation per Submit (the UniqueJob holding the functor), deleted exactly once when the job is finished -/
theorem free_job_deleted_once :
    (frun cfg {} fevs).news = (frun cfg {} fevs).submitted.length ∧
    (frun cfg {} fevs).news = (frun cfg {} fevs).deletes + (frun cfg {} fevs).queue.length ∧
    (frun cfg {} fevs).deletes = (frun cfg {} fevs).called.length + (frun cfg {} fevs).dropped.length := by
  have h := finv_run cfg fevs {} finv_init
  refine ⟨?_, h.del, h.fin⟩
  have : ∀ (evs : List FEvent) (s : FState), s.news = s.submitted.length →
      (frun cfg s evs).news = (frun cfg s evs).submitted.length := by
    intro evs
    induction evs with
    | nil => intro s hs; exact hs
    | cons ev evs ih =>
      intro s hs
      apply ih
      have hsub : ∀ e id, (submitId cfg s e id).news = (submitId cfg s e id).submitted.length := by
        intro e id
        simp only [submitId]
        cases submit cfg e none s.g <;> simp [hs]
      cases ev with
      | submit e id o => exact hsub e id
      | mk n tag o => simpa [fmech] using hs
      | submitL e n =>
        simp only [fmech]
        cases s.fns.lookup n with
        | none => exact hs
        | some tag => exact hsub e tag
      | change n tag => simpa [fmech] using hs
      | kill n => simpa [fmech] using hs
      | call k =>
        simp only [fmech]
        cases s.queue.find? (fun j => j.k == k) <;> simp [hs]
  exact this fevs {} rfl

/-- a queued job can always be finished: letting its executor run shrinks the queue (so `flush` empties it) -/
theorem free_job_can_finish (s : FState) (j : QJob) (rest : List QJob) (hq : s.queue = j :: rest) :
    (fmech cfg s (.call j.k)).queue.length < s.queue.length :=
  call_front_shrinks cfg s j rest hq

/-- non-vacuity: e1 queue, e2 queue accepting one Submit; inline, stopped inline, e1, e2 (accepted), e2 (refused) -/
example : let s := frun cfgEx {} [.submit .inl 1 .ret, .submit .stp 2 .ret, .submit (.user 1) 3 .throwInt,
                                  .submit (.user 2) 4 .throwStd, .submit (.user 2) 5 .ret, .call 2, .call 1]
    s.called = [1, 4, 3] ∧ s.dropped = [2, 5] ∧ s.queue = [] ∧ s.g.subs = [1, 2, 2] ∧
    s.g.jobs = [(2, false), (1, true), (0, true)] ∧ s.news = 5 ∧ s.deletes = 5 := by
  decide +kernel

/-- non-vacuity of the functor forms: the same named functor submitted three times to the queue e1, changed after the first
    Submit, destroyed before anything runs: the three jobs run with 7, 9, 9 -/
example : let s := frun cfgEx {} [.mk 0 7 .ret, .submitL (.user 1) 0, .change 0 9, .submitL (.user 1) 0, .submitL (.user 1) 0,
                                  .kill 0, .call 1, .call 1, .call 1]
    s.called = [7, 9, 9] ∧ s.fns = [] ∧ s.queue = [] ∧ s.news = 3 ∧ s.deletes = 3 := by
  decide +kernel

end FreeJobs

/-! ### the Inline and Manual executors as transition systems honour the `IExecutor` contract
(models and proofs: Proofs/StrandTowerInline.lean, Proofs/StrandTowerManual.lean; `ExecContract`: Proofs/StrandTower.lean;
used as bases of towers of strands in Props/C07) -/

/-- `MakeInline()` (`alive = true`) and `MakeInline(StopTag)` (`alive = false`): every submitted job is Called
    (resp. Dropped) exactly once, at once; Submit and the return of a body are never refused -/
theorem inline_executor_contract (alive : Bool) : Yaclib.Strand.ExecContract (Yaclib.Strand.inlineExec alive) :=
  Yaclib.Strand.inline_contract alive

/-- `ManualExecutor`: every submitted job is Called exactly once and never Dropped, provided its owner keeps calling
    `Drain()` while something is queued and does not destroy it before (there is no destructor that Drops the queue:
    `Yaclib.Strand.manual_destroy_leaks_witness`) -/
theorem manual_executor_contract : Yaclib.Strand.ExecContract (Yaclib.Strand.manualExec false) :=
  Yaclib.Strand.manual_contract

end Yaclib.Props.C05

namespace Yaclib.Props.C05.Tie
open Yaclib

theorem tie_Core_Impl : Extracted.Kernels.Core_Impl = Skeletons.Core_Impl := rfl
theorem tie_Core_Drop : Extracted.Kernels.Core_Drop = Skeletons.Core_Drop := rfl
theorem tie_TransferExecutorTo : Extracted.Kernels.BaseCore_TransferExecutorTo = Skeletons.BaseCore_TransferExecutorTo := rfl
theorem tie_Inline_Submit : Extracted.Kernels.Inline_Submit = Skeletons.Inline_Submit := rfl
theorem tie_Inline_Alive : Extracted.Kernels.Inline_Alive = Skeletons.Inline_Alive := rfl
theorem tie_Manual_Submit : Extracted.Kernels.Manual_Submit = Skeletons.Manual_Submit := rfl
theorem tie_Manual_Drain : Extracted.Kernels.Manual_Drain = Skeletons.Manual_Drain := rfl
theorem tie_FutureBase_ThenOn : Extracted.Kernels.FutureBase_ThenOn = Skeletons.FutureBase_ThenOn := rfl
theorem tie_FutureOn_ThenInherit : Extracted.Kernels.FutureOn_ThenInherit = Skeletons.FutureOn_ThenInherit := rfl
theorem tie_Future_ThenInline : Extracted.Kernels.Future_ThenInline = Skeletons.Future_ThenInline := rfl
theorem tie_FutureBase_DetachInline : Extracted.Kernels.FutureBase_DetachInline = Skeletons.FutureBase_DetachInline := rfl
theorem tie_FutureBase_DetachOn : Extracted.Kernels.FutureBase_DetachOn = Skeletons.FutureBase_DetachOn := rfl
theorem tie_FutureOn_DetachInherit : Extracted.Kernels.FutureOn_DetachInherit = Skeletons.FutureOn_DetachInherit := rfl
theorem tie_detail_Run : Extracted.Kernels.detail_Run = Skeletons.detail_Run := rfl
theorem tie_MakeContractOn : Extracted.Kernels.MakeContractOn = Skeletons.MakeContractOn := rfl
-- Share / Split / Connect, whole text
theorem tie_share_hpp : Extracted.Kernels.ShareSrc_share_hpp = Skeletons.ShareSrc_share_hpp := rfl
theorem tie_split_hpp : Extracted.Kernels.ShareSrc_split_hpp = Skeletons.ShareSrc_split_hpp := rfl
theorem tie_connect_hpp : Extracted.Kernels.ShareSrc_connect_hpp = Skeletons.ShareSrc_connect_hpp := rfl
-- free jobs (Model/FreeJob.lean)
theorem tie_Submit_free : Extracted.Kernels.Submit_free = Skeletons.Submit_free := rfl
theorem tie_MakeUniqueJob : Extracted.Kernels.MakeUniqueJob = Skeletons.MakeUniqueJob := rfl
theorem tie_UniqueJob_Call : Extracted.Kernels.UniqueJob_Call = Skeletons.UniqueJob_Call := rfl
theorem tie_UniqueJob_Drop : Extracted.Kernels.UniqueJob_Drop = Skeletons.UniqueJob_Drop := rfl
theorem tie_SafeCall_Call : Extracted.Kernels.SafeCall_Call = Skeletons.SafeCall_Call := rfl
theorem tie_safe_call_hpp : Extracted.Kernels.FreeSrc_safe_call_hpp = Skeletons.FreeSrc_safe_call_hpp := rfl
theorem tie_unique_job_hpp : Extracted.Kernels.FreeSrc_unique_job_hpp = Skeletons.FreeSrc_unique_job_hpp := rfl
theorem tie_submit_hpp : Extracted.Kernels.FreeSrc_submit_hpp = Skeletons.FreeSrc_submit_hpp := rfl
/-- the skeleton names what is caught: the handler is `catch(...)` with an empty body, the nothrow branch has no handler -/
theorem SafeCall_catches_everything : Extracted.Kernels.SafeCall_Call =
    "Call() { ifc (is_nothrow_invocable_v) { forward<Invoke>(_func)() } else { try { forward<Invoke>(_func)() } catch(...) {  } } }" := rfl

/-- T1: the CoreType flag sets of the attachment API: exactly the *Inline ones lack the Call bit -/
theorem api_flags :
    Extracted.Dispatch.isCall Extracted.Dispatch.apiFutureThen = true ∧
    Extracted.Dispatch.isCall Extracted.Dispatch.apiFutureOnThen = true ∧
    Extracted.Dispatch.isCall Extracted.Dispatch.apiFutureDetach = true ∧
    Extracted.Dispatch.isCall Extracted.Dispatch.apiFutureOnDetach = true ∧
    Extracted.Dispatch.isCall Extracted.Dispatch.apiTaskThen = true ∧
    Extracted.Dispatch.isCall Extracted.Dispatch.apiTaskThenInherit = true ∧
    Extracted.Dispatch.isCall Extracted.Dispatch.apiRun = true ∧
    Extracted.Dispatch.isCall Extracted.Dispatch.apiFutureThenInline = false ∧
    Extracted.Dispatch.isCall Extracted.Dispatch.apiFutureOnThenInline = false ∧
    Extracted.Dispatch.isCall Extracted.Dispatch.apiFutureDetachInline = false ∧
    Extracted.Dispatch.isCall Extracted.Dispatch.apiTaskThenInline = false := by decide

end Yaclib.Props.C05.Tie
