/-
C17 — fiber fault-injection runs are reproducible from their seed.

In Lean every function is pure, so "the run is a function of (program, seed, configuration)" holds of the model by
construction (`Sched.run` is a function; `run_deterministic` only records it).  The content is what makes the
*recorded pair* (random count, injector state) sufficient and what a model cannot show by construction:

* `draw_count_sufficient` — the engine state after any sequence of `GetRandNumber(max_i)` calls depends only on their
  number, so `ForwardToFaultRandomCount n` on a freshly seeded engine reproduces it (and `engine_determined_by_count`:
  the same in every reachable scheduler state, whatever mixture of injections, weak-CAS decisions, scheduler picks and
  timed-wait jitters consumed the draws);
* `time_shift_invariant` — every scheduling decision commutes with translating virtual time (a restored run starts at
  time 0) and ignores the absolute value of the draw counter;
* `restore_continues` — from a checkpoint at which only the continuing fiber exists, the run continued after
  `SetSeed; ForwardToFaultRandomCount(count); SetInjectorState(state)` in a fresh scheduler observes exactly what the
  original run observed after the checkpoint, for every client program;
* `get_element_total` — `BiList::GetElement` (behind every scheduler pick) is total: a member of the list for every
  non-empty list, index and direction, `nullptr` only for the empty list, with its exact index law;
* `lint_clean` — the fault layer (FIBER configuration) reads no real clock, `random_device`, address-as-integer,
  pointer order, unordered-container iteration order, `std::hash` or `%p`.

Residual (stated in the evidence): that the C++ code has no *other* hidden input (addresses, real time, iteration order
of hash containers) cannot be exhibited by a model; it is covered by `lint_clean` and by the perturbed re-runs of the
check (harness/c17.cpp).  Integers are natural numbers (no wrap-around of `_time`, `sRandCount`).
-/
import YaclibModel.Proofs.FiberSchedShift
import YaclibModel.Proofs.FiberSchedOrder
import YaclibModel.Extracted.Kernels
import YaclibModel.Model.Skeletons

namespace Yaclib.Props.C17
open Yaclib Yaclib.Sched Yaclib.SchedImp

section
variable {E F Q : Type} [DecidableEq F] [DecidableEq Q]

/-- the (counter, engine) pair after a sequence of `GetRandNumber(max)` calls -/
def drawAll (en : Engine E) (rc : Nat) (e : E) (maxs : List Nat) : Nat × E :=
  maxs.foldl (fun g m => ((Extracted.FiberSched.GetRandNumber en.draw g.1 g.2 m).1,
                          (Extracted.FiberSched.GetRandNumber en.draw g.1 g.2 m).2.1)) (rc, e)

theorem drawAll_eq (en : Engine E) (rc : Nat) (e : E) (maxs : List Nat) :
    drawAll en rc e maxs = (rc + maxs.length, en.after maxs.length e) := by
  unfold drawAll
  induction maxs generalizing rc e with
  | nil => rfl
  | cons m rest ih =>
    simp only [List.foldl_cons, List.length_cons]
    rw [ih]
    simp only [GetRandNumber_eq, Engine.after]
    congr 1; omega

/-- **(i)** whatever the arguments `max_i` were (in C++ they must be positive: `max = 0` divides by zero and the
    process does not continue), the counter and the engine after the calls made since `SetSeed(seed)` are reproduced by
    `SetSeed(seed); ForwardToRandCount(counter)` — the counter as `GetRandCount` reports it: `SetSeed` resets it
    (since /repo f49f13c), so nothing that was drawn before `SetSeed` enters -/
theorem draw_count_sufficient (en : Engine E) (seed : Nat) (maxs : List Nat) :
    let r := Extracted.FiberSched.SetSeed en.seed seed
    Extracted.FiberSched.ForwardToRandCount en.draw r.2.1 r.2.2 (drawAll en r.2.1 r.2.2 maxs).1
      = drawAll en r.2.1 r.2.2 maxs := by
  simp only [drawAll_eq, ForwardToRandCount_eq, Extracted.FiberSched.SetSeed, Nat.zero_add]

/-- `SetSeed` overwrites the draw counter and the engine: a run started by `SetSeed(seed); SetInjectorState(c0)` on a fresh
    scheduler is the same state after **any** prefix of draws in the process (`rc`, `e`, `cnt`: whatever was left behind) -/
theorem init_after_any_prefix (en : Engine E) (rc : Nat) (e : E) (cnt seed c0 : Nat) :
    reseed en (leftover rc e cnt : St E F Q) seed c0 = init en seed c0 :=
  reseed_leftover en rc e cnt seed c0

/-- … and in the scheduler as a whole: in every reachable state the engine is the seeded engine advanced by the draw
    counter as `GetFaultRandomCount()` reports it, whichever decisions consumed the draws -/
theorem engine_determined_by_count (en : Engine E) (cfg : Cfg) (seed c0 : Nat) {s : St E F Q}
    (h : Reachable en cfg seed c0 s) : s.eng = en.after s.rc (en.seed seed) :=
  engAt_reachable en cfg seed c0 h

/-- every call adds to the counter exactly the number of draws it makes -/
theorem count_tracks_draws (en : Engine E) (cfg : Cfg) (s : St E F Q) (r : Req F Q) :
    ∃ j, (step en cfg s r).1.rc = s.rc + j ∧ (step en cfg s r).1.eng = en.after j s.eng :=
  step_adv en cfg s r

/-- **(iii)** one call: translating virtual time by `d` (sleep map keys, pending deadlines) and offsetting the draw
    counter by `k` before the call = doing it after the call; the observations are identical -/
theorem time_shift_invariant_step (en : Engine E) (cfg : Cfg) (d k : Nat) (s : St E F Q) (r : Req F Q) :
    step en cfg (shift d k s) r = (shift d k (step en cfg s r).1, (step en cfg s r).2) :=
  step_shift en cfg d k s r

/-- **(iii)** whole runs, every client program -/
theorem time_shift_invariant (en : Engine E) (cfg : Cfg) (client : Client F Q) (d k n : Nat) (s : St E F Q)
    (obs : List (Out F)) :
    run en cfg client n (shift d k s) obs = (shift d k (run en cfg client n s obs).1, (run en cfg client n s obs).2) :=
  run_shift en cfg client d k n s obs

/-- **(ii)** checkpoint / restore.  `s` is any state of a run started by `SetSeed(seed); SetInjectorState(c0)` — after any
    prefix of draws in the recording process (`init_after_any_prefix`) — in which only fiber `f` exists; the recorded pair is
    exactly what the API reports, `(GetFaultRandomCount(), GetInjectorState()) = (s.rc, s.count)`.  `s0` is any state of
    another scheduler (another process, whatever it drew before) in which only `f` exists.  Then, for every client
    program, the run continued from `s0` after `SetSeed(seed); ForwardToFaultRandomCount(s.rc); SetInjectorState(s.count)`
    observes exactly what the original run observes from `s`, and `GetFaultRandomCount()` shows `s.rc` again.
    (Before /repo f49f13c `SetSeed` left the counter alone and the theorem needed the offset `s.rc - rc0`: former F3, see
    the comment below.) -/
theorem restore_continues (en : Engine E) (cfg : Cfg) (seed c0 : Nat) {s : St E F Q} {f : F}
    (hr : Reachable en cfg seed c0 s) (hl : Lone s f)
    (s0 : St E F Q) (hl0 : Lone s0 f) (hp : s0.pause = s.pause)
    (client : Client F Q) (n : Nat) (obs : List (Out F)) :
    (run en cfg client n (restore en s0 seed s.rc s.count) obs).2 = (run en cfg client n s obs).2 ∧
    (restore en s0 seed s.rc s.count).rc = s.rc :=
  ⟨restore_run en cfg seed c0 hr hl s0 hl0 hp client n obs, restore_rc en s0 seed s.rc s.count⟩

/-- determinism, for the record: a run is a function of (client program, seed, configuration, injector state) -/
theorem run_deterministic (en : Engine E) (cfg : Cfg) (client : Client F Q) (seed c0 n : Nat) :
    ∀ r₁ r₂, r₁ = run en cfg client n (init en seed c0) [] → r₂ = run en cfg client n (init en seed c0) [] →
      r₁ = r₂ := by
  intro r₁ r₂ h₁ h₂; rw [h₁, h₂]

/-- an in-process re-run (`SetSeed(seed); SetInjectorState(c0)` again on a fresh scheduler) is the *same run* — same
    observations, same final state, same reported counts — whatever the earlier runs left in the draw counter, the
    engine and the injector -/
theorem rerun_same_process (en : Engine E) (cfg : Cfg) (client : Client F Q) (seed c0 n : Nat)
    (rc rc' : Nat) (e e' : E) (cnt cnt' : Nat) :
    run en cfg client n (reseed en (leftover rc' e' cnt' : St E F Q) seed c0) [] =
      run en cfg client n (reseed en (leftover rc e cnt) seed c0) [] := by
  rw [reseed_leftover, reseed_leftover]

/-! former F3, fixed in /repo f49f13c (`sRandCount = 0;` in `detail::SetSeed`): `SetSeed` did not reset the draw counter while
    `ForwardToFaultRandomCount(n)` draws `n` *more* numbers, so a `(GetFaultRandomCount(), GetInjectorState())` pair recorded
    in a process that had drawn numbers before `SetSeed` did not restore in a fresh process.  Minimal program (public API,
    outside fibers): `SetFaultFrequency(3)`; 20 `InjectFault` decisions; `SetSeed(42); SetInjectorState(0)`; 30 decisions;
    record the pair; 64 decisions = original; `SetSeed(42); ForwardToFaultRandomCount(count); SetInjectorState(state)`; the
    next 64 decisions differed (harness lines `c17 pure … F3`, `rec … warm=1`).  The harness keeps both as armed monitors. -/

end

/-- **(iv)** `BiList::GetElement` on a list of `n` elements: `nullptr` exactly when the list is empty; otherwise the
    element at front position `indexLaw n ind reversed`, which is a position of the list -/
theorem get_element_total (n ind : Nat) (reversed : Bool) :
    Extracted.FiberSched.BiList.GetElement n ind reversed = (if n = 0 then none else some (indexLaw n ind reversed)) ∧
    (0 < n → indexLaw n ind reversed < n) :=
  ⟨GetElement_eq n ind reversed, fun h => indexLaw_lt h ind reversed⟩

/-- … on actual lists: a member of the list for every non-empty list, every index and both directions -/
theorem get_element_member {α : Type} (l : List α) (hl : l ≠ []) (ind : Nat) (reversed : Bool) :
    ∃ i x, Extracted.FiberSched.BiList.GetElement l.length ind reversed = some i ∧ l[i]? = some x ∧ x ∈ l := by
  have hn : 0 < l.length := List.length_pos_iff.mpr hl
  have hlt := indexLaw_lt hn ind reversed
  refine ⟨indexLaw l.length ind reversed, l[indexLaw l.length ind reversed], ?_, ?_, ?_⟩
  · rw [GetElement_eq]; simp; omega
  · exact List.getElem?_eq_getElem hlt
  · exact List.getElem_mem hlt

/-- hence the scheduler's pick (`PollRandomElementFromList`) always yields a fiber of a non-empty list, whatever
    the engine draws and whatever the pick width is — `GetNext` / `NotifyOne` never dereference `nullptr` on a
    non-empty list -/
theorem poll_total {E F : Type} (en : Engine E) (cfg : Cfg) (rc : Nat) (e : E) (l : List F) (hl : l ≠ []) :
    ∃ f rest, (poll en cfg rc e l).2.2 = some (f, rest) ∧ f ∈ l ∧ rest.length + 1 = l.length := by
  have hn : 0 < l.length := List.length_pos_iff.mpr hl
  simp only [poll, Extracted.FiberSched.PollRandomElementFromList, GetRandNumber_eq, GetElement_eq]
  have hne : l.length ≠ 0 := by omega
  simp only [hne, if_false, takeAt]
  generalize hidx : indexLaw l.length _ _ = i
  have hlt : i < l.length := by rw [← hidx]; exact indexLaw_lt hn _ _
  refine ⟨l[i], l.eraseIdx i, ?_, List.getElem_mem hlt, ?_⟩
  · simp [List.getElem?_eq_getElem hlt]
  · rw [List.length_eraseIdx]; simp [hlt]; omega

/-! fibers with equal virtual wake-up times: the order is insertion order, nothing else -/

/-- `WakeUpNeeded` moves the due buckets to the run queue in key order, each bucket in push order -/
theorem wake_up_in_key_then_push_order {F : Type} (t : Nat) (sl : List (Nat × List F)) :
    (wakeUp t sl).1 = ((sl.takeWhile (fun kb => decide (kb.1 ≤ t))).map (·.2)).flatten :=
  wakeUp_order t sl

/-- two fibers that go to sleep until the same virtual time (`sleep_until` with a common deadline, periodic workers on a
    common grid), `g` after `f`, in any sorted sleep map: the bucket of that time is `… ++ [f, g]` — they are woken in the
    order in which they went to sleep (and `sleepInsert` keeps the map sorted: `sleepInsert_spec`) -/
theorem wake_up_ties_in_insertion_order {F : Type} (ns : Nat) (f g : F) (sl : List (Nat × List F)) (hs : SortedKeys sl) :
    (sleepInsert ns g (sleepInsert ns f sl)).lookup ns = some ((sl.lookup ns).getD [] ++ [f, g]) :=
  equal_wake_up_time_is_insertion_order ns f g sl hs

/-- … and every reachable sleep map is sorted (one bucket per wake-up time, ascending), so the above holds in every
    reachable state -/
theorem sleep_map_sorted {E F Q : Type} [DecidableEq F] [DecidableEq Q] (en : Engine E) (cfg : Cfg) (seed c0 : Nat)
    {s : St E F Q} (h : Reachable en cfg seed c0 s) : SortedKeys s.sleep :=
  sorted_reachable en cfg seed c0 h

/-- the two branches of the index law disagree about "reversed": in range `ind` counts from the back, out of range the
    wrapped index counts from the front and is then negated — `ind = n` reversed is the front element, `ind = n + 1`
    reversed the *back* element.  Deterministic all the same; recorded because it is not what the documentation
    ("prefix and suffix of the queue") suggests. -/
example : indexLaw 3 2 true = 0 ∧ indexLaw 3 3 true = 0 ∧ indexLaw 3 4 true = 2 ∧ indexLaw 3 4 false = 1 := by decide

/-! the injector -/

/-- the injector counter never leaves the 32-bit range (so the explicit `static_cast<uint32_t>` and the `uint32_t`
    counter itself never wrap) -/
theorem injector_count_bounded {E : Type} (draw : E → E × Nat) (rc : Nat) (e : E) (c : Nat) (p : Bool) (f : Nat)
    (hf : f < 4294967296) (hc : c < 4294967296) :
    (Extracted.FiberSched.Injector.NeedInject draw rc e c p f).2.2.1 < 4294967296 :=
  NeedInject_count_lt draw rc e c p f hf hc

/-- with frequency 0 `compare_exchange_weak` never fails spuriously and consumes no draw -/
theorem fail_weak_zero_frequency {E : Type} (draw : E → E × Nat) (rc : Nat) (e : E) :
    Extracted.FiberSched.ShouldFailAtomicWeak draw rc e 0 = (rc, e, false) := by
  rw [ShouldFailAtomicWeak_eq]; simp

/-! T1: constants and lint -/

theorem defaults :
    (Extracted.FiberSched.default_sSeed, Extracted.FiberSched.default_sYieldFrequency,
     Extracted.FiberSched.default_sSleepTime, Extracted.FiberSched.default_sAtomicFailFrequency,
     Extracted.FiberSched.default_sTickLength, Extracted.FiberSched.default_sRandomListPick,
     Extracted.FiberSched.default_sRandCount, Extracted.FiberSched.default_sInjectedCount,
     Extracted.FiberSched.default_Scheduler_time, Extracted.FiberSched.default_Injector_count,
     Extracted.FiberSched.default_Injector_pause) = (1239, 16, 100, 13, 10, 10, 0, 0, 0, 0, false) := rfl

/-- one engine per OS thread, constructed from the seed -/
theorem engine_decl :
    Extracted.FiberSched.engineDecl = ("std::mt19937_64", "static", "dynamic", "init(sSeed)") := by decide

/-- the fault layer reads none of the forbidden sources (production configuration of the FIBER build) -/
theorem lint_clean : Extracted.FiberSched.lintHits = [] := by decide

/-- the only additional hit under `YACLIB_VERIF` is the trace hooks' `ToWord` (reports pointer-valued atomics to the
    trace callback; never feeds a decision) -/
theorem lint_verif_only :
    Extracted.FiberSched.lintHitsVerifOnly =
      [("include/yaclib/fault/verif.hpp", 55, "pointer-to-integer-cast: std::uintptr_t")] := by decide

/-- every clock name of `yaclib_std::chrono` is the virtual clock of the fiber scheduler in the FIBER configuration
    (`SystemClock::now()` reads `Scheduler::GetTimeNs()`, tie `Sched_SystemClock_now`): a deadline `Clock::now() + d` of any of
    them is a virtual deadline, and no real clock can enter through a clock name -/
theorem clocks_are_virtual :
    Extracted.FiberSched.clockAliases =
      [("high_resolution_clock", "yaclib::detail::fiber::SystemClock"),
       ("steady_clock", "yaclib::detail::fiber::SystemClock"),
       ("system_clock", "yaclib::detail::fiber::SystemClock")] := by decide

/-- the lint is not vacuous: it walked the scheduler, the injector, the engine, the clock and the TLS maps -/
theorem lint_covers :
    ["src/fault/fiber/scheduler.cpp", "src/fault/injector.cpp", "src/fault/util.cpp", "src/fault/atomic.cpp",
     "src/fault/fiber/queue.cpp", "src/fault/fiber/bidirectional_intrusive_list.cpp", "src/fault/fiber/system_clock.cpp",
     "src/fault/fiber/fiber_base.cpp", "src/fault/fiber/thread_local_proxy.cpp", "src/fault/random_device.cpp",
     "include/yaclib/fault/detail/fiber/scheduler.hpp", "include/yaclib/fault/detail/fiber/queue.hpp",
     "include/yaclib/fault/detail/fiber/fiber_base.hpp", "include/yaclib_std/detail/clock.hpp",
     "include/yaclib_std/detail/this_thread.hpp"].all (fun f => Extracted.FiberSched.lintFiles.contains f) = true := by
  decide

theorem translator_notes :
    Extracted.FiberSched.translatorNotes =
      ["PollRandomElementFromList: the returned node `next` is unlinked from the list (Node::Erase)"] := by decide


/-! non-vacuity: a concrete engine (64-bit LCG), a concrete configuration, concrete runs through `step` -/

def lcg : Engine Nat :=
  { seed := fun s => s,
    draw := fun e => ((e * 6364136223846793005 + 1442695040888963407) % 18446744073709551616,
                      (e * 6364136223846793005 + 1442695040888963407) % 18446744073709551616 / 8589934592) }

def steps (cfg : Cfg) (s : St Nat Nat Nat) (reqs : List (Req Nat Nat)) : St Nat Nat Nat × List (Out Nat) :=
  reqs.foldl (fun so r => match so with
    | (s, o) => match step lcg cfg s r with
      | (s', o') => (s', o ++ o')) (s, [])

def cfg1 : Cfg := { yieldFreq := 2, sleepTime := 5, failFreq := 2, tick := 10, pick := 2 }

/-- phase 1: the root starts, spawns two fibers, injection points, a weak CAS, the others finish -/
def phase1 : List (Req Nat Nat) :=
  [.spawn 0, .spawn 1, .spawn 2, .inject, .inject, .inject, .failWeak, .inject, .yield, .exit, .inject, .inject, .exit,
   .inject, .failWeak]

/-- phase 2 (the continuation): new fibers, a timed wait that is notified, a sleep, injected yields, weak CASes -/
def phase2 : List (Req Nat Nat) :=
  [.inject, .spawn 5, .spawn 6, .inject, .inject, .parkFor 9 25, .inject, .failWeak, .notifyOne 9, .inject, .sleepFor 40,
   .inject, .inject, .exit, .inject, .inject, .inject, .exit, .failWeak, .inject]

/-- the run of phase 1: switches, two injected yields, no spurious failure -/
example : (steps cfg1 (init lcg 42 0) phase1).2 =
    [.resumed 0 none, .unit, .unit, .flag false, .flag false, .flag true, .resumed 0 none, .flag false, .flag false,
     .resumed 0 none, .resumed 1 none, .flag false, .flag true, .resumed 1 none, .resumed 2 none, .flag false,
     .flag false] := by decide +kernel

/-- at the checkpoint only fiber 2 exists; 10 draws were made, the injector counter is 2, virtual time is 60 -/
def ckpt : St Nat Nat Nat := (steps cfg1 (init lcg 42 0) phase1).1
example : ckpt.rc = 10 ∧ ckpt.count = 2 ∧ ckpt.time = 60 ∧ ckpt.queue = [] ∧ ckpt.sleep = [] ∧ ckpt.cur = some 2 := by
  decide +kernel

/-- the continuation is not trivial: injected yields, a notified timed wait, picks among three runnable fibers -/
example : (steps cfg1 ckpt phase2).2 =
    [.flag true, .resumed 2 none, .unit, .unit, .flag false, .flag false, .resumed 6 none, .flag true, .resumed 6 none,
     .flag true, .unit, .flag false, .resumed 2 (some false), .flag false, .flag true, .resumed 2 none, .resumed 5 none,
     .flag false, .flag false, .flag true, .resumed 5 none, .resumed 6 none, .flag false, .flag false] := by
  decide +kernel

/-- restore in another "process" (other seed until the restore; its root fiber start consumed a draw and a tick):
    the continuation observes exactly the same -/
def fresh : St Nat Nat Nat := (steps cfg1 (init lcg 1239 0) [.spawn 2]).1
example : (fresh.rc, fresh.time, fresh.cur) = (1, 10, some 2) := by decide +kernel
example : (steps cfg1 (restore lcg fresh 42 ckpt.rc ckpt.count) phase2).2 = (steps cfg1 ckpt phase2).2 := by
  decide +kernel

/-- … and both halves of the recorded pair are needed -/
example : (steps cfg1 (restore lcg fresh 42 ckpt.rc 0) phase2).2 ≠ (steps cfg1 ckpt phase2).2 ∧
    (steps cfg1 (restore lcg fresh 42 (ckpt.rc + 1) ckpt.count) phase2).2 ≠ (steps cfg1 ckpt phase2).2 := by
  decide +kernel

/-- `run` with a reactive client (yield until six observations were made) -/
example : (run lcg cfg1 (fun obs => if obs.length < 6 then some (if obs.length = 1 then .spawn 1 else .yield) else none) 20
    (init lcg 7 0 : St Nat Nat Nat) []).2.length = 6 := by decide +kernel


/-! the two scheduler defects that used to be modelled as `Out.ub`, fixed in /repo 33a96a1 — kept as comments:

    D12 (`RunLoop` called `GetNext` on an empty run queue → `GetElement` → `nullptr->Erase()`): a timed waiter notified
    before its deadline and resumed in the tick that crosses the deadline left an empty bucket in the sleep map
    (`SleepPreemptive` cleaned up only `if (_time <= ns)`); when every remaining fiber slept, `AdvanceTime` did nothing (the
    stale key was in the past), `WakeUpNeeded` woke nobody and `GetNext` polled an empty list.  Exhibited by
    `SetFaultSleepTime(5)`, `[spawn 0, spawn 1, parkFor 9 15, notifyOne 9, sleepFor 1000, sleepFor 1000]`
    (former theorem `getnext_on_empty_queue_witness`) and by 2 of 400 random scheduler scripts of harness/c17.cpp.
    Fix: the bucket is dropped whatever the time is, and `RunLoop` has `if (_queue.Empty()) continue;`.

    D8 (`SleepPreemptive` dereferenced `_sleep_list.end()`): a timed wait whose jittered deadline equals the current time
    returned from `Sleep` at once and then looked up a bucket that was never created.  Exhibited by `SetFaultSleepTime(1)`,
    `[spawn 0, parkFor 9 0]` (former theorem `sleep_preemptive_end_deref_witness`).  Fix: `it != end() &&`. -/

section
variable {E F Q : Type} [DecidableEq F] [DecidableEq Q]

/-- the run loop never calls `GetNext` on an empty run queue and never gives up with work pending: in **every** state
    (reachable or not, stale empty buckets included) one pass of `RunLoop` ends in a resumed fiber or in `idle` -/
theorem getnext_never_on_empty_queue (en : Engine E) (cfg : Cfg) (s : St E F Q) : Out.ub ∉ (dispatch en cfg s).2 :=
  dispatch_no_ub en cfg s

/-- the only undefined behaviour left is the client's: a blocking call made outside a fiber -/
theorem ub_only_outside_fiber (en : Engine E) (cfg : Cfg) (s : St E F Q) (r : Req F Q) (h : s.cur ≠ none) :
    Out.ub ∉ (step en cfg s r).2 :=
  step_ub_only_outside en cfg s r h

end

/-- the former D12 script now runs to completion -/
example : (steps { sleepTime := 5 } (init lcg 1 0)
      [.spawn 0, .spawn 1, .parkFor 9 15, .notifyOne 9, .sleepFor 1000, .sleepFor 1000, .exit, .exit]).2 =
    [.resumed 0 none, .unit, .resumed 1 none, .unit, .resumed 0 (some false), .resumed 1 none, .resumed 0 none, .idle] := by
  decide +kernel

/-- the former D8 script: an immediate timeout, nothing else -/
example : (steps { sleepTime := 1 } (init lcg 1 0) [.spawn 0, .parkFor 9 0, .exit]).2 =
    [.resumed 0 none, .flag true, .idle] := by decide +kernel

/-- `if (_queue.Empty()) continue;`: a stale empty bucket in the past, the only sleeper in the future — the loop goes
    round once (no tick, no draw), `AdvanceTime` then jumps to the real sleeper -/
example : let d := dispatch lcg {} ({ (init lcg 1 0 : St Nat Nat Nat) with time := 10, sleep := [(5, []), (50, [7])] })
    (d.2, d.1.time, d.1.sleep, d.1.rc) = ([.resumed 7 none], 60, [], 1) := by decide +kernel

/-! T2: the kernel skeletons the model was written from -/

theorem tie_Sched_RunLoop : Extracted.Kernels.Sched_RunLoop = Skeletons.Sched_RunLoop := rfl
theorem tie_Sched_Schedule : Extracted.Kernels.Sched_Schedule = Skeletons.Sched_Schedule := rfl
theorem tie_Sched_GetNext : Extracted.Kernels.Sched_GetNext = Skeletons.Sched_GetNext := rfl
theorem tie_Sched_RescheduleCurrent : Extracted.Kernels.Sched_RescheduleCurrent = Skeletons.Sched_RescheduleCurrent := rfl
theorem tie_Sched_Suspend : Extracted.Kernels.Sched_Suspend = Skeletons.Sched_Suspend := rfl
theorem tie_Sched_Sleep : Extracted.Kernels.Sched_Sleep = Skeletons.Sched_Sleep := rfl
theorem tie_Sched_SleepPreemptive : Extracted.Kernels.Sched_SleepPreemptive = Skeletons.Sched_SleepPreemptive := rfl
theorem tie_Sched_WakeUpNeeded : Extracted.Kernels.Sched_WakeUpNeeded = Skeletons.Sched_WakeUpNeeded := rfl
theorem tie_Sched_AdvanceTime : Extracted.Kernels.Sched_AdvanceTime = Skeletons.Sched_AdvanceTime := rfl
theorem tie_Sched_TickTime : Extracted.Kernels.Sched_TickTime = Skeletons.Sched_TickTime := rfl
theorem tie_Sched_GetTimeNs : Extracted.Kernels.Sched_GetTimeNs = Skeletons.Sched_GetTimeNs := rfl
theorem tie_Sched_PollRandomElementFromList : Extracted.Kernels.Sched_PollRandomElementFromList = Skeletons.Sched_PollRandomElementFromList := rfl
theorem tie_Sched_BiList_PushBack : Extracted.Kernels.Sched_BiList_PushBack = Skeletons.Sched_BiList_PushBack := rfl
theorem tie_Sched_BiList_PushAll : Extracted.Kernels.Sched_BiList_PushAll = Skeletons.Sched_BiList_PushAll := rfl
theorem tie_Sched_BiList_PopBack : Extracted.Kernels.Sched_BiList_PopBack = Skeletons.Sched_BiList_PopBack := rfl
theorem tie_Sched_BiList_Empty : Extracted.Kernels.Sched_BiList_Empty = Skeletons.Sched_BiList_Empty := rfl
theorem tie_Sched_BiList_GetElement : Extracted.Kernels.Sched_BiList_GetElement = Skeletons.Sched_BiList_GetElement := rfl
theorem tie_Sched_BiList_MoveAssign : Extracted.Kernels.Sched_BiList_MoveAssign = Skeletons.Sched_BiList_MoveAssign := rfl
theorem tie_Sched_Node_Erase : Extracted.Kernels.Sched_Node_Erase = Skeletons.Sched_Node_Erase := rfl
theorem tie_Sched_Queue_Wait : Extracted.Kernels.Sched_Queue_Wait = Skeletons.Sched_Queue_Wait := rfl
theorem tie_Sched_Queue_WaitTimed : Extracted.Kernels.Sched_Queue_WaitTimed = Skeletons.Sched_Queue_WaitTimed := rfl
theorem tie_Sched_Queue_NotifyOne : Extracted.Kernels.Sched_Queue_NotifyOne = Skeletons.Sched_Queue_NotifyOne := rfl
theorem tie_Sched_Queue_NotifyAll : Extracted.Kernels.Sched_Queue_NotifyAll = Skeletons.Sched_Queue_NotifyAll := rfl
theorem tie_Sched_Queue_ScheduleAndRemove : Extracted.Kernels.Sched_Queue_ScheduleAndRemove = Skeletons.Sched_Queue_ScheduleAndRemove := rfl
theorem tie_Sched_Thread_join : Extracted.Kernels.Sched_Thread_join = Skeletons.Sched_Thread_join := rfl
theorem tie_Sched_FiberBase_Exit : Extracted.Kernels.Sched_FiberBase_Exit = Skeletons.Sched_FiberBase_Exit := rfl
theorem tie_Sched_ScheduleFiber : Extracted.Kernels.Sched_ScheduleFiber = Skeletons.Sched_ScheduleFiber := rfl
theorem tie_Sched_SystemClock_now : Extracted.Kernels.Sched_SystemClock_now = Skeletons.Sched_SystemClock_now := rfl
theorem tie_Sched_this_thread_sleep : Extracted.Kernels.Sched_this_thread_sleep = Skeletons.Sched_this_thread_sleep := rfl
theorem tie_Sched_this_thread_sleep_for : Extracted.Kernels.Sched_this_thread_sleep_for = Skeletons.Sched_this_thread_sleep_for := rfl
theorem tie_Fault_InjectFault : Extracted.Kernels.Fault_InjectFault = Skeletons.Fault_InjectFault := rfl
theorem tie_Fault_MaybeInject : Extracted.Kernels.Fault_MaybeInject = Skeletons.Fault_MaybeInject := rfl
theorem tie_Fault_NeedInject : Extracted.Kernels.Fault_NeedInject = Skeletons.Fault_NeedInject := rfl
theorem tie_Fault_Reset : Extracted.Kernels.Fault_Reset = Skeletons.Fault_Reset := rfl
theorem tie_Fault_GetState : Extracted.Kernels.Fault_GetState = Skeletons.Fault_GetState := rfl
theorem tie_Fault_SetState : Extracted.Kernels.Fault_SetState = Skeletons.Fault_SetState := rfl
theorem tie_Fault_SetSeed : Extracted.Kernels.Fault_SetSeed = Skeletons.Fault_SetSeed := rfl
theorem tie_Fault_GetRandNumber : Extracted.Kernels.Fault_GetRandNumber = Skeletons.Fault_GetRandNumber := rfl
theorem tie_Fault_GetRandCount : Extracted.Kernels.Fault_GetRandCount = Skeletons.Fault_GetRandCount := rfl
theorem tie_Fault_ForwardToRandCount : Extracted.Kernels.Fault_ForwardToRandCount = Skeletons.Fault_ForwardToRandCount := rfl
theorem tie_Fault_ShouldFailAtomicWeak : Extracted.Kernels.Fault_ShouldFailAtomicWeak = Skeletons.Fault_ShouldFailAtomicWeak := rfl
theorem tie_Fault_cfg_ForwardToFaultRandomCount : Extracted.Kernels.Fault_cfg_ForwardToFaultRandomCount = Skeletons.Fault_cfg_ForwardToFaultRandomCount := rfl
theorem tie_Fault_cfg_GetFaultRandomCount : Extracted.Kernels.Fault_cfg_GetFaultRandomCount = Skeletons.Fault_cfg_GetFaultRandomCount := rfl
theorem tie_Fault_cfg_SetInjectorState : Extracted.Kernels.Fault_cfg_SetInjectorState = Skeletons.Fault_cfg_SetInjectorState := rfl
theorem tie_Fault_cfg_GetInjectorState : Extracted.Kernels.Fault_cfg_GetInjectorState = Skeletons.Fault_cfg_GetInjectorState := rfl
theorem tie_Fault_cfg_SetSeed : Extracted.Kernels.Fault_cfg_SetSeed = Skeletons.Fault_cfg_SetSeed := rfl

/-- T1 and T2 read the same bodies -/
theorem sources_agree :
    Extracted.FiberSched.source_Injector_NeedInject = Extracted.Kernels.Fault_NeedInject ∧
    Extracted.FiberSched.source_Injector_Reset = Extracted.Kernels.Fault_Reset ∧
    Extracted.FiberSched.source_GetRandNumber = Extracted.Kernels.Fault_GetRandNumber ∧
    Extracted.FiberSched.source_ForwardToRandCount = Extracted.Kernels.Fault_ForwardToRandCount ∧
    Extracted.FiberSched.source_SetSeed = Extracted.Kernels.Fault_SetSeed ∧
    Extracted.FiberSched.source_ShouldFailAtomicWeak = Extracted.Kernels.Fault_ShouldFailAtomicWeak ∧
    Extracted.FiberSched.source_BiList_GetElement = Extracted.Kernels.Sched_BiList_GetElement ∧
    Extracted.FiberSched.source_PollRandomElementFromList = Extracted.Kernels.Sched_PollRandomElementFromList ∧
    Extracted.FiberSched.source_Scheduler_TickTime = Extracted.Kernels.Sched_TickTime ∧
    Extracted.FiberSched.source_Scheduler_AdvanceTime = Extracted.Kernels.Sched_AdvanceTime ∧
    Extracted.FiberSched.source_Scheduler_WakeUpNeeded_stop = Extracted.Kernels.Sched_WakeUpNeeded ∧
    Extracted.FiberSched.source_Scheduler_Sleep_skip = Extracted.Kernels.Sched_Sleep ∧
    Extracted.FiberSched.source_Scheduler_SleepPreemptive_deadline = Extracted.Kernels.Sched_SleepPreemptive :=
  ⟨rfl, rfl, rfl, rfl, rfl, rfl, rfl, rfl, rfl, rfl, rfl, rfl, rfl⟩

end Yaclib.Props.C17
