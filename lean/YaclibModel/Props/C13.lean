/-
C13 — Coroutines resume once, after the awaited event, with its outcome, where asked.

Property theorems about the model `Yaclib.Coro` (Model/Coro.lean): ONE coroutine (returning Future / Task / SharedFuture) with
an arbitrary program of co_awaits (every awaiter of the library, any number of awaited objects, unique / shared / Task, any
outcomes), against an environment that fulfils the awaited objects at any moment, registers any number of foreign callbacks on
SharedFutures that have other observers (= the other coroutines awaiting the same SharedFuture), swaps executors in cores it can
reach, and Calls or Drops every submitted job.  All interleavings at atomic-operation granularity, stale pre-check loads included.
(The executor swap D12 and the cancelling `~Task` D13 are repaired in /repo: 8ca0444, 2690a63.)
`w.WF`: the arity of each awaiter and no awaited object twice in one awaiter (API preconditions); `w.WFT`: Task awaiters await
Tasks.  Helper lemmas and the inductive invariants are in Proofs/Coro*.lean.
-/
import YaclibModel.Proofs.CoroProgress
import YaclibModel.Proofs.CoroMulti4
import YaclibModel.Proofs.CoroExec2
import YaclibModel.Proofs.StrandTowerInline
import YaclibModel.Proofs.StrandTowerManual
import YaclibModel.Proofs.PoolExecContract
import YaclibModel.Extracted.Kernels
import YaclibModel.Model.Skeletons

namespace Yaclib.Props.C13
open Yaclib.Coro

variable {w : Workload} {s : State}

/-- everything the trace validator accepts is a behaviour the theorems speak about -/
theorem validator_sound {l : Label} {s' : State} (h : Reachable w s) (hn : next s l = some s') : Reachable w s' :=
  .step h (next_sound hn)

/-! ### exactly once -/

/-- **each co_await resumes exactly once**: the resumption records are, in order, exactly the co_awaits completed so far
    (no co_await resumes twice, none that was passed is missing) -/
theorem resume_once (hwf : w.WF) (hwt : w.WFT) (h : Reachable w s) : s.resumed.map (·.k) = List.range s.k :=
  (full_reachable hwf hwt h).d.rec_idx

theorem resume_at_most_once (hwf : w.WF) (hwt : w.WFT) (h : Reachable w s) : (s.resumed.map (·.k)).Nodup := by
  rw [resume_once hwf hwt h]; exact List.nodup_range

theorem resume_record_is_program (hwf : w.WF) (hwt : w.WFT) (h : Reachable w s) :
    ∀ r ∈ s.resumed, w.prog[r.k]? = some r.op := (full_reachable hwf hwt h).d.rec_op

/-! ### only after what it awaited has happened -/

/-- **a coroutine is resumed only when every awaited object is complete** — for unique futures, Tasks and SharedFutures with
    any number of other awaiters, every awaiter kind.
    Until /repo commit c9c07bc (defect D3, `await_ready = !Empty()`) this was false for SharedFutures with several awaiters; the
    witness then was: `prog = [⟨.single, [0], true⟩]`, cell 0 shared with other observers,
    run `start; envPush 0; rdLoad .cbs; ready true; resume (some none) false` (resumed before the fulfilment, `await_resume` reads a
    Result that was never constructed); proved as `resume_after_all_complete_violated_witness` at the time. -/
theorem resume_after_all_complete (hwf : w.WF) (hwt : w.WFT) (h : Reachable w s) : ∀ r ∈ s.resumed, r.allDone = true :=
  (full_reachable hwf hwt h).d.rec_done

/-- the same at the level of the step: whenever `await_resume` runs — and whenever the coroutine is submitted to an executor or
    sits in its queue — the word of every awaited object is `result` and its Result is constructed and is the awaited one -/
theorem no_early_resume (hwf : w.WF) (hwt : w.WFT) (h : Reachable w s) (hd : decided s.pc = true) {op : Op} {rest : List Op}
    (ht : s.todo = op :: rest) : ∀ j ∈ op.cells, (s.word j).isResult = true ∧ s.stored j = some (w.cell j).res := by
  intro j hj
  have hf := full_reachable hwf hwt h
  have := hf.i.b.all_res hd op rest j ht hj
  exact ⟨this, by simp [State.stored, this, hf.i.a.hw]⟩

/-- `Await(fs…)` leaves the futures valid and ready: at the resumption every awaited word is `result` (and a `result` word of a
    future stays `result`: no step but the start of a Task writes a word that holds `result`) -/
theorem await_leaves_ready (hwf : w.WF) (hwt : w.WFT) (h : Reachable w s) {got : Option (Option Res)} {ad : Bool} {s' : State}
    (hs : Step s (.resume got ad) s') : ad = true ∧ ∀ op rest, s.todo = op :: rest → ∀ j ∈ op.cells, (s'.word j).isResult = true := by
  have hf := full_reachable hwf hwt h
  cases hs with
  | resume op rest c hp ht =>
      have hd : decided s.pc = true := by rw [hp]; rfl
      have hall : ∀ j, j ∈ op.cells → (s.word j).isResult = true := fun j hj => hf.i.b.all_res hd op rest j ht hj
      refine ⟨allDone_of_all_res hall, ?_⟩
      intro op' rest' ht' j hj
      rw [ht] at ht'; cases ht'
      simp only [doResume, State.word]
      exact hall j hj

/-! ### with its outcome -/

/-- **`await_resume` reads the awaited Result**: `co_await future / shared future / task` returns the value the awaited object was
    fulfilled with, or rethrows its failure -/
theorem resume_outcome (hwf : w.WF) (hwt : w.WFT) (h : Reachable w s) : ∀ r ∈ s.resumed, r.got = wantOf w r.op :=
  (full_reachable hwf hwt h).d.rec_got

/-- an awaited failure that the body does not catch ends the body (nothing else of the program runs) … -/
theorem escaped_failure_ends_body (hwf : w.WF) (hwt : w.WFT) (h : Reachable w s) :
    s.failed = s.resumed.any (Rec.escaped w) ∧ (s.failed = true → s.todo = []) :=
  ⟨(full_reachable hwf hwt h).d.failed_iff, (full_reachable hwf hwt h).d.failed_todo⟩

/-! ### where asked -/

/-- **resumption context**: On(e) / AwaitOn(e, …) resume by a Call of executor e; AwaitSticky(…) / Yield resume in place (nothing to
    wait for) or by a Call of an executor; `co_await future`, Await(…) and Tasks resume in place or inline in the thread that
    completed one of the awaited objects -/
theorem resume_context (hwf : w.WF) (hwt : w.WFT) (h : Reachable w s) :
    ∀ r ∈ s.resumed, r.op.kind ≠ .current → ctxOk r.op.kind r.ctx = true ∧ (∀ j, r.ctx = .cell j → j ∈ r.op.cells) :=
  fun r hr hk => ⟨(full_reachable hwf hwt h).d.rec_ctx r hr hk, (full_reachable hwf hwt h).d.rec_cell r hr⟩

theorem resume_on_named_executor (hwf : w.WF) (hwt : w.WFT) (h : Reachable w s) :
    ∀ r ∈ s.resumed, ∀ e, (r.op.kind = .on e ∨ r.op.kind = .multiOn e ∨ r.op.kind = .resched (some e)) →
      r.ctx = .exec e ∧ r.exAfter = e := by
  intro r hr e hk
  have hd := (full_reachable hwf hwt h).d
  have hc := hd.rec_ctx r hr (by rcases hk with h | h | h <;> rw [h] <;> simp)
  have hctx : r.ctx = .exec e := by
    rcases hk with h | h | h <;> rw [h] at hc <;> cases hcx : r.ctx <;> simp_all [ctxOk]
  refine ⟨hctx, ?_⟩
  have := hd.rec_named r hr (by rw [hctx]; simp) (by rcases hk with h | h | h <;> rw [h] <;> simp)
  rw [this]
  rcases hk with h | h | h <;> rw [h] <;> rfl

/-- **Sticky: the coroutine's own executor** — AwaitSticky(…) and Yield resume on the executor the coroutine had when the co_await
    started (or in place), and leave it unchanged -/
theorem resume_sticky_own_executor (hwf : w.WF) (hwt : w.WFT) (h : Reachable w s) :
    ∀ r ∈ s.resumed, ownKind r.op.kind = true → (r.ctx = .inl ∨ r.ctx = .exec r.exBefore) ∧ r.exAfter = r.exBefore :=
  (full_reachable hwf hwt h).d.rec_own

/-- every Submit goes to an executor the awaiter may use (the named one; any for the coroutine's own) -/
theorem submit_where_asked (hwf : w.WF) (hwt : w.WFT) (h : Reachable w s) :
    ∀ x ∈ s.submits, ∀ op, w.prog[x.1]? = some op → execOk op.kind x.2 = true := (full_reachable hwf hwt h).d.sub_ok

/-- **after a resumption by the thread that completed awaited object j** (`co_await future`, Await(…)) **the coroutine's executor is
    the one stored in that core** ("continue where the producer is") — for unique and shared cores, any number of other awaiters.
    (A Task may move to another executor while it runs; the awaiting coroutine then continues on that one: not constrained here.)
    Until /repo 8ca0444 this was false for SharedFutures with several awaiters (defect D12): `PromiseType::Here/Next(caller)` did
    `_executor = std::move(caller._executor)`, IntrusivePtr move-assignment is a Swap, and a shared core is the caller of every
    coroutine that awaits it, so the second one resumed received the executor the first one left there.  Only
    `executor_after_await_partial` (cores nobody else can reach) was provable; the witness `executor_after_await_violated_witness`
    was: `prog = [On(e1), Await(cell 0)]`, cell 0 shared with other observers, run `start; submit 1; exCall; resume; start; rdLoad
    .empty; ready false; regLoad 0 .empty; cas 0 .ok; pXchg 0; envSwap 0 2; fire 0 0; resume` ⇒ `exBefore = 1`, core's executor 0,
    `exAfter = 2`; harness scenario `coro cells=s/val:2/fib/0,u/val:1/pre/0,u/val:1/pre/0 execs=run,run n=2
    c0=future;1;0;val:7;resched:1:,multi:-:0+1,current:-: c1=future;1;0;val:7;resched:2:,multi:-:0+2,current:-:` (every schedule). -/
theorem executor_after_await (hwf : w.WF) (hwt : w.WFT) (h : Reachable w s) :
    ∀ r ∈ s.resumed, ∀ j, r.ctx = .cell j → (w.cell j).lazy = false → r.exAfter = (w.cell j).exec0 :=
  (full_reachable hwf hwt h).e.rec_cell_exec

/-- … and the awaited core keeps its executor: `Await(fs…)` does not write the futures' cores -/
theorem awaited_core_keeps_executor (hwf : w.WF) (hwt : w.WFT) (h : Reachable w s) :
    ∀ j, (w.cell j).lazy = false → (s.cells j).cexec = (w.cell j).exec0 :=
  (full_reachable hwf hwt h).e.cexec

/-! ### a Task that was only Await()ed -/

/-- **destroying a Task that already completed just releases it**: `~Task` takes the `Ready()` branch exactly when the word is
    `result`, and then writes neither the word nor the Result nor anything else of the awaited core (until /repo 2690a63, D13, it
    cancelled the finished Task: `StoreCallback` over the `result` word, `Drop` = `Store(StopTag)` over the live Result, a second
    `exchange`) -/
theorem completed_task_just_releases {j : Nat} {s' : State} (hs : Step s (.tdtor j) s') :
    (s.word j).isResult = true ∧ s'.cells = s.cells ∧ (∀ i, s'.stored i = s.stored i) ∧ s'.pc = s.pc ∧ s'.todo = s.todo ∧
    s'.tasksReleased = s.tasksReleased ++ [j] := by
  cases hs with
  | tdtor _ _ _ hr => exact ⟨hr, rfl, fun _ => rfl, rfl, rfl, rfl⟩

/-- … and right after `co_await Await(task)` / `co_await task` resumed, the Task is complete: its destructor is that step -/
theorem awaited_task_is_complete (hwf : w.WF) (hwt : w.WFT) (h : Reachable w s) {got : Option (Option Res)} {ad : Bool} {s' : State}
    (hs : Step s (.resume got ad) s') {op : Op} {rest : List Op} (ht : s.todo = op :: rest) (hk : op.kind = .task) :
    ∀ j ∈ op.cells, ∃ s'', Step s' (.tdtor j) s'' := by
  intro j hj
  have hf := full_reachable hwf hwt h
  have hres := (await_leaves_ready hwf hwt h hs).2 op rest ht j hj
  have hlazy := (wft_lazy hwt hf.i.a ht hj).mp hk
  have hw' : s'.w = w := by
    cases hs with
    | resume op' rest' c hp ht' => exact hf.i.a.hw
  have hpc : s'.pc = .idle := by
    cases hs with
    | resume op' rest' c hp ht' => rfl
  exact ⟨_, Step.tdtor s' j hpc (by rw [hw']; exact hlazy) hres⟩

/-! ### the coroutine's own Result -/

/-- the Result is published at most once … -/
theorem published_at_most_once (hwf : w.WF) (hwt : w.WFT) (h : Reachable w s) : s.published.length ≤ 1 := by
  have hd := (full_reachable hwf hwt h).d
  by_cases h1 : s.pc = .done ∨ s.pc = .gone
  · rw [(hd.done_res h1).2]; simp
  · by_cases h2 : s.pc = .fin
    · rw [(hd.fin_res h2).2]; simp
    · have : s.pc ≠ .fin ∧ s.pc ≠ .done ∧ s.pc ≠ .gone := ⟨h2, fun h => h1 (Or.inl h), fun h => h1 (Or.inr h)⟩
      rw [(hd.not_fin this).2.1]; simp

/-- … exactly once when the coroutine is over, and it is: StopError if the coroutine was dropped by a stopped executor, the
    Exception state if an awaited failure escaped or the body threw, the co_return value otherwise -/
theorem co_return_is_result (hwf : w.WF) (hwt : w.WFT) (h : Reachable w s) (hp : s.pc = .done ∨ s.pc = .gone) :
    s.published = [outcome s] ∧ s.result = some (outcome s) :=
  ⟨((full_reachable hwf hwt h).d.done_res hp).2, ((full_reachable hwf hwt h).d.done_res hp).1⟩

theorem co_return_value (hwf : w.WF) (hwt : w.WFT) (h : Reachable w s) (hp : s.pc = .done ∨ s.pc = .gone)
    (hd : s.dropped = false) (hf : s.failed = false) {n : Nat} (hr : w.ret = .val n) : s.published = [.val n] := by
  have := (co_return_is_result hwf hwt h hp).1
  have hw := (full_reachable hwf hwt h).i.a.hw
  simpa [outcome, finalRes, hd, hf, hw, hr] using this

theorem exception_is_result (hwf : w.WF) (hwt : w.WFT) (h : Reachable w s) (hp : s.pc = .done ∨ s.pc = .gone)
    (hd : s.dropped = false) (he : s.failed = true ∨ w.ret = .throws) : s.published = [.exc] := by
  have := (co_return_is_result hwf hwt h hp).1
  have hw := (full_reachable hwf hwt h).i.a.hw
  rcases he with he | he
  · simpa [outcome, finalRes, hd, he] using this
  · cases hf : s.failed <;> simpa [outcome, finalRes, hd, hf, hw, he] using this

/-- **a stopped executor**: a dropped coroutine is completed with StopError, is never resumed again (the co_await it was
    dropped in has no resumption record, its program is not continued), and nothing else is ever published -/
theorem stopped_executor_stop_error (hwf : w.WF) (hwt : w.WFT) (h : Reachable w s) (hd : s.dropped = true) :
    (s.pc = .fin ∨ s.pc = .done ∨ s.pc = .gone) ∧ s.result = some .err ∧ (∀ r ∈ s.published, r = .err) ∧
    s.k < w.prog.length ∧ (∀ r ∈ s.resumed, r.k < s.k) := by
  have hD := (full_reachable hwf hwt h).d
  have hpc : s.pc = .fin ∨ s.pc = .done ∨ s.pc = .gone := by
    by_cases h1 : s.pc = .fin
    · exact Or.inl h1
    · by_cases h2 : s.pc = .done
      · exact Or.inr (Or.inl h2)
      · by_cases h3 : s.pc = .gone
        · exact Or.inr (Or.inr h3)
        · have := (hD.not_fin ⟨h1, h2, h3⟩).2.2; rw [hd] at this; cases this
  have hout : outcome s = .err := by simp [outcome, hd]
  refine ⟨hpc, ?_, ?_, hD.drop_susp hd, ?_⟩
  · rcases hpc with h1 | h1 | h1
    · rw [(hD.fin_res h1).1, hout]
    · rw [(hD.done_res (Or.inl h1)).1, hout]
    · rw [(hD.done_res (Or.inr h1)).1, hout]
  · intro r hr
    rcases hpc with h1 | h1 | h1
    · rw [(hD.fin_res h1).2] at hr; cases hr
    · rw [(hD.done_res (Or.inl h1)).2, hout] at hr; simpa using hr
    · rw [(hD.done_res (Or.inr h1)).2, hout] at hr; simpa using hr
  · intro r hr
    have : r.k ∈ s.resumed.map (·.k) := List.mem_map.mpr ⟨r, hr, rfl⟩
    rw [hD.rec_idx] at this
    exact List.mem_range.mp this

/-! ### the frame and its locals -/

/-- **the frame is destroyed at most once, every local at most once; when the frame is gone every local was destroyed exactly
    once** (on the normal path by leaving the body, for a dropped coroutine together with the frame) -/
theorem frame_destroyed_once (hwf : w.WF) (hwt : w.WFT) (h : Reachable w s) :
    s.frameDestroyed ≤ 1 ∧ s.localDtors ≤ w.locals ∧ (s.pc = .gone → s.frameDestroyed = 1 ∧ s.localDtors = w.locals) ∧
    (s.frameDestroyed = 1 → s.pc = .gone) := by
  have hD := (full_reachable hwf hwt h).d
  have hfr := hD.frame
  have hl := hD.locals
  refine ⟨by rw [hfr]; split <;> omega, by omega, ?_, ?_⟩
  · intro hp; have := hD.gone_live hp; rw [hfr, hp]; simp; omega
  · intro h1; rw [hfr] at h1; split at h1 <;> simp_all

/-- the locals are alive as long as the body runs, and — for a coroutine that was dropped while suspended — until the frame goes -/
theorem locals_alive_while_running (hwf : w.WF) (hwt : w.WFT) (h : Reachable w s) (hp : inOp s.pc = true ∨ s.pc = .idle) :
    s.live = w.locals ∧ s.localDtors = 0 := by
  have hD := (full_reachable hwf hwt h).d
  have := hD.live_full hp
  have := hD.locals
  omega

/-! ### nothing is lost -/

/-- **quiescence**: in a state in which only the environment could still act (fulfil an awaited object, register a foreign
    callback, swap an executor) the coroutine is over, its Result published exactly once, frame and locals destroyed exactly once —
    or it is suspended, registered on an awaited object that has not been fulfilled yet (every Call / Drop, every callback of a
    fulfilled object, every step of the coroutine itself is a non-environment step, so none of them is outstanding). -/
theorem quiescent_complete (hwf : w.WF) (hwt : w.WFT) (h : Reachable w s) (hq : ∀ l s', Step s l s' → isEnv l = true) :
    (s.pc = .gone ∧ s.published = [outcome s] ∧ s.frameDestroyed = 1 ∧ s.localDtors = w.locals ∧
      (s.dropped = false → s.failed = false → s.resumed.map (·.k) = List.range w.prog.length)) ∨ Waiting s := by
  have hf := full_reachable hwf hwt h
  rcases quiescent_cases hwf hf hq with hg | hw
  · left
    have hfr := frame_destroyed_once hwf hwt h
    refine ⟨hg, (hf.d.done_res (Or.inr hg)).2, (hfr.2.2.1 hg).1, (hfr.2.2.1 hg).2, ?_⟩
    intro hd hfl
    -- the body was left with an empty to-do list and no escaped failure: the whole program was passed
    rw [hf.d.rec_idx]
    have ha := hf.i.a
    have htodo : s.todo = [] := hf.d.left_todo (Or.inr (Or.inr hg)) hd
    rcases ha.todo_eq with h1 | h1
    · rw [htodo] at h1
      have : w.prog.length ≤ s.k := List.drop_eq_nil_iff.mp h1.symm
      have hk := ha.k_le
      have : s.k = w.prog.length := by omega
      rw [this]
    · rw [hfl] at h1; cases h1.1
  · exact Or.inr hw

/-! ### non-vacuity: concrete workloads reach the interesting states -/

def w1 : Workload :=
  { prog := [⟨.single, [0], true⟩], cells := [{ res := .val 5 }], ret := .val 7, catches := false, locals := 1 }

/-- `co_await future` races with the fulfilment: the coroutine registers first, is resumed by the producer with the value,
    returns 7, its local and its frame are destroyed once -/
example : ∃ s, Reachable w1 s ∧ s.pc = .gone ∧ s.resumed.map (fun r => (r.k, r.ctx, r.got)) = [(0, .cell 0, some (some (.val 5)))] ∧
    s.published = [.val 7] ∧ s.frameDestroyed = 1 ∧ s.localDtors = 1 := by
  have h0 : Reachable w1 (init w1) := .init
  have h1 := validator_sound h0 (l := .start) (s' := _) rfl
  have h2 := validator_sound h1 (l := .rdLoad .empty) (s' := _) rfl
  have h3 := validator_sound h2 (l := .ready false) (s' := _) rfl
  have h4 := validator_sound h3 (l := .regLoad 0 .empty) (s' := _) rfl
  have h5 := validator_sound h4 (l := .cas 0 .ok) (s' := _) rfl
  have h6 := validator_sound h5 (l := .pXchg 0) (s' := _) rfl
  have h7 := validator_sound h6 (l := .fire 0 0) (s' := _) rfl
  have h8 := validator_sound h7 (l := .resume (some (some (.val 5))) true) (s' := _) rfl
  have h9 := validator_sound h8 (l := .ret) (s' := _) rfl
  have h10 := validator_sound h9 (l := .ldtor) (s' := _) rfl
  have h11 := validator_sound h10 (l := .publish (.val 7)) (s' := _) rfl
  have h12 := validator_sound h11 (l := .fdtor) (s' := _) rfl
  exact ⟨_, h12, rfl, rfl, rfl, rfl, rfl⟩

def w2 : Workload :=
  { prog := [⟨.single, [0], true⟩], cells := [{ shared := true, others := true, res := .err }], ret := .val 7, catches := false,
    locals := 0 }

/-- several awaiters on one SharedFuture: another coroutine is registered already when this one checks `await_ready` (false since
    c9c07bc), it pushes its own callback, a third one registers, the fulfilment resumes this one with the failure, which escapes:
    the coroutine's Result is the Exception state -/
example : ∃ s, Reachable w2 s ∧ s.resumed.map (fun r => (r.allDone, r.got)) = [(true, some (some .err))] ∧ s.failed = true ∧
    s.published = [.exc] := by
  have h0 : Reachable w2 (init w2) := .init
  have h1 := validator_sound h0 (l := .start) (s' := _) rfl
  have h2 := validator_sound h1 (l := .envPush 0) (s' := _) rfl
  have h3 := validator_sound h2 (l := .rdLoad .cbs) (s' := _) rfl
  have h4 := validator_sound h3 (l := .ready false) (s' := _) rfl
  have h5 := validator_sound h4 (l := .regLoad 0 .cbs) (s' := _) rfl
  have h6 := validator_sound h5 (l := .cas 0 .retry) (s' := _) rfl
  have h7 := validator_sound h6 (l := .cas 0 .ok) (s' := _) rfl
  have h8 := validator_sound h7 (l := .envPush 0) (s' := _) rfl
  have h9 := validator_sound h8 (l := .pXchg 0) (s' := _) rfl
  have h10 := validator_sound h9 (l := .fire 0 0) (s' := _) rfl
  have h11 := validator_sound h10 (l := .resume (some (some .err)) true) (s' := _) rfl
  have h12 := validator_sound h11 (l := .ret) (s' := _) rfl
  have h13 := validator_sound h12 (l := .publish .exc) (s' := _) rfl
  exact ⟨_, h13, rfl, rfl, rfl⟩

def w3 : Workload :=
  { prog := [⟨.on 1, [0], false⟩, ⟨.current, [], false⟩], cells := [{}], ret := .val 7, catches := false, locals := 2 }

/-- AwaitOn(e1, f) on a stopped executor: the callback submits the coroutine, e1 drops it: StopError, never resumed, both locals
    and the frame destroyed once -/
example : ∃ s, Reachable w3 s ∧ s.pc = .gone ∧ s.resumed = [] ∧ s.submits = [(0, 1)] ∧ s.published = [.err] ∧
    s.frameDestroyed = 1 ∧ s.localDtors = 2 := by
  have h0 : Reachable w3 (init w3) := .init
  have h1 := validator_sound h0 (l := .start) (s' := _) rfl
  have h2 := validator_sound h1 (l := .regLoad 0 .empty) (s' := _) rfl
  have h3 := validator_sound h2 (l := .cas 0 .ok) (s' := _) rfl
  have h4 := validator_sound h3 (l := .pXchg 0) (s' := _) rfl
  have h5 := validator_sound h4 (l := .fire 0 0) (s' := _) rfl
  have h6 := validator_sound h5 (l := .submit 1) (s' := _) rfl
  have h7 := validator_sound h6 (l := .exDrop) (s' := _) rfl
  have h8 := validator_sound h7 (l := .publish .err) (s' := _) rfl
  have h9 := validator_sound h8 (l := .ldtor) (s' := _) rfl
  have h10 := validator_sound h9 (l := .ldtor) (s' := _) rfl
  have h11 := validator_sound h10 (l := .fdtor) (s' := _) rfl
  exact ⟨_, h11, rfl, rfl, rfl, rfl, rfl, rfl⟩

def w4 : Workload :=
  { prog := [⟨.multi, [0, 1], false⟩], cells := [{}, { res := .exc }], ret := .throws, catches := false, locals := 0 }

/-- Await(f0, f1): f0 completes between its registration and the registration of f1, f1 completes between its pre-check load
    and its CAS; the counter goes 3, 2 (callback of f0), 1 (`fetch_sub(n - wait_count)`), `await_ready` sees 1: no suspension -/
example : ∃ s, Reachable w4 s ∧ s.resumed.map (fun r => (r.ctx, r.allDone)) = [(.inl, true)] ∧ s.cnt = 1 ∧
    s.st = [.fired, .failed] := by
  have h0 : Reachable w4 (init w4) := .init
  have h1 := validator_sound h0 (l := .start) (s' := _) rfl
  have h2 := validator_sound h1 (l := .regLoad 0 .empty) (s' := _) rfl
  have h3 := validator_sound h2 (l := .cas 0 .ok) (s' := _) rfl
  have h4 := validator_sound h3 (l := .pXchg 0) (s' := _) rfl
  have h5 := validator_sound h4 (l := .fire 0 0) (s' := _) rfl
  have h6 := validator_sound h5 (l := .regLoad 1 .empty) (s' := _) rfl
  have h7 := validator_sound h6 (l := .pXchg 1) (s' := _) rfl
  have h8 := validator_sound h7 (l := .cas 1 .fail) (s' := _) rfl
  have h9 := validator_sound h8 (l := .msub) (s' := _) rfl
  have h10 := validator_sound h9 (l := .mload 1) (s' := _) rfl
  have h11 := validator_sound h10 (l := .ready true) (s' := _) rfl
  have h12 := validator_sound h11 (l := .resume none true) (s' := _) rfl
  exact ⟨_, h12, rfl, rfl, rfl⟩

end Yaclib.Props.C13

/-! ### several coroutines: the product system (Model/CoroMulti.lean)

The one-coroutine theorems above speak about ONE coroutine against an environment.  `Yaclib.CoroMulti` is the system of a finite
family of coroutines sharing the awaited objects (global words whose callbacks are tagged with their owner); a step of the system is
the step of one coroutine, or a fulfilment / external subscription / Task move.  `projection_sound` (Proofs/CoroMulti4.lean): every
projection of a reachable state of the system is a reachable state of the one-coroutine model, because a step of coroutine i is,
for every other coroutine k, an `envPush` of k's model or invisible (`other_step_is_env`).  The trace validator, which keeps one model
state per coroutine of a run and feeds every line to the projections it concerns, is the executable counterpart of that theorem.
So everything proved above holds for every coroutine of every run of the system: -/
namespace Yaclib.Props.C13.Multi
open Yaclib.Coro Yaclib.CoroMulti

/-- the hypotheses on a family: unique futures and Tasks have one owner, a Task is not shared; every member is well-formed -/
structure OK (W : MWorkload) : Prop where
  g : W.GWF
  wf : ∀ i, (W.proj i).WF
  wft : ∀ i, (W.proj i).WFT

variable {W : MWorkload} {S : MState}

theorem projection (hok : OK W) (h : MReachable W S) (i : Nat) : Reachable (W.proj i) (S.proj W i) :=
  projection_sound hok.g hok.wf hok.wft h i

theorem multi_resume_once (hok : OK W) (h : MReachable W S) (i : Nat) :
    (S.cor i).resumed.map (·.k) = List.range (S.cor i).k :=
  by have h1 := C13.resume_once (hok.wf i) (hok.wft i) (projection hok h i); exact h1

theorem multi_resume_after_all_complete (hok : OK W) (h : MReachable W S) (i : Nat) :
    ∀ r ∈ (S.cor i).resumed, r.allDone = true :=
  by have h1 := C13.resume_after_all_complete (hok.wf i) (hok.wft i) (projection hok h i); exact h1

theorem multi_resume_outcome (hok : OK W) (h : MReachable W S) (i : Nat) :
    ∀ r ∈ (S.cor i).resumed, r.got = wantOf (W.proj i) r.op :=
  by have h1 := C13.resume_outcome (hok.wf i) (hok.wft i) (projection hok h i); exact h1

theorem multi_resume_context (hok : OK W) (h : MReachable W S) (i : Nat) :
    ∀ r ∈ (S.cor i).resumed, r.op.kind ≠ .current → ctxOk r.op.kind r.ctx = true ∧ (∀ j, r.ctx = .cell j → j ∈ r.op.cells) :=
  by have h1 := C13.resume_context (hok.wf i) (hok.wft i) (projection hok h i); exact h1

theorem multi_executor_after_await (hok : OK W) (h : MReachable W S) (i : Nat) :
    ∀ r ∈ (S.cor i).resumed, ∀ j, r.ctx = .cell j → (W.gcell j).lazy = false → r.exAfter = (W.gcell j).exec0 := by
  intro r hr j hc hl
  have := C13.executor_after_await (hok.wf i) (hok.wft i) (projection hok h i) r hr j hc (by rw [proj_cell]; exact hl)
  rw [this, proj_cell]; rfl

theorem multi_published_at_most_once (hok : OK W) (h : MReachable W S) (i : Nat) : (S.cor i).published.length ≤ 1 :=
  by have h1 := C13.published_at_most_once (hok.wf i) (hok.wft i) (projection hok h i); exact h1

theorem multi_stopped_executor_stop_error (hok : OK W) (h : MReachable W S) (i : Nat) (hd : (S.cor i).dropped = true) :
    (S.cor i).result = some .err ∧ (∀ r ∈ (S.cor i).published, r = .err) ∧ (∀ r ∈ (S.cor i).resumed, r.k < (S.cor i).k) := by
  have := C13.stopped_executor_stop_error (hok.wf i) (hok.wft i) (projection hok h i) hd
  exact ⟨this.2.1, this.2.2.1, this.2.2.2.2⟩

theorem multi_frame_destroyed_once (hok : OK W) (h : MReachable W S) (i : Nat) :
    (S.cor i).frameDestroyed ≤ 1 ∧ (S.cor i).localDtors ≤ (W.co i).locals ∧
    ((S.cor i).pc = .gone → (S.cor i).frameDestroyed = 1 ∧ (S.cor i).localDtors = (W.co i).locals) := by
  have := C13.frame_destroyed_once (hok.wf i) (hok.wft i) (projection hok h i)
  exact ⟨this.1, this.2.1, this.2.2.1⟩

def isFulfilled (c : GCell) : Bool :=
  match c.word with
  | .gresult _ => true
  | .gopen _ _ => false

/-- **an awaited object that is not a Task is fulfilled once and for all**: no step of the system fulfils it again or un-fulfils it -/
theorem fulfilled_once (hok : OK W) (h : MReachable W S) {l : MLabel} {S' : MState} (hs : MStep W S l S') {j : Nat}
    (hl : (W.gcell j).lazy = false) (hf : isFulfilled (S.cells j) = true) :
    isFulfilled (S'.cells j) = true ∧ l ≠ .prod j := by
  cases hs with
  | prod j' cbs e hw hl' =>
      by_cases hjj : j = j'
      · subst hjj; simp [isFulfilled, hw] at hf
      · exact ⟨by simp only [gupd_other _ _ _ _ hjj]; exact hf, fun h => hjj (by cases h; rfl)⟩
  | ext j' cbs e hw hs' hx =>
      by_cases hjj : j = j'
      · subst hjj; simp [isFulfilled, hw] at hf
      · exact ⟨by simp only [gupd_other _ _ _ _ hjj]; exact hf, by simp⟩
  | swap j' e hl' hs' =>
      refine ⟨?_, by simp⟩
      by_cases hjj : j = j'
      · subst hjj; simp only [gupd_same]; exact hf
      · simp only [gupd_other _ _ _ _ hjj]; exact hf
  | co i l s' hi hl' hs' =>
      refine ⟨?_, by simp⟩
      have ha := (inv_reachable (hok.wf i) (projection hok h i)).a
      cases l with
      | cas p o =>
          cases o <;> simp only [gcellsAfter] <;> (try exact hf)
          cases hcur : curCell (S.cor i) p with
          | none => exact hf
          | some j' =>
            simp only
            by_cases hjj : j = j'
            · subst hjj
              simp only [gupd_same, isFulfilled, pushCb] at hf ⊢
              split at hf <;> simp_all
            · simp only [gupd_other _ _ _ _ hjj]; exact hf
      | fire j' p =>
          simp only [gcellsAfter]
          by_cases hjj : j = j'
          · subst hjj
            simp only [gupd_same, isFulfilled, eraseCb] at hf ⊢
            split at hf <;> simp_all
          · simp only [gupd_other _ _ _ _ hjj]; exact hf
      | tstore =>
          simp only [gcellsAfter]
          cases hcur : curCell (S.cor i) 0 with
          | none => exact hf
          | some j' =>
            simp only
            by_cases hjj : j = j'
            · -- a Task callback is stored only on a Task
              exfalso
              subst hjj
              cases hs' with
              | tstore op rest j'' hp ht hj =>
                  have hcur' : curCell (S.proj W i) 0 = some j := hcur
                  simp only [curCell, ht] at hcur'
                  rw [hj] at hcur'; cases hcur'
                  have hpk := ha.pc_kind op rest ht
                  rw [hp] at hpk
                  have hk : op.kind = .task := by simpa [pcKindOk] using hpk
                  have := (wft_lazy (hok.wft i) ha ht (List.mem_iff_getElem?.mpr ⟨0, hj⟩)).mp hk
                  rw [proj_cell] at this
                  have hlz : (W.gcell j).lazy = true := this
                  rw [hl] at hlz; cases hlz
            · simp only [gupd_other _ _ _ _ hjj]; exact hf
      | _ => exact hf

/-- **every awaiter of a SharedFuture is resumed exactly once, after its fulfilment**: for every coroutine of the family the
    resumption records are exactly the co_awaits it has passed (each once, none missing), and each was made when everything it
    awaited was fulfilled — which, for everything but Tasks, happens once and for all (`fulfilled_once`) -/
theorem shared_future_awaiters_each_once (hok : OK W) (h : MReachable W S) :
    ∀ i, (S.cor i).resumed.map (·.k) = List.range (S.cor i).k ∧ (∀ r ∈ (S.cor i).resumed, r.allDone = true) :=
  fun i => ⟨multi_resume_once hok h i, multi_resume_after_all_complete hok h i⟩

/-! non-vacuity: two coroutines `co_await Await(sf)` on one SharedFuture, driven through `next` of both projections -/

def W2 : MWorkload :=
  { n := 2, cells := [{ shared := true }],
    co := fun _ => { prog := [⟨.single, [0], false⟩], ret := .val 7, catches := false, locals := 0 } }

theorem mstep_co {i : Nat} {l : Label} {s' : State} (h : MReachable W S) (hi : i < W.n) (hl : isEnvL l = false)
    (hn : next (S.proj W i) l = some s') : MReachable W ⟨gcellsAfter S i l, cupd S.cor i s'⟩ :=
  .step h (.co S i l s' hi hl (next_sound hn))

/-- coroutine 0 registers; coroutine 1 finds a foreign callback (`await_ready` false since c9c07bc), registers behind it; the
    fulfilment runs both callbacks: both coroutines are resumed exactly once, after the fulfilment, and the word ends empty of
    callbacks -/
example : ∃ S, MReachable W2 S ∧ (S.cor 0).resumed.map (fun r => (r.k, r.allDone)) = [(0, true)] ∧
    (S.cor 1).resumed.map (fun r => (r.k, r.allDone)) = [(0, true)] ∧ (S.cells 0).word = .gresult [] := by
  have h0 : MReachable W2 (minit W2) := .init
  have h1 := mstep_co h0 (i := 0) (l := .start) (s' := _) (by decide) rfl rfl
  have h2 := mstep_co h1 (i := 0) (l := .rdLoad .empty) (s' := _) (by decide) rfl rfl
  have h3 := mstep_co h2 (i := 0) (l := .ready false) (s' := _) (by decide) rfl rfl
  have h4 := mstep_co h3 (i := 0) (l := .regLoad 0 .empty) (s' := _) (by decide) rfl rfl
  have h5 := mstep_co h4 (i := 0) (l := .cas 0 .ok) (s' := _) (by decide) rfl rfl
  have h6 := mstep_co h5 (i := 1) (l := .start) (s' := _) (by decide) rfl rfl
  have h7 := mstep_co h6 (i := 1) (l := .rdLoad .cbs) (s' := _) (by decide) rfl rfl
  have h8 := mstep_co h7 (i := 1) (l := .ready false) (s' := _) (by decide) rfl rfl
  have h9 := mstep_co h8 (i := 1) (l := .regLoad 0 .cbs) (s' := _) (by decide) rfl rfl
  have h10 := mstep_co h9 (i := 1) (l := .cas 0 .ok) (s' := _) (by decide) rfl rfl
  have h11 : MReachable W2 _ := .step h10 (.prod _ 0 [(1, 0), (0, 0)] false rfl (Or.inl rfl))
  have h12 := mstep_co h11 (i := 1) (l := .fire 0 0) (s' := _) (by decide) rfl rfl
  have h13 := mstep_co h12 (i := 1) (l := .resume none true) (s' := _) (by decide) rfl rfl
  have h14 := mstep_co h13 (i := 0) (l := .fire 0 0) (s' := _) (by decide) rfl rfl
  have h15 := mstep_co h14 (i := 0) (l := .resume none true) (s' := _) (by decide) rfl rfl
  exact ⟨_, h15, rfl, rfl, rfl⟩

theorem W2_ok : OK W2 := by
  refine ⟨⟨?_, ?_⟩, ?_, ?_⟩
  · intro j hs i k hi hk
    cases j with
    | zero => simp [W2, MWorkload.gcell] at hs
    | succ j => simp [W2, mentions] at hi
  · intro j hl
    cases j <;> simp [W2, MWorkload.gcell] at hl
  · intro i op hop
    simp [MWorkload.proj, W2] at hop; subst hop; simp [Op.wf]
  · intro i op hop j hj
    simp [MWorkload.proj, W2] at hop; subst hop
    simp at hj; subst hj
    simp [Workload.cell, MWorkload.proj, W2, MWorkload.cellW, MWorkload.gcell]

end Yaclib.Props.C13.Multi

/-! ### over a real executor (Proofs/CoroExec*.lean)

One named executor `ex` of the workload is an executor *model* `E` (`Yaclib.Strand.Exec`: Inline, Manual, the thread pool, a tower of
strands …) instead of an abstract contract executor; the other executor ids stay abstract.  `submit ex` = `sub j`, the resumption =
`call j` (the coroutine's next segment is the body of job j, `ret j` when the segment is over), `E`'s `drop j` = the model's Drop. -/
namespace Yaclib.Props.C13.Over
open Yaclib.Coro
open Yaclib.Strand (Exec XEv Prot Phase ExecContract inlineExec inline_contract manualExec manual_contract tower
  tower_satisfies_contract)
open Yaclib.Pool (poolExec pool_contract)

variable {w : Workload} {E : Exec} {ex : Nat} {s : XState E}

/-- for EVERY executor model: the coroutine component is a reachable state of the plain model, and the coroutine is a
    protocol-honouring client of `E` (submits a job once, returns only from a body that was entered) -/
theorem projects (h : XReach w E ex s) : Reachable w s.m ∧ E.Run s.x s.p := xcoro_projects h

theorem resume_once_over (hwf : w.WF) (hwt : w.WFT) (h : XReach w E ex s) : s.m.resumed.map (·.k) = List.range s.m.k :=
  C13.resume_once hwf hwt (xcoro_projects h).1

theorem resume_after_all_complete_over (hwf : w.WF) (hwt : w.WFT) (h : XReach w E ex s) : ∀ r ∈ s.m.resumed, r.allDone = true :=
  C13.resume_after_all_complete hwf hwt (xcoro_projects h).1

theorem frame_destroyed_once_over (hwf : w.WF) (hwt : w.WFT) (h : XReach w E ex s) :
    s.m.frameDestroyed ≤ 1 ∧ s.m.localDtors ≤ w.locals ∧ (s.m.pc = .gone → s.m.frameDestroyed = 1 ∧ s.m.localDtors = w.locals) := by
  have := C13.frame_destroyed_once hwf hwt (xcoro_projects h).1
  exact ⟨this.1, this.2.1, this.2.2.1⟩

/-- **"Resumption happens on the executor the awaiter names", with a real executor**: whenever the coroutine is being resumed by
    `ex` (the segment after On(ex) / AwaitOn(ex, …) / a Yield or sticky resumption on ex) it runs inside a `call` of `E` — the newest
    job of the coroutine is in phase `calling` — and the record of that resumption says so (`ctx = exec ex`) -/
theorem resume_on_named_executor_over (hwf : w.WF) (h : XReach w E ex s) (hp : s.m.pc = .wake (.exec ex)) :
    ∃ j rest, s.calls = j :: rest ∧ s.p j = .calling := by
  have hi := xinv_reach hwf h
  obtain ⟨j, rest, hc⟩ := hi.wake hp
  exact ⟨j, rest, hc, hi.calls_p j (by rw [hc]; exact List.mem_cons_self)⟩

/-- the only `call`s / `drop`s of `E` concern the job the coroutine sits in the queue with -/
theorem executor_acts_on_the_submitted_job (hwf : w.WF) (h : XReach w E ex s) :
    (∀ a, s.p a = .pending → s.job = some a ∧ s.m.pc = .queued ex) ∧ (∀ a, s.p a = .calling → a ∈ s.calls) := by
  have hi := xinv_reach hwf h
  exact ⟨fun a ha => ⟨hi.owner_p a ha, hi.job_q.mpr (by rw [hi.owner_p a ha]; exact fun h => nomatch h)⟩, hi.owner_c⟩

/-- **a Drop of the real executor is the model's Drop**: the step completes the coroutine with StopError; from then on
    `stopped_executor_stop_error` applies (never resumed again, nothing else published, frame and live locals destroyed once) -/
theorem dropped_means_stop_error_over {s' : XState E} (hs : XStep E ex s .drop s') :
    s'.m.dropped = true ∧ s'.m.result = some .err ∧ s'.m.pc = .fin ∧ s'.job = none := by
  cases hs with
  | drop hst _ _ _ _ =>
      cases hst with
      | exDrop e h => exact ⟨rfl, rfl, rfl, rfl⟩

theorem stopped_executor_stop_error_over (hwf : w.WF) (hwt : w.WFT) (h : XReach w E ex s) (hd : s.m.dropped = true) :
    s.m.result = some .err ∧ (∀ r ∈ s.m.published, r = .err) ∧ (∀ r ∈ s.m.resumed, r.k < s.m.k) := by
  have := C13.stopped_executor_stop_error hwf hwt (xcoro_projects h).1 hd
  exact ⟨this.2.1, this.2.2.1, this.2.2.2.2⟩

/-- only the coroutine's environment can still act: no step of the coroutine, no event and no internal step of `E` -/
def XQuiet (E : Exec) (ex : Nat) (s : XState E) : Prop :=
  ∀ xl s', XStep E ex s xl s' → ∃ l, xl = .plain l ∧ isEnv l = true

/-- nothing is pending or running in `E`, and the coroutine is over (Result published once, frame and locals destroyed once, the
    whole program resumed unless dropped / failed) or suspended on an unfulfilled object -/
def QuietDone (w : Workload) {E : Exec} (s : XState E) : Prop :=
  (∀ a, s.p a ≠ .pending ∧ s.p a ≠ .calling) ∧
  ((s.m.pc = .gone ∧ s.m.published = [outcome s.m] ∧ s.m.frameDestroyed = 1 ∧ s.m.localDtors = w.locals ∧
    (s.m.dropped = false → s.m.failed = false → s.m.resumed.map (·.k) = List.range w.prog.length)) ∨ Waiting s.m)

/-- **quiescence over a real executor** (under `ExecContract E`): a quiet composed system has nothing pending in `E`, and
    `quiescent_complete` holds for the coroutine -/
theorem quiescent_complete_over (hwf : w.WF) (hwt : w.WFT) (hc : ExecContract E) (h : XReach w E ex s) (hq : XQuiet E ex s) :
    QuietDone w s := by
  have hx := xcoro_quiescent hwf hwt hc h hq
  exact ⟨hx.2, C13.quiescent_complete hwf hwt (xcoro_projects h).1 hx.1⟩

/-! instances: the library's executors -/

theorem quiescent_over_inline (alive : Bool) (hwf : w.WF) (hwt : w.WFT) {s : XState (inlineExec alive)}
    (h : XReach w (inlineExec alive) ex s) (hq : XQuiet (inlineExec alive) ex s) : QuietDone w s :=
  quiescent_complete_over hwf hwt (inline_contract alive) h hq

theorem quiescent_over_manual (hwf : w.WF) (hwt : w.WFT) {s : XState (manualExec false)}
    (h : XReach w (manualExec false) ex s) (hq : XQuiet (manualExec false) ex s) : QuietDone w s :=
  quiescent_complete_over hwf hwt manual_contract h hq

theorem quiescent_over_pool {n : Nat} (hn : 0 < n) (stop : Option Yaclib.Pool.StopKind) (spur : Bool) (hwf : w.WF) (hwt : w.WFT)
    {s : XState (poolExec n stop spur)} (h : XReach w (poolExec n stop spur) ex s) (hq : XQuiet (poolExec n stop spur) ex s) :
    QuietDone w s :=
  quiescent_complete_over hwf hwt (pool_contract hn stop spur) h hq

theorem quiescent_over_tower {base : Exec} (hb : ExecContract base) (n : Nat) (hwf : w.WF) (hwt : w.WFT)
    {s : XState (tower base n)} (h : XReach w (tower base n) ex s) (hq : XQuiet (tower base n) ex s) : QuietDone w s :=
  quiescent_complete_over hwf hwt (tower_satisfies_contract hb n) h hq

/-! non-vacuity: `co_await On(e1)` over the STOPPED inline executor `MakeInline(StopTag{})`: sub 0, drop 0, StopError -/

def wOn : Workload := { prog := [⟨.resched (some 1), [], false⟩], cells := [], ret := .val 7, catches := false, locals := 1 }

example : ∃ s : XState (inlineExec false), XReach wOn (inlineExec false) 1 s ∧ s.m.dropped = true ∧ s.m.result = some .err ∧
    s.m.resumed = [] ∧ s.p 0 = .finished ∧ s.job = none := by
  have h0 : XReach wOn (inlineExec false) 1 (xinit wOn _) := .init
  have h1 := XReach.step h0 (.plain (l := .start) (m' := _) (next_sound rfl) rfl)
  have e1 : (inlineExec false).step Yaclib.Strand.protInit (XEv.sub 0) (Yaclib.Strand.upd Yaclib.Strand.protInit 0 .pending) :=
    ⟨rfl, rfl⟩
  have h2 := XReach.step h1 (.sub (m' := _) (next_sound rfl) e1 rfl rfl)
  have e2 : (inlineExec false).step (Yaclib.Strand.upd Yaclib.Strand.protInit 0 .pending) (XEv.drop 0)
      (Yaclib.Strand.upd (Yaclib.Strand.upd Yaclib.Strand.protInit 0 .pending) 0 .finished) := ⟨rfl, rfl, rfl⟩
  have h3 := XReach.step h2 (.drop (j := 0) (m' := _) (next_sound rfl) rfl rfl e2 rfl)
  exact ⟨_, h3, rfl, rfl, rfl, rfl, rfl⟩

end Yaclib.Props.C13.Over

/-! ### tie to the source (T2): the kernels this model was written from are unchanged.
`Extracted/Kernels.lean` is regenerated from /repo on every check run. -/
namespace Yaclib.Props.C13.Tie
open Yaclib

theorem tie_Destroy_await_suspend : Extracted.Kernels.Destroy_await_suspend = Skeletons.Destroy_await_suspend := rfl
theorem tie_PromiseType_initial_suspend : Extracted.Kernels.PromiseType_initial_suspend = Skeletons.PromiseType_initial_suspend := rfl
theorem tie_PromiseType_unhandled_exception : Extracted.Kernels.PromiseType_unhandled_exception = Skeletons.PromiseType_unhandled_exception := rfl
theorem tie_PromiseType_return_value : Extracted.Kernels.PromiseType_return_value = Skeletons.PromiseType_return_value := rfl
theorem tie_PromiseType_Call : Extracted.Kernels.PromiseType_Call = Skeletons.PromiseType_Call := rfl
theorem tie_PromiseType_Drop : Extracted.Kernels.PromiseType_Drop = Skeletons.PromiseType_Drop := rfl
theorem tie_PromiseType_Impl : Extracted.Kernels.PromiseType_Impl = Skeletons.PromiseType_Impl := rfl
theorem tie_PromiseType_Here : Extracted.Kernels.PromiseType_Here = Skeletons.PromiseType_Here := rfl
theorem tie_PromiseType_Next : Extracted.Kernels.PromiseType_Next = Skeletons.PromiseType_Next := rfl
theorem tie_PromiseTypeDeleter_Delete : Extracted.Kernels.PromiseTypeDeleter_Delete = Skeletons.PromiseTypeDeleter_Delete := rfl
theorem tie_AwaitAwaiterBase_await_ready : Extracted.Kernels.AwaitAwaiterBase_await_ready = Skeletons.AwaitAwaiterBase_await_ready := rfl
theorem tie_AwaitAwaiter_await_suspend : Extracted.Kernels.AwaitAwaiter_await_suspend = Skeletons.AwaitAwaiter_await_suspend := rfl
theorem tie_AwaitAwaiter_Call : Extracted.Kernels.AwaitAwaiter_Call = Skeletons.AwaitAwaiter_Call := rfl
theorem tie_AwaitEvent_Impl : Extracted.Kernels.AwaitEvent_Impl = Skeletons.AwaitEvent_Impl := rfl
theorem tie_MultiAwaitAwaiter_await_ready : Extracted.Kernels.MultiAwaitAwaiter_await_ready = Skeletons.MultiAwaitAwaiter_await_ready := rfl
theorem tie_MultiAwaitAwaiter_await_suspend : Extracted.Kernels.MultiAwaitAwaiter_await_suspend = Skeletons.MultiAwaitAwaiter_await_suspend := rfl
theorem tie_AwaitSingleAwaiter_await_ready : Extracted.Kernels.AwaitSingleAwaiter_await_ready = Skeletons.AwaitSingleAwaiter_await_ready := rfl
theorem tie_AwaitSingleAwaiter_await_suspend : Extracted.Kernels.AwaitSingleAwaiter_await_suspend = Skeletons.AwaitSingleAwaiter_await_suspend := rfl
theorem tie_AwaitSingleAwaiter_await_resume_unique : Extracted.Kernels.AwaitSingleAwaiter_await_resume_unique = Skeletons.AwaitSingleAwaiter_await_resume_unique := rfl
theorem tie_AwaitSingleAwaiter_await_resume_shared : Extracted.Kernels.AwaitSingleAwaiter_await_resume_shared = Skeletons.AwaitSingleAwaiter_await_resume_shared := rfl
theorem tie_TransferAwaiter_await_suspend : Extracted.Kernels.TransferAwaiter_await_suspend = Skeletons.TransferAwaiter_await_suspend := rfl
theorem tie_TransferSingleAwaiter_await_suspend : Extracted.Kernels.TransferSingleAwaiter_await_suspend = Skeletons.TransferSingleAwaiter_await_suspend := rfl
theorem tie_TransferSingleAwaiter_await_resume : Extracted.Kernels.TransferSingleAwaiter_await_resume = Skeletons.TransferSingleAwaiter_await_resume := rfl
theorem tie_AwaitOnEvent_Impl : Extracted.Kernels.AwaitOnEvent_Impl = Skeletons.AwaitOnEvent_Impl := rfl
theorem tie_AwaitOnAwaiter_await_suspend : Extracted.Kernels.AwaitOnAwaiter_await_suspend = Skeletons.AwaitOnAwaiter_await_suspend := rfl
theorem tie_MultiAwaitOnAwaiter_await_suspend : Extracted.Kernels.MultiAwaitOnAwaiter_await_suspend = Skeletons.MultiAwaitOnAwaiter_await_suspend := rfl
theorem tie_OnAwaiter_await_suspend : Extracted.Kernels.OnAwaiter_await_suspend = Skeletons.OnAwaiter_await_suspend := rfl
theorem tie_Yield_await_suspend : Extracted.Kernels.Yield_await_suspend = Skeletons.Yield_await_suspend := rfl
theorem tie_CurrentAwaiter_await_suspend : Extracted.Kernels.CurrentAwaiter_await_suspend = Skeletons.CurrentAwaiter_await_suspend := rfl
theorem tie_CurrentAwaiter_await_resume : Extracted.Kernels.CurrentAwaiter_await_resume = Skeletons.CurrentAwaiter_await_resume := rfl
theorem tie_SetCallbacksStatic : Extracted.Kernels.SetCallbacksStatic = Skeletons.SetCallbacksStatic := rfl
theorem tie_SetCallbacksDynamic : Extracted.Kernels.SetCallbacksDynamic = Skeletons.SetCallbacksDynamic := rfl
theorem tie_EventHelperCallback_Here : Extracted.Kernels.EventHelperCallback_Here = Skeletons.EventHelperCallback_Here := rfl
theorem tie_AtomicCounter_SubEqual : Extracted.Kernels.AtomicCounter_SubEqual = Skeletons.AtomicCounter_SubEqual := rfl
theorem tie_BaseCore_Ready : Extracted.Kernels.BaseCore_Ready = Skeletons.BaseCore_Ready := rfl
theorem tie_BaseCore_SetCallbackImpl : Extracted.Kernels.BaseCore_SetCallbackImpl = Skeletons.BaseCore_SetCallbackImpl := rfl
theorem tie_BaseCore_SetResultImpl : Extracted.Kernels.BaseCore_SetResultImpl = Skeletons.BaseCore_SetResultImpl := rfl
theorem tie_Task_dtor : Extracted.Kernels.Task_dtor = Skeletons.Task_dtor := rfl
theorem tie_Task_Cancel : Extracted.Kernels.Task_Cancel = Skeletons.Task_Cancel := rfl
theorem tie_PromiseCore_Here : Extracted.Kernels.PromiseCore_Here = Skeletons.PromiseCore_Here := rfl

end Yaclib.Props.C13.Tie
