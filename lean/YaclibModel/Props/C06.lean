/-
C06 — SharedFuture: every observer sees the one value once, never before it exists.

Property theorems about the model `Yaclib.Shared` (Model/Shared.lean) for **every** workload: any number of
observer threads, any operation list per observer (attach inline / via executor / wait / Connect-Share-Split target /
When-style retire, Get const&, Get &&, Ready, Ready-then-Touch, copy, destroy), either way the SharedPromise ends,
every interleaving at atomic-operation granularity, spurious weak-CAS failures and stale pre-check loads included.
Helper lemmas and the inductive invariants are in Proofs/Shared*.lean.

`ready_sound` holds since /repo c9c07bc (defect D3 of the pinned tree: see the comment in the Ready() section).
-/
import YaclibModel.Proofs.SharedProgress
import YaclibModel.Extracted.Kernels
import YaclibModel.Model.Skeletons

namespace Yaclib.Props.C06
open Yaclib.Shared

variable {w : Workload} {s : State}

/-! ### every registered callback / awaiter fires exactly once, and only after the value is stored -/

/-- conservation: a callback object that was handed to `SetCallback` is — counted with multiplicity — in exactly
    one place: fired, pending in the word's list, in the list the fulfiller is walking, still in its owner's hands
    (being pushed or being run inline), or in an executor's hands -/
theorem conservation (h : Reachable w s) (c : Cb) :
    s.registered.count c =
      (firedIds s).count c + (wordList s.word).count c + (walkList s.fpc).count c + s.inflight.count c + s.jobs.count c :=
  (inv_reachable h).c.conserve c

theorem registered_nodup (h : Reachable w s) : s.registered.Nodup :=
  List.nodup_iff_count.mpr (inv_reachable h).c.nodup

/-- no callback fires twice -/
theorem fired_once (h : Reachable w s) : (firedIds s).Nodup := by
  apply List.nodup_iff_count.mpr
  intro c
  have h1 := conservation h c
  have h2 := (inv_reachable h).c.nodup c
  omega

/-- nothing fires that was not attached -/
theorem fired_registered (h : Reachable w s) {c : Cb} (hc : c ∈ firedIds s) : c ∈ s.registered := by
  have h1 := conservation h c
  have : 0 < (firedIds s).count c := List.count_pos_iff.mpr hc
  exact List.count_pos_iff.mp (by omega)

/-- a fired callback is not pending anywhere any more (in particular it is not in the word's list, so it cannot be
    fired again by the fulfiller) -/
theorem fired_not_pending (h : Reachable w s) {c : Cb} (hc : c ∈ firedIds s) :
    c ∉ wordList s.word ∧ c ∉ walkList s.fpc ∧ c ∉ s.inflight ∧ c ∉ s.jobs := by
  have h1 := conservation h c
  have h2 := (inv_reachable h).c.nodup c
  have : 0 < (firedIds s).count c := List.count_pos_iff.mpr hc
  refine ⟨?_, ?_, ?_, ?_⟩ <;> (intro hm; have := List.count_pos_iff.mpr hm; omega)

/-- never early, never torn (at the interleaving level): whatever fired saw constructed storage holding exactly
    the Result that was set (`StopError` if the SharedPromise was dropped unset) -/
theorem fired_after_store (h : Reachable w s) : ∀ x ∈ s.fired, x.2 = some w.prod.res :=
  (inv_reachable h).a.fired_val

/-- before the fulfiller's exchange nothing has fired and the storage is unconstructed; afterwards it holds the result -/
theorem nothing_fires_before_set (h : Reachable w s) (hp : s.fpc = .start) : s.fired = [] ∧ s.stored = none := by
  have hi := (inv_reachable h).a
  refine ⟨?_, by rw [hi.stored_eq, if_pos hp]⟩
  cases hf : s.fired with
  | nil => rfl
  | cons x r => exact absurd hp (hi.fired_after x (by rw [hf]; simp))

theorem result_word_means_stored (h : Reachable w s) (hw : s.word = .result) : s.stored = some w.prod.res := by
  have hi := (inv_reachable h).a
  rw [hi.stored_eq, if_neg (hi.word_iff.mp hw)]

theorem dropped_promise_delivers_stop_error (h : Reachable w s) (hd : w.prod = .drop) :
    ∀ x ∈ s.fired, x.2 = some .err := by
  intro x hx; rw [fired_after_store h x hx, hd]; rfl

/-- `Get() const&` and `Get() &&` return the Result that was set -/
theorem getc_returns_set (h : Reachable w s) : ∀ x ∈ s.getcObs, x.2 = some w.prod.res := (inv_reachable h).a.getc_val
theorem get_returns_set (h : Reachable w s) : ∀ x ∈ s.got, x.2.1 = some w.prod.res := (inv_reachable h).a.got_val

/-! ### nothing is lost -/

/-- Safety form of "every attached callback eventually fires, nobody waits forever": in every state in which no
    thread can take a step the fulfiller has finished, no job is pending, every observer is idle (and has either
    finished its program or has no SharedFuture left to continue with), nothing is in flight and every registered
    callback has fired **exactly once**. -/
theorem quiescent_complete (h : Reachable w s) (hq : ∀ l s', ¬ Step s l s') :
    s.fpc = .dec 0 ∧ s.jobs = [] ∧ s.jobsRun = [] ∧ s.inflight = [] ∧
    (∀ t, (s.obs t).pc = .idle ∧ ((s.obs t).todo = [] ∨ (s.obs t).refs = 0)) ∧
    (∀ c ∈ s.registered, (firedIds s).count c = 1) := by
  have hi := inv_reachable h
  refine ⟨ful_done_of_quiescent hi hq, (jobs_nil_of_quiescent hq).1, (jobs_nil_of_quiescent hq).2,
    inflight_nil_of_quiescent hi hq, obs_done_of_quiescent hi hq, ?_⟩
  intro c hc
  have h1 := fired_of_quiescent hi hq c
  have h2 := hi.c.nodup c
  have : 0 < s.registered.count c := List.count_pos_iff.mpr hc
  omega

/-! ### a push fails iff the result is present -/

/-- a successful push happens only while the result is absent and puts the callback at the head of the list … -/
theorem push_succeeds_only_without_result (_h : Reachable w s) {t : Nat} {s' : State} (hs : Step s (.oCasOk t) s') :
    s.word ≠ .result ∧ ∃ c e, s.word = .list e ∧ s'.word = .list (c :: e) := by
  cases hs with
  | oCasOk _ c e hp hw =>
      refine ⟨by rw [hw]; simp, c, e, hw, ?_⟩
      simp only [doCasOk]; split <;> (try split) <;> rfl

/-- … `SetCallbackImpl` returns false (the loop is left through `next == kResult`) only if the result is present;
    the observer then runs its callback itself (`run`) or, for a waiter, does not wait at all — and that callback
    also fires exactly once, by `fired_once` / `quiescent_complete` … -/
theorem push_fails_only_with_result (_h : Reachable w s) {t : Nat} {l : Label} {s' : State} (hs : Step s l s')
    (hl : l = .oLoad t .result ∨ l = .oCasFail t .result ∨ l = .oCasSpur t .result) : s.word = .result := by
  rcases hl with hl | hl | hl <;> subst hl <;> cases hs <;> assumption

/-- … and once the result is present it stays, so every later push fails -/
theorem result_is_final (_h : Reachable w s) {l : Label} {s' : State} (hs : Step s l s') (hw : s.word = .result) :
    s'.word = .result := by
  cases hs with
  | fXchg l hp hw' => rfl
  | oCasOk _ c e hp hw' => rw [hw] at hw'; cases hw'
  | oLoad _ op rest k x hp ht hk hr hx => cases x <;> simp only [doLoad, reload, failPath] <;> (try split) <;> exact hw
  | oCasFail _ c e x hp hw' hx => cases x <;> simp only [reload, failPath] <;> (try split) <;> exact hw
  | oCasSpur _ c e x hp hw' hx => cases x <;> simp only [reload, failPath] <;> (try split) <;> exact hw
  | _ => exact hw

/-! ### the reference counter: who holds what, the core is freed exactly once and never touched afterwards -/

/-- every reference is accounted for: the promise's (3, released one by one around the last callback), those of the
    observers (`holders` = Σ refs, see `holders_is_sum`), of submitted executor jobs and of When-style callbacks —
    while they sit in a list, and after they were entered until their combinator has called `Retire()` -/
theorem count_accounts (h : Reachable w s) :
    s.count = promRefs s.fpc + s.holders + s.jobs.length + s.jobsRun.length
      + retCnt (wordList s.word) + retCnt (walkList s.fpc) + s.rets.length + s.retsLd.length := (inv_reachable h).r.cnt

theorem holders_is_sum (h : Reachable w s) : s.holders = holdSum s.obs s.n := (inv_reachable h).z.sum

/-- the core is deleted at most once, and exactly when the counter has reached zero -/
theorem freed_at_most_once (h : Reachable w s) : s.freed ≤ 1 := by
  rw [(inv_reachable h).r.freed_eq]; split <;> omega

theorem freed_iff_count_zero (h : Reachable w s) : s.freed = 1 ↔ s.count = 0 := by
  rw [(inv_reachable h).r.freed_eq]; split <;> simp_all

/-- no use after free: once the core has been deleted NO step of the model is enabled any more — every step
    touches the core (its word, its counter or its result) or is made by a thread that still owns a reference -/
theorem no_use_after_free (h : Reachable w s) (hf : 0 < s.freed) : ∀ l s', ¬ Step s l s' := by
  have hi := inv_reachable h
  have hc : s.count = 0 := by
    have := hi.r.freed_eq; split at this <;> omega
  have hcnt := hi.r.cnt
  rw [hc] at hcnt
  have hh : s.holders = 0 := by omega
  have hj : s.jobs = [] := List.eq_nil_of_length_eq_zero (by omega)
  have hjr : s.jobsRun = [] := List.eq_nil_of_length_eq_zero (by omega)
  have hpr : promRefs s.fpc = 0 := by omega
  have hr0 : ∀ t, (s.obs t).refs = 0 := fun t => by have := hi.z.le t; omega
  have hidle : ∀ t, (s.obs t).pc = .idle := fun t => by
    apply Classical.byContradiction; intro hne
    have := hi.z.busy t hne; have := hr0 t; omega
  intro l s' hs
  cases hs with
  | fXchg l hp hw => rw [hp] at hpr; simp at hpr
  | fDec1 c hp => rw [hp] at hpr; simp at hpr
  | fInvoke c rest d hp hk hf => rw [hp] at hpr; revert hpr; cases d <;> simp
  | fSet c rest d hp hk hf => rw [hp] at hpr; revert hpr; cases d <;> simp
  | fIncRef c rest d hp hk hf => rw [hp] at hpr; revert hpr; cases d <;> simp
  | fSubmit c rest d hp => rw [hp] at hpr; revert hpr; cases d <;> simp
  | fRefLoad c rest d hp hk hf => rw [hp] at hpr; revert hpr; cases d <;> simp
  | fTargetDec c rest d hp hk => rw [hp] at hpr; revert hpr; cases d <;> simp
  | fForward c rest d n hp hk hn => rw [hp] at hpr; revert hpr; cases d <;> simp
  | fForwardPost c rest d hp hk => rw [hp] at hpr; revert hpr; cases d <;> simp
  | fEnter c rest d hp hk hf => rw [hp] at hpr; revert hpr; cases d <;> simp
  | rRefLoad c hm => have : s.rets = [] := List.eq_nil_of_length_eq_zero (by omega); rw [this] at hm; simp at hm
  | rRetire c n hm => have : s.retsLd = [] := List.eq_nil_of_length_eq_zero (by omega); rw [this] at hm; simp at hm
  | fDec k hp => rw [hp] at hpr; simp at hpr
  | jInvoke c hm => rw [hj] at hm; simp at hm
  | jDec c hm => rw [hjr] at hm; simp at hm
  | oLoad t op rest k x hp ht hk hr hx => have := hr0 t; omega
  | oRdLoad t op rest x hp ht hop hr hx => have := hr0 t; omega
  | oCopy t rest hp ht hr => have := hr0 t; omega
  | oDrop t rest hp ht hr => have := hr0 t; omega
  | oCasOk t c e hp hw => have := hidle t; rw [hp] at this; cases this
  | oCasFail t c e x hp hw hx => have := hidle t; rw [hp] at this; cases this
  | oCasSpur t c e x hp hw hx => have := hidle t; rw [hp] at this; cases this
  | oInvoke t c hp hk => have := hidle t; rw [hp] at this; cases this
  | oIncRef t c hp hk => have := hidle t; rw [hp] at this; cases this
  | oSubmit t c hp => have := hidle t; rw [hp] at this; cases this
  | oForward t c hp hk => have := hidle t; rw [hp] at this; cases this
  | oEnter t c hp hk => have := hidle t; rw [hp] at this; cases this
  | oWaited t c rest hp ht hf => have := hidle t; rw [hp] at this; cases this
  | oGetc t c rest hp ht hf => have := hidle t; rw [hp] at this; cases this
  | oGetRef t c rest hp ht hf => have := hidle t; rw [hp] at this; cases this
  | oGot t n hp => have := hidle t; rw [hp] at this; cases this
  | oReady t x hp => have := hidle t; rw [hp] at this; cases this
  | oTouch t hp => have := hidle t; rw [hp] at this; cases this

theorem holdSum_zero (f : Nat → Obs) (n : Nat) (h : ∀ t, (f t).refs = 0) : holdSum f n = 0 := by
  induction n with
  | zero => rfl
  | succ k ih => simp [holdSum, ih, h k]

/-- … and it IS freed: in a quiescent state in which every observer has destroyed all its copies the core has been
    deleted (exactly once, by `freed_at_most_once`) -/
theorem quiescent_released (h : Reachable w s) (hq : ∀ l s', ¬ Step s l s') (hr : ∀ t, (s.obs t).refs = 0) :
    s.count = 0 ∧ s.freed = 1 := by
  have hi := inv_reachable h
  obtain ⟨hf, hj, hjr, _, _, _⟩ := quiescent_complete h hq
  obtain ⟨hrt, hrl⟩ := rets_nil_of_quiescent hq
  have hw : s.word = .result := hi.a.word_iff.mpr (by rw [hf]; simp)
  have hcnt := hi.r.cnt
  have hh : s.holders = 0 := by rw [hi.z.sum]; exact holdSum_zero _ _ hr
  rw [hf, hj, hjr, hw, hh, hrt, hrl] at hcnt
  simp at hcnt
  exact ⟨hcnt, (freed_iff_count_zero h).mpr hcnt⟩

/-! ### moving the value out -/

/-- `Get() &&` moves the value out only when the counter it read was 1, and then that observer's is the only reference
    in existence: the promise has released all three of its references, no executor job holds one, no combinator
    callback is waiting in a list or for its `Retire()`, and **no other observer holds a SharedFuture** -/
theorem observer_moves_only_as_sole_owner (h : Reachable w s) {l : Label} {s' : State} (hs : Step s l s') {t : Nat}
    (hl : ∃ r, l = .oGot t r true) :
    s.count = 1 ∧ s.fpc = .dec 0 ∧ s.jobs = [] ∧ s.jobsRun = [] ∧ s.rets = [] ∧ s.retsLd = [] ∧ (s.obs t).refs = 1 ∧
    ∀ t', t' ≠ t → (s.obs t').refs = 0 := by
  have hi := inv_reachable h
  obtain ⟨r, hl⟩ := hl
  cases hs with
  | oGot t' n hp =>
      injection hl with h1 h2 h3
      subst h1
      have hn : n = 1 := by simpa using h3
      have hc := (hi.r.o_got t' n hp).2 hn
      have hpos := hi.z.busy t' (by rw [hp]; simp)
      have hcnt := hi.r.cnt
      have hle := hi.z.le t'
      rw [hc] at hcnt
      have hpr : promRefs s.fpc = 0 := by omega
      have hfp : s.fpc = .dec 0 := by
        cases hp : s.fpc with
        | start => rw [hp] at hpr; simp at hpr
        | walk l d st => rw [hp] at hpr; revert hpr; cases d <;> simp
        | dec n => rw [hp] at hpr; simp at hpr; rw [hpr]
      refine ⟨hc, hfp, List.eq_nil_of_length_eq_zero (by omega), List.eq_nil_of_length_eq_zero (by omega),
        List.eq_nil_of_length_eq_zero (by omega), List.eq_nil_of_length_eq_zero (by omega), by omega, ?_⟩
      intro t'' hne
      have := hi.z.two hne
      omega
  | _ => cases hl

/-- `Retire()` — whenever after the entry, on whatever thread the combinator calls it — moves the value out only when the
    counter it read was 1, and then the combinator's is the only reference in existence: promise done, no job, no other
    combinator callback, **no observer holds a SharedFuture**.  In every other case it copies. -/
theorem retire_moves_only_as_sole_owner (h : Reachable w s) {s' : State} {c : Cb} {r : Option Res} {mv : Bool} {n : Nat}
    (hs : Step s (.rRetire c r mv n) s') (hmv : mv = true) :
    s.count = 1 ∧ s.fpc = .dec 0 ∧ s.jobs = [] ∧ s.jobsRun = [] ∧ s.rets = [] ∧ s.retsLd.length = 1 ∧
    ∀ t, (s.obs t).refs = 0 := by
  have hi := inv_reachable h
  cases hs with
  | rRetire _ m hm =>
      have hn : m = 1 := by simpa using hmv
      have hc := (hi.r.ld_refd c m hm).2 hn
      have hcnt := hi.r.cnt
      have hlen : 0 < s.retsLd.length := List.length_pos_of_mem hm
      rw [hc] at hcnt
      have hpr : promRefs s.fpc = 0 := by omega
      have hfp : s.fpc = .dec 0 := by
        cases hp : s.fpc with
        | start => rw [hp] at hpr; simp at hpr
        | walk l d st => rw [hp] at hpr; revert hpr; cases d <;> simp
        | dec n => rw [hp] at hpr; simp at hpr; rw [hpr]
      refine ⟨hc, hfp, List.eq_nil_of_length_eq_zero (by omega), List.eq_nil_of_length_eq_zero (by omega),
        List.eq_nil_of_length_eq_zero (by omega), by omega, ?_⟩
      intro t; have := hi.z.le t; omega

/-- in particular a `Retire()` made while the fulfiller has not finished (e.g. at once inside `Here`, as the Managed
    strategies do) always copies -/
theorem retire_before_fulfiller_done_copies (h : Reachable w s) {s' : State} {c : Cb} {r : Option Res} {mv : Bool} {n : Nat}
    (hs : Step s (.rRetire c r mv n) s') (hp : s.fpc ≠ .dec 0) : mv = false := by
  cases hmv : mv with
  | false => rfl
  | true => exact absurd (retire_moves_only_as_sole_owner h hs hmv).2.1 hp

/-- `Retire()` returns the Result that was set -/
theorem retire_returns_set (h : Reachable w s) : ∀ x ∈ s.retired, x.2.1 = some w.prod.res :=
  (inv_reachable h).a.retired_val

/-- a combinator callback retires only after it was entered, and it was entered only after the fulfilment -/
theorem pending_retire_was_entered_after_set (h : Reachable w s) :
    (∀ c ∈ s.rets, s.word = .result) ∧ (∀ x ∈ s.retsLd, s.word = .result) := by
  have hi := (inv_reachable h).a
  exact ⟨fun c hc => hi.word_iff.mpr (hi.rets_after c hc), fun x hx => hi.word_iff.mpr (hi.retsLd_after x hx)⟩

/-- at quiescence no `Retire()` is pending -/
theorem quiescent_no_pending_retire (_h : Reachable w s) (hq : ∀ l s', ¬ Step s l s') : s.rets = [] ∧ s.retsLd = [] :=
  rets_nil_of_quiescent hq

/-- the fulfiller (running a Connect/Share/Split target as the LAST callback) moves the value out only when the
    counter it read was 2 = the promise's own two remaining references: no observer holds a SharedFuture, no job and
    no When-style callback holds a reference -/
theorem fulfiller_moves_only_without_holders (h : Reachable w s) {s' : State} {c : Cb} {r : Option Res} {mv : Bool}
    (hs : Step s (.fForward c r mv) s') (hmv : mv = true) :
    s.count = 2 ∧ s.jobs = [] ∧ s.jobsRun = [] ∧ walkList s.fpc = [c] ∧ ∀ t, (s.obs t).refs = 0 := by
  have hi := inv_reachable h
  cases hs with
  | fForwardPost _ rest d hp hk => exact absurd hp (hi.r.f_post _ _)
  | fForward _ rest d n hp hk hn =>
      have hlt : n < 3 := by simpa using hmv
      have hr := hi.r.f_refd c rest d n hp
      have hn2 : n = 2 := by omega
      have hc := hr.2 hn2
      have hcnt := hi.r.cnt
      have hne := hi.a.walk_ne _ _ _ hp
      have hd : d = true → rest = [] := by simpa using hne.2.1
      have hcf : rest = [] → d = true := by simpa [canFire] using hne.2.2 (by simp)
      rw [hc, hp] at hcnt
      simp only [promRefs_walk, walkList_walk, retCnt_cons] at hcnt
      have hdt : d = true := by
        cases d with
        | true => rfl
        | false => simp at hcnt; omega
      have hrest := hd hdt
      subst hdt; subst hrest
      simp at hcnt
      have hj : s.jobs = [] := List.eq_nil_of_length_eq_zero (by omega)
      have hjr : s.jobsRun = [] := List.eq_nil_of_length_eq_zero (by omega)
      refine ⟨hc, hj, hjr, by rw [hp]; rfl, ?_⟩
      intro t; have := hi.z.le t; omega

/-- the `if (ref == 1) caller.DecRef()` branch of `ResultCore::Impl` is dead when the caller is a shared core -/
theorem target_never_sees_ref_one (h : Reachable w s) : ∀ l d, s.fpc ≠ .walk l d (.refd 1) ∧ s.fpc ≠ .walk l d .post := by
  intro l d
  refine ⟨?_, (inv_reachable h).r.f_post l d⟩
  intro hp
  cases l with
  | nil => exact absurd rfl ((inv_reachable h).a.walk_ne _ _ _ hp).1
  | cons c rest => have := ((inv_reachable h).r.f_refd c rest d 1 hp).1; omega

/-- after a move-out nobody reads the value any more (sequentially consistent level; that the reads made *before*
    the move happen-before it is the memory-model matter D9 / C04) -/
theorem no_read_after_moveout (h : Reachable w s) (hm : s.movedOut = true) {l : Label} {s' : State} (hs : Step s l s') :
    l.reads = false := by
  have hi := inv_reachable h
  obtain ⟨hwalk, hstart, hj, hjr, _, _, hrl⟩ := hi.r.moved hm
  have hobs : ∀ t, (s.obs t).pc ≠ .idle → False := fun t hne => hne (hi.r.moved_obs t hm (hi.z.busy t hne)).1
  cases hs with
  | fInvoke c rest d hp hk hf => exact absurd hp (hwalk _ _ _)
  | fForward c rest d n hp hk hn => exact absurd hp (hwalk _ _ _)
  | fForwardPost c rest d hp hk => exact absurd hp (hwalk _ _ _)
  | rRetire c n hmem => rw [hrl] at hmem; simp at hmem
  | jInvoke c hmem => rw [hj] at hmem; simp at hmem
  | oInvoke t c hp hk => exact (hobs t (by rw [hp]; simp)).elim
  | oForward t c hp hk => exact (hobs t (by rw [hp]; simp)).elim
  | oGetc t c rest hp ht hf => exact (hobs t (by rw [hp]; simp)).elim
  | oGot t n hp => exact (hobs t (by rw [hp]; simp)).elim
  | oTouch t hp => exact (hobs t (by rw [hp]; simp)).elim
  | _ => rfl

/-- and the value is moved out at most once -/
theorem no_second_moveout (h : Reachable w s) (hm : s.movedOut = true) {l : Label} {s' : State} (hs : Step s l s') :
    l.moves = false := by
  have := no_read_after_moveout h hm hs
  cases l <;> simp_all [Label.reads, Label.moves]

/-! ### Ready()

`SharedFutureBase::Ready()` is `BaseCore::Ready()`: one acquire load of the word, true iff it returned kResult
(`Step.oReady` reports `decide (x = .result)` for the loaded value `x`, which `readyObs` records together with
"was the storage constructed at the moment of the report"). -/

/-- `Ready() == true` ⇒ the storage is constructed — in every reachable state of every workload, stale loads included -/
theorem ready_sound (h : Reachable w s) : ∀ x ∈ s.readyObs, x.1 = .result → x.2 = true :=
  (inv_reachable h).a.ready_obs

/-- the same at the step that reports: whenever `Ready()` returns true the storage holds exactly the Result that was set -/
theorem ready_true_means_stored (h : Reachable w s) {l : Label} {s' : State} (hs : Step s l s') {t : Nat}
    (hl : l = .oReady t true) : s.word = .result ∧ s.stored = some w.prod.res := by
  have hi := (inv_reachable h).a
  cases hs with
  | oReady t' x hp =>
      injection hl with h1 h2
      subst h1
      have hx : x = .result := by simpa using h2
      subst hx
      have hne := hi.rep_res t' hp
      exact ⟨hi.word_iff.mpr hne, by rw [hi.stored_eq, if_neg hne]⟩
  | _ => cases hl

/-- the `Touch()` that `Ready() == true` licenses reads the Result that was set (never unconstructed storage) -/
theorem touch_reads_set (h : Reachable w s) : ∀ x ∈ s.touchObs, x = some w.prod.res :=
  (inv_reachable h).a.touch_val

/-- hence the validator's rules `oReady.true.unset` and `oTouch.none` are unreachable -/
theorem touch_never_reads_unconstructed (h : Reachable w s) : none ∉ s.touchObs := by
  intro hm; have := touch_reads_set h none hm; cases this

/-
Defect D3 of the pinned tree, fixed by /repo c9c07bc. Before the fix `Ready()` was `!_core->Empty()`, i.e. "the word is
not kEmpty", which for a shared core is also true while callbacks are merely registered; `ready_sound` was false and
this file contained the negation on a witness instead:

    theorem ready_sound_violated_witness :
        ∃ (w : Workload) (s : State), Reachable w s ∧ s.fpc = .start ∧ s.stored = none ∧
          (∃ x ∈ s.readyObs, x.1 ≠ .list [] ∧ x.2 = false) ∧ none ∈ s.touchObs
    -- w = ⟨.set (.val 42), [[.attach .inl, .drop], [.readyTouch, .drop]]⟩, run through `next`:
    --   oLoad 0 (.list []) ; oCasOk 0 ; oRdLoad 1 (.list [c0]) ; oReady 1 true ; oTouch 1 none

Exhibited by this check on the real library before the fix (3 827 of 520 936 quick executions):
    scenario: shared prod=set:42 exec=now o0=sub_inline,drop o1=ready_touch,drop
    choices:  k1/3 p0/2 p0/2 w0/2 p0/2 p0/2 k1/2 p0/2 p0/2 p0/2
    trace:    o0 A w load acq - -> empty | o0 A w cas_weak rel/acq empty>cb0 -> ok | o0 A cnt fsub rel 1 -> 5 |
              o1 A w load acq - -> cb0 | o1 E ready 1 | o1 E touch none | o1 A cnt fsub rel 1 -> 4 |
              p A w xchg acq_rel result -> cb0 | p A cnt fsub rel 1 -> 3 | p E invoke o0.0 val:42 | …
The harness monitor "Ready() == true ⇒ Touch() reads the set value" is unchanged and must stay quiet now.
-/

/-- everything the trace validator accepts is a behaviour the theorems speak about -/
theorem validator_sound {l : Label} {s' : State} (h : Reachable w s) (hn : next s l = some s') : Reachable w s' :=
  .step h (next_sound hn)

/-! ### non-vacuity: concrete workloads reach the interesting states -/

/-- two observers push (LIFO), then Set: the fulfiller fires the head first, drops one reference, fires the last;
    both see 42; after the observers destroyed their copies the core is freed -/
example : ∃ s, Reachable ⟨.set (.val 42), [[.attach .inl, .drop], [.attach .inl, .drop]]⟩ s ∧
    s.fired = [(⟨1, 0, .inl⟩, some (.val 42)), (⟨0, 0, .inl⟩, some (.val 42))] ∧ s.count = 0 ∧ s.freed = 1 := by
  let w : Workload := ⟨.set (.val 42), [[.attach .inl, .drop], [.attach .inl, .drop]]⟩
  let c0 : Cb := ⟨0, 0, .inl⟩
  let c1 : Cb := ⟨1, 0, .inl⟩
  have h0 : Reachable w (init w) := .init
  have h1 := validator_sound h0 (l := .oLoad 0 (.list [])) (s' := _) rfl
  have h2 := validator_sound h1 (l := .oCasOk 0) (s' := _) rfl
  have h3 := validator_sound h2 (l := .oLoad 1 (.list [c0])) (s' := _) rfl
  have h4 := validator_sound h3 (l := .oCasOk 1) (s' := _) rfl
  have h5 := validator_sound h4 (l := .fXchg (.list [c1, c0])) (s' := _) rfl
  have h6 := validator_sound h5 (l := .fInvoke c1 (some (.val 42))) (s' := _) rfl
  have h7 := validator_sound h6 (l := .fDec 5) (s' := _) rfl
  have h8 := validator_sound h7 (l := .fInvoke c0 (some (.val 42))) (s' := _) rfl
  have h9 := validator_sound h8 (l := .fDec 4) (s' := _) rfl
  have h10 := validator_sound h9 (l := .fDec 3) (s' := _) rfl
  have h11 := validator_sound h10 (l := .oDrop 0 2) (s' := _) rfl
  have h12 := validator_sound h11 (l := .oDrop 1 1) (s' := _) rfl
  exact ⟨_, h12, rfl, rfl, rfl⟩

/-- Set first; `Then(e, f)` then finds the result — after a stale pre-check load and a failed CAS — takes a
    reference for its job and submits it; the job outlives every SharedFuture and frees the core itself -/
example : ∃ s, Reachable ⟨.set (.val 42), [[.attach .exec, .drop]]⟩ s ∧
    s.fired = [(⟨0, 0, .exec⟩, some (.val 42))] ∧ s.count = 0 ∧ s.freed = 1 := by
  let w : Workload := ⟨.set (.val 42), [[.attach .exec, .drop]]⟩
  let c : Cb := ⟨0, 0, .exec⟩
  have h0 : Reachable w (init w) := .init
  have h1 := validator_sound h0 (l := .fXchg (.list [])) (s' := _) rfl
  have h2 := validator_sound h1 (l := .oLoad 0 (.list [])) (s' := _) rfl      -- stale
  have h3 := validator_sound h2 (l := .oCasFail 0 .result) (s' := _) rfl
  have h4 := validator_sound h3 (l := .oIncRef 0 4) (s' := _) rfl
  have h5 := validator_sound h4 (l := .oSubmit 0 c) (s' := _) rfl
  have h6 := validator_sound h5 (l := .fDec 5) (s' := _) rfl
  have h7 := validator_sound h6 (l := .fDec 4) (s' := _) rfl
  have h8 := validator_sound h7 (l := .fDec 3) (s' := _) rfl
  have h9 := validator_sound h8 (l := .oDrop 0 2) (s' := _) rfl
  have h10 := validator_sound h9 (l := .jInvoke c (some (.val 42))) (s' := _) rfl
  have h11 := validator_sound h10 (l := .jDec c 1) (s' := _) rfl
  exact ⟨_, h11, rfl, rfl, rfl⟩

/-- `std::move(sf).Get()` by the last holder after the promise is completely done: GetRef() == 1, the value is moved -/
example : ∃ s, Reachable ⟨.set (.val 42), [[.getMove]]⟩ s ∧ s.got = [(0, some (.val 42), true)] ∧
    s.movedOut = true ∧ s.freed = 1 := by
  let w : Workload := ⟨.set (.val 42), [[.getMove]]⟩
  have h0 : Reachable w (init w) := .init
  have h1 := validator_sound h0 (l := .fXchg (.list [])) (s' := _) rfl
  have h2 := validator_sound h1 (l := .fDec 4) (s' := _) rfl
  have h3 := validator_sound h2 (l := .fDec 3) (s' := _) rfl
  have h4 := validator_sound h3 (l := .fDec 2) (s' := _) rfl
  have h5 := validator_sound h4 (l := .oLoad 0 .result) (s' := _) rfl
  have h6 := validator_sound h5 (l := .oGetRef 0 1) (s' := _) rfl
  have h7 := validator_sound h6 (l := .oGot 0 (some (.val 42)) true) (s' := _) rfl
  have h8 := validator_sound h7 (l := .oDrop 0 1) (s' := _) rfl
  exact ⟨_, h8, rfl, rfl, rfl⟩

/-- Connect/Share target attached, the future destroyed, then Set: the target is the last callback, the fulfiller reads
    GetRef() == 2 after its first DecRef and moves the value into the target -/
example : ∃ s, Reachable ⟨.drop, [[.attach .target, .drop]]⟩ s ∧ s.fired = [(⟨0, 0, .target⟩, some .err)] ∧
    s.movedOut = true ∧ s.freed = 1 := by
  let w : Workload := ⟨.drop, [[.attach .target, .drop]]⟩
  let c : Cb := ⟨0, 0, .target⟩
  have h0 : Reachable w (init w) := .init
  have h1 := validator_sound h0 (l := .oLoad 0 (.list [])) (s' := _) rfl
  have h2 := validator_sound h1 (l := .oCasSpur 0 (.list [])) (s' := _) rfl   -- a spurious failure of the weak CAS
  have h3 := validator_sound h2 (l := .oCasOk 0) (s' := _) rfl
  have h4 := validator_sound h3 (l := .oDrop 0 4) (s' := _) rfl
  have h5 := validator_sound h4 (l := .fXchg (.list [c])) (s' := _) rfl
  have h6 := validator_sound h5 (l := .fDec 3) (s' := _) rfl
  have h7 := validator_sound h6 (l := .fRefLoad 2) (s' := _) rfl
  have h8 := validator_sound h7 (l := .fForward c (some .err) true) (s' := _) rfl
  have h9 := validator_sound h8 (l := .fDec 2) (s' := _) rfl
  have h10 := validator_sound h9 (l := .fDec 1) (s' := _) rfl
  exact ⟨_, h10, rfl, rfl, rfl⟩

/-- a combinator callback (Owned strategy): entered by the fulfiller's walk, `Retire()` only after the fulfiller has
    finished — by then the combinator's is the last reference, so the value is moved and the core freed -/
example : ∃ s, Reachable ⟨.set (.val 42), [[.attach .retire]]⟩ s ∧ s.fired = [(⟨0, 0, .retire⟩, some (.val 42))] ∧
    s.retired = [(⟨0, 0, .retire⟩, some (.val 42), true)] ∧ s.movedOut = true ∧ s.freed = 1 := by
  let w : Workload := ⟨.set (.val 42), [[.attach .retire]]⟩
  let c : Cb := ⟨0, 0, .retire⟩
  have h0 : Reachable w (init w) := .init
  have h1 := validator_sound h0 (l := .oLoad 0 (.list [])) (s' := _) rfl
  have h2 := validator_sound h1 (l := .oCasOk 0) (s' := _) rfl
  have h3 := validator_sound h2 (l := .fXchg (.list [c])) (s' := _) rfl
  have h4 := validator_sound h3 (l := .fDec 4) (s' := _) rfl
  have h5 := validator_sound h4 (l := .fEnter c) (s' := _) rfl
  have h6 := validator_sound h5 (l := .fDec 3) (s' := _) rfl
  have h7 := validator_sound h6 (l := .fDec 2) (s' := _) rfl
  have h8 := validator_sound h7 (l := .rRefLoad c 1) (s' := _) rfl
  have h9 := validator_sound h8 (l := .rRetire c (some (.val 42)) true 1) (s' := _) rfl
  exact ⟨_, h9, rfl, rfl, rfl, rfl⟩

end Yaclib.Props.C06

/-! ### tie to the source (T2): the kernels this model was written from are unchanged.
`Extracted/Kernels.lean` is regenerated from /repo on every check run. -/
namespace Yaclib.Props.C06.Tie
open Yaclib

theorem tie_BaseCore_SetCallbackImpl : Extracted.Kernels.BaseCore_SetCallbackImpl = Skeletons.BaseCore_SetCallbackImpl := rfl
theorem tie_BaseCore_SetInlineImpl : Extracted.Kernels.BaseCore_SetInlineImpl = Skeletons.BaseCore_SetInlineImpl := rfl
theorem tie_BaseCore_SetResultImpl : Extracted.Kernels.BaseCore_SetResultImpl = Skeletons.BaseCore_SetResultImpl := rfl
theorem tie_BaseCore_Empty : Extracted.Kernels.BaseCore_Empty = Skeletons.BaseCore_Empty := rfl
theorem tie_BaseCore_Ready : Extracted.Kernels.BaseCore_Ready = Skeletons.BaseCore_Ready := rfl
theorem tie_ResultCore_Impl : Extracted.Kernels.ResultCore_Impl = Skeletons.ResultCore_Impl := rfl
theorem tie_Core_Impl : Extracted.Kernels.Core_Impl = Skeletons.Core_Impl := rfl
theorem tie_Core_Done : Extracted.Kernels.Core_Done = Skeletons.Core_Done := rfl
theorem tie_Core_Call : Extracted.Kernels.Core_Call = Skeletons.Core_Call := rfl
theorem tie_SharedCore_Retire : Extracted.Kernels.SharedCore_Retire = Skeletons.SharedCore_Retire := rfl
theorem tie_SharedCore_Here : Extracted.Kernels.SharedCore_Here = Skeletons.SharedCore_Here := rfl
theorem tie_SharedCore_SetCallback : Extracted.Kernels.SharedCore_SetCallback = Skeletons.SharedCore_SetCallback := rfl
theorem tie_SharedCore_SetInline : Extracted.Kernels.SharedCore_SetInline = Skeletons.SharedCore_SetInline := rfl
theorem tie_SharedCore_SetResult : Extracted.Kernels.SharedCore_SetResult = Skeletons.SharedCore_SetResult := rfl
theorem tie_SharedFutureBase_Ready : Extracted.Kernels.SharedFutureBase_Ready = Skeletons.SharedFutureBase_Ready := rfl
theorem tie_SharedFutureBase_GetMove : Extracted.Kernels.SharedFutureBase_GetMove = Skeletons.SharedFutureBase_GetMove := rfl
theorem tie_SharedFutureBase_GetConst : Extracted.Kernels.SharedFutureBase_GetConst = Skeletons.SharedFutureBase_GetConst := rfl
theorem tie_SharedFutureBase_TouchMove : Extracted.Kernels.SharedFutureBase_TouchMove = Skeletons.SharedFutureBase_TouchMove := rfl
theorem tie_SharedFutureBase_TouchConst : Extracted.Kernels.SharedFutureBase_TouchConst = Skeletons.SharedFutureBase_TouchConst := rfl
theorem tie_SharedFutureBase_ThenOn : Extracted.Kernels.SharedFutureBase_ThenOn = Skeletons.SharedFutureBase_ThenOn := rfl
theorem tie_SharedFutureBase_SubscribeInline : Extracted.Kernels.SharedFutureBase_SubscribeInline = Skeletons.SharedFutureBase_SubscribeInline := rfl
theorem tie_SharedFutureBase_Subscribe : Extracted.Kernels.SharedFutureBase_Subscribe = Skeletons.SharedFutureBase_Subscribe := rfl
theorem tie_SharedFuture_ThenInline : Extracted.Kernels.SharedFuture_ThenInline = Skeletons.SharedFuture_ThenInline := rfl
theorem tie_SharedFutureBase_GetHandle : Extracted.Kernels.SharedFutureBase_GetHandle = Skeletons.SharedFutureBase_GetHandle := rfl
theorem tie_SharedPromise_Set : Extracted.Kernels.SharedPromise_Set = Skeletons.SharedPromise_Set := rfl
theorem tie_SharedPromise_dtor : Extracted.Kernels.SharedPromise_dtor = Skeletons.SharedPromise_dtor := rfl
theorem tie_MakeSharedContract : Extracted.Kernels.MakeSharedContract = Skeletons.MakeSharedContract := rfl
theorem tie_MakeShared : Extracted.Kernels.MakeShared = Skeletons.MakeShared := rfl
theorem tie_SharedHandle_SetCallback : Extracted.Kernels.SharedHandle_SetCallback = Skeletons.SharedHandle_SetCallback := rfl
theorem tie_detail_SetCallback : Extracted.Kernels.detail_SetCallback = Skeletons.detail_SetCallback := rfl
theorem tie_Connect_Unique : Extracted.Kernels.Connect_Unique = Skeletons.Connect_Unique := rfl
theorem tie_WaitRange : Extracted.Kernels.WaitRange = Skeletons.WaitRange := rfl
theorem tie_WaitCore : Extracted.Kernels.WaitCore = Skeletons.WaitCore := rfl
theorem tie_CallCallback_Impl : Extracted.Kernels.CallCallback_Impl = Skeletons.CallCallback_Impl := rfl
theorem tie_MutexEvent_Set : Extracted.Kernels.MutexEvent_Set = Skeletons.MutexEvent_Set := rfl
theorem tie_MutexEvent_Wait : Extracted.Kernels.MutexEvent_Wait = Skeletons.MutexEvent_Wait := rfl
theorem tie_AtomicCounter_Add : Extracted.Kernels.AtomicCounter_Add = Skeletons.AtomicCounter_Add := rfl
theorem tie_AtomicCounter_Sub : Extracted.Kernels.AtomicCounter_Sub = Skeletons.AtomicCounter_Sub := rfl
theorem tie_AtomicCounter_Get : Extracted.Kernels.AtomicCounter_Get = Skeletons.AtomicCounter_Get := rfl
theorem tie_AtomicCounter_SubEqual : Extracted.Kernels.AtomicCounter_SubEqual = Skeletons.AtomicCounter_SubEqual := rfl
theorem tie_Helper_IncRef : Extracted.Kernels.Helper_IncRef = Skeletons.Helper_IncRef := rfl
theorem tie_Helper_DecRef : Extracted.Kernels.Helper_DecRef = Skeletons.Helper_DecRef := rfl
theorem tie_Helper_GetRef : Extracted.Kernels.Helper_GetRef = Skeletons.Helper_GetRef := rfl
theorem tie_IntrusivePtr_copy_from_raw : Extracted.Kernels.IntrusivePtr_copy_from_raw = Skeletons.IntrusivePtr_copy_from_raw := rfl
theorem tie_IntrusivePtr_dtor : Extracted.Kernels.IntrusivePtr_dtor = Skeletons.IntrusivePtr_dtor := rfl
theorem tie_When_ConsumeImpl : Extracted.Kernels.When_ConsumeImpl = Skeletons.When_ConsumeImpl := rfl
theorem tie_When_CombinatorCallback_Impl : Extracted.Kernels.When_CombinatorCallback_Impl = Skeletons.When_CombinatorCallback_Impl := rfl
theorem tie_AwaitAwaiterBase_await_ready : Extracted.Kernels.AwaitAwaiterBase_await_ready = Skeletons.AwaitAwaiterBase_await_ready := rfl
theorem tie_InlineCore_Loop : Extracted.Kernels.InlineCore_Loop = Skeletons.InlineCore_Loop := rfl
theorem tie_SharedCore_Next : Extracted.Kernels.SharedCore_Next = Skeletons.SharedCore_Next := rfl
theorem tie_Split : Extracted.Kernels.Split = Skeletons.Split := rfl
theorem tie_Share : Extracted.Kernels.Share = Skeletons.Share := rfl
theorem tie_MakeSharedContractOn : Extracted.Kernels.MakeSharedContractOn = Skeletons.MakeSharedContractOn := rfl
theorem tie_SharedFutureOn_On : Extracted.Kernels.SharedFutureOn_On = Skeletons.SharedFutureOn_On := rfl
theorem tie_UniqueCore_Here : Extracted.Kernels.UniqueCore_Here = Skeletons.UniqueCore_Here := rfl
theorem tie_Promise_Set : Extracted.Kernels.Promise_Set = Skeletons.Promise_Set := rfl
theorem tie_Promise_dtor : Extracted.Kernels.Promise_dtor = Skeletons.Promise_dtor := rfl
theorem tie_Destroy_await_suspend : Extracted.Kernels.Destroy_await_suspend = Skeletons.Destroy_await_suspend := rfl
theorem tie_PromiseType_return_value : Extracted.Kernels.PromiseType_return_value = Skeletons.PromiseType_return_value := rfl
theorem tie_PromiseTypeDeleter_Delete : Extracted.Kernels.PromiseTypeDeleter_Delete = Skeletons.PromiseTypeDeleter_Delete := rfl

end Yaclib.Props.C06.Tie
