/- Invariants of the C18 model `Mx` (Mutex / TimedMutex / ConditionVariable), Model/FiberSync.lean. -/
import YaclibModel.Model.FiberSync

namespace Yaclib.FiberSync.Mx
open Yaclib.FiberSync

structure Inv (k : Bool) (s : State) : Prop where
  hk : s.timed = k
  /-- `_occupied == false` ⇒ nobody holds the lock -/
  occ_free : s.occupied = false → s.holders = []
  len : s.holders.length ≤ 1
  occ_held : s.occupied = true → s.holders ≠ []
  /-- fibers in transit are runnable: they re-evaluate the lock condition next -/
  transit_pc : ∀ g, g ∈ s.transit → (s.pc g).woken = true
  /-- no lost wake-up: a free mutex with parked lockers has a notified locker on its way -/
  free_transit : s.occupied = false → s.mq ≠ [] → s.transit ≠ []
  mq_pc : ∀ g, g ∈ s.mq → (s.pc g).inMq = true
  pc_mq : ∀ g, (s.pc g).inMq = true → g ∈ s.mq
  cq_pc : ∀ g, g ∈ s.cq → (s.pc g).inCq = true
  pc_cq : ∀ g, (s.pc g).inCq = true → g ∈ s.cq
  dl_tlf : ∀ g r d, s.pc g = .tlfParked r d → r ≤ d
  dl_cv : ∀ g r d, s.pc g = .cvTimed r d → r ≤ d
  /-- only a `timed_mutex` has fibers inside `TimedWaitHelper` -/
  tlf_timed : ∀ g r d, s.pc g = .tlfParked r d → s.timed = true
  tlfl_timed : ∀ g r, s.pc g = .tlfLocking r → s.timed = true

theorem inv_init (k : Bool) (n : Nat) : Inv k (init k n) := by
  constructor <;> (simp only [init]) <;> grind [Pc.woken, Pc.inMq, Pc.inCq]

@[simp] theorem woken_locking (k : Kont) : (Pc.locking k).woken = true := rfl
@[simp] theorem woken_tlfLocking (r : Nat) : (Pc.tlfLocking r).woken = true := rfl
@[simp] theorem woken_idle : Pc.idle.woken = false := rfl
@[simp] theorem inMq_lockParked (k : Kont) : (Pc.lockParked k).inMq = true := rfl
@[simp] theorem inMq_tlfParked (r d : Nat) : (Pc.tlfParked r d).inMq = true := rfl
@[simp] theorem inCq_cvParked : Pc.cvParked.inCq = true := rfl
@[simp] theorem inCq_cvTimed (r d : Nat) : (Pc.cvTimed r d).inCq = true := rfl

theorem woken_wake {p : Pc} (h : p.inMq = true) : (wake p).woken = true := by
  cases p <;> simp_all [Pc.inMq, wake, Pc.woken]
theorem wake_not_inMq {p : Pc} (h : p.inMq = true) : (wake p).inMq = false := by
  cases p <;> simp_all [Pc.inMq, wake]
theorem wake_not_inCq {p : Pc} (h : p.inMq = true) : (wake p).inCq = false := by
  cases p <;> simp_all [Pc.inMq, wake, Pc.inCq]
theorem wake_ne_tlfParked {p : Pc} (h : p.inMq = true) (r d : Nat) : wake p ≠ .tlfParked r d := by
  cases p <;> simp_all [Pc.inMq, wake]
theorem wake_ne_cvTimed {p : Pc} (h : p.inMq = true) (r d : Nat) : wake p ≠ .cvTimed r d := by
  cases p <;> simp_all [Pc.inMq, wake]
theorem wake_tlfLocking {p : Pc} {r : Nat} (h : wake p = .tlfLocking r) :
    (∃ d, p = .tlfParked r d) ∨ p = .tlfLocking r := by
  cases p <;> simp_all [wake]
theorem inMq_not_woken {p : Pc} (h : p.inMq = true) : p.woken = false := by
  cases p <;> simp_all [Pc.inMq, Pc.woken]
theorem inCq_not_woken {p : Pc} (h : p.inCq = true) : p.woken = false := by
  cases p <;> simp_all [Pc.inCq, Pc.woken]
theorem inCq_not_inMq {p : Pc} (h : p.inCq = true) : p.inMq = false := by
  cases p <;> simp_all [Pc.inCq, Pc.inMq]

theorem erase_nil_of_len_le_one {l : List Fid} {f : Fid} (h : f ∈ l) (hl : l.length ≤ 1) : l.erase f = [] := by
  have := List.length_erase_of_mem h
  exact List.length_eq_zero_iff.mp (by omega)

theorem length_erase_mem {l : List Fid} {f : Fid} (h : f ∈ l) : (l.erase f).length + 1 = l.length := by
  have := List.length_erase_of_mem h
  have : 0 < l.length := List.length_pos_of_mem h
  omega

macro "mx_auto" : tactic =>
  `(tactic| (constructor <;> (try simp only [acquire, doLockPark, release, notifyM, doTlfPark, doTlfTimeout, doCvWait,
      doCvWaitFor, doCvWaitUntil, doCvTimeout, doNotifyOne, doNotifyAll, doTlfRepark, PickOk] at *) <;>
      grind [upd_apply, mem_rm, rm_ne_nil, woken_wake, wake_not_inMq, wake_not_inCq, wake_ne_tlfParked, wake_ne_cvTimed, wake_tlfLocking,
        inMq_not_woken, inCq_not_woken, inCq_not_inMq, length_erase_mem, erase_nil_of_len_le_one, List.length_append, Pc.woken, Pc.inMq, Pc.inCq]))

/-- splits the preservation proof over several files so that they compile in parallel -/
def grpOf : Label → Nat
  | .lockStart _ => 0 | .lockAcq _ => 0 | .lockPark _ => 0 | .tryLock _ _ => 0 | .finish _ => 0
  | .sleepStart _ _ _ => 0 | .sleepWake _ _ => 0
  | .unlock _ _ => 1
  | .tlfAcq _ => 2 | .tlfPark _ _ _ _ => 2 | .tlfTimeout _ _ => 2 | .tlfRepark _ _ => 2
  | .cvWait _ _ => 3
  | .cvWaitFor _ _ _ _ _ => 4
  | .cvWaitUntil _ _ _ _ _ => 6
  | .cvTimeout _ _ => 5 | .notifyOne _ _ => 5 | .notifyAll _ => 5

end Yaclib.FiberSync.Mx
