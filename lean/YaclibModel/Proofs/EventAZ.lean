/- C16: preservation of the invariants of part 1 (futures; release only after zero) -/
import YaclibModel.Proofs.Event

namespace Yaclib.Event
variable {s s' : State} {l : Label} {w : Workload}

/-- unfolds the effect of a step down to record updates -/
macro "ev_unfold" : tactic => `(tactic| simp only [doAdd, doSub, doInsAdd, insNext, insFail, doInsLoad, doInsCasOk, doFulfil, doCbSub,
  runNext, doXchgHead, touch, doRunLock, doRunUnlock, decJob, doRunDec, doRunRel, newJob, notAdded, tryWith, doStartLoad, doPushed,
  doBLock, doBSleep, doBUnlockRet, doBDec, doRep, doResume, finish, goto, setT])

attribute [local grind =] Pc.setter Pc.releasing

set_option maxHeartbeats 2000000 in
theorem invA_step (hi : InvA s) (hs : Step s l s') : InvA s' := by
  cases hi
  cases hs
  all_goals (ev_unfold; repeat' split)
  all_goals constructor
  all_goals grind

set_option maxHeartbeats 2000000 in
theorem invZ_step (hi : InvZ s) (hs : Step s l s') : InvZ s' := by
  cases hi
  cases hs
  all_goals (ev_unfold; repeat' split)
  all_goals constructor
  all_goals grind

theorem invA_reachable (h : Reachable w s) : InvA s := by
  induction h with
  | init => exact invA_init w
  | step _ hs ih => exact invA_step ih hs

theorem invZ_reachable (h : Reachable w s) : InvZ s := by
  induction h with
  | init => exact invZ_init w
  | step _ hs ih => exact invZ_step ih hs

end Yaclib.Event
