import YaclibModel.Proofs.SharedC
namespace Yaclib.Shared

set_option maxHeartbeats 4000000 in
theorem invC_step_2 {w s l s'} (ha : InvA w s) (hi : InvC s) (hs : Step s l s') (hg : grpOf l = 2) : InvC s' := by
  cases ha
  cases hi
  cases hs with
  | oLoad t op rest k x h ht hk hr hx =>
      cases x with
      | list l => invC_auto
      | result =>
          by_cases hke : k = .event
          · subst hke; invC_auto
          · simp only [doLoad, reload, failPath, hke, ↓reduceIte]; invC_auto
  | oCasOk t c e h hw =>
      by_cases hke : c.kind = .event
      · simp only [doCasOk, hke, ↓reduceIte]; invC_auto
      · by_cases hkr : c.kind = .retire
        · simp only [doCasOk, hkr, ↓reduceIte, reduceCtorEq]; invC_auto
        · simp only [doCasOk, hke, hkr, ↓reduceIte]; invC_auto
  | _ => simp [grpOf] at hg

end Yaclib.Shared
