/- C20: every client event preserves handle correspondence and the allocation bound. -/
import YaclibModel.Proofs.PipelineAlloc2

namespace Yaclib.Pipeline
open Yaclib.Extracted

theorem size_clientEv_mono (p : Prog) (h : Handle) (ev : Event) : p.size ≤ (clientEv (p, h) ev).1.size := by
  cases ev <;> cases h <;> simp only [clientEv] <;> try exact Nat.le_refl _
  all_goals first
    | (rw [size_attach]; omega)
    | (split
       · exact Nat.le_refl _
       · rw [size_attach]; omega)
    | exact Nat.le_refl _

theorem cinv_started (cfg : Cfg) (st0 : State) (steps : List Step) (hd flow : Bool) (s : Started) (p' : Prog) (h' : Handle)
    (hc : st0.crashed = false)
    (hh : (h' = .fut ∧ st0.held = true) ∨ (h' = .none ∧ st0.held = false))
    (hgo : ∀ r inh c g, s = .go r inh c g → g.cAlloc + innerSteps steps ≤ p'.size)
    (hwait : ∀ w inh g, s = .wait w inh g → g.cAlloc + innerSteps steps ≤ p'.size ∧ innerWait w = 0)
    (hcrash : ∀ g, s = .crash g → g.cAlloc ≤ p'.size) :
    CInv (started cfg st0 steps hd flow s) p' h' := by
  cases s with
  | go r inh c g =>
    simp only [started]
    exact cinv_settle st0 _ p' h' hc hh (runSteps_alloc cfg steps hd flow _ r inh g _ 0 (by have := hgo r inh c g rfl; omega))
  | wait w inh g =>
    have := hwait w inh g rfl
    simp only [started]
    refine cinv_settle st0 _ p' h' hc hh ?_
    simp only [AllocOut, innerT, innerFrames, this.2]
    omega
  | crash g =>
    simp only [started]
    exact cinv_settle st0 _ p' h' hc hh (by simpa [AllocOut] using hcrash g rfl)

theorem cinv_step (cfg : Cfg) (st : State) (p : Prog) (h : Handle) (ev : Event) (hinv : CInv st p h) :
    CInv (mech cfg st ev) (clientEv (p, h) ev).1 (clientEv (p, h) ev).2 := by
  have hmono := size_clientEv_mono p h ev
  obtain ⟨hh, hb⟩ := hinv
  obtain ⟨ctl, held, ended, got, result, crashed, g⟩ := st
  cases crashed with
  | true =>
    simp only [CBound, ite_true] at hb
    exact ⟨Or.inl (by simp [mech]), by simp only [mech, ite_true, CBound]; omega⟩
  | false =>
  cases hh with
  | inl hc => simp at hc
  | inr hh =>
  simp only [CBound, Bool.false_eq_true, ite_false] at hb
  simp only at hh
  unfold mech
  simp only [Bool.false_eq_true, ite_false]
  cases ctl with
  | idle => exact hh.elim
  | task src steps =>
    obtain ⟨h1, h2⟩ := hh
    subst h1 h2
    simp only at hb
    cases ev with
    | attach s =>
      cases hdm : s.mode.isDetach
      · simp only [clientEv, hdm, Bool.false_eq_true, ite_false]
        refine ⟨Or.inr ⟨rfl, rfl⟩, ?_⟩
        simp only [CBound, Bool.false_eq_true, ite_false, size_attach, innerSteps_append]
        rw [innerSteps, innerSteps]
        simp [G.allocCore, G.allocFunctor]
        omega
      · simp only [clientEv, hdm, ite_true]
        exact ⟨Or.inr ⟨rfl, rfl⟩, by simpa [CBound] using hb⟩
    | start sk =>
      simp only [clientEv]
      have hsp := startLazy_cAlloc cfg src sk.ovr none g
      have hsz : Prog.size { p with start := some sk } = p.size := rfl
      refine cinv_started cfg _ _ _ true _ _ _ rfl ?_ ?_ ?_ ?_
      · cases hk : sk.holds
        · exact Or.inr ⟨by simp, rfl⟩
        · exact Or.inl ⟨by simp, rfl⟩
      · intro r inh c g' hgo
        rw [hgo] at hsp
        rw [innerSteps_overrideHead, hsz, hsp]
        exact hb
      · intro w inh g' hw
        rw [hw] at hsp
        rw [innerSteps_overrideHead, hsz, hsp.1]
        exact ⟨hb, hsp.2⟩
      · intro g' hg
        rw [hg] at hsp
        rw [hsz, hsp]
        omega
    | src s lazy head => exact ⟨Or.inr ⟨rfl, rfl⟩, by simpa [CBound, clientEv] using hb⟩
    | set q => exact ⟨Or.inr ⟨rfl, rfl⟩, by simpa [CBound, clientEv] using hb⟩
    | call k => exact ⟨Or.inr ⟨rfl, rfl⟩, by simpa [CBound, clientEv] using hb⟩
    | dropFuture => exact ⟨Or.inr ⟨rfl, rfl⟩, by simpa [CBound, clientEv] using hb⟩
    | get => exact ⟨Or.inr ⟨rfl, rfl⟩, by simpa [CBound, clientEv] using hb⟩
  | future r inh =>
    obtain ⟨h1, h2⟩ := hh
    subst h1 h2
    simp only at hb
    cases ev with
    | attach s =>
      simp only [clientEv, Bool.not_true, Bool.false_eq_true, ite_false]
      have hacct : AllocOut (Prog.size { p with steps := p.steps ++ [s] }) 0 []
          (runSteps cfg [s] false false none r inh g.allocCore.allocFunctor) := by
        apply runSteps_alloc
        rw [size_attach, innerSteps, innerSteps]
        simp [G.allocCore, G.allocFunctor]
        omega
      cases hdm : s.mode.isDetach
      · simp only [Bool.false_eq_true, ite_false]
        exact cinv_settle _ _ _ _ rfl (Or.inl ⟨rfl, rfl⟩) hacct
      · simp only [ite_true]
        exact cinv_settle _ _ _ _ rfl (Or.inr ⟨rfl, rfl⟩) hacct
    | dropFuture => exact ⟨Or.inr (by simp [clientEv]), by simp [CBound, clientEv, G.freeCore]; omega⟩
    | get => exact ⟨Or.inr (by simp [clientEv]), by simp [CBound, clientEv, G.freeCore]; omega⟩
    | src s lazy head => exact ⟨Or.inr ⟨rfl, rfl⟩, by simpa [CBound, clientEv] using hb⟩
    | set q => exact ⟨Or.inr ⟨rfl, rfl⟩, by simpa [CBound, clientEv] using hb⟩
    | call k => exact ⟨Or.inr ⟨rfl, rfl⟩, by simpa [CBound, clientEv] using hb⟩
    | start sk => exact ⟨Or.inr ⟨rfl, rfl⟩, by simpa [CBound, clientEv] using hb⟩
  | pending t =>
    simp only at hb
    cases ev with
    | attach s =>
      cases hh with
      | inl h1 =>
        obtain ⟨a1, a2⟩ := h1
        subst a1 a2
        simp only [clientEv, Bool.not_true, Bool.false_eq_true, ite_false]
        refine ⟨Or.inr ?_, ?_⟩
        · cases hdm : s.mode.isDetach <;> simp
        · have : CBound ⟨.pending (t.attach s), true, ended, got, result, false, g.allocCore.allocFunctor⟩
              { p with steps := p.steps ++ [s] } := by
            simp only [CBound, Bool.false_eq_true, ite_false, size_attach, innerT_attach]
            simp [G.allocCore, G.allocFunctor]
            omega
          cases hdm : s.mode.isDetach <;> simpa [CBound] using this
      | inr h1 =>
        obtain ⟨a1, a2⟩ := h1
        subst a1 a2
        exact ⟨Or.inr (Or.inr ⟨rfl, rfl⟩), by simpa [CBound, clientEv] using hb⟩
    | set q =>
      simp only [clientEv]
      cases hw : t.wait with
      | job jid k jk => exact ⟨Or.inr hh, by simpa [CBound] using hb⟩
      | promise q' f =>
        simp only []
        by_cases hq : q = q'
        · simp only [hq, ite_true]
          exact cinv_settle _ _ _ _ rfl hh (resume_alloc cfg t none (g.markSet q') _ (by simpa using hb))
        · simp only [hq, ite_false]
          exact ⟨Or.inr hh, by simpa [CBound] using hb⟩
    | call k =>
      simp only [clientEv]
      cases hw : t.wait with
      | promise q' f => exact ⟨Or.inr hh, by simpa [CBound] using hb⟩
      | job jid k' jk =>
        simp only []
        by_cases hq : k = k'
        · simp only [hq, ite_true]
          exact cinv_settle _ _ _ _ rfl hh (resume_alloc cfg t (some k') g _ hb)
        · simp only [hq, ite_false]
          exact ⟨Or.inr hh, by simpa [CBound] using hb⟩
    | dropFuture =>
      cases hh with
      | inl h1 => obtain ⟨a1, a2⟩ := h1; subst a1 a2; exact ⟨Or.inr (Or.inr ⟨rfl, rfl⟩), by simpa [CBound, clientEv] using hb⟩
      | inr h1 => obtain ⟨a1, a2⟩ := h1; subst a1 a2; exact ⟨Or.inr (Or.inr ⟨rfl, rfl⟩), by simpa [CBound, clientEv] using hb⟩
    | get =>
      cases hh with
      | inl h1 => obtain ⟨a1, a2⟩ := h1; subst a1 a2; exact ⟨Or.inr (Or.inr ⟨rfl, rfl⟩), by simpa [CBound, clientEv] using hb⟩
      | inr h1 => obtain ⟨a1, a2⟩ := h1; subst a1 a2; exact ⟨Or.inr (Or.inr ⟨rfl, rfl⟩), by simpa [CBound, clientEv] using hb⟩
    | src s lazy head =>
      cases hh with
      | inl h1 => obtain ⟨a1, a2⟩ := h1; subst a1 a2; exact ⟨Or.inr (Or.inl ⟨rfl, rfl⟩), by simpa [CBound, clientEv] using hb⟩
      | inr h1 => obtain ⟨a1, a2⟩ := h1; subst a1 a2; exact ⟨Or.inr (Or.inr ⟨rfl, rfl⟩), by simpa [CBound, clientEv] using hb⟩
    | start sk =>
      cases hh with
      | inl h1 => obtain ⟨a1, a2⟩ := h1; subst a1 a2; exact ⟨Or.inr (Or.inl ⟨rfl, rfl⟩), by simpa [CBound, clientEv] using hb⟩
      | inr h1 => obtain ⟨a1, a2⟩ := h1; subst a1 a2; exact ⟨Or.inr (Or.inr ⟨rfl, rfl⟩), by simpa [CBound, clientEv] using hb⟩
  | gone =>
    subst hh
    simp only at hb
    cases ev <;> exact ⟨Or.inr rfl, by simpa [CBound, clientEv] using hb⟩

theorem cinv_fold (cfg : Cfg) : ∀ (evs : List Event) (st : State) (p : Prog) (h : Handle), CInv st p h →
    CInv (run cfg st evs) (evs.foldl clientEv (p, h)).1 (evs.foldl clientEv (p, h)).2
  | [], st, p, h, hinv => hinv
  | ev :: evs, st, p, h, hinv => by
    rw [run_cons]
    simp only [List.foldl_cons]
    exact cinv_fold cfg evs (mech cfg st ev) (clientEv (p, h) ev).1 (clientEv (p, h) ev).2 (cinv_step cfg st p h ev hinv)

theorem cinv_src (cfg : Cfg) (s : Src) (lazy : Bool) (head : Option Step)
    (hwf : ((s == Src.unit) != head.isSome) = false) :
    CInv (mech cfg {} (.src s lazy head)) ⟨s, lazy, head.toList, none⟩ (if lazy then .task else .fut) := by
  simp only [mech, Bool.false_eq_true, ite_false, hwf]
  have hsz : Prog.size ⟨s, lazy, head.toList, none⟩ = srcCores s + head.toList.length + innerSteps head.toList := by
    simp only [Prog.size, sizeSteps_eq]; omega
  cases lazy with
  | true =>
    refine ⟨Or.inr ⟨rfl, rfl⟩, ?_⟩
    simp only [CBound, Bool.false_eq_true, ite_false, ite_true, hsz]
    simp [G.allocCore, G.allocFunctor]
  | false =>
    simp only [Bool.false_eq_true, ite_false]
    have hsp := startSrc_cAlloc cfg s none
      ((G.allocCore {} (srcCores s + head.toList.length)).allocFunctor (srcFunctors s + head.toList.length))
    refine cinv_started cfg _ _ _ false _ _ _ rfl (Or.inl ⟨rfl, rfl⟩) ?_ ?_ ?_
    · intro r inh c g' hgo
      rw [hgo] at hsp
      rw [hsz, hsp]
      simp [G.allocCore, G.allocFunctor]
    · intro w inh g' hw
      rw [hw] at hsp
      rw [hsz, hsp.1]
      exact ⟨by simp [G.allocCore, G.allocFunctor], hsp.2⟩
    · intro g' hg
      rw [hg] at hsp
      rw [hsz, hsp]
      simp [G.allocCore, G.allocFunctor]

/-- **handle correspondence and the allocation bound hold after every list of client events** -/
theorem cinv_run (cfg : Cfg) : ∀ (evs : List Event),
    match client evs with
    | none => run cfg {} evs = {}
    | some (p, h) => CInv (run cfg {} evs) p h
  | [] => rfl
  | ev :: evs => by
    rw [run_cons]
    cases ev with
    | src s lazy head =>
      simp only [client]
      cases hwf : ((s == Src.unit) != head.isSome)
      · simp only [Bool.false_eq_true, ite_false]
        exact cinv_fold cfg evs _ _ _ (cinv_src cfg s lazy head hwf)
      · simp only [ite_true]
        rw [mech_idle cfg _ (fun s' l' h' he => by cases he; exact hwf)]
        exact cinv_run cfg evs
    | attach s => rw [mech_idle cfg _ (fun _ _ _ he => by cases he)]; exact cinv_run cfg evs
    | set p => rw [mech_idle cfg _ (fun _ _ _ he => by cases he)]; exact cinv_run cfg evs
    | call k => rw [mech_idle cfg _ (fun _ _ _ he => by cases he)]; exact cinv_run cfg evs
    | start k => rw [mech_idle cfg _ (fun _ _ _ he => by cases he)]; exact cinv_run cfg evs
    | dropFuture => rw [mech_idle cfg _ (fun _ _ _ he => by cases he)]; exact cinv_run cfg evs
    | get => rw [mech_idle cfg _ (fun _ _ _ he => by cases he)]; exact cinv_run cfg evs

end Yaclib.Pipeline
