import YaclibModel.Proofs.CoSharedMutexS_twLoad_1
import YaclibModel.Proofs.CoSharedMutexS_twLoad_2
import YaclibModel.Proofs.CoSharedMutexS_twLoad_3
namespace Yaclib.CoSharedMutex

theorem inv_twLoad {cfg : Cfg} {s : State} (hi : Inv cfg s) (c : Cid) (sawZero : Bool) (h : s.pc c = .idle) (ht : s.todo c ≠ []) (ho : curOp s c = .wr ∨ curOp s c = .tryWr) :
    Inv cfg ((doTwLoad s c sawZero)) := by
  have hzd : sawZero = false ∨ sawZero = true := by cases sawZero <;> simp
  rcases hzd with hz | hz
  · by_cases ht' : curOp s c = .tryWr
    · exact inv_twLoad_1 hi c sawZero h ht ho hz ht'
    · exact inv_twLoad_2 hi c sawZero h ht ho hz ht'
  · exact inv_twLoad_3 hi c sawZero h ht ho hz

end Yaclib.CoSharedMutex
