import YaclibModel.Proofs.When
namespace Yaclib.When

set_option maxHeartbeats 4000000 in
theorem invc_step_6 {w s l s'} (hi : InvC w s) (hs : Step w s l s') (hg : l.grp = 6) : InvC w s' := by
  have hidx := @InvC.idx w s hi
  have hlast := @InvC.last_holder w s hi
  have hpos := @InvC.count_pos w s hi
  cases hi
  cases hs with
  | dtorSet i o hc hp ho =>
      have hi' : i < w.n := hidx (by rw [hp]; simp)
      invc_auto
  | dtorThrow i hc hp ho =>
      have hi' : i < w.n := hidx (by rw [hp]; simp)
      invc_auto
  | crash i hc hp =>
      invc_auto
  | _ => simp [Label.grp] at hg

end Yaclib.When
