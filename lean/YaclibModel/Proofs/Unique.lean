/- Invariants of the C01 model (Model/Unique.lean). -/
import YaclibModel.Model.Unique

namespace Yaclib.Unique

def cDone (s : State) : Prop := s.cpc = .idle ∧ s.todo = []

def inWait (c : CPc) : Prop := c = .waitAttached ∨ c = .waitLocked false ∨ c = .waitSleeping

/-- the consumer is at its consuming (last) operation -/
def atFin (s : State) : Prop := s.todo.tail = [] ∧ s.todo ≠ []

/-- the consumer program is `pre* ; fin` (or finished) -/
def Shape (t : List COp) : Prop := t = [] ∨ ∃ (pre : List Pre) (f : Fin), t = pre.map COp.pre ++ [COp.fin f]

theorem Shape.tail {t : List COp} (h : Shape t) : Shape t.tail := by
  rcases h with h | ⟨pre, f, h⟩
  · left; simp [h]
  · cases pre with
    | nil => left; simp [h]
    | cons o pre => right; exact ⟨pre, f, by simp [h]⟩

theorem Shape.fin_head {f : Fin} {rest : List COp} (h : Shape (COp.fin f :: rest)) : rest = [] := by
  rcases h with h | ⟨pre, g, h⟩
  · cases h
  · cases pre with
    | nil => simp at h; exact h.2
    | cons o pre => simp at h

theorem Shape.pre_head {o : Pre} {rest : List COp} (h : Shape (COp.pre o :: rest)) : rest ≠ [] := by
  rcases h with h | ⟨pre, g, h⟩
  · cases h
  · cases pre with
    | nil => simp at h
    | cons o' pre => simp at h; intro hr; rw [hr] at h; simp at h

/-- only the consuming operation attaches anything but the wait event -/
theorem Shape.attach_fin {t : List COp} {k : Cb} (h : Shape t) (hk : t.head?.bind opCb = some k) (hne : k ≠ .event) :
    t.tail = [] ∧ t ≠ [] := by
  cases t with
  | nil => simp at hk
  | cons op rest =>
      cases op with
      | pre o => cases o <;> simp [opCb] at hk; exact absurd hk.symm hne
      | fin f => simp [Shape.fin_head h]

theorem attach_event_head {t : List COp} (hk : t.head?.bind opCb = some .event) :
    t.head? = some (.pre .wait) ∨ t.head? = some (.fin .getMove) := by
  cases t with
  | nil => simp at hk
  | cons op rest =>
      cases op with
      | pre o => cases o <;> simp [opCb] at hk ⊢
      | fin f => cases f <;> simp [opCb, finCb] at hk ⊢

theorem Shape.pre_head' {t : List COp} {o : Pre} (h : Shape t) (ho : t.head? = some (.pre o)) : t.tail ≠ [] := by
  cases t with
  | nil => simp at ho
  | cons op rest => simp at ho; subst ho; simpa using Shape.pre_head h

theorem Shape.head_fin {t : List COp} {f : Fin} (h : Shape t) (hf : t.head? = some (.fin f)) : t = [.fin f] := by
  cases t with
  | nil => simp at hf
  | cons op rest => simp at hf; subst hf; simp [Shape.fin_head h]

theorem head_bind_cons {op : COp} {rest : List COp} {k : Cb} (hk : opCb op = some k) :
    (op :: rest).head?.bind opCb = some k := by simp [hk]

structure Inv (w : Workload) (s : State) : Prop where
  hw : s.w = w
  /-- the producer has exchanged iff the word is `result` -/
  start_iff : s.ppc = .start ↔ s.word ≠ .result
  /-- the program is `pre* ; fin` -/
  todo_shape : Shape s.todo
  busy_todo : s.cpc ≠ .idle → s.todo ≠ []
  /-- a callback in the word: the consumer is blocked in the wait, or has finished -/
  word_cb : ∀ k, s.word = .cb k →
    (k = .event → inWait s.cpc ∧ s.evReady = false) ∧ (k ≠ .event → cDone s)
  fire : ∀ k, s.ppc = .fire k → k ≠ .drop ∧
    (k = .event → inWait s.cpc ∧ s.evReady = false) ∧ (k ≠ .event → cDone s ∧ s.stored = some w.prod.res)
  psub : s.ppc = .submitted → cDone s ∧ s.stored = some w.prod.res
  evlocked : s.ppc = .evLocked → (s.cpc = .waitAttached ∨ s.cpc = .waitSleeping) ∧ s.evHolder = some .p ∧ s.evReady = true
  holder_p : s.evHolder = some .p → s.ppc = .evLocked
  holder_c : s.evHolder = some .c ↔ ∃ b, s.cpc = .waitLocked b
  locked_flag : ∀ b, s.cpc = .waitLocked b → b = s.evReady
  /-- once the flag is set the producer has at least reached the unlock -/
  ready_p : s.evReady = true → s.ppc = .evLocked ∨ s.ppc = .done
  /-- the storage holds the promised result, only while the word is `result` -/
  stored_val : ∀ r, s.stored = some r → r = w.prod.res ∧ s.word = .result
  stored_live : s.word = .result → s.stored = some w.prod.res ∨ cDone s
  /-- consumer positions that imply the result is there and the producer is done with the word -/
  c_after : (∃ k, s.cpc = .attFailed k) ∨ s.cpc = .submitted ∨ s.cpc = .repGot →
    s.word = .result ∧ s.ppc = .done ∧ atFin s
  c_failed_kind : ∀ k, s.cpc = .attFailed k → k = .cont ∨ k = .target
  c_attl : ∀ k, s.cpc = .attLoaded k → s.todo.head?.bind opCb = some k ∧ (s.word = .empty ∨ (s.word = .result ∧ s.ppc = .done))
  idle_word : s.cpc = .idle → s.todo ≠ [] → (s.word = .empty ∨ (s.word = .result ∧ (s.ppc = .done)))
  rep_word : (∃ b, s.cpc = .repReady b) ∨ (∃ b, s.cpc = .repGetc b) → (s.word = .empty ∨ (s.word = .result ∧ s.ppc = .done))
  rep_true : s.cpc = .repReady true ∨ s.cpc = .repGetc true → s.stored = some w.prod.res
  waitfin : inWait s.cpc ∨ (∃ b, s.cpc = .waitLocked b) ∨ s.cpc = .attLoaded .event →
    (s.waitFin = true ↔ s.todo.head? = some (.fin .getMove))
  gotfin : s.cpc = .repGot → s.todo = [.fin .getMove]
  rep_head_r : ∀ b, s.cpc = .repReady b → s.todo.head? = some (.pre .ready)
  rep_head_g : ∀ b, s.cpc = .repGetc b → s.todo.head? = some (.pre .getc)
  wait_head : inWait s.cpc ∨ (∃ b, s.cpc = .waitLocked b) → s.todo.head?.bind opCb = some .event
  via : (s.cpc = .attFailed .cont ∨ s.cpc = .attLoaded .cont ∨ s.cpc = .submitted) →
    (s.viaExec = true ↔ s.todo.head? = some (.fin (.attach true)))
  /-- ghost histories -/
  delivered_one : s.delivered = [] ∨ (s.delivered.length = 1 ∧ cDone s ∧ s.ppc = .done)
  delivered_val : ∀ x ∈ s.delivered, x.2 = w.prod.res
  got_val : ∀ r ∈ s.got, r = w.prod.res
  got_one : s.got = [] ∨ (s.got.length = 1 ∧ cDone s)
  fwd_val : ∀ x ∈ s.forwarded, x.2 = w.prod.res
  ready_obs : ∀ x ∈ s.readyObs, x.1 = true → x.2 = true
  getc_obs : ∀ o ∈ s.getcObs, o = none ∨ o = some w.prod.res

macro "inv_auto" : tactic =>
  `(tactic| (constructor <;> (simp only [doXchg, doPInvoke, doPForward, doPEvLock, doAttLoad, doCasOk, doCInvoke, doCForward,
      doCReady, doCGetc, doCWaitDone, doCGot, afterFail, loadOk, cDone, inWait, atFin] at *) <;>
      grind [Shape.tail, Shape.fin_head, Shape.pre_head, Shape.attach_fin, attach_event_head, head_bind_cons, Shape.head_fin, Shape.pre_head', List.mem_of_mem_tail]))

/-- splits the preservation proof over several files (by label) so that they compile in parallel -/
def grpOf : Label → Nat
  | .pXchg _ => 0 | .invoke .p _ => 0 | .submit .p => 0 | .forward .p _ => 0 | .lock .p => 0 | .unlock .p => 0
  | .cCas _ true => 1 | .invoke .c _ => 1 | .submit .c => 1 | .forward .c _ => 1 | .ready _ => 1
  | .getc _ => 2 | .lock .c => 2 | .unlock .c => 2 | .got _ => 2
  | .cLoad _ => 3
  | .cCas _ false => 4

theorem inv_init (w : Workload) : Inv w (init w) := by
  constructor <;> simp [init, cDone, inWait, atFin, Shape]
  · exact ⟨w.pre, rfl⟩

end Yaclib.Unique
