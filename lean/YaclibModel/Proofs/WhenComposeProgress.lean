/- WhenU: a state of the composed system in which nothing can move is a state in which every promise was fulfilled, every
   SetCallback returned, every callback was entered exactly once and the combinator model itself is quiescent. -/
import YaclibModel.Proofs.WhenComposeSim

namespace Yaclib.WhenU
open Yaclib

variable {w : When.Workload} {S : State}

/-- an entered, unfinished consumption can take a step that is not an interface event -/
theorem active_enabled_internal {s : When.State} (hC : When.InvC w s) (hc : s.crashed = false) {i : Nat}
    (ha : When.active (s.pc i) = true) : ∃ l s', When.Step w s l s' ∧ isEnv l = false := by
  cases hp : s.pc i with
  | unreg => rw [hp] at ha; cases ha
  | pending => rw [hp] at ha; cases ha
  | done => rw [hp] at ha; cases ha
  | retire => exact ⟨_, _, .retire s i hc hp, rfl⟩
  | load =>
      rcases When.hasWord_cases (hC.word i (Or.inl hp)).1 with h | h | h
      · exact ⟨_, _, .loadFlag s i false hc hp h (by simp), rfl⟩
      · exact ⟨_, _, .load3 s i .empty hc hp h (by cases s.st3 <;> rfl), rfl⟩
      · exact ⟨_, _, .loadLf s i false hc hp h (by simp), rfl⟩
  | rmw =>
      rcases When.hasWord_cases (hC.word i (Or.inr hp)).1 with h | h | h
      · exact ⟨_, _, .xchgFlag s i hc hp h, rfl⟩
      · cases hv : When.ok (w.inp i) with
        | true => exact ⟨_, _, .xchg3 s i hc hp h hv, rfl⟩
        | false => exact ⟨_, _, .cas3 s i hc hp h hv, rfl⟩
      · cases hv : When.ok (w.inp i) with
        | true => exact ⟨_, _, .xchgLf s i hc hp h hv, rfl⟩
        | false => exact ⟨_, _, .fsubLf s i hc hp h hv, rfl⟩
  | setOut o => exact ⟨_, _, .setOut s i o hc hp, rfl⟩
  | dec store => exact ⟨_, _, .dec s i store hc hp, rfl⟩
  | dtorRel j => exact ⟨_, _, .dtorRel s i j hc hp, rfl⟩
  | dtorSet =>
      cases ho : When.dtorOut w s with
      | some o => exact ⟨_, _, .dtorSet s i o hc hp ho, rfl⟩
      | none => exact ⟨_, _, .dtorThrow s i hc hp ho, rfl⟩
  | boom => exact ⟨_, _, .crash s i hc (Or.inl hp), rfl⟩
  | dboom => exact ⟨_, _, .crash s i hc (Or.inr hp), rfl⟩

theorem quiescent_parts (hwf : w.wf) (h : Reachable w S) (hq : ∀ l S', ¬ Step w S l S') :
    (∀ l s', ¬ When.Step w S.wh l s') ∧ S.wh.reg = w.n ∧
    ∀ i, i < w.n → (S.u i).ppc = .done ∧ (S.u i).todo = [] ∧ (S.u i).cpc = .idle ∧ (S.u i).word = .result := by
  obtain ⟨hW, hK⟩ := sim hwf h
  have hU := unique_reachable h
  have hC := When.invc_reachable hW
  have hcr : S.wh.crashed = false := (When.invb_reachable hwf hW).not_crashed
  have hint : ∀ l s', When.Step w S.wh l s' → isEnv l = false → False :=
    fun l s' hs hl => hq _ _ (.when S l s' hl hs)
  -- the registration loop is through
  have hreg : S.wh.reg = w.n := by
    have hle := hC.reg_le
    by_cases hlt : S.wh.reg < w.n
    · exfalso
      cases hb : S.wh.busy with
      | some b =>
          obtain ⟨l, s', hs, hl⟩ := active_enabled_internal hC hcr (hC.busy b hb)
          exact hint l s' hs hl
      | none =>
          have hra : regAt w S.wh S.wh.reg := ⟨rfl, hb, hlt, hcr⟩
          obtain ⟨c1, c2, c3, c4, c5⟩ := (hU S.wh.reg).2
          have hI := Unique.inv_reachable (hU S.wh.reg).1
          have htodo : (S.u S.wh.reg).todo = [.fin (.attach false)] := by
            rcases c2 with c2 | c2
            · exact c2
            · exact absurd ((hK.todo_reg S.wh.reg).mp c2.1) (by omega)
          rcases c1 with c1 | c1 | c1
          · exact hq _ _ (.cload S _ (S.u S.wh.reg).word _ hra
              (.cAttLoad _ (.fin (.attach false)) [] .cont _ c1 htodo rfl (Or.inl rfl)))
          · by_cases hw : (S.u S.wh.reg).word = .empty
            · exact hq _ _ (.casOk S _ _ hra (.cCasOk _ .cont c1 hw))
            · exact hq _ _ (.casFail S _ _ hra (.cCasFail _ .cont c1 hw))
          · have hca := hI.c_after (Or.inl ⟨_, c1⟩)
            have hst := Unique.stored_of_busy hI hca.1 (by rw [c1]; simp)
            exact hq _ _ (.enterC S _ _ _ hra (.cInvoke _ _ c1 c5 hst))
    · omega
  have hinst : ∀ i, i < w.n →
      (S.u i).ppc = .done ∧ (S.u i).todo = [] ∧ (S.u i).cpc = .idle ∧ (S.u i).word = .result := by
    intro i hi
    obtain ⟨c1, c2, c3, c4, c5⟩ := (hU i).2
    have hI := Unique.inv_reachable (hU i).1
    have hpd : (S.u i).ppc = .done := by
      rcases c4 with c4 | c4 | c4
      · exact absurd (Step.prod S i _ _ hi (.pXchg _ c4 (hI.start_iff.mp c4))) (hq _ _)
      · have hst := ((hI.fire .cont c4).2.2 (by simp)).2
        exact absurd (Step.enterP S i _ _ hi (.pInvoke _ _ c4 c5 hst)) (hq _ _)
      · exact c4
    have htd : (S.u i).todo = [] := (hK.todo_reg i).mpr (by omega)
    have hcp : (S.u i).cpc = .idle := by
      rcases c2 with c2 | c2
      · rw [htd] at c2; cases c2
      · exact c2.2
    have hwd : (S.u i).word = .result := by
      cases hw : (S.u i).word with
      | result => rfl
      | empty => have := hI.start_iff.mpr (by rw [hw]; simp); rw [hpd] at this; cases this
      | cb k => have := hI.start_iff.mpr (by rw [hw]; simp); rw [hpd] at this; cases this
    exact ⟨hpd, htd, hcp, hwd⟩
  refine ⟨?_, hreg, hinst⟩
  intro l s' hs
  cases hl : isEnv l with
  | false => exact hint l s' hs hl
  | true =>
      cases hs with
      | regSet i okb hc hb hr hn => omega
      | fire i hc hp =>
          have hi : i < w.n := hC.idx (by rw [hp]; simp)
          obtain ⟨h1, _, _, h4⟩ := hinst i hi
          rcases hK.pending_src i hp with h5 | h5
          · rw [h4] at h5; cases h5
          · rw [h1] at h5; cases h5
      | _ => simp [isEnv] at hl

end Yaclib.WhenU
