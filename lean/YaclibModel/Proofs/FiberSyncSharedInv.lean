import YaclibModel.Proofs.FiberSyncSharedStep0
import YaclibModel.Proofs.FiberSyncSharedStep1
import YaclibModel.Proofs.FiberSyncSharedStep2
import YaclibModel.Proofs.FiberSyncSharedStep3
import YaclibModel.Proofs.FiberSyncSharedStep4
import YaclibModel.Proofs.FiberSyncSharedStep5
namespace Yaclib.FiberSync.Sm
open Yaclib.FiberSync

theorem inv_step {k s l s'} (hi : Inv k s) (hs : Step s l s') : Inv k s' := by
  have h6 : grpOf l = 0 ∨ grpOf l = 1 ∨ grpOf l = 2 ∨ grpOf l = 3 ∨ grpOf l = 4 ∨ grpOf l = 5 := by
    cases l <;> simp [grpOf]
  rcases h6 with h | h | h | h | h | h
  · exact inv_step_0 hi hs h
  · exact inv_step_1 hi hs h
  · exact inv_step_2 hi hs h
  · exact inv_step_3 hi hs h
  · exact inv_step_4 hi hs h
  · exact inv_step_5 hi hs h

theorem inv_reachable {k n s} (h : Reachable k n s) : Inv k s := by
  induction h with
  | init => exact inv_init k n
  | step _ hs ih => exact inv_step ih hs

/-- in a quiescent state every fiber has finished, or is a parked writer, or a parked reader -/
theorem quiescent_classify {k s} (hi : Inv k s) (hq : Quiescent s) (f : Fid) :
    s.pc f = .done ∨ s.pc f = .xParked ∨ s.pc f = .sParked := by
  cases hp : s.pc f with
  | idle => exact absurd (Step.finish s f hp) (hq _ _)
  | done => exact Or.inl rfl
  | xParked => exact Or.inr (Or.inl rfl)
  | sParked => exact Or.inr (Or.inr rfl)
  | txParked r d =>
      exact absurd (Step.txTimeout s f (max s.now d) r d (hi.tx_timed f r d hp) hp (Nat.le_max_right _ _)
        (Nat.le_max_left _ _)) (hq _ _)
  | tsParked r d =>
      exact absurd (Step.tsTimeout s f (max s.now d) r d (hi.ts_timed f r d hp) hp (Nat.le_max_right _ _)
        (Nat.le_max_left _ _)) (hq _ _)
  | xLocking =>
      cases ho : s.occ with
      | false => exact absurd (Step.xRecheckAcq s f hp ho) (hq _ _)
      | true => exact absurd (Step.xRepark s f hp ho) (hq _ _)
  | sLocking =>
      by_cases hx : XHeld s
      · exact absurd (Step.sRepark s f hp hx) (hq _ _)
      · exact absurd (Step.sRecheckAcq s f hp hx) (hq _ _)
  | txLocking r =>
      cases ho : s.occ with
      | false => exact absurd (Step.txRecheckAcq s f r (hi.txl_timed f r hp) hp ho) (hq _ _)
      | true => exact absurd (Step.txRepark s f r 0 (hi.txl_timed f r hp) hp ho) (hq _ _)
  | tsLocking r =>
      by_cases hx : XHeld s
      · exact absurd (Step.tsRepark s f r 0 (hi.tsl_timed f r hp) hp hx) (hq _ _)
      · exact absurd (Step.tsRecheckAcq s f r (hi.tsl_timed f r hp) hp hx) (hq _ _)
  | sleeping d =>
      exact absurd (Step.sleepWake s f (max s.now d) d hp (Nat.le_max_right _ _) (Nat.le_max_left _ _)) (hq _ _)

/-- … a parked writer is parked because the lock is held (by a writer or by readers) … -/
theorem quiescent_writer_held {k s} (hi : Inv k s) (hq : Quiescent s) (f : Fid) (hp : s.pc f = .xParked) :
    s.occ = true ∧ (s.xh ≠ [] ∨ s.sh ≠ []) := by
  have heq : s.eq ≠ [] := by
    intro h0
    have := hi.pc_eq f (by rw [hp]; rfl)
    rw [h0] at this; cases this
  have ho : s.occ = true := by
    cases ho : s.occ with
    | true => rfl
    | false =>
        exfalso
        have ht := hi.free_transit ho heq
        cases htr : s.transit with
        | nil => exact ht htr
        | cons g rest =>
            have hw := hi.transit_pc g (by rw [htr]; simp)
            cases hg : s.pc g with
            | xLocking => exact (hq _ _) (Step.xRecheckAcq s g hg ho)
            | txLocking r => exact (hq _ _) (Step.txRecheckAcq s g r (hi.txl_timed g r hg) hg ho)
            | _ => rw [hg] at hw; simp [Pc.recheckX] at hw
  refine ⟨ho, ?_⟩
  rcases hi.modes with ⟨h0, _⟩ | ⟨_, _, hx, _⟩ | ⟨_, _, _, hs, hpos⟩
  · rw [ho] at h0; cases h0
  · left; intro h0; rw [h0] at hx; simp at hx
  · right; intro h0; rw [h0] at hs; simp at hs; omega

/-- … and a parked reader is parked because a writer holds the lock -/
theorem quiescent_reader_held {k s} (hi : Inv k s) (f : Fid) (hp : s.pc f = .sParked) :
    s.occ = true ∧ s.excl = true ∧ s.xh ≠ [] := by
  have hsq : s.sq ≠ [] := by
    intro h0
    have := hi.pc_sq f (by rw [hp]; rfl)
    rw [h0] at this; cases this
  have hh := hi.sq_held hsq
  refine ⟨hh.1, hh.2, ?_⟩
  rcases hi.modes with ⟨h0, _⟩ | ⟨_, _, hx, _⟩ | ⟨_, he, _⟩
  · rw [hh.1] at h0; cases h0
  · intro h0; rw [h0] at hx; simp at hx
  · rw [hh.2] at he; cases he

end Yaclib.FiberSync.Sm
