import YaclibModel.Proofs.FiberSyncSharedStep0
import YaclibModel.Proofs.FiberSyncSharedStep1
import YaclibModel.Proofs.FiberSyncSharedStep2
import YaclibModel.Proofs.FiberSyncSharedStep3
namespace Yaclib.FiberSync.Sm
open Yaclib.FiberSync

theorem inv_step {k s l s'} (hi : Inv k s) (hs : Step s l s') : Inv k s' := by
  have h4 : grpOf l = 0 ∨ grpOf l = 1 ∨ grpOf l = 2 ∨ grpOf l = 3 := by
    cases l <;> simp [grpOf]
  rcases h4 with h | h | h | h
  · exact inv_step_0 hi hs h
  · exact inv_step_1 hi hs h
  · exact inv_step_2 hi hs h
  · exact inv_step_3 hi hs h

theorem inv_reachable {k n s} (h : Reachable k false n s) : Inv k s := by
  induction h with
  | init => exact inv_init k n
  | step _ hs ih => exact inv_step ih hs

end Yaclib.FiberSync.Sm
