/- preservation of InvD: all steps but `resume` / `current` -/
import YaclibModel.Proofs.CoroD
namespace Yaclib.Coro

theorem k_lt_of_inop {w : Workload} {s : State} (ha : InvA w s) (h : inOp s.pc = true) : s.k < w.prog.length := by
  obtain ⟨op, rest, ht⟩ := todo_cons_of_inop ha h
  rcases ha.todo_eq with h1 | h1
  · rw [ht] at h1
    exact (drop_succ_of_cons h1.symm).2
  · rw [h1.2] at ht; cases ht

theorem prog_at_k {w : Workload} {s : State} {op : Op} {rest : List Op} (ha : InvA w s) (ht : s.todo = op :: rest) :
    w.prog[s.k]? = some op := by
  rcases ha.todo_eq with h1 | h1
  · rw [ht] at h1
    have hk := (drop_succ_of_cons h1.symm).2
    have := List.drop_eq_getElem_cons (show s.k < w.prog.length by omega)
    rw [this] at h1
    injection h1 with h2 _
    rw [List.getElem?_eq_getElem (show s.k < w.prog.length by omega), h2]
  · rw [h1.2] at ht; cases ht

theorem cbDone_ne_tstore (k : AKind) (j e : Nat) : cbDone k j e ≠ .tstore := by cases k <;> simp [cbDone]
theorem selfDone_ne_tstore (k : AKind) : selfDone k ≠ .tstore := by cases k <;> simp [selfDone]
theorem subNext_ne_tstore (k : AKind) : subNext k ≠ .tstore := by cases k <;> simp [subNext]

macro "invD_auto" : tactic =>
  `(tactic| (constructor <;> (try simp only [doSubmit, doDrop, doLdtor, doRet, doPublish, doFdtor, doTdtor, doReady, doMReady, doMsub, doMsuspend,
      doTstore, doFire, doRegLoad, doCasOk, regFail, regFrom, afterReg, State.setWord]) <;>
      grind [inOp, outcome, finalRes, selfDone, subNext, cbDone, inOp_selfDone, inOp_subNext, inOp_cbDone]))

set_option maxHeartbeats 16000000 in
theorem invD_step_1 {w s l s'} (ha : InvA w s) (hd : InvD w s) (hs : Step s l s')
    (hfire : ∀ j p, p ∈ (s.word j).cbs → inOp s.pc = true)
    (hl : match l with | .pXchg _ | .envPush _ | .envSwap _ _ | .exCall | .ldtor | .ret | .publish _ | .fdtor
                       | .rdLoad _ | .mload _ | .ready _ | .msub | .msuspend | .regLoad _ _ | .cas _ _ | .fire _ _ | .tdtor _ => True
                       | _ => False) : InvD w s' := by
  cases hd
  cases hs with
  | pXchg j l f hw hl => invD_auto
  | envPush j l f hw hu => invD_auto
  | envSwap j e hu => invD_auto
  | exCall e h => invD_auto
  | ldtor h hl => invD_auto
  | ret h ht => invD_auto
  | publish r h hr hl => invD_auto
  | fdtor h hl => invD_auto
  | rdLoad op rest j x h ht hj hx => invD_auto
  | mload v h hv => invD_auto
  | tdtor j h hl hr => invD_auto
  | ready x h => cases hb : awaitReady x <;> invD_auto
  | mready v h => cases hb : decide (v = 1) <;> invD_auto
  | msub op rest h ht => invD_auto
  | msuspend op rest h ht => invD_auto
  | regLoad op rest p j x h ht hj hx => invD_auto
  | casOk op rest p j l f h ht hj hw hu => invD_auto
  | casRetry op rest p j h ht hj hw hu => invD_auto
  | casFail op rest p j h ht hj hw => invD_auto
  | fire op rest j p walk ht hw hp =>
      have hin := hfire j p (by rw [hw]; exact hp)
      simp only [doFire]
      split
      · split <;> (constructor <;> (try simp only [State.setWord]) <;> grind [inOp, outcome, finalRes, inOp_cbDone, cbDone_ne_tstore])
      · constructor <;> (try simp only [State.setWord]) <;> grind [inOp, outcome, finalRes, inOp_cbDone, cbDone_ne_tstore]
  | _ => simp at hl

end Yaclib.Coro
