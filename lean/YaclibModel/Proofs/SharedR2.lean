import YaclibModel.Proofs.SharedR
namespace Yaclib.Shared

set_option maxHeartbeats 4000000 in
theorem invR_step_2 {w s l s'} (h0 : Inv0 s) (ha : InvA w s) (hi : InvR s) (hs : Step s l s') (hg : grpOf l = 2) :
    InvR s' := by
  have hle := h0.le
  have hbusy := h0.busy
  cases ha
  cases hi
  cases hs with
  | oLoad t op rest k x h ht hk hr hx =>
      have htwo := fun t' => h0.two' t' t
      cases x with
      | list l => invR_auto
      | result =>
          by_cases hke : k = .event
          · subst hke; invR_auto
          · simp only [doLoad, reload, failPath, hke, ↓reduceIte]; invR_auto
  | oCasOk t c e h hw =>
      have htwo := fun t' => h0.two' t' t
      by_cases hke : c.kind = .event
      · simp only [doCasOk, hke, ↓reduceIte]; invR_auto
      · by_cases hkr : c.kind = .retire
        · simp only [doCasOk, hkr, ↓reduceIte, reduceCtorEq]; invR_auto
        · simp only [doCasOk, hke, hkr, ↓reduceIte]; invR_auto
  | _ => simp [grpOf] at hg

end Yaclib.Shared
