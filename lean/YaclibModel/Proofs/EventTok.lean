/- Invariants of the C16 model, part 2: the token discipline ("Add only while the count is non-zero").
   count = Σ held + |toks|; the count reaches zero exactly once; `SetImpl` runs once (never on the sentinel). -/
import YaclibModel.Proofs.EventAZ

namespace Yaclib.Event

/-- the static check of one thread's program: it may Add only while it holds a unit, Done only units it holds -/
def okProg : Nat → List Op → Bool
  | _, [] => true
  | h, .add k :: r => decide (1 ≤ h) && okProg (h + k) r
  | h, .done k :: r => decide (1 ≤ k ∧ k ≤ h) && okProg (h - k) r
  | h, .insert _ fs :: r => decide (1 ≤ h ∧ fs ≠ []) && okProg h r
  | h, _ :: r => okProg h r

/-- the documented rule as a decidable predicate on workloads -/
def Workload.ok (w : Workload) : Prop := ∀ t, t < w.nthr → okProg (w.held0 t) (w.prog t) = true

instance (w : Workload) : Decidable w.ok := by unfold Workload.ok; exact Nat.decidableBallLT _ _

/-- sum of the units held by threads `< n` -/
def hsum (f : Nat → Thr) : Nat → Nat
  | 0 => 0
  | n + 1 => hsum f n + (f n).held

theorem hsum_upd_ge {f : Nat → Thr} {t : Nat} {x : Thr} {n : Nat} (h : n ≤ t) : hsum (updT f t x) n = hsum f n := by
  induction n with
  | zero => rfl
  | succ n ih =>
      have hn : n ≠ t := by omega
      simp [hsum, ih (by omega), updT_other f t n x hn]

theorem hsum_upd_lt {f : Nat → Thr} {t : Nat} {x : Thr} {n : Nat} (h : t < n) :
    hsum (updT f t x) n + (f t).held = hsum f n + x.held := by
  induction n with
  | zero => omega
  | succ n ih =>
      by_cases hn : n = t
      · subst hn
        simp only [hsum, updT_same, hsum_upd_ge (Nat.le_refl _)]
        omega
      · have := ih (by omega)
        simp only [hsum, updT_other f t n x hn]
        omega

theorem hsum_init (w : Workload) (n : Nat) (h : n ≤ w.nthr) :
    hsum (fun t => if t < w.nthr then { prog := w.prog t, pc := .idle, held := w.held0 t } else {}) n = sumTo w.held0 n := by
  induction n with
  | zero => rfl
  | succ n ih =>
      have : n < w.nthr := by omega
      simp [hsum, sumTo, ih (by omega), this]

theorem hsum_pos {f : Nat → Thr} {t n : Nat} (h : t < n) : (f t).held ≤ hsum f n := by
  induction n with
  | zero => omega
  | succ n ih =>
      by_cases hn : t = n
      · subst hn; simp [hsum]
      · have := ih (by omega); simp only [hsum]; omega

/-- what the program counter of a thread implies about its units and its remaining program -/
def thrOk (th : Thr) : Prop :=
  match th.pc with
  | .idle => okProg th.held th.prog = true
  | .insReg rest c wc _ => rest ≠ [] ∧ wc + rest.length ≤ c ∧ c + 1 ≤ th.held + wc ∧ okProg (th.held + wc - c) th.prog.tail = true
  | .insCas _ rest c wc _ => wc + rest.length + 1 ≤ c ∧ c + 1 ≤ th.held + wc ∧ okProg (th.held + wc - c) th.prog.tail = true
  | .insSub k => 1 ≤ k ∧ k + 1 ≤ th.held ∧ okProg (th.held - k) th.prog.tail = true
  | _ => okProg th.held th.prog.tail = true

structure InvT (s : State) : Prop where
  t_cnt : s.count = ((hsum s.thr s.w.nthr : Nat) : Int) + (s.toks.length : Int)
  t_out : ∀ t, s.w.nthr ≤ t → (s.thr t).pc = .idle ∧ (s.thr t).prog = [] ∧ (s.thr t).held = 0
  t_ok : ∀ t, thrOk (s.thr t)
  t_z : s.zeroed = true → s.count = 0
  t_nz : s.nzero ≤ 1
  t_cb : ∀ t f rest, (s.thr t).pc = .cbSub → (s.thr t).prog = .fulfil f :: rest → f ∈ s.toks ∧ (s.fut f).word = .result
  t_tok : ∀ f, (s.fut f).word = .call ∨ (s.fut f).word = .drop → f ∈ s.toks
  t_cb_uniq : ∀ t t' f r r', (s.thr t).pc = .cbSub → (s.thr t).prog = .fulfil f :: r →
    (s.thr t').pc = .cbSub → (s.thr t').prog = .fulfil f :: r' → t = t'
  t_xh : ∀ t, (s.thr t).pc = .xchgHead → s.head ≠ none
  t_one : ∀ t t', (s.thr t).pc.setter = true → (s.thr t').pc.setter = true → t = t'
  t_crash : s.crash = false

theorem invT_init (w : Workload) (hok : w.ok) : InvT (init w) := by
  constructor
  · simp only [init]; rw [hsum_init w w.nthr (Nat.le_refl _)]; simp
  · intro t ht; have : ¬ t < w.nthr := by simp only [init] at ht; omega
    simp [init, this]
  · intro t
    simp only [init]
    by_cases ht : t < w.nthr
    · simp only [ht, ↓reduceIte, thrOk]; exact hok t ht
    · simp [ht, thrOk, okProg]
  all_goals (simp [init]; try (intro t; split <;> simp [Pc.setter]))

end Yaclib.Event
