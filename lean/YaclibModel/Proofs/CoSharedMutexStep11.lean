import YaclibModel.Proofs.CoSharedMutex
namespace Yaclib.CoSharedMutex

set_option maxHeartbeats 4000000 in
theorem inv_step_11 {cfg s l s'} (hi : Inv cfg s) (hs : Step s l s') (hg : grpOf l = 11) : Inv cfg s' := by
  cases hs with
  | uUnlockW c b n rest h hs hb hq =>
      have ⟨hn, hnr⟩ := head_pc_wq hi hq
      have hmem : ∀ x, x ∈ s.Q ↔ s.pc x = .rparked := fun x => mem_iff_of_count (hi.l_q x)
      have hst := hi.st_sw c
      have hlq := hi.l_qsize
      cases b with
      | runWriter =>
          cases hi
          cases hf : s.cfg.fifo <;> simp only [doUUnlock, hf, Bool.false_eq_true, ↓reduceIte] <;> sm_auto [List.count_le_length]
      | stored sw =>
          have h2w := hi.j2w c ((hi.l_excl c).mp (by rw [h]; rfl))
          have h2 := hi.j2 (by rw [(hi.l_excl c).mp (by rw [h]; rfl)]; simp)
          cases hi
          cases hf : s.cfg.fifo <;> simp only [doUUnlock, hf, Bool.false_eq_true, ↓reduceIte] <;> sm_auto [List.count_le_length]
      | readersPass sr => simp [needsWriter] at hb
      | passOnly sr => simp [needsWriter] at hb
  | uUnlockP c b h hs hb =>
      cases b with
      | runWriter => simp [needsWriter] at hb
      | stored sw => simp [needsWriter] at hb
      | readersPass sr =>
          have hpa := hi.pend_amt c sr (Or.inl h)
          cases hi
          simp only [doUUnlock]; sm_auto [List.count_le_length]
      | passOnly sr =>
          have hpa := hi.pend_amt c sr (Or.inr h)
          cases hi
          simp only [doUUnlock]; sm_auto [List.count_le_length]
  | _ => simp [grpOf] at hg

end Yaclib.CoSharedMutex
