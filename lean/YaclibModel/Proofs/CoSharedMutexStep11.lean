import YaclibModel.Proofs.CoSharedMutex
namespace Yaclib.CoSharedMutex

set_option maxHeartbeats 4000000 in
theorem inv_step_11 {cfg s l s'} (hi : Inv cfg s) (hs : Step s l s') (hg : grpOf l = 11) : Inv cfg s' := by
  cases hi
  cases hs with
  | uUnlockW c b n rest h hs hb hq =>
      cases b with
      | runWriter => cases hf : s.cfg.fifo <;> simp only [doUUnlock, hf, Bool.false_eq_true, ↓reduceIte] <;> sm_dbg [List.count_le_length]
      | stored sw => cases hf : s.cfg.fifo <;> simp only [doUUnlock, hf, Bool.false_eq_true, ↓reduceIte] <;> sm_dbg [List.count_le_length]
      | readersPass sr => simp [needsWriter] at hb
      | passOnly sr => simp [needsWriter] at hb
  | uUnlockP c b h hs hb =>
      cases b with
      | runWriter => simp [needsWriter] at hb
      | stored sw => simp [needsWriter] at hb
      | readersPass sr => simp only [doUUnlock]; sm_dbg [List.count_le_length]
      | passOnly sr => simp only [doUUnlock]; sm_dbg [List.count_le_length]
  | _ => simp [grpOf] at hg

end Yaclib.CoSharedMutex
