/- Invariants of the C16 model, part 4: what is needed for "nobody stays parked once the count has reached zero". -/
import YaclibModel.Proofs.EventJobInv

namespace Yaclib.Event

/-- the jobs a thread inside `SetImpl` still has to call (the one in hand first) -/
def Pc.runList : Pc → List Nat
  | .run js _ => js
  | .runDec j rest => j :: rest
  | _ => []

structure InvQ (s : State) : Prop where
  q_zero : s.zeroed = true → s.zeroer ≠ none
  q_zz : s.zeroer ≠ none → s.zeroed = true
  q_xh : ∀ t, (s.thr t).pc.setter = true → s.zeroer = some t
  q_locked : ∀ t j rest, (s.thr t).pc = .run (j :: rest) true → (s.job j).ready = true
  q_lockedD : ∀ t j rest, (s.thr t).pc = .runDec j rest → (s.job j).ready = true
  q_zeroer : ∀ tz, s.zeroer = some tz → s.head ≠ none → (s.thr tz).pc = .xchgHead
  q_listed : ∀ j, (s.job j).st = .listed → s.head ≠ none ∧ ∀ l, s.head = some l → j ∈ l
  q_running : ∀ j, (s.job j).st = .running → s.zeroer ≠ none ∧ ∀ tz, s.zeroer = some tz → j ∈ (s.thr tz).pc.runList
  q_called : ∀ j, (s.job j).st = .called → (s.job j).kind ≠ .coro → (s.job j).ready = true
  q_cb : ∀ t, (s.thr t).pc = .cbSub → ∃ f rest, (s.thr t).prog = .fulfil f :: rest
  q_odone : ∀ j, j < s.njobs → (s.job j).odone = false → (s.thr (s.job j).owner).pc.owner = some j
  q_block : ∀ j, (s.job j).kind = .blocking → (s.job j).odone = true → (s.job j).nrel = 1
  q_repb : ∀ t j b, (s.thr t).pc = .rep j b → (s.job j).kind = .blocking → b = true
  q_uretb : ∀ t j b, (s.thr t).pc = .bUnlockRet j b → (s.job j).kind = .blocking → b = true
  q_oref : ∀ j, (s.job j).kind = .timed → (s.job j).odone = true → (s.job j).oref = false
  q_tryc : ∀ t j x, (s.thr t).pc = .tryC j x → x ≠ .done
  q_fresh : ∀ j, (s.job j).st = .fresh → (s.job j).odone = false
  q_rep : ∀ t j b, (s.thr t).pc = .rep j b → (s.job j).st ≠ .fresh

theorem invQ_init (w : Workload) : InvQ (init w) := by
  constructor <;> simp [init] <;> intro t <;> split <;> simp [Pc.setter]

/-- every field -/
macro "q_all" hq:ident : tactic => `(tactic| (
  have := ($hq).q_zero; have := ($hq).q_zz; have := ($hq).q_xh; have := ($hq).q_locked; have := ($hq).q_lockedD; have := ($hq).q_uretb; have := ($hq).q_zeroer; have := ($hq).q_listed; have := ($hq).q_running; have := ($hq).q_called
  have := ($hq).q_cb; have := ($hq).q_odone; have := ($hq).q_block; have := ($hq).q_repb; have := ($hq).q_oref
  have := ($hq).q_tryc; have := ($hq).q_fresh; have := ($hq).q_rep))

macro "q_same" hq:ident : tactic => `(tactic| (
  try (case q_zero => first | exact ($hq).q_zero | (have := ($hq).q_zero; grind))
  try (case q_zz => first | exact ($hq).q_zz | (have := ($hq).q_zz; grind))
  try (case q_xh => first | exact ($hq).q_xh | (have := ($hq).q_xh; grind))
  try (case q_locked => first | exact ($hq).q_locked | (have := ($hq).q_locked; grind))
  try (case q_lockedD => first | exact ($hq).q_lockedD | (have := ($hq).q_lockedD; grind))
  try (case q_uretb => first | exact ($hq).q_uretb | (have := ($hq).q_uretb; grind))
  try (case q_zeroer => first | exact ($hq).q_zeroer | (have := ($hq).q_zeroer; grind))
  try (case q_listed => first | exact ($hq).q_listed | (have := ($hq).q_listed; grind))
  try (case q_running => first | exact ($hq).q_running | (have := ($hq).q_running; grind))
  try (case q_called => first | exact ($hq).q_called | (have := ($hq).q_called; grind))
  try (case q_cb => first | exact ($hq).q_cb | (have := ($hq).q_cb; grind))
  try (case q_odone => first | exact ($hq).q_odone | (have := ($hq).q_odone; grind))
  try (case q_block => first | exact ($hq).q_block | (have := ($hq).q_block; grind))
  try (case q_repb => first | exact ($hq).q_repb | (have := ($hq).q_repb; grind))
  try (case q_oref => first | exact ($hq).q_oref | (have := ($hq).q_oref; grind))
  try (case q_tryc => first | exact ($hq).q_tryc | (have := ($hq).q_tryc; grind))
  try (case q_fresh => first | exact ($hq).q_fresh | (have := ($hq).q_fresh; grind))
  try (case q_rep => first | exact ($hq).q_rep | (have := ($hq).q_rep; grind))))

/-- facts of the other invariants the preservation proofs use -/
macro "q_ctx" hz:ident ht:ident hi:ident : tactic => `(tactic| (
  have := ($hz).z_pc; have := ($hz).z_nz; have := ($ht).t_one; have := ($ht).t_nz; have := ($ht).t_xh
  have := ($hi).j_own; have := ($hi).j_out; have := ($hi).l_run; have := ($hi).l_dec; have := ($hi).l_head
  have := ($hi).j_res; have := ($hi).j_rep; have := ($hi).j_to; have := ($hi).j_dec; have := ($hi).j_b
  have := ($hi).j_tryL; have := ($hi).j_tryC; have := ($hi).r_nrel; have := ($hi).r_block))

macro "q_solve3" hz:ident ht:ident hi:ident hq:ident : tactic =>
  `(tactic| (q_same $hq; all_goals (q_ctx $hz $ht $hi; q_all $hq); all_goals (try grind)))

macro "q_solve" hq:ident : tactic => `(tactic| (q_same $hq; all_goals (q_all $hq); all_goals (try grind)))

end Yaclib.Event
