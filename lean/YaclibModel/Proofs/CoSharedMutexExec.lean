/- C15 over a real executor (2): the CoSharedMutex model composed with an executor given as an open transition system
   (`Yaclib.Strand.Exec`, Proofs/StrandTower.lean) — the same construction as Proofs/CoMutexExec.lean.

   Every hand-over to a parked coroutine is a `Run(node)` = `core._executor->Submit(core)`:
     `runFirst _ n` (last paying reader runs the pending first writer), `runW _ n` (RunWriter), `runR _ n` (RunReaders)
                       =  `sub j` of a fresh job j of `E`;
     `enter n` of such a coroutine  =  `E` enters `call j`;   `exit n`  =  the body returns, `ret j`;
     a `drop j` of `E`  =  the coroutine is completed with StopError while it owns its (shared or exclusive) lock: it never
                           enters, never releases — excluded by the property's premise (`NeverDrops E`); safety does not
                           need the premise.
   Acquisitions that do not go through an executor (fast paths, pass credits, the first writer that does not have to wait)
   stay plain steps.

   `xshared_projects`: every reachable state of the composition projects onto a reachable state of the plain model and a
   protocol-honouring run of `E` — for EVERY `E`.  `xshared_quiescent`: with `ExecContract E` and `NeverDrops E`, a
   composed state in which nothing can move is a quiescent state of the plain model. -/
import YaclibModel.Proofs.CoSharedMutexFrame
import YaclibModel.Proofs.CoSharedMutexProgress
import YaclibModel.Proofs.CoMutexExec

namespace Yaclib.CoSharedMutex
open Yaclib.Strand (Exec XEv Prot Phase specPre specPost protInit ExecContract)
open Yaclib.CoMutex (NeverDrops)

structure XState (E : Exec) where
  m : State
  x : E.σ
  p : Prot
  job : Cid → Option Nat     -- the job through which a granted coroutine is being resumed
  nj : Nat                   -- next unused job number

/-- steps of the plain model that are events at the executor -/
def synced (job : Cid → Option Nat) : Label → Bool
  | .runFirst _ _ => true
  | .runW _ _ => true
  | .runR _ _ => true
  | .enter n => (job n).isSome
  | .exit n => (job n).isSome
  | _ => false

inductive XStep (E : Exec) : XState E → XState E → Prop where
  | plain {s : XState E} {l m'} : Step s.m l m' → synced s.job l = false → XStep E s { s with m := m' }
  | grantSub {s : XState E} {l n m' lx x'} : Step s.m l m' → grantOf l = some n → E.step s.x lx x' →
      E.ev lx = some (.sub s.nj) → s.p s.nj = .fresh →
      XStep E s { s with m := m', x := x', p := specPost s.p (.sub s.nj), job := upd s.job n (some s.nj), nj := s.nj + 1 }
  | enterCall {s : XState E} {n j m' lx x'} : Step s.m (.enter n) m' → s.job n = some j → E.step s.x lx x' →
      E.ev lx = some (.call j) → XStep E s { s with m := m', x := x', p := specPost s.p (.call j) }
  | exitRet {s : XState E} {n j m' lx x'} : Step s.m (.exit n) m' → s.job n = some j → E.step s.x lx x' →
      E.ev lx = some (.ret j) → s.p j = .calling →
      XStep E s { s with m := m', x := x', p := specPost s.p (.ret j), job := upd s.job n none }
  | low {s : XState E} {lx x'} : E.step s.x lx x' → E.ev lx = none → XStep E s { s with x := x' }
  | lowDrop {s : XState E} {lx x' j} : E.step s.x lx x' → E.ev lx = some (.drop j) →
      XStep E s { s with x := x', p := specPost s.p (.drop j) }

def xinit (cfg : Cfg) (E : Exec) : XState E :=
  { m := init cfg, x := E.init, p := protInit, job := fun _ => none, nj := 0 }

inductive XReach (cfg : Cfg) (E : Exec) : XState E → Prop where
  | init : XReach cfg E (xinit cfg E)
  | step {s s'} : XReach cfg E s → XStep E s s' → XReach cfg E s'

/-- **projection** (no assumption on `E`) -/
theorem xshared_projects {cfg : Cfg} {E : Exec} {s : XState E} (h : XReach cfg E s) :
    Reachable cfg s.m ∧ E.Run s.x s.p := by
  induction h with
  | init => exact ⟨.init, .init⟩
  | step _ hs ih =>
      obtain ⟨hr, hl⟩ := ih
      cases hs with
      | plain hst _ => exact ⟨.step hr hst, hl⟩
      | grantSub hst _ hx hev hf => exact ⟨.step hr hst, .inp hl hx hev rfl hf⟩
      | enterCall hst _ hx hev => exact ⟨.step hr hst, .out hl hx hev rfl⟩
      | exitRet hst _ hx hev hc => exact ⟨.step hr hst, .inp hl hx hev rfl hc⟩
      | low hx hev => exact ⟨hr, .tau hl hx hev⟩
      | lowDrop hx hev => exact ⟨hr, .out hl hx hev rfl⟩

/-- the coupling between the coroutines' jobs and the executor's protocol state (with the contract) -/
structure XInv {E : Exec} (s : XState E) : Prop where
  fresh : ∀ a, s.p a = .fresh ↔ s.nj ≤ a
  job_st : ∀ n j, s.job n = some j →
    ((s.m.pc n = .racq ∨ s.m.pc n = .wacq) ∧ s.p j = .pending) ∨ ((s.m.pc n = .rcs ∨ s.m.pc n = .wcs) ∧ s.p j = .calling)
  job_inj : ∀ n n' j, s.job n = some j → s.job n' = some j → n = n'
  owner : ∀ a, (s.p a = .pending ∨ s.p a = .calling) → ∃ n, s.job n = some a

theorem xinv_init (cfg : Cfg) (E : Exec) : XInv (xinit cfg E) := by
  constructor <;> simp [xinit, protInit]

theorem owns_of_job {E : Exec} {s : XState E} (hi : XInv s) {n : Cid} {j : Nat} (h : s.job n = some j) : Owns (s.m.pc n) := by
  rcases hi.job_st n j h with ⟨h1 | h1, _⟩ | ⟨h1 | h1, _⟩ <;> simp [Owns, h1]

theorem xinv_step {cfg : Cfg} {E : Exec} (hc : ExecContract E) (hnd : NeverDrops E) {s s' : XState E}
    (hr : XReach cfg E s) (hi : XInv s) (hs : XStep E s s') : XInv s' := by
  have hmi := inv_reachable (xshared_projects hr).1
  have hrun := (xshared_projects hr).2
  have howns := fun {n j} => owns_of_job hi (n := n) (j := j)
  obtain ⟨hf, hj, hinj, hown⟩ := hi
  have job_lt : ∀ n j, s.job n = some j → j < s.nj := by
    intro n j hnj
    have h1 : s.p j ≠ .fresh := by rcases hj n j hnj with ⟨_, h⟩ | ⟨_, h⟩ <;> rw [h] <;> simp
    have : ¬ s.nj ≤ j := fun hle => h1 ((hf j).mpr hle)
    omega
  -- a step that is not `enter c` / `exit c` leaves the coupling of c untouched
  have keep : ∀ {l m'} (c : Cid) (k : Nat), Step s.m l m' → s.job c = some k → l ≠ .enter c → l ≠ .exit c →
      ((m'.pc c = .racq ∨ m'.pc c = .wacq) ∧ s.p k = .pending) ∨ ((m'.pc c = .rcs ∨ m'.pc c = .wcs) ∧ s.p k = .calling) := by
    intro l m' c k hst hck h1 h2
    rcases pc_frame hmi hst c (howns hck) with h | h | h
    · rw [h]; exact hj c k hck
    · exact absurd h h1
    · exact absurd h h2
  cases hs with
  | @plain l m' hst hsy =>
      refine ⟨hf, fun n j hnj => ?_, hinj, hown⟩
      simp only at hnj
      refine keep n j hst hnj ?_ ?_
      · intro h; subst h; simp [synced, hnj] at hsy
      · intro h; subst h; simp [synced, hnj] at hsy
  | @grantSub l n m' lx x' hst hg hx hev hfr =>
      obtain ⟨hnown, hacq⟩ := grant_target hmi hst hg
      have hnone : s.job n = none := by
        cases hjn : s.job n with
        | none => rfl
        | some j => exact absurd (howns hjn) hnown
      have hl1 : ∀ c, l ≠ .enter c := by intro c h; subst h; simp [grantOf] at hg
      have hl2 : ∀ c, l ≠ .exit c := by intro c h; subst h; simp [grantOf] at hg
      refine ⟨fun a => ?_, fun c j hcj => ?_, fun c c' j h1 h2 => ?_, fun a ha => ?_⟩
      · simp only [specPost, Yaclib.Strand.upd]
        by_cases ha : a = s.nj
        · subst ha; simp
        · simp only [ha, ↓reduceIte]; rw [hf a]; omega
      · simp only [upd] at hcj
        by_cases hcn : c = n
        · subst hcn
          simp only [↓reduceIte, Option.some.injEq] at hcj; subst hcj
          left; exact ⟨hacq, by simp [specPost, Yaclib.Strand.upd]⟩
        · simp only [hcn, ↓reduceIte] at hcj
          have hlt := job_lt c j hcj
          have hne : j ≠ s.nj := by omega
          simp only [specPost, Yaclib.Strand.upd, hne, ↓reduceIte]
          exact keep c j hst hcj (hl1 c) (hl2 c)
      · simp only [upd] at h1 h2
        by_cases hc1 : c = n <;> by_cases hc2 : c' = n
        · rw [hc1, hc2]
        · simp only [hc1, hc2, ↓reduceIte, Option.some.injEq] at h1 h2
          have := job_lt c' j h2; omega
        · simp only [hc1, hc2, ↓reduceIte, Option.some.injEq] at h1 h2
          have := job_lt c j h1; omega
        · simp only [hc1, hc2, ↓reduceIte] at h1 h2; exact hinj c c' j h1 h2
      · simp only [specPost, Yaclib.Strand.upd] at ha
        by_cases han : a = s.nj
        · subst han; exact ⟨n, by simp [upd]⟩
        · simp only [han, ↓reduceIte] at ha
          obtain ⟨c, hc'⟩ := hown a ha
          have hcn : c ≠ n := by intro he; subst he; rw [hnone] at hc'; cases hc'
          exact ⟨c, by simp [upd, hcn, hc']⟩
  | @enterCall n j m' lx x' hst hnj hx hev =>
      have hpre : s.p j = .pending := hc.safe hrun hx hev rfl
      have hent := enter_effect hst
      refine ⟨fun a => ?_, fun c k hck => ?_, hinj, fun a ha => ?_⟩
      · simp only [specPost, Yaclib.Strand.upd]
        by_cases ha : a = j
        · subst ha; have := job_lt n a hnj; simp; omega
        · simp only [ha, ↓reduceIte]; exact hf a
      · by_cases hcn : c = n
        · subst hcn
          rw [hnj] at hck; cases hck
          right
          refine ⟨?_, by simp [specPost, Yaclib.Strand.upd]⟩
          rcases hent with ⟨_, h⟩ | ⟨_, h⟩ <;> simp [h]
        · have hkj : k ≠ j := fun he => hcn (hinj c n j (he ▸ hck) hnj)
          simp only [specPost, Yaclib.Strand.upd, hkj, ↓reduceIte]
          refine keep c k hst hck ?_ ?_
          · intro h; cases h; exact hcn rfl
          · intro h; cases h
      · simp only [specPost, Yaclib.Strand.upd] at ha
        by_cases haj : a = j
        · subst haj; exact ⟨n, hnj⟩
        · simp only [haj, ↓reduceIte] at ha; exact hown a ha
  | @exitRet n j m' lx x' hst hnj hx hev hcl =>
      refine ⟨fun a => ?_, fun c k hck => ?_, fun c c' k h1 h2 => ?_, fun a ha => ?_⟩
      · simp only [specPost, Yaclib.Strand.upd]
        by_cases ha : a = j
        · subst ha; have := job_lt n a hnj; simp; omega
        · simp only [ha, ↓reduceIte]; exact hf a
      · simp only [upd] at hck
        by_cases hcn : c = n
        · simp [hcn] at hck
        · simp only [hcn, ↓reduceIte] at hck
          have hkj : k ≠ j := fun he => hcn (hinj c n j (he ▸ hck) hnj)
          simp only [specPost, Yaclib.Strand.upd, hkj, ↓reduceIte]
          refine keep c k hst hck ?_ ?_
          · intro h; cases h
          · intro h; cases h; exact hcn rfl
      · simp only [upd] at h1 h2
        by_cases hc1 : c = n
        · simp [hc1] at h1
        · by_cases hc2 : c' = n
          · simp [hc2] at h2
          · simp only [hc1, hc2, ↓reduceIte] at h1 h2; exact hinj c c' k h1 h2
      · simp only [specPost, Yaclib.Strand.upd] at ha
        by_cases haj : a = j
        · subst haj; simp at ha
        · simp only [haj, ↓reduceIte] at ha
          obtain ⟨c, hc'⟩ := hown a ha
          have hcn : c ≠ n := by intro he; subst he; rw [hnj] at hc'; cases hc'; exact haj rfl
          exact ⟨c, by simp [upd, hcn, hc']⟩
  | low hx hev => exact ⟨hf, hj, hinj, hown⟩
  | lowDrop hx hev => exact absurd hev (hnd _ _ _ _ hx)

theorem xinv_reach {cfg : Cfg} {E : Exec} (hc : ExecContract E) (hnd : NeverDrops E) {s : XState E}
    (h : XReach cfg E s) : XInv s := by
  induction h with
  | init => exact xinv_init cfg E
  | step hr hs ih => exact xinv_step hc hnd hr ih hs

/-- **nobody is forgotten over a real executor**: if `E` honours the IExecutor contract and never Drops, a state of the
    composition in which nothing can move — neither a coroutine, nor the executor — is a quiescent state of the plain
    model (so `quiescent_none_parked` applies) -/
theorem xshared_quiescent {cfg : Cfg} {E : Exec} (hc : ExecContract E) (hnd : NeverDrops E) {s : XState E}
    (h : XReach cfg E s) (hq : ∀ s', ¬ XStep E s s') : ∀ l m', ¬ Step s.m l m' := by
  have hi := xinv_reach hc hnd h
  have hrun := (xshared_projects h).2
  have hnocall : ∀ a, s.p a ≠ .calling := by
    intro a ha
    obtain ⟨n, hn⟩ := hi.owner a (Or.inr ha)
    have hcs : s.m.pc n = .rcs ∨ s.m.pc n = .wcs := by
      rcases hi.job_st n a hn with ⟨_, h2⟩ | ⟨h1, _⟩
      · rw [ha] at h2; cases h2
      · exact h1
    obtain ⟨lx, x', hx, hev⟩ := hc.accepts_ret a hrun ha
    rcases hcs with hcs | hcs
    · exact hq _ (.exitRet (Step.exitR s.m n hcs) hn hx hev ha)
    · exact hq _ (.exitRet (Step.exitW s.m n hcs) hn hx hev ha)
  have hquiet : E.Quiet s.x := by
    intro lx x' hx
    cases hev : E.ev lx with
    | none => exact absurd (XStep.low hx hev) (hq _)
    | some e =>
        cases e with
        | sub a => exact ⟨_, rfl, rfl⟩
        | ret a => exact ⟨_, rfl, rfl⟩
        | drop a => exact absurd hev (hnd _ _ _ _ hx)
        | call a =>
            have hp : s.p a = .pending := hc.safe hrun hx hev rfl
            obtain ⟨n, hn⟩ := hi.owner a (Or.inl hp)
            have hacq : s.m.pc n = .racq ∨ s.m.pc n = .wacq := by
              rcases hi.job_st n a hn with ⟨h1, _⟩ | ⟨_, h2⟩
              · exact h1
              · rw [hp] at h2; cases h2
            rcases hacq with hacq | hacq
            · exact absurd (XStep.enterCall (Step.enterR s.m n hacq) hn hx hev) (hq _)
            · exact absurd (XStep.enterCall (Step.enterW s.m n hacq) hn hx hev) (hq _)
  have hnopend : ∀ a, s.p a ≠ .pending := hc.progress hrun hquiet hnocall
  have hnojob : ∀ n, s.job n = none := by
    intro n
    cases hn : s.job n with
    | none => rfl
    | some j =>
        rcases hi.job_st n j hn with ⟨_, h⟩ | ⟨_, h⟩
        · exact absurd h (hnopend j)
        · exact absurd h (hnocall j)
  intro l m' hst
  by_cases hsy : synced s.job l = false
  · exact hq _ (.plain hst hsy)
  · have hfr := (hi.fresh s.nj).mpr (Nat.le_refl _)
    obtain ⟨lx, x', hx, hev⟩ := hc.accepts_sub s.nj hrun hfr
    cases l with
    | runFirst c n => exact hq _ (.grantSub hst rfl hx hev hfr)
    | runW c n => exact hq _ (.grantSub hst rfl hx hev hfr)
    | runR c n => exact hq _ (.grantSub hst rfl hx hev hfr)
    | enter n => simp [synced, hnojob n] at hsy
    | exit n => simp [synced, hnojob n] at hsy
    | _ => simp [synced] at hsy

end Yaclib.CoSharedMutex
