import YaclibModel.Proofs.FiberSyncShared
namespace Yaclib.FiberSync.Sm
open Yaclib.FiberSync

set_option maxHeartbeats 4000000 in
theorem inv_step_5 {k s l s'} (hi : Inv k s) (hs : Step s l s') (hg : grpOf l = 5) : Inv k s' := by
  cases hs with
  | tsFast f hk h hx => cases hi; sm_auto
  | tsPark f t d j hk h hx ht => cases hi; sm_auto
  | tsRecheckAcq f req hk h hx => cases hi; sm_auto
  | tsRepark f req j hk h hx => cases hi; sm_auto
  | tsTimeout f t req dl hk h hd ht => cases hi; sm_auto
  | sleepStart f t d h ht => cases hi; sm_auto
  | sleepWake f t dl h hd ht => cases hi; sm_auto
  | finish f h => cases hi; sm_auto
  | _ => simp [grpOf] at hg

end Yaclib.FiberSync.Sm
