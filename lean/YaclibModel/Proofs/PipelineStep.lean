/- Every client event preserves the invariant of Proofs/PipelineInv.lean. -/
import YaclibModel.Proofs.PipelineInv

namespace Yaclib.Pipeline
open Yaclib.Extracted

theorem startLazy_spec (cfg : Cfg) (src : Src) (ovr : Option Exec) (ctx : Option Nat) (g : G) :
    match startLazy cfg src ovr ctx g with
    | .go r inh _ g' => specSrc cfg src ovr true g.subs = (r, inh, g'.subs) ∧ g'.invoked = g.invoked
    | .wait w inh g' =>
      (∀ inv, specFire cfg w inh g'.subs inv = ⟨(specSrc cfg src ovr true g.subs).1, inh, g'.subs, inv⟩) ∧
      (specSrc cfg src ovr true g.subs).2 = (inh, g'.subs) ∧ g'.invoked = g.invoked ∧ (src == Src.unit) = false
    | .crash _ => False := by
  cases src with
  | ready r =>
    have h := submit_offered cfg (ovr.getD .inl) ctx g r
    simp only [startLazy, specSrc, ite_true]
    cases hs : submit cfg (ovr.getD .inl) ctx g with
    | callNow c g' => rw [hs] at h; simp [h.1, h.2]
    | dropNow c g' => rw [hs] at h; simp [h.1, h.2]
    | queued jid k g' => rw [hs] at h; simp [h.1, h.2.1, specFire]
  | promiseFn e p f =>
    have h := startSrc_spec cfg (.promiseFn (ovr.getD e) p f) ctx g
    simp only [startLazy]
    cases hs : startSrc cfg (.promiseFn (ovr.getD e) p f) ctx g with
    | go r inh c g' => rw [hs] at h; simpa [specSrc] using h
    | wait w inh g' => rw [hs] at h; simpa [specSrc] using h
    | crash g' => rw [hs] at h; exact h
  | contract p f => simp [startLazy, startSrc, specSrc, specFire]
  | contractOn e p f => simp [startLazy, startSrc, specSrc, specFire]
  | unit => simp [startLazy, startSrc, specSrc]
  | sharedReady r => simp [startLazy, startSrc, specSrc]
  | sharedContract p f => simp [startLazy, startSrc, specSrc, specFire]
  | sharedKept e p f pre => cases h : g.isSet p pre <;> simp [startLazy, startSrc, h, specSrc, specFire]

/-- a cascade whose outcome denotes `spec p'` comes to rest in a state satisfying the invariant -/
theorem inv_settle (cfg : Cfg) (st0 : State) (o : Out) (p' : Prog) (h' : Handle)
    (hc : st0.crashed = false)
    (hh : (h' = .fut ∧ st0.held = true ∧ st0.ended = false) ∨ (h' = .none ∧ st0.held = false))
    (hden : denK cfg [] o = some (spec cfg p')) (hrun : Runs p') :
    Inv cfg (settle st0 o) p' h' := by
  cases o with
  | done r inh c g =>
    simp only [denK, specSteps_nil] at hden
    have hspec := (Option.some.inj hden).symm
    cases hh with
    | inl hh =>
      obtain ⟨h1, h2, h3⟩ := hh
      simp [settle, h2, h3, Inv, hc, h1, hspec, hrun]
    | inr hh =>
      obtain ⟨h1, h2⟩ := hh
      simp [settle, h2, Inv, hc, h1, hspec, hrun]
  | parked t g =>
    simp only [denK] at hden
    have hspec := (Option.some.inj hden).symm
    simp [settle, Inv, hc, hspec, hrun, hh]
  | crash g => simp [denK] at hden

/-- the cascade started by `started` -/
theorem inv_started (cfg : Cfg) (st0 : State) (steps : List Step) (hd flow : Bool) (s : Started) (p' : Prog) (h' : Handle)
    (hc : st0.crashed = false)
    (hh : (h' = .fut ∧ st0.held = true ∧ st0.ended = false) ∨ (h' = .none ∧ st0.held = false))
    (hrun : Runs p')
    (hgo : ∀ r inh c g, s = .go r inh c g → spec cfg p' = specSteps cfg steps hd r inh g.subs g.invoked)
    (hwait : ∀ w inh g, s = .wait w inh g → spec cfg p' = specThread cfg ⟨w, inh, steps, []⟩ g.subs g.invoked)
    (hcrash : ∀ g, s ≠ .crash g) :
    Inv cfg (started cfg st0 steps hd flow s) p' h' := by
  cases s with
  | go r inh c g =>
    simp only [started]
    exact inv_settle cfg st0 _ p' h' hc hh (by rw [runSteps_den, hgo r inh c g rfl]) hrun
  | wait w inh g =>
    simp only [started]
    exact inv_settle cfg st0 _ p' h' hc hh (by simp [denK, hwait w inh g rfl]) hrun
  | crash g => exact (hcrash g rfl).elim

theorem inv_step (cfg : Cfg) (st : State) (p : Prog) (h : Handle) (ev : Event) (hi : Inv cfg st p h) :
    Inv cfg (mech cfg st ev) (clientEv (p, h) ev).1 (clientEv (p, h) ev).2 := by
  obtain ⟨ctl, held, ended, got, result, crashed, g⟩ := st
  obtain ⟨hc, hi⟩ := hi
  simp only at hc hi
  subst hc
  unfold mech
  simp only [Bool.false_eq_true, ite_false]
  cases ctl with
  | idle => exact hi.elim
  | task src steps =>
    obtain ⟨h1, h2, h3, h4, h5, h6, h7⟩ := hi
    subst h1 h5 h6
    cases ev with
    | attach s =>
      cases hdm : s.mode.isDetach
      · simp only [clientEv, hdm, Bool.false_eq_true, ite_false]
        refine ⟨rfl, ?_⟩
        simp only []
        simp_all [Inv]
      · simp_all [Inv, clientEv]
    | start sk =>
      simp only [clientEv]
      have hrun : Runs { p with start := some sk } := by
        rw [h2]; exact ⟨fun _ => by simp, h7⟩
      have hsp := startLazy_spec cfg src sk.ovr none g
      refine inv_started cfg _ _ _ true _ _ _ rfl ?_ hrun ?_ ?_ ?_
      · cases hk : sk.holds
        · exact Or.inr ⟨by simp, rfl⟩
        · exact Or.inl ⟨by simp, rfl, rfl⟩
      · intro r inh c g' hgo
        rw [hgo] at hsp
        obtain ⟨e1, e2⟩ := hsp
        rw [h3] at e1
        rw [h4] at e2
        rw [h2]
        simp only [spec, ite_true, Option.bind_some]
        rw [e1, e2]
      · intro w inh g' hw
        rw [hw] at hsp
        obtain ⟨a1, a2, a3, a5⟩ := hsp
        simp only [h3] at a1 a2
        rw [h4] at a3
        rw [h2]
        have b1 : (specSrc cfg src sk.ovr true []).2.1 = inh := by rw [a2]
        have b2 : (specSrc cfg src sk.ovr true []).2.2 = g'.subs := by rw [a2]
        simp only [spec, ite_true, Option.bind_some, specThread, specFrames, a1, a5, a3, b1, b2]
      · intro g' hg; rw [hg] at hsp; exact hsp
    | src s lazy head => simp_all [Inv, clientEv]
    | set q => simp_all [Inv, clientEv]
    | call k => simp_all [Inv, clientEv]
    | dropFuture => simp_all [Inv, clientEv]
    | get => simp_all [Inv, clientEv]
  | future r inh =>
    obtain ⟨h1, h2, h3, h4, h5, h6⟩ := hi
    subst h1 h2 h3
    cases ev with
    | attach s =>
      simp only [clientEv, Bool.not_true, Bool.false_eq_true, ite_false]
      have hsp : spec cfg { p with steps := p.steps ++ [s] } =
          specSteps cfg [s] false r inh g.subs g.invoked := by
        rw [spec_attach cfg p s h6, h4]
      cases hdm : s.mode.isDetach
      · simp only [Bool.false_eq_true, ite_false]
        exact inv_settle cfg _ _ _ _ rfl (Or.inl ⟨rfl, rfl, rfl⟩) (by rw [runSteps_den, hsp]; rfl) (Runs_attach p s h6)
      · simp only [ite_true]
        exact inv_settle cfg _ _ _ _ rfl (Or.inr ⟨rfl, rfl⟩) (by rw [runSteps_den, hsp]; rfl) (Runs_attach p s h6)
    | dropFuture => simp_all [Inv, clientEv]
    | get => simp_all [Inv, clientEv]
    | src s lazy head => simp_all [Inv, clientEv]
    | set q => simp_all [Inv, clientEv]
    | call k => simp_all [Inv, clientEv]
    | start sk => simp_all [Inv, clientEv]
  | pending t =>
    obtain ⟨h1, h2, h4⟩ := hi
    cases ev with
    | attach s =>
      cases h1 with
      | inl h1 =>
        obtain ⟨a1, a2, a3⟩ := h1
        subst a1 a2 a3
        simp only [clientEv, Bool.not_true, Bool.false_eq_true, ite_false]
        refine ⟨by cases s.mode.isDetach <;> rfl, ?_⟩
        have hsp : spec cfg { p with steps := p.steps ++ [s] } =
            specThread cfg (t.attach s) g.subs g.invoked := by
          rw [spec_attach cfg p s h4, specThread_attach, h2]
        cases hdm : s.mode.isDetach <;> simp [hsp, Runs_attach p s h4]
      | inr h1 =>
        obtain ⟨a1, a2⟩ := h1
        subst a1 a2
        simp_all [Inv, clientEv]
    | set q =>
      simp only [clientEv]
      cases hw : t.wait with
      | job jid k jk => simp_all [Inv]
      | promise q' f =>
        simp only []
        by_cases hq : q = q'
        · simp only [hq, ite_true]
          exact inv_settle cfg _ _ _ _ rfl h1 (by rw [resume_den, h2]; simp) h4
        · simp only [hq, ite_false]
          exact ⟨rfl, h1, by simpa using h2, h4⟩
    | call k =>
      simp only [clientEv]
      cases hw : t.wait with
      | promise q' f => simp_all [Inv]
      | job jid k' jk =>
        simp only []
        by_cases hq : k = k'
        · simp only [hq, ite_true]
          exact inv_settle cfg _ _ _ _ rfl h1 (by rw [resume_den, h2]) h4
        · simp only [hq, ite_false]
          exact ⟨rfl, h1, h2, h4⟩
    | dropFuture =>
      cases h1 with
      | inl h1 => obtain ⟨a1, a2, a3⟩ := h1; subst a1 a2 a3; simp_all [Inv, clientEv]
      | inr h1 => obtain ⟨a1, a2⟩ := h1; subst a1 a2; simp_all [Inv, clientEv]
    | get =>
      cases h1 with
      | inl h1 => obtain ⟨a1, a2, a3⟩ := h1; subst a1 a2 a3; simp_all [Inv, clientEv]
      | inr h1 => obtain ⟨a1, a2⟩ := h1; subst a1 a2; simp_all [Inv, clientEv]
    | src s lazy head =>
      cases h1 with
      | inl h1 => obtain ⟨a1, a2, a3⟩ := h1; subst a1 a2 a3; simp_all [Inv, clientEv]
      | inr h1 => obtain ⟨a1, a2⟩ := h1; subst a1 a2; simp_all [Inv, clientEv]
    | start sk =>
      cases h1 with
      | inl h1 => obtain ⟨a1, a2, a3⟩ := h1; subst a1 a2 a3; simp_all [Inv, clientEv]
      | inr h1 => obtain ⟨a1, a2⟩ := h1; subst a1 a2; simp_all [Inv, clientEv]
  | gone =>
    obtain ⟨h1, h2⟩ := hi
    subst h1
    cases ev <;> simp_all [Inv, clientEv]

end Yaclib.Pipeline
