import YaclibModel.Proofs.CoSharedMutex
namespace Yaclib.CoSharedMutex

set_option maxHeartbeats 4000000 in
theorem inv_step_0 {cfg s l s'} (hi : Inv cfg s) (hs : Step s l s') (hg : grpOf l = 0) : Inv cfg s' := by
  cases hs with
  | rdFadd c h ht ho =>
      cases hi
      by_cases hW : s.W = 0
      · simp only [doRdFadd, hW, ↓reduceIte]; sm_auto [List.count_le_length]
      · simp only [doRdFadd, hW, ↓reduceIte]; sm_auto [List.count_le_length]
  | spinOk c k h hf =>
      cases hi
      cases k <;> sm_auto [List.count_le_length]
  | spinBusy c k h hf =>
      cases hi
      cases k <;> sm_auto [List.count_le_length]
  | _ => simp [grpOf] at hg

end Yaclib.CoSharedMutex
