import YaclibModel.Proofs.CoSharedMutex
namespace Yaclib.CoSharedMutex

set_option maxHeartbeats 4000000 in
theorem inv_rwFsub_1 {cfg : Cfg} {s : State} (hi : Inv cfg s) (c : Cid) (h : s.pc c = .rUn2) (h1 : s.rwait = 1) (hpw : s.pw = .none) :
    Inv cfg ((doRwFsub s c)) := by
  cases hi
  simp only [doRwFsub, h1, hpw, ↓reduceIte]
  sm_auto [List.count_le_length]

end Yaclib.CoSharedMutex
