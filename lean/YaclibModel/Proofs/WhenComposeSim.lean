/- WhenU: every Unique instance is a C01 run, the coupling invariant, and the simulation
   `WhenU.Reachable S → When.Reachable S.wh` — the interface steps the When model assumes are produced by the instances exactly
   when the When model is ready for them. -/
import YaclibModel.Proofs.WhenCompose

namespace Yaclib.WhenU
open Yaclib

variable {w : When.Workload} {S : State}

theorem upd_eq {α : Type} (f : Nat → α) (i j : Nat) (x : α) : When.upd f i x j = if j = i then x else f j := rfl

/-- every input instance is a run of the C01 model -/
theorem unique_reachable (h : Reachable w S) : ∀ i, Unique.Reachable (wU w i) (S.u i) ∧ UOk (S.u i) := by
  induction h with
  | init => intro i; exact ⟨.init, uok_init w i⟩
  | step hr hs ih =>
      intro j
      have key : ∀ (i : Nat) (l : Unique.Label) (u' : Unique.State) (uu : Nat → Unique.State),
          used l = true → Unique.Step (uu i) l u' → (Unique.Reachable (wU w i) (uu i) ∧ UOk (uu i)) →
          (Unique.Reachable (wU w j) (uu j) ∧ UOk (uu j)) →
          Unique.Reachable (wU w j) (When.upd uu i u' j) ∧ UOk (When.upd uu i u' j) := by
        intro i l u' uu hl hst hi hj
        rw [upd_eq]
        by_cases hji : j = i
        · subst hji; simp; exact ⟨.step hi.1 hst, uok_step hi.2 hst hl⟩
        · simp [hji]; exact hj
      cases hs with
      | «when» l wh' hl h => exact ih j
      | prod i old u' hi h => exact key i _ u' _ rfl h (ih i) (ih j)
      | cload i x u' hr h => exact key i _ u' _ rfl h (ih i) (ih j)
      | casOk i u' hr h => exact key i _ u' _ rfl h (ih i) (ih j)
      | casFail i u' hr h => exact key i _ u' _ rfl h (ih i) (ih j)
      | enterC i r u' hr h => exact key i _ u' _ rfl h (ih i) (ih j)
      | enterP i r u' hi h => exact key i _ u' _ rfl h (ih i) (ih j)

/-- coupling of the combinator with its inputs -/
structure K (w : When.Workload) (S : State) : Prop where
  /-- the completer holds the callback ⇒ the combinator is waiting for exactly that -/
  fire_pending : ∀ i, (S.u i).ppc = .fire .cont → S.wh.pc i = .pending
  /-- the callback sits in the word ⇒ the combinator has it registered as installed -/
  word_pending : ∀ i, (S.u i).word = .cb .cont → S.wh.pc i = .pending
  /-- … and conversely an installed callback is in the word or in the completer's hands -/
  pending_src : ∀ i, S.wh.pc i = .pending → (S.u i).word = .cb .cont ∨ (S.u i).ppc = .fire .cont
  /-- the combinator's count of callback entries is the instance's list of continuation deliveries -/
  entries : ∀ i, S.wh.consumed i = (S.u i).delivered.length
  /-- the consumer (SetCallback) of instance i is finished iff the registration loop is past input i -/
  todo_reg : ∀ i, (S.u i).todo = [] ↔ i < S.wh.reg

theorem k_init (w : When.Workload) : K w (init w) := by
  constructor <;> simp [init, When.init, Unique.init, wU]

theorem consumeStart_ne_pending (st : When.Strat) (r : When.Res) : When.consumeStart st r ≠ .pending := by
  have h1 := When.consumeStart_cases st r
  have h2 := When.afterRetire_cases st r
  grind

macro "kauto" : tactic =>
  `(tactic| (constructor <;>
      (try simp only [Unique.doPInvoke, Unique.doCInvoke, Unique.doCasOk, Unique.afterFail, When.doRegSet, When.doFire,
        Bool.false_eq_true, if_false, if_true]) <;> grind [= upd_eq]))

theorem sim_step {S' : State} {l : Label} (hwf : w.wf) (hR : Reachable w S) (hW : When.Reachable w S.wh) (hK : K w S)
    (hs : Step w S l S') : When.Reachable w S'.wh ∧ K w S' := by
  have hU := unique_reachable hR
  have hC := When.invc_reachable hW
  have hcr : S.wh.crashed = false := (When.invb_reachable hwf hW).not_crashed
  have hun := hC.unreg
  obtain ⟨k1, k2, k3, k4, k5⟩ := hK
  cases hs with
  | «when» l wh' hl h =>
      obtain ⟨f1, f2, f3, f4⟩ := when_frame h hl
      refine ⟨.step hW h, ?_⟩
      constructor <;> simp only [] <;> grind
  | prod i old u' hi h =>
      refine ⟨hW, ?_⟩
      obtain ⟨c1, c2, c3, c4, c5⟩ := (hU i).2
      cases h
      rename_i hp hw
      rcases c3 with c3 | c3 | c3
      · simp only [Unique.doXchg, c3]; kauto
      · simp only [Unique.doXchg, c3]; kauto
      · exact absurd c3 hw
  | cload i x u' hr h =>
      refine ⟨hW, ?_⟩
      obtain ⟨c1, c2, c3, c4, c5⟩ := (hU i).2
      cases h with
      | cAttLoad op rest k x' hc ht hk hx =>
          have hop : op = .fin (.attach false) ∧ k = .cont := by
            rcases c2 with c2 | c2
            · rw [c2] at ht; cases ht; simp [Unique.opCb, Unique.finCb] at hk; exact ⟨rfl, hk.symm⟩
            · rw [c2.1] at ht; cases ht
          obtain ⟨rfl, rfl⟩ := hop
          by_cases hx0 : x = .empty <;> simp only [Unique.doAttLoad, hx0, if_true, if_false] <;> kauto
      | cReadyLoad rest x' hc ht hx =>
          rcases c2 with c2 | c2
          · rw [c2] at ht; cases ht
          · rw [c2.1] at ht; cases ht
      | cGetcLoad rest x' hc ht hx =>
          rcases c2 with c2 | c2
          · rw [c2] at ht; cases ht
          · rw [c2.1] at ht; cases ht
  | casOk i u' hr h =>
      obtain ⟨r1, r2, r3, r4⟩ := hr
      refine ⟨.step hW (.regSet S.wh i true r4 r2 r1 r3), ?_⟩
      obtain ⟨c1, c2, c3, c4, c5⟩ := (hU i).2
      cases h
      rename_i hp hw
      kauto
  | casFail i u' hr h =>
      refine ⟨hW, ?_⟩
      cases h
      rename_i hp hw
      kauto
  | enterC i r u' hr h =>
      obtain ⟨r1, r2, r3, r4⟩ := hr
      refine ⟨.step hW (.regSet S.wh i false r4 r2 r1 r3), ?_⟩
      obtain ⟨c1, c2, c3, c4, c5⟩ := (hU i).2
      have hI := Unique.inv_reachable (hU i).1
      have hne := consumeStart_ne_pending w.strat (w.inp i)
      cases h with
      | cInvoke r' hp hv hst =>
          have hca := hI.c_after (Or.inl ⟨_, hp⟩)
          kauto
      | cInvokeSub r' hp hst => rw [hp] at c1; simp at c1
  | enterP i r u' hi h =>
      obtain ⟨c1, c2, c3, c4, c5⟩ := (hU i).2
      have hI := Unique.inv_reachable (hU i).1
      have hne := consumeStart_ne_pending w.strat (w.inp i)
      cases h with
      | pInvoke r' hp hv hst =>
          have hpend := k1 i hp
          have hword : (S.u i).word = .result := by
            cases hw : (S.u i).word with
            | result => rfl
            | empty => have := hI.start_iff.mpr (by rw [hw]; simp); rw [hp] at this; cases this
            | cb k => have := hI.start_iff.mpr (by rw [hw]; simp); rw [hp] at this; cases this
          refine ⟨.step hW (.fire S.wh i hcr hpend), ?_⟩
          kauto
      | pInvokeSub r' hp hst => rw [hp] at c4; simp at c4

/-- **the simulation**: the When component of every reachable state of the composed system is a reachable state of the
    When model — every interface step it took was enabled — and the coupling invariant holds -/
theorem sim (hwf : w.wf) (h : Reachable w S) : When.Reachable w S.wh ∧ K w S := by
  induction h with
  | init => exact ⟨.init, k_init w⟩
  | step hr hs ih => exact sim_step hwf hr ih.1 ih.2 hs

end Yaclib.WhenU
