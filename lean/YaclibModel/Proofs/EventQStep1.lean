/- C16: preservation of the invariants of part 4 — counting steps -/
import YaclibModel.Proofs.EventQ

namespace Yaclib.Event
variable {s s' : State} {l : Label} {w : Workload}

attribute [local grind =] Pc.setter Pc.releasing Pc.owner Pc.bphase JSt.inList List.nodup_cons Pc.runList
attribute [local grind →] Pc.bphase_owner

/-- a decrement that finds a positive count happens before the count has reached zero -/
theorem InvT.not_zeroed (ht : InvT s) (h : 1 ≤ s.count) : s.zeroed = false := by
  cases hz : s.zeroed with
  | false => rfl
  | true => have := ht.t_z hz; omega

set_option maxHeartbeats 4000000 in
theorem invQ_tAdd (hz : InvZ s) (ht : InvT s) (hi : InvJ s) (hq : InvQ s) (t k : Nat) (rest : List Op) (h : (s.thr t).pc = .idle) (hp : (s.thr t).prog = .add k :: rest) :
    InvQ (doAdd s t k) := by
  have hnotz : 1 ≤ s.count → s.zeroed = false := ht.not_zeroed
  simp only [doAdd, finish, setT]
  repeat' split
  all_goals (constructor <;> q_solve3 hz ht hi hq)


set_option maxHeartbeats 4000000 in
theorem invQ_tInsAdd (hz : InvZ s) (ht : InvT s) (hi : InvJ s) (hq : InvQ s) (t : Nat) (consume : Bool) (fs : List Nat) (rest : List Op) (h : (s.thr t).pc = .idle) (hp : (s.thr t).prog = .insert consume fs :: rest) :
    InvQ (doInsAdd s t consume fs) := by
  have hnotz : 1 ≤ s.count → s.zeroed = false := ht.not_zeroed
  simp only [doInsAdd]
  repeat' split
  all_goals (constructor <;> q_solve3 hz ht hi hq)


set_option maxHeartbeats 4000000 in
theorem invQ_tInsLoad (hz : InvZ s) (ht : InvT s) (hi : InvJ s) (hq : InvQ s) (t f : Nat) (rest : List Nat) (c wc : Nat) (consume : Bool) (x : FWord) (h : (s.thr t).pc = .insReg (f :: rest) c wc consume) :
    InvQ (doInsLoad s t f rest c wc consume x) := by
  have hnotz : 1 ≤ s.count → s.zeroed = false := ht.not_zeroed
  simp only [doInsLoad, insFail, insNext, goto, finish, setT]
  repeat' split
  all_goals (constructor <;> q_solve3 hz ht hi hq)


set_option maxHeartbeats 4000000 in
theorem invQ_tInsCasOk (hz : InvZ s) (ht : InvT s) (hi : InvJ s) (hq : InvQ s) (t f : Nat) (rest : List Nat) (c wc : Nat) (consume : Bool) (h : (s.thr t).pc = .insCas f rest c wc consume) :
    InvQ (doInsCasOk s t f rest c wc consume) := by
  have hnotz : 1 ≤ s.count → s.zeroed = false := ht.not_zeroed
  simp only [doInsCasOk, insNext, goto, finish, setT]
  repeat' split
  all_goals (constructor <;> q_solve3 hz ht hi hq)


set_option maxHeartbeats 4000000 in
theorem invQ_tInsCasFail (hz : InvZ s) (ht : InvT s) (hi : InvJ s) (hq : InvQ s) (t f : Nat) (rest : List Nat) (c wc : Nat) (consume : Bool) (h : (s.thr t).pc = .insCas f rest c wc consume) :
    InvQ (insFail s t f rest c wc consume) := by
  have hnotz : 1 ≤ s.count → s.zeroed = false := ht.not_zeroed
  simp only [insFail, insNext, goto, finish, setT]
  repeat' split
  all_goals (constructor <;> q_solve3 hz ht hi hq)


set_option maxHeartbeats 4000000 in
theorem invQ_tFulfil (hz : InvZ s) (ht : InvT s) (hi : InvJ s) (hq : InvQ s) (t f : Nat) (rest : List Op) (h : (s.thr t).pc = .idle) (hp : (s.thr t).prog = .fulfil f :: rest) :
    InvQ (doFulfil s t f) := by
  have hnotz : 1 ≤ s.count → s.zeroed = false := ht.not_zeroed
  simp only [doFulfil, goto, finish, setT]
  repeat' split
  all_goals (constructor <;> q_solve3 hz ht hi hq)


set_option maxHeartbeats 4000000 in
theorem invQ_tReadyLoad (hz : InvZ s) (ht : InvT s) (hi : InvJ s) (hq : InvQ s) (t f : Nat) (rest : List Op) (b c : Bool) (h : (s.thr t).pc = .idle) (hp : (s.thr t).prog = .ready f :: rest) :
    InvQ (goto s t (.rdy f b c)) := by
  have hnotz : 1 ≤ s.count → s.zeroed = false := ht.not_zeroed
  simp only [goto, setT]
  repeat' split
  all_goals (constructor <;> q_solve3 hz ht hi hq)


set_option maxHeartbeats 4000000 in
theorem invQ_tReady (hz : InvZ s) (ht : InvT s) (hi : InvJ s) (hq : InvQ s) (t f : Nat) (b c : Bool) (h : (s.thr t).pc = .rdy f b c) :
    InvQ (finish { s with readyObs := s.readyObs ++ [(f, b, c)] } t) := by
  have hnotz : 1 ≤ s.count → s.zeroed = false := ht.not_zeroed
  simp only [finish, setT]
  repeat' split
  all_goals (constructor <;> q_solve3 hz ht hi hq)


set_option maxHeartbeats 4000000 in
theorem invQ_tDone (hz : InvZ s) (ht : InvT s) (hi : InvJ s) (hq : InvQ s) (t k : Nat) (rest : List Op) (h : (s.thr t).pc = .idle) (hp : (s.thr t).prog = .done k :: rest) :
    InvQ (doSub s t k k) := by
  have hnotz : 1 ≤ s.count → s.zeroed = false := ht.not_zeroed
  have hok := ht.t_ok t
  simp only [thrOk, okProg, Bool.and_eq_true, decide_eq_true_eq, h, hp] at hok
  simp only [doSub]
  split <;> (constructor <;> q_solve3 hz ht hi hq)


set_option maxHeartbeats 4000000 in
theorem invQ_tInsSub (hz : InvZ s) (ht : InvT s) (hi : InvJ s) (hq : InvQ s) (t k : Nat) (h : (s.thr t).pc = .insSub k) :
    InvQ (doSub s t k k) := by
  have hnotz : 1 ≤ s.count → s.zeroed = false := ht.not_zeroed
  have hok := ht.t_ok t
  simp only [thrOk, okProg, Bool.and_eq_true, decide_eq_true_eq, h] at hok
  simp only [doSub]
  split <;> (constructor <;> q_solve3 hz ht hi hq)


set_option maxHeartbeats 4000000 in
theorem invQ_tCbSub (hz : InvZ s) (ht : InvT s) (hi : InvJ s) (hq : InvQ s) (t f : Nat) (rest : List Op) (h : (s.thr t).pc = .cbSub) (hp : (s.thr t).prog = .fulfil f :: rest) :
    InvQ (doCbSub s t f) := by
  have hnotz : 1 ≤ s.count → s.zeroed = false := ht.not_zeroed
  simp only [doCbSub, doSub]
  split <;> (constructor <;> q_solve3 hz ht hi hq)


end Yaclib.Event
