import YaclibModel.Proofs.CoSharedMutexS_rdFsub_1
import YaclibModel.Proofs.CoSharedMutexS_rdFsub_2
import YaclibModel.Proofs.CoSharedMutexS_rdFsub_3
import YaclibModel.Proofs.CoSharedMutexS_rdFsub_4
import YaclibModel.Proofs.CoSharedMutexS_rdFsub_5
namespace Yaclib.CoSharedMutex

theorem inv_rdFsub {cfg : Cfg} {s : State} (hi : Inv cfg s) (c : Cid) (h : s.pc c = .rUn1) :
    Inv cfg ((doRdFsub s c)) := by
  by_cases hW : s.W = 0
  · exact inv_rdFsub_1 hi c h hW
  · cases hpw : s.pw with
    | none => exact inv_rdFsub_2 hi c h hW hpw
    | a n r => exact inv_rdFsub_3 hi c h hW n r hpw
    | b n => exact inv_rdFsub_4 hi c h hW n hpw
    | c n b => exact inv_rdFsub_5 hi c h hW n b hpw

end Yaclib.CoSharedMutex
