import YaclibModel.Proofs.CoSharedMutex
namespace Yaclib.CoSharedMutex

set_option maxHeartbeats 4000000 in
theorem inv_rdFsub {cfg : Cfg} {s : State} (hi : Inv cfg s) (c : Cid) (h : s.pc c = .rUn1) :
    Inv cfg ((doRdFsub s c)) := by
  cases hi
  by_cases hW : s.W = 0
  · simp only [doRdFsub, hW, ↓reduceIte]; sm_auto [List.count_le_length]
  · cases hpw : s.pw <;> simp only [doRdFsub, hW, ↓reduceIte] <;> sm_auto [List.count_le_length]

end Yaclib.CoSharedMutex
