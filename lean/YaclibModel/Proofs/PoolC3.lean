import YaclibModel.Proofs.Pool
namespace Yaclib.Pool
open Yaclib.Extracted.PoolConsts

set_option maxHeartbeats 2000000 in
theorem invC_step_3 {w s l s'} (ha : InvA w s) (hi : InvC w s) (hs : Step s l s') (hg : grpOf l = 3) : InvC w s' := by
  have hcj := ha.cnt_jobs
  have hgq := ha.gone_queue
  have hwl := ha.wlen
  cases hs with
  | xBegin k h hk => cases hi; invC_close
  | xLock h hl => cases hi; invC_close
  | xStop h hk => cases hi; invC_close
  | xSoftNow h hk hn => cases hi; invC_close
  | xSoftWant h hk hn => cases hi; invC_close
  | xHard h hk => cases hi; invC_close
  | xNotifyAll h =>
      have hnp := parked_not_mem_wake s.workers
      have hap := fun hq hw => active_pos_after_wake ha hq hw
      cases hi; invC_close
  | xDrop j rest h => cases hi; invC_close
  | waitRet h hr => cases hi; invC_close
  | _ => simp [grpOf] at hg

end Yaclib.Pool
