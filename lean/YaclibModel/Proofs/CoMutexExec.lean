/- C14 over a real executor: the CoMutex model composed with an executor given as an open transition system
   (`Yaclib.Strand.Exec`, Proofs/StrandTower.lean).

   In the plain model a granted coroutine is simply runnable ("executors accept work": the property's premise).  Here the
   hand-over of the mutex to a parked coroutine goes through the executor `E` it is resumed on:
     `grant _ n false`  (the releaser's `next._executor->Submit(next)`)  =  `sub j`  of a fresh job j of `E`;
     `enter n`          (the resumed coroutine starts its critical section)  =  `E` enters  `call j`;
     `exit n`           (the critical section is over)  =  the body returns, `ret j`;
     a `drop j` of `E`  =  the coroutine is completed with StopError *while it owns the mutex*: it never enters, never
                           releases — the property's premise "the executors involved keep accepting work" excludes it
                           (`NeverDrops E`); safety does not need the premise.
   Acquisitions that do not go through an executor (the CAS fast paths, the batched in-place hand-over) stay plain steps.
   (The re-submission of the *unlocking* coroutine by `UnlockOn` / batched `Unlock` is not routed through `E` here: it
   concerns where the unlocker continues — C13 — not whether a waiter is granted.)

   `xmutex_projects`: every reachable state of the composition projects onto a reachable state of the plain model and a
   protocol-honouring run of `E` — for EVERY `E`, no assumption.  `xmutex_quiescent`: with `ExecContract E` and
   `NeverDrops E`, a composed state in which nothing can move is a quiescent state of the plain model. -/
import YaclibModel.Proofs.CoMutexProgress
import YaclibModel.Proofs.StrandTower

namespace Yaclib.CoMutex
open Yaclib.Strand (Exec XEv Prot Phase specPre specPost protInit ExecContract)

/-- the premise "the executor keeps accepting work": it never Drops -/
def NeverDrops (E : Exec) : Prop := ∀ x l x' a, E.step x l x' → E.ev l ≠ some (.drop a)

/-- the same premise read over the states the executor actually reaches with protocol-honouring clients — all the proofs
    below need, and the only reading that is true of a Strand (whose transition relation, over *all* states, contains
    Drop steps from unreachable states): Proofs/StrandTowerNoDrop.lean -/
def NeverDropsRun (E : Exec) : Prop :=
  ∀ (x : E.σ) (p : Prot) (l : E.Lab) (x' : E.σ) (a : Nat), E.Run x p → E.step x l x' → E.ev l ≠ some (.drop a)

theorem NeverDrops.run {E : Exec} (h : NeverDrops E) : NeverDropsRun E := fun x _ l x' a _ hs => h x l x' a hs

structure XState (E : Exec) where
  m : State
  x : E.σ
  p : Prot
  job : Cid → Option Nat     -- the job through which a granted coroutine is being resumed
  nj : Nat                   -- next unused job number

/-- steps of the plain model that are events at the executor -/
def synced (job : Cid → Option Nat) : Label → Bool
  | .grant _ _ false => true
  | .enter n => (job n).isSome
  | .exit n => (job n).isSome
  | _ => false

inductive XStep (E : Exec) : XState E → XState E → Prop where
  | plain {s : XState E} {l m'} : Step s.m l m' → synced s.job l = false → XStep E s { s with m := m' }
  | grantSub {s : XState E} {a n m' lx x'} : Step s.m (.grant a n false) m' → E.step s.x lx x' → E.ev lx = some (.sub s.nj) →
      s.p s.nj = .fresh →
      XStep E s { s with m := m', x := x', p := specPost s.p (.sub s.nj), job := upd s.job n (some s.nj), nj := s.nj + 1 }
  | enterCall {s : XState E} {n j m' lx x'} : Step s.m (.enter n) m' → s.job n = some j → E.step s.x lx x' →
      E.ev lx = some (.call j) → XStep E s { s with m := m', x := x', p := specPost s.p (.call j) }
  | exitRet {s : XState E} {n j m' lx x'} : Step s.m (.exit n) m' → s.job n = some j → E.step s.x lx x' →
      E.ev lx = some (.ret j) → s.p j = .calling →
      XStep E s { s with m := m', x := x', p := specPost s.p (.ret j), job := upd s.job n none }
  | low {s : XState E} {lx x'} : E.step s.x lx x' → E.ev lx = none → XStep E s { s with x := x' }
  | lowDrop {s : XState E} {lx x' j} : E.step s.x lx x' → E.ev lx = some (.drop j) →
      XStep E s { s with x := x', p := specPost s.p (.drop j) }

def xinit (cfg : Cfg) (E : Exec) : XState E :=
  { m := init cfg, x := E.init, p := protInit, job := fun _ => none, nj := 0 }

inductive XReach (cfg : Cfg) (E : Exec) : XState E → Prop where
  | init : XReach cfg E (xinit cfg E)
  | step {s s'} : XReach cfg E s → XStep E s s' → XReach cfg E s'

/-- **projection** (no assumption on `E`): the mutex component is a reachable state of the plain model — every theorem
    of Props/C14 about `Reachable` applies — and the executor component is reached with a protocol-honouring client -/
theorem xmutex_projects {cfg : Cfg} {E : Exec} {s : XState E} (h : XReach cfg E s) :
    Reachable cfg s.m ∧ E.Run s.x s.p := by
  induction h with
  | init => exact ⟨.init, .init⟩
  | step _ hs ih =>
      obtain ⟨hr, hl⟩ := ih
      cases hs with
      | plain hst _ => exact ⟨.step hr hst, hl⟩
      | grantSub hst hx hev hf => exact ⟨.step hr hst, .inp hl hx hev rfl hf⟩
      | enterCall hst _ hx hev => exact ⟨.step hr hst, .out hl hx hev rfl⟩
      | exitRet hst _ hx hev hc => exact ⟨.step hr hst, .inp hl hx hev rfl hc⟩
      | low hx hev => exact ⟨hr, .tau hl hx hev⟩
      | lowDrop hx hev => exact ⟨hr, .out hl hx hev rfl⟩

/-! ### the coupling between the coroutines' jobs and the executor's protocol state (with the contract) -/

/-- a coroutine that owns the mutex (granted, or inside) keeps its program counter under every step but its own
    `enter` / `exit` -/
theorem pc_frame {cfg : Cfg} {m : State} {l : Label} {m' : State} (hi : Inv cfg m) (hs : Step m l m') (n : Cid)
    (hn : m.pc n = .acq ∨ m.pc n = .cs) : m'.pc n = m.pc n ∨ l = .enter n ∨ l = .exit n := by
  have key : ∀ (c : Cid) (v : Pc), m.pc c ≠ .acq → m.pc c ≠ .cs → upd m.pc c v n = m.pc n := by
    intro c v h1 h2
    have : n ≠ c := by intro he; subst he; rcases hn with h | h <;> contradiction
    exact upd_other _ _ _ _ this
  cases hs with
  | tlLoad c sf h _ =>
      left; cases sf
      · simp only [doTlLoad, failAcq, Bool.false_eq_true, ↓reduceIte]; exact key c _ (by rw [h]; simp) (by rw [h]; simp)
      · simp only [doTlLoad, ↓reduceIte]; exact key c _ (by rw [h]; simp) (by rw [h]; simp)
  | tlCasOk c h _ => left; exact key c _ (by rw [h]; simp) (by rw [h]; simp)
  | tlCasFail c h _ => left; exact key c _ (by rw [h]; simp) (by rw [h]; simp)
  | tryFail c h => left; exact key c _ (by rw [h]; simp) (by rw [h]; simp)
  | alLoad c _ h => left; exact key c _ (by rw [h]; simp) (by rw [h]; simp)
  | alCasLock c h _ => left; exact key c _ (by rw [h]; simp) (by rw [h]; simp)
  | alCasPush c _ _ h _ _ => left; exact key c _ (by rw [h]; simp) (by rw [h]; simp)
  | alCasFail c _ h => left; exact key c _ (by rw [h]; simp) (by rw [h]; simp)
  | enter c h =>
      by_cases hc : n = c
      · subst hc; right; left; rfl
      · left; simp only [doEnter]; exact upd_other _ _ _ _ hc
  | exit c h =>
      by_cases hc : n = c
      · subst hc; right; right; rfl
      · left; simp only [doExit]; exact upd_other _ _ _ _ hc
  | resubmit c k h =>
      have hu : m.pc c = .unlocking := (hi.blocked c).mpr (by rw [h]; rfl)
      left; simp only [doResubmit]; exact key c _ (by rw [hu]; simp) (by rw [hu]; simp)
  | ulLoad c k d _ h _ _ => left; rfl
  | ulCasOk c k d h _ =>
      left
      cases d
      · have hu : m.pc c = .unlocking := (hi.blocked c).mpr (by rw [h]; rfl)
        simp only [doRelease, finish, Bool.false_eq_true, ↓reduceIte]; exact key c _ (by rw [hu]; simp) (by rw [hu]; simp)
      · simp only [doRelease, finish, ↓reduceIte]
  | ulCasFail c k d h _ => left; rfl
  | ulXchg c k d _ h _ _ => left; rfl
  | grant c p k d g rest h _ hr =>
      left
      have hg : m.pc g = .parked := by
        have := hi.parked g
        rw [hr] at this
        by_cases hp : m.pc g = .parked
        · exact hp
        · simp [hp] at this
      have hng : n ≠ g := by intro he; subst he; rcases hn with h' | h' <;> rw [hg] at h' <;> cases h'
      simp only [doGrant]
      rw [upd_other _ _ _ _ hng]
      cases d
      · have hu : m.pc c = .unlocking := (hi.blocked c).mpr (by rw [h]; rfl)
        simp only [finish, Bool.false_eq_true, ↓reduceIte]; exact key c _ (by rw [hu]; simp) (by rw [hu]; simp)
      · simp only [finish, ↓reduceIte]

theorem grant_target {cfg : Cfg} {m : State} {a : Agent} {n : Cid} {inl : Bool} {m' : State} (hi : Inv cfg m)
    (hs : Step m (.grant a n inl) m') : m.pc n = .parked ∧ m'.pc n = .acq := by
  cases hs with
  | grant c p k d _ rest h _ hr =>
      refine ⟨?_, by simp [doGrant]⟩
      have := hi.parked n
      rw [hr] at this
      by_cases hp : m.pc n = .parked
      · exact hp
      · simp [hp] at this

structure XInv {E : Exec} (s : XState E) : Prop where
  fresh : ∀ a, s.p a = .fresh ↔ s.nj ≤ a
  job_st : ∀ n j, s.job n = some j →
    (s.m.pc n = .acq ∧ s.p j = .pending) ∨ (s.m.pc n = .cs ∧ s.p j = .calling)
  job_inj : ∀ n n' j, s.job n = some j → s.job n' = some j → n = n'
  owner : ∀ a, (s.p a = .pending ∨ s.p a = .calling) → ∃ n, s.job n = some a

theorem xinv_init (cfg : Cfg) (E : Exec) : XInv (xinit cfg E) := by
  constructor <;> simp [xinit, protInit]

theorem xinv_step_run {cfg : Cfg} {E : Exec} (hc : ExecContract E) (hnd : NeverDropsRun E) {s s' : XState E}
    (hr : XReach cfg E s) (hi : XInv s) (hs : XStep E s s') : XInv s' := by
  have hmi := inv_reachable (xmutex_projects hr).1
  have hrun := (xmutex_projects hr).2
  obtain ⟨hf, hj, hinj, hown⟩ := hi
  have job_lt : ∀ n j, s.job n = some j → j < s.nj := by
    intro n j hnj
    have h1 : s.p j ≠ .fresh := by rcases hj n j hnj with ⟨_, h⟩ | ⟨_, h⟩ <;> rw [h] <;> simp
    have : ¬ s.nj ≤ j := fun hle => h1 ((hf j).mpr hle)
    omega
  cases hs with
  | plain hst hsy =>
      refine ⟨hf, fun n j hnj => ?_, hinj, hown⟩
      have hpc : s.m.pc n = .acq ∨ s.m.pc n = .cs := by rcases hj n j hnj with ⟨h, _⟩ | ⟨h, _⟩ <;> simp [h]
      rcases pc_frame hmi hst n hpc with h | h | h
      · simp only; rw [h]; exact hj n j hnj
      · subst h; simp only at hnj; simp [synced, hnj] at hsy
      · subst h; simp only at hnj; simp [synced, hnj] at hsy
  | @grantSub a n m' lx x' hst hx hev hfr =>
      obtain ⟨hpk, hacq⟩ := grant_target hmi hst
      have hnone : s.job n = none := by
        cases hjn : s.job n with
        | none => rfl
        | some j => rcases hj n j hjn with ⟨h, _⟩ | ⟨h, _⟩ <;> rw [hpk] at h <;> cases h
      refine ⟨fun a => ?_, fun c j hcj => ?_, fun c c' j h1 h2 => ?_, fun a ha => ?_⟩
      · simp only [specPost, Yaclib.Strand.upd]
        by_cases ha : a = s.nj
        · subst ha; simp
        · simp only [ha, ↓reduceIte]; rw [hf a]; omega
      · simp only [upd] at hcj
        by_cases hcn : c = n
        · subst hcn
          simp only [↓reduceIte, Option.some.injEq] at hcj; subst hcj
          left; exact ⟨hacq, by simp [specPost, Yaclib.Strand.upd]⟩
        · simp only [hcn, ↓reduceIte] at hcj
          have hlt := job_lt c j hcj
          have hne : j ≠ s.nj := by omega
          have hpc : s.m.pc c = .acq ∨ s.m.pc c = .cs := by rcases hj c j hcj with ⟨h, _⟩ | ⟨h, _⟩ <;> simp [h]
          rcases pc_frame hmi hst c hpc with h | h | h
          · simp only [specPost, Yaclib.Strand.upd, hne, ↓reduceIte]; rw [h]; exact hj c j hcj
          · cases h
          · cases h
      · simp only [upd] at h1 h2
        by_cases hc1 : c = n <;> by_cases hc2 : c' = n
        · rw [hc1, hc2]
        · simp only [hc1, hc2, ↓reduceIte, Option.some.injEq] at h1 h2
          have := job_lt c' j h2; omega
        · simp only [hc1, hc2, ↓reduceIte, Option.some.injEq] at h1 h2
          have := job_lt c j h1; omega
        · simp only [hc1, hc2, ↓reduceIte] at h1 h2; exact hinj c c' j h1 h2
      · simp only [specPost, Yaclib.Strand.upd] at ha
        by_cases han : a = s.nj
        · subst han; exact ⟨n, by simp [upd]⟩
        · simp only [han, ↓reduceIte] at ha
          obtain ⟨c, hc'⟩ := hown a ha
          have hcn : c ≠ n := by intro he; subst he; rw [hnone] at hc'; cases hc'
          exact ⟨c, by simp [upd, hcn, hc']⟩
  | @enterCall n j m' lx x' hst hnj hx hev =>
      have hpre : s.p j = .pending := hc.safe hrun hx hev rfl
      have hent : s.m.pc n = .acq ∧ m'.pc n = .cs := by
        cases hst with
        | enter _ h => exact ⟨h, by simp [doEnter]⟩
      refine ⟨fun a => ?_, fun c k hck => ?_, hinj, fun a ha => ?_⟩
      · simp only [specPost, Yaclib.Strand.upd]
        by_cases ha : a = j
        · subst ha; have := job_lt n a hnj; simp; omega
        · simp only [ha, ↓reduceIte]; exact hf a
      · by_cases hcn : c = n
        · subst hcn
          rw [hnj] at hck; cases hck
          right; exact ⟨hent.2, by simp [specPost, Yaclib.Strand.upd]⟩
        · have hkj : k ≠ j := fun he => hcn (hinj c n j (he ▸ hck) hnj)
          have hpc : s.m.pc c = .acq ∨ s.m.pc c = .cs := by rcases hj c k hck with ⟨h, _⟩ | ⟨h, _⟩ <;> simp [h]
          rcases pc_frame hmi hst c hpc with h | h | h
          · simp only [specPost, Yaclib.Strand.upd, hkj, ↓reduceIte]; rw [h]; exact hj c k hck
          · cases h; exact absurd rfl hcn
          · cases h
      · simp only [specPost, Yaclib.Strand.upd] at ha
        by_cases haj : a = j
        · subst haj; exact ⟨n, hnj⟩
        · simp only [haj, ↓reduceIte] at ha; exact hown a ha
  | @exitRet n j m' lx x' hst hnj hx hev hcl =>
      refine ⟨fun a => ?_, fun c k hck => ?_, fun c c' k h1 h2 => ?_, fun a ha => ?_⟩
      · simp only [specPost, Yaclib.Strand.upd]
        by_cases ha : a = j
        · subst ha; have := job_lt n a hnj; simp; omega
        · simp only [ha, ↓reduceIte]; exact hf a
      · simp only [upd] at hck
        by_cases hcn : c = n
        · simp [hcn] at hck
        · simp only [hcn, ↓reduceIte] at hck
          have hkj : k ≠ j := fun he => hcn (hinj c n j (he ▸ hck) hnj)
          have hpc : s.m.pc c = .acq ∨ s.m.pc c = .cs := by rcases hj c k hck with ⟨h, _⟩ | ⟨h, _⟩ <;> simp [h]
          rcases pc_frame hmi hst c hpc with h | h | h
          · simp only [specPost, Yaclib.Strand.upd, hkj, ↓reduceIte]; rw [h]; exact hj c k hck
          · cases h
          · cases h; exact absurd rfl hcn
      · simp only [upd] at h1 h2
        by_cases hc1 : c = n
        · simp [hc1] at h1
        · by_cases hc2 : c' = n
          · simp [hc2] at h2
          · simp only [hc1, hc2, ↓reduceIte] at h1 h2; exact hinj c c' k h1 h2
      · simp only [specPost, Yaclib.Strand.upd] at ha
        by_cases haj : a = j
        · subst haj; simp at ha
        · simp only [haj, ↓reduceIte] at ha
          obtain ⟨c, hc'⟩ := hown a ha
          have hcn : c ≠ n := by intro he; subst he; rw [hnj] at hc'; cases hc'; exact haj rfl
          exact ⟨c, by simp [upd, hcn, hc']⟩
  | low hx hev => exact ⟨hf, hj, hinj, hown⟩
  | lowDrop hx hev => exact absurd hev (hnd _ _ _ _ _ hrun hx)

theorem xinv_reach_run {cfg : Cfg} {E : Exec} (hc : ExecContract E) (hnd : NeverDropsRun E) {s : XState E}
    (h : XReach cfg E s) : XInv s := by
  induction h with
  | init => exact xinv_init cfg E
  | step hr hs ih => exact xinv_step_run hc hnd hr ih hs

/-- **no lost wake-up over a real executor**: if `E` honours the IExecutor contract and never Drops, a state of the
    composition in which nothing can move — neither a coroutine, nor the executor — is a quiescent state of the plain
    model (so `quiescent_none_parked` applies: the mutex is free, nobody is parked, every request was granted once) -/
theorem xmutex_quiescent_run {cfg : Cfg} {E : Exec} (hc : ExecContract E) (hnd : NeverDropsRun E) {s : XState E}
    (h : XReach cfg E s) (hq : ∀ s', ¬ XStep E s s') : ∀ l m', ¬ Step s.m l m' := by
  have hi := xinv_reach_run hc hnd h
  have hrun := (xmutex_projects h).2
  -- nobody is inside a job body: its `exit` would be possible
  have hnocall : ∀ a, s.p a ≠ .calling := by
    intro a ha
    obtain ⟨n, hn⟩ := hi.owner a (Or.inr ha)
    have hcs : s.m.pc n = .cs := by
      rcases hi.job_st n a hn with ⟨_, h2⟩ | ⟨h1, _⟩
      · rw [ha] at h2; cases h2
      · exact h1
    obtain ⟨lx, x', hx, hev⟩ := hc.accepts_ret a hrun ha
    exact hq _ (.exitRet (Step.exit s.m n hcs) hn hx hev ha)
  -- the executor has nothing left to do
  have hquiet : E.Quiet s.x := by
    intro lx x' hx
    cases hev : E.ev lx with
    | none => exact absurd (XStep.low hx hev) (hq _)
    | some e =>
        cases e with
        | sub a => exact ⟨_, rfl, rfl⟩
        | ret a => exact ⟨_, rfl, rfl⟩
        | drop a => exact absurd hev (hnd _ _ _ _ _ hrun hx)
        | call a =>
            have hp : s.p a = .pending := hc.safe hrun hx hev rfl
            obtain ⟨n, hn⟩ := hi.owner a (Or.inl hp)
            have hacq : s.m.pc n = .acq := by
              rcases hi.job_st n a hn with ⟨h1, _⟩ | ⟨_, h2⟩
              · exact h1
              · rw [hp] at h2; cases h2
            exact absurd (XStep.enterCall (Step.enter s.m n hacq) hn hx hev) (hq _)
  have hnopend : ∀ a, s.p a ≠ .pending := hc.progress hrun hquiet hnocall
  have hnojob : ∀ n, s.job n = none := by
    intro n
    cases hn : s.job n with
    | none => rfl
    | some j =>
        rcases hi.job_st n j hn with ⟨_, h⟩ | ⟨_, h⟩
        · exact absurd h (hnopend j)
        · exact absurd h (hnocall j)
  intro l m' hst
  by_cases hsy : synced s.job l = false
  · exact hq _ (.plain hst hsy)
  · cases l with
    | grant a n inl =>
        cases inl with
        | true => simp [synced] at hsy
        | false =>
            obtain ⟨lx, x', hx, hev⟩ := hc.accepts_sub s.nj hrun ((hi.fresh s.nj).mpr (Nat.le_refl _))
            exact hq _ (.grantSub hst hx hev ((hi.fresh s.nj).mpr (Nat.le_refl _)))
    | enter n => simp [synced, hnojob n] at hsy
    | exit n => simp [synced, hnojob n] at hsy
    | _ => simp [synced] at hsy

/-! the same with the premise read over all states (the original statements) -/

theorem xinv_step {cfg : Cfg} {E : Exec} (hc : ExecContract E) (hnd : NeverDrops E) {s s' : XState E}
    (hr : XReach cfg E s) (hi : XInv s) (hs : XStep E s s') : XInv s' := xinv_step_run hc hnd.run hr hi hs

theorem xinv_reach {cfg : Cfg} {E : Exec} (hc : ExecContract E) (hnd : NeverDrops E) {s : XState E}
    (h : XReach cfg E s) : XInv s := xinv_reach_run hc hnd.run h

theorem xmutex_quiescent {cfg : Cfg} {E : Exec} (hc : ExecContract E) (hnd : NeverDrops E) {s : XState E}
    (h : XReach cfg E s) (hq : ∀ s', ¬ XStep E s s') : ∀ l m', ¬ Step s.m l m' := xmutex_quiescent_run hc hnd.run h hq

end Yaclib.CoMutex
