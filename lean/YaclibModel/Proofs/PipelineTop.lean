/- Resumption of a suspended pipeline and the client-level invariant: after every list of client events the state of
   `mech` denotes `spec` of the program the client has written so far. -/
import YaclibModel.Proofs.PipelineMaster

namespace Yaclib.Pipeline
open Yaclib.Extracted

theorem specSteps_nil (cfg : Cfg) (hd : Bool) (r : R) (inh : Exec) (subs inv : List Nat) :
    specSteps cfg [] hd r inh subs inv = ⟨r, inh, subs, inv⟩ := by
  rw [specSteps.eq_def]

theorem unwind_den (cfg : Cfg) : ∀ (fs : List Frame) (o : Out), d10FreeFrames fs = true → okOut o = true →
    denK cfg [] (unwind cfg fs o) = (denK cfg [] o).map (specFrames cfg fs) ∧ okOut (unwind cfg fs o) = true
  | [], o, _, ho => by
    cases o <;> simp [unwind, specFrames, denK] <;> exact ho
  | f :: fs, .done r inh c g, hfs, _ => by
    simp only [d10FreeFrames, Bool.and_eq_true] at hfs
    have h1 := runSteps_den cfg f.rest false true c r f.own (asyncDoneAcct f.ty g) hfs.1
    have ih := unwind_den cfg fs _ hfs.2 h1.2
    simp only [unwind]
    refine ⟨?_, ih.2⟩
    rw [ih.1, h1.1]
    simp [denK, specSteps_nil, specFrames]
  | f :: fs, .parked t g, hfs, ho => by
    simp only [okOut, d10FreeThread, Bool.and_eq_true] at ho
    constructor
    · simp [unwind, denK, specThread, specFrames_append]
    · simp [unwind, okOut, d10FreeThread, d10FreeFrames_append, ho.1.1, ho.1.2, ho.2, hfs]
  | f :: fs, .crash g, _, _ => by simp [unwind, denK, okOut]

theorem fire_den (cfg : Cfg) (t : Thread) (ctx : Option Nat) (g : G) (ht : d10FreeThread t = true) :
    denK cfg t.rest (fire cfg t ctx g) =
      some (specSteps cfg t.rest false (specFire cfg t.wait t.inh g.subs g.invoked).r
        (specFire cfg t.wait t.inh g.subs g.invoked).inh (specFire cfg t.wait t.inh g.subs g.invoked).subs
        (specFire cfg t.wait t.inh g.subs g.invoked).invoked)
    ∧ okOut (fire cfg t ctx g) = true := by
  simp only [d10FreeThread, Bool.and_eq_true] at ht
  obtain ⟨⟨hw, hrest⟩, _⟩ := ht
  unfold fire
  cases hwt : t.wait with
  | promise p f => simp [denK, specFire, okOut]
  | job jid k jk =>
    cases jk with
    | step s input hd =>
      rw [hwt] at hw
      simp only [d10FreeWait] at hw
      have h1 := callStep_den cfg s t.rest hd false (some k) (some t.inh) input t.inh (g.finishJob jid true) hw hrest
      simp only []
      refine ⟨?_, h1.2⟩
      rw [h1.1]
      simp [specCallK, specFire, seenInput, isRun_stepType]
    | readyHead r => simp [denK, specFire, okOut]
    | promiseHead p f =>
      simp [denK, specFire, okOut, specThread, specFrames, d10FreeThread, d10FreeWait, d10FreeFrames, hrest]

theorem resume_den (cfg : Cfg) (t : Thread) (ctx : Option Nat) (g : G) (ht : d10FreeThread t = true) :
    denK cfg [] (resume cfg t ctx g) = some (specThread cfg t g.subs g.invoked)
    ∧ okOut (resume cfg t ctx g) = true := by
  have hf := fire_den cfg t ctx g ht
  simp only [d10FreeThread, Bool.and_eq_true] at ht
  obtain ⟨⟨_, hrest⟩, houter⟩ := ht
  unfold resume
  have key : ∀ o : Out, denK cfg t.rest o = some (specSteps cfg t.rest false (specFire cfg t.wait t.inh g.subs g.invoked).r
        (specFire cfg t.wait t.inh g.subs g.invoked).inh (specFire cfg t.wait t.inh g.subs g.invoked).subs
        (specFire cfg t.wait t.inh g.subs g.invoked).invoked) → okOut o = true →
      denK cfg [] (unwind cfg t.outer (match o with
        | .done r inh c g' => runSteps cfg t.rest false true c r inh g'
        | o => o)) = some (specThread cfg t g.subs g.invoked) ∧
      okOut (unwind cfg t.outer (match o with
        | .done r inh c g' => runSteps cfg t.rest false true c r inh g'
        | o => o)) = true := by
    intro o h1 h2
    cases o with
    | done r inh c g' =>
      have h3 := runSteps_den cfg t.rest false true c r inh g' hrest
      have h4 := unwind_den cfg t.outer _ houter h3.2
      simp only []
      refine ⟨?_, h4.2⟩
      rw [h4.1, h3.1]
      simp only [denK] at h1
      simp only [Option.map_some, specThread]
      rw [Option.some.inj h1]
    | parked t' g' =>
      have h4 := unwind_den cfg t.outer (.parked t' g') houter h2
      simp only []
      refine ⟨?_, h4.2⟩
      rw [h4.1]
      simp only [denK] at h1
      have h5 := Option.some.inj h1
      show Option.map (specFrames cfg t.outer) (some (specThread cfg t' g'.subs g'.invoked)) = _
      rw [h5]
      rfl
    | crash g' => simp [denK] at h1
  exact key _ hf.1 hf.2

end Yaclib.Pipeline
