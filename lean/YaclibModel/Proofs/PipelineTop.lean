/- Resumption of a suspended pipeline denotes what the suspended thread denoted. -/
import YaclibModel.Proofs.PipelineMaster

namespace Yaclib.Pipeline
open Yaclib.Extracted

theorem specSteps_nil (cfg : Cfg) (hd : Bool) (r : R) (inh : Exec) (subs inv : List Nat) :
    specSteps cfg [] hd r inh subs inv = ⟨r, inh, subs, inv⟩ := by
  rw [specSteps.eq_def]

theorem unwind_den (cfg : Cfg) : ∀ (fs : List Frame) (o : Out),
    denK cfg [] (unwind cfg fs o) = (denK cfg [] o).map (specFrames cfg fs)
  | [], o => by cases o <;> simp [unwind, specFrames, denK]
  | f :: fs, .done r inh c g => by
    simp only [unwind]
    rw [unwind_den cfg fs, runSteps_den]
    simp [denK, specSteps_nil, specFrames]
  | f :: fs, .parked t g => by simp [unwind, denK, specThread, specFrames_append]
  | f :: fs, .crash g => by simp [unwind, denK]

theorem fire_den (cfg : Cfg) (t : Thread) (ctx : Option Nat) (g : G) :
    denK cfg t.rest (fire cfg t ctx g) =
      some (specSteps cfg t.rest false (specFire cfg t.wait t.inh g.subs g.invoked).r
        (specFire cfg t.wait t.inh g.subs g.invoked).inh (specFire cfg t.wait t.inh g.subs g.invoked).subs
        (specFire cfg t.wait t.inh g.subs g.invoked).invoked) := by
  unfold fire
  cases hwt : t.wait with
  | promise p f => simp [denK, specFire]
  | job jid k jk =>
    cases jk with
    | step s input hd =>
      simp only []
      rw [callStep_den cfg s t.rest hd false (some k) (some t.inh) input t.inh (g.finishJob jid true)]
      simp [specCallK, specFire, seenInput, isRun_stepType]
    | readyHead r => simp [denK, specFire]
    | promiseHead p f => simp [denK, specFire, specThread, specFrames]

theorem resume_den (cfg : Cfg) (t : Thread) (ctx : Option Nat) (g : G) :
    denK cfg [] (resume cfg t ctx g) = some (specThread cfg t g.subs g.invoked) := by
  have hf := fire_den cfg t ctx g
  unfold resume
  rw [unwind_den]
  cases ho : fire cfg t ctx g with
  | done r inh c g' =>
    rw [ho] at hf
    simp only [denK] at hf
    simp only []
    rw [runSteps_den]
    simp only [Option.map_some, specThread]
    rw [Option.some.inj hf]
  | parked t' g' =>
    rw [ho] at hf
    simp only [denK] at hf
    have h5 := Option.some.inj hf
    show Option.map (specFrames cfg t.outer) (some (specThread cfg t' g'.subs g'.invoked)) = _
    rw [h5]
    rfl
  | crash g' => rw [ho] at hf; simp [denK] at hf

end Yaclib.Pipeline
