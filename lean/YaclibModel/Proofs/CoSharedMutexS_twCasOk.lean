import YaclibModel.Proofs.CoSharedMutex
namespace Yaclib.CoSharedMutex

set_option maxHeartbeats 4000000 in
theorem inv_twCasOk {cfg : Cfg} {s : State} (hi : Inv cfg s) (c : Cid) (h : s.pc c = .twLoaded) (hW : s.W = 0) (hR : s.R = 0) :
    Inv cfg ((doTwCasOk s c)) := by
  have hpwn : s.pw = .none := by
    have h5 := hi.j5
    cases hp : s.pw.isSome
    · exact PW.eq_none_of_isSome hp
    · rw [hW, hp] at h5; simp at h5 <;> omega
  cases hi
  sm_auto [List.count_le_length]

end Yaclib.CoSharedMutex
