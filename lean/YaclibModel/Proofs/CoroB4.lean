/- preservation of InvB: SetCallback (pre-check load, compare_exchange) -/
import YaclibModel.Proofs.CoroB3
namespace Yaclib.Coro

theorem lt_of_getElem?_some {α} {l : List α} {p : Nat} {x : α} (h : l[p]? = some x) : p < l.length := by
  rcases Nat.lt_or_ge p l.length with h1 | h1
  · exact h1
  · rw [List.getElem?_eq_none h1] at h; cases h

/-- a unique word that is not empty while I am registering on it holds the result: nobody else may attach to it, and my
    own callbacks of this awaiter sit on other objects -/
theorem unique_nonempty_result {w : Workload} {s : State} {op : Op} {rest : List Op} {p j : Nat}
    (hwf : w.WF) (ha : InvA w s) (hb : InvB w s) (ht : s.todo = op :: rest) (hp : regPos s.pc = some p)
    (hj : op.cells[p]? = some j) (hsh : (w.cell j).shared = false) (hne : s.word j ≠ .open [] false) :
    (s.word j).isResult = true := by
  cases hword : s.word j with
  | result walk => rfl
  | «open» l f =>
      exfalso
      cases f with
      | true =>
          have := hb.foreign_unsafe j l hword
          simp [Workload.unsafeCell, hsh] at this
      | false =>
          cases l with
          | nil => exact hne hword
          | cons q l' =>
              have hq : q ∈ (s.word j).cbs := by rw [hword]; simp [Word.cbs]
              have hc := hb.cbs_cell j q op rest hq ht
              have hph := hb.reg_phase p q .pending hp hc.2
              have hqp : q = p := wf_inj (op_wf hwf ha ht) hc.1 hj
              subst hqp
              simp at hph

theorem st_at_reg {w : Workload} {s : State} {op : Op} {rest : List Op} {p : Nat}
    (ha : InvA w s) (hb : InvB w s) (ht : s.todo = op :: rest) (hp : regPos s.pc = some p) :
    s.st[p]? = some .todo ∧ p < op.cells.length ∧ inOp s.pc = true := by
  have hpk := ha.pc_kind op rest ht
  have hin : inOp s.pc = true := by
    cases hpc : s.pc <;> simp_all [regPos, inOp]
  have hlen := ha.st_len op rest ht hin
  have hpl : p < op.cells.length := by
    cases hpc : s.pc <;> simp_all [regPos, pcKindOk]
  have hps : p < s.st.length := by omega
  refine ⟨?_, hpl, hin⟩
  have hx : s.st[p]? = some s.st[p] := List.getElem?_eq_getElem hps
  have := hb.reg_phase p p s.st[p] hp hx
  rw [hx, this.mpr (Nat.le_refl p)]

end Yaclib.Coro

namespace Yaclib.Coro

theorem selfDone_decided (k : AKind) : decided (selfDone k) = true := by cases k <;> rfl
theorem selfDone_not_cell (k : AKind) (j : Nat) : selfDone k ≠ .wake (.cell j) := by cases k <;> simp [selfDone]
theorem selfDone_regPos (k : AKind) : regPos (selfDone k) = none := by cases k <;> rfl
theorem selfDone_fresh (k : AKind) : freshPc (selfDone k) = false := by cases k <;> rfl
theorem selfDone_afterReg (k : AKind) : afterRegPc (selfDone k) = false := by cases k <;> rfl
theorem selfDone_ne_susp (k : AKind) : selfDone k ≠ .susp := by cases k <;> simp [selfDone]
theorem selfDone_ne_rdyL (k : AKind) (x : Obs) : selfDone k ≠ .rdyL x := by cases k <;> simp [selfDone]

theorem setWord_cells_word (s : State) (j i : Nat) (wd : Word) :
    ((s.setWord j wd).cells i).word = if i = j then wd else (s.cells i).word := by
  simp only [State.setWord, upd]; split <;> simp_all

theorem setWord_todo' (s : State) (j : Nat) (wd : Word) : (s.setWord j wd).todo = s.todo := rfl
theorem setWord_w' (s : State) (j : Nat) (wd : Word) : (s.setWord j wd).w = s.w := rfl

macro "invB_reg_auto" : tactic =>
  `(tactic| (constructor <;> (try simp only [State.word, setWord_cells_word, setWord_todo', setWord_w'] at *) <;>
      grind [inOp, decided, regPos, freshPc, afterRegPc, List.length_set, selfDone_decided, selfDone_not_cell,
        selfDone_regPos, selfDone_fresh, selfDone_afterReg, selfDone_ne_susp, selfDone_ne_rdyL, inOp_selfDone,
        Word.cbs, Word.isResult]))

set_option maxHeartbeats 16000000 in
/-- SetCallback returned false for the p-th awaited object, which is complete -/
theorem invB_regFail {w : Workload} {s : State} {op : Op} {rest : List Op} {p j : Nat}
    (hwf : w.WF) (ha : InvA w s) (hb : InvB w s) (ht : s.todo = op :: rest) (hp : regPos s.pc = some p)
    (hj : op.cells[p]? = some j) (hres : (s.word j).isResult = true) : InvB w (regFail s op p) := by
  obtain ⟨hst, hpl, hin⟩ := st_at_reg ha hb ht hp
  have hwfo := op_wf hwf ha ht
  have hlen := ha.st_len op rest ht hin
  have hinj : ∀ q, op.cells[q]? = some j → q = p := fun q hq => wf_inj hwfo hq hj
  have hpk := ha.pc_kind op rest ht
  have hrk : regKind op.kind = true := by
    cases hpc : s.pc <;> simp_all [regPos, pcKindOk]
  have hns : isMulti op.kind = false → op.cells.length = 1 := fun hm => wf_single hwfo (awaitsCells_of_regKind hrk) hm
  simp only [regFail, regFrom, afterReg]
  split
  · cases hb; invB_reg_auto
  · split
    · cases hb; invB_reg_auto
    · rename_i hm
      have hn1 := wf_single hwfo (awaitsCells_of_regKind hrk) (by simpa using hm)
      have hp0 : p = 0 := by omega
      subst hp0
      have hst1 : s.st = [.todo] := by
        match hs : s.st, hlen.trans hn1, hst with
        | [a], _, h0 => simp at h0; rw [h0]
      have hcells : ∀ j', j' ∈ op.cells → j' = j := fun j' hj' => mem_single hn1 hj hj'
      split
      · rename_i h0; simp [hst1] at h0
      · cases hb; invB_reg_auto

end Yaclib.Coro
