/- preservation of InvB: SetCallback (pre-check load, compare_exchange) -/
import YaclibModel.Proofs.Coro
namespace Yaclib.Coro

theorem lt_of_getElem?_some {α} {l : List α} {p : Nat} {x : α} (h : l[p]? = some x) : p < l.length := by
  rcases Nat.lt_or_ge p l.length with h1 | h1
  · exact h1
  · rw [List.getElem?_eq_none h1] at h; cases h

/-- a unique word that is not empty while I am registering on it holds the result: nobody else may attach to it, and my
    own callbacks of this awaiter sit on other objects -/
theorem unique_nonempty_result {w : Workload} {s : State} {op : Op} {rest : List Op} {p j : Nat}
    (hwf : w.WF) (ha : InvA w s) (hb : InvB w s) (ht : s.todo = op :: rest) (hp : regPos s.pc = some p)
    (hj : op.cells[p]? = some j) (hsh : (w.cell j).shared = false) (hne : s.word j ≠ .open [] false) :
    (s.word j).isResult = true := by
  cases hword : s.word j with
  | result walk => rfl
  | «open» l f =>
      exfalso
      cases f with
      | true =>
          have := hb.foreign_unsafe j l hword
          simp [Workload.unsafeCell, hsh] at this
      | false =>
          cases l with
          | nil => exact hne hword
          | cons q l' =>
              have hq : q ∈ (s.word j).cbs := by rw [hword]; simp [Word.cbs]
              have hc := hb.cbs_cell j q op rest hq ht
              have hph := hb.reg_phase p q .pending hp hc.2
              have hqp : q = p := wf_inj (op_wf hwf ha ht) hc.1 hj
              subst hqp
              simp at hph

theorem st_at_reg {w : Workload} {s : State} {op : Op} {rest : List Op} {p : Nat}
    (ha : InvA w s) (hb : InvB w s) (ht : s.todo = op :: rest) (hp : regPos s.pc = some p) :
    s.st[p]? = some .todo ∧ p < op.cells.length ∧ inOp s.pc = true := by
  have hpk := ha.pc_kind op rest ht
  have hin : inOp s.pc = true := by
    cases hpc : s.pc <;> simp_all [regPos, inOp]
  have hlen := ha.st_len op rest ht hin
  have hpl : p < op.cells.length := by
    cases hpc : s.pc <;> simp_all [regPos, pcKindOk]
  have hps : p < s.st.length := by omega
  refine ⟨?_, hpl, hin⟩
  have hx : s.st[p]? = some s.st[p] := List.getElem?_eq_getElem hps
  have := hb.reg_phase p p s.st[p] hp hx
  rw [hx, this.mpr (Nat.le_refl p)]

end Yaclib.Coro
