/- Invariants of the C07 model (Model/Strand.lean), part 1: the token invariant. -/
import YaclibModel.Model.Strand

namespace Yaclib.Strand

/-- activation states that own the token (the strand is scheduled / running because of them) -/
def holdsTok : APc → Bool
  | .queued | .run _ | .busy _ _ | .cas | .resub => true
  | _ => false

/-- activation states that are about to `exchange` the inbox: it must be a non-empty list -/
def needsInbox : APc → Bool
  | .queued | .resub => true
  | _ => false

def callRem : APc → List JobId
  | .run rem => rem
  | .busy _ rem => rem
  | _ => []

def drainRem : APc → List JobId
  | .drain rem => rem
  | _ => []

def isBusy : APc → Bool
  | .busy _ _ => true
  | _ => false

def remOf (acts : Nat → APc) : Option Holder → List JobId
  | some (.act a) => callRem (acts a)
  | _ => []

def busyOf (acts : Nat → APc) : Option Holder → Nat
  | some (.act a) => if isBusy (acts a) then 1 else 0
  | _ => 0

/-- the part of the current batch that has not been Called yet -/
def curRem (s : State) : List JobId := remOf s.acts s.holder

/-- number of job bodies the token holder is inside of (0 or 1) -/
def curBusy (s : State) : Nat := busyOf s.acts s.holder

@[simp] theorem upd_same {α : Type} (f : Nat → α) (i : Nat) (v : α) : upd f i v i = v := by simp [upd]
theorem upd_other {α : Type} (f : Nat → α) (i x : Nat) (v : α) (h : x ≠ i) : upd f i v x = f x := by simp [upd, h]

theorem remOf_upd_other {acts : Nat → APc} {a : Nat} {v : APc} {h : Option Holder} (hne : h ≠ some (.act a)) :
    remOf (upd acts a v) h = remOf acts h := by
  cases h with
  | none => rfl
  | some x =>
      cases x with
      | sub i => rfl
      | act b =>
          have : b ≠ a := fun hb => hne (by rw [hb])
          simp [remOf, upd, this]

theorem busyOf_upd_other {acts : Nat → APc} {a : Nat} {v : APc} {h : Option Holder} (hne : h ≠ some (.act a)) :
    busyOf (upd acts a v) h = busyOf acts h := by
  cases h with
  | none => rfl
  | some x =>
      cases x with
      | sub i => rfl
      | act b =>
          have : b ≠ a := fun hb => hne (by rw [hb])
          simp [busyOf, upd, this]

/-- **token invariant**: the word differs from the idle marker iff exactly one party — a submitter between its
    CAS and `_executor->Submit`, a queued activation, or a Call activation that has not yet given the strand
    back — is responsible for it (named by the ghost `holder`). -/
structure InvTok (w : Workload) (s : State) : Prop where
  hw : s.w = w
  tok_none : s.holder = none ↔ s.word = .mark
  tok_sub : ∀ i, s.spc i = .sched ↔ s.holder = some (.sub i)
  tok_act : ∀ a, holdsTok (s.acts a) = true ↔ s.holder = some (.act a)
  tok_sub_word : ∀ i, s.holder = some (.sub i) → s.word.nonempty = true
  tok_act_word : ∀ a, needsInbox (s.acts a) = true → s.word.nonempty = true
  no_crash : ∀ a, s.acts a ≠ .crashed
  drain_ne : ∀ a, s.acts a ≠ .drain []
  fresh : ∀ a, s.nacts ≤ a → s.acts a = .none
  sidx_le : ∀ i, s.sidx i ≤ jobsOf w i
  cas_lt : ∀ i exp, s.spc i = .cas exp → s.sidx i < jobsOf w i
  running_eq : s.running = curBusy s

theorem invTok_init (w : Workload) : InvTok w (init w) := by
  constructor <;> simp [init, holdsTok, needsInbox, curBusy, busyOf]

theorem word_nonempty_cases {x : Word} (h : x.nonempty = true) : ∃ j js, x = .list (j :: js) := by
  cases x with
  | mark => simp [Word.nonempty] at h
  | list js =>
      cases js with
      | nil => simp [Word.nonempty] at h
      | cons j js => exact ⟨j, js, rfl⟩

theorem Word.head_eq_mark {x : Word} : x.head = .mark ↔ x = .mark := by
  cases x with
  | mark => simp [Word.head]
  | list js => cases js <;> simp [Word.head]

theorem Word.head_ne_mark_inbox {x : Word} (h : x.head ≠ .mark) : x = .list x.inbox := by
  cases x with
  | mark => simp [Word.head] at h
  | list js => simp [Word.inbox]

theorem Word.nonempty_of {x : Word} (h1 : x ≠ .mark) (h2 : x ≠ .list []) : x.nonempty = true := by
  cases x with
  | mark => exact absurd rfl h1
  | list js =>
      cases js with
      | nil => exact absurd rfl h2
      | cons j js => rfl

theorem needsInbox_holds {x : APc} (h : needsInbox x = true) : holdsTok x = true := by
  cases x <;> simp_all [needsInbox, holdsTok]

theorem callRem_holds {x : APc} (h : callRem x ≠ []) : holdsTok x = true := by
  cases x <;> simp_all [callRem, holdsTok]

theorem isBusy_holds {x : APc} (h : isBusy x = true) : holdsTok x = true := by
  cases x <;> simp_all [isBusy, holdsTok]

macro "tok_simp" : tactic =>
  `(tactic| simp only [doLoad, doCasOk, doSched, doCall, doBegin, doEnd, doALoad, doACasOk, doACasFail, doResub, doDropX,
      doDrop, curBusy, upd] at *)

macro "tok_auto" : tactic =>
  `(tactic| (constructor <;> tok_simp <;>
      grind [upd, busyOf, holdsTok, needsInbox, isBusy, Word.nonempty, Word.head, Word.inbox, needsInbox_holds, Word.nonempty_of]))

end Yaclib.Strand
