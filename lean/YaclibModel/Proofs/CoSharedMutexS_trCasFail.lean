import YaclibModel.Proofs.CoSharedMutex
namespace Yaclib.CoSharedMutex

set_option maxHeartbeats 4000000 in
theorem inv_trCasFail {cfg : Cfg} {s : State} (hi : Inv cfg s) (c : Cid) (r : Nat) (h : s.pc c = .trLoop 0 r) :
    Inv cfg ({ s with pc := upd s.pc c (.trLoop s.W s.R) }) := by
  cases hi
  sm_auto [List.count_le_length]

end Yaclib.CoSharedMutex
