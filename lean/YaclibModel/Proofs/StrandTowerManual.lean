/- Base executors for towers of strands (C07) / the executor contract (C05): the ManualExecutor.

   Written from /repo/src/exe/manual.cpp + include/yaclib/exe/manual.hpp:
     Submit(f)  { _tasks.PushBack(f); }
     Drain()    { done = 0; while (!_tasks.Empty()) { ++done; task = _tasks.PopFront(); task.Call(); } return done; }
     Alive()    { return true; }
   There is no Stop and **no destructor that Drops what is still queued**: the executor never Drops anything, and a job
   left in `_tasks` when the executor is destroyed is neither Called nor Dropped (it leaks).

   As an `Exec`: `sub a` = `Submit(a)` (PushBack), `call a` = one iteration of the `Drain` loop (PopFront + Call),
   `ret a` = that Call returns; two internal steps of the *owner* of the executor: entering `Drain()` while something
   is queued (a `Drain()` of an empty executor returns 0 and changes nothing: not a step) and leaving it when the
   queue is empty.  Documented use is single-threaded: `Submit` and `Drain` are atomic w.r.t. each other (the
   intrusive list is not synchronised — a data-race matter, C04), one `Drain` at a time, not from inside a job body; a
   job body may `Submit`.  `Drain`'s return value counts the iterations (local variable `done`).

   `manualExec destroyable`: with `destroyable = true` the owner may also destroy the executor at any moment outside
   `Drain`, after which nothing happens any more. -/
import YaclibModel.Proofs.StrandTowerN

namespace Yaclib.Strand

structure Manual where
  prot : Prot            -- ghost: position of every job in the protocol
  queue : List Nat       -- `_tasks`, front first
  draining : Bool        -- the owner is inside `Drain()`
  done : Nat             -- `Drain`'s local counter
  busy : Option Nat      -- the job `Drain` is inside of
  destroyed : Bool

inductive MLab where
  | ev (e : XEv)
  | drainEnter
  | drainExit
  | destroy

def manualStep (destroyable : Bool) (s : Manual) (l : MLab) (s' : Manual) : Prop :=
  s.destroyed = false ∧
  match l with
  | .ev (.sub a) => s.prot a = .fresh ∧ s' = { s with prot := upd s.prot a .pending, queue := s.queue ++ [a] }
  | .drainEnter => s.draining = false ∧ s.queue ≠ [] ∧ s' = { s with draining := true, done := 0 }
  | .ev (.call a) => s.draining = true ∧ s.busy = none ∧ ∃ rest, s.queue = a :: rest ∧
      s' = { s with prot := upd s.prot a .calling, queue := rest, done := s.done + 1, busy := some a }
  | .ev (.ret a) => s.busy = some a ∧ s' = { s with prot := upd s.prot a .finished, busy := none }
  | .drainExit => s.draining = true ∧ s.busy = none ∧ s.queue = [] ∧ s' = { s with draining := false }
  | .ev (.drop _) => False
  | .destroy => destroyable = true ∧ s.draining = false ∧ s' = { s with destroyed := true }

def manualEv : MLab → Option XEv
  | .ev e => some e
  | _ => none

def manualExec (destroyable : Bool) : Exec :=
  { σ := Manual, Lab := MLab,
    init := { prot := protInit, queue := [], draining := false, done := 0, busy := none, destroyed := false },
    step := manualStep destroyable, ev := manualEv }

structure ManualInv (s : Manual) (p : Prot) : Prop where
  prot_eq : s.prot = p
  queue_iff : ∀ a, a ∈ s.queue ↔ p a = .pending
  busy_iff : ∀ a, s.busy = some a ↔ p a = .calling
  nodup : s.queue.Nodup
  alive : s.destroyed = false

theorem manual_step_inv {s : Manual} {p : Prot} {l : MLab} {s' : Manual} (hi : ManualInv s p)
    (hs : manualStep false s l s') :
    match manualEv l with
    | none => ManualInv s' p
    | some e => (e.isInput = true → specPre p e) → specPre p e ∧ ManualInv s' (specPost p e) := by
  obtain ⟨h1, h2, h3, h4, h5⟩ := hi
  subst h1
  obtain ⟨_, hs⟩ := hs
  cases l with
  | drainEnter =>
      obtain ⟨_, _, rfl⟩ := hs
      exact ⟨rfl, h2, h3, h4, h5⟩
  | drainExit =>
      obtain ⟨_, _, _, rfl⟩ := hs
      exact ⟨rfl, h2, h3, h4, h5⟩
  | destroy => exact absurd hs.1 (by decide)
  | ev e =>
      cases e with
      | sub a =>
          obtain ⟨hf, rfl⟩ := hs
          intro _
          refine ⟨hf, ?_⟩
          constructor <;> simp only [specPost, upd] <;> grind [List.nodup_append]
      | call a =>
          obtain ⟨_, hb, rest, hq, rfl⟩ := hs
          intro _
          rw [hq] at h2 h4
          refine ⟨(h2 a).mp (by simp), ?_⟩
          constructor <;> simp only [specPost, upd] <;> grind
      | ret a =>
          obtain ⟨hb, rfl⟩ := hs
          intro _
          refine ⟨(h3 a).mp hb, ?_⟩
          constructor <;> simp only [specPost, upd] <;> grind
      | drop a => exact hs.elim

theorem manual_run_inv {s : (manualExec false).σ} {p : Prot} (h : (manualExec false).Run s p) : ManualInv s p := by
  induction h with
  | init => constructor <;> simp [manualExec, protInit]
  | tau _ hs he ih =>
      have := manual_step_inv ih hs
      simp only [manualExec] at he; rw [he] at this; exact this
  | inp _ hs he _ hp ih =>
      have := manual_step_inv ih hs
      simp only [manualExec] at he; rw [he] at this; exact (this (fun _ => hp)).2
  | out _ hs he ho ih =>
      have := manual_step_inv ih hs
      simp only [manualExec] at he; rw [he] at this
      exact (this (fun hi => by rw [ho] at hi; cases hi)).2

/-- **the ManualExecutor honours the `IExecutor` contract as long as it is alive and its owner drains it**: the
    clause "nothing is pending when the executor has nothing left to do" holds because entering `Drain()` is a step
    of the system that is enabled whenever something is queued — i.e. under the obligation that the owner keeps
    calling `Drain()` until the queue is empty and does not destroy the executor before (`manualExec false`). -/
theorem manual_contract : ExecContract (manualExec false) := by
  refine ⟨?_, ?_, ?_, ?_⟩
  · intro s p l s' e hr hs he ho
    have := manual_step_inv (manual_run_inv hr) hs
    simp only [manualExec] at he; rw [he] at this
    exact (this (fun hi => by rw [ho] at hi; cases hi)).1
  · intro s p a hr hp
    have hi := manual_run_inv hr
    exact ⟨.ev (.sub a), _, ⟨hi.alive, by rw [hi.prot_eq]; exact hp, rfl⟩, rfl⟩
  · intro s p a hr hp
    have hi := manual_run_inv hr
    exact ⟨.ev (.ret a), _, ⟨hi.alive, (hi.busy_iff a).mpr hp, rfl⟩, rfl⟩
  · intro s p hr hq hnc a hpa
    have hi := manual_run_inv hr
    have hb : s.busy = none := by
      cases hbz : s.busy with
      | none => rfl
      | some b => exact absurd ((hi.busy_iff b).mp hbz) (hnc b)
    have hm := (hi.queue_iff a).mpr hpa
    cases hqz : s.queue with
    | nil => rw [hqz] at hm; cases hm
    | cons b rest =>
        cases hd : s.draining with
        | true =>
            have hs : (manualExec false).step s (.ev (.call b)) _ := ⟨hi.alive, hd, hb, rest, hqz, rfl⟩
            obtain ⟨e, he, hin⟩ := hq _ _ hs
            cases he; cases hin
        | false =>
            have hs : (manualExec false).step s .drainEnter _ := ⟨hi.alive, hd, by rw [hqz]; simp, rfl⟩
            obtain ⟨e, he, _⟩ := hq _ _ hs
            cases he

/-- the ManualExecutor never Drops (`Alive()` is constantly true) -/
theorem manual_never_drops {d : Bool} {s : Manual} {a : Nat} {s' : Manual} : ¬ (manualExec d).step s (.ev (.drop a)) s' :=
  fun h => h.2

/-- **the obligation is necessary**: if the owner may destroy the executor while a job is queued, the contract fails —
    after `Submit(0)` and destruction nothing can move, nobody is inside a body, and job 0 is still pending: it is
    neither Called nor Dropped (the code has no destructor that Drops the queue) -/
theorem manual_destroy_leaks_witness : ¬ ExecContract (manualExec true) := by
  intro hc
  have h0 : (manualExec true).Run (manualExec true).init protInit := .init
  have s1 : (manualExec true).step (manualExec true).init (MLab.ev (.sub 0))
      { prot := upd protInit 0 .pending, queue := [0], draining := false, done := 0, busy := none, destroyed := false } :=
    ⟨rfl, rfl, rfl⟩
  have s2 : (manualExec true).step
      { prot := upd protInit 0 .pending, queue := [0], draining := false, done := 0, busy := none, destroyed := false }
      MLab.destroy
      { prot := upd protInit 0 .pending, queue := [0], draining := false, done := 0, busy := none, destroyed := true } :=
    ⟨rfl, rfl, rfl, rfl⟩
  have h1 := Exec.Run.inp h0 s1 rfl rfl rfl
  have h2 := Exec.Run.tau h1 s2 rfl
  refine hc.progress h2 ?_ ?_ 0 ?_
  · intro l s' hs
    exact absurd hs.1 (by decide)
  · intro a
    simp only [specPost, upd, protInit]
    split <;> simp
  · simp [specPost, upd]

end Yaclib.Strand
