import YaclibModel.Proofs.SharedC
namespace Yaclib.Shared

set_option maxHeartbeats 4000000 in
theorem invC_step_0 {w s l s'} (ha : InvA w s) (hi : InvC s) (hs : Step s l s') (hg : grpOf l = 0) : InvC s' := by
  cases ha
  cases hi
  cases hs with
  | fXchg l h hw => invC_auto
  | fDec1 c h => invC_auto
  | fTargetDec c rest d h hk => invC_auto
  | fDec k h => invC_auto
  | fInvoke c rest d h hk hf => invC_auto
  | fSet c rest d h hk hf => invC_auto
  | fIncRef c rest d h hk hf => invC_auto
  | fSubmit c rest d h => invC_auto
  | _ => simp [grpOf] at hg

end Yaclib.Shared
