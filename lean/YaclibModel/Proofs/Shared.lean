/- Invariants of the C06 model (Model/Shared.lean): definitions, helper lemmas, initial state. -/
import YaclibModel.Model.Shared

namespace Yaclib.Shared

/-! ### small helpers -/

@[simp] theorem upd_same (f : Nat → Obs) (t : Nat) (o : Obs) : upd f t o t = o := by simp [upd]

theorem upd_apply (f : Nat → Obs) (t : Nat) (o : Obs) (j : Nat) : upd f t o j = if j = t then o else f j := rfl

theorem upd_other (f : Nat → Obs) (t j : Nat) (o : Obs) (h : j ≠ t) : upd f t o j = f j := by simp [upd, h]

def wordList : Word → List Cb
  | .list l => l
  | .result => []

def walkList : FPc → List Cb
  | .walk l _ _ => l
  | _ => []

/-- references to the core the fulfiller holds (of the three the promise starts with, plus an IncRef it has
    made for an `exec` callback that is not submitted yet) -/
def promRefs : FPc → Nat
  | .start => 3
  | .walk _ d st => (if d then 2 else 3) + (if st = .incd then 1 else 0)
  | .dec n => n

@[simp] theorem promRefs_start : promRefs .start = 3 := rfl
@[simp] theorem promRefs_walk (l : List Cb) (d : Bool) (st : FSt) :
    promRefs (.walk l d st) = (if d then 2 else 3) + (if st = .incd then 1 else 0) := rfl
@[simp] theorem promRefs_dec (n : Nat) : promRefs (.dec n) = n := rfl
theorem promRefs_advance (rest : List Cb) : promRefs (advance rest) = if rest = [] then 2 else 3 := by
  unfold advance; split <;> simp
theorem promRefs_xchg (l : List Cb) : promRefs (if l = [] then .dec 3 else .walk l false .begin) = 3 := by
  split <;> simp

/-- references owned by When-style callbacks sitting in a list -/
def retCnt (l : List Cb) : Nat := l.countP (fun c => c.kind = .retire)

@[simp] theorem retCnt_nil : retCnt [] = 0 := rfl
theorem retCnt_cons (c : Cb) (l : List Cb) : retCnt (c :: l) = retCnt l + (if c.kind = .retire then 1 else 0) := by
  simp [retCnt, List.countP_cons]

@[simp] theorem wordList_list (l : List Cb) : wordList (.list l) = l := rfl
@[simp] theorem wordList_result : wordList .result = [] := rfl
@[simp] theorem walkList_walk (l : List Cb) (d : Bool) (st : FSt) : walkList (.walk l d st) = l := rfl
@[simp] theorem walkList_start : walkList .start = [] := rfl
@[simp] theorem walkList_dec (n : Nat) : walkList (.dec n) = [] := rfl
@[simp] theorem advance_nil : advance [] = .dec 2 := rfl
@[simp] theorem advance_cons (c : Cb) (rest : List Cb) : advance (c :: rest) = .walk (c :: rest) false .begin := rfl
@[simp] theorem walkList_advance (rest : List Cb) : walkList (advance rest) = rest := by
  unfold advance; split <;> simp_all
@[simp] theorem walkList_xchg (l : List Cb) : walkList (if l = [] then .dec 3 else .walk l false .begin) = l := by
  split <;> simp_all

/-- the callback an observer holds in its own hands -/
def heldCb : OPc → Option Cb
  | .att c _ => some c
  | .run c _ => some c
  | _ => none

@[simp] theorem heldCb_att (c : Cb) (e : List Cb) : heldCb (.att c e) = some c := rfl
@[simp] theorem heldCb_run (c : Cb) (st : FSt) : heldCb (.run c st) = some c := rfl
@[simp] theorem heldCb_idle : heldCb .idle = none := rfl
@[simp] theorem heldCb_evt (c : Cb) : heldCb (.evt c) = none := rfl
@[simp] theorem heldCb_rep (x : Word) : heldCb (.rep x) = none := rfl
@[simp] theorem heldCb_touching : heldCb .touching = none := rfl
@[simp] theorem heldCb_gotRef (n : Nat) : heldCb (.gotRef n) = none := rfl

theorem heldCb_some {p : OPc} {c : Cb} (h : heldCb p = some c) : (∃ e, p = .att c e) ∨ (∃ st, p = .run c st) := by
  cases p <;> simp [heldCb] at h <;> subst h <;> simp

/-- Σ refs over the first n observers -/
def holdSum (f : Nat → Obs) : Nat → Nat
  | 0 => 0
  | n + 1 => holdSum f n + (f n).refs

theorem holdSum_upd_ge (f : Nat → Obs) (t : Nat) (o : Obs) (n : Nat) (h : n ≤ t) : holdSum (upd f t o) n = holdSum f n := by
  induction n with
  | zero => rfl
  | succ k ih =>
      have hk : k ≠ t := by omega
      simp [holdSum, upd_other _ _ _ _ hk, ih (by omega)]

theorem holdSum_upd_lt (f : Nat → Obs) (t : Nat) (o : Obs) (n : Nat) (h : t < n) :
    holdSum (upd f t o) n + (f t).refs = holdSum f n + o.refs := by
  induction n with
  | zero => omega
  | succ k ih =>
      by_cases hk : k = t
      · subst hk
        simp [holdSum, holdSum_upd_ge f k o k (Nat.le_refl _)]
        omega
      · have := ih (by omega)
        simp [holdSum, upd_other _ _ _ _ hk]
        omega

theorem refs_le_holdSum (f : Nat → Obs) (t n : Nat) (h : t < n) : (f t).refs ≤ holdSum f n := by
  induction n with
  | zero => omega
  | succ k ih =>
      by_cases hk : k = t
      · subst hk; simp [holdSum]
      · have := ih (by omega); simp [holdSum]; omega

theorem refs_two_le_holdSum (f : Nat → Obs) (t t' n : Nat) (h : t < n) (h' : t' < n) (hne : t ≠ t') :
    (f t).refs + (f t').refs ≤ holdSum f n := by
  induction n with
  | zero => omega
  | succ k ih =>
      by_cases hk : k = t
      · subst hk
        have := refs_le_holdSum f t' k (by omega)
        simp [holdSum]; omega
      · by_cases hk' : k = t'
        · subst hk'
          have := refs_le_holdSum f t k (by omega)
          simp [holdSum]; omega
        · have := ih (by omega) (by omega); simp [holdSum]; omega

theorem mem_erase_of_count_le_one {l : List Cb} {c c' : Cb} (h : l.count c ≤ 1) (hm : c' ∈ l.erase c) : c' ≠ c ∧ c' ∈ l := by
  refine ⟨?_, List.mem_of_mem_erase hm⟩
  intro he; subst he
  by_cases hc : c' ∈ l
  · have h1 : (l.erase c').count c' = l.count c' - 1 := by simp [List.count_erase_self]
    have h2 : 0 < (l.erase c').count c' := List.count_pos_iff.mpr hm
    omega
  · rw [List.erase_of_not_mem hc] at hm; exact hc hm

theorem count_erase_ne {l : List Cb} {c c' : Cb} (h : c' ≠ c) : (l.erase c).count c' = l.count c' := by
  simp [List.count_erase_of_ne h]

theorem count_erase_self' {l : List Cb} {c : Cb} (h : c ∈ l) : (l.erase c).count c + 1 = l.count c := by
  have : 0 < l.count c := List.count_pos_iff.mpr h
  simp [List.count_erase_self]; omega

theorem readyNext_pos {o : Obs} {x : Word} (h : x = .result ∧ o.todo.head? = some .readyTouch) :
    readyNext o x = { o with pc := .touching } := by simp only [readyNext, if_pos h]

theorem readyNext_neg {o : Obs} {x : Word} (h : ¬ (x = .result ∧ o.todo.head? = some .readyTouch)) :
    readyNext o x = nextOp o := by simp only [readyNext, if_neg h]

theorem staleOk_self (l : List Cb) : staleOk l l := by simp [staleOk]

/-! ### the invariants -/

/-- reference bookkeeping per thread -/
structure Inv0 (s : State) : Prop where
  sum : s.holders = holdSum s.obs s.n
  out : ∀ t, s.n ≤ t → (s.obs t).refs = 0
  busy : ∀ t, (s.obs t).pc ≠ .idle → 0 < (s.obs t).refs

theorem Inv0.lt {s : State} (h : Inv0 s) {t : Nat} (hp : 0 < (s.obs t).refs) : t < s.n := by
  apply Classical.byContradiction; intro hn
  have := h.out t (by omega); omega

theorem Inv0.le {s : State} (h : Inv0 s) (t : Nat) : (s.obs t).refs ≤ s.holders := by
  by_cases hp : 0 < (s.obs t).refs
  · rw [h.sum]; exact refs_le_holdSum _ _ _ (h.lt hp)
  · omega

theorem Inv0.two {s : State} (h : Inv0 s) {t t' : Nat} (hne : t ≠ t') : (s.obs t).refs + (s.obs t').refs ≤ s.holders := by
  by_cases hp : 0 < (s.obs t).refs
  · by_cases hp' : 0 < (s.obs t').refs
    · rw [h.sum]; exact refs_two_le_holdSum _ _ _ _ (h.lt hp) (h.lt hp') hne
    · have := h.le t; omega
  · have := h.le t'; omega

theorem Inv0.two' {s : State} (h : Inv0 s) (t t' : Nat) : t = t' ∨ (s.obs t).refs + (s.obs t').refs ≤ s.holders := by
  by_cases hne : t = t'
  · exact Or.inl hne
  · exact Or.inr (h.two hne)

/-- the step changed (at most) observer t, which owned a reference -/
theorem inv0_of {s s' : State} (h : Inv0 s) (t : Nat) (hn : s'.n = s.n) (hpos : 0 < (s.obs t).refs)
    (hobs : s'.obs = upd s.obs t (s'.obs t))
    (hsum : s'.holders + (s.obs t).refs = s.holders + (s'.obs t).refs)
    (hbusy : (s'.obs t).pc ≠ .idle → 0 < (s'.obs t).refs) : Inv0 s' := by
  have hlt := h.lt hpos
  constructor
  · have := holdSum_upd_lt s.obs t (s'.obs t) s.n hlt
    rw [hn, hobs, ← h.sum] at *
    simp only [upd_same] at *
    omega
  · intro j hj
    rw [hobs]
    have : j ≠ t := by omega
    rw [upd_other _ _ _ _ this]; exact h.out j (by omega)
  · intro j hj
    by_cases hjt : j = t
    · subst hjt; exact hbusy hj
    · rw [hobs, upd_other _ _ _ _ hjt] at *; exact h.busy j hj

theorem inv0_same {s s' : State} (h : Inv0 s) (hn : s'.n = s.n) (hobs : s'.obs = s.obs) (hh : s'.holders = s.holders) :
    Inv0 s' := by
  constructor
  · rw [hh, hobs, hn]; exact h.sum
  · rw [hobs, hn]; exact h.out
  · rw [hobs]; exact h.busy

theorem holdSum_ones (f : Nat → Obs) (m : Nat) (h : ∀ t, t < m → (f t).refs = 1) : holdSum f m = m := by
  induction m with
  | zero => rfl
  | succ k ih =>
      have h1 := ih (fun t ht => h t (by omega))
      have h2 := h k (by omega)
      simp only [holdSum, h1, h2]

theorem inv0_init (w : Workload) : Inv0 (init w) := by
  constructor
  · simp only [init]
    exact (holdSum_ones _ _ (fun t ht => by simp [ht])).symm
  · intro t ht; simp only [init] at *; simp; omega
  · intro t ht; simp [init] at ht

/-- basic shape facts -/
structure InvA (w : Workload) (s : State) : Prop where
  hw : s.w = w
  word_iff : s.word = .result ↔ s.fpc ≠ .start
  stored_eq : s.stored = if s.fpc = .start then none else some w.prod.res
  chain_word : ∀ l, s.word = .list l → s.chain = l
  walk_ne : ∀ l d st, s.fpc = .walk l d st → l ≠ [] ∧ (d = true → l.tail = []) ∧ (st ≠ .begin → canFire l.tail d)
  walk_kind : ∀ c rest d st, s.fpc = .walk (c :: rest) d st →
    (st = .incd → c.kind = .exec) ∧ (∀ n, st = .refd n → c.kind = .target) ∧ (st = .post → c.kind = .target)
  dec_le : ∀ n, s.fpc = .dec n → n ≤ 3
  run_shape : ∀ t c st, (s.obs t).pc = .run c st →
    s.fpc ≠ .start ∧ c.kind ≠ .event ∧ st ≠ .post ∧ (st = .incd → c.kind = .exec) ∧ (∀ n, st ≠ .refd n)
  got_after : ∀ t n, (s.obs t).pc = .gotRef n → s.fpc ≠ .start
  rep_res : ∀ t, (s.obs t).pc = .rep .result → s.fpc ≠ .start
  jobs_after : ∀ c, c ∈ s.jobs ∨ c ∈ s.jobsRun → s.fpc ≠ .start
  /-- a combinator callback is entered, and retires, only after the exchange -/
  rets_after : ∀ c, c ∈ s.rets → s.fpc ≠ .start
  retsLd_after : ∀ x ∈ s.retsLd, s.fpc ≠ .start
  retired_val : ∀ x ∈ s.retired, x.2.1 = some w.prod.res
  fired_after : ∀ x ∈ s.fired, s.fpc ≠ .start
  fired_val : ∀ x ∈ s.fired, x.2 = some w.prod.res
  got_val : ∀ x ∈ s.got, x.2.1 = some w.prod.res
  getc_val : ∀ x ∈ s.getcObs, x.2 = some w.prod.res
  ready_obs : ∀ x ∈ s.readyObs, x.1 = .result → x.2 = true
  /-- `Touch()` after `Ready() == true` happens only once the result is there, and reads it -/
  touching_after : ∀ t, (s.obs t).pc = .touching → s.fpc ≠ .start
  touch_val : ∀ x ∈ s.touchObs, x = some w.prod.res
  att_head : ∀ t c e, (s.obs t).pc = .att c e → (s.obs t).todo.head?.bind opKind = some c.kind
  evt_head : ∀ t c, (s.obs t).pc = .evt c → (s.obs t).todo.head?.bind opKind = some .event

theorem invA_init (w : Workload) : InvA w (init w) := by
  constructor <;> simp [init]

/-- unfold the step effects, but keep `advance`, `wordList`, `walkList`, `heldCb`, `promRefs` folded -/
macro "sh_unfold'" : tactic =>
  `(tactic| simp only [doXchg, doFFire, doFForward, doFEnter, failPath, reload, doLoad, doCasOk, doOInvoke,
      doOIncRef, doOSubmit, doOEnter, doRRefLoad, doRRetire, doGetc, doGot, doReady, doTouch, doCopy, doDrop, doJInvoke, doJDec, decCount, nextOp,
      canFire, upd_apply, firedIds, loadOk, wordList_list, wordList_result, walkList_walk, walkList_start, walkList_dec,
      advance_nil, advance_cons, walkList_advance, walkList_xchg, promRefs_advance, promRefs_xchg, promRefs_start, promRefs_walk, promRefs_dec, heldCb_att, heldCb_run, heldCb_idle, heldCb_evt, heldCb_rep, heldCb_touching, heldCb_gotRef,
      List.map_append, List.map_cons, List.map_nil,
      ↓reduceIte, reduceCtorEq, ite_true, ite_false, if_true, if_false] at *)

/-- unfold the step effects -/
macro "sh_unfold" : tactic =>
  `(tactic| simp only [doXchg, doFFire, doFForward, doFEnter, failPath, reload, doLoad, doCasOk, doOInvoke,
      doOIncRef, doOSubmit, doOEnter, doRRefLoad, doRRetire, doGetc, doGot, doReady, doTouch, doCopy, doDrop, doJInvoke, doJDec, decCount, nextOp,
      advance, canFire, upd_apply, firedIds, loadOk,
      ↓reduceIte, reduceCtorEq, ite_true, ite_false, if_true, if_false] at *)

macro "invA_auto" : tactic => `(tactic| (constructor <;> sh_unfold <;> grind))

/-- splits the preservation proofs over several files (by label) so that they compile in parallel -/
def grpOf : Label → Nat
  | .fXchg _ => 0 | .fDec _ => 0 | .fInvoke .. => 0 | .fSet _ => 0 | .fIncRef _ => 0 | .fSubmit _ => 0
  | .fRefLoad _ => 1 | .fForward .. => 1 | .fEnter .. => 1 | .jInvoke .. => 1 | .jDec .. => 1 | .rRefLoad .. => 1
  | .rRetire .. => 1
  | .oLoad .. => 2 | .oCasOk _ => 2
  | .oCasFail .. => 3 | .oCasSpur .. => 3 | .oInvoke .. => 3 | .oIncRef .. => 3 | .oSubmit .. => 3
  | .oForward .. => 4 | .oEnter .. => 4 | .oWaited _ => 4 | .oGetc .. => 4 | .oGetRef .. => 4
  | .oGot .. => 4
  | .oRdLoad .. => 5 | .oReady .. => 5 | .oTouch .. => 5 | .oCopy .. => 5 | .oDrop .. => 5

theorem grpOf_lt (l : Label) : grpOf l = 0 ∨ grpOf l = 1 ∨ grpOf l = 2 ∨ grpOf l = 3 ∨ grpOf l = 4 ∨ grpOf l = 5 := by
  cases l <;> simp [grpOf]

end Yaclib.Shared
