/- C07, towers of strands (5): a strand over an executor that honours the `IExecutor` contract honours it itself. -/
import YaclibModel.Proofs.StrandTowerSim

namespace Yaclib.Strand

theorem absP_fresh {u : State} {a : Nat} (h : absP u a = .fresh) : u.spc a = .idle ∧ u.sidx a = 0 := by
  simp only [absP] at h; grind

theorem absP_calling {u : State} {a : Nat} (h : absP u a = .calling) : curJob u = some ⟨a, 0⟩ := by
  simp only [absP] at h; grind

theorem absP_calling_of {u : State} {a : Nat} (h0 : u.sidx a ≠ 0) (hc : curJob u = some ⟨a, 0⟩) : absP u a = .calling := by
  simp only [absP]; grind

theorem absP_done {u : State} {a : Nat} (h0 : u.sidx a ≠ 0)
    (hd : (⟨a, 0⟩ : JobId) ∈ u.executed ∨ (⟨a, 0⟩ : JobId) ∈ u.dropped) : absP u a ≠ .pending := by
  simp only [absP]; grind

theorem absP_init : absP (init ones) = protInit := by
  funext a; simp [absP, init, protInit]

/-- everybody has returned ⇒ the word is the idle marker and every job that was pushed has been Called or Dropped -/
theorem all_done_of_terminal {w u} (hi : Inv w u) (hs : ∀ i, u.spc i = .idle) (ha : ∀ a, actTerminal (u.acts a)) :
    u.holder = none ∧ u.word = .mark ∧
    ∀ i k, k < u.sidx i → (⟨i, k⟩ : JobId) ∈ u.executed ∨ (⟨i, k⟩ : JobId) ∈ u.dropped := by
  have hh : u.holder = none := by
    cases hho : u.holder with
    | none => rfl
    | some x =>
        cases x with
        | sub i => have := (hi.tok.tok_sub i).mpr hho; rw [hs i] at this; cases this
        | act a =>
            have := (hi.tok.tok_act a).mpr hho
            rcases ha a with h | h <;> rw [h] at this <;> cases this
  have hwm := hi.tok.tok_none.mp hh
  refine ⟨hh, hwm, fun i k hk => ?_⟩
  have hp : (⟨i, k⟩ : JobId) ∈ u.pushOrder := hi.ord.push_mem i k hk
  rw [hi.ord.order, hwm] at hp
  simp only [Word.inbox, List.reverse_nil, List.append_nil] at hp
  rcases mem_fsts.mp hp with ht | ht
  · left
    have := mem_calls.mpr ht
    rw [hi.ord.exec_eq, curRem, hh] at this
    simpa [remOf] using this
  · right
    rcases hi.drop.taken_drop _ ht with hd | hd
    · exact hd
    · rcases ha (u.takenBy ⟨i, k⟩) with hx | hx <;> rw [hx] at hd <;> simp [drainRem] at hd

/-- **quiescence goes down**: if the composition has nothing left to do (only its clients could move) and no body of a
    client job is running, then the strand's threads have all returned, the executor below has nothing left to do and
    is inside no body, hence (its contract) has nothing pending, hence no activation of the strand is queued. -/
theorem quiet_down {w : Workload} {L : Exec} (hL : ExecContract L) {s : (strandExec w L).σ}
    (hr : (strandExec w L).Reach s) (hq : (strandExec w L).Quiet s) (hb : ∀ b, isBusy (s.1.acts b) = false) :
    L.Quiet s.2.1 ∧ (∀ a, s.2.2 a ≠ .calling) ∧ (∀ i, s.1.spc i = .idle) ∧ (∀ a, actTerminal (s.1.acts a)) := by
  obtain ⟨u, x, pl⟩ := s
  obtain ⟨hru, hrl, hc⟩ := prod_inv hr
  simp only at hru hrl hc hb ⊢
  have hi := (inv_reachable hru).tok
  -- a product step whose event is not an input contradicts quiescence
  have noτ : ∀ {l s'}, PStep L (u, x, pl) l s' → pEv L l = none → False := fun hst he => by
    obtain ⟨e, he', _⟩ := hq _ _ hst
    simp only [strandExec] at he'; rw [he] at he'; cases he'
  have noOut : ∀ {l s' e}, PStep L (u, x, pl) l s' → pEv L l = some e → e.isInput = false → False :=
    fun hst he ho => by
      obtain ⟨e', he', hi'⟩ := hq _ _ hst
      simp only [strandExec] at he'; rw [he] at he'; cases he'; rw [ho] at hi'; cases hi'
  have subOk : ∃ lx x', L.step x lx x' ∧ L.ev lx = some (.sub u.nacts) :=
    hL.accepts_sub u.nacts hrl ((hc.fresh_iff _).mpr (Nat.le_refl _))
  have hspc : ∀ i, u.spc i = .idle := by
    intro i
    cases hp : u.spc i with
    | idle => rfl
    | cas exp => exact (noτ (.up (.sCasSpur u i exp hp) rfl) rfl).elim
    | sched =>
        obtain ⟨lx, x', h1, h2⟩ := subOk
        exact (noτ (.sync (.sSched u i hp) rfl h1 h2) rfl).elim
  have hacts : ∀ a, u.acts a = .none ∨ u.acts a = .queued ∨ u.acts a = .done := by
    intro a
    cases hp : u.acts a with
    | none => exact Or.inl rfl
    | queued => exact Or.inr (Or.inl rfl)
    | done => exact Or.inr (Or.inr rfl)
    | crashed => exact absurd hp (hi.no_crash a)
    | run rem =>
        cases rem with
        | nil => exact (noτ (.up (.aLoad u a true hp (by simp)) rfl) rfl).elim
        | cons j rem => exact (noOut (.up (.aBegin u a j rem hp) rfl) rfl rfl).elim
    | busy j rem => have := hb a; rw [hp] at this; simp [isBusy] at this
    | cas =>
        by_cases hw : u.word = .list []
        · exact (noτ (.up (.aCasOk u a hp hw) rfl) rfl).elim
        · exact (noτ (.up (.aCasFail u a hp hw) rfl) rfl).elim
    | resub =>
        obtain ⟨lx, x', h1, h2⟩ := subOk
        exact (noτ (.sync (.aResub u a hp) rfl h1 h2) rfl).elim
    | drain rem =>
        cases rem with
        | nil => exact absurd hp (hi.drain_ne a)
        | cons j rem => exact (noOut (.up (.aDrop u a j rem hp) rfl) rfl rfl).elim
  have hLq : L.Quiet x := by
    intro lx x' hst
    cases hev : L.ev lx with
    | none => exact (noτ (.low hst hev) rfl).elim
    | some e =>
        cases e with
        | sub a => exact ⟨_, rfl, rfl⟩
        | ret a => exact ⟨_, rfl, rfl⟩
        | call a =>
            have hp : pl a = .pending := hL.safe hrl hst hev rfl
            have hqd := (hc.pending_iff a).mp hp
            exact (noτ (.sync (.aCall u a hqd) rfl hst hev) rfl).elim
        | drop a =>
            have hp : pl a = .pending := hL.safe hrl hst hev rfl
            have hqd := (hc.pending_iff a).mp hp
            exact (noτ (.sync (.aDropX u a hqd) rfl hst hev) rfl).elim
  have hnc : ∀ a, pl a ≠ .calling := by
    intro a hca
    obtain ⟨lx, x', h1, h2⟩ := hL.accepts_ret a hrl hca
    have ht : actTerminal (u.acts a) := by
      rcases hacts a with h | h | h
      · exact Or.inl h
      · have := (hc.pending_iff a).mpr h; rw [hca] at this; cases this
      · exact Or.inr h
    exact noτ (.lret h1 h2 hca ht) rfl
  refine ⟨hLq, hnc, hspc, fun a => ?_⟩
  have hnp := hL.progress hrl hLq hnc a
  rcases hacts a with h | h | h
  · exact Or.inl h
  · exact absurd ((hc.pending_iff a).mpr h) hnp
  · exact Or.inr h

/-- the protocol state of a protocol-honouring run of the open strand is a function of the strand's state -/
theorem run_abs {L : Exec} {s : (strandExec ones L).σ} {p : Prot} (h : (strandExec ones L).Run s p) :
    p = absP s.1 := by
  induction h with
  | init => exact absP_init.symm
  | tau hr hs he ih =>
      obtain ⟨hru, _, _⟩ := prod_inv hr.reach
      have hi := inv_reachable hru
      have hx := invX_reachable hru
      cases hs with
      | up hst hn =>
          simp only [strandExec, pEv] at he
          have := (abs_up hi hx hst hn).1; rw [he] at this; simp only [postOpt] at this
          simp only at ih ⊢; rw [this]; exact ih
      | sync hst hse _ _ => simp only at ih ⊢; rw [abs_sync hi hx hst hse]; exact ih
      | low _ _ => exact ih
      | lret _ _ _ _ => exact ih
  | inp hr hs he _ _ ih =>
      obtain ⟨hru, _, _⟩ := prod_inv hr.reach
      cases hs with
      | up hst hn =>
          simp only [strandExec, pEv] at he
          have := (abs_up (inv_reachable hru) (invX_reachable hru) hst hn).1
          rw [he] at this; simp only [postOpt] at this
          simp only at ih ⊢; rw [this, ih]
      | sync _ _ _ _ => simp [strandExec, pEv] at he
      | low _ _ => simp [strandExec, pEv] at he
      | lret _ _ _ _ => simp [strandExec, pEv] at he
  | out hr hs he _ ih =>
      obtain ⟨hru, _, _⟩ := prod_inv hr.reach
      cases hs with
      | up hst hn =>
          simp only [strandExec, pEv] at he
          have := (abs_up (inv_reachable hru) (invX_reachable hru) hst hn).1
          rw [he] at this; simp only [postOpt] at this
          simp only at ih ⊢; rw [this, ih]
      | sync _ _ _ _ => simp [strandExec, pEv] at he
      | low _ _ => simp [strandExec, pEv] at he
      | lret _ _ _ _ => simp [strandExec, pEv] at he

/-- no client job is `calling` ⇒ no activation of the strand is inside a job body -/
theorem no_busy_of_not_calling {u : State} (hru : Reachable ones u) (hn : ∀ a, absP u a ≠ .calling) :
    ∀ b, isBusy (u.acts b) = false := by
  intro b
  cases hp : u.acts b with
  | busy j rem =>
      exfalso
      have hi := inv_reachable hru
      have hh := (hi.tok.tok_act b).mp (by rw [hp]; rfl)
      have he := (invX_reachable hru).busy_exec b j rem hp
      obtain ⟨h1, h2⟩ := pushed_ones hi (exec_pushed hi he)
      have hc : curJob u = some ⟨j.sub, 0⟩ := by
        rw [← h1]; simp [curJob, hh, jobOf, hp, busyJob]
      exact hn j.sub (absP_calling_of (by omega) hc)
  | _ => rfl

/-- the strand over `L` (its clients hand over each job with its own `Submit`) -/
def strandOver (L : Exec) : Exec := strandExec ones L

/-- **contract preservation**: a strand over an executor that honours the `IExecutor` contract honours it towards
    its own clients. -/
theorem strand_refines_contract {L : Exec} (hL : ExecContract L) : ExecContract (strandOver L) := by
  refine ⟨?_, ?_, ?_, ?_⟩
  · intro s p l s' e hr hs he ho
    have hp := run_abs hr
    obtain ⟨hru, _, _⟩ := prod_inv hr.reach
    cases hs with
    | up hst hn =>
        simp only [strandOver, strandExec, pEv] at he
        rw [hp]; exact (abs_up (inv_reachable hru) (invX_reachable hru) hst hn).2 e he ho
    | sync _ _ _ _ => simp [strandOver, strandExec, pEv] at he
    | low _ _ => simp [strandOver, strandExec, pEv] at he
    | lret _ _ _ _ => simp [strandOver, strandExec, pEv] at he
  · intro s p a hr hpa
    obtain ⟨u, x, pl⟩ := s
    have hp := run_abs hr
    obtain ⟨hru, _, _⟩ := prod_inv hr.reach
    simp only at hp hru
    rw [hp] at hpa
    obtain ⟨h1, h2⟩ := absP_fresh hpa
    have hw := (inv_reachable hru).tok.hw
    have hj : u.sidx a < jobsOf u.w a := by rw [hw, jobsOf_ones]; omega
    exact ⟨.up (.sLoad a u.word.head), _, .up (.sLoad u a _ h1 hj (Or.inl rfl)) rfl, rfl⟩
  · intro s p a hr hpa
    obtain ⟨u, x, pl⟩ := s
    have hp := run_abs hr
    simp only at hp
    rw [hp] at hpa
    obtain ⟨b, rem, _, hb⟩ := curJob_busy (absP_calling hpa)
    exact ⟨.up (.aEnd b ⟨a, 0⟩), _, .up (.aEnd u b _ rem hb) rfl, rfl⟩
  · intro s p hr hq hnc a hpa
    have hp := run_abs hr
    obtain ⟨hru, _, _⟩ := prod_inv hr.reach
    have hb := no_busy_of_not_calling hru (fun a => by rw [← hp]; exact hnc a)
    obtain ⟨_, _, hs, ha⟩ := quiet_down hL hr.reach hq hb
    obtain ⟨_, _, hd⟩ := all_done_of_terminal (inv_reachable hru) hs ha
    rw [hp] at hpa
    have h0 : s.1.sidx a ≠ 0 := fun h0 => by
      have : absP s.1 a = .fresh := by simp only [absP]; simp [hs a, h0]
      rw [this] at hpa; cases hpa
    exact absP_done h0 (hd a 0 (by omega)) hpa

end Yaclib.Strand
