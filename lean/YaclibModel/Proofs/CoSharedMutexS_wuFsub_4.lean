import YaclibModel.Proofs.CoSharedMutex
namespace Yaclib.CoSharedMutex

set_option maxHeartbeats 4000000 in
theorem inv_wuFsub_4 {cfg : Cfg} {s : State} (hi : Inv cfg s) (c : Cid) (h : s.pc c = .uLocked) (hs : s.spin = .held c) (hb1 : ¬ (s.cfg.fifo = true ∧ s.prio ≠ 0)) (hq : ¬ s.Q = []) (hw1 : s.W = 1) :
    Inv cfg ((doWuFsub s c)) := by
  cases hi
  simp only [doWuFsub, branchOf, hb1, hq, hw1, ne_eq, not_true_eq_false, not_false_eq_true, givesUp, Bool.false_eq_true, ↓reduceIte]
  sm_auto [List.count_le_length]

end Yaclib.CoSharedMutex
