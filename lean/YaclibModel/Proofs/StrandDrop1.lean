import YaclibModel.Proofs.StrandDrop
namespace Yaclib.Strand

theorem invDrop_step_1 {w s l s'} (ht : InvTok w s) (ho : InvOrd w s) (hi : InvDrop w s) (hs : Step s l s')
    (hg : (∃ a, l = .aCall a) ∨ (∃ a, l = .aDropX a) ∨ (∃ a j, l = .aDrop a j)) :
    InvDrop w s' := by
  cases hs with
  | aCall a h =>
      obtain ⟨j, js, hwd⟩ := word_nonempty_cases (ht.tok_act_word a (by rw [h]; rfl))
      have hfr : ∀ x, x ∈ j :: js → ∀ b, (x, b) ∉ s.taken := fun x hx b => ho.inbox_fresh (by rw [hwd]; exact hx) b
      cases hi; simp only [doCall, hwd] at *; drop_auto
  | aDropX a h =>
      obtain ⟨j, js, hwd⟩ := word_nonempty_cases (ht.tok_act_word a (by rw [h]; rfl))
      have hfr : ∀ x, x ∈ j :: js → ∀ b, (x, b) ∉ s.taken := fun x hx b => ho.inbox_fresh (by rw [hwd]; exact hx) b
      have hnd : (j :: js).Nodup := by have := ho.inbox_nodup; rw [hwd] at this; exact this
      cases hi; simp only [doDropX, hwd] at *; drop_auto
  | aDrop a j rem h =>
      have h1 := hi.drain_taken a
      have h2 := hi.drain_nodup a
      rw [h] at h1 h2
      by_cases hr : rem = []
      · subst hr; cases hi; drop_auto
      · cases hi; drop_auto
  | _ => simp at hg

end Yaclib.Strand
