/- The accounting lemma for `callStep` / `runSteps` (mutual structural induction, same skeleton as the master lemma). -/
import YaclibModel.Proofs.PipelineAcct

namespace Yaclib.Pipeline
open Yaclib.Extracted

theorem cnt_submit (cfg : Cfg) (e : Exec) (ctx : Option Nat) (g : G) :
    match submit cfg e ctx g with
    | .callNow _ g' => cnt g' = cnt g
    | .dropNow _ g' => cnt g' = cnt g
    | .queued _ _ g' => cnt g' = cnt g := by
  cases e with
  | inl => simp [submit, cnt]
  | stp => simp [submit, cnt]
  | user k =>
    simp only [submit]
    by_cases hr : rejects cfg g.subs k = true
    · simp [hr, cnt, G.finishJob]
    · simp only [hr]
      by_cases hq : (cfg k).queue = true <;> simp [hq, cnt, G.finishJob]

theorem srcCores_eq (src : Src) : srcCores src = if (src == Src.unit) = true then 0 else 1 := by
  cases src <;> rfl

/-- an eager source after construction: the PromiseCore functor is destroyed unless the core is still queued -/
theorem startSrc_acct (cfg : Cfg) (src : Src) (ctx : Option Nat) (g : G) :
    match startSrc cfg src ctx g with
    | .go _ _ _ g' => cnt g' = ((cnt g).1, (cnt g).2.1, (cnt g).2.2.1, (cnt g).2.2.2 + srcFunctors src)
    | .wait w _ g' =>
      cnt g' = ((cnt g).1, (cnt g).2.1, (cnt g).2.2.1, (cnt g).2.2.2 + (srcFunctors src - funsWait w)) ∧
      funsWait w ≤ srcFunctors src ∧ coresWait w = 1 ∧ srcCores src = 1 ∧ wfWait w = true
    | .crash _ => True := by
  cases src with
  | ready r => simp [startSrc, srcFunctors]
  | contract p f => simp [startSrc, srcFunctors, funsWait, coresWait, srcCores, wfWait]
  | contractOn e p f => simp [startSrc, srcFunctors, funsWait, coresWait, srcCores, wfWait]
  | unit => simp [startSrc, srcFunctors]
  | promiseFn e p f =>
    have h := cnt_submit cfg e ctx g
    simp only [startSrc]
    cases hs : submit cfg e ctx g with
    | callNow c g' => rw [hs] at h; simp [h, srcFunctors, funsWait, coresWait, srcCores, wfWait]
    | dropNow c g' => rw [hs] at h; simp [h, srcFunctors]
    | queued jid k g' => rw [hs] at h; simp [h, srcFunctors, funsWait, coresWait, srcCores, wfWait]
  | sharedReady r => simp [startSrc, srcFunctors]
  | sharedContract p f => simp [startSrc, srcFunctors, funsWait, coresWait, srcCores, wfWait]
  | sharedKept e p f pre => cases h : g.isSet p pre <;> simp [startSrc, h, srcFunctors, funsWait, coresWait, srcCores, wfWait]

theorem startLazy_acct (cfg : Cfg) (src : Src) (ovr : Option Exec) (ctx : Option Nat) (g : G) :
    match startLazy cfg src ovr ctx g with
    | .go _ _ _ g' => cnt g' = ((cnt g).1, (cnt g).2.1, (cnt g).2.2.1, (cnt g).2.2.2 + srcFunctors src)
    | .wait w _ g' =>
      cnt g' = ((cnt g).1, (cnt g).2.1, (cnt g).2.2.1, (cnt g).2.2.2 + (srcFunctors src - funsWait w)) ∧
      funsWait w ≤ srcFunctors src ∧ coresWait w = 1 ∧ srcCores src = 1 ∧ wfWait w = true
    | .crash _ => True := by
  cases src with
  | ready r =>
    have h := cnt_submit cfg (ovr.getD .inl) ctx g
    simp only [startLazy]
    cases hs : submit cfg (ovr.getD .inl) ctx g with
    | callNow c g' => rw [hs] at h; simp [h, srcFunctors]
    | dropNow c g' => rw [hs] at h; simp [h, srcFunctors]
    | queued jid k g' => rw [hs] at h; simp [h, srcFunctors, funsWait, coresWait, srcCores, wfWait]
  | promiseFn e p f => simpa [startLazy, srcFunctors, srcCores] using startSrc_acct cfg (.promiseFn (ovr.getD e) p f) ctx g
  | contract p f => simpa [startLazy] using startSrc_acct cfg (.contract p f) ctx g
  | contractOn e p f => simpa [startLazy] using startSrc_acct cfg (.contractOn e p f) ctx g
  | unit => simpa [startLazy] using startSrc_acct cfg (.unit) ctx g
  | sharedReady r => simpa [startLazy] using startSrc_acct cfg (.sharedReady r) ctx g
  | sharedContract p f => simpa [startLazy] using startSrc_acct cfg (.sharedContract p f) ctx g
  | sharedKept e p f pre => simpa [startLazy] using startSrc_acct cfg (.sharedKept e p f pre) ctx g

/-- `asyncFinish` for an eager inner pipeline: caller and functor of the outer step are released now -/
theorem asyncFinish_acct_eager (m : Mode) (hd : Bool) (own : Exec) (k : List Step) (ctx : Option Nat) (o : Out)
    (c f : Nat) (hk : wfSteps k = true)
    (h : AcctOut (c + (if hd then 1 else 2) + k.length) (f + 1 + k.length) [] o) :
    AcctOut c f k (asyncFinish (stepType m hd) own k false ctx o) := by
  cases o with
  | done r inh c' g =>
    simp only [AcctOut, Bal, List.length_nil, Nat.add_zero] at h
    simp only [asyncFinish, Bool.false_eq_true, ite_false, AcctOut, Bal, cnt_asyncDoneAcct, cnt_asyncRetAcct]
    cases hd <;> simp at h ⊢ <;> omega
  | parked t g =>
    simp only [AcctOut, Bal] at h
    obtain ⟨⟨h1, h2⟩, h3⟩ := h
    simp only [wfThread, Bool.and_eq_true] at h3
    simp only [asyncFinish, Bool.false_eq_true, ite_false, AcctOut, Bal, cnt_asyncRetAcct, coresT, funsT,
      coresFrames_append, funsFrames_append, coresFrames, funsFrames, wfThread, wfFrames_append, wfFrames]
    refine ⟨?_, by simp [h3.1.1, h3.1.2, h3.2, hk]⟩
    simp only [coresT, funsT] at h1 h2
    cases hd <;> simp at h1 h2 ⊢ <;> omega
  | crash g => simp [asyncFinish, AcctOut]

/-- `asyncFinish` for a lazy inner pipeline (entered through Here after the outer step released caller and functor) -/
theorem asyncFinish_acct_lazy (ty : Nat) (own : Exec) (k : List Step) (ctx : Option Nat) (o : Out)
    (c f : Nat) (hk : wfSteps k = true)
    (h : AcctOut (c + 1 + k.length) (f + k.length) [] o) :
    AcctOut c f k (asyncFinish ty own k true ctx o) := by
  cases o with
  | done r inh c' g =>
    simp only [AcctOut, Bal, List.length_nil, Nat.add_zero] at h
    simp only [asyncFinish, ite_true, AcctOut, Bal, cnt_asyncDoneAcct]
    omega
  | parked t g =>
    simp only [AcctOut, Bal] at h
    obtain ⟨⟨h1, h2⟩, h3⟩ := h
    simp only [wfThread, Bool.and_eq_true] at h3
    simp only [asyncFinish, ite_true, AcctOut, Bal, coresT, funsT,
      coresFrames_append, funsFrames_append, coresFrames, funsFrames, wfThread, wfFrames_append, wfFrames]
    refine ⟨?_, by simp [h3.1.1, h3.1.2, h3.2, hk]⟩
    simp only [coresT, funsT] at h1 h2
    omega
  | crash g => simp [asyncFinish, AcctOut]

end Yaclib.Pipeline
