/- the multi-coroutine system: `other_step_is_env` and `projection_sound` -/
import YaclibModel.Proofs.CoroMulti3

namespace Yaclib.CoroMulti
open Yaclib.Coro

theorem mem_range_any {n i : Nat} {f : Nat → Bool} (hi : i < n) (hf : f i = true) : (List.range n).any f = true := by
  simp only [List.any_eq_true, List.mem_range]; exact ⟨i, hi, hf⟩

/-- **a step of coroutine i, seen by another coroutine k, is an environment step of k's model (`envPush`: somebody else
    registered on a SharedFuture k can reach) or changes nothing k can see** -/
theorem other_step_is_env {W : MWorkload} {S : MState} {i k : Nat} {l : Label} {s' : State} (hG : W.GWF)
    (hwt : (W.proj i).WFT) (ha : InvA (W.proj i) (S.proj W i)) (hi : i < W.n) (hik : k ≠ i) (hwk : (S.proj W k).w = W.proj k)
    (hl : isEnvL l = false) (hs : Step (S.proj W i) l s') :
    ProjRel (S.proj W k) ((MState.mk (gcellsAfter S i l) (cupd S.cor i s')).proj W k) := by
  have hcor : cupd S.cor i s' k = S.cor k := by simp [cupd, hik]
  by_cases hcl : cellLabel l = false
  · left
    rw [gcellsAfter_same S i hcl]
    exact proj_congr hcor (fun _ => rfl)
  · generalize hP : S.proj W i = s at hs ha
    have hcells : ∀ j, s.cells j = viewCell W i j (S.cells j) := by intro j; rw [← hP]; rfl
    have htodo : (S.cor i).todo = s.todo := by rw [← hP]; rfl
    cases hs with
    | casOk op rest p j l f h ht hj hw hu =>
        have hm : mentions (W.co i).prog j = true :=
          mentions_of_todo ha ht (List.mem_iff_getElem?.mpr ⟨p, hj⟩)
        have hv := not_hidden_of_mentions hm
        have hcur : curCell (S.cor i) p = some j := by simp only [curCell, htodo, ht]; exact hj
        have hwj : s.word j = viewWord (W.gcell j).shared i (S.cells j).word := by
          simp only [State.word, hcells, viewCell_visible hv]
        rw [hw] at hwj
        simp only [gcellsAfter, hcur]
        cases hgw : (S.cells j).word with
        | gresult walk => rw [hgw] at hwj; simp [viewWord] at hwj
        | gopen cbs ext =>
            have hpush : pushCb (S.cells j) (i, p) = { S.cells j with word := .gopen ((i, p) :: cbs) ext } := by
              simp [pushCb, hgw]
            rw [hpush]
            cases hh : W.hidden k j with
            | true => left; exact proj_unchanged hcor (viewCell_hidden hh _ _)
            | false =>
                cases hsh : (W.gcell j).shared with
                | false =>
                    -- a unique word: coroutine k sees `open [] false` before and after
                    left
                    apply proj_unchanged hcor
                    simp only [viewCell_visible hh, hgw, viewWord, hsh, mineOf_cons_other _ (Ne.symm hik), Bool.false_and]
                | true =>
                    by_cases hf : (ext || hasOther k cbs) = true
                    · left
                      apply proj_unchanged hcor
                      simp only [viewCell_visible hh, hgw, viewWord, hsh, mineOf_cons_other _ (Ne.symm hik),
                        hasOther_cons_other _ (Ne.symm hik), hf]
                      simp
                    · right
                      refine ⟨.envPush j, ?_⟩
                      have hword : (S.proj W k).word j = .open (mineOf k cbs) false := by
                        simp only [State.word, proj_cells, viewCell_visible hh, hgw, viewWord, hsh]
                        simp only [Bool.not_eq_true] at hf; simp [hf]
                      have hst := Step.envPush (S.proj W k) j _ _ hword (by
                        rw [hwk]
                        simp only [Workload.unsafeCell, proj_cell, MWorkload.cellW, MWorkload.others, hsh, Bool.true_and,
                          Bool.and_self]
                        have : (List.range W.n).any (fun k' => k' != k && mentions (W.co k').prog j) = true :=
                          mem_range_any hi (by simp [Ne.symm hik, hm])
                        simp [this])
                      have heq : (MState.mk (gupd S.cells j { S.cells j with word := .gopen ((i, p) :: cbs) ext })
                            (cupd S.cor i (doCasOk s op p j l f))).proj W k = (S.proj W k).setWord j (.open (mineOf k cbs) true) := by
                        apply proj_of_cells' (upd (S.proj W k).cells j { (S.proj W k).cells j with word := .open (mineOf k cbs) true })
                        · simp only [hcor]; rfl
                        · intro j'
                          by_cases hjj : j' = j
                          · subst hjj
                            simp only [gupd_same, upd_same, proj_cells, viewCell_visible hh, viewWord, hsh,
                              mineOf_cons_other _ (Ne.symm hik), hasOther_cons_other _ (Ne.symm hik)]
                            simp
                          · simp only [gupd_other _ _ _ _ hjj, upd_other _ _ _ _ hjj, proj_cells]
                      rw [heq]; exact hst
    | fire op rest j p walk ht hw hp =>
        left
        simp only [gcellsAfter]
        apply proj_unchanged hcor
        cases hh : W.hidden k j with
        | true => exact viewCell_hidden hh _ _
        | false =>
            simp only [viewCell_visible hh, eraseCb]
            cases hgw : (S.cells j).word with
            | gopen cbs ext => simp only [hgw]
            | gresult gw => simp only [hgw, viewWord, mineOf_erase_other _ (Ne.symm hik)]
    | tstore op rest j h ht hj =>
        left
        have hjm : j ∈ op.cells := List.mem_iff_getElem?.mpr ⟨0, hj⟩
        have hm : mentions (W.co i).prog j = true := mentions_of_todo ha ht hjm
        have hcur : curCell (S.cor i) 0 = some j := by simp only [curCell, htodo, ht]; exact hj
        have hpk := ha.pc_kind op rest ht
        rw [h] at hpk
        have hk : op.kind = .task := by simpa [pcKindOk] using hpk
        have hlazy : ((W.proj i).cell j).lazy = true := (wft_lazy hwt ha ht hjm).mp hk
        rw [proj_cell] at hlazy
        have hlz : (W.gcell j).lazy = true := hlazy
        -- a Task has one owner: coroutine k does not mention it, so it is not part of k's projection
        have hnm : mentions (W.co k).prog j = false := by
          cases hmk : mentions (W.co k).prog j with
          | false => rfl
          | true => exact absurd (hG.1 j (hG.2 j hlz) i k hm hmk).symm hik
        have hh : W.hidden k j = true := by simp [MWorkload.hidden, hlz, hnm]
        simp only [gcellsAfter, hcur]
        exact proj_unchanged hcor (viewCell_hidden hh _ _)
    | pXchg j l f hw hl' => simp [isEnvL] at hl
    | envPush j l f hw hu => simp [isEnvL] at hl
    | envSwap j e hu => simp [isEnvL] at hl
    | _ => simp [cellLabel] at hcl

/-- **projection soundness**: every projection of a reachable state of the multi-coroutine system is a reachable state of the
    one-coroutine model for that coroutine's workload — so every theorem of Props/C13.lean about `Coro.Reachable` holds for every
    coroutine of every run of the system -/
theorem projection_sound {W : MWorkload} {S : MState} (hG : W.GWF) (hwf : ∀ i, (W.proj i).WF) (hwt : ∀ i, (W.proj i).WFT)
    (h : MReachable W S) : ∀ i, Reachable (W.proj i) (S.proj W i) := by
  induction h with
  | init => intro i; rw [proj_init]; exact .init
  | step hr hs ih =>
      rename_i S0 l S1
      have hinv : ∀ i, InvA (W.proj i) (S0.proj W i) := fun i => (inv_reachable (hwf i) (ih i)).a
      have lift : ∀ k, ProjRel (S0.proj W k) (S1.proj W k) → Reachable (W.proj k) (S1.proj W k) := by
        intro k hrel
        rcases hrel with he | ⟨l', hst⟩
        · rw [he]; exact ih k
        · exact .step (ih k) hst
      intro k
      apply lift
      cases hs with
      | prod j cbs e hw hl => exact step_prod_proj k hw hl (hinv k).hw
      | ext j cbs e hw hs' hx => exact step_ext_proj k hw hs' hx (hinv k).hw
      | swap j e hl hs' => exact step_swap_proj k hl hs' (hinv k).hw
      | co i l s' hi hl hs' =>
          by_cases hik : k = i
          · subst hik
            right
            exact ⟨l, by rw [own_step (hinv k) hl hs']; exact hs'⟩
          · exact other_step_is_env hG (hwt i) (hinv i) hi hik (hinv k).hw hl hs'

end Yaclib.CoroMulti
