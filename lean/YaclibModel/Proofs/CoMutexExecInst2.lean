/- C14 over towers of Strands: "the executor never Drops" is discharged for towers over a never-dropping base
   (Proofs/StrandTowerNoDrop.lean: a strand Drops only what the executor below refused), in particular over the alive
   Inline executor and over a drained ManualExecutor. -/
import YaclibModel.Proofs.CoMutexExecInst
import YaclibModel.Proofs.StrandTowerNoDrop

namespace Yaclib.CoMutex
open Yaclib.Strand (Exec XEv Prot Phase specPre specPost protInit ExecContract)

/-- the two readings of "never Drops over reachable states" are the same definition -/
theorem neverDropsRun_iff {E : Exec} : NeverDropsRun E ↔ Yaclib.Strand.NeverDropsRun E := Iff.rfl

theorem xmutex_quiescent_done_run {cfg : Cfg} {E : Exec} (hc : ExecContract E) (hnd : NeverDropsRun E) {s : XState E}
    (h : XReach cfg E s) (hq : ∀ s', ¬ XStep E s s') : QuiescentDone cfg s := by
  have hi := inv_reachable (xmutex_projects h).1
  obtain ⟨hf, hw, hr, hall⟩ := quiescent hi (xmutex_quiescent_run hc hnd h hq)
  exact ⟨hw, hr, hf, hall⟩

/-- a tower of Strands over a base that never Drops never Drops (in any state it reaches) -/
theorem strand_tower_neverDrops {base : Exec} (hb : NeverDrops base) (k : Nat) :
    NeverDropsRun (Yaclib.Strand.tower base k) :=
  Yaclib.Strand.tower_never_drops (Yaclib.Strand.NeverDropsRun.of_all hb) k

/-- **no lost wake-up over a tower of k Strands on any contract-honouring base that never Drops** — "never Drops" is
    no longer a hypothesis about the tower -/
theorem comutex_over_strand_tower_nodrop {cfg : Cfg} {base : Exec} (hb : ExecContract base) (hnd : NeverDrops base)
    (k : Nat) {s : XState (Yaclib.Strand.tower base k)} (h : XReach cfg (Yaclib.Strand.tower base k) s)
    (hq : ∀ s', ¬ XStep _ s s') : QuiescentDone cfg s :=
  xmutex_quiescent_done_run (Yaclib.Strand.tower_satisfies_contract hb k) (strand_tower_neverDrops hnd k) h hq

/-- … over `MakeInline()` -/
theorem comutex_over_strand_tower_inline {cfg : Cfg} (k : Nat)
    {s : XState (Yaclib.Strand.tower (Yaclib.Strand.inlineExec true) k)}
    (h : XReach cfg (Yaclib.Strand.tower (Yaclib.Strand.inlineExec true) k) s) (hq : ∀ s', ¬ XStep _ s s') :
    QuiescentDone cfg s :=
  comutex_over_strand_tower_nodrop (Yaclib.Strand.inline_contract true) inline_neverDrops k h hq

/-- … over a ManualExecutor whose owner keeps draining it (and does not destroy it) -/
theorem comutex_over_strand_tower_manual {cfg : Cfg} (k : Nat)
    {s : XState (Yaclib.Strand.tower (Yaclib.Strand.manualExec false) k)}
    (h : XReach cfg (Yaclib.Strand.tower (Yaclib.Strand.manualExec false) k) s) (hq : ∀ s', ¬ XStep _ s s') :
    QuiescentDone cfg s :=
  comutex_over_strand_tower_nodrop Yaclib.Strand.manual_contract (manual_neverDrops false) k h hq

end Yaclib.CoMutex
