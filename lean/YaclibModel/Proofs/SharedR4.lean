import YaclibModel.Proofs.SharedR
namespace Yaclib.Shared

set_option maxHeartbeats 4000000 in
theorem invR_step_4 {w s l s'} (h0 : Inv0 s) (ha : InvA w s) (hi : InvR s) (hs : Step s l s') (hg : grpOf l = 4) :
    InvR s' := by
  have hle := h0.le
  have hbusy := h0.busy
  cases ha
  cases hi
  cases hs with
  | oForward t c h hk =>
      have htwo := fun t' => h0.two' t' t
      invR_auto
  | oEnter t c h hk =>
      have htwo := fun t' => h0.two' t' t
      invR_auto
  | oWaited t c rest h ht hf =>
      have htwo := fun t' => h0.two' t' t
      invR_auto
  | oGetc t c rest h ht hf =>
      have htwo := fun t' => h0.two' t' t
      invR_auto
  | oGetRef t c rest h ht hf =>
      have htwo := fun t' => h0.two' t' t
      invR_auto
  | oGot t n h =>
      have htwo := fun t' => h0.two' t' t
      invR_auto
  | _ => simp [grpOf] at hg

end Yaclib.Shared
