/- Basic facts about the pipeline model: the extracted routing tables agree with the sequential reading,
   the accounting helpers touch only their own counters, `submit` case analysis. -/
import YaclibModel.Model.Pipeline

namespace Yaclib.Pipeline
open Yaclib.Extracted

/-! ### extracted tables vs. the sequential reading -/

theorem isRun_stepType_false (m : Mode) : Dispatch.isRun (stepType m false) = false := by
  cases m <;> simp [stepType] <;> decide

theorem isRun_stepType_true (m : Mode) : Dispatch.isRun (stepType m true) = true := by
  cases m <;> simp [stepType] <;> decide

theorem isRun_stepType (m : Mode) (hd : Bool) : Dispatch.isRun (stepType m hd) = hd := by
  cases hd
  · exact isRun_stepType_false m
  · exact isRun_stepType_true m

/-- the step's functor is invoked (Core::CallImpl / CallResolveState from the extracted tables) exactly when the
    sequential reading says so -/
theorem route_call_iff (sig : Sig) (m : Mode) (hd dropped : Bool) (input0 : R) :
    route sig (passesUnit (stepType m hd) dropped sig) (Dispatch.isRun (stepType m hd))
        (seenInput (stepType m hd) dropped input0) = .call
      ↔ runsOn sig (seenInput (stepType m hd) dropped input0) = true := by
  rw [isRun_stepType]
  cases hd <;> cases dropped <;> cases sig <;>
    simp [seenInput, passesUnit, isRun_stepType, R.stop, Dispatch.callPassesUnit] <;>
    (try cases input0) <;>
    simp [route, Sig.flags, runsOn, R.state, Dispatch.callImplDirect, Dispatch.valueCallback,
      Dispatch.resolveValue, Dispatch.resolveRecovery, Dispatch.recoveryState]

/-- … and otherwise the input passes through unchanged -/
theorem route_pass (sig : Sig) (m : Mode) (hd dropped : Bool) (input0 : R)
    (h : runsOn sig (seenInput (stepType m hd) dropped input0) = false) :
    passThrough (route sig (passesUnit (stepType m hd) dropped sig) (Dispatch.isRun (stepType m hd))
        (seenInput (stepType m hd) dropped input0)) (seenInput (stepType m hd) dropped input0)
      = seenInput (stepType m hd) dropped input0 := by
  rw [isRun_stepType]
  revert h
  cases hd <;> cases dropped <;> cases sig <;>
    simp [seenInput, passesUnit, isRun_stepType, R.stop, Dispatch.callPassesUnit] <;>
    (try cases input0) <;>
    simp [route, Sig.flags, runsOn, R.state, Dispatch.callImplDirect, Dispatch.valueCallback,
      Dispatch.resolveValue, Dispatch.resolveRecovery, Dispatch.recoveryState, passThrough]

theorem transferExecutorTo_eq (m : Mode) (inh : Exec) :
    Dispatch.transferExecutorTo m.explicit inh = ownExec m inh := by
  unfold ownExec; cases m.explicit <;> rfl

/-- Core::Impl submits exactly the Call-type steps: Then(e, f) / Then(f) / Detach(e, f) / Detach(f) and the Run head -/
theorem implSubmits_stepType (m : Mode) (hd : Bool) :
    Dispatch.implSubmits (stepType m hd) = (m.submits || hd) := by
  cases hd <;> cases m <;> simp [stepType, Mode.submits] <;> decide

/-- with the extracted tables of the fixed tree (4f7ebfc) the head of a returned Task starts like any source: a ReadyCore
    publishes, a Run-type Core / PromiseCore submits itself to its executor -/
theorem enterHere_eq (cfg : Cfg) (src : Src) (ctx : Option Nat) (g : G) :
    enterHere cfg src ctx g = startSrc cfg src ctx g := by
  cases src <;> simp [enterHere, Dispatch.asyncEntry, Dispatch.implRunEntry, Dispatch.promiseCoreHere]

/-! ### the accounting helpers touch only their own counters -/

section acct
variable (g : G) (ty : Nat) (b : Bool) (n : Nat)

@[simp] theorem allocCore_subs : (g.allocCore n).subs = g.subs := rfl
@[simp] theorem allocCore_invoked : (g.allocCore n).invoked = g.invoked := rfl
@[simp] theorem allocFunctor_subs : (g.allocFunctor n).subs = g.subs := rfl
@[simp] theorem allocFunctor_invoked : (g.allocFunctor n).invoked = g.invoked := rfl
@[simp] theorem freeCore_subs : g.freeCore.subs = g.subs := rfl
@[simp] theorem freeCore_invoked : g.freeCore.invoked = g.invoked := rfl
@[simp] theorem freeFunctor_subs : g.freeFunctor.subs = g.subs := rfl
@[simp] theorem freeFunctor_invoked : g.freeFunctor.invoked = g.invoked := rfl
@[simp] theorem finishJob_subs (j : Nat) : (g.finishJob j b).subs = g.subs := rfl
@[simp] theorem finishJob_invoked (j : Nat) : (g.finishJob j b).invoked = g.invoked := rfl
@[simp] theorem invoke_subs (i : Nat) (c : Option Nat) (v : Option Exec) : (g.invoke i c v).subs = g.subs := rfl
@[simp] theorem invoke_invoked (i : Nat) (c : Option Nat) (v : Option Exec) :
    (g.invoke i c v).invoked = g.invoked ++ [i] := rfl

@[simp] theorem markSet_subs (p : Nat) : (g.markSet p).subs = g.subs := rfl
@[simp] theorem markSet_invoked (p : Nat) : (g.markSet p).invoked = g.invoked := rfl
@[simp] theorem markSet_jobs (p : Nat) : (g.markSet p).jobs = g.jobs := rfl
@[simp] theorem markSet_ran (p : Nat) : (g.markSet p).ran = g.ran := rfl
@[simp] theorem markSet_submitCalls (p : Nat) : (g.markSet p).submitCalls = g.submitCalls := rfl
@[simp] theorem markSet_cAlloc (p : Nat) : (g.markSet p).cAlloc = g.cAlloc := rfl
@[simp] theorem markSet_cFree (p : Nat) : (g.markSet p).cFree = g.cFree := rfl
@[simp] theorem markSet_fAlloc (p : Nat) : (g.markSet p).fAlloc = g.fAlloc := rfl
@[simp] theorem markSet_fFree (p : Nat) : (g.markSet p).fFree = g.fFree := rfl

@[simp] theorem doneAcct_subs : (doneAcct ty b g).subs = g.subs := by
  unfold doneAcct; repeat' split
  all_goals rfl
@[simp] theorem doneAcct_invoked : (doneAcct ty b g).invoked = g.invoked := by
  unfold doneAcct; repeat' split
  all_goals rfl
@[simp] theorem asyncRetAcct_subs : (asyncRetAcct ty g).subs = g.subs := by
  unfold asyncRetAcct; repeat' split
  all_goals rfl
@[simp] theorem asyncRetAcct_invoked : (asyncRetAcct ty g).invoked = g.invoked := by
  unfold asyncRetAcct; repeat' split
  all_goals rfl
@[simp] theorem asyncDoneAcct_subs : (asyncDoneAcct ty g).subs = g.subs := by
  unfold asyncDoneAcct; repeat' split
  all_goals rfl
@[simp] theorem asyncDoneAcct_invoked : (asyncDoneAcct ty g).invoked = g.invoked := by
  unfold asyncDoneAcct; repeat' split
  all_goals rfl
end acct

/-! ### `submit` against `offered` -/

/-- what a Submit does to the log, and what the submitted job will be offered -/
theorem submit_offered (cfg : Cfg) (e : Exec) (ctx : Option Nat) (g : G) (r : R) :
    match submit cfg e ctx g with
    | .callNow _ g' => offered cfg e r g.subs = (r, g'.subs) ∧ g'.invoked = g.invoked
    | .dropNow _ g' => offered cfg e r g.subs = (R.stop, g'.subs) ∧ g'.invoked = g.invoked
    | .queued _ k g' => offered cfg e r g.subs = (r, g'.subs) ∧ g'.invoked = g.invoked ∧ e = .user k := by
  cases e with
  | inl => simp [submit, offered]
  | stp => simp [submit, offered]
  | user k =>
    simp only [submit, offered]
    by_cases hr : rejects cfg g.subs k = true
    · simp [hr]
    · simp only [hr]
      by_cases hq : (cfg k).queue = true <;> simp [hq]

end Yaclib.Pipeline
