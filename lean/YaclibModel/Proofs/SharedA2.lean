import YaclibModel.Proofs.Shared
namespace Yaclib.Shared

set_option maxHeartbeats 4000000 in
theorem invA_step_2 {w s l s'} (hi : InvA w s) (hs : Step s l s') (hg : grpOf l = 2) : InvA w s' := by
  cases hi
  cases hs with
  | oLoad t op rest k x h ht hk hr hx =>
      cases x with
      | list l => invA_auto
      | result =>
          by_cases hke : k = .event
          · subst hke; invA_auto
          · simp only [doLoad, reload, failPath, hke, ↓reduceIte]; invA_auto
  | oCasOk t c e h hw =>
      by_cases hke : c.kind = .event
      · simp only [doCasOk, hke, ↓reduceIte]; invA_auto
      · by_cases hkr : c.kind = .retire
        · simp only [doCasOk, hkr, ↓reduceIte, reduceCtorEq]; invA_auto
        · simp only [doCasOk, hke, hkr, ↓reduceIte]; invA_auto
  | _ => simp [grpOf] at hg

end Yaclib.Shared
