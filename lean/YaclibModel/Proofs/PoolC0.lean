import YaclibModel.Proofs.Pool
namespace Yaclib.Pool
open Yaclib.Extracted.PoolConsts

set_option maxHeartbeats 2000000 in
theorem invC_step_0 {w s l s'} (ha : InvA w s) (hi : InvC w s) (hs : Step s l s') (hg : grpOf l = 0) : InvC w s' := by
  have hcj := ha.cnt_jobs
  have hgq := ha.gone_queue
  have hwl := ha.wlen
  cases hs with
  | sBegin i sb h hpc hk => sfacts h; cases hi; invC_close
  | sLock i sb h hpc hl => sfacts h; cases hi; invC_close
  | sAccept i sb h hpc hw => sfacts h; cases hi; invC_close
  | sReject i sb h hpc hw => sfacts h; cases hi; invC_close
  | sDrop i sb h hpc => sfacts h; cases hi; invC_close
  | sNotifyNone i sb h hpc hn =>
      sfacts h
      have hap := fun hq hw => active_pos_of_no_parked ha hq hn hw
      cases hi; invC_close
  | sNotifyOne i sb v h hpc hv => sfacts h; wfacts hv; cases hi; invC_close
  | _ => simp [grpOf] at hg

end Yaclib.Pool
