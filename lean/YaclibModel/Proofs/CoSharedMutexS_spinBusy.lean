import YaclibModel.Proofs.CoSharedMutex
namespace Yaclib.CoSharedMutex

set_option maxHeartbeats 4000000 in
theorem inv_spinBusy {cfg : Cfg} {s : State} (hi : Inv cfg s) (c : Cid) (k : SpinK) (h : s.pc c = .spinning k false) (hf : s.spin ≠ .free) :
    Inv cfg ({ s with pc := upd s.pc c (.spinning k true) }) := by
  cases hi
  cases k <;> sm_auto [List.count_le_length]

end Yaclib.CoSharedMutex
