import YaclibModel.Proofs.CoSharedMutexS_spinBusy_1
import YaclibModel.Proofs.CoSharedMutexS_spinBusy_2
import YaclibModel.Proofs.CoSharedMutexS_spinBusy_3
namespace Yaclib.CoSharedMutex

theorem inv_spinBusy {cfg : Cfg} {s : State} (hi : Inv cfg s) (c : Cid) (k : SpinK) (h : s.pc c = .spinning k false) (hf : s.spin ≠ .free) :
    Inv cfg ({ s with pc := upd s.pc c (.spinning k true) }) := by
  have hkd : k = .rd ∨ k = .wr ∨ k = .un := by cases k <;> simp
  rcases hkd with hk | hk | hk
  · exact inv_spinBusy_1 hi c k h hf hk
  · exact inv_spinBusy_2 hi c k h hf hk
  · exact inv_spinBusy_3 hi c k h hf hk

end Yaclib.CoSharedMutex
