/- C08: work conservation.  While a worker sleeps, every queued job is covered by a wake-up that is already on its
   way and does not depend on any job body returning: a worker that has just started / has left the wait queue /
   holds the mutex, or a `notify_one` that a Submit still has to issue.
   (Workers that are inside a Call do NOT count: a job may wait for a job that is still queued.) -/
import YaclibModel.Proofs.Pool
namespace Yaclib.Pool
open Yaclib.Extracted.PoolConsts

/-- the worker is on its way to the queue and no client code stands between it and the queue -/
def WPc.heading : WPc → Bool
  | .start => true | .woken => true | .held _ => true | _ => false

structure InvW (s : State) : Prop where
  conserve : WPc.parked ∈ s.workers →
    s.queue.length ≤ s.workers.countP WPc.heading + s.subs.countP Sub.isNotifying

theorem invW_init (w : Workload) : InvW (init w) := by
  constructor
  intro _; simp [init]

macro "hfacts" h:ident : tactic =>
  `(tactic| (have hHd := countP_set_get WPc.heading $h))

macro "invW_close" : tactic =>
  `(tactic| (constructor <;> unfold_do <;>
      grind [WPc.heading, Sub.isNotifying, mem_set_cases, parked_not_mem_wake]))

set_option maxHeartbeats 2000000 in
theorem invW_step {s l s'} (hi : InvW s) (hs : Step s l s') : InvW s' := by
  cases hs with
  | sBegin i sb h hpc hk => sfacts h; cases hi; invW_close
  | sLock i sb h hpc hl => sfacts h; cases hi; invW_close
  | sAccept i sb h hpc hw => sfacts h; cases hi; invW_close
  | sReject i sb h hpc hw => sfacts h; cases hi; invW_close
  | sDrop i sb h hpc => sfacts h; cases hi; invW_close
  | sNotifyNone i sb h hpc hn => sfacts h; cases hi; invW_close
  | sNotifyOne i sb v h hpc hv => sfacts h; hfacts hv; cases hi; invW_close
  | wLock i pc h hpc hl => hfacts h; cases hi; rcases hpc with hpc | hpc <;> subst hpc <;> invW_close
  | wRelock i h hl => hfacts h; cases hi; invW_close
  | wCall i j h => hfacts h; cases hi; invW_close
  | wSpurious i h => hfacts h; cases hi; invW_close
  | wNotifyAll i h =>
      have hnp := parked_not_mem_wake (s.workers.set i .exited)
      constructor; intro hp; simp only [doWNotifyAll] at hp; exact absurd hp hnp
  | wPop i b j rest h hq => hfacts h; cases hi; invW_close
  | wStop i b h hq hc => hfacts h; cases hi; invW_close
  | wExit i b h hq hc hw => hfacts h; cases hi; invW_close
  | wWait i b h hq hc hw => hfacts h; cases hi; invW_close
  | xBegin k h hk => cases hi; invW_close
  | xLock h hl => cases hi; invW_close
  | xStop h hk => cases hi; invW_close
  | xSoftNow h hk hn => cases hi; invW_close
  | xSoftWant h hk hn => cases hi; invW_close
  | xHard h hk => cases hi; invW_close
  | xNotifyAll h =>
      have hnp := parked_not_mem_wake s.workers
      constructor; intro hp; simp only [doXNotifyAll] at hp; exact absurd hp hnp
  | xDrop j rest h => cases hi; invW_close
  | waitRet h hr => cases hi; invW_close

theorem invW_reachable {w s} (h : Reachable w s) : InvW s := by
  induction h with
  | init => exact invW_init w
  | step _ hs ih => exact invW_step ih hs

end Yaclib.Pool
