/- C20: allocations are bounded by the number of pipeline steps — an allocation-credit argument.
   Every core is one heap block (MakeUnique / MakeShared in MakeCore, MakeFuture, MakeTask, MakeContract*); a step's own core
   is allocated when the step is attached, the cores of an inner pipeline when the functor building it is invoked. -/
import YaclibModel.Proofs.PipelineRun

namespace Yaclib.Pipeline
open Yaclib.Extracted

mutual
  theorem sizeStep_eq : ∀ s : Step, sizeStep s = 1 + innerStep s
    | .mk id sig mode beh => by
      cases beh with
      | val n => rw [sizeStep, innerStep] <;> (intros; simp_all)
      | res r => rw [sizeStep, innerStep] <;> (intros; simp_all)
      | throw t => rw [sizeStep, innerStep] <;> (intros; simp_all)
      | async src lazy steps =>
        rw [sizeStep, innerStep]
        rw [sizeSteps_eq steps]
        omega
  theorem sizeSteps_eq : ∀ ss : List Step, sizeSteps ss = ss.length + innerSteps ss
    | [] => by rw [sizeSteps, innerSteps]; rfl
    | s :: ss => by
      rw [sizeSteps, innerSteps, sizeStep_eq s, sizeSteps_eq ss]
      simp only [List.length_cons]
      omega
end

theorem innerSteps_append (a b : List Step) : innerSteps (a ++ b) = innerSteps a + innerSteps b := by
  induction a with
  | nil => simp [innerSteps]
  | cons s ss ih => simp only [List.cons_append]; rw [innerSteps, innerSteps, ih]; omega

theorem innerStep_async (id : Nat) (sig : Sig) (m : Mode) (src : Src) (lazy : Bool) (steps : List Step) :
    innerStep (.mk id sig m (.async src lazy steps)) = srcCores src + steps.length + innerSteps steps := by
  rw [innerStep]

def innerWait : Wait → Nat
  | .job _ _ (.step s _ _) => innerStep s
  | _ => 0

def innerFrames : List Frame → Nat
  | [] => 0
  | f :: fs => innerSteps f.rest + innerFrames fs

def innerT (t : Thread) : Nat := innerWait t.wait + innerSteps t.rest + innerFrames t.outer

theorem innerFrames_append (a b : List Frame) : innerFrames (a ++ b) = innerFrames a + innerFrames b := by
  induction a with
  | nil => simp [innerFrames]
  | cons f fs ih => simp [innerFrames, ih]; omega

/-- the allocation count of the outcome of a cascade, plus everything its leftovers may still allocate, stays below `B` -/
def AllocOut (B extra : Nat) (k : List Step) : Out → Prop
  | .done _ _ _ g => g.cAlloc + innerSteps k + extra ≤ B
  | .parked t g => g.cAlloc + innerT t + extra ≤ B
  | .crash g => g.cAlloc ≤ B

section ca
variable (g : G) (ty : Nat) (b : Bool)
@[simp] theorem doneAcct_cAlloc : (doneAcct ty b g).cAlloc = g.cAlloc := by
  unfold doneAcct; repeat' split
  all_goals rfl
@[simp] theorem asyncRetAcct_cAlloc : (asyncRetAcct ty g).cAlloc = g.cAlloc := by
  unfold asyncRetAcct; repeat' split
  all_goals rfl
@[simp] theorem asyncDoneAcct_cAlloc : (asyncDoneAcct ty g).cAlloc = g.cAlloc := by
  unfold asyncDoneAcct; repeat' split
  all_goals rfl
end ca

theorem submit_cAlloc (cfg : Cfg) (e : Exec) (ctx : Option Nat) (g : G) :
    match submit cfg e ctx g with
    | .callNow _ g' => g'.cAlloc = g.cAlloc
    | .dropNow _ g' => g'.cAlloc = g.cAlloc
    | .queued _ _ g' => g'.cAlloc = g.cAlloc := by
  cases e with
  | inl => simp [submit]
  | stp => simp [submit]
  | user k =>
    simp only [submit]
    by_cases hr : rejects cfg g.subs k = true
    · simp [hr, G.finishJob]
    · simp only [hr]
      by_cases hq : (cfg k).queue = true <;> simp [hq, G.finishJob]

theorem startSrc_cAlloc (cfg : Cfg) (src : Src) (ctx : Option Nat) (g : G) :
    match startSrc cfg src ctx g with
    | .go _ _ _ g' => g'.cAlloc = g.cAlloc
    | .wait w _ g' => g'.cAlloc = g.cAlloc ∧ innerWait w = 0
    | .crash g' => g'.cAlloc = g.cAlloc := by
  cases src with
  | promiseFn e p f =>
    have h := submit_cAlloc cfg e ctx g
    simp only [startSrc]
    cases hs : submit cfg e ctx g with
    | callNow c g' => rw [hs] at h; simp [h, innerWait, G.freeFunctor]
    | dropNow c g' => rw [hs] at h; simp [h, G.freeFunctor]
    | queued jid k g' => rw [hs] at h; simp [h, innerWait]
  | ready r => simp [startSrc]
  | contract p f => simp [startSrc, innerWait]
  | contractOn e p f => simp [startSrc, innerWait]
  | unit => simp [startSrc]
  | sharedReady r => simp [startSrc]
  | sharedContract p f => simp [startSrc, innerWait]
  | sharedKept e p f pre => cases h : g.isSet p pre <;> simp [startSrc, h, innerWait]

theorem startLazy_cAlloc (cfg : Cfg) (src : Src) (ovr : Option Exec) (ctx : Option Nat) (g : G) :
    match startLazy cfg src ovr ctx g with
    | .go _ _ _ g' => g'.cAlloc = g.cAlloc
    | .wait w _ g' => g'.cAlloc = g.cAlloc ∧ innerWait w = 0
    | .crash g' => g'.cAlloc = g.cAlloc := by
  cases src with
  | ready r =>
    have h := submit_cAlloc cfg (ovr.getD .inl) ctx g
    simp only [startLazy]
    cases hs : submit cfg (ovr.getD .inl) ctx g with
    | callNow c g' => rw [hs] at h; simp [h]
    | dropNow c g' => rw [hs] at h; simp [h]
    | queued jid k g' => rw [hs] at h; simp [h, innerWait]
  | promiseFn e p f => simpa [startLazy] using startSrc_cAlloc cfg (.promiseFn (ovr.getD e) p f) ctx g
  | contract p f => simpa [startLazy] using startSrc_cAlloc cfg (.contract p f) ctx g
  | contractOn e p f => simpa [startLazy] using startSrc_cAlloc cfg (.contractOn e p f) ctx g
  | unit => simpa [startLazy] using startSrc_cAlloc cfg .unit ctx g
  | sharedReady r => simpa [startLazy] using startSrc_cAlloc cfg (.sharedReady r) ctx g
  | sharedContract p f => simpa [startLazy] using startSrc_cAlloc cfg (.sharedContract p f) ctx g
  | sharedKept e p f pre => simpa [startLazy] using startSrc_cAlloc cfg (.sharedKept e p f pre) ctx g

theorem asyncFinish_alloc (ty : Nat) (own : Exec) (k : List Step) (lazy : Bool) (ctx : Option Nat) (o : Out)
    (B extra : Nat) (h : AllocOut B (innerSteps k + extra) [] o) :
    AllocOut B extra k (asyncFinish ty own k lazy ctx o) := by
  cases o with
  | done r inh c g =>
    simp only [AllocOut, innerSteps] at h
    cases lazy <;> simp [asyncFinish, AllocOut] <;> omega
  | parked t g =>
    simp only [AllocOut] at h
    cases lazy <;> simp [asyncFinish, AllocOut, innerT, innerFrames_append, innerFrames] at h ⊢ <;> omega
  | crash g => simpa [asyncFinish, AllocOut] using h

mutual
  theorem callStep_alloc (cfg : Cfg) :
      ∀ (s : Step) (k : List Step) (hd dropped : Bool) (ctx : Option Nat) (via : Option Exec) (input0 : R) (own : Exec)
        (g : G) (B extra : Nat), g.cAlloc + innerStep s + innerSteps k + extra ≤ B →
      AllocOut B extra k (callStep cfg s k hd dropped ctx via input0 own g)
    | .mk id sig mode beh, k, hd, dropped, ctx, via, input0, own, g, B, extra, hb => by
      have hskip : ∀ (r : R) (b : Bool) (g0 : G), g0.cAlloc = g.cAlloc →
          AllocOut B extra k (.done r own ctx (doneAcct (stepType mode hd) b g0)) := by
        intro r b g0 hg0
        simp only [AllocOut, doneAcct_cAlloc, hg0]
        omega
      rw [callStep.eq_def]
      simp only []
      cases hact : route sig (passesUnit (stepType mode hd) dropped sig) (Dispatch.isRun (stepType mode hd))
          (seenInput (stepType mode hd) dropped input0) with
      | call =>
        simp only []
        cases beh with
        | val n => exact hskip _ _ _ rfl
        | res r => exact hskip _ _ _ rfl
        | throw t => exact hskip _ _ _ rfl
        | async src lazy steps =>
          rw [innerStep_async] at hb
          simp only []
          cases lazy with
          | false =>
            simp only [Bool.false_eq_true, ite_false]
            have hsrc := startSrc_cAlloc cfg src ctx
              ((G.allocCore (g.invoke id ctx via) (srcCores src + steps.length)).allocFunctor (srcFunctors src + steps.length))
            cases hst : startSrc cfg src ctx
              ((G.allocCore (g.invoke id ctx via) (srcCores src + steps.length)).allocFunctor (srcFunctors src + steps.length)) with
            | go r0 inh0 c0 g3 =>
              rw [hst] at hsrc
              simp only []
              apply asyncFinish_alloc
              apply runSteps_alloc cfg steps (src == .unit) false ctx r0 inh0 g3 B _
              rw [hsrc]
              simp [G.allocFunctor, G.allocCore, G.invoke]
              omega
            | wait w inh0 g3 =>
              rw [hst] at hsrc
              simp only [AllocOut, innerT, innerFrames, asyncRetAcct_cAlloc, hsrc.1, hsrc.2]
              simp [G.allocFunctor, G.allocCore, G.invoke]
              omega
            | crash g3 =>
              rw [hst] at hsrc
              simp only [AllocOut, hsrc]
              simp [G.allocFunctor, G.allocCore, G.invoke]
              omega
          | true =>
            simp only [↓reduceIte]
            rw [enterHere_eq]
            have hsrc := startSrc_cAlloc cfg src ctx (asyncRetAcct (stepType mode hd)
              ((G.allocCore (g.invoke id ctx via) (srcCores src + steps.length)).allocFunctor (srcFunctors src + steps.length)))
            cases hst : startSrc cfg src ctx (asyncRetAcct (stepType mode hd)
              ((G.allocCore (g.invoke id ctx via) (srcCores src + steps.length)).allocFunctor (srcFunctors src + steps.length))) with
            | go r0 inh0 c0 g3 =>
              rw [hst] at hsrc
              simp only []
              apply asyncFinish_alloc
              apply runSteps_alloc cfg steps (src == .unit) true c0 r0 inh0 g3 B _
              rw [hsrc]
              simp [G.allocFunctor, G.allocCore, G.invoke]
              omega
            | wait w inh0 g3 =>
              rw [hst] at hsrc
              simp only [AllocOut, innerT, innerFrames, hsrc.1, hsrc.2]
              simp [G.allocFunctor, G.allocCore, G.invoke]
              omega
            | crash g3 =>
              rw [hst] at hsrc
              simp only [AllocOut, hsrc]
              simp [G.allocFunctor, G.allocCore, G.invoke]
              omega
      | doneException => exact hskip _ _ _ rfl
      | doneError => exact hskip _ _ _ rfl
      | doneResult => exact hskip _ _ _ rfl

  theorem runSteps_alloc (cfg : Cfg) :
      ∀ (ss : List Step) (hd flow : Bool) (ctx : Option Nat) (r : R) (inh : Exec) (g : G) (B extra : Nat),
      g.cAlloc + innerSteps ss + extra ≤ B →
      AllocOut B extra [] (runSteps cfg ss hd flow ctx r inh g)
    | [], hd, flow, ctx, r, inh, g, B, extra, hb => by
      rw [runSteps.eq_def]
      simpa [AllocOut, innerSteps] using hb
    | s :: ss, hd, flow, ctx, r, inh, g, B, extra, hb => by
      rw [innerSteps] at hb
      rw [runSteps.eq_def]
      simp only []
      have tail : ∀ (o : Out), AllocOut B extra ss o →
          AllocOut B extra [] (match o with
            | .done r' inh' c' g' => runSteps cfg ss false flow (if flow = true then c' else ctx) r' inh' g'
            | o => o) := by
        intro o ho
        cases o with
        | done r' inh' c' g' =>
          simp only [AllocOut] at ho
          simp only []
          exact runSteps_alloc cfg ss false flow _ r' inh' g' B extra ho
        | parked t g' => exact ho
        | crash g' => exact ho
      by_cases hsub : Dispatch.implSubmits (stepType s.mode hd) = true
      · simp only [hsub, ite_true]
        have hc := submit_cAlloc cfg (Dispatch.transferExecutorTo s.mode.explicit inh) ctx g
        cases hsb : submit cfg (Dispatch.transferExecutorTo s.mode.explicit inh) ctx g with
        | callNow c0 g' =>
          rw [hsb] at hc
          exact tail _ (callStep_alloc cfg s ss hd false c0 _ r _ g' B extra (by rw [hc]; omega))
        | dropNow c0 g' =>
          rw [hsb] at hc
          exact tail _ (callStep_alloc cfg s ss hd true c0 _ r _ g' B extra (by rw [hc]; omega))
        | queued jid k g' =>
          rw [hsb] at hc
          simp only [AllocOut, innerT, innerWait, innerFrames, hc]
          omega
      · simp only [hsub, Bool.false_eq_true, ite_false]
        exact tail _ (callStep_alloc cfg s ss hd false ctx none r _ g B extra (by omega))
end

end Yaclib.Pipeline
