/- The C18 model `Sm` with the proposed repairs of D5, D6, D7 switched on (`fixed = true`, the code of
   notes/C18_proposed_patches.diff): the invariant that makes the full theorems true. -/
import YaclibModel.Proofs.FiberSyncShared

namespace Yaclib.FiberSync.Sm
open Yaclib.FiberSync

structure InvF (k : Bool) (s : State) : Prop where
  hk : s.timed = k
  hfx : s.fixed = true
  /-- the flags describe the holders exactly: free / one writer / readers -/
  modes :
    (s.occ = false ∧ s.xh = [] ∧ s.sh = [] ∧ s.cnt = 0) ∨
    (s.occ = true ∧ s.excl = true ∧ s.xh.length = 1 ∧ s.sh = [] ∧ s.cnt = 0) ∨
    (s.occ = true ∧ s.excl = false ∧ s.xh = [] ∧ s.sh.length = s.cnt ∧ 0 < s.cnt)
  d50 : s.d5 = 0
  d60 : s.d6 = 0
  no_old : ∀ g, (s.pc g).oldWoken = false
  /-- notified writers re-evaluate their condition next -/
  transit_pc : ∀ g, g ∈ s.transit → (s.pc g).recheckX = true
  /-- no lost wake-up for writers: a free lock with parked writers has a notified writer on its way -/
  free_transit : s.occ = false → s.eq ≠ [] → s.transit ≠ []
  /-- readers are parked only while a writer holds the lock -/
  sq_held : s.sq ≠ [] → s.occ = true ∧ s.excl = true
  eq_pc : ∀ g, g ∈ s.eq → (s.pc g).onE = true
  pc_eq : ∀ g, (s.pc g).onE = true → g ∈ s.eq
  sq_pc : ∀ g, g ∈ s.sq → (s.pc g).onS = true
  pc_sq : ∀ g, (s.pc g).onS = true → g ∈ s.sq
  dl_tx : ∀ g r d, s.pc g = .txParked r d → r ≤ d
  dl_ts : ∀ g r d, s.pc g = .tsParked r d → r ≤ d
  tx_timed : ∀ g r d, s.pc g = .txParked r d → s.timed = true
  ts_timed : ∀ g r d, s.pc g = .tsParked r d → s.timed = true
  txl_timed : ∀ g r, s.pc g = .txLocking r → s.timed = true
  tsl_timed : ∀ g r, s.pc g = .tsLocking r → s.timed = true

theorem invF_init (k : Bool) (n : Nat) : InvF k (init k true n) := by
  constructor <;> (simp only [init]) <;> grind [Pc.oldWoken, Pc.recheckX, Pc.onE, Pc.onS]

theorem wakeF_onE {p : Pc} (h : p.onE = true) : (wake true p).recheckX = true ∧ (wake true p).onE = false ∧
    (wake true p).onS = false ∧ (wake true p).oldWoken = false := by
  cases p <;> simp_all [Pc.onE, wake, Pc.recheckX, Pc.onS, Pc.oldWoken]
theorem wakeF_onS {p : Pc} (h : p.onS = true) : (wake true p).recheckS = true ∧ (wake true p).onE = false ∧
    (wake true p).onS = false ∧ (wake true p).oldWoken = false ∧ (wake true p).recheckX = false := by
  cases p <;> simp_all [Pc.onE, wake, Pc.recheckS, Pc.onS, Pc.oldWoken, Pc.recheckX]
theorem wakeF_parked {p : Pc} (r d : Nat) : wake true p ≠ .txParked r d ∧ wake true p ≠ .tsParked r d := by
  cases p <;> simp [wake]
theorem wakeF_txLocking {p : Pc} {r : Nat} (h : wake true p = .txLocking r) : (∃ d, p = .txParked r d) ∨ p = .txLocking r := by
  cases p <;> simp_all [wake]
theorem wakeF_tsLocking {p : Pc} {r : Nat} (h : wake true p = .tsLocking r) : (∃ d, p = .tsParked r d) ∨ p = .tsLocking r := by
  cases p <;> simp_all [wake]
theorem onE_facts {p : Pc} (h : p.onE = true) : p.onS = false ∧ p.recheckX = false ∧ p.oldWoken = false := by
  cases p <;> simp_all [Pc.onE, Pc.onS, Pc.recheckX, Pc.oldWoken]
theorem onS_facts {p : Pc} (h : p.onS = true) : p.onE = false ∧ p.recheckX = false ∧ p.oldWoken = false := by
  cases p <;> simp_all [Pc.onE, Pc.onS, Pc.recheckX, Pc.oldWoken]

macro "smf_auto" : tactic =>
  `(tactic| (constructor <;> (try simp only [lockHelper, sharedHelper, sharedHelperX, bumpX, bumpS, notifyE, notifyAllS, doUnlock,
      doUnlockS, doUnlockF, parkE, parkS, XHeld, UnlockPick, UnlockSPick, PickOk] at *) <;>
      grind [upd_apply, mem_rm, rm_ne_nil, Mx.length_erase_mem, length_one_erase, length_zero_nil, List.length_append,
        wakeF_onE, wakeF_onS, wakeF_parked, wakeF_txLocking, wakeF_tsLocking, onE_facts, onS_facts,
        Pc.oldWoken, Pc.recheckX, Pc.onE, Pc.onS]))

def grpF : Label → Nat
  | .xAcq _ => 0 | .xPark _ => 0 | .tryX _ _ => 0
  | .sAcq _ => 1 | .sPark _ => 1 | .tryS _ _ => 1
  | .unlock _ _ _ => 2
  | .unlockS _ _ => 3
  | .txAcq _ => 4 | .txPark _ _ _ _ => 4 | .txTimeout _ _ => 4 | .txRepark _ _ => 4
  | .tsAcq _ => 5 | .tsPark _ _ _ _ => 5 | .tsTimeout _ _ => 5 | .tsRepark _ _ => 5
  | .sleepStart _ _ _ => 5 | .sleepWake _ _ => 5 | .finish _ => 5

end Yaclib.FiberSync.Sm
