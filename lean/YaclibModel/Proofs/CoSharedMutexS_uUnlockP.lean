import YaclibModel.Proofs.CoSharedMutexS_uUnlockP_1
import YaclibModel.Proofs.CoSharedMutexS_uUnlockP_2
namespace Yaclib.CoSharedMutex

theorem inv_uUnlockP {cfg : Cfg} {s : State} (hi : Inv cfg s) (c : Cid) (b : Branch) (h : s.pc c = .uUnl b) (hs : s.spin = .held c) (hb : needsWriter b = false) :
    Inv cfg ((doUUnlock s c b 0 [])) := by
  have hbd : b = .runWriter ∨ (∃ sw, b = .stored sw) ∨ (∃ sr, b = .readersPass sr) ∨ (∃ sr, b = .passOnly sr) := by cases b <;> simp
  rcases hbd with hbr | ⟨sw, hbr⟩ | ⟨sr, hbr⟩ | ⟨sr, hbr⟩
  · rw [hbr] at hb; simp [needsWriter] at hb
  · rw [hbr] at hb; simp [needsWriter] at hb
  · exact inv_uUnlockP_1 hi c b h hs hb sr hbr
  · exact inv_uUnlockP_2 hi c b h hs hb sr hbr

end Yaclib.CoSharedMutex
