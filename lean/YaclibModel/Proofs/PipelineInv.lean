/- The client-level invariant: whatever the client has done so far, the state of `mech` denotes `spec` of the program
   text the client has written so far (`client evs`). -/
import YaclibModel.Proofs.PipelineTop

namespace Yaclib.Pipeline
open Yaclib.Extracted

/-- a program that runs: an eager one, or a lazy one that has been started; Run / Schedule have their head -/
def Runs (p : Prog) : Prop := (p.lazy = true → p.start ≠ none) ∧ ((p.src == Src.unit) = true → p.steps ≠ [])

def Inv (cfg : Cfg) (st : State) (p : Prog) (h : Handle) : Prop :=
  st.crashed = false ∧
  match st.ctl with
  | .idle => False
  | .task src steps =>
    h = .task ∧ p = ⟨src, true, steps, none⟩ ∧ st.g.subs = [] ∧ st.g.invoked = [] ∧ st.held = true ∧ st.ended = false ∧
    ((src == Src.unit) = true → steps ≠ [])
  | .future r inh =>
    h = .fut ∧ st.held = true ∧ st.ended = false ∧ spec cfg p = ⟨r, inh, st.g.subs, st.g.invoked⟩ ∧ st.result = some r ∧
    Runs p
  | .pending t =>
    ((h = .fut ∧ st.held = true ∧ st.ended = false) ∨ (h = .none ∧ st.held = false)) ∧
    spec cfg p = specThread cfg t st.g.subs st.g.invoked ∧ Runs p
  | .gone =>
    h = .none ∧ Runs p ∧ ∃ r inh, st.result = some r ∧ spec cfg p = ⟨r, inh, st.g.subs, st.g.invoked⟩

theorem overrideHead_append (steps : List Step) (s : Step) (ovr : Option Exec) (h : steps ≠ [] ∨ ovr = none) :
    overrideHead (steps ++ [s]) ovr = overrideHead steps ovr ++ [s] := by
  cases ovr with
  | none => cases steps <;> rfl
  | some e =>
    cases steps with
    | nil => cases h with
      | inl h => exact (h rfl).elim
      | inr h => cases h
    | cons a as => cases a; rfl

theorem overrideHead_ne_nil (steps : List Step) (ovr : Option Exec) (h : steps ≠ []) : overrideHead steps ovr ≠ [] := by
  cases ovr with
  | none => cases steps <;> simp_all [overrideHead]
  | some e =>
    cases steps with
    | nil => exact (h rfl).elim
    | cons a as => cases a; simp [overrideHead]

/-- attaching a continuation = one more step of the fold -/
theorem spec_attach (cfg : Cfg) (p : Prog) (s : Step) (hst : Runs p) :
    spec cfg { p with steps := p.steps ++ [s] } =
      specSteps cfg [s] false (spec cfg p).r (spec cfg p).inh (spec cfg p).subs (spec cfg p).invoked := by
  unfold spec
  simp only []
  by_cases hu : (p.src == Src.unit) = true
  · have hne := hst.2 hu
    simp only [hu, ite_true]
    rw [overrideHead_append _ _ _ (Or.inl hne), specSteps_append]
    have : overrideHead p.steps (if p.lazy = true then p.start.bind StartKind.ovr else none) ≠ [] :=
      overrideHead_ne_nil _ _ hne
    cases hov : overrideHead p.steps (if p.lazy = true then p.start.bind StartKind.ovr else none) with
    | nil => exact (this hov).elim
    | cons a as => rfl
  · have hu' : (p.src == Src.unit) = false := by simpa using hu
    simp only [hu', Bool.false_eq_true, ite_false]
    rw [overrideHead_append _ _ _ (Or.inr rfl), specSteps_append_false]

theorem Runs_attach (p : Prog) (s : Step) (h : Runs p) : Runs { p with steps := p.steps ++ [s] } :=
  ⟨h.1, fun _ => by simp⟩

/-! ### a continuation attached behind a suspended pipeline -/

theorem specFrames_attach (cfg : Cfg) (s : Step) : ∀ (fs : List Frame) (o : SOut), fs ≠ [] →
    specFrames cfg (attachFrames fs s) o =
      specSteps cfg [s] false (specFrames cfg fs o).r (specFrames cfg fs o).inh (specFrames cfg fs o).subs
        (specFrames cfg fs o).invoked
  | [], _, h => (h rfl).elim
  | [f], o, _ => by
    simp only [attachFrames, specFrames]
    rw [specSteps_append_false]
  | f :: f' :: fs, o, _ => by
    simp only [attachFrames, specFrames]
    exact specFrames_attach cfg s (f' :: fs) _ (by simp)

theorem specThread_attach (cfg : Cfg) (t : Thread) (s : Step) (subs inv : List Nat) :
    specThread cfg (t.attach s) subs inv =
      specSteps cfg [s] false (specThread cfg t subs inv).r (specThread cfg t subs inv).inh
        (specThread cfg t subs inv).subs (specThread cfg t subs inv).invoked := by
  unfold Thread.attach
  cases ho : t.outer with
  | nil =>
    simp only [specThread, ho, specFrames]
    rw [specSteps_append_false]
  | cons f fs =>
    simp only [specThread, ho]
    rw [specFrames_attach cfg s (f :: fs) _ (by simp)]

end Yaclib.Pipeline
