import YaclibModel.Proofs.CoSharedMutex
namespace Yaclib.CoSharedMutex

set_option maxHeartbeats 4000000 in
theorem inv_twCasFail_2 {cfg : Cfg} {s : State} (hi : Inv cfg s) (c : Cid) (h : s.pc c = .twLoaded) (hne : ¬ (s.W = 0 ∧ s.R = 0)) (ht' : ¬ curOp s c = .tryWr) :
    Inv cfg ((failW s c)) := by
  cases hi
  simp only [failW, ht', ↓reduceIte]
  sm_auto [List.count_le_length]

end Yaclib.CoSharedMutex
