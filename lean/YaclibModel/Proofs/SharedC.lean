/- Conservation of callbacks in the C06 model: every callback object ever created is, at any moment, in exactly one
   place — still in its owner's hands, in the word's list, in the list the fulfiller is walking, in the executor's
   hands, or fired. -/
import YaclibModel.Proofs.Shared
namespace Yaclib.Shared

structure InvC (s : State) : Prop where
  conserve : ∀ c, s.registered.count c =
    (firedIds s).count c + (wordList s.word).count c + (walkList s.fpc).count c + s.inflight.count c + s.jobs.count c
  /-- callback identities are fresh: (owner, sequence number) -/
  fresh : ∀ c ∈ s.registered, c.seq < (s.obs c.owner).seq
  nodup : ∀ c, s.registered.count c ≤ 1
  /-- `inflight` is exactly what the observers hold in their program counters -/
  link1 : ∀ t c, heldCb (s.obs t).pc = some c → c ∈ s.inflight ∧ c.owner = t
  link2 : ∀ c ∈ s.inflight, heldCb (s.obs c.owner).pc = some c
  evt_reg : ∀ t c, (s.obs t).pc = .evt c → c ∈ s.registered

theorem invC_init (w : Workload) : InvC (init w) := by
  constructor <;> simp [init, firedIds, wordList, walkList, heldCb]

theorem count_zero_or_mem (a : Cb) (l : List Cb) : l.count a = 0 ∨ a ∈ l := by
  by_cases h : a ∈ l
  · exact Or.inr h
  · exact Or.inl (List.count_eq_zero.mpr h)

theorem count_pos_of_mem {a : Cb} {l : List Cb} (h : a ∈ l) : 0 < l.count a := List.count_pos_iff.mpr h

grind_pattern count_zero_or_mem => List.count a l
grind_pattern count_pos_of_mem => a ∈ l

macro "invC_auto" : tactic => `(tactic| (constructor <;> sh_unfold' <;>
  grind [= List.count_singleton, = List.count_erase_self, = List.count_erase_of_ne,
    → mem_erase_of_count_le_one,
    = wordList_list, = wordList_result, = walkList_walk, = walkList_start, = walkList_dec,
    = heldCb_att, = heldCb_run, = heldCb_idle, = heldCb_evt, = heldCb_rep, = heldCb_touching, = heldCb_gotRef]))

end Yaclib.Shared
