import YaclibModel.Proofs.WhenWordR
namespace Yaclib.When

set_option maxHeartbeats 4000000 in
theorem invl_step {w s l s'} (hst : w.strat = .anyLF) (hC : InvC w s) (hR : InvR w s) (hi : InvL w s) (hs : Step w s l s') :
    InvL w s' := by
  have hu := Strat.anyLF_facts
  rw [← hst] at hu
  have hword := hC.word
  cases hi
  cases hs with
  | regSet i okb hc hb hr hn =>
      have h1 := consumeStart_cases w.strat (w.inp i)
      have h2 := afterRetire_cases w.strat (w.inp i)
      have h0 := (hC.unreg i).mpr (by omega)
      cases okb <;> invw_auto
  | fire i hc hp =>
      have h1 := consumeStart_cases w.strat (w.inp i)
      have h2 := afterRetire_cases w.strat (w.inp i)
      invw_auto
  | retire i hc hp =>
      have h2 := afterRetire_cases w.strat (w.inp i)
      invw_auto
  | loadFlag i b hc hp hs hb => simp [hst, Strat.usesFlag] at hs
  | xchgFlag i hc hp hs => simp [hst, Strat.usesFlag] at hs
  | setOut i o hc hp => invw_auto
  | load3 i x hc hp hs hx => rw [hst] at hs; cases hs
  | xchg3 i hc hp hs hv => rw [hst] at hs; cases hs
  | cas3 i hc hp hs hv => rw [hst] at hs; cases hs
  | loadLf i d hc hp hs hd => cases d <;> invw_auto
  | xchgLf i hc hp hs hv =>
      have hi' : i < w.n := hC.idx (by rw [hp]; simp)
      have hnd : s.rmwDone i = false := by
        cases h : s.rmwDone i with
        | false => rfl
        | true => have := hR.done_past i h; rw [hp] at this; simp [past] at this
      have hcnt := cnt_updb s.rmwDone i true w.n hi'
      have hclt := cnt_lt_of_false (p := s.rmwDone) hi' hnd
      rw [hnd] at hcnt
      by_cases hf : s.lf % 2 = 0 <;> simp only [doXchgLf, hf] <;> invw_auto
  | fsubLf i hc hp hs hv =>
      have hi' : i < w.n := hC.idx (by rw [hp]; simp)
      have hnd : s.rmwDone i = false := by
        cases h : s.rmwDone i with
        | false => rfl
        | true => have := hR.done_past i h; rw [hp] at this; simp [past] at this
      have hcnt := cnt_updb s.rmwDone i true w.n hi'
      have hclt := cnt_lt_of_false (p := s.rmwDone) hi' hnd
      rw [hnd] at hcnt
      have hw1 := @subWrap_odd s.lf
      have hw2 := @subWrap_even s.lf
      by_cases hf : s.lf = 2 <;> simp only [doFsubLf, hf] <;> invw_auto
  | dec i store hc hp =>
      have h1 := dtorStart_cases w.strat s.pValid
      by_cases hc1 : s.count = 1
      · rcases h1 with h1 | h1 | h1 <;> simp only [doDec, hc1, h1.1, if_true] <;> invw_auto
      · simp only [doDec, hc1, if_false] <;> invw_auto
  | dtorRel i j hc hp =>
      cases hst' : w.strat with
      | allVec b =>
          cases b
          · by_cases hj : j + 1 < w.n <;> simp only [doDtorRel, hst', hj, if_true, if_false] <;> invw_auto
          · by_cases hv : s.pValid = true <;> by_cases hj : j + 1 < w.n <;> cases hok : ok (w.inp j) <;>
              simp only [doDtorRel, hst', hj, hv, hok, if_true, if_false] <;> invw_auto
      | _ => have := (hC.dtorRel i j hp).2.2; simp [hst', Strat.isAllVec] at this
  | dtorSet i o hc hp ho => invw_auto
  | dtorThrow i hc hp ho => invw_auto
  | crash i hc hp => invw_auto

theorem invr_reachable {w s} (h : Reachable w s) : InvR w s := by
  induction h with
  | init => exact invr_init w
  | step hr hs ih => exact invr_step (invc_reachable hr) ih hs

theorem invl_reachable {w s} (hst : w.strat = .anyLF) (hn : 2 * w.n < two64) (hn0 : w.n ≠ 0) (h : Reachable w s) : InvL w s := by
  induction h with
  | init => exact invl_init w hn hn0
  | step hr hs ih => exact invl_step hst (invc_reachable hr) (invr_reachable hr) ih hs

end Yaclib.When
