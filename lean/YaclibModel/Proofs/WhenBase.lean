/- Counting lemmas and small facts used by the invariants of the combinator model (Model/When.lean). -/
import YaclibModel.Model.When

namespace Yaclib.When

/-- number of `i < k` with `p i` -/
def cnt (p : Nat → Bool) : Nat → Nat
  | 0 => 0
  | k + 1 => cnt p k + (if p k then 1 else 0)

theorem cnt_le (p : Nat → Bool) (k : Nat) : cnt p k ≤ k := by
  induction k with
  | zero => simp [cnt]
  | succ k ih => simp only [cnt]; split <;> omega

theorem cnt_congr {p q : Nat → Bool} {k : Nat} (h : ∀ i, i < k → p i = q i) : cnt p k = cnt q k := by
  induction k with
  | zero => rfl
  | succ k ih =>
      simp only [cnt]
      rw [ih (fun i hi => h i (by omega)), h k (by omega)]

theorem cnt_zero {p : Nat → Bool} {k : Nat} (h : cnt p k = 0) : ∀ i, i < k → p i = false := by
  induction k with
  | zero => intro i hi; omega
  | succ k ih =>
      simp only [cnt] at h
      intro i hi
      by_cases hk : i = k
      · subst hk; cases hp : p i <;> simp [hp] at h ⊢
      · exact ih (by omega) i (by omega)

theorem cnt_all_false {p : Nat → Bool} {k : Nat} (h : ∀ i, i < k → p i = false) : cnt p k = 0 := by
  induction k with
  | zero => rfl
  | succ k ih => simp only [cnt]; rw [ih (fun i hi => h i (by omega)), h k (by omega)]; simp

theorem cnt_full {p : Nat → Bool} {k : Nat} (h : cnt p k = k) : ∀ i, i < k → p i = true := by
  induction k with
  | zero => intro i hi; omega
  | succ k ih =>
      simp only [cnt] at h
      have hle := cnt_le p k
      intro i hi
      by_cases hk : i = k
      · subst hk; cases hp : p i <;> simp [hp] at h ⊢; omega
      · have : cnt p k = k := by split at h <;> omega
        exact ih this i (by omega)

/-- changing the predicate at one index below the bound -/
theorem cnt_upd (p : Nat → Bool) (i : Nat) (b : Bool) (k : Nat) (hi : i < k) :
    cnt (fun j => if j = i then b else p j) k + (if p i then 1 else 0) = cnt p k + (if b then 1 else 0) := by
  induction k with
  | zero => omega
  | succ k ih =>
      simp only [cnt]
      by_cases hk : i = k
      · subst hk
        have : cnt (fun j => if j = i then b else p j) i = cnt p i :=
          cnt_congr (fun j hj => by simp [Nat.ne_of_lt hj])
        simp [this]; omega
      · have := ih (by omega)
        have hne : ¬ k = i := fun h => hk h.symm
        simp [hne]; omega

/-- … and at or above the bound -/
theorem cnt_upd_ge (p : Nat → Bool) (i : Nat) (b : Bool) (k : Nat) (hi : k ≤ i) :
    cnt (fun j => if j = i then b else p j) k = cnt p k :=
  cnt_congr (fun j hj => by simp [show j ≠ i by omega])

theorem cnt_one_unique {p : Nat → Bool} {k i j : Nat} (h : cnt p k = 1) (hi : i < k) (hpi : p i = true)
    (hj : j < k) (hne : j ≠ i) : p j = false := by
  have h1 := cnt_upd p i false k hi
  simp [hpi, h] at h1
  have := cnt_zero h1 j hj
  simpa [hne] using this

theorem cnt_pos {p : Nat → Bool} {k i : Nat} (hi : i < k) (hpi : p i = true) : 0 < cnt p k := by
  have h1 := cnt_upd p i false k hi
  simp [hpi] at h1
  omega

theorem cnt_lt_of_false {p : Nat → Bool} {k i : Nat} (hi : i < k) (hpi : p i = false) : cnt p k < k := by
  have h1 := cnt_upd p i true k hi
  rw [hpi] at h1
  have h2 : cnt (fun j => if j = i then true else p j) k = cnt p k + 1 := by simpa using h1
  have := cnt_le (fun j => if j = i then true else p j) k
  omega

/-- number of inputs below `n` whose consumption still holds its combinator reference -/
def cntH (pc : Nat → IPc) (n : Nat) : Nat := cnt (fun j => holding (pc j)) n

theorem upd_apply {α : Type} (f : Nat → α) (i : Nat) (x : α) (j : Nat) : upd f i x j = if j = i then x else f j := rfl

theorem cntH_upd (pc : Nat → IPc) (i : Nat) (x : IPc) (n : Nat) (hi : i < n) :
    cntH (upd pc i x) n + (if holding (pc i) = true then 1 else 0) = cntH pc n + (if holding x = true then 1 else 0) := by
  have := cnt_upd (fun j => holding (pc j)) i (holding x) n hi
  have h2 : cntH (upd pc i x) n = cnt (fun j => if j = i then holding x else holding (pc j)) n := by
    unfold cntH
    apply cnt_congr
    intro j _
    simp only [upd]
    split <;> rfl
  rw [h2]
  unfold cntH
  simpa using this

@[simp] theorem upd_same {α : Type} (f : Nat → α) (i : Nat) (x : α) : upd f i x i = x := by simp [upd]
theorem upd_other {α : Type} (f : Nat → α) (i j : Nat) (x : α) (h : j ≠ i) : upd f i x j = f j := by simp [upd, h]

/-- not yet entered or waiting for its release -/
def beforeRetire : IPc → Bool
  | .unreg => true
  | .pending => true
  | .retire => true
  | .load => false
  | .rmw => false
  | .setOut _ => false
  | .dec _ => false
  | .dtorRel _ => false
  | .dtorSet => false
  | .boom => false
  | .dboom => false
  | .done => false

/-- has work to do on its own -/
def active : IPc → Bool
  | .unreg => false
  | .pending => false
  | .retire => true
  | .load => true
  | .rmw => true
  | .setOut _ => true
  | .dec _ => true
  | .dtorRel _ => true
  | .dtorSet => true
  | .boom => true
  | .dboom => true
  | .done => false

def isSetOut : IPc → Bool
  | .unreg => false
  | .pending => false
  | .retire => false
  | .load => false
  | .rmw => false
  | .setOut _ => true
  | .dec _ => false
  | .dtorRel _ => false
  | .dtorSet => false
  | .boom => false
  | .dboom => false
  | .done => false

theorem done_of_not_holding {p : IPc} (h1 : holding p = false) (h2 : inDtor p = false) : p = .done := by
  cases p <;> simp_all [holding, inDtor]

def Strat.isAllVec : Strat → Bool
  | .allVec _ => true
  | .allTuple _ => false
  | .join _ => false
  | .anyNone => false
  | .anyFF => false
  | .anyLF => false

/-- strategies without any atomic of their own: everything happens in the destructor -/
def Strat.noneKind : Strat → Bool
  | .allVec false | .allTuple false | .join false => true
  | _ => false

/-- WhenAll / Join with FirstFail: only failing inputs touch the flag -/
def Strat.allFF : Strat → Bool
  | .allVec true | .allTuple true | .join true => true
  | _ => false

def Strat.hasWord (st : Strat) : Bool := st.usesFlag || st = .anyFF || st = .anyLF

theorem afterRetire_cases (st : Strat) (r : Res) :
    ((afterRetire st r = .dec false ∨ afterRetire st r = .dec true) ∧ (st.hasWord = true → st.allFF = true ∧ ok r = true)) ∨
    (afterRetire st r = .load ∧ st.hasWord = true ∧ (st.allFF = true → ok r = false)) := by
  cases st with
  | allVec b => cases b <;> simp [afterRetire, Strat.hasWord, Strat.usesFlag, Strat.allFF] <;> split <;> simp_all
  | allTuple b => cases b <;> simp [afterRetire, Strat.hasWord, Strat.usesFlag, Strat.allFF] <;> split <;> simp_all
  | join b => cases b <;> simp [afterRetire, Strat.hasWord, Strat.usesFlag, Strat.allFF] <;> split <;> simp_all
  | anyNone => simp [afterRetire, Strat.hasWord, Strat.usesFlag, Strat.allFF]
  | anyFF => simp [afterRetire, Strat.hasWord, Strat.usesFlag, Strat.allFF]
  | anyLF => simp [afterRetire, Strat.hasWord, Strat.usesFlag, Strat.allFF]

theorem consumeStart_cases (st : Strat) (r : Res) :
    (st.managed = true ∧ consumeStart st r = .retire) ∨ (st.managed = false ∧ consumeStart st r = afterRetire st r) := by
  unfold consumeStart
  cases st.managed <;> simp

theorem lose_cases (st : Strat) : lose st = .dec false := rfl

theorem dtorStart_cases (st : Strat) (pv : Bool) :
    (dtorStart st pv = some (.dtorRel 0) ∧ st.isAllVec = true) ∨
    (dtorStart st pv = some .dtorSet ∧ st.isAllVec = false ∧ (st.noneKind = true ∨ pv = true)) ∨
    (dtorStart st pv = none ∧ st.isAllVec = false ∧ st.noneKind = false ∧ pv = false) := by
  cases st with
  | allVec b => simp [dtorStart, Strat.isAllVec]
  | allTuple b => cases b <;> cases pv <;> simp [dtorStart, Strat.isAllVec, Strat.noneKind]
  | join b => cases b <;> cases pv <;> simp [dtorStart, Strat.isAllVec, Strat.noneKind]
  | anyNone => cases pv <;> simp [dtorStart, Strat.isAllVec, Strat.noneKind]
  | anyFF => cases pv <;> simp [dtorStart, Strat.isAllVec, Strat.noneKind]
  | anyLF => cases pv <;> simp [dtorStart, Strat.isAllVec, Strat.noneKind]

theorem cnt_updb (f : Nat → Bool) (i : Nat) (b : Bool) (n : Nat) (hi : i < n) :
    cnt (upd f i b) n + (if f i = true then 1 else 0) = cnt f n + (if b = true then 1 else 0) := by
  have := cnt_upd f i b n hi
  have h2 : cnt (upd f i b) n = cnt (fun j => if j = i then b else f j) n := cnt_congr (fun j _ => rfl)
  rw [h2]; simpa using this

/-- facts about the strategy classes -/
theorem Strat.usesFlag_cases {st : Strat} (h : st.usesFlag = true) :
    st.hasWord = true ∧ st ≠ .anyFF ∧ st ≠ .anyLF ∧ ((st.allFF = true ∧ st ≠ .anyNone) ∨ (st = .anyNone ∧ st.allFF = false)) := by
  cases st with
  | allVec b => cases b <;> simp_all [Strat.usesFlag, Strat.hasWord, Strat.allFF]
  | allTuple b => cases b <;> simp_all [Strat.usesFlag, Strat.hasWord, Strat.allFF]
  | join b => cases b <;> simp_all [Strat.usesFlag, Strat.hasWord, Strat.allFF]
  | anyNone => simp_all [Strat.usesFlag, Strat.hasWord, Strat.allFF]
  | anyFF => simp_all [Strat.usesFlag]
  | anyLF => simp_all [Strat.usesFlag]

theorem Strat.anyFF_facts : Strat.anyFF.hasWord = true ∧ Strat.anyFF.allFF = false ∧ Strat.anyFF.usesFlag = false ∧
    Strat.anyFF.noneKind = false ∧ Strat.anyFF.managed = true ∧ Strat.anyFF.isAllVec = false := by decide
theorem Strat.anyLF_facts : Strat.anyLF.hasWord = true ∧ Strat.anyLF.allFF = false ∧ Strat.anyLF.usesFlag = false ∧
    Strat.anyLF.noneKind = false ∧ Strat.anyLF.managed = true ∧ Strat.anyLF.isAllVec = false := by decide

theorem Strat.noneKind_cases {st : Strat} (h : st.noneKind = true) :
    st.hasWord = false ∧ st.usesFlag = false ∧ st ≠ .anyFF ∧ st ≠ .anyLF ∧ st.allFF = false := by
  cases st with
  | allVec b => cases b <;> simp_all [Strat.noneKind, Strat.usesFlag, Strat.hasWord, Strat.allFF]
  | allTuple b => cases b <;> simp_all [Strat.noneKind, Strat.usesFlag, Strat.hasWord, Strat.allFF]
  | join b => cases b <;> simp_all [Strat.noneKind, Strat.usesFlag, Strat.hasWord, Strat.allFF]
  | anyNone => simp_all [Strat.noneKind]
  | anyFF => simp_all [Strat.noneKind]
  | anyLF => simp_all [Strat.noneKind]

theorem head?_snoc {α : Type} (l : List α) (a : α) : (l ++ [a]).head? = if l = [] then some a else l.head? := by
  cases l <;> simp

theorem find?_snoc {α : Type} (p : α → Bool) (l : List α) (a : α) :
    (l ++ [a]).find? p = if (l.find? p).isSome then l.find? p else (if p a then some a else none) := by
  rw [List.find?_append]
  cases h : l.find? p <;> simp [List.find?_cons]
  split <;> simp_all

theorem getLast?_snoc {α : Type} (l : List α) (a : α) : (l ++ [a]).getLast? = some a := by simp

theorem mem_snoc {α : Type} (l : List α) (a b : α) : b ∈ l ++ [a] ↔ b ∈ l ∨ b = a := by simp

theorem find?_none_of_empty {α : Type} (p : α → Bool) : ([] : List α).find? p = none := rfl

theorem St3.le_cases {x y : St3} (h : x.le y = true) :
    x = .empty ∨ (x = .error ∧ y ≠ .empty) ∨ (x = .value ∧ y = .value) := by
  cases x <;> cases y <;> simp_all [St3.le]

theorem two64_pos : 0 < two64 := by decide

/-- `fetch_sub(2)` keeps an odd counter odd (the wrap-around after `exchange(1)`: 1 - 2 = 2^64 - 1) … -/
theorem subWrap_odd {x : Nat} (hx : x < two64) (ho : x % 2 = 1) : subWrap x % 2 = 1 ∧ subWrap x < two64 := by
  unfold subWrap two64 at *
  omega

/-- … and is an ordinary subtraction on an even counter that is at least 2 -/
theorem subWrap_even {x : Nat} (hx : x < two64) (h2 : 2 ≤ x) : subWrap x = x - 2 := by
  unfold subWrap two64 at *
  omega

/-- the same statement on the machine type -/
theorem subWrap_eq_bitvec (x : Nat) (_hx : x < two64) : (BitVec.ofNat 64 x - 2#64).toNat = subWrap x := by
  unfold subWrap two64 at *
  simp [BitVec.toNat_sub]
  omega

end Yaclib.When
