/- the multi-coroutine system: a step of coroutine i is that step in its own projection, and an environment step of — or
   invisible to — every other projection (`other_step_is_env`) -/
import YaclibModel.Proofs.CoroMulti2

namespace Yaclib.CoroMulti
open Yaclib.Coro

theorem mentions_of_mem {prog : List Op} {op : Op} {j : Nat} (ho : op ∈ prog) (hj : j ∈ op.cells) : mentions prog j = true := by
  simp only [mentions, List.any_eq_true]
  exact ⟨op, ho, by simpa using hj⟩

theorem mentions_of_todo {w : Workload} {s : State} {op : Op} {rest : List Op} {j : Nat} (ha : InvA w s)
    (ht : s.todo = op :: rest) (hj : j ∈ op.cells) : mentions w.prog j = true := by
  rcases ha.todo_eq with h | h
  · have : op ∈ w.prog.drop s.k := by rw [← h, ht]; simp
    exact mentions_of_mem (List.mem_of_mem_drop this) hj
  · rw [h.2] at ht; cases ht

theorem not_hidden_of_mentions {W : MWorkload} {i j : Nat} (h : mentions (W.co i).prog j = true) : W.hidden i j = false := by
  simp [MWorkload.hidden, h]

theorem curCell_proj (W : MWorkload) (S : MState) (i p : Nat) : curCell (S.cor i) p = curCell (S.proj W i) p := rfl

/-- the cells after a step of coroutine i, seen by coroutine i, are the cells the one-coroutine step produces -/
theorem own_cells {W : MWorkload} {S : MState} {i : Nat} {l : Label} {s' : State}
    (ha : InvA (W.proj i) (S.proj W i)) (hl : isEnvL l = false) (hs : Step (S.proj W i) l s') :
    ∀ j, viewCell W i j (gcellsAfter S i l j) = s'.cells j := by
  by_cases hcl : cellLabel l = false
  · intro j
    rw [gcellsAfter_same S i hcl, step_cells_same hs hcl]; rfl
  · generalize hP : S.proj W i = s at hs ha
    have hcells : ∀ j, s.cells j = viewCell W i j (S.cells j) := by intro j; rw [← hP]; rfl
    have htodo : (S.cor i).todo = s.todo := by rw [← hP]; rfl
    have hexec : (S.cor i).exec = s.exec := by rw [← hP]; rfl
    cases hs with
    | casOk op rest p j l f h ht hj hw hu =>
        have hm : mentions (W.co i).prog j = true :=
          mentions_of_todo ha ht (List.mem_iff_getElem?.mpr ⟨p, hj⟩)
        have hv := not_hidden_of_mentions hm
        have hcur : curCell (S.cor i) p = some j := by simp only [curCell, htodo, ht]; exact hj
        have hwj : s.word j = viewWord (W.gcell j).shared i (S.cells j).word := by
          simp only [State.word, hcells, viewCell_visible hv]
        rw [hw] at hwj
        intro j'
        simp only [gcellsAfter, hcur, doCasOk, regFrom_cells, State.setWord]
        by_cases hjj : j' = j
        · subst hjj
          simp only [gupd_same, upd_same, hcells, viewCell_visible hv, pushCb]
          cases hgw : (S.cells j').word with
          | gresult walk => rw [hgw] at hwj; simp [viewWord] at hwj
          | gopen cbs ext =>
              rw [hgw] at hwj
              simp only [viewWord, Word.open.injEq] at hwj
              simp only [viewWord, mineOf_cons_self, hasOther_cons_self, hwj.1, hwj.2]
        · simp only [gupd_other _ _ _ _ hjj, upd_other _ _ _ _ hjj, hcells]
    | fire op rest j p walk ht hw hp =>
        have hv : W.hidden i j = false := by
          cases hh : W.hidden i j with
          | false => rfl
          | true =>
              have : s.word j = (initCell (W.cellW i j)).word := by simp only [State.word, hcells, viewCell, hh]; rfl
              rw [hw] at this; simp [initCell] at this
        have hwj : s.word j = viewWord (W.gcell j).shared i (S.cells j).word := by
          simp only [State.word, hcells, viewCell_visible hv]
        rw [hw] at hwj
        have hcd : ∀ j', (doFire s op j p walk).cells j' = (s.setWord j (.result (walk.erase p))).cells j' := by
          intro j'; simp only [doFire]; split <;> (try split) <;> rfl
        intro j'
        rw [hcd]
        simp only [gcellsAfter, State.setWord]
        by_cases hjj : j' = j
        · subst hjj
          simp only [gupd_same, upd_same, hcells, viewCell_visible hv, eraseCb]
          cases hgw : (S.cells j').word with
          | gopen cbs ext => rw [hgw] at hwj; simp [viewWord] at hwj
          | gresult gw =>
              rw [hgw] at hwj
              simp only [viewWord, Word.result.injEq] at hwj
              simp only [viewWord, mineOf_erase_self, hwj]
        · simp only [gupd_other _ _ _ _ hjj, upd_other _ _ _ _ hjj, hcells]
    | tstore op rest j h ht hj =>
        have hm : mentions (W.co i).prog j = true :=
          mentions_of_todo ha ht (List.mem_iff_getElem?.mpr ⟨0, hj⟩)
        have hv := not_hidden_of_mentions hm
        have hcur : curCell (S.cor i) 0 = some j := by simp only [curCell, htodo, ht]; exact hj
        intro j'
        simp only [gcellsAfter, hcur, doTstore]
        by_cases hjj : j' = j
        · subst hjj
          simp only [gupd_same, upd_same, viewCell_visible hv, viewWord, hexec]
          simp [mineOf, hasOther]
        · simp only [gupd_other _ _ _ _ hjj, upd_other _ _ _ _ hjj, hcells]
    | pXchg j l f hw hl' => simp [isEnvL] at hl
    | envPush j l f hw hu => simp [isEnvL] at hl
    | envSwap j e hu => simp [isEnvL] at hl
    | _ => simp [cellLabel] at hcl

theorem own_step {W : MWorkload} {S : MState} {i : Nat} {l : Label} {s' : State}
    (ha : InvA (W.proj i) (S.proj W i)) (hl : isEnvL l = false) (hs : Step (S.proj W i) l s') :
    (MState.mk (gcellsAfter S i l) (cupd S.cor i s')).proj W i = s' := by
  apply proj_of_cells' s'.cells
  · simp [cupd]
  · exact own_cells ha hl hs

end Yaclib.CoroMulti
