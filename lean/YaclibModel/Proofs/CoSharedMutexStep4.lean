import YaclibModel.Proofs.CoSharedMutex
namespace Yaclib.CoSharedMutex

set_option maxHeartbeats 4000000 in
theorem inv_step_4 {cfg s l s'} (hi : Inv cfg s) (hs : Step s l s') (hg : grpOf l = 4) : Inv cfg s' := by
  cases hs with
  | runFirst c n h hf =>
      have hby := hi.pc_rRun c h
      obtain ⟨n', hpw⟩ := PW.cases_by hby
      have hn : n' = n := by
        have := hi.pw_first n' (by rw [hpw]; rfl)
        rw [hf] at this; exact (Option.some.inj this).symm
      subst hn
      cases hi
      sm_auto [List.count_le_length]
  | trBegin c w r h ht ho =>
      cases hi
      sm_auto [List.count_le_length]
  | trFail c w r h hw =>
      cases hi
      sm_auto [List.count_le_length]
  | tryFailW c h =>
      cases hi
      sm_auto [List.count_le_length]
  | _ => simp [grpOf] at hg

end Yaclib.CoSharedMutex
