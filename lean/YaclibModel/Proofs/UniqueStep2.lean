import YaclibModel.Proofs.Unique
namespace Yaclib.Unique

set_option maxHeartbeats 4000000 in
theorem inv_step_2 {w s l s'} (hi : Inv w s) (hs : Step s l s') (hg : grpOf l = 2) : Inv w s' := by
  cases hi
  cases hs with
  | cGetc b h => inv_auto
  | cWaitLock h hm => inv_auto
  | cWaitSleep h => inv_auto
  | cGot r h hr => inv_auto
  | cWaitDone h => cases hwf : s.waitFin <;> simp only [doCWaitDone, hwf, Bool.false_eq_true, ↓reduceIte] <;> inv_auto
  | _ => simp [grpOf] at hg

end Yaclib.Unique
