import YaclibModel.Proofs.CoSharedMutex
namespace Yaclib.CoSharedMutex

set_option maxHeartbeats 4000000 in
theorem inv_rdUnlock_3 {cfg : Cfg} {s : State} (hi : Inv cfg s) (c : Cid) (h : s.pc c = .rLocked) (hs : s.spin = .held c) (hp : ¬ s.pass = 0) :
    Inv cfg ((doRdUnlock s c)) := by
  have hpb := pendBy_none_of_held hi hs (by rw [h]; rfl)
  have hpd := hi.pend_none hpb
  have hc1 : s.ifl.count c = 1 := by have := hi.l_ifl c; rw [h] at this; simpa [Pc.isIFL] using this
  have hl := len_pos_of_count hc1
  have hWne : s.pass = 0 → s.W ≠ 0 := by
    intro hp0 hW0; have := (hi.j1 hW0).1; omega
  cases hi
  simp only [doRdUnlock, hp, ne_eq, not_false_eq_true, ↓reduceIte]
  sm_auto [List.count_le_length]

end Yaclib.CoSharedMutex
