/- The invariant along every list of client events, from the initial state. -/
import YaclibModel.Proofs.PipelineStep

namespace Yaclib.Pipeline
open Yaclib.Extracted

theorem run_cons (cfg : Cfg) (st : State) (ev : Event) (evs : List Event) :
    run cfg st (ev :: evs) = run cfg (mech cfg st ev) evs := rfl

theorem inv_fold (cfg : Cfg) : ∀ (evs : List Event) (st : State) (p : Prog) (h : Handle), Inv cfg st p h →
    Inv cfg (run cfg st evs) (evs.foldl clientEv (p, h)).1 (evs.foldl clientEv (p, h)).2
  | [], st, p, h, hinv => hinv
  | ev :: evs, st, p, h, hinv => by
    rw [run_cons]
    simp only [List.foldl_cons]
    exact inv_fold cfg evs (mech cfg st ev) (clientEv (p, h) ev).1 (clientEv (p, h) ev).2 (inv_step cfg st p h ev hinv)

/-- the empty state ignores everything but a well-formed source -/
theorem mech_idle (cfg : Cfg) (ev : Event)
    (h : ∀ s lazy head, ev = .src s lazy head → ((s == Src.unit) != head.isSome) = true) :
    mech cfg {} ev = {} := by
  cases ev with
  | src s lazy head =>
    have := h s lazy head rfl
    simp [mech, this]
  | attach s => rfl
  | set p => rfl
  | call k => rfl
  | start k => rfl
  | dropFuture => rfl
  | get => rfl

/-- the first well-formed source establishes the invariant -/
theorem inv_src (cfg : Cfg) (s : Src) (lazy : Bool) (head : Option Step)
    (hwf : ((s == Src.unit) != head.isSome) = false) :
    Inv cfg (mech cfg {} (.src s lazy head)) ⟨s, lazy, head.toList, none⟩ (if lazy then .task else .fut) := by
  have hunit : (s == Src.unit) = head.isSome := by
    cases h1 : (s == Src.unit) <;> cases h2 : head.isSome <;> simp_all
  have hne : (s == Src.unit) = true → head.toList ≠ [] := by
    intro h; rw [hunit] at h; cases head <;> simp_all
  simp only [mech, Bool.false_eq_true, ite_false, hwf]
  cases lazy with
  | true =>
    refine ⟨rfl, ?_⟩
    exact ⟨rfl, rfl, rfl, rfl, rfl, rfl, hne⟩
  | false =>
    simp only [Bool.false_eq_true, ite_false]
    have hsp := startSrc_spec cfg s none
      ((G.allocCore {} (srcCores s + head.toList.length)).allocFunctor (srcFunctors s + head.toList.length))
    refine inv_started cfg _ _ _ false _ _ _ rfl (Or.inl ⟨rfl, rfl, rfl⟩) ⟨by simp, hne⟩ ?_ ?_ ?_
    · intro r inh c g' hgo
      rw [hgo] at hsp
      obtain ⟨e1, e2⟩ := hsp
      simp only [allocFunctor_subs, allocCore_subs, allocFunctor_invoked, allocCore_invoked] at e1 e2
      have e1' : specSrc cfg s none false [] = (r, inh, g'.subs) := e1
      have e2' : g'.invoked = [] := e2
      simp only [spec, Bool.false_eq_true, ite_false, e1', e2']
      cases hu : (s == Src.unit) <;> simp [overrideHead]
    · intro w inh g' hw
      rw [hw] at hsp
      obtain ⟨a1, a2, a3, a5⟩ := hsp
      simp only [allocFunctor_subs, allocCore_subs, allocFunctor_invoked, allocCore_invoked] at a1 a2 a3
      have a2' : (specSrc cfg s none false []).2 = (inh, g'.subs) := a2
      have a3' : g'.invoked = [] := a3
      have a1' : ∀ inv, specFire cfg w inh g'.subs inv = ⟨(specSrc cfg s none false []).1, inh, g'.subs, inv⟩ := a1
      have b1 : (specSrc cfg s none false []).2.1 = inh := by rw [a2']
      have b2 : (specSrc cfg s none false []).2.2 = g'.subs := by rw [a2']
      simp only [spec, Bool.false_eq_true, ite_false, specThread, specFrames, a1', a5, a3', b1, b2]
      simp [overrideHead]
    · intro g' hg; rw [hg] at hsp; exact hsp

/-- **the invariant holds after every list of client events** -/
theorem inv_run (cfg : Cfg) : ∀ (evs : List Event),
    match client evs with
    | none => run cfg {} evs = {}
    | some (p, h) => Inv cfg (run cfg {} evs) p h
  | [] => rfl
  | ev :: evs => by
    rw [run_cons]
    cases ev with
    | src s lazy head =>
      simp only [client]
      cases hwf : ((s == Src.unit) != head.isSome)
      · simp only [Bool.false_eq_true, ite_false]
        exact inv_fold cfg evs _ _ _ (inv_src cfg s lazy head hwf)
      · simp only [ite_true]
        rw [mech_idle cfg _ (fun s' l' h' he => by cases he; exact hwf)]
        exact inv_run cfg evs
    | attach s => rw [mech_idle cfg _ (fun _ _ _ he => by cases he)]; exact inv_run cfg evs
    | set p => rw [mech_idle cfg _ (fun _ _ _ he => by cases he)]; exact inv_run cfg evs
    | call k => rw [mech_idle cfg _ (fun _ _ _ he => by cases he)]; exact inv_run cfg evs
    | start k => rw [mech_idle cfg _ (fun _ _ _ he => by cases he)]; exact inv_run cfg evs
    | dropFuture => rw [mech_idle cfg _ (fun _ _ _ he => by cases he)]; exact inv_run cfg evs
    | get => rw [mech_idle cfg _ (fun _ _ _ he => by cases he)]; exact inv_run cfg evs

/-- **no reachable state is a crash** (with the extracted tables of the fixed tree; cf. defect D10) -/
theorem run_not_crashed (cfg : Cfg) (evs : List Event) : (run cfg {} evs).crashed = false := by
  have h := inv_run cfg evs
  cases hc : client evs with
  | none => rw [hc] at h; rw [h]
  | some ph => obtain ⟨p, hd⟩ := ph; rw [hc] at h; exact h.1

end Yaclib.Pipeline
