import YaclibModel.Proofs.CoMutex
namespace Yaclib.CoMutex

set_option maxHeartbeats 1000000 in
theorem inv_step_1 {cfg s l s'} (hi : Inv cfg s) (hs : Step s l s') (hg : grpOf l = 1) : Inv cfg s' := by
  cases hi
  cases hs with
  | alCasLock c h hw => inv_auto
  | alCasPush c hd l h hw hh => inv_auto [List.reverse_cons, List.append_assoc]
  | alCasFail c e h => inv_auto
  | _ => simp [grpOf] at hg

end Yaclib.CoMutex
