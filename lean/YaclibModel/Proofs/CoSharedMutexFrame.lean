/- C15 over an executor (1): a coroutine that owns a lock (granted and runnable, or inside its section) keeps its program
   counter under every step but its own `enter` / `exit`; what the `Run` steps do to their target. -/
import YaclibModel.Proofs.CoSharedMutexInv

namespace Yaclib.CoSharedMutex

/-- owns a shared or the exclusive lock: granted and runnable, or inside the section -/
def Owns (p : Pc) : Prop := p = .racq ∨ p = .rcs ∨ p = .wacq ∨ p = .wcs

macro "fr_auto" : tactic =>
  `(tactic| (left; simp only [Owns, done, doRdFadd, lockedPc, doSpinOk, doRdUnlock, doEnter, doRdFsub, doRwFsub, doRunWriter,
      doRunFirst, doTryFail, doTrCasOk, failW, doTwLoad, doTwCasOk, doWrFadd, doWrPost, doWUnlock, doWuCasOk, doWuFsub,
      doRwStore, releaseReaders, doUUnlock, doRunR] at *; (repeat' split) <;> (try simp only [upd] at *) <;> grind))

set_option maxHeartbeats 1000000 in
theorem pc_frame {cfg : Cfg} {m : State} {l : Label} {m' : State} (hi : Inv cfg m) (hs : Step m l m') (n : Cid)
    (hn : Owns (m.pc n)) : m'.pc n = m.pc n ∨ l = .enter n ∨ l = .exit n := by
  cases hs with
  | rdFadd c h ht ho => fr_auto
  | spinOk c k h hf => cases k <;> fr_auto
  | spinBusy c k h hf => fr_auto
  | spinLoad c k sawFree h => fr_auto
  | rdUnlock c h hs => fr_auto
  | enterR c h =>
      by_cases hc : n = c
      · subst hc; right; left; rfl
      · left; simp only [doEnter, upd, hc, ↓reduceIte]
  | enterW c h =>
      by_cases hc : n = c
      · subst hc; right; left; rfl
      · left; simp only [doEnter, upd, hc, ↓reduceIte]
  | exitR c h =>
      by_cases hc : n = c
      · subst hc; right; right; rfl
      · left; simp only [upd, hc, ↓reduceIte]
  | exitW c h =>
      by_cases hc : n = c
      · subst hc; right; right; rfl
      · left; simp only [upd, hc, ↓reduceIte]
  | rdFsub c h => fr_auto
  | rwFsub c h => fr_auto
  | runFirst c g h hf =>
      obtain ⟨g', hpw⟩ := PW.cases_by (hi.pc_rRun c h)
      have hg : g' = g := by
        have := hi.pw_first g' (by rw [hpw]; rfl)
        rw [hf] at this; exact (Option.some.inj this).symm
      subst hg
      have hpg := (hi.pw_c g' c hpw).1
      fr_auto
  | trBegin c w r h ht ho => fr_auto
  | trFail c w r h hw => fr_auto
  | trCasOk c r h hW hR => fr_auto
  | trCasFail c r h => fr_auto
  | twLoad c sawZero h ht ho => cases sawZero <;> fr_auto
  | twCasOk c h hW hR => fr_auto
  | twCasFail c h hne => fr_auto
  | tryFailW c h => fr_auto
  | wrFadd c h hs => fr_auto
  | wrPost c r h hs => fr_auto
  | wUnlock c k h hs => cases k <;> fr_auto
  | tailUnlock c hs => left; rfl
  | wuCasOk c h hW hR => fr_auto
  | wuCasFail c h hne => fr_auto
  | wuFsub c h hs => left; simp only [doWuFsub, upd]; cases branchOf m <;> (simp only [Owns] at hn; grind)
  | rwStore c sw h hs => fr_auto
  | uUnlockW c b g rest h hs hb hq =>
      have ⟨hg, _⟩ := head_pc_wq hi hq
      have hmem : ∀ x, x ∈ m.Q ↔ m.pc x = .rparked := fun x => mem_iff_of_count (hi.l_q x)
      cases b with
      | runWriter => fr_auto
      | stored sw => fr_auto
      | readersPass sr => simp [needsWriter] at hb
      | passOnly sr => simp [needsWriter] at hb
  | uUnlockP c b h hs hb =>
      have hmem : ∀ x, x ∈ m.Q ↔ m.pc x = .rparked := fun x => mem_iff_of_count (hi.l_q x)
      cases b with
      | runWriter => simp [needsWriter] at hb
      | stored sw => simp [needsWriter] at hb
      | readersPass sr => fr_auto
      | passOnly sr => fr_auto
  | runW c g h =>
      have hg := (hi.l_wrun_t c g h).2
      fr_auto
  | runR c g rest h ht =>
      have ⟨hg, _⟩ := head_pc_torun hi ht
      fr_auto

/-- the coroutine a `Run` (Submit) step hands a lock to -/
def grantOf : Label → Option Cid
  | .runFirst _ n => some n
  | .runW _ n => some n
  | .runR _ n => some n
  | _ => none

theorem grant_target {cfg : Cfg} {m : State} {l : Label} {n : Cid} {m' : State} (hi : Inv cfg m) (hs : Step m l m')
    (hg : grantOf l = some n) : ¬ Owns (m.pc n) ∧ (m'.pc n = .racq ∨ m'.pc n = .wacq) := by
  cases hs with
  | runFirst c g h hf =>
      simp only [grantOf, Option.some.injEq] at hg; subst hg
      obtain ⟨g', hpw⟩ := PW.cases_by (hi.pc_rRun c h)
      have hgg : g' = g := by
        have := hi.pw_first g' (by rw [hpw]; rfl)
        rw [hf] at this; exact (Option.some.inj this).symm
      subst hgg
      have hpg := (hi.pw_c g' c hpw).1
      exact ⟨by simp [Owns, hpg], Or.inr (by simp [doRunFirst, upd])⟩
  | runW c g h =>
      simp only [grantOf, Option.some.injEq] at hg; subst hg
      have hpg := (hi.l_wrun_t c g h).2
      exact ⟨by simp [Owns, hpg], Or.inr (by simp [doRunWriter, upd])⟩
  | runR c g rest h ht =>
      simp only [grantOf, Option.some.injEq] at hg; subst hg
      have ⟨hpg, _⟩ := head_pc_torun hi ht
      refine ⟨by simp [Owns, hpg], Or.inl ?_⟩
      have hcg : g ≠ c := by intro he; subst he; rw [h] at hpg; cases hpg
      by_cases hr : rest = [] <;> simp [doRunR, hr, done, upd, hcg]
  | _ => simp [grantOf] at hg

theorem enter_effect {m : State} {n : Cid} {m' : State} (hs : Step m (.enter n) m') :
    (m.pc n = .racq ∧ m'.pc n = .rcs) ∨ (m.pc n = .wacq ∧ m'.pc n = .wcs) := by
  cases hs with
  | enterR _ h => exact Or.inl ⟨h, by simp [doEnter, upd]⟩
  | enterW _ h => exact Or.inr ⟨h, by simp [doEnter, upd]⟩

theorem exit_pre {m : State} {n : Cid} {m' : State} (hs : Step m (.exit n) m') : m.pc n = .rcs ∨ m.pc n = .wcs := by
  cases hs with
  | exitR _ h => exact Or.inl h
  | exitW _ h => exact Or.inr h

end Yaclib.CoSharedMutex
