/- WhenS: what the combinator's own steps on a Shared instance do (observer 0 inside SetCallbackImpl<true>, callback pushed,
   callback entered inline, callback entered by the fulfiller's walk). -/
import YaclibModel.Proofs.WhenComposeShared

namespace Yaclib.WhenS
open Yaclib Yaclib.Shared

variable {ws : Shared.Workload} {s s' : Shared.State}

theorem pcOk_att (c : Cb) (e : List Cb) : pcOk (.att c e) = decide (c = cb0) := rfl
theorem pcOk_run (c : Cb) (st : FSt) : pcOk (.run c st) = decide (c = cb0 ∧ st = .begin) := rfl
theorem pcOk_idle : pcOk .idle = true := rfl

macro "o0_auto" : tactic =>
  `(tactic| ((try simp only [inLists] at *) <;> (try sh_unfold') <;>
      (try simp only [pcOk_att, pcOk_run, pcOk_idle, decide_eq_true_eq] at *) <;>
      grind [cb0_kind, cb0_owner, cb0_eq, opKind, = List.count_singleton, = wordList_list, = wordList_result,
        = walkList_walk, = walkList_start, = walkList_dec, = heldCb_att, = heldCb_run, List.mem_of_mem_erase]))

set_option maxHeartbeats 4000000 in
/-- observer 0 inside `SetCallbackImpl<true>` (load, failed / spurious CAS): it keeps holding `cb0`, nothing is installed or entered -/
theorem reg_frame {l : Shared.Label} (hO : O0 s) (hs : Shared.Step s l s') (hl : isRegInternal l = true) :
    O0 s' ∧ (inLists s' → inLists s) ∧ (firedIds s').count cb0 = (firedIds s).count cb0 ∧
    (s'.obs 0).todo = (s.obs 0).todo := by
  obtain ⟨h1, h2⟩ := hO
  cases hs with
  | oLoad t op rest k x h ht hk hr hx =>
      simp only [isRegInternal, decide_eq_true_eq] at hl
      subst hl
      have hop : op = .attach .retire ∧ k = .retire ∧ (s.obs 0).seq = 0 := by
        rcases h1 with h1 | h1
        · rw [h1.1] at ht; cases ht; simp [opKind] at hk; exact ⟨rfl, hk.symm, h1.2.2 h⟩
        · rw [h1.1] at ht; cases ht
      obtain ⟨rfl, rfl, hseq⟩ := hop
      have hcb : (⟨0, (s.obs 0).seq, .retire⟩ : Cb) = cb0 := by rw [hseq]; rfl
      cases x with
      | list l => refine ⟨⟨?_, ?_⟩, ?_, ?_, ?_⟩ <;> o0_auto
      | result =>
          simp only [doLoad, reload, failPath, reduceCtorEq, ↓reduceIte]
          refine ⟨⟨?_, ?_⟩, ?_, ?_, ?_⟩ <;> o0_auto
  | oCasFail t c e x h hw hx =>
      simp only [isRegInternal, decide_eq_true_eq] at hl
      subst hl
      have hc : c = cb0 := by
        rcases h1 with h1 | h1
        · have := h1.2.1; rw [h] at this; simpa [pcOk] using this
        · rw [h1.2] at h; cases h
      subst hc
      cases x with
      | list l => refine ⟨⟨?_, ?_⟩, ?_, ?_, ?_⟩ <;> o0_auto
      | result =>
          simp only [reload, failPath, cb0_kind, reduceCtorEq, ↓reduceIte]
          refine ⟨⟨?_, ?_⟩, ?_, ?_, ?_⟩ <;> o0_auto
  | oCasSpur t c e x h hw hx =>
      simp only [isRegInternal, decide_eq_true_eq] at hl
      subst hl
      have hc : c = cb0 := by
        rcases h1 with h1 | h1
        · have := h1.2.1; rw [h] at this; simpa [pcOk] using this
        · rw [h1.2] at h; cases h
      subst hc
      cases x with
      | list l => refine ⟨⟨?_, ?_⟩, ?_, ?_, ?_⟩ <;> o0_auto
      | result =>
          simp only [reload, failPath, cb0_kind, reduceCtorEq, ↓reduceIte]
          refine ⟨⟨?_, ?_⟩, ?_, ?_, ?_⟩ <;> o0_auto
  | _ => simp [isRegInternal] at hl

/-- `oCasOk 0`: the callback is pushed; `SetCallback` returns true -/
theorem casOk_frame (hO : O0 s) (hs : Shared.Step s (.oCasOk 0) s') :
    O0 s' ∧ (firedIds s').count cb0 = (firedIds s).count cb0 ∧ (s'.obs 0).todo = [] ∧ (s.obs 0).todo ≠ [] := by
  obtain ⟨h1, h2⟩ := hO
  cases hs with
  | oCasOk _ c e h hw =>
      have hc : c = cb0 := by
        rcases h1 with h1 | h1
        · have := h1.2.1; rw [h] at this; simpa [pcOk] using this
        · rw [h1.2] at h; cases h
      subst hc
      simp only [doCasOk, cb0_kind, reduceCtorEq, ↓reduceIte]
      refine ⟨⟨?_, ?_⟩, ?_, ?_, ?_⟩ <;> o0_auto

set_option maxHeartbeats 4000000 in
/-- `oEnter 0 cb0`: the registrar found the result and enters its callback itself: first entry, nothing stays installed -/
theorem enterC_frame (hI : Shared.Inv ws s) (hO : O0 s) (hs : Shared.Step s (.oEnter 0 cb0) s') :
    O0 s' ∧ ¬ inLists s' ∧ (firedIds s').count cb0 = (firedIds s).count cb0 + 1 ∧ (firedIds s).count cb0 = 0 ∧
    (s'.obs 0).todo = [] ∧ (s.obs 0).todo ≠ [] ∧ s.fpc ≠ .start := by
  obtain ⟨h1, h2⟩ := hO
  have hcons := hI.c.conserve cb0
  have hnd := hI.c.nodup cb0
  have hl1 := hI.c.link1 0 cb0
  have hrs := hI.a.run_shape 0 cb0 .begin
  cases hs with
  | oEnter _ _ h hk =>
      have hinf : 0 < s.inflight.count cb0 := List.count_pos_iff.mpr (hl1 (by rw [h]; rfl)).1
      have hw0 : (wordList s.word).count cb0 = 0 := by omega
      have hk0 : (walkList s.fpc).count cb0 = 0 := by omega
      have hf0 : (firedIds s).count cb0 = 0 := by omega
      have hw1 : cb0 ∉ wordList s.word := List.count_eq_zero.mp hw0
      have hk1 : cb0 ∉ walkList s.fpc := List.count_eq_zero.mp hk0
      refine ⟨⟨?_, ?_⟩, ?_, ?_, hf0, ?_, ?_, (hrs h).1⟩ <;> o0_auto

set_option maxHeartbeats 4000000 in
/-- `fEnter cb0`: the fulfiller's walk enters the callback: it was installed, first entry, nothing stays installed -/
theorem enterP_frame (hI : Shared.Inv ws s) (hO : O0 s) (hs : Shared.Step s (.fEnter cb0) s') :
    O0 s' ∧ inLists s ∧ ¬ inLists s' ∧ (firedIds s').count cb0 = (firedIds s).count cb0 + 1 ∧
    (firedIds s).count cb0 = 0 ∧ s'.obs 0 = s.obs 0 ∧ s.stored = some ws.prod.res := by
  obtain ⟨h1, h2⟩ := hO
  have hcons := hI.c.conserve cb0
  have hnd := hI.c.nodup cb0
  have hwi := hI.a.word_iff
  have hst := hI.a.stored_eq
  cases hs with
  | fEnter _ rest d h hk hf =>
      have hwalk : (walkList s.fpc).count cb0 = 1 + rest.count cb0 := by rw [h]; simp [List.count_cons]; omega
      have hr0 : rest.count cb0 = 0 := by omega
      have hw0 : (wordList s.word).count cb0 = 0 := by omega
      have hf0 : (firedIds s).count cb0 = 0 := by omega
      have hr1 : cb0 ∉ rest := List.count_eq_zero.mp hr0
      have hw1 : cb0 ∉ wordList s.word := List.count_eq_zero.mp hw0
      have hstored : s.stored = some ws.prod.res := by rw [hst, h]; simp
      refine ⟨⟨?_, ?_⟩, ?_, ?_, ?_, hf0, ?_, hstored⟩ <;> o0_auto

end Yaclib.WhenS
