/- C18: projections of the model states to the fields of the C++ objects, for the golden extraction of the code with the
   proposed repairs applied (Extracted/FiberSyncRepaired.lean).  The bridge theorems are in Props/C18.lean
   (namespace `Yaclib.Props.C18.BridgeRepaired`). -/
import YaclibModel.Extracted.FiberSyncRepaired
import YaclibModel.Model.FiberSync
import YaclibModel.Model.FiberSyncRec
import YaclibModel.Model.FiberSyncShared

namespace Yaclib.FiberSync
open Yaclib.Extracted.FiberSyncRepaired

namespace Mx
def coreR (s : State) : Mutex := ⟨s.occupied⟩
@[simp] theorem coreR_notifyM (s : State) (w : Option Fid) : coreR (notifyM s w) = coreR s := by cases w <;> rfl
end Mx

namespace Rm
def coreR (s : State) : RecursiveMutex := ⟨s.owner, s.count⟩
@[simp] theorem coreR_notifyR (s : State) (w : Option Fid) : coreR (notifyR s w) = coreR s := by cases w <;> rfl
end Rm

namespace Sm
def coreR (s : State) : SharedMutex := ⟨s.cnt, s.occ, s.excl⟩
@[simp] theorem coreR_notifyE (s : State) (w : Option Fid) : coreR (notifyE s w) = coreR s := by cases w <;> rfl
@[simp] theorem coreR_notifyAllS (b : Bool) (s : State) : coreR (notifyAllS b s) = coreR s := rfl
end Sm

end Yaclib.FiberSync
