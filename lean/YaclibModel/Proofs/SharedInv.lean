/- The four invariants of the C06 model hold in every reachable state. -/
import YaclibModel.Proofs.SharedInv0
import YaclibModel.Proofs.SharedA0
import YaclibModel.Proofs.SharedA1
import YaclibModel.Proofs.SharedA2
import YaclibModel.Proofs.SharedA3
import YaclibModel.Proofs.SharedA4
import YaclibModel.Proofs.SharedA5
import YaclibModel.Proofs.SharedC0
import YaclibModel.Proofs.SharedC1
import YaclibModel.Proofs.SharedC2
import YaclibModel.Proofs.SharedC3
import YaclibModel.Proofs.SharedC4
import YaclibModel.Proofs.SharedC5
import YaclibModel.Proofs.SharedR0
import YaclibModel.Proofs.SharedR1
import YaclibModel.Proofs.SharedR2
import YaclibModel.Proofs.SharedR3
import YaclibModel.Proofs.SharedR4
import YaclibModel.Proofs.SharedR5
namespace Yaclib.Shared

theorem invA_step {w s l s'} (hi : InvA w s) (hs : Step s l s') : InvA w s' := by
  rcases grpOf_lt l with h | h | h | h | h | h
  · exact invA_step_0 hi hs h
  · exact invA_step_1 hi hs h
  · exact invA_step_2 hi hs h
  · exact invA_step_3 hi hs h
  · exact invA_step_4 hi hs h
  · exact invA_step_5 hi hs h

theorem invC_step {w s l s'} (ha : InvA w s) (hi : InvC s) (hs : Step s l s') : InvC s' := by
  rcases grpOf_lt l with h | h | h | h | h | h
  · exact invC_step_0 ha hi hs h
  · exact invC_step_1 ha hi hs h
  · exact invC_step_2 ha hi hs h
  · exact invC_step_3 ha hi hs h
  · exact invC_step_4 ha hi hs h
  · exact invC_step_5 ha hi hs h

theorem invR_step {w s l s'} (h0 : Inv0 s) (ha : InvA w s) (hi : InvR s) (hs : Step s l s') : InvR s' := by
  rcases grpOf_lt l with h | h | h | h | h | h
  · exact invR_step_0 h0 ha hi hs h
  · exact invR_step_1 h0 ha hi hs h
  · exact invR_step_2 h0 ha hi hs h
  · exact invR_step_3 h0 ha hi hs h
  · exact invR_step_4 h0 ha hi hs h
  · exact invR_step_5 h0 ha hi hs h

structure Inv (w : Workload) (s : State) : Prop where
  a : InvA w s
  z : Inv0 s
  c : InvC s
  r : InvR s

theorem inv_init (w : Workload) : Inv w (init w) := ⟨invA_init w, inv0_init w, invC_init w, invR_init w⟩

theorem inv_step {w s l s'} (hi : Inv w s) (hs : Step s l s') : Inv w s' :=
  ⟨invA_step hi.a hs, inv0_step hi.z hs, invC_step hi.a hi.c hs, invR_step hi.z hi.a hi.r hs⟩

theorem inv_reachable {w s} (h : Reachable w s) : Inv w s := by
  induction h with
  | init => exact inv_init w
  | step _ hs ih => exact inv_step ih hs

end Yaclib.Shared
