/- preservation of the counter invariant InvC: the steps that touch the counter or the status list -/
import YaclibModel.Proofs.CoroC
import YaclibModel.Proofs.CoroB4
namespace Yaclib.Coro

theorem count_replicate_todo (n : Nat) (x : CbSt) (h : x ≠ .todo) : (List.replicate n CbSt.todo).count x = 0 := by
  apply List.count_eq_zero_of_not_mem
  intro hm; exact h (List.eq_of_mem_replicate hm)

theorem regKind_counted_single {k : AKind} (h : regKind k = true) (hm : isMulti k = false) (hc : counted k = true) :
    selfDone k ≠ .susp ∧ decided (selfDone k) = true := by
  cases k <;> simp_all [regKind, isMulti, counted, selfDone, decided]

set_option maxHeartbeats 16000000 in
theorem invC_step_start {w s l s'} (ha : InvA w s) (hc : InvC w s) (hs : Step s l s') (hl : l = .start) : InvC w s' := by
  cases hs with
  | start op rest h ht =>
      have h1 := count_replicate_todo op.cells.length .fired (by simp)
      have h2 := count_replicate_todo op.cells.length .pending (by simp)
      cases hk : op.kind <;> (try (rename_i o; cases o)) <;>
        (simp only [doStart, regFrom, afterReg, hk, isMulti, startExec, startCnt, selfDone]) <;>
        (repeat' split) <;>
        (constructor <;> grind [inOp, decided, regPos, isMulti, counted, List.length_replicate])
  | _ => cases hl

/-- the counter facts survive a SetCallback outcome: the status of position p goes from `todo` to `x` (pending / failed) -/
theorem invC_regFrom {w : Workload} {s : State} {op : Op} {rest : List Op} {p : Nat} {x : CbSt} (cells' : Nat → Cell)
    (ha : InvA w s) (hb : InvB w s) (hc : InvC w s) (ht : s.todo = op :: rest) (hp : regPos s.pc = some p)
    (hx : x = .pending ∨ x = .failed) :
    InvC w (regFrom { s with st := s.st.set p x, cells := cells' } op (p + 1)) := by
  obtain ⟨hst, hpl, hin⟩ := st_at_reg ha hb ht hp
  have hpk := ha.pc_kind op rest ht
  have hrk : regKind op.kind = true := by
    cases hpc : s.pc <;> simp_all [regPos, pcKindOk]
  have hnd : decided s.pc = false := by cases hpc : s.pc <;> simp_all [regPos, decided]
  have hfired := count_set_of_getElem? (l := s.st) (p := p) (x := .todo) (a := x) (b := .fired) hst
  have hfired' : (s.st.set p x).count .fired = s.st.count .fired := by
    rcases hx with h | h <;> subst h <;> simp at hfired <;> exact hfired
  have hreg := hc.multi_reg op rest ht
  have hon := hc.on_cnt op rest ht
  simp only [regFrom, afterReg]
  split
  · constructor <;> grind [inOp, decided, regPos]
  · split
    · constructor <;> grind [inOp, decided, regPos]
    · rename_i hm
      have hm' : isMulti op.kind = false := by simpa using hm
      split
      · constructor <;> grind [inOp, decided, regPos]
      · constructor <;> grind [inOp, decided, regPos, selfDone_decided, selfDone_regPos, selfDone_ne_susp]

set_option maxHeartbeats 16000000 in
theorem invC_step_reg {w s l s'} (ha : InvA w s) (hb : InvB w s) (hc : InvC w s) (hs : Step s l s')
    (hl : match l with | .regLoad _ _ | .cas _ _ => True | _ => False) : InvC w s' := by
  cases hs with
  | regLoad op rest p j x h ht hj hx =>
      simp only [doRegLoad]
      split
      · cases hc; constructor <;> grind [inOp, decided, regPos]
      · exact invC_regFrom s.cells ha hb hc ht (by rw [h]; rfl) (Or.inr rfl)
  | casOk op rest p j l f h ht hj hw hu =>
      exact invC_regFrom (s := s) (x := .pending) (s.setWord j (.open (p :: l) f)).cells ha hb hc ht (by rw [h]; rfl) (Or.inl rfl)
  | casRetry op rest p j h ht hj hw hu => exact hc
  | casFail op rest p j h ht hj hw => exact invC_regFrom s.cells ha hb hc ht (by rw [h]; rfl) (Or.inr rfl)
  | _ => simp at hl

set_option maxHeartbeats 16000000 in
theorem invC_step_sub {w s l s'} (ha : InvA w s) (hb : InvB w s) (hc : InvC w s) (hs : Step s l s')
    (hl : match l with | .msub | .msuspend => True | _ => False) : InvC w s' := by
  cases hs with
  | msub op rest h ht =>
      have hpk := ha.pc_kind op rest ht
      rw [h] at hpk
      have hm : isMulti op.kind = true := by simpa [pcKindOk] using hpk
      have hreg := hc.multi_reg op rest ht hm (Or.inr h)
      have hnt := count_eq_zero_of_forall_ne (hb.no_todo (by rw [h]; rfl))
      have hpart := count_partition s.st
      have hlen := ha.st_len op rest ht (by rw [h]; rfl)
      have hcnt : s.cnt - (op.cells.length - (s.st.count .pending + s.st.count .fired)) = 1 + s.st.count .pending := by omega
      have hsn : subNext op.kind = .mld ∨ subNext op.kind = .msusp := by cases op.kind <;> simp [subNext]
      simp only [doMsub, hcnt]
      rcases hsn with hsn | hsn <;> rw [hsn] <;> (constructor <;> grind [inOp, decided, regPos])
  | msuspend op rest h ht =>
      have hmid := hc.multi_mid op rest ht (Or.inr (Or.inl h))
      have hpk := ha.pc_kind op rest ht
      rw [h] at hpk
      have hm : isMulti op.kind = true := by simpa [pcKindOk] using hpk
      simp only [doMsuspend]
      split
      · constructor <;> grind [inOp, decided, regPos, selfDone_decided, selfDone_regPos, selfDone_ne_susp]
      · constructor <;> grind [inOp, decided, regPos]
  | _ => simp at hl

end Yaclib.Coro
