/- Invariant of the C18 model `Sm` (SharedMutex / SharedTimedMutex): what does hold for the code as it is. -/
import YaclibModel.Model.FiberSyncShared
import YaclibModel.Proofs.FiberSync

namespace Yaclib.FiberSync.Sm
open Yaclib.FiberSync

/-- no D5/D6 path has been taken so far -/
def Clean (s : State) : Prop := s.d5 = 0 ∧ s.d6 = 0

structure Inv (k : Bool) (s : State) : Prop where
  hk : s.timed = k
  hfx : s.fixed = false
  /-- `_shared_owners_count` never underflows: every shared holder is counted -/
  sh_cnt : s.sh.length ≤ s.cnt
  /-- as long as no D5/D6 path was taken the flags describe the holders exactly: free / one writer / readers -/
  modes : Clean s →
    (s.occ = false ∧ s.xh = [] ∧ s.sh = [] ∧ s.cnt = 0) ∨
    (s.occ = true ∧ s.excl = true ∧ s.xh.length = 1 ∧ s.sh = [] ∧ s.cnt = 0) ∨
    (s.occ = true ∧ s.excl = false ∧ s.xh = [] ∧ s.sh.length = s.cnt ∧ 0 < s.cnt)
  dl_tx : ∀ g r d, s.pc g = .txParked r d → r ≤ d
  dl_ts : ∀ g r d, s.pc g = .tsParked r d → r ≤ d

theorem inv_init (k : Bool) (n : Nat) : Inv k (init k false n) := by
  constructor <;> (simp only [init, Clean]) <;> grind

theorem wake_ne_txParked (b : Bool) (p : Pc) (r d : Nat) (h : wake b p = .txParked r d) : p = .txParked r d ∧ False := by
  cases p <;> cases b <;> simp_all [wake]
theorem wake_ne_tsParked (b : Bool) (p : Pc) (r d : Nat) (h : wake b p = .tsParked r d) : p = .tsParked r d ∧ False := by
  cases p <;> cases b <;> simp_all [wake]

theorem length_one_erase {l : List Fid} {f : Fid} (h : f ∈ l) (h1 : l.length = 1) : l.erase f = [] := by
  have := Mx.length_erase_mem h
  exact List.length_eq_zero_iff.mp (by omega)

theorem length_zero_nil {l : List Fid} (h : l.length = 0) : l = [] := List.length_eq_zero_iff.mp h

macro "sm_auto" : tactic =>
  `(tactic| (constructor <;> (try simp only [lockHelper, sharedHelper, sharedHelperX, bumpX, bumpS, notifyE, notifyAllS, doUnlock,
      doUnlockS, doUnlockF, parkE, parkS, XHeld, Clean, UnlockPick, UnlockSPick, PickOk] at *) <;>
      grind [upd_apply, mem_rm, Mx.length_erase_mem, length_one_erase, length_zero_nil, List.length_append,
        wake_ne_txParked, wake_ne_tsParked]))

def grpOf : Label → Nat
  | .xAcq _ => 0 | .xPark _ => 0 | .tryX _ _ => 0 | .sAcq _ => 0 | .sPark _ => 0 | .tryS _ _ => 0
  | .unlock _ _ _ => 1
  | .unlockS _ _ => 2
  | .txAcq _ => 3 | .txPark _ _ _ _ => 3 | .txTimeout _ _ => 3 | .tsAcq _ => 3 | .tsPark _ _ _ _ => 3
  | .tsTimeout _ _ => 3 | .sleepStart _ _ _ => 3 | .sleepWake _ _ => 3 | .finish _ => 3
  | .txRepark _ _ => 3 | .tsRepark _ _ => 3

end Yaclib.FiberSync.Sm
