/- Invariant of the C18 model `Sm` (SharedMutex / SharedTimedMutex). -/
import YaclibModel.Model.FiberSyncShared
import YaclibModel.Proofs.FiberSync

namespace Yaclib.FiberSync.Sm
open Yaclib.FiberSync

theorem length_one_erase {l : List Fid} {f : Fid} (h : f ∈ l) (h1 : l.length = 1) : l.erase f = [] := by
  have := Mx.length_erase_mem h
  exact List.length_eq_zero_iff.mp (by omega)

theorem length_zero_nil {l : List Fid} (h : l.length = 0) : l = [] := List.length_eq_zero_iff.mp h

structure Inv (k : Bool) (s : State) : Prop where
  hk : s.timed = k
  /-- the flags describe the holders exactly: free / one writer / readers -/
  modes :
    (s.occ = false ∧ s.xh = [] ∧ s.sh = [] ∧ s.cnt = 0) ∨
    (s.occ = true ∧ s.excl = true ∧ s.xh.length = 1 ∧ s.sh = [] ∧ s.cnt = 0) ∨
    (s.occ = true ∧ s.excl = false ∧ s.xh = [] ∧ s.sh.length = s.cnt ∧ 0 < s.cnt)
  /-- notified writers re-evaluate their condition next -/
  transit_pc : ∀ g, g ∈ s.transit → (s.pc g).recheckX = true
  /-- no lost wake-up for writers: a free lock with parked writers has a notified writer on its way -/
  free_transit : s.occ = false → s.eq ≠ [] → s.transit ≠ []
  /-- readers are parked only while a writer holds the lock -/
  sq_held : s.sq ≠ [] → s.occ = true ∧ s.excl = true
  eq_pc : ∀ g, g ∈ s.eq → (s.pc g).onE = true
  pc_eq : ∀ g, (s.pc g).onE = true → g ∈ s.eq
  sq_pc : ∀ g, g ∈ s.sq → (s.pc g).onS = true
  pc_sq : ∀ g, (s.pc g).onS = true → g ∈ s.sq
  dl_tx : ∀ g r d, s.pc g = .txParked r d → r ≤ d
  dl_ts : ∀ g r d, s.pc g = .tsParked r d → r ≤ d
  tx_timed : ∀ g r d, s.pc g = .txParked r d → s.timed = true
  ts_timed : ∀ g r d, s.pc g = .tsParked r d → s.timed = true
  txl_timed : ∀ g r, s.pc g = .txLocking r → s.timed = true
  tsl_timed : ∀ g r, s.pc g = .tsLocking r → s.timed = true

theorem inv_init (k : Bool) (n : Nat) : Inv k (init k n) := by
  constructor <;> (simp only [init]) <;> grind [Pc.recheckX, Pc.onE, Pc.onS]

theorem wake_onE {p : Pc} (h : p.onE = true) : (wake p).recheckX = true ∧ (wake p).onE = false ∧
    (wake p).onS = false := by
  cases p <;> simp_all [Pc.onE, wake, Pc.recheckX, Pc.onS]
theorem wake_onS {p : Pc} (h : p.onS = true) : (wake p).recheckS = true ∧ (wake p).onE = false ∧
    (wake p).onS = false ∧ (wake p).recheckX = false := by
  cases p <;> simp_all [Pc.onE, wake, Pc.recheckS, Pc.onS, Pc.recheckX]
theorem wake_parked {p : Pc} (r d : Nat) : wake p ≠ .txParked r d ∧ wake p ≠ .tsParked r d := by
  cases p <;> simp [wake]
theorem wake_txLocking {p : Pc} {r : Nat} (h : wake p = .txLocking r) : (∃ d, p = .txParked r d) ∨ p = .txLocking r := by
  cases p <;> simp_all [wake]
theorem wake_tsLocking {p : Pc} {r : Nat} (h : wake p = .tsLocking r) : (∃ d, p = .tsParked r d) ∨ p = .tsLocking r := by
  cases p <;> simp_all [wake]
theorem onE_facts {p : Pc} (h : p.onE = true) : p.onS = false ∧ p.recheckX = false := by
  cases p <;> simp_all [Pc.onE, Pc.onS, Pc.recheckX]
theorem onS_facts {p : Pc} (h : p.onS = true) : p.onE = false ∧ p.recheckX = false := by
  cases p <;> simp_all [Pc.onE, Pc.onS, Pc.recheckX]

macro "sm_auto" : tactic =>
  `(tactic| (constructor <;> (try simp only [lockHelper, sharedHelper, notifyE, notifyAllS, doUnlock,
      doUnlockS, parkE, parkS, XHeld, UnlockSPick, PickOk] at *) <;>
      grind [upd_apply, mem_rm, rm_ne_nil, Mx.length_erase_mem, length_one_erase, length_zero_nil, List.length_append,
        wake_onE, wake_onS, wake_parked, wake_txLocking, wake_tsLocking, onE_facts, onS_facts,
        Pc.recheckX, Pc.onE, Pc.onS]))

def grpOf : Label → Nat
  | .xAcq _ => 0 | .xPark _ => 0 | .tryX _ _ => 0
  | .sAcq _ => 1 | .sPark _ => 1 | .tryS _ _ => 1
  | .unlock _ _ => 2
  | .unlockS _ _ => 3
  | .txAcq _ => 4 | .txPark _ _ _ _ => 4 | .txTimeout _ _ => 4 | .txRepark _ _ => 4
  | .tsAcq _ => 5 | .tsPark _ _ _ _ => 5 | .tsTimeout _ _ => 5 | .tsRepark _ _ => 5
  | .sleepStart _ _ _ => 5 | .sleepWake _ _ => 5 | .finish _ => 5

end Yaclib.FiberSync.Sm
