/- C05: the executor contract and placement, as invariants of the ghost log.
   * jobs: every Submit to a user executor is finished by exactly one of Call / Drop, in submission order; a job is Dropped
     iff the executor's acceptance decision (at the Submit) refused it;
   * ran : a step submitted to user executor k runs in context k (inside k's Submit / Call / Drop frame), nowhere else. -/
import YaclibModel.Proofs.PipelineRun

namespace Yaclib.Pipeline
open Yaclib.Extracted

section logsimp
variable (g : G) (ty : Nat) (b : Bool) (n : Nat)
@[simp] theorem allocCore_jobs : (g.allocCore n).jobs = g.jobs := rfl
@[simp] theorem allocCore_ran : (g.allocCore n).ran = g.ran := rfl
@[simp] theorem allocFunctor_jobs : (g.allocFunctor n).jobs = g.jobs := rfl
@[simp] theorem allocFunctor_ran : (g.allocFunctor n).ran = g.ran := rfl
@[simp] theorem freeCore_jobs : g.freeCore.jobs = g.jobs := rfl
@[simp] theorem freeCore_ran : g.freeCore.ran = g.ran := rfl
@[simp] theorem freeFunctor_jobs : g.freeFunctor.jobs = g.jobs := rfl
@[simp] theorem freeFunctor_ran : g.freeFunctor.ran = g.ran := rfl
@[simp] theorem finishJob_jobs (j : Nat) : (g.finishJob j b).jobs = g.jobs ++ [(j, b)] := rfl
@[simp] theorem finishJob_ran (j : Nat) : (g.finishJob j b).ran = g.ran := rfl
@[simp] theorem invoke_jobs (i : Nat) (c : Option Nat) (v : Option Exec) : (g.invoke i c v).jobs = g.jobs := rfl
@[simp] theorem invoke_ran (i : Nat) (c : Option Nat) (v : Option Exec) : (g.invoke i c v).ran = g.ran ++ [⟨i, c, v⟩] := rfl
@[simp] theorem invoke_submitCalls (i : Nat) (c : Option Nat) (v : Option Exec) :
    (g.invoke i c v).submitCalls = g.submitCalls := rfl
@[simp] theorem doneAcct_submitCalls : (doneAcct ty b g).submitCalls = g.submitCalls := by
  unfold doneAcct; repeat' split
  all_goals rfl
@[simp] theorem doneAcct_jobs : (doneAcct ty b g).jobs = g.jobs := by
  unfold doneAcct; repeat' split
  all_goals rfl
@[simp] theorem doneAcct_ran : (doneAcct ty b g).ran = g.ran := by
  unfold doneAcct; repeat' split
  all_goals rfl
@[simp] theorem asyncRetAcct_jobs : (asyncRetAcct ty g).jobs = g.jobs := by
  unfold asyncRetAcct; repeat' split
  all_goals rfl
@[simp] theorem asyncRetAcct_ran : (asyncRetAcct ty g).ran = g.ran := by
  unfold asyncRetAcct; repeat' split
  all_goals rfl
@[simp] theorem asyncDoneAcct_jobs : (asyncDoneAcct ty g).jobs = g.jobs := by
  unfold asyncDoneAcct; repeat' split
  all_goals rfl
@[simp] theorem asyncDoneAcct_ran : (asyncDoneAcct ty g).ran = g.ran := by
  unfold asyncDoneAcct; repeat' split
  all_goals rfl
end logsimp

/-- finished jobs (then the pending one) are exactly 0, 1, …, (number of Submits − 1), in order;
    Call iff the executor accepted at the Submit -/
def JobsOk (cfg : Cfg) (g : G) (pend : List Nat) : Prop :=
  g.jobs.map (·.1) ++ pend = List.range g.subs.length ∧
  ∀ x ∈ g.jobs, x.2 = !(rejects cfg (g.subs.take x.1) (g.subs.getD x.1 0))

/-- placement: submitted to user executor k ⇒ ran in context k -/
def RanOk (g : G) : Prop := ∀ x ∈ g.ran, ∀ k, x.via = some (.user k) → x.ctx = some k

def LogOk (cfg : Cfg) (g : G) (pend : List Nat) : Prop := JobsOk cfg g pend ∧ RanOk g

def pendOf : Wait → List Nat
  | .job jid _ _ => [jid]
  | _ => []

/-- a queued job was accepted by its executor, and the thread carries that executor -/
def PendOk (cfg : Cfg) (g : G) (t : Thread) : Prop :=
  match t.wait with
  | .job jid k jk =>
    g.subs.getD jid 0 = k ∧ rejects cfg (g.subs.take jid) k = false ∧
    (match jk with
     | .step _ _ _ => t.inh = .user k
     | _ => True)
  | _ => True

def LogOut (cfg : Cfg) : Out → Prop
  | .done _ _ _ g => LogOk cfg g []
  | .parked t g => LogOk cfg g (pendOf t.wait) ∧ PendOk cfg g t
  | .crash _ => True

def ViaCtx (via : Option Exec) (ctx : Option Nat) : Prop := ∀ k, via = some (.user k) → ctx = some k

theorem getD_append_left {α : Type} (l l' : List α) (d : α) (i : Nat) (h : i < l.length) :
    (l ++ l').getD i d = l.getD i d := by
  simp [List.getD_eq_getElem?_getD, List.getElem?_append_left h]

theorem mem_range_of_jobs {cfg : Cfg} {g : G} {pend : List Nat} (h : JobsOk cfg g pend) {x : Nat × Bool} (hx : x ∈ g.jobs) :
    x.1 < g.subs.length := by
  have : x.1 ∈ g.jobs.map (·.1) ++ pend := List.mem_append_left _ (List.mem_map_of_mem hx)
  rw [h.1] at this
  exact List.mem_range.1 this

theorem jobsOk_push (cfg : Cfg) (g : G) (k : Nat) (called : Bool) (h : JobsOk cfg g [])
    (hc : called = !(rejects cfg g.subs k)) :
    JobsOk cfg ({ g with subs := g.subs ++ [k] }.finishJob g.subs.length called) [] := by
  constructor
  · simp only [finishJob_jobs, finishJob_subs, List.map_append, List.map_cons, List.map_nil, List.append_nil,
      List.length_append, List.length_cons, List.length_nil, List.range_succ]
    have := h.1
    simp only [List.append_nil] at this
    rw [this]
  · intro x hx
    simp only [finishJob_jobs, finishJob_subs, List.mem_append, List.mem_cons, List.not_mem_nil, or_false] at hx ⊢
    cases hx with
    | inl hx =>
      have hlt := mem_range_of_jobs h hx
      rw [List.take_append_of_le_length (Nat.le_of_lt hlt), getD_append_left _ _ _ _ hlt]
      exact h.2 x hx
    | inr hx =>
      subst hx
      simp [hc]

theorem jobsOk_queue (cfg : Cfg) (g : G) (k : Nat) (h : JobsOk cfg g []) :
    JobsOk cfg { g with subs := g.subs ++ [k] } [g.subs.length] := by
  constructor
  · simp only [List.length_append, List.length_cons, List.length_nil, List.range_succ]
    have := h.1
    simp only [List.append_nil] at this
    rw [this]
  · intro x hx
    have hlt := mem_range_of_jobs h hx
    simp only
    rw [List.take_append_of_le_length (Nat.le_of_lt hlt), getD_append_left _ _ _ _ hlt]
    exact h.2 x hx

/-- `submit` keeps the log well-formed; the context of a Call / Drop made by user executor k is k -/
theorem submit_log (cfg : Cfg) (e : Exec) (ctx : Option Nat) (g : G) (h : LogOk cfg g []) :
    match submit cfg e ctx g with
    | .callNow c g' => LogOk cfg g' [] ∧ ViaCtx (some e) c
    | .dropNow c g' => LogOk cfg g' [] ∧ ViaCtx (some e) c
    | .queued jid k g' =>
      LogOk cfg g' [jid] ∧ e = .user k ∧ g'.subs.getD jid 0 = k ∧ rejects cfg (g'.subs.take jid) k = false := by
  cases e with
  | inl => exact ⟨⟨⟨h.1.1, h.1.2⟩, h.2⟩, fun k hk => by cases hk⟩
  | stp => exact ⟨⟨⟨h.1.1, h.1.2⟩, h.2⟩, fun k hk => by cases hk⟩
  | user k =>
    simp only [submit]
    by_cases hr : rejects cfg g.subs k = true
    · simp only [hr, ite_true]
      refine ⟨⟨?_, h.2⟩, fun k' hk' => by cases hk'; rfl⟩
      exact jobsOk_push cfg { g with submitCalls := g.submitCalls + 1 } k false ⟨h.1.1, h.1.2⟩ (by simp [hr])
    · have hr' : rejects cfg g.subs k = false := by simpa using hr
      simp only [hr', Bool.false_eq_true, ite_false]
      by_cases hq : (cfg k).queue = true
      · simp only [hq, ite_true]
        refine ⟨⟨?_, h.2⟩, trivial, ?_, ?_⟩
        · exact jobsOk_queue cfg { g with submitCalls := g.submitCalls + 1 } k ⟨h.1.1, h.1.2⟩
        · simp
        · simpa using hr'
      · simp only [hq, Bool.false_eq_true, ite_false]
        refine ⟨⟨?_, h.2⟩, fun k' hk' => by cases hk'; rfl⟩
        exact jobsOk_push cfg { g with submitCalls := g.submitCalls + 1 } k true ⟨h.1.1, h.1.2⟩ (by simp [hr'])

end Yaclib.Pipeline
