/- Second invariant of the C01 model: conservation of the single completion
   ("no completion is ever lost or duplicated") and the link between outcomes and the consumer kind. -/
import YaclibModel.Proofs.UniqueInv

namespace Yaclib.Unique

def isFireNE : PPc → Bool
  | .fire .event => false
  | .fire _ => true
  | .submitted => true
  | _ => false

def isCbNE : Word → Bool
  | .cb .event => false
  | .cb _ => true
  | _ => false

/-- how many times the outcome the consumer asked for has happened -/
def outcomeCount (w : Workload) (s : State) : Nat :=
  match w.fin with
  | .attach _ => s.delivered.length
  | .drop => s.dropped.length
  | .getMove => s.got.length
  | .connect => s.forwarded.length

structure Inv2 (w : Workload) (s : State) : Prop where
  fin_in : ∀ f, COp.fin f ∈ s.todo → f = w.fin
  kind_word : ∀ k, s.word = .cb k → k ≠ .event → finCb w.fin = some k
  kind_fire : ∀ k, s.ppc = .fire k → k ≠ .event → finCb w.fin = some k
  kind_sub : s.ppc = .submitted → finCb w.fin = some .cont
  kind_attl : ∀ k, s.cpc = .attLoaded k → k ≠ .event → finCb w.fin = some k
  kind_attf : ∀ k, s.cpc = .attFailed k → finCb w.fin = some k
  kind_csub : s.cpc = .submitted → finCb w.fin = some .cont
  kind_got : s.cpc = .repGot → w.fin = .getMove
  /-- exactly one of: the outcome happened / the producer is about to produce it / the callback sits
      in the word / the consumer has not finished its consuming operation -/
  conserve : outcomeCount w s + (if isFireNE s.ppc then 1 else 0) + (if isCbNE s.word then 1 else 0)
      + (if s.todo = [] then 0 else 1) = 1
  only_deliver : (∀ b, w.fin ≠ .attach b) → s.delivered = []
  only_drop : w.fin ≠ .drop → s.dropped = []
  only_got : w.fin ≠ .getMove → s.got = []
  only_fwd : w.fin ≠ .connect → s.forwarded = []

theorem inv2_init (w : Workload) : Inv2 w (init w) := by
  constructor <;> simp [init, isFireNE, isCbNE, outcomeCount]
  · cases w.fin <;> simp

theorem fin_kind_of_op {w : Workload} {t : List COp} {op : COp} {k : Cb}
    (hfin : ∀ f, COp.fin f ∈ t → f = w.fin) (hmem : op ∈ t) (hk : opCb op = some k) (hne : k ≠ .event) :
    finCb w.fin = some k := by
  cases op with
  | pre o => cases o <;> simp [opCb] at hk; exact absurd hk.symm hne
  | fin f => rw [← hfin f hmem]; simpa [opCb] using hk

macro "inv2_auto" : tactic =>
  `(tactic| (constructor <;> (simp only [doXchg, doPInvoke, doPForward, doPEvLock, doAttLoad, doCasOk, doCInvoke, doCForward,
      doCReady, doCGetc, doCWaitDone, doCGot, afterFail, loadOk, cDone, inWait, atFin, outcomeCount] at *) <;>
      grind [Shape.tail, Shape.fin_head, Shape.pre_head, Shape.attach_fin, attach_event_head, head_bind_cons, Shape.head_fin, Shape.pre_head', List.mem_of_mem_tail,
        isFireNE, isCbNE, finCb, opCb]))

end Yaclib.Unique
