/- C16 over a real executor: the WaitGroup / OneShotEvent model composed with an executor given as an open transition system
   (`Yaclib.Strand.Exec`, Proofs/StrandTower.lean).

   In the plain model the release of a coroutine waiter is one event `rel t j` ("resumed inline, or through its executor").  Here the
   waiters `j` with `X j` are on-executor waiters (`co_await wg.AwaitOn(e)`, and `AwaitSticky` of a coroutine whose executor is `e`),
   and `e` is a real executor model `E` (job numbers of `E` = job numbers of the model):
     the model's `rel t j`   =  `sub j` of `E`: `ExtendedAwaiter::Call` = `_core->_executor->Submit(*_core)` — by the thread that runs
                                `SetImpl` (the waiter was in the list) or by the waiter itself (`TryAdd` failed: `OnAwaiter` calls `Call()`);
     `E`'s `call j`          =  the coroutine is resumed; `ret j` = that segment of the coroutine is over (what it does is not C16's);
     `E`'s `drop j`          =  the coroutine is completed with StopError instead of being resumed.
   `nrel j` (Props/C16 `released_once`) counts the hand-over to the executor, i.e. the Submit: a waiter that is later Dropped WAS
   released by the event exactly once; what the executor owes for it — exactly one of Call / Drop — is `ExecContract E`.
   All other waiters (blocking, timed, inline coroutines, raw jobs) keep the plain model's steps. -/
import YaclibModel.Proofs.EventProgress
import YaclibModel.Proofs.StrandTower

namespace Yaclib.Event
open Yaclib.Strand (Exec XEv Prot Phase specPre specPost protInit ExecContract)

structure XState (E : Exec) where
  m : State
  x : E.σ
  p : Prot

/-- steps of the plain model that are events at the executor -/
def synced (X : Nat → Bool) : Label → Bool
  | .rel _ j => X j
  | _ => false

inductive XLab where
  | plain (l : Label) | sub (t j : Nat) | call (j : Nat) | drop (j : Nat) | ret (j : Nat) | low

inductive XStep (E : Exec) (X : Nat → Bool) : XState E → XLab → XState E → Prop where
  | plain {s : XState E} {l m'} : Step s.m l m' → synced X l = false → XStep E X s (.plain l) { s with m := m' }
  | sub {s : XState E} {t j m' lx x'} : Step s.m (.rel t j) m' → X j = true → E.step s.x lx x' → E.ev lx = some (.sub j) →
      s.p j = .fresh → XStep E X s (.sub t j) { m := m', x := x', p := specPost s.p (.sub j) }
  | call {s : XState E} {j lx x'} : E.step s.x lx x' → E.ev lx = some (.call j) →
      XStep E X s (.call j) { s with x := x', p := specPost s.p (.call j) }
  | drop {s : XState E} {j lx x'} : E.step s.x lx x' → E.ev lx = some (.drop j) →
      XStep E X s (.drop j) { s with x := x', p := specPost s.p (.drop j) }
  | ret {s : XState E} {j lx x'} : E.step s.x lx x' → E.ev lx = some (.ret j) → s.p j = .calling →
      XStep E X s (.ret j) { s with x := x', p := specPost s.p (.ret j) }
  | low {s : XState E} {lx x'} : E.step s.x lx x' → E.ev lx = none → XStep E X s .low { s with x := x' }

def xinit (w : Workload) (E : Exec) : XState E := { m := init w, x := E.init, p := protInit }

inductive XReach (w : Workload) (E : Exec) (X : Nat → Bool) : XState E → Prop where
  | init : XReach w E X (xinit w E)
  | step {s l s'} : XReach w E X s → XStep E X s l s' → XReach w E X s'

/-- **projection** (no assumption on `E`): the event component is a reachable state of the plain model — every theorem of Props/C16
    about `Reachable` applies — and the executor component is reached with a protocol-honouring client: every waiter is submitted
    at most once and only an entered body returns -/
theorem xevent_projects {w : Workload} {E : Exec} {X : Nat → Bool} {s : XState E} (h : XReach w E X s) :
    Reachable w s.m ∧ E.Run s.x s.p := by
  induction h with
  | init => exact ⟨.init, .init⟩
  | step _ hs ih =>
      obtain ⟨hr, hl⟩ := ih
      cases hs with
      | plain hst _ => exact ⟨.step hr hst, hl⟩
      | sub hst _ hx hev hf => exact ⟨.step hr hst, .inp hl hx hev rfl hf⟩
      | call hx hev => exact ⟨hr, .out hl hx hev rfl⟩
      | drop hx hev => exact ⟨hr, .out hl hx hev rfl⟩
      | ret hx hev hc => exact ⟨hr, .inp hl hx hev rfl hc⟩
      | low hx hev => exact ⟨hr, .tau hl hx hev⟩

/-! ### what the executor holds was released by the event -/

set_option maxHeartbeats 4000000 in
/-- `zeroed` and the release counts only grow -/
theorem step_mono {s s' : State} {l : Label} (hout : ∀ j, s.njobs ≤ j → s.job j = {}) (hs : Step s l s') (j : Nat) :
    (s.zeroed = true → s'.zeroed = true) ∧ (s.job j).nrel ≤ (s'.job j).nrel := by
  have h0 := hout s.njobs (Nat.le_refl _)
  cases hs
  all_goals (ev_unfold; repeat' split)
  all_goals (constructor <;> grind)

/-- a `rel` step finds the waiter not released yet, after zero, and releases it -/
theorem rel_step_fresh {w : Workload} {s s' : State} {t j : Nat} (hok : w.ok) (h : Reachable w s) (hs : Step s (.rel t j) s') :
    (s.job j).nrel = 0 ∧ (s'.job j).nrel = 1 ∧ s.zeroed = true := by
  have hi := invJ_reachable hok h
  have hz := invZ_reachable h
  have h1 := (invJ_reachable hok (.step h hs)).r_nrel j
  cases hs with
  | tRunRel _ _ rest hp hk =>
      have hl := (hi.l_run t _ _ hp).2.2 j (by simp)
      have hn : (s.job j).nrel ≠ 1 := fun hn => by
        rcases (hi.r_coro j hk).mp hn with h | h <;> simp [hl] at h
      have := hi.r_nrel j
      refine ⟨by omega, ?_, hz.z_pc t (by simp [hp, Pc.setter])⟩
      simp only [doRunRel, runNext] at h1 ⊢
      split <;> simp_all [finish, goto, setT, updJ_same] <;> omega
  | tResume _ _ hp =>
      have hr := hi.j_res t j hp
      have ho := (hi.j_own t j (by simp [hp, Pc.owner])).2.2
      have hn : (s.job j).nrel ≠ 1 := fun hn => by
        rcases (hi.r_coro j hr.2).mp hn with h | h
        · simp [hr.1] at h
        · rw [ho] at h; cases h.2
      have := hi.r_nrel j
      refine ⟨by omega, ?_, hz.z_rel t (by simp [hp, Pc.releasing])⟩
      simp [doResume, finish, setT, updJ_same]; omega

/-- with an executor that honours its contract: whatever it holds or has held was released by the event, once, after zero -/
structure InvXE {E : Exec} (s : XState E) : Prop where
  held : ∀ j, s.p j ≠ .fresh → (s.m.job j).nrel = 1 ∧ s.m.zeroed = true

theorem invXE_reach {w : Workload} {E : Exec} {X : Nat → Bool} (hok : w.ok) (hc : ExecContract E) {s : XState E}
    (h : XReach w E X s) : InvXE s := by
  induction h with
  | init => exact ⟨fun j hj => absurd rfl hj⟩
  | @step s0 l0 s1 hr hs ih =>
      have hp := xevent_projects hr
      constructor
      intro j hj
      cases hs with
      | plain hst _ =>
          have hm := step_mono (invJ_reachable hok hp.1).j_out hst j
          have h1 := (invJ_reachable hok (.step hp.1 hst)).r_nrel j
          have := ih.held j hj
          refine ⟨?_, hm.1 this.2⟩
          dsimp only at h1 hm ⊢; omega
      | @sub t j' _ _ _ hst _ hx hev hf =>
          have hf' := rel_step_fresh hok hp.1 hst
          by_cases hjj : j = j'
          · subst hjj
            exact ⟨hf'.2.1, (step_mono (invJ_reachable hok hp.1).j_out hst j).1 hf'.2.2⟩
          · have hj' : s0.p j ≠ .fresh := by simpa [specPost, Strand.upd, hjj] using hj
            have hm := step_mono (invJ_reachable hok hp.1).j_out hst j
            have h1 := (invJ_reachable hok (.step hp.1 hst)).r_nrel j
            have := ih.held j hj'
            refine ⟨?_, hm.1 this.2⟩
            dsimp only at h1 hm ⊢; omega
      | @call j' _ _ hx hev =>
          have hpre := hc.safe hp.2 hx hev rfl
          by_cases hjj : j = j'
          · subst hjj; exact ih.held j (by rw [show s0.p j = .pending from hpre]; simp)
          · exact ih.held j (by simpa [specPost, Strand.upd, hjj] using hj)
      | @drop j' _ _ hx hev =>
          have hpre := hc.safe hp.2 hx hev rfl
          by_cases hjj : j = j'
          · subst hjj; exact ih.held j (by rw [show s0.p j = .pending from hpre]; simp)
          · exact ih.held j (by simpa [specPost, Strand.upd, hjj] using hj)
      | @ret j' _ _ hx hev hcal =>
          by_cases hjj : j = j'
          · subst hjj; exact ih.held j (by rw [hcal]; simp)
          · exact ih.held j (by simpa [specPost, Strand.upd, hjj] using hj)
      | low hx hev => exact ih.held j hj

end Yaclib.Event
