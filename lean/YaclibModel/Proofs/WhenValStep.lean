import YaclibModel.Proofs.WhenVal
namespace Yaclib.When

macro "invv_auto" : tactic =>
  `(tactic| (constructor <;> (try simp only [doRegSet, doFire, doRetire, doLoadFlag, doXchgFlag, doLoad3, doXchg3, doCas3, doLoadLf,
      doXchgLf, doFsubLf, doSetOut, doDec, doDtorRel, doDtorSet, setPc, finish, storeSlots] at *) <;>
      grind [= upd_apply, holding, afterRetire_tuple, mem_snoc, usesFlag_tuple, allFF_tuple, noneKind_tuple]))

set_option maxHeartbeats 4000000 in
theorem invv_step {w s l s'} (hI : Inv w s) (hW : WinFree w s) (hi : InvV w s) (hs : Step w s l s') : InvV w s' := by
  have hC := hI.c
  have hpos := @InvC.count_pos w s hC
  have hdt_cnt := hC.dt_cnt
  have hvalid_or := hI.o.valid_or
  have hpvalid := hI.o.pvalid
  have hwin_pc := hI.o.win_pc
  have hnone_win := hI.o.none_win
  obtain ⟨wf, wg, wl⟩ := hW
  have hdx := @dtorOut_expected w s hI hi
  cases hi
  cases hs with
  | regSet i okb hc hb hr hn =>
      have h1 := consumeStart_cases w.strat (w.inp i)
      have h2 := afterRetire_cases w.strat (w.inp i)
      have h0 := (hC.unreg i).mpr (by omega)
      cases okb <;> invv_auto
  | fire i hc hp =>
      have h1 := consumeStart_cases w.strat (w.inp i)
      have h2 := afterRetire_cases w.strat (w.inp i)
      invv_auto
  | retire i hc hp =>
      have h2 := afterRetire_cases w.strat (w.inp i)
      invv_auto
  | loadFlag i b hc hp hs hb =>
      have h3 := lose_cases w.strat
      have hw := (hC.word i (Or.inl hp)).2
      cases b <;> invv_auto
  | xchgFlag i hc hp hs =>
      have h3 := lose_cases w.strat
      have hw := (hC.word i (Or.inr hp)).2
      cases hf : s.flag <;> simp only [doXchgFlag, hf] <;> invv_auto
  | setOut i o hc hp =>
      have hso := hC.setout i o hp
      invv_auto
  | load3 i x hc hp hs hx =>
      cases hv : ok (w.inp i) <;> cases x <;> simp only [doLoad3, hv] <;> invv_auto
  | xchg3 i hc hp hs hv =>
      by_cases hf : s.st3 = .value <;> simp only [doXchg3, hf] <;> invv_auto
  | cas3 i hc hp hs hv =>
      by_cases hf : s.st3 = .empty <;> simp only [doCas3, hf] <;> invv_auto
  | loadLf i d hc hp hs hd => cases d <;> invv_auto
  | xchgLf i hc hp hs hv =>
      by_cases hf : s.lf % 2 = 0 <;> simp only [doXchgLf, hf] <;> invv_auto
  | fsubLf i hc hp hs hv =>
      by_cases hf : s.lf = 2 <;> simp only [doFsubLf, hf] <;> invv_auto
  | dec i store hc hp =>
      have h1 := dtorStart_cases w.strat s.pValid
      by_cases hc1 : s.count = 1
      · rcases h1 with h1 | h1 | h1 <;> simp only [doDec, hc1, h1.1, if_true] <;> cases store <;> invv_auto
      · simp only [doDec, hc1, if_false] <;> cases store <;> invv_auto
  | dtorRel i j hc hp =>
      have hd : inDtor (s.pc i) = true := by rw [hp]; rfl
      have hrel := (hC.dtorRel i j hp).2.1
      cases hst : w.strat with
      | allVec b =>
          cases b
          · by_cases hj : j + 1 < w.n <;> simp only [doDtorRel, hst, hj, if_true, if_false] <;> invv_auto
          · have hF := hI.f (by rw [hst]; rfl)
            by_cases hv : s.pValid = true
            · have hok := all_ok_in_dtor hC hI.r hI.o hF hd hv j (hC.dtorRel i j hp).1
              by_cases hj : j + 1 < w.n <;> simp only [doDtorRel, hst, hj, hv, hok, if_true, if_false] <;> invv_auto
            · by_cases hj : j + 1 < w.n <;> simp only [doDtorRel, hst, hj, hv, if_true, if_false] <;> invv_auto
      | _ => have := (hC.dtorRel i j hp).2.2; simp [hst, Strat.isAllVec] at this
  | dtorSet i o hc hp ho =>
      have hx := hdx hp ho
      have hv := hI.o.dtorset i hp
      invv_auto
  | dtorThrow i hc hp ho => invv_auto
  | crash i hc hp => invv_auto

theorem invv_reachable {w s} (hwf : w.wf) (h : Reachable w s) : InvV w s := by
  induction h with
  | init => exact invv_init w
  | step hr hs ih =>
      have hI := inv_reachable hwf hr
      have hW := winFree_of hI.c hI.r hI.f hI.g (fun hl => hI.l hl (fun h0 => no_step_of_empty hI.c h0 hs))
      exact invv_step hI hW ih hs

end Yaclib.When
