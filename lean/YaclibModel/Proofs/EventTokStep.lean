/- C16: preservation of the token invariant (part 2) -/
import YaclibModel.Proofs.EventTok

namespace Yaclib.Event
variable {s s' : State} {l : Label} {w : Workload}

attribute [local grind =] Pc.setter Pc.releasing
attribute [local grind =] hsum_upd_ge

theorem hsum_upd_held {f : Nat → Thr} {t : Nat} {x : Thr} {n : Nat} (h : x.held = (f t).held) : hsum (updT f t x) n = hsum f n := by
  by_cases ht : t < n
  · have := hsum_upd_lt (f := f) (x := x) ht; omega
  · exact hsum_upd_ge (by omega)

theorem InvT.active_lt (hi : InvT s) {t : Nat} (h : (s.thr t).pc ≠ .idle ∨ (s.thr t).prog ≠ []) : t < s.w.nthr := by
  by_cases ht : t < s.w.nthr
  · exact ht
  · have := hi.t_out t (by omega); rcases h with h | h
    · exact absurd this.1 h
    · exact absurd this.2.1 h

/-- the field `t_ok` after a step of thread `t`: the other threads are untouched -/
macro "t_ok_case" hi:ident t:term : tactic => `(tactic| (
  intro t'
  by_cases hne : t' = $t
  · subst hne
    simp only [updT_same, thrOk, List.tail_cons]
    first | assumption | (simp_all [okProg] <;> omega) | grind [okProg]
  · simp only [updT_other _ _ _ _ hne]; exact ($hi).t_ok t'))

/-- closes the fields of `InvT` for a step of thread `t` -/
macro "t_fields" hz:ident hi:ident t:term : tactic => `(tactic| (
  constructor
  case t_ok => t_ok_case $hi $t
  all_goals first
    | exact ($hi).t_z | exact ($hi).t_nz | exact ($hi).t_crash
    | (have := ($hi).t_cnt; have := ($hi).t_out; have := ($hi).t_cb; have := ($hi).t_cb_uniq; have := ($hi).t_tok
       have := ($hi).t_xh; have := ($hi).t_one; have := ($hz).z_head; have := ($hz).z_pc; have := ($hi).t_z; have := ($hi).t_nz
       have := ($hz).z_nz
       grind [hsum_upd_held, hsum_upd_lt, List.length_erase_of_mem])))

/-- prelude of every case: the acting thread is a real one; what its program counter says about its program -/
macro "t_pre" "[" hs:Lean.Parser.Tactic.simpLemma,* "]" hi:ident t:term : tactic => `(tactic| (
  have ht := ($hi).active_lt (t := $t) (by simp [$hs,*])
  have hpos := hsum_pos (f := s.thr) ht
  have hok := ($hi).t_ok $t
  simp only [thrOk, okProg, Bool.and_eq_true, decide_eq_true_eq, $hs,*] at hok))

set_option maxHeartbeats 4000000 in
theorem invT_step (hz : InvZ s) (hi : InvT s) (hs : Step s l s') : InvT s' := by
  have hcnt := hi.t_cnt
  cases hs with
  | tAdd t k rest h hp =>
      t_pre [h, hp] hi t
      simp only [doAdd, finish, setT, updT_same]
      t_fields hz hi t
  | tDone t k rest h hp =>
      t_pre [h, hp] hi t
      simp only [doSub]
      split <;> t_fields hz hi t
  | tInsAdd t consume fs rest h hp hne =>
      t_pre [h, hp] hi t
      simp only [doInsAdd]
      t_fields hz hi t
  | tInsLoad t f rest c wc consume x h hx =>
      t_pre [h] hi t
      simp only [doInsLoad, insFail, insNext, goto, finish, setT]
      repeat' split
      all_goals t_fields hz hi t
  | tInsCasOk t f rest c wc consume h hw =>
      t_pre [h] hi t
      simp only [doInsCasOk, insNext, goto, finish, setT, updT_same]
      repeat' split
      all_goals t_fields hz hi t
  | tInsCasFail t f rest c wc consume h hw =>
      t_pre [h] hi t
      simp only [insFail, insNext, goto, finish, setT]
      repeat' split
      all_goals t_fields hz hi t
  | tInsSub t k h =>
      t_pre [h] hi t
      simp only [doSub]
      split <;> t_fields hz hi t
  | tFulfil t f rest h hp =>
      t_pre [h, hp] hi t
      simp only [doFulfil, goto, finish, setT]
      split <;> t_fields hz hi t
  | tCbSub t f rest h hp =>
      t_pre [h, hp] hi t
      have hcb := hi.t_cb t f rest h hp
      simp only [doCbSub, doSub]
      split <;> t_fields hz hi t
  | tReadyLoad t f rest h hp =>
      t_pre [h, hp] hi t
      simp only [goto, setT]
      t_fields hz hi t
  | tReady t f b c h =>
      t_pre [h] hi t
      simp only [finish, setT]
      t_fields hz hi t
  | tXchgHead t h =>
      t_pre [h] hi t
      have hx := hi.t_xh t h
      simp only [doXchgHead, runNext, goto, finish, setT]
      repeat' split
      all_goals t_fields hz hi t
  | tRunLock t j rest h hk hm =>
      t_pre [h] hi t
      simp only [doRunLock, goto, setT]
      t_fields hz hi t
  | tRunUnlock t j rest h =>
      t_pre [h] hi t
      simp only [doRunUnlock, runNext, goto, finish, setT]
      repeat' split
      all_goals t_fields hz hi t
  | tRunDec t j rest h =>
      t_pre [h] hi t
      simp only [doRunDec, runNext, goto, finish, setT]
      repeat' split
      all_goals t_fields hz hi t
  | tRunRel t j rest h hk =>
      t_pre [h] hi t
      simp only [doRunRel, runNext, goto, finish, setT]
      repeat' split
      all_goals t_fields hz hi t
  | tStart t op rest k x h hp hk hx =>
      have hop : okProg (s.thr t).held (op :: rest) = okProg (s.thr t).held rest := by
        cases op <;> simp [opKind] at hk <;> rfl
      t_pre [h, hp, hop] hi t
      simp only [doStartLoad, tryWith, notAdded, newJob, goto, finish, setT]
      repeat' split
      all_goals t_fields hz hi t
  | tTryLoad t j x h hx =>
      t_pre [h] hi t
      simp only [tryWith, notAdded, goto, finish, setT]
      repeat' split
      all_goals t_fields hz hi t
  | tCasOk t j l h hh =>
      t_pre [h] hi t
      simp only [doPushed, goto, finish, setT]
      repeat' split
      all_goals t_fields hz hi t
  | tCasFail t j x h hh =>
      t_pre [h] hi t
      simp only [tryWith, notAdded, goto, finish, setT]
      repeat' split
      all_goals t_fields hz hi t
  | tCasSpur t j x x' h hx =>
      t_pre [h] hi t
      simp only [tryWith, notAdded, goto, finish, setT]
      repeat' split
      all_goals t_fields hz hi t
  | tResume t j h =>
      t_pre [h] hi t
      simp only [doResume, finish, setT]
      t_fields hz hi t
  | tBLock t j h hm =>
      rcases h with h | h
      · t_pre [h] hi t
        simp only [doBLock, touch, goto, setT]
        repeat' split
        all_goals t_fields hz hi t
      · t_pre [h] hi t
        simp only [doBLock, touch, goto, setT]
        repeat' split
        all_goals t_fields hz hi t
  | tBSleep t j h =>
      t_pre [h] hi t
      simp only [doBSleep, touch, goto, setT]
      t_fields hz hi t
  | tBTimeout t j h hk =>
      t_pre [h] hi t
      simp only [goto, setT]
      t_fields hz hi t
  | tBLockT t j h hm =>
      t_pre [h] hi t
      simp only [doBLock, touch, goto, setT]
      repeat' split
      all_goals t_fields hz hi t
  | tBUnlockRet t j b h =>
      t_pre [h] hi t
      simp only [doBUnlockRet, touch, goto, setT]
      repeat' split
      all_goals t_fields hz hi t
  | tBDec t j b h =>
      t_pre [h] hi t
      simp only [doBDec, decJob, touch, goto, setT]
      repeat' split
      all_goals t_fields hz hi t
  | tRep t j b h =>
      t_pre [h] hi t
      simp only [doRep, finish, setT]
      t_fields hz hi t

theorem invT_reachable (hok : w.ok) (h : Reachable w s) : InvT s := by
  induction h with
  | init => exact invT_init w hok
  | step hr hs ih => exact invT_step (invZ_reachable hr) ih hs

end Yaclib.Event
