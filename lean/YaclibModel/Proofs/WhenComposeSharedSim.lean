/- WhenS: every instance is a C06 run with observer 0 in shape, the coupling invariant, and the simulation
   `WhenS.Reachable S → When.Reachable S.wh`. -/
import YaclibModel.Proofs.WhenComposeSharedSteps

namespace Yaclib.WhenS
open Yaclib

variable {W : Workload} {S : State}

theorem upd_eq {α : Type} (f : Nat → α) (i j : Nat) (x : α) : When.upd f i x j = if j = i then x else f j := rfl

/-- every input instance is a run of the C06 model, with observer 0 (the combinator) in shape -/
theorem shared_reachable (h : Reachable W S) : ∀ i, Shared.Reachable (wS W i) (S.sh i) ∧ O0 (S.sh i) := by
  induction h with
  | init => intro i; exact ⟨.init, o0_init W i⟩
  | step hr hs ih =>
      intro j
      have key : ∀ (i : Nat) (l : Shared.Label) (s' : Shared.State) (ss : Nat → Shared.State),
          Shared.Step (ss i) l s' → Shared.Reachable (wS W i) (ss i) → O0 s' →
          (Shared.Reachable (wS W j) (ss j) ∧ O0 (ss j)) →
          Shared.Reachable (wS W j) (When.upd ss i s' j) ∧ O0 (When.upd ss i s' j) := by
        intro i l s' ss hst hi ho hj
        rw [upd_eq]
        by_cases hji : j = i
        · subst hji; simp; exact ⟨.step hi hst, ho⟩
        · simp [hji]; exact hj
      cases hs with
      | «when» l wh' hl h => exact ih j
      | free i l s' hi hl h =>
          have hI := Shared.inv_reachable (ih i).1
          have hf := free_frame hI (ih i).2.jobs h hl
          refine key i l s' _ h (ih i).1 ⟨?_, hf.2.1⟩ (ih j)
          rw [hf.1]; exact (ih i).2.shape
      | reg i l s' hr' hl h => exact key i l s' _ h (ih i).1 (reg_frame (ih i).2 h hl).1 (ih j)
      | casOk i s' hr' h => exact key i _ s' _ h (ih i).1 (casOk_frame (ih i).2 h).1 (ih j)
      | enterC i s' hr' h =>
          exact key i _ s' _ h (ih i).1 (enterC_frame (Shared.inv_reachable (ih i).1) (ih i).2 h).1 (ih j)
      | enterP i s' hi h =>
          exact key i _ s' _ h (ih i).1 (enterP_frame (Shared.inv_reachable (ih i).1) (ih i).2 h).1 (ih j)

/-- coupling of the combinator with its shared inputs -/
structure K (W : Workload) (S : State) : Prop where
  /-- the combinator callback is installed on input i and not entered yet ⇒ the combinator is waiting for exactly that -/
  lists_pending : ∀ i, inLists (S.sh i) → S.wh.pc i = .pending
  /-- the combinator's count of callback entries is the number of times instance i fired the combinator callback -/
  entries : ∀ i, S.wh.consumed i = (Shared.firedIds (S.sh i)).count cb0
  /-- observer 0 (SetCallback) of instance i is finished iff the registration loop is past input i -/
  todo_reg : ∀ i, ((S.sh i).obs 0).todo = [] ↔ i < S.wh.reg

theorem k_init (W : Workload) : K W (init W) := by
  constructor <;> simp [init, When.init, Shared.init, wS, inLists, Shared.wordList, Shared.walkList, Shared.firedIds]

macro "ks_auto" : tactic =>
  `(tactic| (constructor <;>
      (try simp only [When.doRegSet, When.doFire, Bool.false_eq_true, if_false, if_true]) <;> grind [= upd_eq]))

theorem sim_step {S' : State} {l : Label} (hwf : W.w.wf) (hR : Reachable W S) (hW : When.Reachable W.w S.wh) (hK : K W S)
    (hs : Step W S l S') : When.Reachable W.w S'.wh ∧ K W S' := by
  have hU := shared_reachable hR
  have hC := When.invc_reachable hW
  have hcr : S.wh.crashed = false := (When.invb_reachable hwf hW).not_crashed
  have hun := hC.unreg
  obtain ⟨k1, k2, k3⟩ := hK
  cases hs with
  | «when» l wh' hl h =>
      obtain ⟨f1, f2, f3, f4⟩ := WhenU.when_frame (l := l) h (by cases l <;> simp_all [isEnv, WhenU.isEnv])
      refine ⟨.step hW h, ?_⟩
      constructor <;> simp only [] <;> grind
  | free i l s' hi hl h =>
      obtain ⟨f1, f2, f3, f4⟩ := free_frame (Shared.inv_reachable (hU i).1) (hU i).2.jobs h hl
      refine ⟨hW, ?_⟩
      ks_auto
  | reg i l s' hr hl h =>
      obtain ⟨f1, f2, f3, f4⟩ := reg_frame (hU i).2 h hl
      refine ⟨hW, ?_⟩
      ks_auto
  | casOk i s' hr h =>
      obtain ⟨r1, r2, r3, r4⟩ := hr
      obtain ⟨f1, f2, f3, f4⟩ := casOk_frame (hU i).2 h
      refine ⟨.step hW (.regSet S.wh i true r4 r2 r1 r3), ?_⟩
      ks_auto
  | enterC i s' hr h =>
      obtain ⟨r1, r2, r3, r4⟩ := hr
      obtain ⟨f1, f2, f3, f4, f5, f6, f7⟩ := enterC_frame (Shared.inv_reachable (hU i).1) (hU i).2 h
      refine ⟨.step hW (.regSet S.wh i false r4 r2 r1 r3), ?_⟩
      ks_auto
  | enterP i s' hi h =>
      obtain ⟨f1, f2, f3, f4, f5, f6, f7⟩ := enterP_frame (Shared.inv_reachable (hU i).1) (hU i).2 h
      refine ⟨.step hW (.fire S.wh i hcr (k1 i f2)), ?_⟩
      ks_auto

/-- **the simulation** for shared inputs: the When component of every reachable state of `WhenS` is a reachable state of
    the When model — every `regSet` / `fire` it took was enabled — whatever the other observers of the inputs do -/
theorem sim (hwf : W.w.wf) (h : Reachable W S) : When.Reachable W.w S.wh ∧ K W S := by
  induction h with
  | init => exact ⟨.init, k_init W⟩
  | step hr hs ih => exact sim_step hwf hr ih.1 ih.2 hs

end Yaclib.WhenS
