import YaclibModel.Proofs.CoSharedMutex
namespace Yaclib.CoSharedMutex

set_option maxHeartbeats 4000000 in
theorem inv_wuCasFail {cfg : Cfg} {s : State} (hi : Inv cfg s) (c : Cid) (h : s.pc c = .wUn0) (hne : ¬ (s.W = 1 ∧ s.R = 0)) :
    Inv cfg ({ s with pc := upd s.pc c (.spinning .un false) }) := by
  cases hi
  sm_auto [List.count_le_length]

end Yaclib.CoSharedMutex
