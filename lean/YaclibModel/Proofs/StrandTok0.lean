import YaclibModel.Proofs.Strand
namespace Yaclib.Strand

theorem invTok_step_s {w s l s'} (hi : InvTok w s) (hs : Step s l s') (hg : ∃ i, l.actor = .sub i) : InvTok w s' := by
  cases hs with
  | sLoad i v h hj hv => cases hi; tok_auto
  | sCasOk i exp h he =>
      by_cases hm : exp = .mark
      · subst hm
        have hwm : s.word = .mark := Word.head_eq_mark.mp he.symm
        have hh : s.holder = none := hi.tok_none.mpr hwm
        cases hi; tok_auto
      · have hwm : s.word ≠ .mark := fun hx => hm (by rw [he, hx]; rfl)
        cases hi; tok_auto
  | sCasFail i exp v h hne hv => cases hi; tok_auto
  | sCasSpur i exp h => exact hi
  | sSched i h => cases hi; tok_auto
  | _ => simp [Label.actor] at hg

end Yaclib.Strand
