import YaclibModel.Proofs.CoMutex
namespace Yaclib.CoMutex

set_option maxHeartbeats 1000000 in
theorem inv_step_0 {cfg s l s'} (hi : Inv cfg s) (hs : Step s l s') (hg : grpOf l = 0) : Inv cfg s' := by
  cases hi
  cases hs with
  | tlLoad c sawFree h ht => cases sawFree <;> inv_auto
  | tlCasOk c h hw => inv_auto
  | tlCasFail c h hw => inv_auto
  | tryFail c h => inv_auto [length_pos_of_ne_nil]
  | alLoad c e h => inv_auto
  | _ => simp [grpOf] at hg

end Yaclib.CoMutex
