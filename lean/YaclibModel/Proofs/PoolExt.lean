/- C08: the pool model is monotone in its workload — more Submit streams can be added at any time.
   `Reachable w s → Reachable (w with one more stream) (s with one more idle stream)`.  Used by the open-system view
   of the pool (Proofs/PoolExec.lean), where clients may submit any number of jobs. -/
import YaclibModel.Model.Pool
namespace Yaclib.Pool

/-- an idle Submit stream with `n` jobs to submit -/
def idleSub (n : Nat) : Sub := { pc := .idle, k := 0, total := n }

/-- one more Submit stream -/
def ext (s : State) (x : Sub) : State := { s with subs := s.subs ++ [x] }

def Workload.ext (w : Workload) (n : Nat) : Workload := { w with subs := w.subs ++ [n] }

theorem get_append_of_get {α : Type} {l : List α} {i : Nat} {a : α} (h : l[i]? = some a) (t : List α) :
    (l ++ t)[i]? = some a := by
  have hlt := (List.getElem?_eq_some_iff.mp h).1
  rw [List.getElem?_append_left hlt]; exact h

theorem set_append_of_get {α : Type} {l : List α} {i : Nat} {a : α} (h : l[i]? = some a) (v : α) (t : List α) :
    (l ++ t).set i v = l.set i v ++ t :=
  List.set_append_left i v (List.getElem?_eq_some_iff.mp h).1

theorem init_ext (w : Workload) (n : Nat) : init (w.ext n) = ext (init w) (idleSub n) := by
  rcases w with ⟨a, b, c⟩
  cases c <;> simp [init, ext, Workload.ext, idleSub]

macro "ext_sub" c:term "," h:ident : tactic =>
  `(tactic| (have hx := $c
             simpa [ext, doSubmit, doSLock, doAccept, doReject, doSDrop, doNotifyNone, doNotifyOne,
               set_append_of_get $h] using hx))

theorem step_ext {s : State} {l : Label} {s' : State} (hs : Step s l s') (x : Sub) : Step (ext s x) l (ext s' x) := by
  cases hs with
  | sBegin i sb h hpc hk => ext_sub (Step.sBegin (ext s x) i sb (get_append_of_get h _) hpc hk), h
  | sLock i sb h hpc hl => ext_sub (Step.sLock (ext s x) i sb (get_append_of_get h _) hpc hl), h
  | sAccept i sb h hpc hw => ext_sub (Step.sAccept (ext s x) i sb (get_append_of_get h _) hpc hw), h
  | sReject i sb h hpc hw => ext_sub (Step.sReject (ext s x) i sb (get_append_of_get h _) hpc hw), h
  | sDrop i sb h hpc => ext_sub (Step.sDrop (ext s x) i sb (get_append_of_get h _) hpc), h
  | sNotifyNone i sb h hpc hn => ext_sub (Step.sNotifyNone (ext s x) i sb (get_append_of_get h _) hpc hn), h
  | sNotifyOne i sb v h hpc hv => ext_sub (Step.sNotifyOne (ext s x) i sb v (get_append_of_get h _) hpc hv), h
  | wLock i pc h hpc hl => exact Step.wLock (ext s x) i pc h hpc hl
  | wRelock i h hl => exact Step.wRelock (ext s x) i h hl
  | wPop i b j rest h hq => exact Step.wPop (ext s x) i b j rest h hq
  | wStop i b h hq hc => exact Step.wStop (ext s x) i b h hq hc
  | wExit i b h hq hc hw => exact Step.wExit (ext s x) i b h hq hc hw
  | wWait i b h hq hc hw => exact Step.wWait (ext s x) i b h hq hc hw
  | wCall i j h => exact Step.wCall (ext s x) i j h
  | wNotifyAll i h => exact Step.wNotifyAll (ext s x) i h
  | wSpurious i h => exact Step.wSpurious (ext s x) i h
  | xBegin k h hk => exact Step.xBegin (ext s x) k h hk
  | xLock h hl => exact Step.xLock (ext s x) h hl
  | xStop h hk => exact Step.xStop (ext s x) h hk
  | xSoftNow h hk hn => exact Step.xSoftNow (ext s x) h hk hn
  | xSoftWant h hk hn => exact Step.xSoftWant (ext s x) h hk hn
  | xHard h hk => exact Step.xHard (ext s x) h hk
  | xNotifyAll h => exact Step.xNotifyAll (ext s x) h
  | xDrop j rest h => exact Step.xDrop (ext s x) j rest h
  | waitRet h hr => exact Step.waitRet (ext s x) h hr

theorem reachable_ext {w : Workload} {s : State} (h : Reachable w s) (n : Nat) :
    Reachable (w.ext n) (ext s (idleSub n)) := by
  induction h with
  | init => rw [← init_ext]; exact .init
  | step _ hs ih => exact .step ih (step_ext hs _)

end Yaclib.Pool
