/- Master lemma: `callStep` / `runSteps` compute `specCall` / `specSteps` (mutual structural induction over the syntax). -/
import YaclibModel.Proofs.PipelineDen

namespace Yaclib.Pipeline
open Yaclib.Extracted

def specCallK (cfg : Cfg) (s : Step) (k : List Step) (input : R) (own : Exec) (subs inv : List Nat) : SOut :=
  let o := specCall cfg s input own subs inv
  specSteps cfg k false o.r o.inh o.subs o.invoked

/-- `asyncFinish`: the outer step completes with the inner result and its own executor -/
theorem asyncFinish_den (cfg : Cfg) (ty : Nat) (own : Exec) (k : List Step) (lazy : Bool) (ctx : Option Nat) (o : Out) :
    denK cfg k (asyncFinish ty own k lazy ctx o) =
      (denK cfg [] o).map (fun o' => specSteps cfg k false o'.r own o'.subs o'.invoked) := by
  cases o with
  | done r inh c g => cases lazy <;> simp [asyncFinish, denK, specSteps]
  | parked t g => cases lazy <;> simp [asyncFinish, denK, specThread, specFrames_append, specFrames]
  | crash g => simp [asyncFinish, denK]

mutual
  theorem callStep_den (cfg : Cfg) :
      ∀ (s : Step) (k : List Step) (hd dropped : Bool) (ctx : Option Nat) (via : Option Exec) (input0 : R) (own : Exec)
        (g : G),
      denK cfg k (callStep cfg s k hd dropped ctx via input0 own g)
        = some (specCallK cfg s k (seenInput (stepType s.mode hd) dropped input0) own g.subs g.invoked)
    | .mk id sig mode beh, k, hd, dropped, ctx, via, input0, own, g => by
      simp only [Step.mode]
      rw [callStep.eq_def]
      simp only []
      cases hact : route sig (passesUnit (stepType mode hd) dropped sig) (Dispatch.isRun (stepType mode hd))
          (seenInput (stepType mode hd) dropped input0) with
      | call =>
        have hr := (route_call_iff sig mode hd dropped input0).1 hact
        simp only []
        cases beh with
        | val n => simp [denK, specCallK, specCall_val, hr]
        | res r => simp [denK, specCallK, specCall_res, hr]
        | throw t => simp [denK, specCallK, specCall_throw, hr]
        | async src lazy steps =>
          simp only []
          -- the functor has built the inner pipeline; `g2` = the log after construction
          have key : ∀ (g2 : G), g2.subs = g.subs → g2.invoked = g.invoked ++ [id] →
              ∀ (acct : G → G), (∀ x, (acct x).subs = x.subs ∧ (acct x).invoked = x.invoked) →
              denK cfg k (match startSrc cfg src ctx g2 with
                | .go r0 inh0 c0 g3 =>
                  asyncFinish (stepType mode hd) own k lazy ctx
                    (runSteps cfg steps (src == .unit) lazy (if lazy = true then c0 else ctx) r0 inh0 g3)
                | .wait w inh0 g3 => .parked ⟨w, inh0, steps, [⟨stepType mode hd, own, k⟩]⟩ (acct g3)
                | .crash g3 => .crash g3)
              = some (specCallK cfg (.mk id sig mode (.async src lazy steps)) k
                  (seenInput (stepType mode hd) dropped input0) own g.subs g.invoked) := by
            intro g2 hs2 hi2 acct hacct
            have hsrc := startSrc_spec cfg src ctx g2
            cases hst : startSrc cfg src ctx g2 with
            | go r0 inh0 c0 g3 =>
              rw [hst] at hsrc
              rw [hs2, hi2] at hsrc
              have ih := runSteps_den cfg steps (src == .unit) lazy (if lazy = true then c0 else ctx) r0 inh0 g3
              simp only []
              rw [asyncFinish_den, ih]
              simp [specCallK, specCall_async, hr, hsrc.1, hsrc.2]
            | wait w inh0 g3 =>
              rw [hst] at hsrc
              rw [hs2, hi2] at hsrc
              obtain ⟨h1, h2, h3, h5⟩ := hsrc
              simp only []
              simp [denK, specThread, specFrames, (hacct g3).1, (hacct g3).2, h1, specCallK, specCall_async, hr, h2, h3, h5]
            | crash g3 => rw [hst] at hsrc; exact hsrc.elim
          cases lazy with
          | false =>
            simp only [↓reduceIte, Bool.false_eq_true]
            exact key ((G.allocCore (g.invoke id ctx via) (srcCores src + steps.length)).allocFunctor
              (srcFunctors src + steps.length)) (by simp) (by simp) (asyncRetAcct (stepType mode hd)) (fun x => ⟨by simp, by simp⟩)
          | true =>
            simp only [↓reduceIte]
            rw [enterHere_eq]
            exact key (asyncRetAcct (stepType mode hd) ((G.allocCore (g.invoke id ctx via) (srcCores src + steps.length)).allocFunctor
              (srcFunctors src + steps.length))) (by simp) (by simp) (fun x => x) (fun x => ⟨rfl, rfl⟩)
      | doneException =>
        have hr' : runsOn sig (seenInput (stepType mode hd) dropped input0) = false := by
          cases h : runsOn sig (seenInput (stepType mode hd) dropped input0) with
          | false => rfl
          | true => have := (route_call_iff sig mode hd dropped input0).2 h; rw [hact] at this; cases this
        have hp := route_pass sig mode hd dropped input0 hr'
        rw [hact] at hp; simp [denK, specCallK, specCall_skip, hr', hp]
      | doneError =>
        have hr' : runsOn sig (seenInput (stepType mode hd) dropped input0) = false := by
          cases h : runsOn sig (seenInput (stepType mode hd) dropped input0) with
          | false => rfl
          | true => have := (route_call_iff sig mode hd dropped input0).2 h; rw [hact] at this; cases this
        have hp := route_pass sig mode hd dropped input0 hr'
        rw [hact] at hp; simp [denK, specCallK, specCall_skip, hr', hp]
      | doneResult =>
        have hr' : runsOn sig (seenInput (stepType mode hd) dropped input0) = false := by
          cases h : runsOn sig (seenInput (stepType mode hd) dropped input0) with
          | false => rfl
          | true => have := (route_call_iff sig mode hd dropped input0).2 h; rw [hact] at this; cases this
        have hp := route_pass sig mode hd dropped input0 hr'
        rw [hact] at hp; simp [denK, specCallK, specCall_skip, hr', hp]

  theorem runSteps_den (cfg : Cfg) :
      ∀ (ss : List Step) (hd flow : Bool) (ctx : Option Nat) (r : R) (inh : Exec) (g : G),
      denK cfg [] (runSteps cfg ss hd flow ctx r inh g) = some (specSteps cfg ss hd r inh g.subs g.invoked)
    | [], hd, flow, ctx, r, inh, g => by simp [runSteps, denK, specSteps]
    | s :: ss, hd, flow, ctx, r, inh, g => by
      have ih := fun c' r' inh' g' => runSteps_den cfg ss false flow c' r' inh' g'
      rw [runSteps.eq_def]
      simp only []
      rw [specSteps_cons, implSubmits_stepType, transferExecutorTo_eq]
      generalize hown : ownExec s.mode inh = own
      -- the common tail: continue with `ss` after the step's own cascade
      have tail : ∀ (o : Out) (X : SOut), denK cfg ss o = some X →
          denK cfg [] (match o with
            | .done r' inh' c' g' => runSteps cfg ss false flow (if flow = true then c' else ctx) r' inh' g'
            | o => o) = some X := by
        intro o X h1
        cases o with
        | done r' inh' c' g' =>
          simp only [denK] at h1
          simp only []
          rw [ih _ r' inh' g']
          exact h1
        | parked t g' => simpa [denK] using h1
        | crash g' => simp [denK] at h1
      by_cases hsub : (s.mode.submits || hd) = true
      · simp only [hsub, ite_true]
        have hoff := submit_offered cfg own ctx g (if hd = true then R.val 0 else r)
        cases hsb : submit cfg own ctx g with
        | callNow c g' =>
          rw [hsb] at hoff
          simp only []
          refine tail _ _ ?_
          rw [callStep_den cfg s ss hd false c (some own) r own g']
          simp [specCallK, seenInput, isRun_stepType, hoff.1, hoff.2]
        | dropNow c g' =>
          rw [hsb] at hoff
          simp only []
          refine tail _ _ ?_
          rw [callStep_den cfg s ss hd true c (some own) r own g']
          simp [specCallK, seenInput, hoff.1, hoff.2]
        | queued jid k g' =>
          rw [hsb] at hoff
          simp only []
          simp [denK, specThread, specFire, specFrames, hoff.1, hoff.2.1]
      · have hsub' : (s.mode.submits || hd) = false := by simpa using hsub
        have hhd : hd = false := by
          cases hd
          · rfl
          · simp at hsub'
        simp only [hsub', Bool.false_eq_true, ite_false]
        refine tail _ _ ?_
        rw [callStep_den cfg s ss hd false ctx none r own g]
        simp [specCallK, seenInput, isRun_stepType, hhd]
end

end Yaclib.Pipeline
