/- Master lemma: `callStep` / `runSteps` compute `specCall` / `specSteps` (mutual structural induction over the syntax). -/
import YaclibModel.Proofs.PipelineDen

namespace Yaclib.Pipeline
open Yaclib.Extracted

def specCallK (cfg : Cfg) (s : Step) (k : List Step) (input : R) (own : Exec) (subs inv : List Nat) : SOut :=
  let o := specCall cfg s input own subs inv
  specSteps cfg k false o.r o.inh o.subs o.invoked

/-- `asyncFinish`: the outer step completes with the inner result and its own executor -/
theorem asyncFinish_den (cfg : Cfg) (ty : Nat) (own : Exec) (k : List Step) (lazy : Bool) (ctx : Option Nat) (o : Out)
    (hk : d10FreeSteps k = true) (ho : okOut o = true) :
    denK cfg k (asyncFinish ty own k lazy ctx o) =
      (denK cfg [] o).map (fun o' => specSteps cfg k false o'.r own o'.subs o'.invoked)
    ∧ okOut (asyncFinish ty own k lazy ctx o) = true := by
  cases o with
  | done r inh c g =>
    cases lazy <;> simp [asyncFinish, denK, specSteps, okOut]
  | parked t g =>
    constructor
    · cases lazy <;>
        simp [asyncFinish, denK, specThread, specFrames_append, specFrames]
    · simp only [okOut, d10FreeThread, Bool.and_eq_true] at ho
      simp [asyncFinish, okOut, d10FreeThread, d10FreeFrames_append, d10FreeFrames, ho.1.1, ho.1.2, ho.2, hk]
  | crash g => simp [asyncFinish, denK, okOut]

mutual
  theorem callStep_den (cfg : Cfg) :
      ∀ (s : Step) (k : List Step) (hd dropped : Bool) (ctx : Option Nat) (via : Option Exec) (input0 : R) (own : Exec)
        (g : G), d10FreeStep s = true → d10FreeSteps k = true →
      denK cfg k (callStep cfg s k hd dropped ctx via input0 own g)
        = some (specCallK cfg s k (seenInput (stepType s.mode hd) dropped input0) own g.subs g.invoked)
      ∧ okOut (callStep cfg s k hd dropped ctx via input0 own g) = true
    | .mk id sig mode beh, k, hd, dropped, ctx, via, input0, own, g, hs, hk => by
      simp only [Step.mode]
      rw [callStep.eq_def]
      simp only []
      cases hact : route sig (passesUnit (stepType mode hd) dropped sig) (Dispatch.isRun (stepType mode hd))
          (seenInput (stepType mode hd) dropped input0) with
      | call =>
        have hr := (route_call_iff sig mode hd dropped input0).1 hact
        simp only []
        cases beh with
        | val n => simp [denK, specCallK, specCall_val, hr, okOut]
        | res r => simp [denK, specCallK, specCall_res, hr, okOut]
        | throw t => simp [denK, specCallK, specCall_throw, hr, okOut]
        | async src lazy steps =>
          simp only [d10FreeStep, Bool.and_eq_true] at hs
          have hsteps : d10FreeSteps steps = true := hs.2
          simp only []
          cases lazy with
          | false =>
            simp only [Bool.false_eq_true, ite_false]
            have hsrc := startSrc_spec cfg src ctx
              ((G.allocCore (g.invoke id ctx via) (srcCores src + steps.length)).allocFunctor (srcFunctors src + steps.length))
            cases hst : startSrc cfg src ctx
              ((G.allocCore (g.invoke id ctx via) (srcCores src + steps.length)).allocFunctor (srcFunctors src + steps.length)) with
            | go r0 inh0 c0 g3 =>
              rw [hst] at hsrc
              simp only [allocFunctor_subs, allocCore_subs, invoke_subs, allocFunctor_invoked, allocCore_invoked,
                invoke_invoked] at hsrc
              have ih := runSteps_den cfg steps (src == .unit) false ctx r0 inh0 g3 hsteps
              have hf := asyncFinish_den cfg (stepType mode hd) own k false ctx _ hk ih.2
              simp only []
              refine ⟨?_, hf.2⟩
              rw [hf.1, ih.1]
              simp [specCallK, specCall_async, hr, hsrc.1, hsrc.2]
            | wait w inh0 g3 =>
              rw [hst] at hsrc
              simp only [allocFunctor_subs, allocCore_subs, invoke_subs, allocFunctor_invoked, allocCore_invoked,
                invoke_invoked] at hsrc
              obtain ⟨h1, h2, h3, h4, h5⟩ := hsrc
              simp only []
              constructor
              · simp [denK, specThread, specFrames, h1, specCallK, specCall_async, hr, h2, h3, h5]
              · simp [okOut, d10FreeThread, d10FreeFrames, h4, hsteps, hk]
            | crash g3 => rw [hst] at hsrc; exact hsrc.elim
          | true =>
            simp only [ite_true]
            have hready : src.isReady = true := by simpa using hs.1
            have hsrc := enterHere_spec cfg src ctx (asyncRetAcct (stepType mode hd)
              ((G.allocCore (g.invoke id ctx via) (srcCores src + steps.length)).allocFunctor (srcFunctors src + steps.length)))
              hready
            cases hst : enterHere src ctx (asyncRetAcct (stepType mode hd)
              ((G.allocCore (g.invoke id ctx via) (srcCores src + steps.length)).allocFunctor (srcFunctors src + steps.length))) with
            | go r0 inh0 c0 g3 =>
              rw [hst] at hsrc
              simp only [asyncRetAcct_subs, asyncRetAcct_invoked, allocFunctor_subs, allocCore_subs, invoke_subs,
                allocFunctor_invoked, allocCore_invoked, invoke_invoked] at hsrc
              have ih := runSteps_den cfg steps (src == .unit) true c0 r0 inh0 g3 hsteps
              have hf := asyncFinish_den cfg (stepType mode hd) own k true ctx _ hk ih.2
              simp only []
              refine ⟨?_, hf.2⟩
              rw [hf.1, ih.1]
              simp [specCallK, specCall_async, hr, hsrc.1, hsrc.2]
            | wait w inh0 g3 => rw [hst] at hsrc; exact hsrc.elim
            | crash g3 => rw [hst] at hsrc; exact hsrc.elim
      | doneException =>
        have hr' : runsOn sig (seenInput (stepType mode hd) dropped input0) = false := by
          cases h : runsOn sig (seenInput (stepType mode hd) dropped input0) with
          | false => rfl
          | true => have := (route_call_iff sig mode hd dropped input0).2 h; rw [hact] at this; cases this
        have hp := route_pass sig mode hd dropped input0 hr'
        rw [hact] at hp; simp [denK, specCallK, specCall_skip, hr', hp, okOut]
      | doneError =>
        have hr' : runsOn sig (seenInput (stepType mode hd) dropped input0) = false := by
          cases h : runsOn sig (seenInput (stepType mode hd) dropped input0) with
          | false => rfl
          | true => have := (route_call_iff sig mode hd dropped input0).2 h; rw [hact] at this; cases this
        have hp := route_pass sig mode hd dropped input0 hr'
        rw [hact] at hp; simp [denK, specCallK, specCall_skip, hr', hp, okOut]
      | doneResult =>
        have hr' : runsOn sig (seenInput (stepType mode hd) dropped input0) = false := by
          cases h : runsOn sig (seenInput (stepType mode hd) dropped input0) with
          | false => rfl
          | true => have := (route_call_iff sig mode hd dropped input0).2 h; rw [hact] at this; cases this
        have hp := route_pass sig mode hd dropped input0 hr'
        rw [hact] at hp; simp [denK, specCallK, specCall_skip, hr', hp, okOut]

  theorem runSteps_den (cfg : Cfg) :
      ∀ (ss : List Step) (hd flow : Bool) (ctx : Option Nat) (r : R) (inh : Exec) (g : G), d10FreeSteps ss = true →
      denK cfg [] (runSteps cfg ss hd flow ctx r inh g) = some (specSteps cfg ss hd r inh g.subs g.invoked)
      ∧ okOut (runSteps cfg ss hd flow ctx r inh g) = true
    | [], hd, flow, ctx, r, inh, g, _ => by simp [runSteps, denK, specSteps, okOut]
    | s :: ss, hd, flow, ctx, r, inh, g, h => by
      simp only [d10FreeSteps, Bool.and_eq_true] at h
      obtain ⟨hs, hss⟩ := h
      have ih := fun c' r' inh' g' => runSteps_den cfg ss false flow c' r' inh' g' hss
      rw [runSteps.eq_def]
      simp only []
      rw [specSteps_cons, implSubmits_stepType, transferExecutorTo_eq]
      generalize hown : ownExec s.mode inh = own
      -- the common tail: continue with `ss` after the step's own cascade
      have tail : ∀ (o : Out) (X : SOut), denK cfg ss o = some X → okOut o = true →
          denK cfg [] (match o with
            | .done r' inh' c' g' => runSteps cfg ss false flow (if flow = true then c' else ctx) r' inh' g'
            | o => o) = some X ∧
          okOut (match o with
            | .done r' inh' c' g' => runSteps cfg ss false flow (if flow = true then c' else ctx) r' inh' g'
            | o => o) = true := by
        intro o X h1 h2
        cases o with
        | done r' inh' c' g' =>
          simp only [denK] at h1
          simp only []
          rw [(ih _ r' inh' g').1]
          exact ⟨h1, (ih _ r' inh' g').2⟩
        | parked t g' => exact ⟨by simpa [denK] using h1, h2⟩
        | crash g' => simp [denK] at h1
      by_cases hsub : (s.mode.submits || hd) = true
      · simp only [hsub, ite_true]
        have hoff := submit_offered cfg own ctx g (if hd = true then R.val 0 else r)
        cases hsb : submit cfg own ctx g with
        | callNow c g' =>
          rw [hsb] at hoff
          simp only []
          have h1 := callStep_den cfg s ss hd false c (some own) r own g' hs hss
          refine tail _ _ ?_ h1.2
          rw [h1.1]
          simp [specCallK, seenInput, isRun_stepType, hoff.1, hoff.2]
        | dropNow c g' =>
          rw [hsb] at hoff
          simp only []
          have h1 := callStep_den cfg s ss hd true c (some own) r own g' hs hss
          refine tail _ _ ?_ h1.2
          rw [h1.1]
          simp [specCallK, seenInput, Dispatch.dropInput, hoff.1, hoff.2]
        | queued jid k g' =>
          rw [hsb] at hoff
          simp only []
          constructor
          · simp [denK, specThread, specFire, specFrames, hoff.1, hoff.2.1]
          · simp [okOut, d10FreeThread, d10FreeWait, d10FreeFrames, hs, hss]
      · have hsub' : (s.mode.submits || hd) = false := by simpa using hsub
        have hhd : hd = false := by
          cases hd
          · rfl
          · simp at hsub'
        simp only [hsub', Bool.false_eq_true, ite_false]
        have h1 := callStep_den cfg s ss hd false ctx none r own g hs hss
        refine tail _ _ ?_ h1.2
        rw [h1.1]
        simp [specCallK, seenInput, isRun_stepType, hhd]
end

end Yaclib.Pipeline
