/- Invariants of the C16 model, part 3: the life cycle of the waiter objects — every waiter is released at most once, the
   heap waiter of a timed wait is freed exactly once by whoever lets go last, nobody touches a waiter that is gone. -/
import YaclibModel.Proofs.EventTokStep

namespace Yaclib.Event

/-- the thread is inside the MutexEvent part of `Wait` / `TimedWait` on job `j` -/
def Pc.bphase : Pc → Option Nat
  | .bLock j | .bHeld j | .bAsleep j | .bTimedOut j | .bUnlockRet j _ => some j
  | _ => none

theorem Pc.bphase_owner {pc : Pc} {j : Nat} (h : pc.bphase = some j) : pc.owner = some j := by
  cases pc <;> simp_all [Pc.bphase, Pc.owner]

def JSt.inList : JSt → Bool
  | .fresh | .listed | .running => true
  | _ => false

structure InvJ (s : State) : Prop where
  j_out : ∀ j, s.njobs ≤ j → s.job j = {}
  j_own : ∀ t j, (s.thr t).pc.owner = some j → j < s.njobs ∧ (s.job j).owner = t ∧ (s.job j).odone = false
  j_tryL : ∀ t j, (s.thr t).pc = .tryL j →
    (s.job j).st = .fresh ∧ (s.job j).freed = false ∧ (s.job j).ready = false ∧ (s.job j).holder = none ∧
    ((s.job j).kind = .timed → (s.job j).oref = true)
  j_tryC : ∀ t j x, (s.thr t).pc = .tryC j x →
    (s.job j).st = .fresh ∧ (s.job j).freed = false ∧ (s.job j).ready = false ∧ (s.job j).holder = none ∧
    ((s.job j).kind = .timed → (s.job j).oref = true)
  j_res : ∀ t j, (s.thr t).pc = .resume j → (s.job j).st = .failed ∧ (s.job j).kind = .coro
  j_b : ∀ t j, (s.thr t).pc.bphase = some j → (s.job j).kind ≠ .coro ∧ (s.job j).st ≠ .fresh ∧ (s.job j).st ≠ .failed ∧
    (s.job j).freed = false ∧ ((s.job j).kind = .timed → (s.job j).oref = true)
  j_to : ∀ t j, (s.thr t).pc = .bTimedOut j → (s.job j).kind = .timed
  j_ret : ∀ t j b, (s.thr t).pc = .bUnlockRet j b → (s.job j).kind = .blocking → (s.job j).ready = true
  j_dec : ∀ t j b, (s.thr t).pc = .bDec j b → (s.job j).kind = .timed ∧ (s.job j).st ≠ .fresh ∧ (s.job j).st ≠ .failed ∧
    (s.job j).oref = true
  j_rep : ∀ t j b, (s.thr t).pc = .rep j b → (s.job j).kind ≠ .coro ∧ ((s.job j).kind = .timed → (s.job j).oref = false)
  /-- the list and the run of `SetImpl` -/
  l_head : ∀ l, s.head = some l → l.Nodup ∧ ∀ j, j ∈ l → (s.job j).st = .listed
  l_run : ∀ t js b, (s.thr t).pc = .run js b → js ≠ [] ∧ js.Nodup ∧ ∀ j, j ∈ js → (s.job j).st = .running
  l_dec : ∀ t j rest, (s.thr t).pc = .runDec j rest → (s.job j).st = .running ∧ (s.job j).kind = .timed ∧ j ∉ rest ∧
    rest.Nodup ∧ ∀ k, k ∈ rest → (s.job k).st = .running
  l_runk : ∀ t j rest, (s.thr t).pc = .run (j :: rest) true → (s.job j).kind ≠ .coro ∧ (s.job j).holder = some t
  /-- every waiter is released at most once -/
  r_nrel : ∀ j, (s.job j).nrel ≤ 1
  r_coro : ∀ j, (s.job j).kind = .coro →
    ((s.job j).nrel = 1 ↔ (s.job j).st = .called ∨ ((s.job j).st = .failed ∧ (s.job j).odone = true))
  r_block : ∀ j, (s.job j).kind ≠ .coro → (s.job j).nrel = 1 → (s.job j).odone = true
  /-- the waiter's mutex -/
  m_hold : ∀ j t, (s.job j).holder = some t →
    (∃ rest, (s.thr t).pc = .run (j :: rest) true) ∨ (s.thr t).pc = .bHeld j ∨ ∃ b, (s.thr t).pc = .bUnlockRet j b
  m_held : ∀ t j, (s.thr t).pc = .bHeld j → (s.job j).holder = some t
  m_uret : ∀ t j b, (s.thr t).pc = .bUnlockRet j b → (s.job j).holder = some t
  /-- the flag -/
  y_st : ∀ j, (s.job j).ready = true → (s.job j).kind ≠ .coro ∧ ((s.job j).st = .running ∨ (s.job j).st = .called)
  y_run : ∀ j, (s.job j).ready = true → (s.job j).st = .running → (s.job j).kind = .blocking →
    (s.job j).holder ≠ none ∧ ∀ t, (s.job j).holder = some t → ∃ rest, (s.thr t).pc = .run (j :: rest) true
  /-- life time -/
  f_run : ∀ j, (s.job j).st = .listed ∨ (s.job j).st = .running → (s.job j).freed = false
  f_timed : ∀ j, (s.job j).kind = .timed → (s.job j).st ≠ .failed →
    (s.job j).refs = (if (s.job j).oref then 1 else 0) + (if (s.job j).st.inList then 1 else 0) ∧
    ((s.job j).freed = true ↔ (s.job j).refs = 0) ∧ (s.job j).nfree = (if (s.job j).freed then 1 else 0)
  f_failed : ∀ j, (s.job j).kind = .timed → (s.job j).st = .failed →
    (s.job j).freed = true ∧ (s.job j).nfree = 1 ∧ (s.job j).oref = false
  f_other : ∀ j, (s.job j).kind ≠ .timed → (s.job j).nfree = 0
  f_coro : ∀ j, (s.job j).kind = .coro → (s.job j).freed = false
  bad : s.bad = false

theorem invJ_init (w : Workload) : InvJ (init w) := by
  constructor <;> simp [init, JSt.inList] <;> intro t <;> split <;> simp [Pc.owner, Pc.bphase]

end Yaclib.Event
