/- preservation of InvB: fulfilment and foreign registration (the word of one cell changes, my callbacks stay) -/
import YaclibModel.Proofs.Coro
namespace Yaclib.Coro

theorem setWord_pc (s : State) (j : Nat) (wd : Word) : (s.setWord j wd).pc = s.pc := rfl
theorem setWord_todo (s : State) (j : Nat) (wd : Word) : (s.setWord j wd).todo = s.todo := rfl
theorem setWord_st (s : State) (j : Nat) (wd : Word) : (s.setWord j wd).st = s.st := rfl

macro "invB_auto1" : tactic =>
  `(tactic| (constructor <;> (try simp only [setWord_word, setWord_pc, setWord_todo, setWord_st]) <;>
      grind [Word.cbs, Word.isResult]))

set_option maxHeartbeats 8000000 in
theorem invB_step_1 {w s l s'} (ha : InvA w s) (hb : InvB w s) (hs : Step s l s')
    (hl : match l with | .pXchg _ | .envPush _ => True | _ => False) : InvB w s' := by
  have hw := ha.hw
  cases hb
  cases hs with
  | pXchg j l f hw hl => invB_auto1
  | envPush j l f hw hu => invB_auto1
  | _ => simp at hl

end Yaclib.Coro
