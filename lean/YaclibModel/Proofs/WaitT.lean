/- C11 invariant: preservation by the reset loop and the second `SubEqual` -/
import YaclibModel.Proofs.WaitR0

namespace Yaclib.Wait
variable {w : Workload} {s : State}


set_option maxHeartbeats 1000000 in
/-- `Reset` of future `i` did not win the word back (it holds the result, or the CAS failed): move on -/
theorem inv_rstNext (hi : Inv w s) (i : Nat) (hp : s.wpc = .rst i ∨ ∃ x, s.wpc = .rstCas i x)
    (hni : (s.fut i).g ≠ .inn) : Inv w (advRst s (i + 1)) := by
  have hr := hi.rst_inv i hp
  have hb := hi.rst_hi i hp
  rw [← advRst_wpc s (.rst (i + 1))]
  apply inv_advRst _ (i + 1) rfl
  rcases hp with hp | ⟨x, hp⟩ <;> inv_fields_pc_at hi hp i

set_option maxHeartbeats 1000000 in
theorem inv_toRstCas (hi : Inv w s) (i : Nat) (x : Word) (hp : s.wpc = .rst i) (hx : loadOk (s.fut i) x)
    (hne : x ≠ .result) : Inv w { s with wpc := .rstCas i x } := by
  have hal : s.alive = true := hi.alive_iff.mpr (by simp [hp, WPc.inCall])
  have hev : (s.fut i).g = .inn → x = .ev := by
    intro hg
    have hw := hi.g_inn hal i hg
    rcases hx with h | h
    · rw [h, hw]
    · rw [hw] at h; cases h.1
  inv_fields_pc hi hp



/-- a successful `Reset` CAS can only have hit a word that still held the event pointer -/
theorem rst_ok_inn (hi : Inv w s) (i : Nat) (x : Word) (hp : s.wpc = .rstCas i x) (hw : (s.fut i).word = x) :
    (s.fut i).g = .inn := by
  have hal : s.alive = true := hi.alive_iff.mpr (by simp [hp, WPc.inCall])
  have hx := hi.rstcas_x i x hp
  have hr := hi.rst_inv i (Or.inr ⟨x, hp⟩)
  have hlt : i < s.hi := by have := hr.2; simp at this; exact this
  have hs := hi.start_iff i
  have hnr : (s.fut i).word ≠ .result := by rw [hw]; exact hx
  have hst := hs.mpr hnr
  cases hg : (s.fut i).g with
  | inn => rfl
  | out =>
      have := hi.g_out hal i hr.1 (by simp only [regBound, hp]; exact hlt) hg
      exact absurd this hnr
  | taken => have := hi.g_taken hal i hg; rw [hst] at this; cases this
  | decd => have := hi.g_decd hal i hg; rw [hst] at this; simp at this
  | back => exact absurd hg (hi.rst_hi i (Or.inr ⟨x, hp⟩) i (Nat.le_refl _))

set_option maxHeartbeats 1000000 in
theorem inv_wRstCasOk (hi : Inv w s) (i : Nat) (x : Word) (hp : s.wpc = .rstCas i x) (hw : (s.fut i).word = x) :
    Inv w (doRstCasOk s i) := by
  have hal : s.alive = true := hi.alive_iff.mpr (by simp [hp, WPc.inCall])
  have hg := rst_ok_inn hi i x hp hw
  have hr := hi.rst_inv i (Or.inr ⟨x, hp⟩)
  have hb := hi.rst_hi i (Or.inr ⟨x, hp⟩)
  have hlt : i < s.hi := by have := hr.2; simp at this; exact this
  have hres := hi.resetting (by simp [hp, WPc.resetting])
  unfold doRstCasOk
  rw [← advRst_wpc _ (.rst (i + 1))]
  apply inv_advRst _ (i + 1) rfl
  have e := cnt4 (f := s.fut) (x := { s.fut i with word := .empty, prev := .empty, g := .back }) hlt .inn .back hg rfl
  simp at e
  obtain ⟨e1, e2, e3, e4⟩ := e
  have hpos : 1 ≤ cntG s.fut .inn s.hi := cntG_pos hlt hg
  constructor <;> (try simp only [Ninn, Ntaken, Ndecd, Nback, e2, e3])
  inv_solve_pc_at hi hp i



set_option maxHeartbeats 1000000 in
theorem inv_wSub2 (hi : Inv w s) (hp : s.wpc = .sub2) : Inv w (doSub2 s) := by
  have hal : s.alive = true := hi.alive_iff.mpr (by simp [hp, WPc.inCall])
  have h2 := hi.sub2_inv hp
  have hone := h2.1
  have hres := hi.resetting (by simp [hp, WPc.resetting])
  have hs1 : s.sub1done = true := by
    rcases hi.later_inv (by simp [hp, WPc.postReg]) (by simp [hp]) with h | h
    · exact absurd h hone
    · exact h
  have hcnt := hi.c_cnt hal hone
  have hwc := hi.c_wc hal
  have hrc := hi.c_rc hal
  have hle := hi.wc_le hal
  have hNinn : Ninn s = 0 := by
    apply cntG_zero_of
    intro j hj
    by_cases hlo : s.lo ≤ j
    · exact hi.rst_lo hal j hlo (by simp only [rstBound, hp]; omega)
    · intro hg; have := hi.g_range hal j (by simp [hg]); omega
  simp only [hs1, hres.2.2, Bool.false_eq_true, ↓reduceIte, Ninn, Ntaken, Ndecd, Nback] at hcnt hwc hrc hNinn
  unfold doSub2
  by_cases hz : s.counter = (s.rc : Int)
  · have h2t : Ntaken s = 0 := by simp only [Ntaken]; omega
    have hnos : s.setter = none := by
      cases hs : s.setter with
      | none => rfl
      | some j => have := hi.set_cnt hal hone (by simp [hs]); omega
    have hclean := hi.clean_of hal hNinn h2t hnos
    have hto := hi.timed_only (by simp [hp, WPc.timedOnly])
    simp only [hz, ↓reduceIte]
    inv_fields_pc hi hp
  · simp only [hz, ↓reduceIte, finalWait, hres.1, Bool.false_eq_true]
    inv_fields_pc hi hp

end Yaclib.Wait
