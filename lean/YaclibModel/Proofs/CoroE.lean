/- preservation of InvE: the executor stored in a core nobody else can reach -/
import YaclibModel.Proofs.CoroD3
namespace Yaclib.Coro

theorem cellsAfter_cexec (s : State) (c : Ctx) (i : Nat) :
    (cellsAfter s c i).cexec = if c = .cell i then s.exec else (s.cells i).cexec := by
  cases c with
  | inl => simp [cellsAfter]
  | exec e => simp [cellsAfter]
  | cell j =>
      simp only [cellsAfter, upd]
      by_cases h : i = j
      · subst h; simp
      · simp [h]; intro h'; exact absurd h'.symm h

theorem upd_cexec_word (s : State) (j i : Nat) (wd : Word) :
    ((s.setWord j wd).cells i).cexec = (s.cells i).cexec := by
  simp only [State.setWord, upd]; split <;> simp_all

theorem cbDone_wake_cell (k : AKind) (j e j' : Nat) (h : cbDone k j e = .wake (.cell j')) : j' = j := cbDone_cell k j e j' h
theorem selfDone_ne_wake_cell (k : AKind) (j : Nat) : selfDone k ≠ .wake (.cell j) := selfDone_not_cell k j
theorem subNext_ne_wake_cell (k : AKind) (j : Nat) : subNext k ≠ .wake (.cell j) := subNext_ne_wake k _

theorem setWord_resumed (s : State) (j : Nat) (wd : Word) : (s.setWord j wd).resumed = s.resumed := rfl

macro "invE_auto" : tactic =>
  `(tactic| (constructor <;> (try simp only [doSubmit, doDrop, doLdtor, doRet, doPublish, doFdtor, doReady, doMReady, doMsub, doMsuspend,
      doRegLoad, regFail, regFrom, afterReg, doCurrent, State.word, setWord_cells_word, upd_cexec_word, setWord_pc, setWord_resumed]) <;>
      (try simp only [State.word] at *) <;>
      grind [Word.cbs, Word.isResult, selfDone_ne_wake_cell, subNext_ne_wake_cell]))

set_option maxHeartbeats 16000000 in
theorem invE_step_1 {w s l s'} (ha : InvA w s) (he : InvE w s) (hs : Step s l s')
    (hl : match l with | .pXchg _ | .envPush _ | .exCall | .exDrop | .ldtor | .ret | .publish _ | .fdtor
                       | .rdLoad _ | .mload _ | .ready _ | .msub | .msuspend | .regLoad _ _ | .submit _ | .current _ => True
                       | _ => False) : InvE w s' := by
  have hw := ha.hw
  cases he
  cases hs with
  | pXchg j l f hw hl => have hw' : (s.cells j).word = .open l f := hw; invE_auto
  | envPush j l f hw hu => have hw' : (s.cells j).word = .open l f := hw; invE_auto
  | exCall e h => invE_auto
  | exDrop e h => invE_auto
  | ldtor h hl => invE_auto
  | ret h ht => invE_auto
  | publish r h hr hl => invE_auto
  | fdtor h hl => invE_auto
  | rdLoad op rest j x h ht hj hx => invE_auto
  | mload v h hv => invE_auto
  | ready x h => cases hb : awaitReady x <;> invE_auto
  | mready v h => cases hb : decide (v = 1) <;> invE_auto
  | msub op rest h ht => invE_auto
  | msuspend op rest h ht => invE_auto
  | regLoad op rest p j x h ht hj hx => invE_auto
  | submit e h => invE_auto
  | current op rest h ht => invE_auto
  | _ => simp at hl

end Yaclib.Coro
