/- preservation of InvE: the executor stored in an awaited core that is not a Task is never written -/
import YaclibModel.Proofs.CoroD3
namespace Yaclib.Coro

theorem upd_cexec_word (s : State) (j i : Nat) (wd : Word) :
    ((s.setWord j wd).cells i).cexec = (s.cells i).cexec := by
  simp only [State.setWord, upd]; split <;> simp_all

theorem setWord_resumed (s : State) (j : Nat) (wd : Word) : (s.setWord j wd).resumed = s.resumed := rfl

theorem wft_lazy {w : Workload} {s : State} {op : Op} {rest : List Op} {j : Nat} (hwt : w.WFT) (ha : InvA w s)
    (ht : s.todo = op :: rest) (hj : j ∈ op.cells) : (op.kind = .task ↔ (w.cell j).lazy = true) := by
  rcases ha.todo_eq with h | h
  · apply hwt op _ j hj
    have : op ∈ w.prog.drop s.k := by rw [← h, ht]; simp
    exact List.mem_of_mem_drop this
  · rw [h.2] at ht; cases ht

macro "invE_auto" : tactic =>
  `(tactic| (constructor <;> (try simp only [doSubmit, doDrop, doLdtor, doRet, doPublish, doFdtor, doTdtor, doReady, doMReady, doMsub,
      doMsuspend, doCurrent, upd_cexec_word, setWord_resumed]) <;> grind))

set_option maxHeartbeats 16000000 in
theorem invE_step {w s l s'} (hwt : w.WFT) (hi : Inv w s) (he : InvE w s) (hs : Step s l s') : InvE w s' := by
  have ha := hi.a
  have hw := ha.hw
  cases hs with
  | pXchg j l f hw hl => cases he; invE_auto
  | envPush j l f hw hu => cases he; invE_auto
  | envSwap j e hu =>
      have hl : (w.cell j).lazy = true := by simp [swapAllowed, hw] at hu; exact hu.1
      cases he
      constructor <;> (simp only [upd]) <;> grind
  | fire op rest j p walk ht hw' hp =>
      cases he
      simp only [doFire]
      (repeat' split) <;> (constructor <;> (simp only [upd_cexec_word, setWord_resumed]) <;> grind)
  | exCall e h => cases he; invE_auto
  | exDrop e h => cases he; invE_auto
  | start op rest h ht =>
      cases he
      cases hk : op.kind <;> (try (rename_i o; cases o)) <;>
        (simp only [doStart, regFrom, afterReg, hk, isMulti, startExec, startCnt, selfDone]) <;>
        (repeat' split) <;> (constructor <;> grind)
  | rdLoad op rest j x h ht hj hx => cases he; invE_auto
  | ready x h => cases he; cases hb : awaitReady x <;> invE_auto
  | mready v h => cases he; cases hb : decide (v = 1) <;> invE_auto
  | regLoad op rest p j x h ht hj hx =>
      cases he
      simp only [doRegLoad, regFail, regFrom, afterReg]
      (repeat' split) <;> (constructor <;> grind)
  | casOk op rest p j l f h ht hj hw' hu =>
      cases he
      simp only [doCasOk, regFrom, afterReg]
      (repeat' split) <;> (constructor <;> (simp only [upd_cexec_word, setWord_resumed]) <;> grind)
  | casRetry op rest p j h ht hj hw' hu => exact he
  | casFail op rest p j h ht hj hw' =>
      cases he
      simp only [regFail, regFrom, afterReg]
      (repeat' split) <;> (constructor <;> grind)
  | msub op rest h ht => cases he; invE_auto
  | mload v h hv => cases he; invE_auto
  | msuspend op rest h ht =>
      cases he
      simp only [doMsuspend]
      split <;> (constructor <;> grind)
  | tstore op rest j h ht hj =>
      have hpk := ha.pc_kind op rest ht
      rw [h] at hpk
      have hk : op.kind = .task := by simpa [pcKindOk] using hpk
      have hlazy : (w.cell j).lazy = true := (wft_lazy hwt ha ht (List.mem_iff_getElem?.mpr ⟨0, hj⟩)).mp hk
      cases he
      simp only [doTstore]
      constructor <;> (simp only [upd]) <;> grind
  | submit e h => cases he; invE_auto
  | resume op rest c h ht =>
      have hcex := he.cexec
      cases he
      simp only [doResume]
      constructor <;> grind [execAfter]
  | current op rest h ht => cases he; invE_auto
  | tdtor j h hl hr => cases he; invE_auto
  | ldtor h hl => cases he; invE_auto
  | ret h ht => cases he; invE_auto
  | publish r h hr hl => cases he; invE_auto
  | fdtor h hl => cases he; invE_auto

end Yaclib.Coro
