import YaclibModel.Proofs.CoSharedMutex
namespace Yaclib.CoSharedMutex

set_option maxHeartbeats 4000000 in
theorem inv_step_7 {cfg s l s'} (hi : Inv cfg s) (hs : Step s l s') (hg : grpOf l = 7) : Inv cfg s' := by
  cases hs with
  | wrPost c r h hs =>
      cases hi
      by_cases hp : s.rwait = -(r : Int)
      · simp only [doWrPost, hp, ↓reduceIte]; sm_auto [List.count_le_length]
      · simp only [doWrPost, hp, ↓reduceIte]; sm_auto [List.count_le_length]
  | wUnlock c k h hs =>
      cases hi
      cases k
      · simp only [doWUnlock]; sm_auto [List.count_le_length]
      · by_cases hc : (s.cfg.fifo = true ∧ s.Q = [])
        · simp only [doWUnlock, hc, and_self, ↓reduceIte]; sm_auto [List.count_le_length]
        · simp only [doWUnlock, hc, ↓reduceIte]; sm_auto [List.count_le_length]
  | _ => simp [grpOf] at hg

end Yaclib.CoSharedMutex
