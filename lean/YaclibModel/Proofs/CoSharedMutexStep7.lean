import YaclibModel.Proofs.CoSharedMutex
namespace Yaclib.CoSharedMutex

set_option maxHeartbeats 4000000 in
theorem inv_step_7 {cfg s l s'} (hi : Inv cfg s) (hs : Step s l s') (hg : grpOf l = 7) : Inv cfg s' := by
  cases hi
  cases hs with
  | wrPost c r h hs =>
      by_cases hp : s.rwait = -(r : Int)
      · simp only [doWrPost, hp, ↓reduceIte]; sm_dbg [List.count_le_length, List.length_eq_zero_iff, length_pos_of_ne_nil]
      · simp only [doWrPost, hp, ↓reduceIte]; sm_dbg [List.count_le_length, List.length_eq_zero_iff, length_pos_of_ne_nil]
  | wUnlock c k h hs =>
      cases k
      · simp only [doWUnlock]; sm_dbg [List.count_le_length, List.length_eq_zero_iff, length_pos_of_ne_nil]
      · by_cases hc : (s.cfg.fifo = true ∧ s.Q = [])
        · simp only [doWUnlock, hc, and_self, ↓reduceIte]; sm_dbg [List.count_le_length, List.length_eq_zero_iff, length_pos_of_ne_nil]
        · simp only [doWUnlock, hc, ↓reduceIte]; sm_dbg [List.count_le_length, List.length_eq_zero_iff, length_pos_of_ne_nil]
  | _ => simp [grpOf] at hg

end Yaclib.CoSharedMutex
