/- The mechanism computes the sequential reading: every suspended control state *denotes* what is left of `spec`,
   and every way `mech` continues preserves that denotation (compiler-correctness style); nothing crashes. -/
import YaclibModel.Proofs.PipelineBase

namespace Yaclib.Pipeline
open Yaclib.Extracted

/-! ### what a suspended control state still has to compute -/

def specFire (cfg : Cfg) (w : Wait) (inh : Exec) (subs inv : List Nat) : SOut :=
  match w with
  | .promise _ f => ⟨f.result, inh, subs, inv⟩
  | .job _ _ (.step s input hd) => specCall cfg s (if hd then .val 0 else input) inh subs inv
  | .job _ _ (.readyHead r) => ⟨r, inh, subs, inv⟩
  | .job _ _ (.promiseHead _ f) => ⟨f.result, inh, subs, inv⟩

def specFrames (cfg : Cfg) : List Frame → SOut → SOut
  | [], o => o
  | f :: fs, o => specFrames cfg fs (specSteps cfg f.rest false o.r f.own o.subs o.invoked)

def specThread (cfg : Cfg) (t : Thread) (subs inv : List Nat) : SOut :=
  let o := specFire cfg t.wait t.inh subs inv
  specFrames cfg t.outer (specSteps cfg t.rest false o.r o.inh o.subs o.invoked)

/-- denotation of the outcome of a cascade, continued by the chain `k` where the cascade itself did not take `k` along -/
def denK (cfg : Cfg) (k : List Step) : Out → Option SOut
  | .done r inh _ g => some (specSteps cfg k false r inh g.subs g.invoked)
  | .parked t g => some (specThread cfg t g.subs g.invoked)
  | .crash _ => none

theorem specFrames_append (cfg : Cfg) (a b : List Frame) (o : SOut) :
    specFrames cfg (a ++ b) o = specFrames cfg b (specFrames cfg a o) := by
  induction a generalizing o with
  | nil => rfl
  | cons f fs ih => simp [specFrames, ih]

theorem specSteps_append (cfg : Cfg) (a b : List Step) (hd : Bool) (r : R) (inh : Exec) (subs inv : List Nat) :
    specSteps cfg (a ++ b) hd r inh subs inv =
      (let o := specSteps cfg a hd r inh subs inv
       match a with
       | [] => specSteps cfg b hd r inh subs inv
       | _ :: _ => specSteps cfg b false o.r o.inh o.subs o.invoked) := by
  induction a generalizing hd r inh subs inv with
  | nil => rfl
  | cons s ss ih =>
    simp only [List.cons_append, specSteps]
    rw [ih]
    cases ss <;> rfl

/-- appending behind a non-head position -/
theorem specSteps_append_false (cfg : Cfg) (a b : List Step) (r : R) (inh : Exec) (subs inv : List Nat) :
    specSteps cfg (a ++ b) false r inh subs inv =
      (let o := specSteps cfg a false r inh subs inv
       specSteps cfg b false o.r o.inh o.subs o.invoked) := by
  rw [specSteps_append]
  cases a <;> rfl

/-! ### unfolding lemmas for `specCall` (stated explicitly: the equation compiler splits on the behaviour) -/

section unfold
variable (cfg : Cfg) (id : Nat) (sig : Sig) (mode : Mode) (input : R) (own : Exec) (subs inv : List Nat)

theorem specCall_skip (beh : Beh) (h : runsOn sig input = false) :
    specCall cfg (.mk id sig mode beh) input own subs inv = ⟨input, own, subs, inv⟩ := by
  rw [specCall.eq_def]; simp [h]

theorem specCall_val (n : Int) (h : runsOn sig input = true) :
    specCall cfg (.mk id sig mode (.val n)) input own subs inv = ⟨addK input n, own, subs, inv ++ [id]⟩ := by
  rw [specCall.eq_def]; simp [h]

theorem specCall_res (r : R) (h : runsOn sig input = true) :
    specCall cfg (.mk id sig mode (.res r)) input own subs inv = ⟨r, own, subs, inv ++ [id]⟩ := by
  rw [specCall.eq_def]; simp [h]

theorem specCall_throw (t : Nat) (h : runsOn sig input = true) :
    specCall cfg (.mk id sig mode (.throw t)) input own subs inv = ⟨.exc t, own, subs, inv ++ [id]⟩ := by
  rw [specCall.eq_def]; simp [h]

theorem specCall_async (src : Src) (lazy : Bool) (steps : List Step) (h : runsOn sig input = true) :
    specCall cfg (.mk id sig mode (.async src lazy steps)) input own subs inv =
      (let s0 := specSrc cfg src none false subs
       let o := specSteps cfg steps (src == .unit) s0.1 s0.2.1 s0.2.2 (inv ++ [id])
       ⟨o.r, own, o.subs, o.invoked⟩) := by
  rw [specCall.eq_def]; simp [h]
end unfold

theorem specSteps_cons (cfg : Cfg) (s : Step) (ss : List Step) (hd : Bool) (r : R) (inh : Exec) (subs inv : List Nat) :
    specSteps cfg (s :: ss) hd r inh subs inv =
      specSteps cfg ss false
        (specCall cfg s (if (s.mode.submits || hd) = true then
            offered cfg (ownExec s.mode inh) (if hd = true then .val 0 else r) subs
          else (r, subs)).1 (ownExec s.mode inh)
          (if (s.mode.submits || hd) = true then
            offered cfg (ownExec s.mode inh) (if hd = true then .val 0 else r) subs
          else (r, subs)).2 inv).r
        (specCall cfg s (if (s.mode.submits || hd) = true then
            offered cfg (ownExec s.mode inh) (if hd = true then .val 0 else r) subs
          else (r, subs)).1 (ownExec s.mode inh)
          (if (s.mode.submits || hd) = true then
            offered cfg (ownExec s.mode inh) (if hd = true then .val 0 else r) subs
          else (r, subs)).2 inv).inh
        (specCall cfg s (if (s.mode.submits || hd) = true then
            offered cfg (ownExec s.mode inh) (if hd = true then .val 0 else r) subs
          else (r, subs)).1 (ownExec s.mode inh)
          (if (s.mode.submits || hd) = true then
            offered cfg (ownExec s.mode inh) (if hd = true then .val 0 else r) subs
          else (r, subs)).2 inv).subs
        (specCall cfg s (if (s.mode.submits || hd) = true then
            offered cfg (ownExec s.mode inh) (if hd = true then .val 0 else r) subs
          else (r, subs)).1 (ownExec s.mode inh)
          (if (s.mode.submits || hd) = true then
            offered cfg (ownExec s.mode inh) (if hd = true then .val 0 else r) subs
          else (r, subs)).2 inv).invoked := by
  rw [specSteps.eq_def]

/-! ### sources -/

theorem startSrc_spec (cfg : Cfg) (src : Src) (ctx : Option Nat) (g : G) :
    match startSrc cfg src ctx g with
    | .go r inh _ g' => specSrc cfg src none false g.subs = (r, inh, g'.subs) ∧ g'.invoked = g.invoked
    | .wait w inh g' =>
      (∀ inv, specFire cfg w inh g'.subs inv = ⟨(specSrc cfg src none false g.subs).1, inh, g'.subs, inv⟩) ∧
      (specSrc cfg src none false g.subs).2 = (inh, g'.subs) ∧ g'.invoked = g.invoked ∧ (src == Src.unit) = false
    | .crash _ => False := by
  cases src with
  | ready r => simp [startSrc, specSrc]
  | contract p f => simp [startSrc, specSrc, specFire]
  | contractOn e p f => simp [startSrc, specSrc, specFire]
  | unit => simp [startSrc, specSrc]
  | promiseFn e p f =>
    have h := submit_offered cfg e ctx g f.result
    simp only [startSrc, specSrc, Option.getD_none]
    cases hs : submit cfg e ctx g with
    | callNow c g' => rw [hs] at h; simp [h.1, h.2, specFire]
    | dropNow c g' => rw [hs] at h; simp [h.1, h.2]
    | queued jid k g' => rw [hs] at h; simp [h.1, h.2.1, specFire]
  | sharedReady r => simp [startSrc, specSrc]
  | sharedContract p f => simp [startSrc, specSrc, specFire]
  | sharedKept e p f pre =>
    cases h : g.isSet p pre <;> simp [startSrc, h, specSrc, specFire]

end Yaclib.Pipeline
