import YaclibModel.Proofs.SharedR
namespace Yaclib.Shared

set_option maxHeartbeats 4000000 in
theorem invR_step_1 {w s l s'} (h0 : Inv0 s) (ha : InvA w s) (hi : InvR s) (hs : Step s l s') (hg : grpOf l = 1) :
    InvR s' := by
  have hle := h0.le
  have htwo := h0.two'
  have hbusy := h0.busy
  cases ha
  cases hi
  cases hs with
  | fRefLoad c rest d h hk hf => invR_auto
  | fForward c rest d n h hk hn => cases rest <;> invR_auto
  | fForwardPost c rest d h hk => cases rest <;> invR_auto
  | fEnter c rest d h hk hf => cases rest <;> invR_auto
  | rRefLoad c h => invR_auto
  | rRetire c n h =>
      have he := erase_nil_or_two_le h
      invR_auto
  | jInvoke c h => invR_auto
  | jDec c h => invR_auto
  | _ => simp [grpOf] at hg

end Yaclib.Shared
