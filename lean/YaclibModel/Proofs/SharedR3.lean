import YaclibModel.Proofs.SharedR
namespace Yaclib.Shared

set_option maxHeartbeats 4000000 in
theorem invR_step_3 {w s l s'} (h0 : Inv0 s) (ha : InvA w s) (hi : InvR s) (hs : Step s l s') (hg : grpOf l = 3) :
    InvR s' := by
  have hle := h0.le
  have hbusy := h0.busy
  cases ha
  cases hi
  cases hs with
  | oCasFail t c e x h hw hx =>
      have htwo := fun t' => h0.two' t' t
      cases x with
      | list l => invR_auto
      | result =>
          by_cases hke : c.kind = .event
          · simp only [reload, failPath, hke, ↓reduceIte]; invR_auto
          · simp only [reload, failPath, hke, ↓reduceIte]; invR_auto
  | oCasSpur t c e x h hw hx =>
      have htwo := fun t' => h0.two' t' t
      cases x with
      | list l => invR_auto
      | result =>
          by_cases hke : c.kind = .event
          · simp only [reload, failPath, hke, ↓reduceIte]; invR_auto
          · simp only [reload, failPath, hke, ↓reduceIte]; invR_auto
  | oInvoke t c h hk =>
      have htwo := fun t' => h0.two' t' t
      invR_auto
  | oIncRef t c h hk =>
      have htwo := fun t' => h0.two' t' t
      invR_auto
  | oSubmit t c h =>
      have htwo := fun t' => h0.two' t' t
      invR_auto
  | _ => simp [grpOf] at hg

end Yaclib.Shared
