/- C07, towers of strands (7): a restrictive base that honours the contract — one worker thread with a FIFO queue
   (abstraction of a one-thread pool, or of a manual executor drained by one thread), which may refuse (Drop) the job
   at the head of its queue at any time (stop / cancel). -/
import YaclibModel.Proofs.StrandTowerN

namespace Yaclib.Strand

structure W1 where
  prot : Prot
  queue : List Nat
  busy : Option Nat

def w1Step (s : W1) (e : XEv) (s' : W1) : Prop :=
  match e with
  | .sub a => s.prot a = .fresh ∧ s' = { prot := upd s.prot a .pending, queue := s.queue ++ [a], busy := s.busy }
  | .call a => s.busy = none ∧ ∃ rest, s.queue = a :: rest ∧ s' = { prot := upd s.prot a .calling, queue := rest, busy := some a }
  | .drop a => ∃ rest, s.queue = a :: rest ∧ s' = { prot := upd s.prot a .finished, queue := rest, busy := s.busy }
  | .ret a => s.busy = some a ∧ s' = { prot := upd s.prot a .finished, queue := s.queue, busy := none }

/-- one worker, FIFO -/
def worker1 : Exec :=
  { σ := W1, Lab := XEv, init := { prot := protInit, queue := [], busy := none }, step := w1Step, ev := some }

structure W1Inv (s : W1) (p : Prot) : Prop where
  prot_eq : s.prot = p
  queue_iff : ∀ a, a ∈ s.queue ↔ p a = .pending
  busy_iff : ∀ a, s.busy = some a ↔ p a = .calling
  nodup : s.queue.Nodup

theorem w1_step_inv {s : W1} {p : Prot} {e : XEv} {s' : W1} (hi : W1Inv s p) (hs : w1Step s e s')
    (hpre : e.isInput = true → specPre p e) : W1Inv s' (specPost p e) := by
  obtain ⟨h1, h2, h3, h4⟩ := hi
  subst h1
  cases e with
  | sub a =>
      obtain ⟨hf, rfl⟩ := hs
      constructor <;> simp only [specPost, upd] <;> grind [List.nodup_append]
  | call a =>
      obtain ⟨hb, rest, hq, rfl⟩ := hs
      rw [hq] at h2 h4
      constructor <;> simp only [specPost, upd] <;> grind
  | drop a =>
      obtain ⟨rest, hq, rfl⟩ := hs
      rw [hq] at h2 h4
      constructor <;> simp only [specPost, upd] <;> grind
  | ret a =>
      obtain ⟨hb, rfl⟩ := hs
      constructor <;> simp only [specPost, upd] <;> grind

theorem w1_run_inv {s : worker1.σ} {p : Prot} (h : worker1.Run s p) : W1Inv s p := by
  induction h with
  | init => constructor <;> simp [worker1, protInit]
  | tau _ _ he _ => cases he
  | inp _ hs he hi hp ih => cases he; exact w1_step_inv ih hs (fun _ => hp)
  | out _ hs he ho ih => cases he; exact w1_step_inv ih hs (fun hi => by rw [ho] at hi; cases hi)

theorem worker1_contract : ExecContract worker1 := by
  refine ⟨?_, ?_, ?_, ?_⟩
  · intro s p l s' e hr hs he ho
    cases he
    have hi := w1_run_inv hr
    cases l with
    | sub a => cases ho
    | ret a => cases ho
    | call a =>
        obtain ⟨_, rest, hq, _⟩ := hs
        exact (hi.queue_iff a).mp (by rw [hq]; simp)
    | drop a =>
        obtain ⟨rest, hq, _⟩ := hs
        exact (hi.queue_iff a).mp (by rw [hq]; simp)
  · intro s p a hr hp
    have hi := w1_run_inv hr
    exact ⟨.sub a, _, ⟨by rw [hi.prot_eq]; exact hp, rfl⟩, rfl⟩
  · intro s p a hr hp
    have hi := w1_run_inv hr
    exact ⟨.ret a, _, ⟨(hi.busy_iff a).mpr hp, rfl⟩, rfl⟩
  · intro s p hr hq hnc a hpa
    have hi := w1_run_inv hr
    have hb : s.busy = none := by
      cases hbz : s.busy with
      | none => rfl
      | some b => exact absurd ((hi.busy_iff b).mp hbz) (hnc b)
    have hm := (hi.queue_iff a).mpr hpa
    cases hqz : s.queue with
    | nil => rw [hqz] at hm; cases hm
    | cons b rest =>
        have hs : worker1.step s (.call b) _ := ⟨hb, rest, hqz, rfl⟩
        obtain ⟨e, he, hin⟩ := hq _ _ hs
        cases he; cases hin

end Yaclib.Strand
