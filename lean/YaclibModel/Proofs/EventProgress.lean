/- Progress for the C16 model: once a decrement has reached zero, a state in which nothing but spurious failures / wake-ups
   is possible is a state in which every thread has finished, every waiter has been released (timed waits may have returned
   false before) and every heap waiter has been freed — nobody stays parked. -/
import YaclibModel.Proofs.EventQStep

namespace Yaclib.Event
variable {w : Workload} {s : State}

/-- a wake-up of a sleeping waiter while its flag is not set, or a spurious failure of the weak CAS in `TryAdd` -/
def Spur (s : State) (l : Label) : Prop :=
  (∃ t j, l = .lock t j ∧ (s.thr t).pc = .bAsleep j ∧ (s.job j).ready = false) ∨ (∃ t x, l = .hSpur t x)

theorem headObs_expOf (h : Option (List Nat)) : headObs h (expOf h) := by cases h <;> simp [headObs, expOf]

section
set_option linter.unusedSectionVars false
variable (hz : InvZ s) (ht : InvT s) (hi : InvJ s) (hq : InvQ s) (hquiet : ∀ l s', Step s l s' → Spur s l)
include hz ht hi hq hquiet

theorem not_spur_of {l : Label} {s' : State} (hs : Step s l s') (h1 : ∀ t j, l ≠ .lock t j) (h2 : ∀ t x, l ≠ .hSpur t x) : False := by
  rcases hquiet _ _ hs with ⟨t, j, h, _⟩ | ⟨t, x, h⟩
  · exact h1 t j h
  · exact h2 t x h

/-- a mutex that is held can be released: so in a quiescent state no waiter's mutex is held -/
theorem q_no_holder (j : Nat) : (s.job j).holder = none := by
  cases hh : (s.job j).holder with
  | none => rfl
  | some t =>
      exfalso
      rcases hi.m_hold j t hh with ⟨rest, hp⟩ | hp | ⟨b, hp⟩
      · exact not_spur_of hz ht hi hq hquiet (Step.tRunUnlock s t j rest hp) (by simp) (by simp)
      · exact not_spur_of hz ht hi hq hquiet (Step.tBSleep s t j hp) (by simp) (by simp)
      · exact not_spur_of hz ht hi hq hquiet (Step.tBUnlockRet s t j b hp) (by simp) (by simp)

/-- a thread inside `SetImpl` can always continue -/
theorem q_no_setter (t : Nat) : (s.thr t).pc.setter = false := by
  cases hp : (s.thr t).pc <;> simp [Pc.setter]
  case xchgHead => exact not_spur_of hz ht hi hq hquiet (Step.tXchgHead s t hp) (by simp) (by simp)
  case runDec j rest => exact not_spur_of hz ht hi hq hquiet (Step.tRunDec s t j rest hp) (by simp) (by simp)
  case run js b =>
    have hl := hi.l_run t js b hp
    cases js with
    | nil => exact hl.1 rfl
    | cons j rest =>
        cases b with
        | true => exact not_spur_of hz ht hi hq hquiet (Step.tRunUnlock s t j rest hp) (by simp) (by simp)
        | false =>
            by_cases hk : (s.job j).kind = .coro
            · exact not_spur_of hz ht hi hq hquiet (Step.tRunRel s t j rest hp hk) (by simp) (by simp)
            · have hs := Step.tRunLock s t j rest hp hk (q_no_holder hz ht hi hq hquiet j)
              rcases hquiet _ _ hs with ⟨t', j', h, hpc, _⟩ | ⟨t', x, h⟩
              · cases h; rw [hp] at hpc; cases hpc
              · cases h

/-- the exchange has happened -/
theorem q_head_none (hzero : s.zeroed = true) : s.head = none := by
  cases hh : s.head with
  | none => rfl
  | some l =>
      exfalso
      have h1 := hq.q_zero hzero
      cases hzr : s.zeroer with
      | none => exact h1 hzr
      | some tz =>
          have := hq.q_zeroer tz hzr (by simp [hh])
          have h2 := q_no_setter hz ht hi hq hquiet tz
          rw [this] at h2; simp [Pc.setter] at h2

/-- every registered waiter has been called -/
theorem q_not_pending (hzero : s.zeroed = true) (j : Nat) : (s.job j).st ≠ .listed ∧ (s.job j).st ≠ .running := by
  constructor
  · intro hst
    exact (hq.q_listed j hst).1 (q_head_none hz ht hi hq hquiet hzero)
  · intro hst
    have hr := hq.q_running j hst
    cases hzr : s.zeroer with
    | none => exact hr.1 hzr
    | some tz =>
        have hm := hr.2 tz hzr
        have h2 := q_no_setter hz ht hi hq hquiet tz
        cases hp : (s.thr tz).pc <;> simp [hp, Pc.setter, Pc.runList] at h2 hm

theorem q_thread (hzero : s.zeroed = true) (t : Nat) : (s.thr t).pc = .idle ∧ (s.thr t).prog = [] := by
  have hnh := q_no_holder hz ht hi hq hquiet
  have hns := q_no_setter hz ht hi hq hquiet t
  have ns {l : Label} {s' : State} (hs : Step s l s') (h1 : ∀ t j, l ≠ .lock t j) (h2 : ∀ t x, l ≠ .hSpur t x) : False :=
    not_spur_of hz ht hi hq hquiet hs h1 h2
  have hok := ht.t_ok t
  cases hp : (s.thr t).pc with
  | idle =>
      refine ⟨rfl, ?_⟩
      cases hpr : (s.thr t).prog with
      | nil => rfl
      | cons op rest =>
          exfalso
          cases op with
          | add k => exact ns (Step.tAdd s t k rest hp hpr) (by simp) (by simp)
          | done k => exact ns (Step.tDone s t k rest hp hpr) (by simp) (by simp)
          | insert c fs =>
              simp only [thrOk, hp, hpr, okProg, Bool.and_eq_true, decide_eq_true_eq] at hok
              exact ns (Step.tInsAdd s t c fs rest hp hpr hok.1.2) (by simp) (by simp)
          | fulfil f => exact ns (Step.tFulfil s t f rest hp hpr) (by simp) (by simp)
          | ready f => exact ns (Step.tReadyLoad s t f rest hp hpr) (by simp) (by simp)
          | wait => exact ns (Step.tStart s t .wait rest .blocking _ hp hpr rfl (headObs_expOf s.head)) (by simp) (by simp)
          | waitFor => exact ns (Step.tStart s t .waitFor rest .timed _ hp hpr rfl (headObs_expOf s.head)) (by simp) (by simp)
          | await a => exact ns (Step.tStart s t (.await a) rest .coro _ hp hpr rfl (headObs_expOf s.head)) (by simp) (by simp)
  | xchgHead => rw [hp] at hns; simp [Pc.setter] at hns
  | run js b => rw [hp] at hns; simp [Pc.setter] at hns
  | runDec j rest => rw [hp] at hns; simp [Pc.setter] at hns
  | insReg rest c wc consume =>
      exfalso
      simp only [thrOk, hp] at hok
      cases rest with
      | nil => exact hok.1 rfl
      | cons f r => exact ns (Step.tInsLoad s t f r c wc consume _ hp (Or.inl rfl)) (by simp) (by simp)
  | insCas f rest c wc consume =>
      exfalso
      by_cases hw : (s.fut f).word = .empty
      · exact ns (Step.tInsCasOk s t f rest c wc consume hp hw) (by simp) (by simp)
      · exact ns (Step.tInsCasFail s t f rest c wc consume hp hw) (by simp) (by simp)
  | insSub k => exact (ns (Step.tInsSub s t k hp) (by simp) (by simp)).elim
  | cbSub =>
      obtain ⟨f, rest, hpr⟩ := hq.q_cb t hp
      exact (ns (Step.tCbSub s t f rest hp hpr) (by simp) (by simp)).elim
  | rdy f b c => exact (ns (Step.tReady s t f b c hp) (by simp) (by simp)).elim
  | tryL j => exact (ns (Step.tTryLoad s t j _ hp (headObs_expOf s.head)) (by simp) (by simp)).elim
  | tryC j x =>
      exfalso
      by_cases hx : expOf s.head = x
      · cases hh : s.head with
        | none => rw [hh] at hx; simp [expOf] at hx; exact hq.q_tryc t j x hp hx.symm
        | some l =>
            rw [hh] at hx; simp only [expOf] at hx; subst hx
            exact ns (Step.tCasOk s t j l hp hh) (by simp) (by simp)
      · exact ns (Step.tCasFail s t j x hp hx) (by simp) (by simp)
  | resume j => exact (ns (Step.tResume s t j hp) (by simp) (by simp)).elim
  | bLock j =>
      exfalso
      rcases hquiet _ _ (Step.tBLock s t j (Or.inl hp) (hnh j)) with ⟨t', j', h, hpc, _⟩ | ⟨t', x, h⟩
      · cases h; rw [hp] at hpc; cases hpc
      · cases h
  | bHeld j => exact (ns (Step.tBSleep s t j hp) (by simp) (by simp)).elim
  | bAsleep j =>
      exfalso
      have hb := hi.j_b t j (by simp [hp, Pc.bphase])
      have hnp := q_not_pending hz ht hi hq hquiet hzero j
      have hst : (s.job j).st = .called := by
        cases h : (s.job j).st with
        | called => rfl
        | fresh => exact absurd h hb.2.1
        | failed => exact absurd h hb.2.2.1
        | listed => exact absurd h hnp.1
        | running => exact absurd h hnp.2
      have hr := hq.q_called j hst hb.1
      rcases hquiet _ _ (Step.tBLock s t j (Or.inr hp) (hnh j)) with ⟨t', j', h, _, hnr⟩ | ⟨t', x, h⟩
      · cases h; rw [hr] at hnr; cases hnr
      · cases h
  | bTimedOut j =>
      exfalso
      rcases hquiet _ _ (Step.tBLockT s t j hp (hnh j)) with ⟨t', j', h, hpc, _⟩ | ⟨t', x, h⟩
      · cases h; rw [hp] at hpc; cases hpc
      · cases h
  | bUnlockRet j b => exact (ns (Step.tBUnlockRet s t j b hp) (by simp) (by simp)).elim
  | bDec j b => exact (ns (Step.tBDec s t j b hp) (by simp) (by simp)).elim
  | rep j b => exact (ns (Step.tRep s t j b hp) (by simp) (by simp)).elim

end

/-- what "finished" means for a waiter -/
structure JobDone (jb : Job) : Prop where
  odone : jb.odone = true
  st : jb.st = .called ∨ jb.st = .failed
  coro : jb.kind = .coro → jb.nrel = 1
  blocking : jb.kind = .blocking → jb.nrel = 1
  timed : jb.kind = .timed → jb.freed = true ∧ jb.nfree = 1 ∧ jb.refs = 0 ∨ (jb.st = .failed ∧ jb.freed = true ∧ jb.nfree = 1)

theorem quiescent_done (hz : InvZ s) (ht : InvT s) (hi : InvJ s) (hq : InvQ s) (hquiet : ∀ l s', Step s l s' → Spur s l)
    (hzero : s.zeroed = true) :
    (∀ t, (s.thr t).pc = .idle ∧ (s.thr t).prog = []) ∧ ∀ j, j < s.njobs → JobDone (s.job j) := by
  have hthr := q_thread hz ht hi hq hquiet hzero
  refine ⟨hthr, ?_⟩
  intro j hj
  have hod : (s.job j).odone = true := by
    cases h : (s.job j).odone with
    | true => rfl
    | false =>
        have := hq.q_odone j hj h
        rw [(hthr _).1] at this; simp [Pc.owner] at this
  have hnp := q_not_pending hz ht hi hq hquiet hzero j
  have hst : (s.job j).st = .called ∨ (s.job j).st = .failed := by
    cases h : (s.job j).st with
    | called => simp
    | failed => simp
    | fresh => have := hq.q_fresh j h; rw [hod] at this; cases this
    | listed => exact absurd h hnp.1
    | running => exact absurd h hnp.2
  refine ⟨hod, hst, ?_, fun hk => hq.q_block j hk hod, ?_⟩
  · intro hk
    refine (hi.r_coro j hk).mpr ?_
    rcases hst with h | h
    · exact Or.inl h
    · exact Or.inr ⟨h, hod⟩
  · intro hk
    rcases hst with h | h
    · left
      have hf := hi.f_timed j hk (by rw [h]; simp)
      have ho := hq.q_oref j hk hod
      simp only [ho, h, JSt.inList, Bool.false_eq_true, ↓reduceIte] at hf
      have hfr : (s.job j).freed = true := hf.2.1.mpr (by omega)
      refine ⟨hfr, ?_, by omega⟩
      rw [hf.2.2, hfr]; rfl
    · right
      have := hi.f_failed j hk h
      exact ⟨h, this.1, this.2.1⟩

end Yaclib.Event
