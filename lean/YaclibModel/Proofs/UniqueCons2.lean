import YaclibModel.Proofs.UniqueConserve
namespace Yaclib.Unique

set_option maxHeartbeats 4000000 in
theorem inv2_step_2 {w s l s'} (hi : Inv w s) (h2 : Inv2 w s) (hs : Step s l s') (hg : grpOf l = 2) : Inv2 w s' := by
  cases hi
  cases h2
  cases hs with
  | cGetc b h => inv2_auto
  | cWaitLock h hm => inv2_auto
  | cWaitSleep h => inv2_auto
  | cGot r h hr => inv2_auto
  | cWaitDone h => cases hwf : s.waitFin <;> simp only [doCWaitDone, hwf, Bool.false_eq_true, ↓reduceIte] <;> inv2_auto
  | _ => simp [grpOf] at hg

end Yaclib.Unique
