import YaclibModel.Proofs.CoSharedMutex
namespace Yaclib.CoSharedMutex

set_option maxHeartbeats 4000000 in
theorem inv_rdFsub_2 {cfg : Cfg} {s : State} (hi : Inv cfg s) (c : Cid) (h : s.pc c = .rUn1) (hW : ¬ s.W = 0) (hpw : s.pw = .none) :
    Inv cfg ((doRdFsub s c)) := by
  cases hi
  simp only [doRdFsub, hW, ↓reduceIte]
  sm_auto [List.count_le_length]

end Yaclib.CoSharedMutex
