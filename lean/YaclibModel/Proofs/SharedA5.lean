import YaclibModel.Proofs.Shared
namespace Yaclib.Shared

set_option maxHeartbeats 4000000 in
theorem invA_step_5 {w s l s'} (hi : InvA w s) (hs : Step s l s') (hg : grpOf l = 5) : InvA w s' := by
  cases hi
  cases hs with
  | oRdLoad t op rest x h ht hop hr hx => invA_auto
  | oReady t x h =>
      by_cases hc : x = .result ∧ (s.obs t).todo.head? = some .readyTouch
      · simp only [doReady, readyNext_pos hc]; invA_auto
      · simp only [doReady, readyNext_neg hc]; invA_auto
  | oTouch t h => invA_auto
  | oCopy t rest h ht hr => invA_auto
  | oDrop t rest h ht hr => invA_auto
  | _ => simp [grpOf] at hg

end Yaclib.Shared
