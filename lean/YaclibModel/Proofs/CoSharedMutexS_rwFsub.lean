import YaclibModel.Proofs.CoSharedMutexS_rwFsub_1
import YaclibModel.Proofs.CoSharedMutexS_rwFsub_2
import YaclibModel.Proofs.CoSharedMutexS_rwFsub_3
import YaclibModel.Proofs.CoSharedMutexS_rwFsub_4
import YaclibModel.Proofs.CoSharedMutexS_rwFsub_5
namespace Yaclib.CoSharedMutex

theorem inv_rwFsub {cfg : Cfg} {s : State} (hi : Inv cfg s) (c : Cid) (h : s.pc c = .rUn2) :
    Inv cfg ((doRwFsub s c)) := by
  by_cases h1 : s.rwait = 1
  · cases hpw : s.pw with
    | none => exact inv_rwFsub_1 hi c h h1 hpw
    | a n r => exact inv_rwFsub_2 hi c h h1 n r hpw
    | b n => exact inv_rwFsub_3 hi c h h1 n hpw
    | c n b => exact inv_rwFsub_4 hi c h h1 n b hpw
  · exact inv_rwFsub_5 hi c h h1

end Yaclib.CoSharedMutex
