import YaclibModel.Proofs.CoSharedMutexS_rdUnlock_1
import YaclibModel.Proofs.CoSharedMutexS_rdUnlock_2
import YaclibModel.Proofs.CoSharedMutexS_rdUnlock_3
namespace Yaclib.CoSharedMutex

theorem inv_rdUnlock {cfg : Cfg} {s : State} (hi : Inv cfg s) (c : Cid) (h : s.pc c = .rLocked) (hs : s.spin = .held c) :
    Inv cfg ((doRdUnlock s c)) := by
  by_cases hp : s.pass = 0
  · cases hr : s.cfg.rfifo
    · exact inv_rdUnlock_1 hi c h hs hp hr
    · exact inv_rdUnlock_2 hi c h hs hp hr
  · exact inv_rdUnlock_3 hi c h hs hp

end Yaclib.CoSharedMutex
