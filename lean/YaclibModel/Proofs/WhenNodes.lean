/- `translate_index_v<i, Cores, SharedCores>` is the rank of position i among the shared positions: every shared input of the
   variadic combinator gets a callback node of its own. -/
import YaclibModel.Model.WhenNodes

namespace Yaclib.When.Nodes

/-- number of shared cores before position `i` -/
def rank (cores : List CoreTy) (i : Nat) : Nat := ((cores.take i).filter (·.shared)).length

theorem translate_rank_gen (k toIdx : Nat) (fr : List CoreTy) :
    translateIndex k toIdx fr (fr.filter (·.shared)) = toIdx + ((fr.take k).filter (·.shared)).length := by
  induction k generalizing toIdx fr with
  | zero => simp [translateIndex]
  | succ k ih =>
      cases fr with
      | nil => simp [translateIndex]
      | cons f fr =>
          cases hf : f.shared with
          | true =>
              have h1 : (f :: fr).filter (·.shared) = f :: fr.filter (·.shared) := by simp [hf]
              rw [h1]
              simp only [translateIndex, if_true, ih, List.take_succ_cons]
              simp [hf]; omega
          | false =>
              have h1 : (f :: fr).filter (·.shared) = fr.filter (·.shared) := by simp [hf]
              rw [h1]
              cases hto : fr.filter (·.shared) with
              | nil =>
                  have := ih toIdx fr
                  rw [hto] at this
                  simp only [translateIndex, this, List.take_succ_cons]
                  simp [hf]
              | cons t tos =>
                  have hts : t.shared = true := by
                    have : t ∈ fr.filter (·.shared) := by rw [hto]; simp
                    simpa using (List.mem_filter.mp this).2
                  have hne : f ≠ t := fun h => by rw [h, hts] at hf; cases hf
                  have := ih toIdx fr
                  rw [hto] at this
                  simp only [translateIndex, hne, if_false, this, List.take_succ_cons]
                  simp [hf]

/-- `translate_index_v<i, Cores, SharedCores>` = number of shared cores before position i -/
theorem translate_rank (cores : List CoreTy) (i : Nat) : translateIndex i 0 cores (sharedCores cores) = rank cores i := by
  simpa [sharedCores, rank] using translate_rank_gen i 0 cores

theorem rank_succ (cores : List CoreTy) (i : Nat) (c : CoreTy) (h : cores[i]? = some c) :
    rank cores (i + 1) = rank cores i + (if c.shared then 1 else 0) := by
  unfold rank
  rw [List.take_add_one, h]
  cases hc : c.shared <;> simp [List.filter_append, hc]

theorem rank_mono (cores : List CoreTy) (i d : Nat) : rank cores i ≤ rank cores (i + d) := by
  induction d with
  | zero => simp
  | succ d ih =>
      cases h : cores[i + d]? with
      | none =>
          have : rank cores (i + d + 1) = rank cores (i + d) := by
            unfold rank; rw [List.take_add_one, h]; simp
          rw [← Nat.add_assoc, this]; exact ih
      | some c => rw [← Nat.add_assoc, rank_succ cores (i + d) c h]; omega

theorem rank_lt {cores : List CoreTy} {i j : Nat} {c : CoreTy} (hij : i < j) (hi : cores[i]? = some c)
    (hs : c.shared = true) : rank cores i < rank cores j := by
  have h1 := rank_succ cores i c hi
  rw [hs] at h1
  have h2 := rank_mono cores (i + 1) (j - (i + 1))
  have : i + 1 + (j - (i + 1)) = j := by omega
  rw [this] at h2
  simp at h1
  omega

theorem rank_bound {cores : List CoreTy} {i : Nat} {c : CoreTy} (hi : cores[i]? = some c) (hs : c.shared = true) :
    rank cores i < (sharedCores cores).length := by
  have hlt : i < cores.length := by
    rcases List.getElem?_eq_some_iff.mp hi with ⟨h, _⟩; exact h
  have h1 := rank_lt (j := cores.length) hlt hi hs
  have : rank cores cores.length = (sharedCores cores).length := by simp [rank, sharedCores]
  omega

/-- **every shared input of the variadic combinator has a callback node of its own** (and it exists) -/
theorem shared_inputs_have_own_node (ordered : Bool) (cores : List CoreTy) {i j : Nat} {ci cj : CoreTy} (hne : i ≠ j)
    (hi : cores[i]? = some ci) (hj : cores[j]? = some cj) (hsi : ci.shared = true) (hsj : cj.shared = true) :
    staticNode ordered cores i ≠ staticNode ordered cores j := by
  cases ordered with
  | true => simp [staticNode, hne]
  | false =>
      simp only [staticNode, hi, hj, hsi, hsj, if_true, translate_rank, Bool.false_eq_true, if_false]
      intro h
      injection h with h
      rcases Nat.lt_or_gt_of_ne hne with hlt | hgt
      · have := rank_lt hlt hi hsi; omega
      · have := rank_lt hgt hj hsj; omega

theorem shared_node_exists (cores : List CoreTy) {i : Nat} {c : CoreTy} (hi : cores[i]? = some c) (hs : c.shared = true) :
    ∃ k, staticNode false cores i = .shared k ∧ k < (sharedCores cores).length := by
  refine ⟨rank cores i, ?_, rank_bound hi hs⟩
  simp [staticNode, hi, hs, translate_rank]

/-- a shared input and a unique input never share a node either -/
theorem shared_unique_nodes_differ (cores : List CoreTy) {i j : Nat} {ci cj : CoreTy}
    (hi : cores[i]? = some ci) (hj : cores[j]? = some cj) (hsi : ci.shared = true) (hsj : cj.shared = false) :
    staticNode false cores i ≠ staticNode false cores j := by
  simp [staticNode, hi, hj, hsi, hsj]

/-- looking the shared node up by core TYPE (as the unique cores do) is wrong: two shared inputs of one type get ONE node -/
theorem lookup_by_type_shares_a_node :
    let s0 : CoreTy := ⟨true, 0⟩
    staticNodeByType [s0, s0] 0 = staticNodeByType [s0, s0] 1 ∧ staticNode false [s0, s0] 0 ≠ staticNode false [s0, s0] 1 := by
  decide

/-- not consuming the target tuple is wrong as soon as the shared inputs have two types: in the pack
    (Shared<X>, Shared<Y>, Shared<Y>) the two `Y` inputs get the same slot (0, 1, 1 instead of 0, 1, 2) — while packs of one
    shared type and alternating unique / shared packs still come out right -/
theorem no_consume_shares_a_slot :
    let x : CoreTy := ⟨true, 0⟩
    let y : CoreTy := ⟨true, 1⟩
    let u : CoreTy := ⟨false, 0⟩
    translateIndexNoConsume 1 0 [x, y, y] (sharedCores [x, y, y]) = translateIndexNoConsume 2 0 [x, y, y] (sharedCores [x, y, y]) ∧
    translateIndex 1 0 [x, y, y] (sharedCores [x, y, y]) ≠ translateIndex 2 0 [x, y, y] (sharedCores [x, y, y]) ∧
    translateIndexNoConsume 2 0 [x, x, x] (sharedCores [x, x, x]) = 2 ∧
    translateIndexNoConsume 3 0 [u, x, u, x] (sharedCores [u, x, u, x]) = 1 := by
  decide

end Yaclib.When.Nodes
