/- C16: preservation of the invariants of part 4 -/
import YaclibModel.Proofs.EventQ

namespace Yaclib.Event
variable {s s' : State} {l : Label} {w : Workload}

attribute [local grind =] Pc.setter Pc.releasing Pc.owner Pc.bphase JSt.inList List.nodup_cons Pc.runList
attribute [local grind →] Pc.bphase_owner

/-- a decrement that finds a positive count happens before the count has reached zero -/
theorem InvT.not_zeroed (ht : InvT s) (h : 1 ≤ s.count) : s.zeroed = false := by
  cases hz : s.zeroed with
  | false => rfl
  | true => have := ht.t_z hz; omega

set_option maxHeartbeats 4000000 in
theorem invQ_step (hz : InvZ s) (ht : InvT s) (hi : InvJ s) (hq : InvQ s) (hs : Step s l s') : InvQ s' := by
  have hzp := hz.z_pc
  have hznz := hz.z_nz
  have hone := ht.t_one
  have hnz := ht.t_nz
  have hxh := ht.t_xh
  have hjown := hi.j_own
  have hjout := hi.j_out
  have hlrun := hi.l_run
  have hldec := hi.l_dec
  have hlhead := hi.l_head
  have hjres := hi.j_res
  have hjrep := hi.j_rep
  have hjto := hi.j_to
  have hjdec := hi.j_dec
  have hrn := hi.r_nrel
  have hrb := hi.r_block
  have hnotz : 1 ≤ s.count → s.zeroed = false := ht.not_zeroed
  cases hs with
  | tDone t k rest h hp =>
      have hok := ht.t_ok t
      simp only [thrOk, okProg, Bool.and_eq_true, decide_eq_true_eq, h, hp] at hok
      simp only [doSub]
      split <;> (constructor <;> q_solve hq)
  | tInsSub t k h =>
      have hok := ht.t_ok t
      simp only [thrOk, okProg, Bool.and_eq_true, decide_eq_true_eq, h] at hok
      simp only [doSub]
      split <;> (constructor <;> q_solve hq)
  | tCbSub t f rest h hp =>
      simp only [doCbSub, doSub]
      split <;> (constructor <;> q_solve hq)
  | tRunUnlock t j rest h =>
      have hl := hi.l_run t _ _ h
      have hk := hi.l_runk t j rest h
      have hz := hq.q_xh t (by simp [h, Pc.setter])
      have hr := hq.q_locked t j rest h
      simp only [doRunUnlock, touch, runNext, goto, finish, setT]
      repeat' split
      all_goals (constructor <;> q_solve hq)
  | tRunDec t j rest h =>
      have hl := hi.l_dec t j rest h
      have hz := hq.q_xh t (by simp [h, Pc.setter])
      have hr := hq.q_lockedD t j rest h
      simp only [doRunDec, decJob, touch, runNext, goto, finish, setT]
      repeat' split
      all_goals (constructor <;> q_solve hq)
  | tRunRel t j rest h hk =>
      have hl := hi.l_run t _ _ h
      have hz := hq.q_xh t (by simp [h, Pc.setter])
      simp only [doRunRel, touch, runNext, goto, finish, setT]
      repeat' split
      all_goals (constructor <;> q_solve hq)
  | tXchgHead t h =>
      have hx := ht.t_xh t h
      have hz := hq.q_xh t (by simp [h, Pc.setter])
      simp only [doXchgHead, runNext, goto, finish, setT]
      repeat' split
      all_goals (constructor <;> q_solve hq)
  | tRep t j b h =>
      have hown := hi.j_own t j (by simp [h, Pc.owner])
      have hr := hi.j_rep t j b h
      have hb := hq.q_repb t j b h
      have hrb := hi.r_block j
      have hrn := hi.r_nrel j
      simp only [doRep, finish, setT]
      cases b <;> (constructor <;> q_solve hq)
  | _ =>
      all_goals (ev_unfold; repeat' split)
      all_goals constructor
      all_goals q_solve hq

theorem invQ_reachable (hok : w.ok) (h : Reachable w s) : InvQ s := by
  induction h with
  | init => exact invQ_init w
  | step hr hs ih => exact invQ_step (invZ_reachable hr) (invT_reachable hok hr) (invJ_reachable hok hr) ih hs

end Yaclib.Event
