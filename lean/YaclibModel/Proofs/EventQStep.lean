/- C16: the invariants of part 4 hold in every reachable state of a workload that respects the token discipline -/
import YaclibModel.Proofs.EventQStep2
import YaclibModel.Proofs.EventQStep3

namespace Yaclib.Event
variable {s s' : State} {l : Label} {w : Workload}

theorem invQ_step (hz : InvZ s) (ht : InvT s) (hi : InvJ s) (hq : InvQ s) (hs : Step s l s') : InvQ s' := by
  cases hs with
  | tAdd t k rest h hp => exact invQ_tAdd hz ht hi hq t k rest h hp
  | tDone t k rest h hp => exact invQ_tDone hz ht hi hq t k rest h hp
  | tInsAdd t consume fs rest h hp hne => exact invQ_tInsAdd hz ht hi hq t consume fs rest h hp
  | tInsLoad t f rest c wc consume x h hx => exact invQ_tInsLoad hz ht hi hq t f rest c wc consume x h
  | tInsCasOk t f rest c wc consume h hw => exact invQ_tInsCasOk hz ht hi hq t f rest c wc consume h
  | tInsCasFail t f rest c wc consume h hw => exact invQ_tInsCasFail hz ht hi hq t f rest c wc consume h
  | tInsSub t k h => exact invQ_tInsSub hz ht hi hq t k h
  | tFulfil t f rest h hp => exact invQ_tFulfil hz ht hi hq t f rest h hp
  | tCbSub t f rest h hp => exact invQ_tCbSub hz ht hi hq t f rest h hp
  | tReadyLoad t f rest h hp => exact invQ_tReadyLoad hz ht hi hq t f rest _ _ h hp
  | tReady t f b c h => exact invQ_tReady hz ht hi hq t f b c h
  | tXchgHead t h => exact invQ_tXchgHead hz ht hi hq t h
  | tRunLock t j rest h hk hm => exact invQ_tRunLock hz ht hi hq t j rest h hk
  | tRunUnlock t j rest h => exact invQ_tRunUnlock hz ht hi hq t j rest h
  | tRunDec t j rest h => exact invQ_tRunDec hz ht hi hq t j rest h
  | tRunRel t j rest h hk => exact invQ_tRunRel hz ht hi hq t j rest h hk
  | tStart t op rest k x h hp hk hx => exact invQ_tStart hz ht hi hq t k (opChecks op) x h
  | tTryLoad t j x h hx => exact invQ_tryWith hz ht hi hq t j x (Or.inl h)
  | tCasOk t j l h hh => exact invQ_tCasOk hz ht hi hq t j l h hh
  | tCasFail t j x h hh => exact invQ_tryWith hz ht hi hq t j _ (Or.inr ⟨x, h⟩)
  | tCasSpur t j x x' h hx => exact invQ_tryWith hz ht hi hq t j x' (Or.inr ⟨x, h⟩)
  | tResume t j h => exact invQ_tResume hz ht hi hq t j h
  | tBLock t j h hm =>
      exact invQ_tBLock hz ht hi hq t j false (by rcases h with h | h; exact Or.inl h; exact Or.inr (Or.inl h)) (fun h => by cases h)
  | tBSleep t j h => exact invQ_tBSleep hz ht hi hq t j h
  | tBTimeout t j h hk => exact invQ_tBTimeout hz ht hi hq t j h
  | tBLockT t j h hm => exact invQ_tBLock hz ht hi hq t j true (Or.inr (Or.inr h)) (fun _ => hi.j_to t j h)
  | tBUnlockRet t j b h => exact invQ_tBUnlockRet hz ht hi hq t j b h
  | tBDec t j b h => exact invQ_tBDec hz ht hi hq t j b h
  | tRep t j b h => exact invQ_tRep hz ht hi hq t j b h

theorem invQ_reachable (hok : w.ok) (h : Reachable w s) : InvQ s := by
  induction h with
  | init => exact invQ_init w
  | step hr hs ih => exact invQ_step (invZ_reachable hr) (invT_reachable hok hr) (invJ_reachable hok hr) ih hs

end Yaclib.Event
