/- Facts about the sequential reading alone: the invocation list only grows, in pipeline order, each step at most once. -/
import YaclibModel.Proofs.PipelineRun

namespace Yaclib.Pipeline
open Yaclib.Extracted

theorem idsStep_eq (id : Nat) (sig : Sig) (mode : Mode) (beh : Beh) :
    idsStep (.mk id sig mode beh) = id :: (match beh with | .async _ _ steps => idsSteps steps | _ => []) := by
  cases beh <;> rw [idsStep] <;> (try intros; simp_all)

mutual
  theorem specCall_invoked (cfg : Cfg) : ∀ (s : Step) (input : R) (own : Exec) (subs inv : List Nat),
      ∃ x, (specCall cfg s input own subs inv).invoked = inv ++ x ∧ x.Sublist (idsStep s)
    | .mk id sig mode beh, input, own, subs, inv => by
      by_cases hr : runsOn sig input = true
      · cases beh with
        | val n => exact ⟨[id], by rw [specCall_val _ _ _ _ _ _ _ _ _ hr], by rw [idsStep_eq]; simp⟩
        | res r => exact ⟨[id], by rw [specCall_res _ _ _ _ _ _ _ _ _ hr], by rw [idsStep_eq]; simp⟩
        | throw t => exact ⟨[id], by rw [specCall_throw _ _ _ _ _ _ _ _ _ hr], by rw [idsStep_eq]; simp⟩
        | async src lazy steps =>
          obtain ⟨x, h1, h2⟩ := specSteps_invoked cfg steps (src == .unit) (specSrc cfg src none false subs).1
            (specSrc cfg src none false subs).2.1 (specSrc cfg src none false subs).2.2 (inv ++ [id])
          refine ⟨id :: x, ?_, ?_⟩
          · rw [specCall_async _ _ _ _ _ _ _ _ _ _ _ hr]
            simp only [h1]
            simp
          · rw [idsStep_eq]; exact List.Sublist.cons₂ id h2
      · have hr' : runsOn sig input = false := by simpa using hr
        exact ⟨[], by rw [specCall_skip _ _ _ _ _ _ _ _ _ hr']; simp, List.nil_sublist _⟩
  theorem specSteps_invoked (cfg : Cfg) : ∀ (ss : List Step) (hd : Bool) (r : R) (inh : Exec) (subs inv : List Nat),
      ∃ x, (specSteps cfg ss hd r inh subs inv).invoked = inv ++ x ∧ x.Sublist (idsSteps ss)
    | [], hd, r, inh, subs, inv => ⟨[], by rw [specSteps_nil]; simp, by simp [idsSteps]⟩
    | s :: ss, hd, r, inh, subs, inv => by
      rw [specSteps_cons]
      obtain ⟨x1, h1, h2⟩ := specCall_invoked cfg s
        (if (s.mode.submits || hd) = true then offered cfg (ownExec s.mode inh) (if hd = true then .val 0 else r) subs
          else (r, subs)).1 (ownExec s.mode inh)
        (if (s.mode.submits || hd) = true then offered cfg (ownExec s.mode inh) (if hd = true then .val 0 else r) subs
          else (r, subs)).2 inv
      obtain ⟨x2, h3, h4⟩ := specSteps_invoked cfg ss false _ _ _ _
      refine ⟨x1 ++ x2, ?_, ?_⟩
      · rw [h3, h1]; simp
      · rw [idsSteps]; exact List.Sublist.append h2 h4
end

theorem specFrames_invoked (cfg : Cfg) : ∀ (fs : List Frame) (o : SOut),
    ∃ x, (specFrames cfg fs o).invoked = o.invoked ++ x
  | [], o => ⟨[], by simp [specFrames]⟩
  | f :: fs, o => by
    obtain ⟨x1, h1, _⟩ := specSteps_invoked cfg f.rest false o.r f.own o.subs o.invoked
    obtain ⟨x2, h2⟩ := specFrames_invoked cfg fs (specSteps cfg f.rest false o.r f.own o.subs o.invoked)
    exact ⟨x1 ++ x2, by simp only [specFrames]; rw [h2, h1]; simp⟩

theorem specFire_invoked (cfg : Cfg) (w : Wait) (inh : Exec) (subs inv : List Nat) :
    ∃ x, (specFire cfg w inh subs inv).invoked = inv ++ x := by
  cases w with
  | promise p f => exact ⟨[], by simp [specFire]⟩
  | job jid k jk =>
    cases jk with
    | step s input hd =>
      obtain ⟨x, h, _⟩ := specCall_invoked cfg s (if hd = true then .val 0 else input) inh subs inv
      exact ⟨x, by simp only [specFire]; exact h⟩
    | readyHead r => exact ⟨[], by simp [specFire]⟩
    | promiseHead p f => exact ⟨[], by simp [specFire]⟩

theorem specThread_invoked (cfg : Cfg) (t : Thread) (subs inv : List Nat) :
    ∃ x, (specThread cfg t subs inv).invoked = inv ++ x := by
  obtain ⟨x1, h1⟩ := specFire_invoked cfg t.wait t.inh subs inv
  obtain ⟨x2, h2, _⟩ := specSteps_invoked cfg t.rest false (specFire cfg t.wait t.inh subs inv).r
    (specFire cfg t.wait t.inh subs inv).inh (specFire cfg t.wait t.inh subs inv).subs
    (specFire cfg t.wait t.inh subs inv).invoked
  obtain ⟨x3, h3⟩ := specFrames_invoked cfg t.outer (specSteps cfg t.rest false (specFire cfg t.wait t.inh subs inv).r
    (specFire cfg t.wait t.inh subs inv).inh (specFire cfg t.wait t.inh subs inv).subs
    (specFire cfg t.wait t.inh subs inv).invoked)
  exact ⟨x1 ++ x2 ++ x3, by simp only [specThread]; rw [h3, h2, h1]; simp⟩

theorem idsSteps_overrideHead (steps : List Step) (ovr : Option Exec) :
    idsSteps (overrideHead steps ovr) = idsSteps steps := by
  cases ovr with
  | none => cases steps <;> rfl
  | some e =>
    cases steps with
    | nil => rfl
    | cons a as =>
      cases a with
      | mk i sg m b => simp only [overrideHead]; rw [idsSteps, idsSteps, idsStep_eq, idsStep_eq]

/-- the sequential reading invokes steps in pipeline order, each at most once -/
theorem spec_invoked_sublist (cfg : Cfg) (p : Prog) : (spec cfg p).invoked.Sublist p.ids := by
  unfold spec
  obtain ⟨x, h1, h2⟩ := specSteps_invoked cfg
    (overrideHead p.steps (if (p.src == Src.unit) = true then
      (if p.lazy = true then p.start.bind StartKind.ovr else none) else none)) (p.src == Src.unit)
    (specSrc cfg p.src (if p.lazy = true then p.start.bind StartKind.ovr else none) p.lazy []).1
    (specSrc cfg p.src (if p.lazy = true then p.start.bind StartKind.ovr else none) p.lazy []).2.1
    (specSrc cfg p.src (if p.lazy = true then p.start.bind StartKind.ovr else none) p.lazy []).2.2 []
  simp only []
  rw [h1, idsSteps_overrideHead] at *
  simpa [Prog.ids] using h2

end Yaclib.Pipeline
