/- all invariants of the C13 model hold in every reachable state -/
import YaclibModel.Proofs.CoroE
namespace Yaclib.Coro

structure Full (w : Workload) (s : State) : Prop where
  i : Inv w s
  d : InvD w s
  e : InvE w s

theorem full_init (w : Workload) : Full w (init w) := ⟨inv_init w, invD_init w, invE_init w⟩

theorem full_step {w s l s'} (hwf : w.WF) (hwt : w.WFT) (h : Full w s) (hs : Step s l s') : Full w s' := by
  obtain ⟨hi, hd, he⟩ := h
  have ha := hi.a
  have hb := hi.b
  have hf : ∀ j p, p ∈ (s.word j).cbs → inOp s.pc = true := fun j p hp => (hb.cbs_inop j p hp).1
  refine ⟨inv_step hwf hi hs, ?_, ?_⟩
  · cases l with
    | start => exact invD_step_2 hwf hi hd hs trivial
    | tstore => exact invD_step_2 hwf hi hd hs trivial
    | submit e => exact invD_step_2 hwf hi hd hs trivial
    | exDrop => exact invD_step_2 hwf hi hd hs trivial
    | current e => exact invD_step_2 hwf hi hd hs trivial
    | resume g a => exact invD_step_resume hi hd hs trivial
    | pXchg j => exact invD_step_1 ha hd hs hf trivial
    | envPush j => exact invD_step_1 ha hd hs hf trivial
    | envSwap j e => exact invD_step_1 ha hd hs hf trivial
    | exCall => exact invD_step_1 ha hd hs hf trivial
    | ldtor => exact invD_step_1 ha hd hs hf trivial
    | ret => exact invD_step_1 ha hd hs hf trivial
    | publish r => exact invD_step_1 ha hd hs hf trivial
    | fdtor => exact invD_step_1 ha hd hs hf trivial
    | rdLoad x => exact invD_step_1 ha hd hs hf trivial
    | mload v => exact invD_step_1 ha hd hs hf trivial
    | ready b => exact invD_step_1 ha hd hs hf trivial
    | msub => exact invD_step_1 ha hd hs hf trivial
    | msuspend => exact invD_step_1 ha hd hs hf trivial
    | regLoad p x => exact invD_step_1 ha hd hs hf trivial
    | cas p o => exact invD_step_1 ha hd hs hf trivial
    | fire j p => exact invD_step_1 ha hd hs hf trivial
    | tdtor j => exact invD_step_1 ha hd hs hf trivial
  · exact invE_step hwt hi he hs

theorem full_reachable {w s} (hwf : w.WF) (hwt : w.WFT) (h : Reachable w s) : Full w s := by
  induction h with
  | init => exact full_init w
  | step _ hs ih => exact full_step hwf hwt ih hs

end Yaclib.Coro
