import YaclibModel.Proofs.CoSharedMutex
namespace Yaclib.CoSharedMutex

set_option maxHeartbeats 4000000 in
theorem inv_wrFadd_3 {cfg : Cfg} {s : State} (hi : Inv cfg s) (c : Cid) (h : s.pc c = .wLocked) (hs : s.spin = .held c) (hW : ¬ s.W = 0) :
    Inv cfg ((doWrFadd s c)) := by
  have hpb := pendBy_none_of_held hi hs (by rw [h]; rfl)
  have hpd := hi.pend_none hpb
  cases hi
  simp only [doWrFadd, hW, ↓reduceIte]
  sm_auto [List.count_le_length]

end Yaclib.CoSharedMutex
