/- C16 over a real executor (part 2): the property theorems of the composition -/
import YaclibModel.Proofs.EventExec

namespace Yaclib.Event
open Yaclib.Strand (Exec XEv Prot Phase specPre specPost protInit ExecContract)

variable {w : Workload} {E : Exec} {X : Nat → Bool} {s s' : XState E} {l : XLab}

/-- an on-executor waiter is handed to the executor only after zero, and the executor resumes (Calls) or Drops only a waiter
    that the event has released, after zero -/
theorem released_only_at_zero_over' (hok : w.ok) (hc : ExecContract E) (h : XReach w E X s) (hs : XStep E X s l s') :
    (∀ t j, l = .sub t j → s.m.zeroed = true) ∧
    (∀ j, l = .call j ∨ l = .drop j → s.m.zeroed = true ∧ (s.m.job j).nrel = 1) := by
  have hp := xevent_projects h
  have hi := invXE_reach hok hc h
  constructor
  · intro t j hl
    cases hs with
    | sub hst _ _ _ _ => cases hl; exact (rel_step_fresh hok hp.1 hst).2.2
    | _ => cases hl
  · intro j hl
    cases hs with
    | call hx hev =>
        rcases hl with hl | hl <;> cases hl
        have hpre : s.p j = .pending := hc.safe hp.2 hx hev rfl
        have := hi.held j (by rw [hpre]; simp)
        exact ⟨this.2, this.1⟩
    | drop hx hev =>
        rcases hl with hl | hl <;> cases hl
        have hpre : s.p j = .pending := hc.safe hp.2 hx hev rfl
        have := hi.held j (by rw [hpre]; simp)
        exact ⟨this.2, this.1⟩
    | _ => rcases hl with hl | hl <;> cases hl

/-- every waiter is released (handed to the executor) at most once — it is fresh for the executor at that moment — and the
    executor Calls or Drops it only while it is pending: exactly one of the two, once.  A Dropped waiter counts as released
    (`nrel = 1`): the event did its part, the coroutine is completed with StopError by the executor. -/
theorem released_once_over' (hok : w.ok) (hc : ExecContract E) (h : XReach w E X s) (hs : XStep E X s l s') (j : Nat) :
    (s.m.job j).nrel ≤ 1 ∧ (∀ t, l = .sub t j → s.p j = .fresh ∧ (s.m.job j).nrel = 0 ∧ (s'.m.job j).nrel = 1) ∧
    (l = .call j ∨ l = .drop j → s.p j = .pending) := by
  have hp := xevent_projects h
  refine ⟨(invJ_reachable hok hp.1).r_nrel j, ?_, ?_⟩
  · intro t hl
    cases hs with
    | sub hst _ _ _ hf => cases hl; have := rel_step_fresh hok hp.1 hst; exact ⟨hf, this.1, this.2.1⟩
    | _ => cases hl
  · intro hl
    cases hs with
    | call hx hev => rcases hl with hl | hl <;> cases hl; exact hc.safe hp.2 hx hev rfl
    | drop hx hev => rcases hl with hl | hl <;> cases hl; exact hc.safe hp.2 hx hev rfl
    | _ => rcases hl with hl | hl <;> cases hl

/-- the composition is quiet: nothing but spurious failures / wake-ups of the plain model is possible -/
def XQuiet (E : Exec) (X : Nat → Bool) (s : XState E) : Prop :=
  ∀ l s', XStep E X s l s' → ∃ l0, l = .plain l0 ∧ Spur s.m l0

/-- nobody stays parked, also behind an executor: after zero, a quiet composition is one in which every thread has finished, every
    waiter has been released exactly once (timed ones may have returned false earlier), nothing is pending in the executor and no
    resumed coroutine segment is still running: every on-executor waiter the event released has been resumed or dropped -/
theorem quiescent_complete_over' (hok : w.ok) (hc : ExecContract E) (h : XReach w E X s) (hq : XQuiet E X s)
    (hz : s.m.zeroed = true) :
    ((∀ t, (s.m.thr t).pc = .idle ∧ (s.m.thr t).prog = []) ∧ ∀ j, j < s.m.njobs → JobDone (s.m.job j)) ∧
    ∀ j, s.p j ≠ .fresh → s.p j = .finished := by
  have hp := xevent_projects h
  have hi := invXE_reach hok hc h
  have hquiet : ∀ l0 m', Step s.m l0 m' → Spur s.m l0 := by
    intro l0 m' hst
    cases hsy : synced X l0 with
    | false =>
        obtain ⟨l1, h1, h2⟩ := hq _ _ (XStep.plain hst hsy)
        cases h1; exact h2
    | true =>
        exfalso
        cases l0 <;> simp [synced] at hsy
        rename_i t j
        have hf := rel_step_fresh hok hp.1 hst
        have hfresh : s.p j = .fresh := by
          cases hph : s.p j with
          | fresh => rfl
          | _ => have := (hi.held j (by rw [hph]; simp)).1; omega
        obtain ⟨lx, x', hx, hev⟩ := hc.accepts_sub j hp.2 hfresh
        obtain ⟨l1, h1, _⟩ := hq _ _ (XStep.sub hst hsy hx hev hfresh)
        cases h1
  refine ⟨quiescent_done (invZ_reachable hp.1) (invT_reachable hok hp.1) (invJ_reachable hok hp.1) (invQ_reachable hok hp.1)
    hquiet hz, ?_⟩
  have hEq : E.Quiet s.x := by
    intro lx x' hx
    cases hev : E.ev lx with
    | none => obtain ⟨l1, h1, _⟩ := hq _ _ (XStep.low hx hev); cases h1
    | some e =>
        cases e with
        | sub a => exact ⟨_, rfl, rfl⟩
        | ret a => exact ⟨_, rfl, rfl⟩
        | call a => obtain ⟨l1, h1, _⟩ := hq _ _ (XStep.call hx hev); cases h1
        | drop a => obtain ⟨l1, h1, _⟩ := hq _ _ (XStep.drop hx hev); cases h1
  have hnc : ∀ a, s.p a ≠ .calling := by
    intro a ha
    obtain ⟨lx, x', hx, hev⟩ := hc.accepts_ret a hp.2 ha
    obtain ⟨l1, h1, _⟩ := hq _ _ (XStep.ret hx hev ha); cases h1
  have hnp := hc.progress hp.2 hEq hnc
  intro j hj
  cases hph : s.p j with
  | finished => rfl
  | fresh => exact absurd hph hj
  | pending => exact absurd hph (hnp j)
  | calling => exact absurd hph (hnc j)

end Yaclib.Event
