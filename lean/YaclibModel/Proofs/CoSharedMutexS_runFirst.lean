import YaclibModel.Proofs.CoSharedMutex
namespace Yaclib.CoSharedMutex

set_option maxHeartbeats 4000000 in
theorem inv_runFirst {cfg : Cfg} {s : State} (hi : Inv cfg s) (c : Cid) (n : Cid) (h : s.pc c = .rRun) (hf : s.wfirst = some n) :
    Inv cfg ((doRunFirst s c n)) := by
  have hby := hi.pc_rRun c h
  obtain ⟨n', hpw⟩ := PW.cases_by hby
  have hn : n' = n := by
    have := hi.pw_first n' (by rw [hpw]; rfl)
    rw [hf] at this; exact (Option.some.inj this).symm
  subst hn
  cases hi
  sm_auto [List.count_le_length]

end Yaclib.CoSharedMutex
