/- C08: arithmetic reading of the extracted bit layout of `FairThreadPool::_jobs_count`
   (Extracted/PoolConsts.lean, regenerated from /repo on every run).  If the source changes a mask, a shift
   or an increment, these lemmas stop checking and every C08 theorem with them.

   layout proved here:  count = 4 * jobs + 2 * wantStop + wasStop                                   -/
import YaclibModel.Extracted.PoolConsts

namespace Yaclib.Pool.Bits
open Yaclib.Extracted.PoolConsts

theorem extraction_ok : extractionOk = true := rfl

theorem initCount_eq : initCount = 0 := rfl

private theorem or_small (a b m : Nat) (hb : b < 4) (hm : m < 4) : (4 * a + b) ||| m = 4 * a + (b ||| m) := by
  have h1 : 4 * a + b = 2 ^ 2 * a ||| b := Nat.two_pow_add_eq_or_of_lt (i := 2) (by omega) a
  have hlt : b ||| m < 2 ^ 2 := Nat.or_lt_two_pow (by omega) (by omega)
  have h2 : 4 * a + (b ||| m) = 2 ^ 2 * a ||| (b ||| m) := Nat.two_pow_add_eq_or_of_lt (i := 2) hlt a
  rw [h1, h2, Nat.or_assoc]

private theorem and_small (a b m : Nat) (hb : b < 4) (hm : m < 4) : (4 * a + b) &&& m = b &&& m := by
  have h3 : m = 3 &&& m := by
    have : m = 0 ∨ m = 1 ∨ m = 2 ∨ m = 3 := by omega
    rcases this with h | h | h | h <;> subst h <;> decide
  have hmod : (4 * a + b) &&& 3 = b := by
    have := Nat.and_two_pow_sub_one_eq_mod (4 * a + b) 2
    simp at this
    rw [this]; omega
  calc (4 * a + b) &&& m = (4 * a + b) &&& (3 &&& m) := by rw [← h3]
    _ = ((4 * a + b) &&& 3) &&& m := by rw [Nat.and_assoc]
    _ = b &&& m := by rw [hmod]

private theorem split4 (c : Nat) : c = 4 * (c / 4) + c % 4 := by omega

theorem wasStop_eq (c : Nat) : wasStop c = decide (c % 2 = 1) := by
  unfold wasStop
  rw [Nat.and_one_is_mod]
  have : c % 2 = 0 ∨ c % 2 = 1 := by omega
  rcases this with h | h <;> simp [h]

theorem wantStop_eq (c : Nat) : wantStop c = decide (c / 2 % 2 = 1) := by
  unfold wantStop
  have hb : c % 4 < 4 := by omega
  rw [split4 c, and_small _ _ 2 hb (by omega)]
  have : c % 4 = 0 ∨ c % 4 = 1 ∨ c % 4 = 2 ∨ c % 4 = 3 := by omega
  rcases this with h | h | h | h <;> rw [h] <;> simp <;> omega

theorem noJobs_eq (c : Nat) : noJobs c = decide (c / 4 = 0) := by
  unfold noJobs
  have : c >>> 2 = c / 4 := by omega
  rw [this]
  by_cases h : c / 4 = 0 <;> simp [h]

theorem submitAdd_eq (c : Nat) : submitAdd c = c + 4 := rfl

theorem loopSub_eq (c : Nat) : loopSub c = c - 4 := rfl

theorem stopSet_eq (c : Nat) : stopSet c = 2 * (c / 2) + 1 := by
  unfold stopSet
  have hb : c % 4 < 4 := by omega
  rw [split4 c, or_small _ _ 1 hb (by omega)]
  have : c % 4 = 0 ∨ c % 4 = 1 ∨ c % 4 = 2 ∨ c % 4 = 3 := by omega
  rcases this with h | h | h | h <;> rw [h] <;> simp <;> omega

theorem softWant_eq (c : Nat) : softWant c = 4 * (c / 4) + 2 + c % 2 := by
  unfold softWant
  have hb : c % 4 < 4 := by omega
  rw [split4 c, or_small _ _ 2 hb (by omega)]
  have : c % 4 = 0 ∨ c % 4 = 1 ∨ c % 4 = 2 ∨ c % 4 = 3 := by omega
  rcases this with h | h | h | h <;> rw [h] <;> simp <;> omega

end Yaclib.Pool.Bits
