import YaclibModel.Proofs.UniqueConserve
namespace Yaclib.Unique

set_option maxHeartbeats 4000000 in
theorem inv2_step_3 {w s l s'} (hi : Inv w s) (h2 : Inv2 w s) (hs : Step s l s') (hg : grpOf l = 3) : Inv2 w s' := by
  have hfin := h2.fin_in
  cases hi
  cases h2
  cases hs with
  | cReadyLoad rest x h ht hx => inv2_auto
  | cGetcLoad rest x h ht hx => inv2_auto
  | cAttLoad op rest k x h ht hk hx =>
      have hb := head_bind_cons (rest := rest) hk
      rw [← ht] at hb
      have hmem : op ∈ s.todo := by rw [ht]; simp
      have hfk := fin_kind_of_op hfin hmem hk
      by_cases hxe : x = .empty
      · simp only [doAttLoad, hxe, ↓reduceIte]; inv2_auto
      · cases k <;> cases hop : decide (op = .fin .getMove) <;>
          simp only [doAttLoad, hxe, afterFail, hop, Bool.false_eq_true, ↓reduceIte] <;> inv2_auto
  | _ => simp [grpOf] at hg

end Yaclib.Unique
