import YaclibModel.Proofs.CoSharedMutex
namespace Yaclib.CoSharedMutex

set_option maxHeartbeats 4000000 in
theorem inv_trBegin {cfg : Cfg} {s : State} (hi : Inv cfg s) (c : Cid) (w r : Nat) (h : s.pc c = .idle) (ht : s.todo c ≠ []) (ho : curOp s c = .tryRd) :
    Inv cfg ({ s with pc := upd s.pc c (.trLoop w r) }) := by
  cases hi
  sm_auto [List.count_le_length]

end Yaclib.CoSharedMutex
