import YaclibModel.Proofs.When
namespace Yaclib.When

set_option maxHeartbeats 4000000 in
theorem invc_step_3 {w s l s'} (hi : InvC w s) (hs : Step w s l s') (hg : l.grp = 3) : InvC w s' := by
  have hidx := @InvC.idx w s hi
  have hlast := @InvC.last_holder w s hi
  have hpos := @InvC.count_pos w s hi
  cases hi
  cases hs with
  | loadLf i d hc hp hs hd =>
      cases d <;> invc_auto
  | xchgLf i hc hp hs hv =>
      by_cases hf : s.lf % 2 = 0 <;> simp only [doXchgLf, hf] <;> invc_auto
  | fsubLf i hc hp hs hv =>
      by_cases hf : s.lf = 2 <;> simp only [doFsubLf, hf] <;> invc_auto
  | _ => simp [Label.grp] at hg

end Yaclib.When
