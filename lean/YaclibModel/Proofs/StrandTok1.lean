import YaclibModel.Proofs.Strand
namespace Yaclib.Strand

theorem invTok_step_a {w s l s'} (hi : InvTok w s) (hs : Step s l s') (hg : ∃ a, l.actor = .act a) : InvTok w s' := by
  cases hs with
  | aCall a h =>
      obtain ⟨j, js, hwd⟩ := word_nonempty_cases (hi.tok_act_word a (by rw [h]; rfl))
      have hh := (hi.tok_act a).mp (by rw [h]; rfl)
      cases hi; simp only [doCall, hwd] at *; tok_auto
  | aBegin a j rem h =>
      have hh := (hi.tok_act a).mp (by rw [h]; rfl)
      cases hi; tok_auto
  | aEnd a j rem h =>
      have hh := (hi.tok_act a).mp (by rw [h]; rfl)
      cases hi; tok_auto
  | aLoad a sawNull h hv =>
      have hh := (hi.tok_act a).mp (by rw [h]; rfl)
      cases sawNull <;> (cases hi; tok_auto)
  | aCasOk a h hw =>
      have hh := (hi.tok_act a).mp (by rw [h]; rfl)
      cases hi; tok_auto
  | aCasFail a h hw =>
      have hh := (hi.tok_act a).mp (by rw [h]; rfl)
      cases hi; tok_auto
  | aResub a h =>
      have hh := (hi.tok_act a).mp (by rw [h]; rfl)
      cases hi; tok_auto
  | aDropX a h =>
      obtain ⟨j, js, hwd⟩ := word_nonempty_cases (hi.tok_act_word a (by rw [h]; rfl))
      have hh := (hi.tok_act a).mp (by rw [h]; rfl)
      cases hi; simp only [doDropX, hwd] at *; tok_auto
  | aDrop a j rem h =>
      have hh : s.holder ≠ some (.act a) := fun hx => by
        have := (hi.tok_act a).mpr hx; rw [h] at this; cases this
      have hb := fun v => busyOf_upd_other (acts := s.acts) (v := v) hh
      cases hi; tok_auto
  | _ => simp [Label.actor] at hg

end Yaclib.Strand
