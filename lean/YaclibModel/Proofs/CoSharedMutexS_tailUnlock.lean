import YaclibModel.Proofs.CoSharedMutex
namespace Yaclib.CoSharedMutex

set_option maxHeartbeats 4000000 in
theorem inv_tailUnlock {cfg : Cfg} {s : State} (hi : Inv cfg s) (c : Cid) (hs : s.spin = .tailOf c) :
    Inv cfg ({ s with spin := .free }) := by
  cases hi
  sm_auto [List.count_le_length]

end Yaclib.CoSharedMutex
