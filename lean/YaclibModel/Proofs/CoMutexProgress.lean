/- Progress for the C14 model: in a state in which no step is enabled the mutex is free, nobody is parked and every
   coroutine has finished its program. -/
import YaclibModel.Proofs.CoMutexInv

namespace Yaclib.CoMutex

/-- while a release operation is in progress some step of it is enabled -/
theorem rel_enabled {cfg s} (hi : Inv cfg s) {c p k d} (ho : s.own = .rel c p k d) : ∃ l s', Step s l s' := by
  have hword : s.word ≠ .notLocked := fun hw => by
    have := hi.own_free.mpr hw; rw [ho] at this; cases this
  cases p with
  | pre =>
      have hd : d = false := by have := hi.rel_pre (by rw [ho]; rfl); rw [ho] at this; exact this
      subst hd
      exact ⟨_, _, .resubmit s c k ho⟩
  | start =>
      cases hr : s.receiver with
      | nil => exact ⟨_, _, .ulLoad s c k d true ho hr (by simp)⟩
      | cons n rest => exact ⟨_, _, .grant s c .start k d n rest ho (Or.inl rfl) hr⟩
  | cas =>
      by_cases hw : s.word = .locked []
      · exact ⟨_, _, .ulCasOk s c k d ho hw⟩
      · exact ⟨_, _, .ulCasFail s c k d ho hw⟩
  | xchg =>
      have hne := hi.rel_xchg (by rw [ho]; rfl)
      cases hw : s.word with
      | notLocked => exact absurd hw hword
      | locked l =>
          have hl : l ≠ [] := by rw [hw] at hne; simpa using hne
          exact ⟨_, _, .ulXchg s c k d l ho hw hl⟩
  | took =>
      have hne := hi.rel_took (by rw [ho]; rfl)
      cases hr : s.receiver with
      | nil => exact absurd hr hne
      | cons n rest => exact ⟨_, _, .grant s c .took k d n rest ho (Or.inr rfl) hr⟩

/-- every coroutine that is neither parked, nor waiting for its own release operation, nor finished, has a step -/
theorem co_enabled {s} (c : Cid) (h1 : s.pc c ≠ .parked) (h2 : s.pc c ≠ .unlocking)
    (h3 : ¬ (s.pc c = .idle ∧ s.todo c = [])) : ∃ l s', Step s l s' := by
  cases hp : s.pc c with
  | idle => exact ⟨_, _, .tlLoad s c true hp (fun ht => h3 ⟨hp, ht⟩)⟩
  | tlLoaded =>
      by_cases hw : s.word = .notLocked
      · exact ⟨_, _, .tlCasOk s c hp hw⟩
      · exact ⟨_, _, .tlCasFail s c hp hw⟩
  | tryFailed => exact ⟨_, _, .tryFail s c hp⟩
  | alStart => exact ⟨_, _, .alLoad s c .free hp⟩
  | alLoop e => exact ⟨_, _, .alCasFail s c e hp⟩
  | parked => exact absurd hp h1
  | acq => exact ⟨_, _, .enter s c hp⟩
  | cs => exact ⟨_, _, .exit s c hp⟩
  | unlocking => exact absurd hp h2

theorem quiescent {cfg s} (hi : Inv cfg s) (hq : ∀ l s', ¬ Step s l s') :
    s.own = .free ∧ s.word = .notLocked ∧ s.receiver = [] ∧ ∀ c, s.pc c = .idle ∧ s.todo c = [] := by
  have hfree : s.own = .free := by
    cases ho : s.own with
    | free => rfl
    | held c =>
        have := (hi.holder c).mpr ho
        rcases this with h | h
        · exact absurd (Step.enter s c h) (hq _ _)
        · exact absurd (Step.exit s c h) (hq _ _)
    | rel c p k d =>
        obtain ⟨l, s', hs⟩ := rel_enabled hi ho
        exact absurd hs (hq _ _)
  have hword := hi.own_free.mp hfree
  have hrecv : s.receiver = [] := by
    cases hr : s.receiver with
    | nil => rfl
    | cons n rest => exact absurd hfree (hi.recv_own (by rw [hr]; simp))
  refine ⟨hfree, hword, hrecv, fun c => ?_⟩
  have hnp : s.pc c ≠ .parked := by
    intro hp
    have := hi.parked c
    rw [hword, hrecv, hp] at this
    simp at this
  have hnu : s.pc c ≠ .unlocking := by
    intro hp
    have := (hi.blocked c).mp hp
    rw [hfree] at this
    simp at this
  cases Classical.em (s.pc c = .idle ∧ s.todo c = []) with
  | inl h => exact h
  | inr h =>
      obtain ⟨l, s', hs⟩ := co_enabled c hnp hnu h
      exact absurd hs (hq _ _)

end Yaclib.CoMutex
