/- C08 ↔ C07: the FairThreadPool model as an *open* executor (`Strand.Exec`): clients may submit any number of jobs
   at any time, job bodies belong to the client.  Definitions, the frame lemmas (which step changes which history)
   and the invariants of the open system.  The contract proof is in PoolExecContract.lean. -/
import YaclibModel.Proofs.PoolExt
import YaclibModel.Proofs.PoolBlocked
import YaclibModel.Proofs.StrandTower

namespace Yaclib.Pool
open Yaclib.Strand (Exec XEv Prot Phase specPre specPost protInit ExecContract upd)

/-- streams are created on demand: pad with idle one-job streams up to `N` streams -/
def pad (s : State) (N : Nat) : State :=
  { s with subs := s.subs ++ List.replicate (N - s.subs.length) (idleSub 1) }

/-- `N` clients, each handing over one job with its own `Submit` (client job a = `⟨a, 0⟩`) -/
def wN (n : Nat) (stop : Option StopKind) (N : Nat) : Workload := ⟨n, List.replicate N 1, stop⟩

/-- state of the open pool: the pool model plus the job bodies that are running (worker, job) — a body belongs to
    the client: it returns when the client says so, and only then does the worker go on to `lock.lock()` -/
structure PX where
  m : State
  inBody : List (Nat × Nat)

inductive PLab where
  | m (l : Label)          -- a step of the pool model
  | ret (i a : Nat)        -- the body of job a, running on worker i, returns

/-- a worker re-locks after a Call only when the body has returned -/
def bodyOk (x : PX) : Label → Prop
  | .lock (.worker i) => x.m.workers[i]? = some .relock → ∀ a, (i, a) ∉ x.inBody
  | _ => True

def bodyAfter (x : PX) : Label → List (Nat × Nat)
  | .call i j => (i, j.sub) :: x.inBody
  | _ => x.inBody

inductive PStep (spur : Bool) : PX → PLab → PX → Prop where
  | m {x : PX} {l : Label} {m' : State} (N : Nat) : Step (pad x.m N) l m' → bodyOk x l →
      (spur = false → l.isSpurious = false) → PStep spur x (.m l) ⟨m', bodyAfter x l⟩
  | ret {x : PX} {i a : Nat} : (i, a) ∈ x.inBody → PStep spur x (.ret i a) ⟨x.m, x.inBody.erase (i, a)⟩

/-- the events at the client interface: `Submit(a)` is called / `a.Call()` is entered / returns / a is Dropped
    (by the rejecting Submit or by HardStop) -/
def pEv : PLab → Option XEv
  | .m (.submit i _) => some (.sub i)
  | .m (.call _ j) => some (.call j.sub)
  | .m (.drop _ j) => some (.drop j.sub)
  | .ret _ a => some (.ret a)
  | _ => none

/-- **the FairThreadPool as an open executor**: `n` workers, a stopper thread calling `stop` (or nobody) at any
    moment, with (`spur = true`) or without spurious wake-ups of the condition variable -/
def poolExec (n : Nat) (stop : Option StopKind) (spur : Bool) : Exec :=
  { σ := PX, Lab := PLab, init := ⟨init (wN n stop 0), []⟩, step := PStep spur, ev := pEv }

/-! ### padding -/

theorem wN_ext (n : Nat) (stop : Option StopKind) (N : Nat) : (wN n stop N).ext 1 = wN n stop (N + 1) := by
  simp [wN, Workload.ext, List.replicate_succ']

theorem reachable_more {n stop} : ∀ (d : Nat) {N : Nat} {s : State}, Reachable (wN n stop N) s →
    Reachable (wN n stop (N + d)) { s with subs := s.subs ++ List.replicate d (idleSub 1) }
  | 0, N, s, h => by simpa using h
  | d + 1, N, s, h => by
      have h1 := reachable_ext (reachable_more d h) 1
      rw [wN_ext] at h1
      have : ext { s with subs := s.subs ++ List.replicate d (idleSub 1) } (idleSub 1) =
          { s with subs := s.subs ++ List.replicate (d + 1) (idleSub 1) } := by
        simp [ext, List.replicate_succ', List.append_assoc]
      rw [this] at h1
      exact h1

theorem pad_length (s : State) (N : Nat) : (pad s N).subs.length = s.subs.length + (N - s.subs.length) := by
  simp [pad]

theorem reachable_pad {n stop} {s : State} (h : Reachable (wN n stop s.subs.length) s) (N : Nat) :
    Reachable (wN n stop (pad s N).subs.length) (pad s N) := by
  rw [pad_length]
  exact reachable_more _ h

/-! ### frame lemmas: which step changes which history -/

def callJob : Label → List JobId
  | .call _ j => [j] | _ => []
def subDropJob : Label → List JobId
  | .drop (.sub _) j => [j] | _ => []
def hardDropJob : Label → List JobId
  | .drop .stopper j => [j] | _ => []
def submitJob : Label → List JobId
  | .submit _ j => [j] | _ => []

macro "frame_simp" : tactic =>
  `(tactic| simp [doSubmit, doSLock, doAccept, doReject, doSDrop, doNotifyNone, doNotifyOne, doWLock,
      doPop, doWStop, doWExit, doWWait, doCall, doWNotifyAll, doSpurious, doXLock, doXStop, doXSoftWant, doXHard, doXNotifyAll,
      doXDrop, callJob, subDropJob, hardDropJob, submitJob])

theorem started_step {s l s'} (hs : Step s l s') : s'.started = s.started ++ callJob l := by
  cases hs <;> frame_simp
theorem rejected_step {s l s'} (hs : Step s l s') : s'.rejected = s.rejected ++ subDropJob l := by
  cases hs <;> frame_simp
theorem hardDropped_step {s l s'} (hs : Step s l s') : s'.hardDropped = s.hardDropped ++ hardDropJob l := by
  cases hs <;> frame_simp
theorem submitted_step {s l s'} (hs : Step s l s') : s'.submitted = s.submitted ++ submitJob l := by
  cases hs <;> frame_simp
theorem subs_length_step {s l s'} (hs : Step s l s') : s'.subs.length = s.subs.length := by
  cases hs <;> frame_simp
theorem workers_length_step {s l s'} (hs : Step s l s') : s'.workers.length = s.workers.length := by
  cases hs <;> frame_simp

/-- client a has not called `Submit` yet -/
def freshB (s : State) (a : Nat) : Bool :=
  match s.subs[a]? with
  | none => true
  | some sb => decide (sb.pc = .idle ∧ sb.k = 0)

def isSubmitOf (a : Nat) : Label → Bool
  | .submit i _ => i == a | _ => false

theorem fresh_step {s l s'} (hs : Step s l s') (a : Nat) : freshB s' a = (freshB s a && !isSubmitOf a l) := by
  cases hs <;> simp only [doSubmit, doSLock, doAccept, doReject, doSDrop, doNotifyNone, doNotifyOne, doWLock,
      doPop, doWStop, doWExit, doWWait, doCall, doWNotifyAll, doSpurious, doXLock, doXStop, doXSoftWant, doXHard, doXNotifyAll,
      doXDrop, freshB, isSubmitOf, List.getElem?_set] <;> grind

theorem fresh_pad (s : State) (N a : Nat) : freshB (pad s N) a = freshB s a := by
  simp only [freshB, pad]
  by_cases h : a < s.subs.length
  · rw [List.getElem?_append_left h]
  · have hn : s.subs[a]? = none := by simp; omega
    rw [hn, List.getElem?_append_right (by omega)]
    cases hr : (List.replicate (N - s.subs.length) (idleSub 1))[a - s.subs.length]? with
    | none => rfl
    | some sb =>
        have := List.mem_of_getElem? hr
        rw [List.eq_of_mem_replicate this]
        simp [idleSub]

/-- what the label of an output step says about the state before it -/
theorem out_pre {s l s'} (hs : Step s l s') :
    (∀ i j, l = .call i j → s.workers[i]? = some (.calling j)) ∧
    (∀ j, l = .drop .stopper j → ∃ rest, s.xpc = .dropping (j :: rest)) ∧
    (∀ i j, l = .drop (.sub i) j → ∃ sb, s.subs[i]? = some sb ∧ sb.pc = .dropping ∧ j = ⟨i, sb.k⟩) ∧
    (∀ t j, l = .drop t j → t = .stopper ∨ ∃ i, t = .sub i) ∧
    (∀ i j, l = .submit i j → j.sub = i ∧ ∃ sb, s.subs[i]? = some sb ∧ sb.pc = .idle) := by
  cases hs <;> refine ⟨?_, ?_, ?_, ?_, ?_⟩ <;> intros <;> simp_all <;> grind

/-! ### what follows from the invariants for one job -/

theorem submitted_range {w s} (h : Reachable w s) : ∀ j ∈ s.submitted, j.sub < s.subs.length := by
  induction h with
  | init => intro j hj; simp [init] at hj
  | @step s0 l0 s1 _ hs ih =>
      intro j hj
      rw [submitted_step hs] at hj
      rw [subs_length_step hs]
      rcases List.mem_append.mp hj with hj | hj
      · exact ih j hj
      · cases l0 with
        | submit i j' =>
            simp [submitJob] at hj; subst hj
            obtain ⟨h1, sb, h2, _⟩ := (out_pre hs).2.2.2.2 i j rfl
            rw [h1]; exact (List.getElem?_eq_some_iff.mp h2).1
        | _ => simp [submitJob] at hj

/-- the arithmetic of one job's history -/
theorem job_counts {w s} (h : Reachable w s) (j : JobId) :
    s.submitted.count j ≤ 1 ∧
    s.submitted.count j = s.accepted.count j + s.rejected.count j + inFlight s j ∧
    s.accepted.count j = s.popped.count j + s.queue.count j + s.stolen.count j ∧
    s.workers.countP (WPc.isCalling j) + s.started.count j = s.popped.count j ∧
    s.hardDropped.count j ≤ s.stolen.count j := by
  have hb := invB_reachable h
  refine ⟨count_le_one_of_nodup hb.sub_nodup j, hb.sub_flight j, ?_, hb.call_count j, hardDropped_le_stolen h j⟩
  rw [hb.acc_split, List.count_append, List.count_append]

theorem mem_of_count_pos {l : List JobId} {j : JobId} (h : 0 < l.count j) : j ∈ l := List.count_pos_iff.mp h
theorem count_zero_of_not_mem {l : List JobId} {j : JobId} (h : j ∉ l) : l.count j = 0 := List.count_eq_zero.mpr h

/-- a job that is about to be Called or Dropped has been submitted and has no outcome yet -/
structure Pending (s : State) (j : JobId) : Prop where
  sub : j ∈ s.submitted
  not_started : j ∉ s.started
  not_rejected : j ∉ s.rejected
  not_hard : j ∉ s.hardDropped

theorem pending_of_counts {s : State} {j : JobId} (h1 : 0 < s.submitted.count j) (h2 : s.started.count j = 0)
    (h3 : s.rejected.count j = 0) (h4 : s.hardDropped.count j = 0) : Pending s j :=
  ⟨mem_of_count_pos h1, fun h => by have := List.count_pos_iff.mpr h; omega,
   fun h => by have := List.count_pos_iff.mpr h; omega, fun h => by have := List.count_pos_iff.mpr h; omega⟩

theorem pending_calling {w s} (h : Reachable w s) {i : Nat} {j : JobId} (hw : s.workers[i]? = some (.calling j)) :
    Pending s j := by
  obtain ⟨c1, c2, c3, c4, c5⟩ := job_counts h j
  have hp := countP_pos_get (WPc.isCalling j) hw (by simp [WPc.isCalling])
  apply pending_of_counts <;> omega

theorem pending_dropping {w s} (h : Reachable w s) {i : Nat} {sb : Sub} (hs : s.subs[i]? = some sb)
    (hpc : sb.pc = .dropping) : Pending s ⟨i, sb.k⟩ := by
  obtain ⟨c1, c2, c3, c4, c5⟩ := job_counts h ⟨i, sb.k⟩
  have hf : inFlight s ⟨i, sb.k⟩ = 1 := by simp [inFlight, hs, hpc]
  apply pending_of_counts <;> omega

theorem pending_hard {w s} (h : Reachable w s) {j : JobId} {rest : List JobId} (hx : s.xpc = .dropping (j :: rest)) :
    Pending s j := by
  obtain ⟨c1, c2, c3, c4, c5⟩ := job_counts h j
  have hd := (invB_reachable h).hard_drop _ hx
  have : s.stolen.count j = s.hardDropped.count j + 1 + rest.count j := by
    rw [← hd, List.count_append, List.count_cons]; simp; omega
  apply pending_of_counts <;> omega

/-- with one-job streams: a submitted job is job 0 of its stream, and that stream is not fresh any more -/
theorem submitted_one {n stop} {s : State} (h : Reachable (wN n stop s.subs.length) s) {j : JobId} (hj : j ∈ s.submitted) :
    j = ⟨j.sub, 0⟩ ∧ freshB s j.sub = false := by
  have hb := invB_reachable h
  have hlt := submitted_range h j hj
  obtain ⟨sb, hget⟩ : ∃ sb, s.subs[j.sub]? = some sb := ⟨_, List.getElem?_eq_getElem hlt⟩
  have hwf := hb.sub_wf _ _ hget
  have htot : sb.total = 1 := by
    have := hwf.1
    simp [wN, hlt] at this
    exact this.symm
  have hbd := hb.sub_bound j hj _ hget
  have hk := hwf.2.1
  have hseq : j.seq = 0 := by
    rcases hbd with h | ⟨h, hne⟩
    · omega
    · have := hwf.2.2 hne; omega
  refine ⟨?_, ?_⟩
  · cases j with
    | mk a b => simp only at hseq; subst hseq; rfl
  · simp only [freshB, hget]
    simp only [decide_eq_false_iff_not]
    intro hc
    rcases hbd with h | ⟨_, h⟩
    · omega
    · exact h hc.1

/-! ### invariants of the open system -/

structure PXInv (n : Nat) (stop : Option StopKind) (x : PX) : Prop where
  reach : Reachable (wN n stop x.m.subs.length) x.m
  body_started : ∀ i a, (i, a) ∈ x.inBody → (⟨a, 0⟩ : JobId) ∈ x.m.started
  body_nodup : (x.inBody.map Prod.snd).Nodup

theorem pxinv_init (n stop) : PXInv n stop ⟨init (wN n stop 0), []⟩ := by
  refine ⟨?_, by simp, by simp⟩
  have : (init (wN n stop 0)).subs.length = 0 := by simp [init, wN]
  rw [this]; exact .init

theorem pxinv_step {n stop spur} {x : PX} {l : PLab} {x' : PX} (hi : PXInv n stop x) (hs : PStep spur x l x') :
    PXInv n stop x' := by
  cases hs with
  | ret hm =>
      refine ⟨hi.reach, ?_, ?_⟩
      · intro i a h; exact hi.body_started i a (List.mem_of_mem_erase h)
      · exact (List.Sublist.map _ List.erase_sublist).nodup hi.body_nodup
  | @m l m' N hst _ _ =>
      have hrp := reachable_pad hi.reach N
      have hr' : Reachable (wN n stop m'.subs.length) m' := by
        rw [subs_length_step hst]; exact .step hrp hst
      refine ⟨hr', ?_, ?_⟩
      · intro i a h
        simp only at h ⊢
        rw [started_step hst]
        cases l with
        | call i' j =>
            simp only [bodyAfter, List.mem_cons] at h
            rcases h with h | h
            · obtain ⟨_, h2⟩ := Prod.mk.inj h
              subst h2
              have hw := (out_pre hst).1 i' j rfl
              have hp := pending_calling hrp hw
              have := (submitted_one hrp hp.sub).1
              simp [callJob]; right; exact this.symm
            · exact List.mem_append_left _ (hi.body_started i a h)
        | _ => exact List.mem_append_left _ (hi.body_started i a h)
      · cases l with
        | call i' j =>
            simp only [bodyAfter, List.map_cons, List.nodup_cons]
            refine ⟨?_, hi.body_nodup⟩
            intro hm
            obtain ⟨⟨i0, a0⟩, hm0, ha0⟩ := List.mem_map.mp hm
            simp only at ha0; subst ha0
            have hw := (out_pre hst).1 i' j rfl
            have hp := pending_calling hrp hw
            have hj := (submitted_one hrp hp.sub).1
            have := hi.body_started i0 _ hm0
            rw [← hj] at this
            exact hp.not_started this
        | _ => exact hi.body_nodup

theorem pxinv_reach {n stop spur} {x : (poolExec n stop spur).σ} (h : (poolExec n stop spur).Reach x) : PXInv n stop x := by
  induction h with
  | init => exact pxinv_init n stop
  | step _ hs ih => exact pxinv_step ih hs

end Yaclib.Pool
