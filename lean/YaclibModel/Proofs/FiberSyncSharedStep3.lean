import YaclibModel.Proofs.FiberSyncShared
namespace Yaclib.FiberSync.Sm
open Yaclib.FiberSync

set_option maxHeartbeats 4000000 in
theorem inv_step_3 {k s l s'} (hi : Inv k s) (hs : Step s l s') (hg : grpOf l = 3) : Inv k s' := by
  cases hi
  cases hs with
  | txFast f hk hfx h ho => sm_auto
  | txFastF f hk hfx h ho => sm_auto
  | txPark f t d j hk h ho ht => sm_auto
  | txWokenAcq f hk h => sm_auto
  | txRecheckAcq f req hk h ho => sm_auto
  | txRepark f req j hk h ho => sm_auto
  | txTimeout f t req dl hk h hd ht => sm_auto
  | tsFast f hk h hx => sm_auto
  | tsPark f t d j hk h hx ht => sm_auto
  | tsWokenAcq f hk h => sm_auto
  | tsRecheckAcq f req hk h hx => sm_auto
  | tsRepark f req j hk h hx => sm_auto
  | tsTimeout f t req dl hk h hd ht => sm_auto
  | sleepStart f t d h ht => sm_auto
  | sleepWake f t dl h hd ht => sm_auto
  | finish f h => sm_auto
  | _ => simp [grpOf] at hg

end Yaclib.FiberSync.Sm
