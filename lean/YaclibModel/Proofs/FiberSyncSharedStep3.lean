import YaclibModel.Proofs.FiberSyncShared
namespace Yaclib.FiberSync.Sm
open Yaclib.FiberSync

set_option maxHeartbeats 4000000 in
theorem inv_step_3 {k s l s'} (hi : Inv k s) (hs : Step s l s') (hg : grpOf l = 3) : Inv k s' := by
  cases hs with
  | unlockS f w h hh hw => cases hi; cases w <;> sm_auto
  | _ => simp [grpOf] at hg

end Yaclib.FiberSync.Sm
