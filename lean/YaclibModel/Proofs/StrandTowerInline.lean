/- Base executors for towers of strands (C07) / the executor contract (C05): the Inline executor.

   Written from /repo/src/exe/inline.cpp: `Inline<Stopped>::Submit(task)` is `if constexpr (Stopped) task.Drop(); else
   task.Call();` — in the caller's thread, at once; `Alive()` is `!Stopped`; the executor has no state.
   `MakeInline()` = `inlineExec true`, `MakeInline(StopTag)` = `inlineExec false`.

   As an `Exec`: `sub a` = the client enters `Submit(a)`; the only thing that thread does next is `call a` (alive) or
   `drop a` (stopped); `ret a` = `a.Call()` returns (and with it `Submit`).  Any number of client threads may be inside
   `Submit` at the same time (the executor shares nothing between them), so the state is just the position of every
   job — which is the protocol state itself. -/
import YaclibModel.Proofs.StrandTowerN

namespace Yaclib.Strand

def inlineStep (alive : Bool) (p : Prot) (e : XEv) (p' : Prot) : Prop :=
  match e with
  | .sub a => p a = .fresh ∧ p' = upd p a .pending          -- Submit(a) entered
  | .call a => alive = true ∧ p a = .pending ∧ p' = upd p a .calling   -- `task.Call()`   (only `Inline<false>`)
  | .ret a => p a = .calling ∧ p' = upd p a .finished       -- Call returned, Submit returns
  | .drop a => alive = false ∧ p a = .pending ∧ p' = upd p a .finished  -- `task.Drop()`   (only `Inline<true>`)

/-- `alive = !Stopped` -/
def inlineExec (alive : Bool) : Exec :=
  { σ := Prot, Lab := XEv, init := protInit, step := inlineStep alive, ev := some }

theorem inline_step_spec {alive : Bool} {p : Prot} {e : XEv} {p' : Prot} (h : inlineStep alive p e p') :
    specPre p e ∧ p' = specPost p e := by
  cases e <;> simp only [inlineStep] at h <;> simp only [specPre, specPost]
  · exact h
  · exact h.2
  · exact h
  · exact h.2

theorem inline_run {alive : Bool} {s : (inlineExec alive).σ} {p : Prot} (h : (inlineExec alive).Run s p) : s = p := by
  induction h with
  | init => rfl
  | tau _ _ he _ => cases he
  | inp _ hs he _ _ ih => cases he; rw [(inline_step_spec hs).2, ih]
  | out _ hs he _ ih => cases he; rw [(inline_step_spec hs).2, ih]

/-- the Inline executor (either variant) honours the `IExecutor` contract; no client obligation beyond the protocol -/
theorem inline_contract (alive : Bool) : ExecContract (inlineExec alive) := by
  refine ⟨?_, ?_, ?_, ?_⟩
  · intro s p l s' e hr hs he _
    cases he; rw [← inline_run hr]; exact (inline_step_spec hs).1
  · intro s p a hr hp
    exact ⟨.sub a, upd s a .pending, ⟨by rw [inline_run hr]; exact hp, rfl⟩, rfl⟩
  · intro s p a hr hp
    exact ⟨.ret a, upd s a .finished, ⟨by rw [inline_run hr]; exact hp, rfl⟩, rfl⟩
  · intro s p hr hq _ a ha
    have hsa : s a = .pending := by rw [inline_run hr]; exact ha
    cases alive with
    | true =>
        have hs : (inlineExec true).step s (.call a) (upd s a .calling) := ⟨rfl, hsa, rfl⟩
        obtain ⟨e, he, hi⟩ := hq _ _ hs
        cases he; cases hi
    | false =>
        have hs : (inlineExec false).step s (.drop a) (upd s a .finished) := ⟨rfl, hsa, rfl⟩
        obtain ⟨e, he, hi⟩ := hq _ _ hs
        cases he; cases hi

/-- `Alive() == true` ⇔ the executor never Drops; `Alive() == false` ⇔ it never Calls -/
theorem inline_alive_never_drops {p : Prot} {a : Nat} {p' : Prot} : ¬ (inlineExec true).step p (.drop a) p' := by
  intro h; exact absurd h.1 (by decide)

theorem inline_stopped_never_calls {p : Prot} {a : Nat} {p' : Prot} : ¬ (inlineExec false).step p (.call a) p' := by
  intro h; exact absurd h.1 (by decide)

end Yaclib.Strand
