/- Termination measure: every delivery (fulfil the pending promise / run the queued job) strictly decreases the amount of
   program text the suspended pipeline still has in front of it.  Hence finitely many deliveries bring every pipeline to
   rest — for every executor configuration (every rejection position). -/
import YaclibModel.Proofs.PipelineRun

namespace Yaclib.Pipeline
open Yaclib.Extracted

def mSrc : Src → Nat
  | .unit => 0
  | .promiseFn _ _ _ => 2
  | _ => 1

mutual
  def mStep : Step → Nat
    | .mk _ _ _ beh =>
      (match beh with
       | .async src _ steps => 1 + mSrc src + mSteps steps
       | _ => 1)
  def mSteps : List Step → Nat
    | [] => 0
    | s :: ss => mStep s + mSteps ss
end

theorem mStep_async (id : Nat) (sig : Sig) (m : Mode) (src : Src) (lazy : Bool) (steps : List Step) :
    mStep (.mk id sig m (.async src lazy steps)) = 1 + mSrc src + mSteps steps := by
  rw [mStep]

theorem mStep_pos : ∀ s : Step, 1 ≤ mStep s
  | .mk id sig m beh => by cases beh <;> rw [mStep] <;> (try intros; simp_all) <;> omega

def mWait : Wait → Nat
  | .promise _ _ => 1
  | .job _ _ (.step s _ _) => mStep s
  | .job _ _ (.readyHead _) => 1
  | .job _ _ (.promiseHead _ _) => 2

theorem mWait_pos (w : Wait) : 1 ≤ mWait w := by
  cases w with
  | promise p f => simp [mWait]
  | job jid k jk => cases jk <;> simp [mWait, mStep_pos]

def mFrames : List Frame → Nat
  | [] => 0
  | f :: fs => mSteps f.rest + mFrames fs

def mT (t : Thread) : Nat := mWait t.wait + mSteps t.rest + mFrames t.outer

theorem mFrames_append (a b : List Frame) : mFrames (a ++ b) = mFrames a + mFrames b := by
  induction a with
  | nil => simp [mFrames]
  | cons f fs ih => simp [mFrames, ih]; omega

/-- a suspended outcome has at most `B - extra` in front of it -/
def SizeOut (B extra : Nat) : Out → Prop
  | .parked t _ => mT t + extra ≤ B
  | _ => True

theorem startSrc_size (cfg : Cfg) (src : Src) (ctx : Option Nat) (g : G) :
    match startSrc cfg src ctx g with
    | .wait w _ _ => mWait w ≤ mSrc src
    | _ => True := by
  cases src with
  | promiseFn e p f =>
    simp only [startSrc]
    cases submit cfg e ctx g <;> simp [mWait, mSrc]
  | ready r => simp [startSrc]
  | contract p f => simp [startSrc, mWait, mSrc]
  | contractOn e p f => simp [startSrc, mWait, mSrc]
  | unit => simp [startSrc]
  | sharedReady r => simp [startSrc]
  | sharedContract p f => simp [startSrc, mWait, mSrc]
  | sharedKept e p f pre => cases h : g.isSet p pre <;> simp [startSrc, h, mWait, mSrc]

theorem asyncFinish_size (ty : Nat) (own : Exec) (k : List Step) (lazy : Bool) (ctx : Option Nat) (o : Out)
    (B extra : Nat) (h : SizeOut B (mSteps k + extra) o) : SizeOut B extra (asyncFinish ty own k lazy ctx o) := by
  cases o with
  | done r inh c g => cases lazy <;> simp [asyncFinish, SizeOut]
  | parked t g =>
    simp only [SizeOut] at h
    cases lazy <;> simp [asyncFinish, SizeOut, mT, mFrames_append, mFrames] at h ⊢ <;> omega
  | crash g => simp [asyncFinish, SizeOut]

mutual
  /-- strict: the step itself is consumed -/
  theorem callStep_size (cfg : Cfg) :
      ∀ (s : Step) (k : List Step) (hd dropped : Bool) (ctx : Option Nat) (via : Option Exec) (input0 : R) (own : Exec)
        (g : G) (B extra : Nat), mStep s + mSteps k + extra ≤ B →
      SizeOut B (extra + 1) (callStep cfg s k hd dropped ctx via input0 own g)
    | .mk id sig mode beh, k, hd, dropped, ctx, via, input0, own, g, B, extra, hb => by
      rw [callStep.eq_def]
      simp only []
      cases hact : route sig (passesUnit (stepType mode hd) dropped sig) (Dispatch.isRun (stepType mode hd))
          (seenInput (stepType mode hd) dropped input0) with
      | call =>
        simp only []
        cases beh with
        | val n => trivial
        | res r => trivial
        | throw t => trivial
        | async src lazy steps =>
          rw [mStep_async] at hb
          simp only []
          cases lazy with
          | false =>
            simp only [Bool.false_eq_true, ite_false]
            have hsrc := startSrc_size cfg src ctx
              ((G.allocCore (g.invoke id ctx via) (srcCores src + steps.length)).allocFunctor (srcFunctors src + steps.length))
            cases hst : startSrc cfg src ctx
              ((G.allocCore (g.invoke id ctx via) (srcCores src + steps.length)).allocFunctor (srcFunctors src + steps.length)) with
            | go r0 inh0 c0 g3 =>
              simp only []
              apply asyncFinish_size
              exact runSteps_size cfg steps (src == .unit) false ctx r0 inh0 g3 B _ (by omega)
            | wait w inh0 g3 =>
              rw [hst] at hsrc
              simp only [SizeOut, mT, mFrames] at hsrc ⊢
              omega
            | crash g3 => trivial
          | true =>
            simp only [↓reduceIte]
            rw [enterHere_eq]
            have hsrc := startSrc_size cfg src ctx (asyncRetAcct (stepType mode hd)
              ((G.allocCore (g.invoke id ctx via) (srcCores src + steps.length)).allocFunctor (srcFunctors src + steps.length)))
            cases hst : startSrc cfg src ctx (asyncRetAcct (stepType mode hd)
              ((G.allocCore (g.invoke id ctx via) (srcCores src + steps.length)).allocFunctor (srcFunctors src + steps.length))) with
            | go r0 inh0 c0 g3 =>
              simp only []
              apply asyncFinish_size
              exact runSteps_size cfg steps (src == .unit) true c0 r0 inh0 g3 B _ (by omega)
            | wait w inh0 g3 =>
              rw [hst] at hsrc
              simp only [SizeOut, mT, mFrames] at hsrc ⊢
              omega
            | crash g3 => trivial
      | doneException => trivial
      | doneError => trivial
      | doneResult => trivial

  theorem runSteps_size (cfg : Cfg) :
      ∀ (ss : List Step) (hd flow : Bool) (ctx : Option Nat) (r : R) (inh : Exec) (g : G) (B extra : Nat),
      mSteps ss + extra ≤ B → SizeOut B extra (runSteps cfg ss hd flow ctx r inh g)
    | [], hd, flow, ctx, r, inh, g, B, extra, hb => by
      rw [runSteps.eq_def]; trivial
    | s :: ss, hd, flow, ctx, r, inh, g, B, extra, hb => by
      rw [mSteps] at hb
      rw [runSteps.eq_def]
      simp only []
      have tail : ∀ (o : Out), SizeOut B (extra + 1) o →
          SizeOut B extra (match o with
            | .done r' inh' c' g' => runSteps cfg ss false flow (if flow = true then c' else ctx) r' inh' g'
            | o => o) := by
        intro o ho
        cases o with
        | done r' inh' c' g' => exact runSteps_size cfg ss false flow _ r' inh' g' B extra (by omega)
        | parked t g' => simp only [SizeOut] at ho ⊢; omega
        | crash g' => trivial
      by_cases hsub : Dispatch.implSubmits (stepType s.mode hd) = true
      · simp only [hsub, ite_true]
        cases hsb : submit cfg (Dispatch.transferExecutorTo s.mode.explicit inh) ctx g with
        | callNow c0 g' => exact tail _ (callStep_size cfg s ss hd false c0 _ r _ g' B extra (by omega))
        | dropNow c0 g' => exact tail _ (callStep_size cfg s ss hd true c0 _ r _ g' B extra (by omega))
        | queued jid k g' =>
          simp only [SizeOut, mT, mWait, mFrames]
          omega
      · simp only [hsub, Bool.false_eq_true, ite_false]
        exact tail _ (callStep_size cfg s ss hd false ctx none r _ g B extra (by omega))
end

theorem unwind_size (cfg : Cfg) : ∀ (fs : List Frame) (o : Out) (B extra : Nat), mFrames fs + extra ≤ B →
    SizeOut B (mFrames fs + extra) o → SizeOut B extra (unwind cfg fs o)
  | [], o, B, extra, _, h => by cases o <;> simpa [unwind, mFrames] using h
  | f0 :: fs, .done r inh c' g, B, extra, hB, _ => by
    simp only [mFrames] at hB
    simp only [unwind]
    apply unwind_size cfg fs _ B extra (by omega)
    exact runSteps_size cfg f0.rest false true c' r f0.own _ B _ (by omega)
  | f0 :: fs, .parked t g, B, extra, _, h => by
    simp only [SizeOut] at h
    simp only [unwind, SizeOut, mT, mFrames_append]
    simp only [mT] at h
    omega
  | f0 :: fs, .crash g, B, extra, _, _ => trivial

/-- strict: the wait is consumed -/
theorem fire_size (cfg : Cfg) (t : Thread) (ctx : Option Nat) (g : G) (B extra : Nat)
    (hb : mWait t.wait + mSteps t.rest + extra ≤ B) : SizeOut B (extra + 1) (fire cfg t ctx g) := by
  unfold fire
  cases hwt : t.wait with
  | promise p fl => trivial
  | job jid k jk =>
    rw [hwt] at hb
    cases jk with
    | step s input hd =>
      simp only [mWait] at hb
      exact callStep_size cfg s t.rest hd false (some k) (some t.inh) input t.inh _ B extra hb
    | readyHead r => trivial
    | promiseHead p fl =>
      simp only [mWait] at hb
      simp only [SizeOut, mT, mWait, mFrames]
      omega

/-- **every delivery strictly decreases the measure** -/
theorem resume_size (cfg : Cfg) (t : Thread) (ctx : Option Nat) (g : G) :
    SizeOut (mT t) 1 (resume cfg t ctx g) := by
  have hw := mWait_pos t.wait
  have hf := fire_size cfg t ctx g (mT t) (mFrames t.outer) (by simp only [mT]; omega)
  unfold resume
  apply unwind_size cfg t.outer _ (mT t) 1 (by simp only [mT]; omega)
  cases ho : fire cfg t ctx g with
  | done r inh c' g' =>
    simp only []
    exact runSteps_size cfg t.rest false true c' r inh g' (mT t) _ (by simp only [mT]; omega)
  | parked t' g' =>
    rw [ho] at hf
    simp only [SizeOut] at hf ⊢
    omega
  | crash g' => trivial

/-- what the suspended pipeline waits for -/
def Thread.delivery (t : Thread) : Event :=
  match t.wait with
  | .promise q _ => .set q
  | .job _ k _ => .call k

/-- measure of a whole state: 0 when nothing is suspended -/
def State.measure (st : State) : Nat :=
  if st.crashed then 0 else
  match st.ctl with
  | .pending t => mT t
  | _ => 0

/-- delivering what a suspended pipeline waits for strictly decreases the measure -/
theorem delivery_decreases (cfg : Cfg) (st : State) (t : Thread) (hc : st.crashed = false) (ht : st.ctl = .pending t) :
    (mech cfg st t.delivery).measure < st.measure := by
  have hpos : 1 ≤ mT t := by have := mWait_pos t.wait; simp only [mT]; omega
  have hm : st.measure = mT t := by simp [State.measure, hc, ht]
  rw [hm]
  have key : ∀ (ctx : Option Nat) (st' : State) (g' : G), st'.crashed = false →
      (settle st' (resume cfg t ctx g')).measure < mT t := by
    intro ctx st' g' hc
    have hs := resume_size cfg t ctx g'
    cases hr : resume cfg t ctx g' with
    | done r inh c g =>
      simp only [settle]
      split <;> simp [State.measure, hc] <;> omega
    | parked t' g =>
      rw [hr] at hs
      simp only [SizeOut] at hs
      simp only [settle, State.measure, hc, Bool.false_eq_true, ite_false]
      omega
    | crash g => simp [settle, State.measure]; omega
  unfold Thread.delivery
  cases hw : t.wait with
  | promise q f =>
    have : mech cfg st (.set q) = settle { st with g := st.g.markSet q } (resume cfg t none (st.g.markSet q)) := by
      simp [mech, hc, ht, hw]
    rw [this]; exact key none _ _ hc
  | job jid k jk =>
    have : mech cfg st (.call k) = settle st (resume cfg t (some k) st.g) := by simp [mech, hc, ht, hw]
    rw [this]; exact key (some k) _ _ hc

/-- keep delivering: the state after n deliveries -/
def deliverN (cfg : Cfg) : Nat → State → State
  | 0, st => st
  | n + 1, st =>
    if st.crashed then st else
    match st.ctl with
    | .pending t => deliverN cfg n (mech cfg st t.delivery)
    | _ => st

/-- **finitely many deliveries bring every suspended pipeline to rest** (at most `measure` many) -/
theorem comes_to_rest (cfg : Cfg) : ∀ (n : Nat) (st : State), st.measure ≤ n →
    (deliverN cfg n st).crashed = true ∨ ∀ t, (deliverN cfg n st).ctl ≠ .pending t
  | 0, st, h => by
    simp only [deliverN]
    by_cases hc : st.crashed = true
    · exact Or.inl hc
    · right
      intro t ht
      have hc' : st.crashed = false := by simpa using hc
      have : st.measure = mT t := by simp [State.measure, hc', ht]
      have hpos : 1 ≤ mT t := by have := mWait_pos t.wait; simp only [mT]; omega
      omega
  | n + 1, st, h => by
    simp only [deliverN]
    by_cases hc : st.crashed = true
    · rw [if_pos hc]; exact Or.inl hc
    · have hc' : st.crashed = false := by simpa using hc
      simp only [hc', Bool.false_eq_true, ite_false]
      cases hctl : st.ctl with
      | pending t =>
        simp only []
        have := delivery_decreases cfg st t hc' hctl
        exact comes_to_rest cfg n _ (by omega)
      | idle => right; intro t ht; simp only [] at ht; rw [hctl] at ht; cases ht
      | task src steps => right; intro t ht; simp only [] at ht; rw [hctl] at ht; cases ht
      | future r inh => right; intro t ht; simp only [] at ht; rw [hctl] at ht; cases ht
      | gone => right; intro t ht; simp only [] at ht; rw [hctl] at ht; cases ht

end Yaclib.Pipeline
