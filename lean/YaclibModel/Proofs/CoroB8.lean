/- preservation of InvB: the fulfiller of an awaited object runs one of my callbacks (the step) -/
import YaclibModel.Proofs.CoroB7
import YaclibModel.Proofs.CoroB1
namespace Yaclib.Coro

theorem mem_erase_ne {l : List Nat} (hnd : l.Nodup) {a b : Nat} (h : a ∈ l.erase b) : a ≠ b ∧ a ∈ l :=
  (List.Nodup.mem_erase_iff hnd).mp h

theorem mem_erase_of_ne' {l : List Nat} {a b : Nat} (h : a ∈ l) (hne : a ≠ b) : a ∈ l.erase b :=
  (List.mem_erase_of_ne hne).mpr h

macro "invB_fire_auto" : tactic =>
  `(tactic| (constructor <;> (try simp only [State.word, setWord_cells_word, setWord_todo', setWord_w', setWord_pc] at *) <;>
      grind [inOp, decided, regPos, freshPc, afterRegPc, List.length_set, cbDone_decided, cbDone_regPos, cbDone_fresh, cbDone_afterReg,
        cbDone_ne_susp, cbDone_ne_rdyL, cbDone_cell, inOp_cbDone, mem_erase_ne, mem_erase_of_ne', List.Nodup.erase,
        Word.cbs, Word.isResult]))

set_option maxHeartbeats 32000000 in
theorem invB_step_fire {w s l s'} (hwf : w.WF) (ha : InvA w s) (hb : InvB w s) (hc : InvC w s) (hs : Step s l s')
    (hl : match l with | .fire _ _ => True | _ => False) : InvB w s' := by
  cases hs with
  | fire op rest j p walk ht hw hp =>
      obtain ⟨hcell, hst, hin, hnd, haw, hsingle, hmulti⟩ := fire_pre hwf ha hb hc ht hw hp
      have hwfo := op_wf hwf ha ht
      have hlen := ha.st_len op rest ht hin
      have hinj : ∀ q, op.cells[q]? = some j → q = p := fun q hq => wf_inj hwfo hq hcell
      have hwnd : walk.Nodup := by have := hb.nodup j; rw [hw] at this; exact this
      have hw' : (s.cells j).word = .result walk := hw
      -- the callbacks that remain registered are other positions
      have hne : ∀ j' p', p' ∈ (s.word j').cbs → (j' = j → p' ∈ walk.erase p) → p' ≠ p := by
        intro j' p' hp' hj' hpp
        subst hpp
        by_cases hjj : j' = j
        · exact (mem_erase_ne hwnd (hj' hjj)).1 rfl
        · have := (hb.cbs_cell j' p' op rest hp' ht).1
          rw [hcell] at this; exact hjj (Option.some.inj this).symm
      -- is this callback the one that completes the awaiter?
      by_cases hlast : counted op.kind = false ∨ s.cnt = 1
      · -- yes: nothing is pending afterwards
        have hnp : ∀ (q : Nat), (s.st.set p CbSt.fired)[q]? ≠ some CbSt.pending := by
          cases hm : isMulti op.kind with
          | false =>
              obtain ⟨_, hn1, hp0, _⟩ := hsingle hm
              subst hp0
              intro q hq
              have hql := lt_of_getElem?_some hq
              rw [List.length_set] at hql
              have : q = 0 := by omega
              subst this
              simp [show 0 < s.st.length by omega] at hq
          | true =>
              have h1 : s.cnt = 1 := by
                rcases hlast with h | h
                · cases hk : op.kind <;> simp_all [counted, isMulti]
                · exact h
              have hcnt := (hmulti hm h1).2
              apply forall_ne_of_count_eq_zero
              have := count_set_of_getElem? (l := s.st) (p := p) (x := .pending) (a := .fired) (b := .pending) hst
              simp at this; omega
        have hsusp : s.pc = .susp := by
          cases hm : isMulti op.kind with
          | false => exact (hsingle hm).1
          | true =>
              have h1 : s.cnt = 1 := by
                rcases hlast with h | h
                · cases hk : op.kind <;> simp_all [counted, isMulti]
                · exact h
              exact (hmulti hm h1).1
        have hnt : ∀ (q : Nat), (s.st.set p CbSt.fired)[q]? ≠ some CbSt.todo := by
          intro q hq
          have := hb.no_todo (by rw [hsusp]; rfl) q
          rw [List.getElem?_set] at hq
          split at hq
          · split at hq <;> simp at hq
          · exact this hq
        -- no callback of mine remains anywhere
        have hno : ∀ j' p', p' ∈ (if j' = j then Word.result (walk.erase p) else (s.cells j').word).cbs → False := by
          intro j' p' hp'
          have hold : p' ∈ (s.word j').cbs := by
            by_cases hjj : j' = j
            · subst hjj; simp only [↓reduceIte, Word.cbs] at hp'
              rw [hw]; exact (mem_erase_ne hwnd hp').2
            · simp only [hjj, ↓reduceIte] at hp'; exact hp'
          have hpne : p' ≠ p := hne j' p' hold (by intro hjj; subst hjj; simpa [Word.cbs] using hp')
          have := (hb.cbs_cell j' p' op rest hold ht).2
          apply hnp p'
          rw [List.getElem?_set_ne (Ne.symm hpne)]; exact this
        have hall : ∀ j', j' ∈ op.cells →
            (if j' = j then Word.result (walk.erase p) else (s.cells j').word).isResult = true := by
          apply all_result_of_settled (st := s.st.set p .fired) (by rw [List.length_set]; exact hlen) hnt hnp
          intro q j' hq hs
          by_cases hjj : j' = j
          · simp [hjj, Word.isResult]
          · simp only [hjj, ↓reduceIte]
            have hqp : q ≠ p := by
              intro h; subst h; rw [hcell] at hq; exact hjj (Option.some.inj hq).symm
            rw [List.getElem?_set_ne (Ne.symm hqp)] at hs
            exact hb.settled_res op rest q j' ht hin hq hs
        have hpc : (doFire s op j p walk).pc = cbDone op.kind j s.exec := by
          simp only [doFire]
          rcases hlast with h0 | h1
          · simp [h0]
          · by_cases hcn : counted op.kind = true
            · simp [hcn, h1]
            · simp [hcn]
        have hjc : j ∈ op.cells := List.mem_iff_getElem?.mpr ⟨p, hcell⟩
        have hcells : (doFire s op j p walk).cells = (s.setWord j (.result (walk.erase p))).cells := by
          simp only [doFire]; split <;> (try split) <;> rfl
        have hstn : (doFire s op j p walk).st = s.st.set p .fired := by
          simp only [doFire]; split <;> (try split) <;> rfl
        have htodo : (doFire s op j p walk).todo = s.todo := by
          simp only [doFire]; split <;> (try split) <;> rfl
        have hwordn : ∀ j', (doFire s op j p walk).word j' =
            if j' = j then Word.result (walk.erase p) else (s.cells j').word := by
          intro j'; simp only [State.word, hcells, setWord_cells_word]
        apply invB_of_decided
        · intro j' l' hl'
          rw [hwordn] at hl'
          by_cases hjj : j' = j
          · simp [hjj] at hl'
          · simp only [hjj, ↓reduceIte] at hl'; exact hb.foreign_unsafe j' l' hl'
        · intro j' p' hp'; rw [hwordn] at hp'; exact hno j' p' hp'
        · rw [hpc]; exact cbDone_decided _ _ _
        · rw [hstn]; exact hnp
        · intro op' rest' j' ht' hj'
          rw [htodo, ht] at ht'; cases ht'
          rw [hwordn]; exact hall j' hj'
        · intro j' hj' op' rest' ht'
          rw [htodo, ht] at ht'; cases ht'
          rw [hpc] at hj'
          rw [cbDone_cell _ _ _ _ hj']; exact hjc
      · -- no: a multi awaiter whose counter is still above 1; the program position does not change
        have hcn : counted op.kind = true := by
          cases h : counted op.kind with
          | true => rfl
          | false => exact absurd (Or.inl h) hlast
        have hc1 : s.cnt ≠ 1 := fun h => hlast (Or.inr h)
        have hm : isMulti op.kind = true := by
          cases hm : isMulti op.kind with
          | true => rfl
          | false => exact absurd ((hsingle hm).2.2.2 hcn) hc1
        have hnotfresh : freshPc s.pc = false := by
          cases hf : freshPc s.pc with
          | false => rfl
          | true => have := hb.fresh hf p _ hst; cases this
        have hregp : ∀ p0, regPos s.pc = some p0 → ¬ p0 ≤ p := by
          intro p0 h0 hle
          have := (hb.reg_phase p0 p .pending h0 hst).mpr hle
          cases this
        have hold_j : ∀ p', p' ∈ walk → op.cells[p']? = some j ∧ s.st[p']? = some CbSt.pending := by
          intro p' hp'
          exact hb.cbs_cell j p' op rest (by rw [hw]; exact hp') ht
        have hres_j : (Word.result (walk.erase p)).isResult = true := rfl
        have hcbs_j : (Word.result (walk.erase p)).cbs = walk.erase p := rfl
        simp only [doFire, hcn, hc1, ↓reduceIte]
        clear hl hsingle hmulti hc hlast hwfo hne hc1 hcn
        cases hb
        invB_fire_auto
  | _ => simp at hl

end Yaclib.Coro
