import YaclibModel.Proofs.UniqueCons0
import YaclibModel.Proofs.UniqueCons1
import YaclibModel.Proofs.UniqueCons2
import YaclibModel.Proofs.UniqueCons3
import YaclibModel.Proofs.UniqueCons4
namespace Yaclib.Unique

theorem inv2_step {w s l s'} (hi : Inv w s) (h2 : Inv2 w s) (hs : Step s l s') : Inv2 w s' := by
  have h5 : grpOf l = 0 ∨ grpOf l = 1 ∨ grpOf l = 2 ∨ grpOf l = 3 ∨ grpOf l = 4 := by
    cases l with
    | invoke t r => cases t <;> simp [grpOf]
    | submit t => cases t <;> simp [grpOf]
    | forward t r => cases t <;> simp [grpOf]
    | lock t => cases t <;> simp [grpOf]
    | unlock t => cases t <;> simp [grpOf]
    | cCas k ok => cases ok <;> simp [grpOf]
    | _ => simp [grpOf]
  rcases h5 with h | h | h | h | h
  · exact inv2_step_0 hi h2 hs h
  · exact inv2_step_1 hi h2 hs h
  · exact inv2_step_2 hi h2 hs h
  · exact inv2_step_3 hi h2 hs h
  · exact inv2_step_4 hi h2 hs h

theorem inv2_reachable {w s} (h : Reachable w s) : Inv2 w s := by
  induction h with
  | init => exact inv2_init w
  | step hr hs ih => exact inv2_step (inv_reachable hr) ih hs

end Yaclib.Unique
