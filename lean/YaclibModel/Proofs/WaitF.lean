/- C11 invariant: preservation by the return of a wait call and by the consuming operations -/
import YaclibModel.Proofs.WaitR1

namespace Yaclib.Wait
variable {w : Workload} {s : State}


set_option maxHeartbeats 1000000 in
theorem inv_wUnlockRet (hi : Inv w s) (b : Bool) (hp : s.wpc = .unlockRet b) : Inv w (doUnlockRet s b) := by
  have hal : s.alive = true := hi.alive_iff.mpr (by simp [hp, WPc.inCall])
  have hclean := hi.clean b hp
  have hev : ∀ j, (s.fut j).word ≠ .ev := fun j hw => (hclean j).1 (hi.g_ev hal j hw)
  have htk : ∀ j, (s.fut j).ppc ≠ .took := fun j hw => (hclean j).2.1 (hi.g_took hal j hw)
  unfold doUnlockRet toRet
  by_cases hg : s.inGet = true
  · have hig := hi.inget hg (Or.inl hal)
    have hfin := hi.inget_fin hg hal
    have hb : b = true := by
      cases b with
      | true => rfl
      | false => have := hi.ret_false (Or.inl hp); rw [hig.2.2.2] at this; cases this.1
    subst hb
    have hall := hi.ret_true (Or.inl hp)
    simp only [hg, ↓reduceIte]
    inv_fields_pc hi hp
  · simp only [hg, Bool.false_eq_true, ↓reduceIte]
    cases b
    · have hrf := hi.ret_false (Or.inl hp)
      inv_fields_pc hi hp
    · have hall := hi.ret_true (Or.inl hp)
      inv_fields_pc hi hp

set_option maxHeartbeats 1000000 in
theorem inv_wRet (hi : Inv w s) (b : Bool) (hp : s.wpc = .retn b) : Inv w (doRet s) := by
  have hct : s.calls.tail ≠ [] → s.calls ≠ [] := by
    intro h hc; rw [hc] at h; simp at h
  have hsub : ∀ c, c ∈ s.calls.tail → c ∈ s.calls := fun c h => List.mem_of_mem_tail h
  unfold doRet
  inv_fields_pc hi hp



theorem not_alive_idle (hi : Inv w s) {c : WPc} (hp : s.wpc = c) (hc : c.inCall = false) : s.alive = false := by
  cases ha : s.alive with
  | false => rfl
  | true => have := hi.alive_iff.mp ha; rw [hp, hc] at this; cases this

set_option maxHeartbeats 1000000 in
theorem inv_wFin (hi : Inv w s) (hp : s.wpc = .idle) (hc : s.calls = []) (hlt : s.fi < s.w.n) :
    Inv w (doFin s s.fi (s.w.fin s.fi)) := by
  have hal := not_alive_idle hi hp rfl
  have htodo := hi.todo s.fi (Nat.le_refl _)
  unfold doFin
  cases hk : s.w.fin s.fi with
  | none =>
      simp only
      inv_fields_pc_at hi hp s.fi
  | attach =>
      simp only
      inv_fields_pc hi hp
  | get =>
      simp only
      exact inv_begin hi s.fi (s.fi + 1) false true hp (by omega) (Nat.le_refl _) (by simp [hc])
        (fun _ => ⟨hc, rfl, rfl, rfl, hk, hlt⟩) (fun _ => by omega)

/-- a consuming attach that finds the word not empty finds the result -/
theorem att_full_ready (hi : Inv w s) (i : Nat) (hp : s.wpc = .att i ∨ s.wpc = .attCas i)
    (hne : (s.fut i).word ≠ .empty) : (s.fut i).word = .result := by
  have hal : s.alive = false := by
    rcases hp with hp | hp <;> exact not_alive_idle hi hp rfl
  have ha := hi.att_inv i (by rcases hp with hp | hp <;> simp [hp])
  have hd := hi.dead hal i
  have ht := hi.todo i (by omega)
  cases hw : (s.fut i).word with
  | result => rfl
  | empty => exact absurd hw hne
  | ev => exact absurd hw hd.1
  | cont => exact absurd hw ht.2.1

set_option maxHeartbeats 1000000 in
theorem inv_toAttCas (hi : Inv w s) (i : Nat) (hp : s.wpc = .att i) : Inv w { s with wpc := .attCas i } := by
  inv_fields_pc hi hp

set_option maxHeartbeats 1000000 in
theorem inv_toAttFail (hi : Inv w s) (i : Nat) (hp : s.wpc = .att i ∨ s.wpc = .attCas i)
    (hne : (s.fut i).word ≠ .empty) : Inv w { s with wpc := .attFail i } := by
  have hr := att_full_ready hi i hp hne
  rcases hp with hp | hp <;> inv_fields_pc hi hp

set_option maxHeartbeats 1000000 in
theorem inv_wAttCasOk (hi : Inv w s) (i : Nat) (hp : s.wpc = .attCas i) (hw : (s.fut i).word = .empty) :
    Inv w (doAttCasOk s i) := by
  have hal := not_alive_idle hi hp rfl
  have ha := hi.att_inv i (by simp [hp])
  have hc : ∀ a m, cntG (upd s.fut i { s.fut i with word := .cont, prev := .cont }) a m = cntG s.fut a m :=
    fun a m => cntG_upd_g rfl
  constructor <;> (try simp only [doAttCasOk, Ninn, Ntaken, Ndecd, Nback, hc, WPc.inCall, WPc.holds, WPc.postReg, WPc.early,
    WPc.preTimeout, WPc.timedOnly, WPc.resetting])
  inv_solve_pc_at hi hp i

set_option maxHeartbeats 1000000 in
/-- the waiter delivers future `i`'s result itself (continuation run inline / `Get` returned) -/
theorem inv_wDeliver (hi : Inv w s) (i : Nat) (hp : s.wpc = .attFail i ∨ s.wpc = .gotRep i) (hw : (s.fut i).word = .result) :
    Inv w (doDeliverW s i) := by
  have hal : s.alive = false := by
    rcases hp with hp | hp <;> exact not_alive_idle hi hp rfl
  have hfi : i = s.fi := by
    rcases hp with hp | hp
    · exact (hi.att_inv i (by simp [hp])).1
    · exact (hi.got_inv i hp).1
  have hfn : s.w.fin i ≠ .none := by
    rcases hp with hp | hp
    · rw [(hi.att_inv i (by simp [hp])).2.2]; simp
    · rw [(hi.got_inv i hp).2.2.2.1]; simp
  have hc : ∀ a m, cntG (upd s.fut i { s.fut i with ndel := (s.fut i).ndel + 1 }) a m = cntG s.fut a m :=
    fun a m => cntG_upd_g rfl
  rcases hp with hp | hp
  · constructor <;> (try simp only [doDeliverW, Ninn, Ntaken, Ndecd, Nback, hc, WPc.inCall, WPc.holds, WPc.postReg, WPc.early,
      WPc.preTimeout, WPc.timedOnly, WPc.resetting])
    inv_solve_pc_at hi hp i
  · constructor <;> (try simp only [doDeliverW, Ninn, Ntaken, Ndecd, Nback, hc, WPc.inCall, WPc.holds, WPc.postReg, WPc.early,
      WPc.preTimeout, WPc.timedOnly, WPc.resetting])
    inv_solve_pc_at hi hp i


end Yaclib.Wait
