import YaclibModel.Proofs.CoSharedMutex
namespace Yaclib.CoSharedMutex

set_option maxHeartbeats 4000000 in
theorem inv_spinLoad_2 {cfg : Cfg} {s : State} (hi : Inv cfg s) (c : Cid) (k : SpinK) (sawFree : Bool) (h : s.pc c = .spinning k true) (hk : k = .rd) (hf : sawFree = true) :
    Inv cfg ({ s with pc := upd s.pc c (.spinning k (!sawFree)) }) := by
  subst hk
  subst hf
  cases hi
  simp only [Bool.not_true, Bool.not_false]
  sm_auto [List.count_le_length]

end Yaclib.CoSharedMutex
