/- C16: preservation of the job invariant (part 3) — the owner's side of a wait operation -/
import YaclibModel.Proofs.EventJobAuto

namespace Yaclib.Event
variable {s s' : State} {l : Label} {w : Workload}

attribute [local grind =] Pc.setter Pc.releasing Pc.owner Pc.bphase JSt.inList List.nodup_cons
attribute [local grind →] Pc.bphase_owner

theorem InvJ.owner_uniq (hi : InvJ s) {t j : Nat} (h : (s.thr t).pc.owner = some j) :
    ∀ t', (s.thr t').pc.owner = some j → t' = t := by
  intro t' h'
  have h1 := (hi.j_own t' j h').2.1
  have h2 := (hi.j_own t j h).2.1
  rw [h2] at h1; exact h1.symm

set_option maxHeartbeats 4000000 in
theorem invJ_tStart (hi : InvJ s) (t : Nat) (k : WKind) (chk : Bool) (x : Exp)
    (h : (s.thr t).pc = .idle) : InvJ (doStartLoad s t k chk x) := by
  have hout := hi.j_out s.njobs (Nat.le_refl _)
  have hout2 := hi.j_out
  simp only [doStartLoad, tryWith, notAdded, newJob, goto, finish, setT, updJ_same]
  repeat' split
  all_goals (constructor; j_solve hi t s.njobs)

set_option maxHeartbeats 4000000 in
theorem invJ_tryWith (hi : InvJ s) (t j : Nat) (x : Exp)
    (h : (s.thr t).pc = .tryL j ∨ ∃ y, (s.thr t).pc = .tryC j y) : InvJ (tryWith s t j x) := by
  have ho : (s.thr t).pc.owner = some j := by rcases h with h | ⟨y, h⟩ <;> simp [h, Pc.owner]
  have hown := hi.j_own t j ho
  have huniq := hi.owner_uniq ho
  have hnew : (s.job j).st = .fresh ∧ (s.job j).freed = false ∧ (s.job j).ready = false ∧ (s.job j).holder = none ∧
      ((s.job j).kind = .timed → (s.job j).oref = true) := by
    rcases h with h | ⟨y, h⟩
    · exact hi.j_tryL t j h
    · exact hi.j_tryC t j y h
  simp only [tryWith, notAdded, goto, finish, setT]
  repeat' split
  all_goals (constructor; j_solve hi t j)

set_option maxHeartbeats 4000000 in
theorem invJ_tCasOk (hi : InvJ s) (t j : Nat) (l : List Nat)
    (h : (s.thr t).pc = .tryC j (.cur l)) (hh : s.head = some l) : InvJ (doPushed s t j l) := by
  have hown := hi.j_own t j (by simp [h, Pc.owner])
  have huniq := hi.owner_uniq (t := t) (j := j) (by simp [h, Pc.owner])
  have hnew := hi.j_tryC t j _ h
  have hl := hi.l_head l hh
  have hnot : j ∉ l := by
    intro hm; have := hl.2 j hm; rw [hnew.1] at this; cases this
  simp only [doPushed, goto, finish, setT, updJ_same]
  repeat' split
  all_goals (constructor; j_solve hi t j)

set_option maxHeartbeats 4000000 in
theorem invJ_tResume (hi : InvJ s) (t j : Nat) (h : (s.thr t).pc = .resume j) : InvJ (doResume s t j) := by
  have hown := hi.j_own t j (by simp [h, Pc.owner])
  have huniq := hi.owner_uniq (t := t) (j := j) (by simp [h, Pc.owner])
  have hr := hi.j_res t j h
  simp only [doResume, finish, setT]
  constructor
  j_solve hi t j

set_option maxHeartbeats 4000000 in
theorem invJ_tBLock (hi : InvJ s) (t j : Nat) (to : Bool)
    (h : (s.thr t).pc = .bLock j ∨ (s.thr t).pc = .bAsleep j ∨ (s.thr t).pc = .bTimedOut j)
    (hto : to = true → (s.job j).kind = .timed) (hm : (s.job j).holder = none) : InvJ (doBLock s t j to) := by
  have ho : (s.thr t).pc.owner = some j := by rcases h with h | h | h <;> simp [h, Pc.owner]
  have hb0 : (s.thr t).pc.bphase = some j := by rcases h with h | h | h <;> simp [h, Pc.bphase]
  have hown := hi.j_own t j ho
  have huniq := hi.owner_uniq ho
  have hb := hi.j_b t j hb0
  simp only [doBLock, touch, goto, setT]
  repeat' split
  all_goals (constructor; j_solve hi t j)

set_option maxHeartbeats 4000000 in
theorem invJ_tBSleep (hi : InvJ s) (t j : Nat) (h : (s.thr t).pc = .bHeld j) : InvJ (doBSleep s t j) := by
  have hown := hi.j_own t j (by simp [h, Pc.owner])
  have huniq := hi.owner_uniq (t := t) (j := j) (by simp [h, Pc.owner])
  have hb := hi.j_b t j (by simp [h, Pc.bphase])
  have hh := hi.m_held t j h
  simp only [doBSleep, touch, goto, setT]
  constructor
  j_solve hi t j

set_option maxHeartbeats 4000000 in
theorem invJ_tBTimeout (hi : InvJ s) (t j : Nat) (h : (s.thr t).pc = .bAsleep j) (hk : (s.job j).kind = .timed) :
    InvJ (goto s t (.bTimedOut j)) := by
  have hown := hi.j_own t j (by simp [h, Pc.owner])
  have hb := hi.j_b t j (by simp [h, Pc.bphase])
  simp only [goto, setT]
  constructor
  j_solve hi t j

set_option maxHeartbeats 4000000 in
theorem invJ_tBUnlockRet (hi : InvJ s) (t j : Nat) (b : Bool)
    (h : (s.thr t).pc = .bUnlockRet j b) : InvJ (doBUnlockRet s t j b) := by
  have hown := hi.j_own t j (by simp [h, Pc.owner])
  have huniq := hi.owner_uniq (t := t) (j := j) (by simp [h, Pc.owner])
  have hb := hi.j_b t j (by simp [h, Pc.bphase])
  have hh := hi.m_uret t j b h
  have hr := hi.j_ret t j b h
  have hy := hi.y_run j
  have hys := hi.y_st j
  cases hk : (s.job j).kind with
  | coro => exact absurd hk hb.1
  | timed =>
      simp only [doBUnlockRet, hk, touch, goto, setT]
      constructor; j_solve hi t j
  | blocking =>
      have hnr : (s.job j).st ≠ .running := by
        intro hst
        obtain ⟨rest, hp⟩ := (hy (hr hk) hst hk).2 t hh
        rw [h] at hp; cases hp
      simp only [doBUnlockRet, hk, touch, goto, setT]
      constructor; j_solve hi t j

set_option maxHeartbeats 4000000 in
theorem invJ_tBDec (hi : InvJ s) (t j : Nat) (b : Bool)
    (h : (s.thr t).pc = .bDec j b) : InvJ (doBDec s t j b) := by
  have hown := hi.j_own t j (by simp [h, Pc.owner])
  have huniq := hi.owner_uniq (t := t) (j := j) (by simp [h, Pc.owner])
  have hd := hi.j_dec t j b h
  have hf := hi.f_timed j hd.1 hd.2.2.1
  simp only [doBDec, decJob, touch, goto, setT]
  repeat' split
  all_goals (constructor; j_solve hi t j)

set_option maxHeartbeats 4000000 in
theorem invJ_tRep (hi : InvJ s) (t j : Nat) (b : Bool) (h : (s.thr t).pc = .rep j b) : InvJ (doRep s t j b) := by
  have hown := hi.j_own t j (by simp [h, Pc.owner])
  have huniq := hi.owner_uniq (t := t) (j := j) (by simp [h, Pc.owner])
  have hr := hi.j_rep t j b h
  simp only [doRep, finish, setT]
  cases b <;> (constructor; j_solve hi t j)

end Yaclib.Event
