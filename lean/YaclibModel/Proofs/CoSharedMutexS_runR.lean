import YaclibModel.Proofs.CoSharedMutexS_runR_1
import YaclibModel.Proofs.CoSharedMutexS_runR_2
namespace Yaclib.CoSharedMutex

theorem inv_runR {cfg : Cfg} {s : State} (hi : Inv cfg s) (c : Cid) (n : Cid) (rest : List Cid) (h : s.pc c = .uRunR) (ht : s.torun = n :: rest) :
    Inv cfg ((doRunR s c n rest)) := by
  by_cases hr : rest = []
  · exact inv_runR_1 hi c n rest h ht hr
  · exact inv_runR_2 hi c n rest h ht hr

end Yaclib.CoSharedMutex
