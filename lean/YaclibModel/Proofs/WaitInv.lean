/- C11: the invariant holds in every reachable state -/
import YaclibModel.Proofs.WaitP1
import YaclibModel.Proofs.WaitP2
import YaclibModel.Proofs.WaitR1
import YaclibModel.Proofs.WaitS
import YaclibModel.Proofs.WaitT
import YaclibModel.Proofs.WaitF

namespace Yaclib.Wait
variable {w : Workload} {s s' : State} {l : Label}

theorem loadOk_ne_empty {f : Fut} {x : Word} (hx : loadOk f x) (hne : x ≠ .empty) : f.word ≠ .empty := by
  rcases hx with h | h
  · rw [← h]; exact hne
  · rw [h.1]; simp

theorem loadOk_result {f : Fut} {x : Word} (hx : loadOk f x) (hr : x = .result) : f.word = .result := by
  rcases hx with h | h
  · rw [← h]; exact hr
  · exact h.1

theorem inv_step (hi : Inv w s) (hs : Step s l s') : Inv w s' := by
  cases hs with
  | wCall c rest h hc =>
      have hne : s.calls ≠ [] := by simp [hc]
      exact inv_begin hi c.lo c.hi c.timed false h (by simp [Call.hi]) (by rw [hi.calls_fi hne]; omega) (fun _ => rfl)
        (fun h => by cases h)
        (fun hwf => by rw [hi.hw]; exact hwf c (hi.calls_sub c (by simp [hc])))
  | wRegLoad i x h hx =>
      unfold doRegLoad
      by_cases hxe : x = .empty
      · simp only [hxe, ↓reduceIte]; exact inv_toRegCas hi i (Or.inl h)
      · simp only [hxe, ↓reduceIte]; exact inv_regNext hi i (Or.inl h) (loadOk_ne_empty hx hxe)
  | wRegCasOk i h hw => exact inv_wRegCasOk hi i h hw
  | wRegCasFail i h hw => exact inv_regNext hi i (Or.inr h) hw
  | wRegSpur i x h _ hx =>
      unfold doRegLoad
      by_cases hxe : x = .empty
      · simp only [hxe, ↓reduceIte]; exact inv_toRegCas hi i (Or.inr h)
      · simp only [hxe, ↓reduceIte]; exact inv_regNext hi i (Or.inr h) (loadOk_ne_empty hx hxe)
  | wSub1 h => exact inv_wSub1 hi h
  | wLock1 h hm => exact inv_wLock1 hi h hm
  | wSleep f h => exact inv_wSleep hi f h
  | wWake f h hm => exact inv_wWake hi f h hm
  | wTimeout h ht => exact inv_wTimeout hi h ht
  | wLockT h hm => exact inv_wLockT hi h hm
  | wRstLoad i x h hx =>
      have hal : s.alive = true := hi.alive_iff.mpr (by simp [h, WPc.inCall])
      unfold doRstLoad
      by_cases hxr : x = .result
      · simp only [hxr, ↓reduceIte]
        refine inv_rstNext hi i (Or.inl h) ?_
        intro hg
        have h1 := hi.g_inn hal i hg
        have h2 := loadOk_result hx hxr
        rw [h1] at h2; cases h2
      · simp only [hxr, ↓reduceIte]; exact inv_toRstCas hi i x h hx hxr
  | wRstCasOk i x h hw => exact inv_wRstCasOk hi i x h hw
  | wRstCasFail i x h hw =>
      have hal : s.alive = true := hi.alive_iff.mpr (by simp [h, WPc.inCall])
      refine inv_rstNext hi i (Or.inr ⟨x, h⟩) ?_
      intro hg
      have h1 := hi.g_inn hal i hg
      have h2 := hi.rstcas_ev i x h hg
      exact hw (by rw [h1, h2])
  | wSub2 h => exact inv_wSub2 hi h
  | wUnlockRet b h => exact inv_wUnlockRet hi b h
  | wRet b h => exact inv_wRet hi b h
  | wFin h hc hlt => exact inv_wFin hi h hc hlt
  | wAttLoad i x h hx =>
      unfold doAttLoad
      by_cases hxe : x = .empty
      · simp only [hxe, ↓reduceIte]; exact inv_toAttCas hi i h
      · simp only [hxe, ↓reduceIte]; exact inv_toAttFail hi i (Or.inl h) (loadOk_ne_empty hx hxe)
  | wAttCasOk i h hw => exact inv_wAttCasOk hi i h hw
  | wAttCasFail i h hw => exact inv_toAttFail hi i (Or.inr h) hw
  | wInvoke i h hw => exact inv_wDeliver hi i (Or.inl h) hw
  | wGot i h hw => exact inv_wDeliver hi i (Or.inr h) hw
  | pXchg i _ h hw => exact inv_pXchg hi i h hw
  | pSub i h => exact inv_pSub hi i h
  | pLock i h hm => exact inv_pLock hi i h hm
  | pUnlock i h => exact inv_pUnlock hi i h
  | pInvoke i h => exact inv_pInvoke hi i h

theorem inv_reachable (h : Reachable w s) : Inv w s := by
  induction h with
  | init => exact inv_init w
  | step _ hs ih => exact inv_step ih hs

end Yaclib.Wait
