import YaclibModel.Proofs.FiberSyncSharedFixed
namespace Yaclib.FiberSync.Sm
open Yaclib.FiberSync

set_option maxHeartbeats 4000000 in
theorem invF_step_3 {k s l s'} (hi : InvF k s) (hs : Step s l s') (hg : grpF l = 3) : InvF k s' := by
  cases hs with
  | unlockS f w h hh hw => cases hi; cases w <;> smf_auto
  | _ => simp [grpF] at hg

end Yaclib.FiberSync.Sm
