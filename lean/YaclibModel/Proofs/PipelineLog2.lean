/- The log invariant through callStep / runSteps / resumption / every client event. -/
import YaclibModel.Proofs.PipelineLog

namespace Yaclib.Pipeline
open Yaclib.Extracted

theorem logOk_acct {cfg : Cfg} {g g' : G} {pend : List Nat} (h : LogOk cfg g pend)
    (h1 : g'.jobs = g.jobs) (h2 : g'.subs = g.subs) (h3 : g'.ran = g.ran) : LogOk cfg g' pend := by
  refine ⟨⟨?_, ?_⟩, ?_⟩
  · rw [h1, h2]; exact h.1.1
  · rw [h1, h2]; exact h.1.2
  · intro x hx; rw [h3] at hx; exact h.2 x hx

theorem logOk_invoke {cfg : Cfg} {g : G} {pend : List Nat} (h : LogOk cfg g pend) (id : Nat) (ctx : Option Nat)
    (via : Option Exec) (hv : ViaCtx via ctx) : LogOk cfg (g.invoke id ctx via) pend := by
  refine ⟨⟨h.1.1, h.1.2⟩, ?_⟩
  intro x hx
  simp only [invoke_ran, List.mem_append, List.mem_cons, List.not_mem_nil, or_false] at hx
  cases hx with
  | inl hx => exact h.2 x hx
  | inr hx => subst hx; exact hv

theorem startSrc_log (cfg : Cfg) (src : Src) (ctx : Option Nat) (g : G) (h : LogOk cfg g []) :
    match startSrc cfg src ctx g with
    | .go _ _ _ g' => LogOk cfg g' []
    | .wait w inh g' => ∀ rest outer, LogOk cfg g' (pendOf w) ∧ PendOk cfg g' ⟨w, inh, rest, outer⟩
    | .crash _ => True := by
  cases src with
  | promiseFn e p f =>
    have hs := submit_log cfg e ctx g h
    simp only [startSrc]
    cases hsb : submit cfg e ctx g with
    | callNow c g' =>
      rw [hsb] at hs
      exact fun _ _ => ⟨logOk_acct hs.1 rfl rfl rfl, trivial⟩
    | dropNow c g' =>
      rw [hsb] at hs
      exact logOk_acct hs.1 rfl rfl rfl
    | queued jid k g' =>
      rw [hsb] at hs
      exact fun _ _ => ⟨hs.1, hs.2.2.1, hs.2.2.2, trivial⟩
  | ready r => exact h
  | contract p f => exact fun _ _ => ⟨h, trivial⟩
  | contractOn e p f => exact fun _ _ => ⟨h, trivial⟩
  | unit => exact h
  | sharedReady r => exact h
  | sharedContract p f => exact fun _ _ => ⟨h, trivial⟩
  | sharedKept e p f pre =>
    simp only [startSrc]
    cases hs : g.isSet p pre
    · exact fun _ _ => ⟨h, trivial⟩
    · exact h

theorem startLazy_log (cfg : Cfg) (src : Src) (ovr : Option Exec) (ctx : Option Nat) (g : G) (h : LogOk cfg g []) :
    match startLazy cfg src ovr ctx g with
    | .go _ _ _ g' => LogOk cfg g' []
    | .wait w inh g' => ∀ rest outer, LogOk cfg g' (pendOf w) ∧ PendOk cfg g' ⟨w, inh, rest, outer⟩
    | .crash _ => True := by
  cases src with
  | ready r =>
    have hs := submit_log cfg (ovr.getD .inl) ctx g h
    simp only [startLazy]
    cases hsb : submit cfg (ovr.getD .inl) ctx g with
    | callNow c g' => rw [hsb] at hs; exact hs.1
    | dropNow c g' => rw [hsb] at hs; exact hs.1
    | queued jid k g' => rw [hsb] at hs; exact fun _ _ => ⟨hs.1, hs.2.2.1, hs.2.2.2, trivial⟩
  | promiseFn e p f => simpa [startLazy] using startSrc_log cfg (.promiseFn (ovr.getD e) p f) ctx g h
  | contract p f => simpa [startLazy] using startSrc_log cfg (.contract p f) ctx g h
  | contractOn e p f => simpa [startLazy] using startSrc_log cfg (.contractOn e p f) ctx g h
  | unit => simpa [startLazy] using startSrc_log cfg .unit ctx g h
  | sharedReady r => simpa [startLazy] using startSrc_log cfg (.sharedReady r) ctx g h
  | sharedContract p f => simpa [startLazy] using startSrc_log cfg (.sharedContract p f) ctx g h
  | sharedKept e p f pre => simpa [startLazy] using startSrc_log cfg (.sharedKept e p f pre) ctx g h

theorem asyncFinish_log (cfg : Cfg) (ty : Nat) (own : Exec) (k : List Step) (lazy : Bool) (ctx : Option Nat) (o : Out)
    (h : LogOut cfg o) : LogOut cfg (asyncFinish ty own k lazy ctx o) := by
  cases o with
  | done r inh c g =>
    simp only [LogOut] at h
    cases lazy <;> exact logOk_acct h (by simp [asyncFinish]) (by simp [asyncFinish]) (by simp [asyncFinish])
  | parked t g =>
    simp only [LogOut] at h
    cases lazy
    · exact ⟨logOk_acct h.1 (by simp) (by simp) (by simp), by
        have := h.2; simp only [PendOk] at this ⊢; cases hw : t.wait <;> simp_all⟩
    · exact ⟨h.1, by have := h.2; simp only [PendOk] at this ⊢; cases hw : t.wait <;> simp_all⟩
  | crash g => trivial

mutual
  theorem callStep_log (cfg : Cfg) :
      ∀ (s : Step) (k : List Step) (hd dropped : Bool) (ctx : Option Nat) (via : Option Exec) (input0 : R) (own : Exec)
        (g : G), LogOk cfg g [] → ViaCtx via ctx →
      LogOut cfg (callStep cfg s k hd dropped ctx via input0 own g)
    | .mk id sig mode beh, k, hd, dropped, ctx, via, input0, own, g, hl, hv => by
      rw [callStep.eq_def]
      simp only []
      cases hact : route sig (passesUnit (stepType mode hd) dropped sig) (Dispatch.isRun (stepType mode hd))
          (seenInput (stepType mode hd) dropped input0) with
      | call =>
        simp only []
        have hl1 := logOk_invoke hl id ctx via hv
        cases beh with
        | val n => exact logOk_acct hl1 (by simp) (by simp) (by simp)
        | res r => exact logOk_acct hl1 (by simp) (by simp) (by simp)
        | throw t => exact logOk_acct hl1 (by simp) (by simp) (by simp)
        | async src lazy steps =>
          simp only []
          have hl2 : LogOk cfg ((G.allocCore (g.invoke id ctx via) (srcCores src + steps.length)).allocFunctor
              (srcFunctors src + steps.length)) [] := logOk_acct hl1 rfl rfl rfl
          cases lazy with
          | false =>
            simp only [Bool.false_eq_true, ite_false]
            have hsrc := startSrc_log cfg src ctx _ hl2
            cases hst : startSrc cfg src ctx
              ((G.allocCore (g.invoke id ctx via) (srcCores src + steps.length)).allocFunctor (srcFunctors src + steps.length)) with
            | go r0 inh0 c0 g3 =>
              rw [hst] at hsrc
              simp only []
              exact asyncFinish_log cfg _ own k false ctx _ (runSteps_log cfg steps _ false ctx r0 inh0 g3 hsrc)
            | wait w inh0 g3 =>
              rw [hst] at hsrc
              have := hsrc steps [⟨stepType mode hd, own, k⟩]
              exact ⟨logOk_acct this.1 (by simp) (by simp) (by simp), by
                have h2 := this.2; simp only [PendOk] at h2 ⊢; cases hw : w <;> simp_all⟩
            | crash g3 => trivial
          | true =>
            simp only [↓reduceIte]
            rw [enterHere_eq]
            have hl3 : LogOk cfg (asyncRetAcct (stepType mode hd)
                ((G.allocCore (g.invoke id ctx via) (srcCores src + steps.length)).allocFunctor
                  (srcFunctors src + steps.length))) [] := logOk_acct hl2 (by simp) (by simp) (by simp)
            have hsrc := startSrc_log cfg src ctx _ hl3
            cases hst : startSrc cfg src ctx (asyncRetAcct (stepType mode hd)
              ((G.allocCore (g.invoke id ctx via) (srcCores src + steps.length)).allocFunctor (srcFunctors src + steps.length))) with
            | go r0 inh0 c0 g3 =>
              rw [hst] at hsrc
              simp only []
              exact asyncFinish_log cfg _ own k true ctx _ (runSteps_log cfg steps _ true c0 r0 inh0 g3 hsrc)
            | wait w inh0 g3 =>
              rw [hst] at hsrc
              exact hsrc steps [⟨stepType mode hd, own, k⟩]
            | crash g3 => trivial
      | doneException => exact logOk_acct hl (by simp) (by simp) (by simp)
      | doneError => exact logOk_acct hl (by simp) (by simp) (by simp)
      | doneResult => exact logOk_acct hl (by simp) (by simp) (by simp)

  theorem runSteps_log (cfg : Cfg) :
      ∀ (ss : List Step) (hd flow : Bool) (ctx : Option Nat) (r : R) (inh : Exec) (g : G), LogOk cfg g [] →
      LogOut cfg (runSteps cfg ss hd flow ctx r inh g)
    | [], hd, flow, ctx, r, inh, g, hl => by
      rw [runSteps.eq_def]
      exact hl
    | s :: ss, hd, flow, ctx, r, inh, g, hl => by
      rw [runSteps.eq_def]
      simp only []
      have tail : ∀ (o : Out), LogOut cfg o →
          LogOut cfg (match o with
            | .done r' inh' c' g' => runSteps cfg ss false flow (if flow = true then c' else ctx) r' inh' g'
            | o => o) := by
        intro o ho
        cases o with
        | done r' inh' c' g' => exact runSteps_log cfg ss false flow _ r' inh' g' ho
        | parked t g' => exact ho
        | crash g' => exact ho
      by_cases hsub : Dispatch.implSubmits (stepType s.mode hd) = true
      · simp only [hsub, ite_true]
        have hs := submit_log cfg (Dispatch.transferExecutorTo s.mode.explicit inh) ctx g hl
        cases hsb : submit cfg (Dispatch.transferExecutorTo s.mode.explicit inh) ctx g with
        | callNow c0 g' =>
          rw [hsb] at hs
          exact tail _ (callStep_log cfg s ss hd false c0 _ r _ g' hs.1 hs.2)
        | dropNow c0 g' =>
          rw [hsb] at hs
          exact tail _ (callStep_log cfg s ss hd true c0 _ r _ g' hs.1 hs.2)
        | queued jid k g' =>
          rw [hsb] at hs
          exact ⟨hs.1, hs.2.2.1, hs.2.2.2, hs.2.1⟩
      · simp only [hsub, Bool.false_eq_true, ite_false]
        exact tail _ (callStep_log cfg s ss hd false ctx none r _ g hl (fun k hk => by cases hk))
end

theorem unwind_log (cfg : Cfg) : ∀ (fs : List Frame) (o : Out), LogOut cfg o → LogOut cfg (unwind cfg fs o)
  | [], o, h => by cases o <;> simpa [unwind] using h
  | f0 :: fs, .done r inh c' g, h => by
    simp only [unwind]
    exact unwind_log cfg fs _ (runSteps_log cfg f0.rest false true c' r f0.own _ (logOk_acct h (by simp) (by simp) (by simp)))
  | f0 :: fs, .parked t g, h => by
    simp only [LogOut] at h
    exact ⟨h.1, by have := h.2; simp only [PendOk] at this ⊢; cases hw : t.wait <;> simp_all⟩
  | f0 :: fs, .crash g, _ => trivial

theorem fire_log (cfg : Cfg) (t : Thread) (ctx : Option Nat) (g : G)
    (hl : LogOk cfg g (pendOf t.wait)) (hp : PendOk cfg g t) (hctx : ∀ jid k jk, t.wait = .job jid k jk → ctx = some k) :
    LogOut cfg (fire cfg t ctx g) := by
  unfold fire
  cases hwt : t.wait with
  | promise p fl =>
    rw [hwt] at hl
    exact hl
  | job jid k jk =>
    rw [hwt] at hl
    simp only [PendOk, hwt] at hp
    have hfin : LogOk cfg (g.finishJob jid true) [] := by
      refine ⟨⟨?_, ?_⟩, hl.2⟩
      · have := hl.1.1
        simp only [pendOf] at this
        simp only [finishJob_jobs, finishJob_subs, List.map_append, List.map_cons, List.map_nil, List.append_nil]
        exact this
      · intro x hx
        simp only [finishJob_jobs, finishJob_subs, List.mem_append, List.mem_cons, List.not_mem_nil, or_false] at hx ⊢
        cases hx with
        | inl hx => exact hl.1.2 x hx
        | inr hx =>
          subst hx
          have h1 := hp.1
          have h2 := hp.2.1
          simp only [List.getD_eq_getElem?_getD] at h1
          simp [h1, h2]
    cases jk with
    | step s input hd =>
      simp only []
      have hinh : t.inh = .user k := hp.2.2
      exact callStep_log cfg s t.rest hd false (some k) (some t.inh) input t.inh _ hfin
        (fun k' hk' => by rw [hinh] at hk'; cases hk'; rfl)
    | readyHead r => exact hfin
    | promiseHead p fl => exact ⟨logOk_acct hfin (by simp) (by simp) (by simp), trivial⟩

theorem resume_log (cfg : Cfg) (t : Thread) (ctx : Option Nat) (g : G)
    (hl : LogOk cfg g (pendOf t.wait)) (hp : PendOk cfg g t) (hctx : ∀ jid k jk, t.wait = .job jid k jk → ctx = some k) :
    LogOut cfg (resume cfg t ctx g) := by
  have hf := fire_log cfg t ctx g hl hp hctx
  unfold resume
  apply unwind_log
  cases ho : fire cfg t ctx g with
  | done r inh c' g' =>
    rw [ho] at hf
    exact runSteps_log cfg t.rest false true c' r inh g' hf
  | parked t' g' => rw [ho] at hf; exact hf
  | crash g' => trivial

/-! ### state level -/

def LInv (cfg : Cfg) (st : State) : Prop :=
  st.crashed = true ∨
  match st.ctl with
  | .pending t => LogOk cfg st.g (pendOf t.wait) ∧ PendOk cfg st.g t
  | _ => LogOk cfg st.g []

theorem linv_settle (cfg : Cfg) (st0 : State) (o : Out) (ho : LogOut cfg o) : LInv cfg (settle st0 o) := by
  by_cases hc : st0.crashed = true
  · cases o <;> simp only [settle] <;> (try split) <;> exact Or.inl (by simp [hc])
  · cases o with
    | done r inh c g =>
      simp only [settle]
      split
      · exact Or.inr ho
      · exact Or.inr (logOk_acct ho rfl rfl rfl)
    | parked t g => exact Or.inr ho
    | crash g => exact Or.inl rfl

theorem linv_started (cfg : Cfg) (st0 : State) (steps : List Step) (hd flow : Bool) (s : Started)
    (hgo : ∀ r inh c g, s = .go r inh c g → LogOk cfg g [])
    (hwait : ∀ w inh g, s = .wait w inh g → ∀ rest outer, LogOk cfg g (pendOf w) ∧ PendOk cfg g ⟨w, inh, rest, outer⟩) :
    LInv cfg (started cfg st0 steps hd flow s) := by
  cases s with
  | go r inh c g => exact linv_settle cfg st0 _ (runSteps_log cfg steps hd flow _ r inh g (hgo r inh c g rfl))
  | wait w inh g => exact linv_settle cfg st0 _ (hwait w inh g rfl steps [])
  | crash g => exact Or.inl (by simp [started, settle])

theorem pendOk_attach (cfg : Cfg) (g g' : G) (t : Thread) (s : Step) (h : PendOk cfg g t) (hs : g'.subs = g.subs) :
    PendOk cfg g' (t.attach s) := by
  unfold Thread.attach
  simp only [PendOk] at h ⊢
  cases ho : t.outer <;> cases hw : t.wait <;> simp_all

theorem linv_step (cfg : Cfg) (st : State) (ev : Event) (hinv : LInv cfg st) : LInv cfg (mech cfg st ev) := by
  obtain ⟨ctl, held, ended, got, result, crashed, g⟩ := st
  cases crashed with
  | true => exact Or.inl (by simp [mech])
  | false =>
  cases hinv with
  | inl hc => simp at hc
  | inr hi =>
  unfold mech
  simp only [Bool.false_eq_true, ite_false]
  cases ev with
  | src s lazy head =>
    cases ctl with
    | idle =>
      simp only at hi
      simp only []
      split
      · exact Or.inr hi
      · have hl : LogOk cfg ((g.allocCore (srcCores s + head.toList.length)).allocFunctor
            (srcFunctors s + head.toList.length)) [] := logOk_acct hi rfl rfl rfl
        cases lazy with
        | true => exact Or.inr hl
        | false =>
          simp only [Bool.false_eq_true, ite_false]
          have hsp := startSrc_log cfg s none _ hl
          refine linv_started cfg _ _ _ _ _ ?_ ?_
          · intro r inh c g' hgo; rw [hgo] at hsp; exact hsp
          · intro w inh g' hw; rw [hw] at hsp; exact hsp
    | task src steps => exact Or.inr hi
    | future r inh => exact Or.inr hi
    | pending t => exact Or.inr hi
    | gone => exact Or.inr hi
  | attach s =>
    cases ctl with
    | idle => exact Or.inr hi
    | task src steps =>
      simp only []
      split
      · exact Or.inr hi
      · exact Or.inr (logOk_acct hi rfl rfl rfl)
    | future r inh =>
      simp only []
      split
      · exact Or.inr hi
      · exact linv_settle cfg _ _ (runSteps_log cfg [s] false false none r inh _ (logOk_acct hi rfl rfl rfl))
    | pending t =>
      simp only []
      split
      · exact Or.inr hi
      · simp only at hi
        have hpo : pendOf (t.attach s).wait = pendOf t.wait := by
          unfold Thread.attach; cases t.outer <;> rfl
        cases hdm : s.mode.isDetach
        · refine Or.inr ⟨?_, pendOk_attach cfg g _ t s hi.2 rfl⟩
          simp only []
          rw [hpo]
          exact logOk_acct hi.1 rfl rfl rfl
        · refine Or.inr ⟨?_, pendOk_attach cfg g _ t s hi.2 rfl⟩
          simp only []
          rw [hpo]
          exact logOk_acct hi.1 rfl rfl rfl
    | gone => exact Or.inr hi
  | set p =>
    cases ctl with
    | pending t =>
      simp only at hi
      simp only []
      cases hw : t.wait with
      | job jid k jk => exact Or.inr hi
      | promise q f =>
        simp only []
        split
        · exact linv_settle cfg _ _ (resume_log cfg t none (g.markSet p) (logOk_acct hi.1 rfl rfl rfl)
            (by have := hi.2; simpa [PendOk] using this) (fun jid k jk h => by rw [hw] at h; cases h))
        · exact Or.inr hi
    | idle => exact Or.inr hi
    | task src steps => exact Or.inr hi
    | future r inh => exact Or.inr hi
    | gone => exact Or.inr hi
  | call k =>
    cases ctl with
    | pending t =>
      simp only at hi
      simp only []
      cases hw : t.wait with
      | promise q f => exact Or.inr hi
      | job jid k' jk =>
        simp only []
        split
        · rename_i hk
          exact linv_settle cfg _ _ (resume_log cfg t (some k) g hi.1 hi.2
            (fun jid2 k2 jk2 h => by rw [hw] at h; cases h; rw [hk]))
        · exact Or.inr hi
    | idle => exact Or.inr hi
    | task src steps => exact Or.inr hi
    | future r inh => exact Or.inr hi
    | gone => exact Or.inr hi
  | start sk =>
    cases ctl with
    | task src steps =>
      simp only at hi
      have hsp := startLazy_log cfg src sk.ovr none g hi
      refine linv_started cfg _ _ _ _ _ ?_ ?_
      · intro r inh c g' hgo; rw [hgo] at hsp; exact hsp
      · intro w inh g' hw; rw [hw] at hsp; exact hsp
    | idle => exact Or.inr hi
    | pending t => exact Or.inr hi
    | future r inh => exact Or.inr hi
    | gone => exact Or.inr hi
  | dropFuture =>
    cases ctl with
    | future r inh =>
      simp only []
      split
      · exact Or.inr (logOk_acct hi rfl rfl rfl)
      · exact Or.inr hi
    | pending t => exact Or.inr hi
    | idle => exact Or.inr hi
    | task src steps => exact Or.inr hi
    | gone => exact Or.inr hi
  | get =>
    cases ctl with
    | future r inh =>
      simp only []
      split
      · exact Or.inr (logOk_acct hi rfl rfl rfl)
      · exact Or.inr hi
    | pending t => exact Or.inr hi
    | idle => exact Or.inr hi
    | task src steps => exact Or.inr hi
    | gone => exact Or.inr hi

theorem linv_init (cfg : Cfg) : LInv cfg {} := by
  refine Or.inr ⟨⟨rfl, ?_⟩, ?_⟩
  · intro x hx; cases hx
  · intro x hx; cases hx

/-- **the log invariant holds after every list of client events** (unconditionally) -/
theorem linv_run (cfg : Cfg) : ∀ (evs : List Event) (st : State), LInv cfg st → LInv cfg (run cfg st evs)
  | [], _, h => h
  | ev :: evs, st, h => by rw [run_cons]; exact linv_run cfg evs _ (linv_step cfg st ev h)

end Yaclib.Pipeline
