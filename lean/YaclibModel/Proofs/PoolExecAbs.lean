/- C08 ↔ C07: the protocol state the open pool shows to its clients (`absP`) and how every step changes it. -/
import YaclibModel.Proofs.PoolExec

namespace Yaclib.Pool
open Yaclib.Strand (Exec XEv Prot Phase specPre specPost protInit ExecContract upd)

/-- job a has had its outcome: Called, Dropped by its Submit, or Dropped by HardStop -/
def finB (s : State) (a : Nat) : Prop :=
  (⟨a, 0⟩ : JobId) ∈ s.started ∨ (⟨a, 0⟩ : JobId) ∈ s.rejected ∨ (⟨a, 0⟩ : JobId) ∈ s.hardDropped

instance (s : State) (a : Nat) : Decidable (finB s a) := by unfold finB; exact inferInstance

/-- the protocol state of client job a as a function of the state of the open pool -/
def absP (x : PX) : Prot := fun a =>
  if freshB x.m a = true then .fresh
  else if a ∈ x.inBody.map Prod.snd then .calling
  else if finB x.m a then .finished
  else .pending

theorem absP_init (n stop spur) : absP (poolExec n stop spur).init = protInit := by
  funext a
  simp [absP, poolExec, freshB, init, wN, protInit]

theorem fresh_of_absP_fresh {x : PX} {a : Nat} (h : absP x a = .fresh) : freshB x.m a = true := by
  unfold absP at h
  split at h
  · assumption
  · split at h
    · cases h
    · split at h <;> cases h

theorem not_fresh_of_absP {x : PX} {a : Nat} (h : absP x a ≠ .fresh) : freshB x.m a = false := by
  cases hf : freshB x.m a with
  | false => rfl
  | true => exact absurd (by simp [absP, hf]) h

theorem snd_unique {l : List (Nat × Nat)} (hn : (l.map Prod.snd).Nodup) {i i' a : Nat} (h1 : (i, a) ∈ l) (h2 : (i', a) ∈ l) :
    i = i' := by
  induction l with
  | nil => cases h1
  | cons p ps ih =>
      simp only [List.map_cons, List.nodup_cons] at hn
      simp only [List.mem_cons] at h1 h2
      rcases h1 with h1 | h1 <;> rcases h2 with h2 | h2
      · rw [← h2] at h1; exact (Prod.mk.inj h1).1
      · subst h1; exact absurd (List.mem_map.mpr ⟨(i', a), h2, rfl⟩) hn.1
      · subst h2; exact absurd (List.mem_map.mpr ⟨(i, a), h1, rfl⟩) hn.1
      · exact ih hn.2 h1 h2

theorem mem_snd_erase {l : List (Nat × Nat)} (hn : (l.map Prod.snd).Nodup) {i a : Nat} (hm : (i, a) ∈ l) (b : Nat) :
    b ∈ (l.erase (i, a)).map Prod.snd ↔ (b ≠ a ∧ b ∈ l.map Prod.snd) := by
  have hnd : l.Nodup := (List.pairwise_map.mp hn).imp (fun h e => h (by rw [e]))
  constructor
  · intro hb
    obtain ⟨⟨i', b'⟩, hm', hb'⟩ := List.mem_map.mp hb
    simp only at hb'; subst hb'
    have hm2 := (List.Nodup.mem_erase_iff hnd).mp hm'
    refine ⟨?_, List.mem_map.mpr ⟨_, hm2.2, rfl⟩⟩
    intro e; subst e
    have := snd_unique hn hm hm2.2
    subst this
    exact hm2.1 rfl
  · intro ⟨hne, hb⟩
    obtain ⟨⟨i', b'⟩, hm', hb'⟩ := List.mem_map.mp hb
    simp only at hb'; subst hb'
    refine List.mem_map.mpr ⟨(i', b'), ?_, rfl⟩
    apply (List.mem_erase_of_ne ?_).mpr hm'
    intro e; exact hne (Prod.mk.inj e).2

/-- everything with an outcome has been submitted -/
theorem fin_submitted {w s} (h : Reachable w s) {j : JobId} (hj : j ∈ s.started ∨ j ∈ s.rejected ∨ j ∈ s.hardDropped) :
    j ∈ s.submitted := by
  obtain ⟨c1, c2, c3, c4, c5⟩ := job_counts h j
  apply mem_of_count_pos
  rcases hj with hj | hj | hj <;> have := List.count_pos_iff.mpr hj <;> omega

/-- a client that has not called Submit has nothing going on in the pool -/
theorem fresh_clean {n stop} {x : PX} (hi : PXInv n stop x) {a : Nat} (hf : freshB x.m a = true) :
    a ∉ x.inBody.map Prod.snd ∧ ¬ finB x.m a := by
  have key : ¬ finB x.m a := by
    intro hfin
    have := (submitted_one hi.reach (fin_submitted hi.reach hfin)).2
    simp only at this
    rw [hf] at this; cases this
  refine ⟨?_, key⟩
  intro hm
  obtain ⟨⟨i, a'⟩, hm', ha⟩ := List.mem_map.mp hm
  simp only at ha; subst ha
  exact key (Or.inl (hi.body_started i _ hm'))

/-- a job about to be Called / Dropped is `pending` at the interface -/
theorem absP_pending_of {n stop} {x : PX} (hi : PXInv n stop x) {N : Nat} {j : JobId} (hp : Pending (pad x.m N) j) :
    j = ⟨j.sub, 0⟩ ∧ absP x j.sub = .pending := by
  have hrp := reachable_pad hi.reach N
  obtain ⟨hj, hfr⟩ := submitted_one hrp hp.sub
  refine ⟨hj, ?_⟩
  rw [fresh_pad] at hfr
  have hnb : j.sub ∉ x.inBody.map Prod.snd := by
    intro hm
    obtain ⟨⟨i, a'⟩, hm', ha⟩ := List.mem_map.mp hm
    simp only at ha; subst ha
    have := hi.body_started i _ hm'
    rw [← hj] at this
    exact hp.not_started this
  have hnf : ¬ finB x.m j.sub := by
    unfold finB
    rw [← hj]
    intro h
    rcases h with h | h | h
    · exact hp.not_started h
    · exact hp.not_rejected h
    · exact hp.not_hard h
  simp [absP, hfr, hnb, hnf]

theorem jobid_sub_ne {b : Nat} {j : JobId} (h : b ≠ j.sub) : (⟨b, 0⟩ : JobId) ≠ j := by
  intro e; subst e; exact h rfl

/-- decide the three tests of `absP` one by one (closes goals that differ only in `Decidable` instances) -/
macro "close_ite" x:term "," b:term : tactic =>
  `(tactic| (by_cases c1 : freshB (PX.m $x) $b = true <;> by_cases c2 : $b ∈ List.map Prod.snd (PX.inBody $x) <;>
      by_cases c3 : ((⟨$b, 0⟩ : JobId) ∈ (PX.m $x).started ∨ (⟨$b, 0⟩ : JobId) ∈ (PX.m $x).rejected ∨
        (⟨$b, 0⟩ : JobId) ∈ (PX.m $x).hardDropped) <;> simp [c1, c2, c3] <;> (try grind)))

/-- **how a step changes the interface state**: an output event happens only on a pending job; an event (inputs:
    provided the client honours the protocol) changes the interface state as the protocol says; every other step is
    invisible -/
theorem abs_step {n stop spur} {x : PX} {lab : PLab} {x' : PX} (hi : PXInv n stop x) (hs : PStep spur x lab x') :
    (∀ e, pEv lab = some e → e.isInput = false → specPre (absP x) e) ∧
    (∀ e, pEv lab = some e → (e.isInput = true → specPre (absP x) e) → absP x' = specPost (absP x) e) ∧
    (pEv lab = none → absP x' = absP x) := by
  cases hs with
  | @ret i a hm =>
      refine ⟨?_, ?_, ?_⟩
      · intro e he ho; simp [pEv] at he; subst he; cases ho
      · intro e he hpre
        simp [pEv] at he; subst he
        have hc := hpre rfl
        simp only [specPre] at hc
        have hnf : freshB x.m a = false := not_fresh_of_absP (by rw [hc]; simp)
        funext b
        simp only [specPost, upd, absP]
        by_cases hb : b = a
        · subst hb
          have h1 : b ∉ (x.inBody.erase (i, b)).map Prod.snd := fun h => ((mem_snd_erase hi.body_nodup hm b).mp h).1 rfl
          have h2 : finB x.m b := Or.inl (hi.body_started i b hm)
          simp [hnf, h1, h2]
        · have h1 := mem_snd_erase hi.body_nodup hm b
          simp only [hb, ↓reduceIte]
          by_cases hbm : b ∈ x.inBody.map Prod.snd
          · have : b ∈ (x.inBody.erase (i, a)).map Prod.snd := h1.mpr ⟨hb, hbm⟩
            simp [hbm, this]
          · have : b ∉ (x.inBody.erase (i, a)).map Prod.snd := fun h => hbm (h1.mp h).2
            simp [hbm, this]
      · intro he; simp [pEv] at he
  | @m l m' N hst hbo hsp =>
      have hrp := reachable_pad hi.reach N
      have hfr : ∀ b, freshB m' b = (freshB x.m b && !isSubmitOf b l) := fun b => by
        rw [fresh_step hst b, fresh_pad]
      have hst1 : m'.started = x.m.started ++ callJob l := by have := started_step hst; exact this
      have hrj1 : m'.rejected = x.m.rejected ++ subDropJob l := by have := rejected_step hst; exact this
      have hhd1 : m'.hardDropped = x.m.hardDropped ++ hardDropJob l := by have := hardDropped_step hst; exact this
      have hop := out_pre hst
      cases l with
      | submit i j =>
          refine ⟨?_, ?_, ?_⟩
          · intro e he ho; simp [pEv] at he; subst he; cases ho
          · intro e he hpre
            simp [pEv] at he; subst he
            have hc := hpre rfl
            simp only [specPre] at hc
            have hf : freshB x.m i = true := fresh_of_absP_fresh hc
            obtain ⟨hnb, hnfin⟩ := fresh_clean hi hf
            funext b
            simp only [specPost, upd, absP, bodyAfter, finB, hfr, hst1, hrj1, hhd1, callJob, subDropJob, hardDropJob,
              isSubmitOf, List.append_nil]
            by_cases hb : b = i
            · subst hb
              simp only [finB] at hnfin
              simp [hnb, hnfin]
            · have : (i == b) = false := by simp; exact fun e => hb e.symm
              simp [hb, this]
          · intro he; simp [pEv] at he
      | call i j =>
          have hp := pending_calling hrp (hop.1 i j rfl)
          obtain ⟨hj, hpend⟩ := absP_pending_of hi hp
          refine ⟨?_, ?_, ?_⟩
          · intro e he _; simp [pEv] at he; subst he; exact hpend
          · intro e he _
            simp [pEv] at he; subst he
            have hnf : freshB x.m j.sub = false := not_fresh_of_absP (by rw [hpend]; simp)
            funext b
            simp only [specPost, upd, absP, bodyAfter, finB, hfr, hst1, hrj1, hhd1, callJob, subDropJob, hardDropJob,
              isSubmitOf, List.append_nil, List.map_cons, List.mem_cons, List.mem_append,
              Bool.not_false, Bool.and_true]
            by_cases hb : b = j.sub
            · subst hb; simp [hnf]
            · have hne := jobid_sub_ne hb
              have e0 : (b = j.sub ∨ b ∈ List.map Prod.snd x.inBody) ↔ b ∈ List.map Prod.snd x.inBody := by simp [hb]
              have e1 : ((⟨b, 0⟩ : JobId) ∈ x.m.started ∨ (⟨b, 0⟩ : JobId) = j) ↔ (⟨b, 0⟩ : JobId) ∈ x.m.started := by simp [hne]
              simp only [hb, ↓reduceIte]
              close_ite x, b
          · intro he; simp [pEv] at he
      | drop t j =>
          have hp : Pending (pad x.m N) j := by
            rcases hop.2.2.2.1 t j rfl with ht | ⟨i, ht⟩
            · subst ht
              obtain ⟨rest, hx⟩ := hop.2.1 j rfl
              exact pending_hard hrp hx
            · subst ht
              obtain ⟨sb, h1, h2, h3⟩ := hop.2.2.1 i j rfl
              subst h3
              exact pending_dropping hrp h1 h2
          obtain ⟨hj, hpend⟩ := absP_pending_of hi hp
          refine ⟨?_, ?_, ?_⟩
          · intro e he _; simp [pEv] at he; subst he; exact hpend
          · intro e he _
            simp [pEv] at he; subst he
            have hnf : freshB x.m j.sub = false := not_fresh_of_absP (by rw [hpend]; simp)
            have hnb : j.sub ∉ x.inBody.map Prod.snd := by
              intro hm; simp [absP, hnf, hm] at hpend
            have hfin' : (⟨j.sub, 0⟩ : JobId) ∈ x.m.rejected ++ subDropJob (.drop t j) ∨
                (⟨j.sub, 0⟩ : JobId) ∈ x.m.hardDropped ++ hardDropJob (.drop t j) := by
              rw [← hj]
              rcases hop.2.2.2.1 t j rfl with ht | ⟨i, ht⟩ <;> subst ht <;> simp [subDropJob, hardDropJob]
            funext b
            simp only [specPost, upd, absP, bodyAfter, finB, hfr, hst1, hrj1, hhd1, callJob,
              isSubmitOf, List.append_nil, Bool.not_false, Bool.and_true]
            by_cases hb : b = j.sub
            · subst hb
              have : (⟨j.sub, 0⟩ : JobId) ∈ x.m.started ∨ (⟨j.sub, 0⟩ : JobId) ∈ x.m.rejected ++ subDropJob (.drop t j) ∨
                  (⟨j.sub, 0⟩ : JobId) ∈ x.m.hardDropped ++ hardDropJob (.drop t j) := Or.inr hfin'
              simp only [hnf, hnb, this]; simp
            · have hne := jobid_sub_ne hb
              have e1 : ((⟨b, 0⟩ : JobId) ∈ x.m.rejected ++ subDropJob (.drop t j)) ↔ (⟨b, 0⟩ : JobId) ∈ x.m.rejected := by
                cases t <;> simp [subDropJob, hne]
              have e2 : ((⟨b, 0⟩ : JobId) ∈ x.m.hardDropped ++ hardDropJob (.drop t j)) ↔ (⟨b, 0⟩ : JobId) ∈ x.m.hardDropped := by
                cases t <;> simp [hardDropJob, hne]
              simp only [hb, ↓reduceIte, e1, e2]
          · intro he; simp [pEv] at he
      | _ =>
          refine ⟨?_, ?_, ?_⟩
          · intro e he; simp [pEv] at he
          · intro e he; simp [pEv] at he
          · intro _
            funext b
            simp [absP, bodyAfter, finB, hfr, hst1, hrj1, hhd1, callJob, subDropJob, hardDropJob, isSubmitOf]
            close_ite x, b

theorem run_abs {n stop spur} {x : (poolExec n stop spur).σ} {p : Prot} (h : (poolExec n stop spur).Run x p) :
    p = absP x := by
  induction h with
  | init => exact (absP_init n stop spur).symm
  | tau hr hs he ih =>
      rw [ih]; exact ((abs_step (pxinv_reach hr.reach) hs).2.2 he).symm
  | inp hr hs he hin hpre ih =>
      rw [ih] at hpre ⊢
      exact ((abs_step (pxinv_reach hr.reach) hs).2.1 _ he (fun _ => hpre)).symm
  | out hr hs he ho ih =>
      rw [ih]
      exact ((abs_step (pxinv_reach hr.reach) hs).2.1 _ he (fun hi => by rw [ho] at hi; cases hi)).symm

end Yaclib.Pool
