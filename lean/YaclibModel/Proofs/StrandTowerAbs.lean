/- C07, towers of strands (3): the protocol state a strand shows to its clients (`absP`), and how every step of
   the strand changes it (for the open workload `ones`: client job a = `⟨a, 0⟩`). -/
import YaclibModel.Proofs.StrandTowerProd

namespace Yaclib.Strand

def busyJob : APc → Option JobId
  | .busy j _ => some j
  | _ => none

def jobOf (acts : Nat → APc) : Option Holder → Option JobId
  | some (.act a) => busyJob (acts a)
  | _ => none

/-- the job whose body is running -/
def curJob (s : State) : Option JobId := jobOf s.acts s.holder

theorem jobOf_upd_other {acts : Nat → APc} {a : Nat} {v : APc} {h : Option Holder} (hne : h ≠ some (.act a)) :
    jobOf (upd acts a v) h = jobOf acts h := by
  cases h with
  | none => rfl
  | some x =>
      cases x with
      | sub i => rfl
      | act b =>
          have : b ≠ a := fun hb => hne (by rw [hb])
          simp [jobOf, upd, this]

/-- the protocol state of client job a as a function of the strand's state -/
def absP (u : State) : Prot := fun a =>
  if u.spc a = .idle ∧ u.sidx a = 0 then .fresh
  else if curJob u = some ⟨a, 0⟩ then .calling
  else if (⟨a, 0⟩ : JobId) ∈ u.executed ∨ (⟨a, 0⟩ : JobId) ∈ u.dropped then .finished
  else .pending

theorem curJob_busy {u : State} {j : JobId} (h : curJob u = some j) :
    ∃ b rem, u.holder = some (.act b) ∧ u.acts b = .busy j rem := by
  unfold curJob at h
  cases hh : u.holder with
  | none => rw [hh] at h; simp [jobOf] at h
  | some x =>
      cases x with
      | sub i => rw [hh] at h; simp [jobOf] at h
      | act b =>
          rw [hh] at h; simp only [jobOf] at h
          cases hb : u.acts b with
          | busy j' rem =>
              rw [hb] at h; simp only [busyJob, Option.some.injEq] at h
              subst h; exact ⟨b, rem, rfl, hb⟩
          | _ => rw [hb] at h; simp [busyJob] at h

theorem curJob_exec {u : State} (hx : InvX u) {j : JobId} (h : curJob u = some j) : j ∈ u.executed := by
  obtain ⟨b, rem, _, hb⟩ := curJob_busy h
  exact hx.busy_exec b j rem hb

theorem exec_pushed {w u} (hi : Inv w u) {j : JobId} (hj : j ∈ u.executed) : j ∈ u.pushOrder := by
  rw [hi.ord.order]; exact List.mem_append_left _ (mem_fsts.mpr (Or.inl (executed_taken hi.ord hj)))

theorem drop_pushed {w u} (hi : Inv w u) {j : JobId} (hj : j ∈ u.dropped) : j ∈ u.pushOrder := by
  rw [hi.ord.order]; exact List.mem_append_left _ (mem_fsts.mpr (Or.inr (hi.drop.drop_taken j hj)))

/-- with the open workload every pushed job is the one job of its submitter, whose counter is past it -/
theorem pushed_ones {u} (hi : Inv ones u) {j : JobId} (hj : j ∈ u.pushOrder) : j = ⟨j.sub, 0⟩ ∧ u.sidx j.sub = 1 := by
  have h1 := hi.ord.push_lt j hj
  have h2 := hi.tok.sidx_le j.sub
  rw [jobsOf_ones] at h2
  have : j.idx = 0 := by omega
  refine ⟨?_, by omega⟩
  cases j; simp_all

theorem taken_pushed {w u} (hi : Inv w u) {j : JobId} {b : Bool} (hj : (j, b) ∈ u.taken) : j ∈ u.pushOrder := by
  rw [hi.ord.order]; apply List.mem_append_left
  cases b
  · exact mem_fsts.mpr (Or.inr hj)
  · exact mem_fsts.mpr (Or.inl hj)

/-- the job about to be Called is pending -/
theorem begin_pre {u b j rem} (hi : Inv ones u) (h : u.acts b = .run (j :: rem)) :
    j = ⟨j.sub, 0⟩ ∧ u.sidx j.sub = 1 ∧ j ∉ u.executed ∧ j ∉ u.dropped ∧ u.holder = some (.act b) := by
  have hh := (hi.tok.tok_act b).mp (by rw [h]; rfl)
  have hcr : curRem u = j :: rem := by simp [curRem, hh, remOf, h, callRem]
  have hc : j ∈ calls u.taken := by rw [hi.ord.exec_eq, hcr]; simp
  have ht := mem_calls.mp hc
  obtain ⟨h1, h2⟩ := pushed_ones hi (taken_pushed hi ht)
  have hnd : (calls u.taken).Nodup := List.Nodup.sublist (calls_sublist _) hi.ord.fsts_nodup
  rw [hi.ord.exec_eq, hcr, List.nodup_append] at hnd
  refine ⟨h1, h2, fun he => hnd.2.2 j he j (by simp) rfl, fun hd => ?_, hh⟩
  exact hi.ord.taken_excl ht (hi.drop.drop_taken j hd)

/-- the job about to be Dropped is pending -/
theorem drop_pre {u b j rem} (hi : Inv ones u) (hx : InvX u) (h : u.acts b = .drain (j :: rem)) :
    j = ⟨j.sub, 0⟩ ∧ u.sidx j.sub = 1 ∧ j ∉ u.executed ∧ j ∉ u.dropped ∧ curJob u ≠ some j ∧
    u.holder ≠ some (.act b) := by
  have hd := hi.drop.drain_taken b j (by rw [h]; simp [drainRem])
  obtain ⟨h1, h2⟩ := pushed_ones hi (taken_pushed hi hd.1)
  have hne : j ∉ u.executed := fun he => hi.ord.taken_excl (executed_taken hi.ord he) hd.1
  refine ⟨h1, h2, hne, hd.2.1, fun hc => hne (curJob_exec hx hc), fun hh => ?_⟩
  have := (hi.tok.tok_act b).mpr hh; rw [h] at this; cases this

end Yaclib.Strand
