/- C08: what the pool guarantees when client code blocks (a job body waiting for another job, a Drop that calls
   back into the pool, a client that does not call Submit / Stop / Wait yet). -/
import YaclibModel.Proofs.PoolProgress
import YaclibModel.Proofs.PoolW
namespace Yaclib.Pool
open Yaclib.Extracted.PoolConsts

/-- a critical section contains no client code and no blocking operation: whoever holds the mutex can release it -/
theorem unlock_enabled_of_locked {w : Workload} {s : State} (ha : InvA w s) (hl : s.locked = true) :
    ∃ t s', Step s (.unlock t) s' := by
  have hc := ha.lock_cnt
  rw [hl] at hc
  simp only [↓reduceIte] at hc
  by_cases hx : s.xpc = .held
  · obtain ⟨s', hs⟩ := stopper_unlock_enabled ha hx
    exact ⟨_, _, hs⟩
  · by_cases hw : 0 < s.workers.countP WPc.isHeld
    · obtain ⟨pc, hm, hp⟩ := List.countP_pos_iff.mp hw
      obtain ⟨i, hi⟩ := List.mem_iff_getElem?.mp hm
      cases pc with
      | held b =>
          obtain ⟨s', hs⟩ := worker_unlock_enabled hi
          exact ⟨_, _, hs⟩
      | _ => simp [WPc.isHeld] at hp
    · have hs0 : 0 < s.subs.countP Sub.isHeld := by simp [hx] at hc; omega
      obtain ⟨sb, hm, hp⟩ := List.countP_pos_iff.mp hs0
      obtain ⟨i, hi⟩ := List.mem_iff_getElem?.mp hm
      have hpc : sb.pc = .held := by simpa [Sub.isHeld] using hp
      obtain ⟨s', hs⟩ := sub_unlock_enabled hi hpc
      exact ⟨_, _, hs⟩

/-- steps whose timing is decided by client code and not by the pool: a client calling Submit / Stop… / Wait,
    a job body returning (= the worker's re-lock after a Call), the next Drop of HardStop's loop (the previous
    Drop has to return first); and spurious wake-ups, which nobody can rely on -/
def ClientControlled (s : State) : Label → Prop
  | .spurious _ => True
  | .submit _ _ => True
  | .stopBegin _ => True
  | .waitReturn => True
  | .drop .stopper _ => True
  | .lock (.worker i) => s.workers[i]? = some .relock
  | _ => False

/-- only client-controlled steps are enabled: every thread of the pool's own code has come to rest -/
def PoolAtRest (s : State) : Prop := ∀ l s', Step s l s' → ClientControlled s l

theorem heading_zero_of_at_rest {w : Workload} {s : State} (ha : InvA w s) (hq : PoolAtRest s) :
    s.locked = false ∧ s.workers.countP WPc.heading = 0 ∧ s.subs.countP Sub.isNotifying = 0 := by
  have hul : s.locked = false := by
    cases hl : s.locked with
    | false => rfl
    | true =>
        obtain ⟨t, s', hs⟩ := unlock_enabled_of_locked ha hl
        exact (hq _ _ hs).elim
  refine ⟨hul, ?_, ?_⟩
  · apply List.countP_eq_zero.mpr
    intro pc hm
    obtain ⟨i, hi⟩ := List.mem_iff_getElem?.mp hm
    cases pc with
    | start =>
        have := hq _ _ (.wLock s i _ hi (Or.inl rfl) hul)
        simp only [ClientControlled] at this
        rw [hi] at this; cases this
    | woken =>
        have := hq _ _ (.wLock s i _ hi (Or.inr rfl) hul)
        simp only [ClientControlled] at this
        rw [hi] at this; cases this
    | held b =>
        obtain ⟨s', hs⟩ := worker_unlock_enabled hi
        exact (hq _ _ hs).elim
    | _ => simp [WPc.heading]
  · apply List.countP_eq_zero.mpr
    intro sb hm
    obtain ⟨i, hi⟩ := List.mem_iff_getElem?.mp hm
    cases hpc : sb.pc with
    | notifying =>
        by_cases hp : WPc.parked ∈ s.workers
        · obtain ⟨v, hv⟩ := List.mem_iff_getElem?.mp hp
          exact (hq _ _ (.sNotifyOne s i sb v hi hpc hv)).elim
        · exact (hq _ _ (.sNotifyNone s i sb hi hpc hp)).elim
    | _ => simp [Sub.isNotifying, hpc]

end Yaclib.Pool
