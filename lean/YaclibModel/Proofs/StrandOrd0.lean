import YaclibModel.Proofs.StrandOrd
namespace Yaclib.Strand

theorem invOrd_step_s {w s l s'} (ht : InvTok w s) (hi : InvOrd w s) (hs : Step s l s') (hg : ∃ i, l.actor = .sub i) :
    InvOrd w s' := by
  cases hs with
  | sLoad i v h hj hv => cases hi; ord_auto
  | sCasOk i exp h he =>
      have hcur : curRem (doCasOk s i exp) = curRem s := by
        by_cases hm : exp = .mark
        · subst hm
          have hwm : s.word = .mark := Word.head_eq_mark.mp he.symm
          have hh : s.holder = none := ht.tok_none.mpr hwm
          simp [curRem, remOf, doCasOk, hh]
        · simp [curRem, doCasOk, hm]
      constructor
      · intro x hx
        simp only [doCasOk, List.mem_append, List.mem_singleton, upd] at *
        rcases hx with hx | hx
        · have := hi.push_lt x hx
          split
          · rename_i hxi; rw [hxi] at this; omega
          · exact this
        · subst hx; simp
      · intro i' k hk
        simp only [doCasOk, List.mem_append, List.mem_singleton, upd] at *
        by_cases hii : i' = i
        · subst hii
          simp at hk
          by_cases hkk : k = s.sidx i'
          · right; rw [hkk]
          · left; exact hi.push_mem i' k (by omega)
        · simp [hii] at hk; left; exact hi.push_mem i' k hk
      · simp only [doCasOk]
        rw [List.pairwise_append]
        refine ⟨hi.push_pw, by simp, ?_⟩
        intro a ha b hb
        simp at hb; subst hb
        intro hsub
        have := hi.push_lt a ha
        simp at hsub; rw [hsub] at this; exact this
      · simp only [doCasOk]
        rw [hi.order, List.append_assoc]
        simp [Word.inbox]
      · rw [hcur]; simp only [doCasOk]; exact hi.exec_eq
      · simp only [doCasOk]; exact hi.nodrop
  | sCasFail i exp v h hne hv => cases hi; ord_auto
  | sCasSpur i exp h => exact hi
  | sSched i h =>
      have hh := (ht.tok_sub i).mp h
      cases hi; ord_auto
  | _ => simp [Label.actor] at hg

end Yaclib.Strand
