import YaclibModel.Proofs.CoSharedMutex
namespace Yaclib.CoSharedMutex

set_option maxHeartbeats 4000000 in
theorem inv_wuCasOk {cfg : Cfg} {s : State} (hi : Inv cfg s) (c : Cid) (h : s.pc c = .wUn0) (hW : s.W = 1) (hR : s.R = 0) :
    Inv cfg ((doWuCasOk s c)) := by
  cases hi
  sm_auto [List.count_le_length]

end Yaclib.CoSharedMutex
