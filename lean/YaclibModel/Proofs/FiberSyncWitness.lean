/- Running the executable models of C18 through label lists: used by the witness theorems and the non-vacuity examples. -/
import YaclibModel.Proofs.FiberSyncProgress
import YaclibModel.Proofs.FiberSyncRec
import YaclibModel.Proofs.FiberSyncSharedInv
import YaclibModel.Proofs.FiberSyncThread

namespace Yaclib.FiberSync

namespace Mx
def run (s : State) : List Label → Option State
  | [] => some s
  | l :: ls => match next s l with | some s' => run s' ls | none => none

theorem reach_run {k n s ls s'} (h : Reachable k n s) (hr : run s ls = some s') : Reachable k n s' := by
  induction ls generalizing s with
  | nil => simp [run] at hr; subst hr; exact h
  | cons l ls ih =>
      simp only [run] at hr
      split at hr
      · rename_i s1 hn; exact ih (.step h (next_sound hn)) hr
      · cases hr
end Mx

namespace Rm
def run (s : State) : List Label → Option State
  | [] => some s
  | l :: ls => match next s l with | some s' => run s' ls | none => none

theorem reach_run {k n s ls s'} (h : Reachable k n s) (hr : run s ls = some s') : Reachable k n s' := by
  induction ls generalizing s with
  | nil => simp [run] at hr; subst hr; exact h
  | cons l ls ih =>
      simp only [run] at hr
      split at hr
      · rename_i s1 hn; exact ih (.step h (next_sound hn)) hr
      · cases hr
end Rm

namespace Sm
def run (s : State) : List Label → Option State
  | [] => some s
  | l :: ls => match next s l with | some s' => run s' ls | none => none

theorem reach_run {k n s ls s'} (h : Reachable k n s) (hr : run s ls = some s') : Reachable k n s' := by
  induction ls generalizing s with
  | nil => simp [run] at hr; subst hr; exact h
  | cons l ls ih =>
      simp only [run] at hr
      split at hr
      · rename_i s1 hn; exact ih (.step h (next_sound hn)) hr
      · cases hr
end Sm

namespace Th
def run (s : State) : List Label → Option State
  | [] => some s
  | l :: ls => match next s l with | some s' => run s' ls | none => none

theorem reach_run {inits n s ls s'} (h : Reachable inits n s) (hr : run s ls = some s') : Reachable inits n s' := by
  induction ls generalizing s with
  | nil => simp [run] at hr; subst hr; exact h
  | cons l ls ih =>
      simp only [run] at hr
      split at hr
      · rename_i s1 hn; exact ih (.step h (next_sound hn)) hr
      · cases hr
end Th

end Yaclib.FiberSync
