/- Running the executable models of C18 through label lists: used by the witness theorems and the non-vacuity examples. -/
import YaclibModel.Proofs.FiberSyncProgress
import YaclibModel.Proofs.FiberSyncRecFixed
import YaclibModel.Proofs.FiberSyncSharedInv
import YaclibModel.Proofs.FiberSyncSharedFixedInv
import YaclibModel.Proofs.FiberSyncThread

namespace Yaclib.FiberSync

namespace Mx
def run (s : State) : List Label → Option State
  | [] => some s
  | l :: ls => match next s l with | some s' => run s' ls | none => none

theorem reach_run {k fx n s ls s'} (h : Reachable k fx n s) (hr : run s ls = some s') : Reachable k fx n s' := by
  induction ls generalizing s with
  | nil => simp [run] at hr; subst hr; exact h
  | cons l ls ih =>
      simp only [run] at hr
      split at hr
      · rename_i s1 hn; exact ih (.step h (next_sound hn)) hr
      · cases hr
end Mx

namespace Rm
def run (s : State) : List Label → Option State
  | [] => some s
  | l :: ls => match next s l with | some s' => run s' ls | none => none

theorem reach_run {k p lp n s ls s'} (h : Reachable k p lp n s) (hr : run s ls = some s') : Reachable k p lp n s' := by
  induction ls generalizing s with
  | nil => simp [run] at hr; subst hr; exact h
  | cons l ls ih =>
      simp only [run] at hr
      split at hr
      · rename_i s1 hn; exact ih (.step h (next_sound hn)) hr
      · cases hr
end Rm

namespace Sm
def run (s : State) : List Label → Option State
  | [] => some s
  | l :: ls => match next s l with | some s' => run s' ls | none => none

theorem reach_run {k fx n s ls s'} (h : Reachable k fx n s) (hr : run s ls = some s') : Reachable k fx n s' := by
  induction ls generalizing s with
  | nil => simp [run] at hr; subst hr; exact h
  | cons l ls ih =>
      simp only [run] at hr
      split at hr
      · rename_i s1 hn; exact ih (.step h (next_sound hn)) hr
      · cases hr
end Sm

namespace Th
def run (s : State) : List Label → Option State
  | [] => some s
  | l :: ls => match next s l with | some s' => run s' ls | none => none

theorem reach_run {fx n s ls s'} (h : Reachable fx n s) (hr : run s ls = some s') : Reachable fx n s' := by
  induction ls generalizing s with
  | nil => simp [run] at hr; subst hr; exact h
  | cons l ls ih =>
      simp only [run] at hr
      split at hr
      · rename_i s1 hn; exact ih (.step h (next_sound hn)) hr
      · cases hr
end Th

end Yaclib.FiberSync
