/- Invariant of the C18 model `Th`. -/
import YaclibModel.Model.FiberSyncThread

namespace Yaclib.FiberSync.Th
open Yaclib.FiberSync

structure Inv (s : State) : Prop where
  /-- a fiber whose thread function has returned never runs again -/
  fin_done : ∀ k, s.fin k = true → s.pc k = .done

theorem inv_init (n : Nat) : Inv (init n) := by
  constructor <;> simp [init]

theorem inv_step {s l s'} (hi : Inv s) (hs : Step s l s') : Inv s' := by
  cases hi
  cases hs <;> constructor <;> (try simp only [doCopy] at *) <;> grind [upd_apply]

theorem inv_reachable {n s} (h : Reachable n s) : Inv s := by
  induction h with
  | init => exact inv_init n
  | step _ hs ih => exact inv_step ih hs

end Yaclib.FiberSync.Th
