/- Invariant of the C18 model `Th`. -/
import YaclibModel.Model.FiberSyncThread

namespace Yaclib.FiberSync.Th
open Yaclib.FiberSync

structure Inv (s : State) : Prop where
  /-- a fiber whose thread function has returned never runs again -/
  fin_done : ∀ k, s.fin k = true → s.pc k = .done

theorem inv_init (n : Nat) : Inv (init n) := by
  constructor <;> simp [init]

theorem inv_step {s l s'} (hi : Inv s) (hs : Step s l s') : Inv s' := by
  cases hi
  cases hs <;> constructor <;> (try simp only [doCopy] at *) <;> grind [upd_apply]

theorem inv_reachable {n s} (h : Reachable n s) : Inv s := by
  induction h with
  | init => exact inv_init n
  | step _ hs ih => exact inv_step ih hs

/-- thread-local pointers: the defaults stay null, a fiber's `q` slot holds what it last assigned to `q`
    (by pointer or by copy from `p`) -/
structure TlsInv (s : State) : Prop where
  def0 : s.def0 = none
  def1 : s.def1 = none
  q_own : ∀ f v, s.lastQ f = some v → s.slot1 f = v
  q_none : ∀ f, s.lastQ f = none → s.slot1 f = none

theorem tls_inv_init (n : Nat) : TlsInv (init n) := by
  constructor <;> simp [init]

theorem tls_inv_step {s l s'} (hi : TlsInv s) (hs : Step s l s') : TlsInv s' := by
  cases hi
  cases hs <;> constructor <;> (try simp only [doCopy] at *) <;> grind [upd_apply, read0, read1]

theorem tls_inv_reachable {n s} (h : Reachable n s) : TlsInv s := by
  induction h with
  | init => exact tls_inv_init n
  | step _ hs ih => exact tls_inv_step ih hs

end Yaclib.FiberSync.Th
