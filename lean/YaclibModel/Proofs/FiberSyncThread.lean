/- Invariants of the C18 model `Th`. -/
import YaclibModel.Model.FiberSyncThread

namespace Yaclib.FiberSync.Th
open Yaclib.FiberSync

@[simp] theorem upd2_same {α : Type} (m : Var → Fid → α) (v : Var) (f : Fid) (x : α) :
    upd m v (upd (m v) f x) v f = x := by simp [upd]

theorem upd2_apply {α : Type} (m : Var → Fid → α) (v u : Var) (f g : Fid) (x : α) :
    upd m v (upd (m v) f x) u g = if u = v ∧ g = f then x else m u g := by
  by_cases hu : u = v
  · subst hu; by_cases hg : g = f <;> simp [upd, hg]
  · simp [upd, hu]

structure Inv (s : State) : Prop where
  /-- a fiber whose thread function has returned never runs again -/
  fin_done : ∀ k, s.fin k = true → s.pc k = .done

theorem inv_init (inits : Var → Ptr) (n : Nat) : Inv (init inits n) := by
  constructor <;> simp [init]

theorem inv_step {s l s'} (hi : Inv s) (hs : Step s l s') : Inv s' := by
  cases hi
  cases hs <;> constructor <;> (try simp only [doSet] at *) <;> grind [upd_apply]

theorem inv_reachable {inits n s} (h : Reachable inits n s) : Inv s := by
  induction h with
  | init => exact inv_init inits n
  | step _ hs ih => exact inv_step ih hs

/-- thread-local pointers: the defaults are the initialisers for good, and a fiber's slot of a variable is exactly what the
    fiber itself last assigned to it (no entry iff it never assigned) -/
structure TlsInv (inits : Var → Ptr) (s : State) : Prop where
  dflt_init : s.dflt = inits
  slot_last : ∀ v f, s.slot v f = s.last v f

theorem tls_inv_init (inits : Var → Ptr) (n : Nat) : TlsInv inits (init inits n) := by
  constructor <;> simp [init]

theorem tls_inv_step {inits s l s'} (hi : TlsInv inits s) (hs : Step s l s') : TlsInv inits s' := by
  cases hi
  cases hs <;> constructor <;> (try simp only [doSet] at *) <;> (try assumption) <;>
    (intro v g; simp only [upd2_apply]; split <;> simp_all)

theorem tls_inv_reachable {inits n s} (h : Reachable inits n s) : TlsInv inits s := by
  induction h with
  | init => exact tls_inv_init inits n
  | step _ hs ih => exact tls_inv_step ih hs

/-- the implementation's read is the specification's read -/
theorem read_eq_spec {inits s} (hi : TlsInv inits s) (v : Var) (f : Fid) : read s v f = specRead inits s v f := by
  simp [read, specRead, hi.slot_last v f, hi.dflt_init]

end Yaclib.FiberSync.Th
