import YaclibModel.Proofs.FiberSyncSharedFixed
namespace Yaclib.FiberSync.Sm
open Yaclib.FiberSync

set_option maxHeartbeats 4000000 in
theorem invF_step_2 {k s l s'} (hi : InvF k s) (hs : Step s l s') (hg : grpF l = 2) : InvF k s' := by
  cases hs with
  | unlockF f w hx h hh hw => cases hi; cases w <;> smf_auto
  | unlock f coin w hx h hh hc hw => have h1 := hi.hfx; rw [hx] at h1; cases h1
  | _ => simp [grpF] at hg

end Yaclib.FiberSync.Sm
