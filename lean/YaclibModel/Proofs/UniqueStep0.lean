import YaclibModel.Proofs.Unique
namespace Yaclib.Unique

set_option maxHeartbeats 4000000 in
theorem inv_step_0 {w s l s'} (hi : Inv w s) (hs : Step s l s') (hg : grpOf l = 0) : Inv w s' := by
  cases hi
  cases hs with
  | pXchg h hw => inv_auto
  | pInvoke r h hv hr => inv_auto
  | pSubmit h hv => inv_auto
  | pInvokeSub r h hr => inv_auto
  | pForward r h hr => inv_auto
  | pEvLock h hm => inv_auto
  | pEvUnlock h => inv_auto
  | _ => simp [grpOf] at hg

end Yaclib.Unique
