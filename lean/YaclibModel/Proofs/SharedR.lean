/- The reference counter of the C06 model: who owns how many references, when the core is freed, and what the
   counter values read by `GetRef()` imply (the move-or-copy decisions). -/
import YaclibModel.Proofs.SharedC
namespace Yaclib.Shared

structure InvR (s : State) : Prop where
  /-- every reference is accounted for: the promise's, the threads', the executor jobs', the When-style callbacks' -/
  cnt : s.count = promRefs s.fpc + s.holders + s.jobs.length + s.jobsRun.length
          + retCnt (wordList s.word) + retCnt (walkList s.fpc) + s.rets.length + s.retsLd.length
  freed_eq : s.freed = if s.count = 0 then 1 else 0
  /-- what the fulfiller's `GetRef()` returned -/
  f_refd : ∀ c rest d n, s.fpc = .walk (c :: rest) d (.refd n) →
    2 ≤ n ∧ (n = 2 → s.count = 2)
  /-- `if (ref == 1) caller.DecRef()` of ResultCore::Impl is never taken when the caller is a shared core -/
  f_post : ∀ l d, s.fpc ≠ .walk l d .post
  /-- what the `GetRef()` of a pending Retire() returned / what an observer's `GetRef()` returned (Get()&&) -/
  ld_refd : ∀ c n, (c, n) ∈ s.retsLd → 1 ≤ n ∧ (n = 1 → s.count = 1)
  o_got : ∀ t n, (s.obs t).pc = .gotRef n → 1 ≤ n ∧ (n = 1 → s.count = 1)
  /-- after a move-out nothing is left that could read the value -/
  moved : s.movedOut = true →
    (∀ l d st, s.fpc ≠ .walk l d st) ∧ s.fpc ≠ .start ∧ s.jobs = [] ∧ s.jobsRun = [] ∧ s.holders ≤ 1 ∧
    s.rets = [] ∧ s.retsLd = []
  moved_obs : ∀ t, s.movedOut = true → 0 < (s.obs t).refs → (s.obs t).pc = .idle ∧ (s.obs t).todo.head? = some .drop

theorem invR_init (w : Workload) : InvR (init w) := by
  constructor <;> simp [init, promiseRefs, wordList, walkList]

theorem nil_or_length_pos {α : Type} (l : List α) : l = [] ∨ 0 < l.length := by
  cases l <;> simp

grind_pattern nil_or_length_pos => l.length

theorem erase_nil_or_two_le {α : Type} [BEq α] [LawfulBEq α] {l : List α} {a : α} (h : a ∈ l) :
    l.erase a = [] ∨ 2 ≤ l.length := by
  have h1 := List.length_erase_of_mem h
  rcases nil_or_length_pos (l.erase a) with h2 | h2
  · exact Or.inl h2
  · right; omega

macro "invR_auto" : tactic => `(tactic| (constructor <;> sh_unfold' <;>
  grind [isReadyOp, opKind, = retCnt_cons, = retCnt_nil, = promRefs_start, = promRefs_walk, = promRefs_dec,
    = List.length_erase_of_mem, → List.mem_of_mem_erase,
    = wordList_list, = wordList_result, = walkList_walk, = walkList_start, = walkList_dec]))

end Yaclib.Shared
