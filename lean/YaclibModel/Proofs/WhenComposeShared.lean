/- WhenS (Model/WhenComposeShared.lean): the shape of observer 0 (the combinator's registration) and the frame lemma for the
   free steps of a Shared instance (other observers, fulfiller, executor jobs, Retire()). -/
import YaclibModel.Model.WhenComposeShared
import YaclibModel.Proofs.WhenCompose
import YaclibModel.Proofs.SharedInv

namespace Yaclib.WhenS
open Yaclib Yaclib.Shared

theorem cb0_kind : cb0.kind = .retire := rfl
theorem cb0_owner : cb0.owner = 0 := rfl
theorem cb0_eq (c : Cb) : c = cb0 ↔ c.owner = 0 ∧ c.seq = 0 ∧ c.kind = .retire := by
  cases c; simp [cb0]

/-- the combinator callback is installed and not entered yet: in the word's list or in the list the fulfiller walks -/
def inLists (s : Shared.State) : Prop := cb0 ∈ wordList s.word ∨ cb0 ∈ walkList s.fpc

/-- program counters observer 0 can have -/
def pcOk : OPc → Bool
  | .idle => true
  | .att c _ => decide (c = cb0)
  | .run c st => decide (c = cb0 ∧ st = .begin)
  | _ => false

/-- what observer 0 (program `[attach .retire]`) of an instance looks like; its callback never becomes an executor job -/
structure O0 (s : Shared.State) : Prop where
  shape : ((s.obs 0).todo = [.attach .retire] ∧ pcOk (s.obs 0).pc = true ∧ ((s.obs 0).pc = .idle → (s.obs 0).seq = 0)) ∨
          ((s.obs 0).todo = [] ∧ (s.obs 0).pc = .idle)
  jobs : cb0 ∉ s.jobs

theorem o0_init (W : Workload) (i : Nat) : O0 (Shared.init (wS W i)) := by
  constructor <;> simp [Shared.init, wS, pcOk]

macro "frame_auto" : tactic =>
  `(tactic| (refine ⟨?_, ?_, ?_, ?_⟩ <;> (try simp only [inLists] at *) <;> (try sh_unfold') <;>
      grind [cb0_kind, cb0_owner, = List.count_singleton, = wordList_list, = wordList_result,
        = walkList_walk, = walkList_start, = walkList_dec, = heldCb_att, = heldCb_run, List.mem_of_mem_erase]))

set_option maxHeartbeats 4000000 in
/-- a free step of an instance leaves observer 0 alone, does not turn the combinator callback into a job, does not install it,
    does not enter it -/
theorem free_frame {ws : Shared.Workload} {s s' : Shared.State} {l : Shared.Label} (hI : Shared.Inv ws s) (hJ : cb0 ∉ s.jobs)
    (hs : Shared.Step s l s') (hf : isFree l = true) :
    s'.obs 0 = s.obs 0 ∧ cb0 ∉ s'.jobs ∧ (inLists s' → inLists s) ∧
    (firedIds s').count cb0 = (firedIds s).count cb0 := by
  have hwk := hI.a.walk_kind
  have hrs := hI.a.run_shape
  have hl1 := hI.c.link1
  cases hs with
  | oLoad t op rest k x h ht hk hr hx =>
      simp only [isFree, decide_eq_true_eq, ne_eq] at hf
      cases x with
      | list l => frame_auto
      | result =>
          by_cases hke : k = .event
          · subst hke; frame_auto
          · simp only [doLoad, reload, failPath, hke, ↓reduceIte]; frame_auto
  | oCasOk t c e h hw =>
      simp only [isFree, decide_eq_true_eq, ne_eq] at hf
      by_cases hke : c.kind = .event
      · simp only [doCasOk, hke, ↓reduceIte]; frame_auto
      · by_cases hkr : c.kind = .retire
        · simp only [doCasOk, hkr, ↓reduceIte, reduceCtorEq]; frame_auto
        · simp only [doCasOk, hke, hkr, ↓reduceIte]; frame_auto
  | oCasFail t c e x h hw hx =>
      simp only [isFree, decide_eq_true_eq, ne_eq] at hf
      cases x with
      | list l => frame_auto
      | result =>
          by_cases hke : c.kind = .event
          · simp only [reload, failPath, hke, ↓reduceIte]; frame_auto
          · simp only [reload, failPath, hke, ↓reduceIte]; frame_auto
  | oCasSpur t c e x h hw hx =>
      simp only [isFree, decide_eq_true_eq, ne_eq] at hf
      cases x with
      | list l => frame_auto
      | result =>
          by_cases hke : c.kind = .event
          · simp only [reload, failPath, hke, ↓reduceIte]; frame_auto
          · simp only [reload, failPath, hke, ↓reduceIte]; frame_auto
  | _ => (try simp only [isFree, decide_eq_true_eq, ne_eq] at hf) <;> frame_auto

end Yaclib.WhenS
