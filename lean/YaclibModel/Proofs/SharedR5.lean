import YaclibModel.Proofs.SharedR
namespace Yaclib.Shared

set_option maxHeartbeats 4000000 in
theorem invR_step_5 {w s l s'} (h0 : Inv0 s) (ha : InvA w s) (hi : InvR s) (hs : Step s l s') (hg : grpOf l = 5) :
    InvR s' := by
  have hle := h0.le
  have hbusy := h0.busy
  cases ha
  cases hi
  cases hs with
  | oRdLoad t op rest x h ht hop hr hx =>
      have htwo := fun t' => h0.two' t' t
      invR_auto
  | oReady t x h =>
      have htwo := fun t' => h0.two' t' t
      by_cases hc : x = .result ∧ (s.obs t).todo.head? = some .readyTouch
      · simp only [doReady, readyNext_pos hc]; invR_auto
      · simp only [doReady, readyNext_neg hc]; invR_auto
  | oTouch t h =>
      have htwo := fun t' => h0.two' t' t
      invR_auto
  | oCopy t rest h ht hr =>
      have htwo := fun t' => h0.two' t' t
      invR_auto
  | oDrop t rest h ht hr =>
      have htwo := fun t' => h0.two' t' t
      invR_auto
  | _ => simp [grpOf] at hg

end Yaclib.Shared
