/- callStep / runSteps keep the books balanced. -/
import YaclibModel.Proofs.PipelineAcct2

namespace Yaclib.Pipeline
open Yaclib.Extracted

theorem wfStep_async (id : Nat) (sig : Sig) (m : Mode) (src : Src) (lazy : Bool) (steps : List Step)
    (h : wfStep (.mk id sig m (.async src lazy steps)) = true) :
    ((src == Src.unit) = true → steps ≠ []) ∧ wfSteps steps = true := by
  rw [wfStep] at h
  simp only [Bool.and_eq_true, Bool.or_eq_true, Bool.not_eq_true'] at h
  refine ⟨fun hu => ?_, h.2⟩
  cases h.1 with
  | inl h1 => rw [hu] at h1; cases h1
  | inr h1 => intro he; rw [he] at h1; simp at h1

mutual
  theorem callStep_acct (cfg : Cfg) :
      ∀ (s : Step) (k : List Step) (hd dropped : Bool) (ctx : Option Nat) (via : Option Exec) (input0 : R) (own : Exec)
        (g : G) (c f : Nat), wfStep s = true → wfSteps k = true →
      Bal g (c + (if hd then 1 else 2) + k.length) (f + 1 + k.length) →
      AcctOut c f k (callStep cfg s k hd dropped ctx via input0 own g)
    | .mk id sig mode beh, k, hd, dropped, ctx, via, input0, own, g, c, f, hs, hk, hb => by
      have hskip : ∀ (r : R) (b : Bool) (g0 : G), cnt g0 = cnt g →
          AcctOut c f k (.done r own ctx (doneAcct (stepType mode hd) b g0)) := by
        intro r b g0 hg0
        simp only [AcctOut, Bal, cnt_doneAcct, hg0]
        simp only [Bal] at hb
        cases hd <;> simp at hb ⊢ <;> omega
      rw [callStep.eq_def]
      simp only []
      cases hact : route sig (passesUnit (stepType mode hd) dropped sig) (Dispatch.isRun (stepType mode hd))
          (seenInput (stepType mode hd) dropped input0) with
      | call =>
        simp only []
        cases beh with
        | val n => exact hskip _ _ _ (by simp)
        | res r => exact hskip _ _ _ (by simp)
        | throw t => exact hskip _ _ _ (by simp)
        | async src lazy steps =>
          obtain ⟨hne, hsteps⟩ := wfStep_async _ _ _ _ _ _ hs
          simp only [Bal] at hb
          simp only []
          cases lazy with
          | false =>
            simp only [Bool.false_eq_true, ite_false]
            have hsrc := startSrc_acct cfg src ctx
              ((G.allocCore (g.invoke id ctx via) (srcCores src + steps.length)).allocFunctor (srcFunctors src + steps.length))
            cases hst : startSrc cfg src ctx
              ((G.allocCore (g.invoke id ctx via) (srcCores src + steps.length)).allocFunctor (srcFunctors src + steps.length)) with
            | go r0 inh0 c0 g3 =>
              rw [hst] at hsrc
              simp only [cnt_allocFunctor, cnt_allocCore, cnt_invoke] at hsrc
              simp only []
              apply asyncFinish_acct_eager mode hd own k ctx _ c f hk
              apply runSteps_acct cfg steps (src == .unit) false ctx r0 inh0 g3 _ _ hsteps
                (by intro hu; exact hne hu)
              simp only [Bal, hsrc]
              rw [srcCores_eq]
              cases hu : (src == Src.unit) <;> cases hd <;> simp at hb ⊢ <;> omega
            | wait w inh0 g3 =>
              rw [hst] at hsrc
              simp only [cnt_allocFunctor, cnt_allocCore, cnt_invoke] at hsrc
              obtain ⟨h1, h2, h3, h4, h5⟩ := hsrc
              simp only [AcctOut, Bal, cnt_asyncRetAcct, h1, coresT, funsT, coresFrames, funsFrames, h3, h4,
                wfThread, wfFrames, h5, hsteps, hk]
              refine ⟨?_, by simp⟩
              cases hd <;> simp at hb ⊢ <;> omega
            | crash g3 => simp [AcctOut]
          | true =>
            simp only [↓reduceIte]
            rw [enterHere_eq]
            have hsrc := startSrc_acct cfg src ctx (asyncRetAcct (stepType mode hd)
              ((G.allocCore (g.invoke id ctx via) (srcCores src + steps.length)).allocFunctor (srcFunctors src + steps.length)))
            cases hst : startSrc cfg src ctx (asyncRetAcct (stepType mode hd)
              ((G.allocCore (g.invoke id ctx via) (srcCores src + steps.length)).allocFunctor (srcFunctors src + steps.length))) with
            | go r0 inh0 c0 g3 =>
              rw [hst] at hsrc
              simp only [cnt_asyncRetAcct, cnt_allocFunctor, cnt_allocCore, cnt_invoke] at hsrc
              simp only []
              apply asyncFinish_acct_lazy _ own k ctx _ c f hk
              apply runSteps_acct cfg steps (src == .unit) true c0 r0 inh0 g3 _ _ hsteps
                (by intro hu; exact hne hu)
              simp only [Bal, hsrc]
              rw [srcCores_eq]
              cases hu : (src == Src.unit) <;> cases hd <;> simp at hb ⊢ <;> omega
            | wait w inh0 g3 =>
              rw [hst] at hsrc
              simp only [cnt_asyncRetAcct, cnt_allocFunctor, cnt_allocCore, cnt_invoke] at hsrc
              obtain ⟨h1, h2, h3, h4, h5⟩ := hsrc
              simp only [AcctOut, Bal, h1, coresT, funsT, coresFrames, funsFrames, h3, h4,
                wfThread, wfFrames, h5, hsteps, hk]
              refine ⟨?_, by simp⟩
              cases hd <;> simp at hb ⊢ <;> omega
            | crash g3 => simp [AcctOut]
      | doneException => exact hskip _ _ _ rfl
      | doneError => exact hskip _ _ _ rfl
      | doneResult => exact hskip _ _ _ rfl

  theorem runSteps_acct (cfg : Cfg) :
      ∀ (ss : List Step) (hd flow : Bool) (ctx : Option Nat) (r : R) (inh : Exec) (g : G) (c f : Nat),
      wfSteps ss = true → (hd = true → ss ≠ []) →
      Bal g (c + (if hd then 0 else 1) + ss.length) (f + ss.length) →
      AcctOut c f [] (runSteps cfg ss hd flow ctx r inh g)
    | [], hd, flow, ctx, r, inh, g, c, f, _, hne, hb => by
      cases hd with
      | true => exact ((hne rfl) rfl).elim
      | false =>
        rw [runSteps.eq_def]
        simpa [AcctOut] using hb
    | s :: ss, hd, flow, ctx, r, inh, g, c, f, hw, _, hb => by
      rw [wfSteps] at hw
      simp only [Bool.and_eq_true] at hw
      obtain ⟨hs, hss⟩ := hw
      rw [runSteps.eq_def]
      simp only []
      have tail : ∀ (o : Out), AcctOut c f ss o →
          AcctOut c f [] (match o with
            | .done r' inh' c' g' => runSteps cfg ss false flow (if flow = true then c' else ctx) r' inh' g'
            | o => o) := by
        intro o ho
        cases o with
        | done r' inh' c' g' =>
          simp only [AcctOut] at ho
          simp only []
          exact runSteps_acct cfg ss false flow _ r' inh' g' c f hss (by intro h; cases h) (by simpa using ho)
        | parked t g' => exact ho
        | crash g' => exact ho
      have hb' : ∀ g0, cnt g0 = cnt g → Bal g0 (c + (if hd = true then 1 else 2) + ss.length) (f + 1 + ss.length) := by
        intro g0 hg0
        simp only [Bal, hg0]
        simp only [Bal, List.length_cons] at hb
        cases hd <;> simp at hb ⊢ <;> omega
      by_cases hsub : Dispatch.implSubmits (stepType s.mode hd) = true
      · simp only [hsub, ite_true]
        have hc := cnt_submit cfg (Dispatch.transferExecutorTo s.mode.explicit inh) ctx g
        cases hsb : submit cfg (Dispatch.transferExecutorTo s.mode.explicit inh) ctx g with
        | callNow c0 g' =>
          rw [hsb] at hc
          exact tail _ (callStep_acct cfg s ss hd false c0 _ r _ g' c f hs hss (hb' g' hc))
        | dropNow c0 g' =>
          rw [hsb] at hc
          exact tail _ (callStep_acct cfg s ss hd true c0 _ r _ g' c f hs hss (hb' g' hc))
        | queued jid k g' =>
          rw [hsb] at hc
          simp only []
          have := hb' g' hc
          simp only [Bal] at this
          simp only [AcctOut, Bal, coresT, funsT, coresWait, funsWait, coresFrames, funsFrames, wfThread, wfWait, wfFrames,
            hs, hss]
          refine ⟨?_, by simp⟩
          cases hd <;> simp at this ⊢ <;> omega
      · simp only [hsub, Bool.false_eq_true, ite_false]
        exact tail _ (callStep_acct cfg s ss hd false ctx none r _ g c f hs hss (hb' g rfl))
end

end Yaclib.Pipeline
