/- Progress for the C01 model: a state in which no step is enabled is a state in which both threads have finished. -/
import YaclibModel.Proofs.UniqueInv2

namespace Yaclib.Unique

theorem stored_of_busy {w s} (hi : Inv w s) (hword : s.word = .result) (hbusy : s.cpc ≠ .idle) :
    s.stored = some w.prod.res := by
  rcases hi.stored_live hword with h | h
  · exact h
  · exact absurd h.1 hbusy

theorem producer_done_of_quiescent {w s} (hi : Inv w s) (hq : ∀ l s', ¬ Step s l s') : s.ppc = .done := by
  cases hp : s.ppc with
  | start => exact absurd (Step.pXchg s hp (hi.start_iff.mp hp)) (hq _ _)
  | done => rfl
  | submitted => exact absurd (Step.pInvokeSub s _ hp (hi.psub hp).2) (hq _ _)
  | evLocked => exact absurd (Step.pEvUnlock s hp) (hq _ _)
  | fire k =>
      have hf := hi.fire k hp
      cases k with
      | drop => exact absurd rfl hf.1
      | cont =>
          have hst := (hf.2.2 (by simp)).2
          cases hv : s.viaExec with
          | true => exact absurd (Step.pSubmit s hp hv) (hq _ _)
          | false => exact absurd (Step.pInvoke s _ hp hv hst) (hq _ _)
      | target => exact absurd (Step.pForward s _ hp (hf.2.2 (by simp)).2) (hq _ _)
      | event =>
          cases hh : s.evHolder with
          | none => exact absurd (Step.pEvLock s hp hh) (hq _ _)
          | some t =>
              cases t with
              | p => have := hi.holder_p hh; rw [hp] at this; cases this
              | c =>
                  obtain ⟨b, hb⟩ := hi.holder_c.mp hh
                  cases b with
                  | false => exact absurd (Step.cWaitSleep s hb) (hq _ _)
                  | true => exact absurd (Step.cWaitDone s hb) (hq _ _)

theorem consumer_done_of_quiescent {w s} (hi : Inv w s) (hq : ∀ l s', ¬ Step s l s') : s.cpc = .idle ∧ s.todo = [] := by
  have hpd := producer_done_of_quiescent hi hq
  cases hc : s.cpc with
  | idle =>
      refine ⟨rfl, ?_⟩
      cases ht : s.todo with
      | nil => rfl
      | cons op rest =>
          cases op with
          | pre o =>
              cases o with
              | ready => exact absurd (Step.cReadyLoad s rest s.word hc ht (Or.inl rfl)) (hq _ _)
              | getc => exact absurd (Step.cGetcLoad s rest s.word hc ht (Or.inl rfl)) (hq _ _)
              | wait => exact absurd (Step.cAttLoad s _ rest .event s.word hc ht rfl (Or.inl rfl)) (hq _ _)
          | fin f =>
              cases f with
              | attach b => exact absurd (Step.cAttLoad s _ rest .cont s.word hc ht rfl (Or.inl rfl)) (hq _ _)
              | drop => exact absurd (Step.cAttLoad s _ rest .drop s.word hc ht rfl (Or.inl rfl)) (hq _ _)
              | getMove => exact absurd (Step.cAttLoad s _ rest .event s.word hc ht rfl (Or.inl rfl)) (hq _ _)
              | connect => exact absurd (Step.cAttLoad s _ rest .target s.word hc ht rfl (Or.inl rfl)) (hq _ _)
  | attLoaded k =>
      by_cases hw : s.word = .empty
      · exact absurd (Step.cCasOk s k hc hw) (hq _ _)
      · exact absurd (Step.cCasFail s k hc hw) (hq _ _)
  | attFailed k =>
      have hbusy : s.cpc ≠ .idle := by rw [hc]; simp
      have hst := stored_of_busy hi (hi.c_after (Or.inl ⟨k, hc⟩)).1 hbusy
      rcases hi.c_failed_kind k hc with hk | hk <;> subst hk
      · cases hv : s.viaExec with
        | true => exact absurd (Step.cSubmit s hc hv) (hq _ _)
        | false => exact absurd (Step.cInvoke s _ hc hv hst) (hq _ _)
      · exact absurd (Step.cForward s _ hc hst) (hq _ _)
  | submitted =>
      have hbusy : s.cpc ≠ .idle := by rw [hc]; simp
      have hst := stored_of_busy hi (hi.c_after (Or.inr (Or.inl hc))).1 hbusy
      exact absurd (Step.cInvokeSub s _ hc hst) (hq _ _)
  | repReady b => exact absurd (Step.cReady s b hc) (hq _ _)
  | repGetc b => exact absurd (Step.cGetc s b hc) (hq _ _)
  | repGot =>
      have hbusy : s.cpc ≠ .idle := by rw [hc]; simp
      have hst := stored_of_busy hi (hi.c_after (Or.inr (Or.inr hc))).1 hbusy
      exact absurd (Step.cGot s _ hc hst) (hq _ _)
  | waitLocked b =>
      cases b with
      | false => exact absurd (Step.cWaitSleep s hc) (hq _ _)
      | true => exact absurd (Step.cWaitDone s hc) (hq _ _)
  | waitAttached =>
      cases hh : s.evHolder with
      | none => exact absurd (Step.cWaitLock s (Or.inl hc) hh) (hq _ _)
      | some t =>
          cases t with
          | p => have := hi.holder_p hh; rw [hpd] at this; cases this
          | c => obtain ⟨b, hb⟩ := hi.holder_c.mp hh; rw [hc] at hb; cases hb
  | waitSleeping =>
      cases hh : s.evHolder with
      | none => exact absurd (Step.cWaitLock s (Or.inr hc) hh) (hq _ _)
      | some t =>
          cases t with
          | p => have := hi.holder_p hh; rw [hpd] at this; cases this
          | c => obtain ⟨b, hb⟩ := hi.holder_c.mp hh; rw [hc] at hb; cases hb

end Yaclib.Unique
