import YaclibModel.Proofs.CoMutex
namespace Yaclib.CoMutex

set_option maxHeartbeats 1000000 in
theorem inv_step_4 {cfg s l s'} (hi : Inv cfg s) (hs : Step s l s') (hg : grpOf l = 4) : Inv cfg s' := by
  cases hi
  cases hs with
  | grant c p k d n rest h hp hr => cases d <;> inv_auto [length_pos_of_ne_nil, List.append_assoc]
  | _ => simp [grpOf] at hg

end Yaclib.CoMutex
