/- Invariants of the C13 model (Model/Coro.lean): definitions, small lemmas, initial state. -/
import YaclibModel.Model.Coro

namespace Yaclib.Coro

/-- arity of the awaiters and no awaited object twice in one awaiter (preconditions of the API: `Await(f, f)` on a unique
    future registers two callbacks on a one-callback word) -/
def Op.wf (op : Op) : Prop :=
  op.cells.Nodup ∧
  (match op.kind with
   | .single | .sticky | .on _ | .task => op.cells.length = 1
   | .resched _ | .current => op.cells = []
   | _ => True)

def Workload.WF (w : Workload) : Prop := ∀ op ∈ w.prog, op.wf

/-- my callbacks registered in the word or not yet run by the fulfiller -/
def Word.cbs : Word → List Nat
  | .open l _ => l
  | .result l => l

/-- inside an awaiter -/
def inOp : CPc → Bool
  | .idle | .fin | .done | .gone => false
  | _ => true

/-- the awaiter has decided: the coroutine is (about to be) resumed or dropped -/
def decided : CPc → Bool
  | .wake _ | .subm _ | .queued _ | .curr => true
  | _ => false

def ctxOk (k : AKind) (c : Ctx) : Bool :=
  match c, k with
  | .inl, .single | .inl, .sticky | .inl, .multi | .inl, .multiSticky => true
  | .cell _, .single | .cell _, .multi | .cell _, .task => true
  | .exec _, .sticky | .exec _, .multiSticky | .exec _, .resched none => true
  | .exec e, .on e' | .exec e, .multiOn e' | .exec e, .resched (some e') => e == e'
  | _, _ => false

def execOk (k : AKind) (e : Nat) : Bool :=
  match k with
  | .sticky | .multiSticky | .resched none => true
  | .on e' | .multiOn e' | .resched (some e') => e == e'
  | _ => false

/-- the executor a program position speaks about -/
def pcExec : CPc → Option Nat
  | .subm e | .queued e | .wake (.exec e) => some e
  | _ => none

/-- awaiters that resubmit to the coroutine's own executor -/
def ownKind : AKind → Bool
  | .sticky | .multiSticky | .resched none => true
  | _ => false

theorem ctxOk_of_execOk {k : AKind} {e : Nat} (h : execOk k e = true) : ctxOk k (.exec e) = true := by
  cases k <;> simp_all [execOk, ctxOk]
  all_goals (rename_i o; cases o <;> simp_all [execOk, ctxOk])

/-- awaiters that register callbacks through SetCallback -/
def regKind : AKind → Bool
  | .single | .sticky | .on _ | .multi | .multiSticky | .multiOn _ => true
  | _ => false

/-- awaiters that wait for awaited objects at all -/
def awaitsCells : AKind → Bool
  | .resched _ | .current => false
  | _ => true

/-- which program positions are possible for which awaiter -/
def pcKindOk (pc : CPc) (op : Op) : Bool :=
  match pc with
  | .rdy => emptyBased op.kind
  | .rdyL _ => emptyBased op.kind && decide (0 < op.cells.length)
  | .reg p | .cas p => regKind op.kind && decide (p < op.cells.length)
  | .msub | .msusp => isMulti op.kind
  | .mld | .mrd _ => (match op.kind with | .multi | .multiSticky => true | _ => false)
  | .tstore => op.kind = .task
  | .curr => op.kind = .current
  | .susp => awaitsCells op.kind
  | .subm e | .queued e => execOk op.kind e
  | .wake c => ctxOk op.kind c
  | _ => true

theorem selfDone_ok {op : Op} (h : regKind op.kind = true) : pcKindOk (selfDone op.kind) op = true := by
  cases hk : op.kind <;> simp_all [regKind, selfDone, pcKindOk, execOk, ctxOk]

theorem cbDone_ok {op : Op} (j e : Nat) (h : awaitsCells op.kind = true) : pcKindOk (cbDone op.kind j e) op = true := by
  cases hk : op.kind <;> simp_all [awaitsCells, cbDone, pcKindOk, execOk, ctxOk]

theorem subNext_ok {op : Op} (h : isMulti op.kind = true) : pcKindOk (subNext op.kind) op = true := by
  cases hk : op.kind <;> simp_all [isMulti, subNext, pcKindOk]

theorem inOp_selfDone (k : AKind) : inOp (selfDone k) = true := by cases k <;> simp [selfDone, inOp]
theorem inOp_cbDone (k : AKind) (j e : Nat) : inOp (cbDone k j e) = true := by cases k <;> simp [cbDone, inOp]
theorem inOp_subNext (k : AKind) : inOp (subNext k) = true := by cases k <;> simp [subNext, inOp]

theorem pcExec_selfDone {k : AKind} (h : ownKind k = true) : pcExec (selfDone k) = none := by
  cases k <;> simp_all [ownKind, selfDone, pcExec]

theorem pcExec_cbDone {k : AKind} {j e e' : Nat} (h : ownKind k = true) (he : pcExec (cbDone k j e) = some e') : e' = e := by
  cases k <;> simp_all [ownKind, cbDone, pcExec]

theorem pcExec_subNext (k : AKind) : pcExec (subNext k) = none := by cases k <;> simp [subNext, pcExec]

theorem regKind_of_emptyBased {k : AKind} (h : emptyBased k = true) : regKind k = true := by
  cases k <;> simp_all [emptyBased, regKind]
theorem regKind_of_isMulti {k : AKind} (h : isMulti k = true) : regKind k = true := by
  cases k <;> simp_all [isMulti, regKind]
theorem awaitsCells_of_regKind {k : AKind} (h : regKind k = true) : awaitsCells k = true := by
  cases k <;> simp_all [awaitsCells, regKind]
theorem ctxOk_inl_of_emptyBased {k : AKind} (h : emptyBased k = true) : ctxOk k .inl = true := by
  cases k <;> simp_all [emptyBased, ctxOk]
theorem ctxOk_inl_of_mld {k : AKind} (h : (match k with | .multi | .multiSticky => true | _ => false) = true) :
    ctxOk k .inl = true := by
  cases k <;> simp_all [ctxOk]
theorem isMulti_of_mld {k : AKind} (h : (match k with | .multi | .multiSticky => true | _ => false) = true) :
    isMulti k = true := by
  cases k <;> simp_all [isMulti]

theorem upd_same (f : Nat → Cell) (j : Nat) (c : Cell) : upd f j c j = c := by simp [upd]
theorem upd_other (f : Nat → Cell) (j i : Nat) (c : Cell) (h : i ≠ j) : upd f j c i = f i := by simp [upd, h]

theorem setWord_word (s : State) (j i : Nat) (wd : Word) :
    (s.setWord j wd).word i = if i = j then wd else s.word i := by
  simp only [State.setWord, State.word, upd]; split <;> simp_all

theorem count_partition (l : List CbSt) :
    l.length = l.count .todo + l.count .pending + l.count .failed + l.count .fired := by
  induction l with
  | nil => simp
  | cons x xs ih => cases x <;> simp [List.count_cons] <;> omega

theorem count_set_of_getElem? {l : List CbSt} {p : Nat} {x a b : CbSt} (h : l[p]? = some x) :
    (l.set p a).count b + (if x = b then 1 else 0) = l.count b + (if a = b then 1 else 0) := by
  have hp : p < l.length := by
    rcases Nat.lt_or_ge p l.length with h1 | h1
    · exact h1
    · rw [List.getElem?_eq_none h1] at h; cases h
  have hx : l[p] = x := by
    have := List.getElem?_eq_getElem hp; rw [this] at h; exact Option.some.inj h
  rw [List.count_set hp, hx]
  have hpos : x = b → 0 < l.count b := by
    intro hb; subst hb; exact List.count_pos_iff.mpr (hx ▸ List.getElem_mem hp)
  by_cases h1 : x = b <;> by_cases h2 : a = b <;> simp [h1, h2] <;> first | omega | (have := hpos h1; omega)

theorem mem_of_getElem? {l : List CbSt} {p : Nat} {x : CbSt} (h : l[p]? = some x) : x ∈ l :=
  List.mem_iff_getElem?.mpr ⟨p, h⟩

theorem count_eq_zero_of_not_mem {l : List CbSt} {x : CbSt} (h : x ∉ l) : l.count x = 0 := List.count_eq_zero_of_not_mem h

theorem not_mem_of_count_eq_zero {l : List CbSt} {x : CbSt} (h : l.count x = 0) : x ∉ l := by
  intro hm; have := List.count_pos_iff.mpr hm; omega

/-- the structural part: where the coroutine is in its program and in its awaiter -/
structure InvA (w : Workload) (s : State) : Prop where
  hw : s.w = w
  todo_eq : s.todo = w.prog.drop s.k ∨ (s.failed = true ∧ s.todo = [])
  k_le : s.k ≤ w.prog.length
  inop : inOp s.pc = true → s.todo ≠ []
  st_len : ∀ op rest, s.todo = op :: rest → inOp s.pc = true → s.st.length = op.cells.length
  pc_kind : ∀ op rest, s.todo = op :: rest → pcKindOk s.pc op = true
  /-- sticky awaiters and Yield submit to the executor the coroutine had when the co_await started -/
  own_exec : ∀ op rest, s.todo = op :: rest → inOp s.pc = true →
    ownKind op.kind = true →
    s.exec = s.ex0 ∧ (∀ e, pcExec s.pc = some e → e = s.ex0)

theorem invA_init (w : Workload) : InvA w (init w) := by
  constructor <;> simp [init, inOp, pcKindOk]

theorem drop_succ_of_cons {α} {l : List α} {k : Nat} {a : α} {r : List α} (h : l.drop k = a :: r) :
    l.drop (k + 1) = r ∧ k + 1 ≤ l.length := by
  have hk : k < l.length := by
    rcases Nat.lt_or_ge k l.length with h1 | h1
    · exact h1
    · rw [List.drop_eq_nil_of_le h1] at h; cases h
  refine ⟨?_, hk⟩
  have := List.drop_eq_getElem_cons hk
  rw [this] at h
  injection h with _ h2

end Yaclib.Coro

namespace Yaclib.Coro

/-- positions after the registration loop at which the awaiter still waits -/
def afterRegPc : CPc → Bool
  | .msub | .mld | .mrd _ | .msusp | .susp => true
  | _ => false

/-- positions before any SetCallback of the awaiter -/
def freshPc : CPc → Bool
  | .rdy | .rdyL _ | .tstore => true
  | _ => false

def regPos : CPc → Option Nat
  | .reg p | .cas p => some p
  | _ => none

/-- the link between the awaited words and the per-object status of the current awaiter -/
structure InvB (w : Workload) (s : State) : Prop where
  /-- callbacks of other parties only where other parties can reach the core -/
  foreign_unsafe : ∀ j l, s.word j = .open l true → w.unsafeCell j = true
  nodup : ∀ j, (s.word j).cbs.Nodup
  /-- a registered (or not yet run) callback of mine belongs to the current awaiter, which is still waiting … -/
  cbs_inop : ∀ j p, p ∈ (s.word j).cbs → inOp s.pc = true ∧ decided s.pc = false
  /-- … sits in the word of the object it was registered on, and is `pending` -/
  cbs_cell : ∀ j p op rest, p ∈ (s.word j).cbs → s.todo = op :: rest → op.cells[p]? = some j ∧ s.st[p]? = some .pending
  cbs_single : ∀ j p op rest, p ∈ (s.word j).cbs → s.todo = op :: rest → isMulti op.kind = false → s.pc = .susp
  /-- a pending callback is in the word (or about to be run): it cannot be lost -/
  pend_cbs : ∀ (op : Op) (rest : List Op) (p j : Nat), s.todo = op :: rest → inOp s.pc = true → op.cells[p]? = some j → s.st[p]? = some .pending →
    p ∈ (s.word j).cbs
  /-- SetCallback returned false / the callback was run only if the object is complete -/
  settled_res : ∀ (op : Op) (rest : List Op) (p j : Nat), s.todo = op :: rest → inOp s.pc = true → op.cells[p]? = some j →
    (s.st[p]? = some CbSt.failed ∨ s.st[p]? = some CbSt.fired) → (s.word j).isResult = true
  reg_phase : ∀ (p q : Nat) (x : CbSt), regPos s.pc = some p → s.st[q]? = some x → (x = .todo ↔ p ≤ q)
  fresh : freshPc s.pc = true → ∀ (q : Nat) (x : CbSt), s.st[q]? = some x → x = .todo
  no_todo : afterRegPc s.pc = true → ∀ (q : Nat), s.st[q]? ≠ some CbSt.todo
  no_pend : decided s.pc = true → ∀ (q : Nat), s.st[q]? ≠ some CbSt.pending
  /-- **the coroutine is resumed / submitted / dropped only when everything it awaits is complete** -/
  all_res : decided s.pc = true → ∀ op rest j, s.todo = op :: rest → j ∈ op.cells → (s.word j).isResult = true
  rdy_res : s.pc = .rdyL .result → ∀ op rest j, s.todo = op :: rest → op.cells[0]? = some j → (s.word j).isResult = true
  susp_single : s.pc = .susp → ∀ op rest, s.todo = op :: rest → isMulti op.kind = false → s.st[0]? = some .pending
  wake_cell : ∀ j, s.pc = .wake (.cell j) → ∀ op rest, s.todo = op :: rest → j ∈ op.cells

/-- the await counter -/
structure InvC (w : Workload) (s : State) : Prop where
  multi_reg : ∀ op rest, s.todo = op :: rest → isMulti op.kind = true → (regPos s.pc ≠ none ∨ s.pc = .msub) →
    s.cnt + s.st.count .fired = op.cells.length + 1
  multi_mid : ∀ op rest, s.todo = op :: rest → (s.pc = .mld ∨ s.pc = .msusp ∨ (∃ v, s.pc = .mrd v)) →
    s.cnt = 1 + s.st.count .pending
  mrd_le : ∀ v, s.pc = .mrd v → s.cnt ≤ v
  multi_susp : ∀ op rest, s.todo = op :: rest → isMulti op.kind = true → s.pc = .susp →
    s.cnt = s.st.count .pending ∧ 1 ≤ s.cnt
  on_cnt : ∀ op rest, s.todo = op :: rest → counted op.kind = true → isMulti op.kind = false → inOp s.pc = true →
    decided s.pc = false → s.cnt = 1

theorem invB_init (w : Workload) : InvB w (init w) := by
  constructor <;> simp [init, inOp, decided, State.word, initCell, Word.cbs, regPos, freshPc, afterRegPc]

theorem invC_init (w : Workload) : InvC w (init w) := by
  constructor <;> simp [init, inOp, decided, regPos]

theorem all_result_of_settled {cells : List Nat} {st : List CbSt} {word : Nat → Word}
    (hlen : st.length = cells.length) (hnt : ∀ (q : Nat), st[q]? ≠ some CbSt.todo) (hnp : ∀ (q : Nat), st[q]? ≠ some CbSt.pending)
    (hL1 : ∀ (p j : Nat), cells[p]? = some j → (st[p]? = some CbSt.failed ∨ st[p]? = some CbSt.fired) → (word j).isResult = true) :
    ∀ j ∈ cells, (word j).isResult = true := by
  intro j hj
  obtain ⟨p, hp⟩ := List.mem_iff_getElem?.mp hj
  have hpl : p < cells.length := by
    rcases Nat.lt_or_ge p cells.length with h | h
    · exact h
    · rw [List.getElem?_eq_none h] at hp; cases hp
  have hps : p < st.length := by omega
  have hx : st[p]? = some st[p] := List.getElem?_eq_getElem hps
  apply hL1 p j hp
  cases hv : st[p] with
  | todo => rw [hv] at hx; exact absurd hx (hnt p)
  | pending => rw [hv] at hx; exact absurd hx (hnp p)
  | failed => left; rw [hx, hv]
  | fired => right; rw [hx, hv]

end Yaclib.Coro

namespace Yaclib.Coro

theorem op_wf {w : Workload} {s : State} {op : Op} {rest : List Op} (hwf : w.WF) (ha : InvA w s)
    (ht : s.todo = op :: rest) : op.wf := by
  rcases ha.todo_eq with h | h
  · apply hwf
    have : op ∈ w.prog.drop s.k := by rw [← h, ht]; simp
    exact List.mem_of_mem_drop this
  · rw [h.2] at ht; cases ht

theorem wf_single {op : Op} (h : op.wf) (hk : awaitsCells op.kind = true) (hm : isMulti op.kind = false) :
    op.cells.length = 1 := by
  have := h.2
  cases hk' : op.kind <;> simp_all [awaitsCells, isMulti]

theorem wf_nocells {op : Op} (h : op.wf) (hk : awaitsCells op.kind = false) : op.cells = [] := by
  have := h.2
  cases hk' : op.kind <;> simp_all [awaitsCells]

theorem wf_inj {op : Op} (h : op.wf) {p q j : Nat} (hp : op.cells[p]? = some j) (hq : op.cells[q]? = some j) : p = q := by
  have hnd := h.1
  have hpl : p < op.cells.length := by
    rcases Nat.lt_or_ge p op.cells.length with h1 | h1
    · exact h1
    · rw [List.getElem?_eq_none h1] at hp; cases hp
  have hql : q < op.cells.length := by
    rcases Nat.lt_or_ge q op.cells.length with h1 | h1
    · exact h1
    · rw [List.getElem?_eq_none h1] at hq; cases hq
  rw [List.getElem?_eq_getElem hpl] at hp
  rw [List.getElem?_eq_getElem hql] at hq
  have h1 : op.cells[p] = op.cells[q] := by
    rw [Option.some.inj hp, Option.some.inj hq]
  exact (List.getElem_inj hnd).mp h1

end Yaclib.Coro

namespace Yaclib.Coro

theorem todo_cons_of_inop {w : Workload} {s : State} (ha : InvA w s) (h : inOp s.pc = true) :
    ∃ op rest, s.todo = op :: rest := by
  cases ht : s.todo with
  | nil => exact absurd ht (ha.inop h)
  | cons op rest => exact ⟨op, rest, rfl⟩

/-- before the first SetCallback of an awaiter none of my callbacks is registered anywhere -/
theorem no_cbs_of_fresh {w : Workload} {s : State} (ha : InvA w s) (hb : InvB w s) (hf : freshPc s.pc = true) :
    ∀ j p, p ∉ (s.word j).cbs := by
  intro j p hp
  obtain ⟨op, rest, ht⟩ := todo_cons_of_inop ha (hb.cbs_inop j p hp).1
  have h1 := (hb.cbs_cell j p op rest hp ht).2
  have h2 := hb.fresh hf _ _ h1
  cases h2

theorem no_cbs_of_decided {w : Workload} {s : State} (hb : InvB w s) (hd : decided s.pc = true) :
    ∀ j p, p ∉ (s.word j).cbs := by
  intro j p hp
  have := (hb.cbs_inop j p hp).2
  rw [hd] at this; cases this

theorem no_cbs_of_not_inop {w : Workload} {s : State} (hb : InvB w s) (hd : inOp s.pc = false) :
    ∀ j p, p ∉ (s.word j).cbs := by
  intro j p hp
  have := (hb.cbs_inop j p hp).1
  rw [hd] at this; cases this

end Yaclib.Coro

namespace Yaclib.Coro

theorem no_cbs_of_no_pending {w : Workload} {s : State} (ha : InvA w s) (hb : InvB w s)
    (hnp : ∀ (q : Nat), s.st[q]? ≠ some CbSt.pending) : ∀ j p, p ∉ (s.word j).cbs := by
  intro j p hp
  obtain ⟨op, rest, ht⟩ := todo_cons_of_inop ha (hb.cbs_inop j p hp).1
  exact hnp p (hb.cbs_cell j p op rest hp ht).2

theorem count_eq_zero_of_forall_ne {l : List CbSt} {x : CbSt} (h : ∀ (q : Nat), l[q]? ≠ some x) : l.count x = 0 := by
  apply List.count_eq_zero_of_not_mem
  intro hm
  obtain ⟨q, hq⟩ := List.mem_iff_getElem?.mp hm
  exact h q hq

theorem forall_ne_of_count_eq_zero {l : List CbSt} {x : CbSt} (h : l.count x = 0) : ∀ (q : Nat), l[q]? ≠ some x := by
  intro q hq
  exact not_mem_of_count_eq_zero h (mem_of_getElem? hq)

end Yaclib.Coro
