import YaclibModel.Proofs.CoSharedMutex
namespace Yaclib.CoSharedMutex

set_option maxHeartbeats 4000000 in
theorem inv_step_6 {cfg s l s'} (hi : Inv cfg s) (hs : Step s l s') (hg : grpOf l = 6) : Inv cfg s' := by
  cases hi
  cases hs with
  | twCasOk c h hW hR => sm_dbg [List.count_le_length]
  | twCasFail c h hne => by_cases ht' : curOp s c = .tryWr <;> simp only [failW, ht', ↓reduceIte] <;> sm_dbg [List.count_le_length]
  | wrFadd c h hs =>
      by_cases hW : s.W = 0
      · by_cases hR : s.R = 0
        · simp only [doWrFadd, hW, hR, ↓reduceIte]; sm_dbg [List.count_le_length]
        · simp only [doWrFadd, hW, hR, ↓reduceIte]; sm_dbg [List.count_le_length]
      · simp only [doWrFadd, hW, ↓reduceIte]; sm_dbg [List.count_le_length]
  | _ => simp [grpOf] at hg

end Yaclib.CoSharedMutex
