/- C08 ↔ C14: a FairThreadPool that nobody stops never Drops.

   `CoMutex.NeverDrops E` (Proofs/CoMutexExec.lean) quantifies over *all* states of `E`, reachable or not.  For
   `poolExec n none spur` that statement is false: the step relation of the pool model does not depend on the `stop`
   parameter (only `init` does), so from an *unreachable* state in which, say, the stopper sits in HardStop's Drop loop a
   drop step exists.  What is true — and proved here — is
     * `unstopped_no_drop`: in every *reachable* state of `poolExec n none spur` no drop step is enabled (the stop bits
       are never set, so no Submit rejects, and there is no stopper, so HardStop's loop never runs);
     * hence the executor `poolExecAlive n spur` = the same system with the (unreachable) drop steps removed from the step
       relation has exactly the same reachable states and steps (`alive_reach_iff`, `alive_step_iff`), honours the
       contract (`alive_contract`) and satisfies `NeverDrops` literally (`alive_never_drops`).
   `poolExecAlive` is therefore the unstopped pool in the form the C14 composition theorem needs. -/
import YaclibModel.Proofs.PoolExecContract

namespace Yaclib.Pool
open Yaclib.Strand (Exec XEv Prot Phase specPre specPost protInit ExecContract upd)

/-- nobody stops the pool ⇒ in every reachable state no Drop can happen -/
theorem unstopped_no_drop {n : Nat} {spur : Bool} {x : (poolExec n none spur).σ} (hr : (poolExec n none spur).Reach x)
    {l : PLab} {x' : PX} (hs : PStep spur x l x') (a : Nat) : pEv l ≠ some (.drop a) := by
  have hi := pxinv_reach hr
  cases hs with
  | ret hm => simp [pEv]
  | @m l m' N hst hbo hsp =>
      have hrp := reachable_pad hi.reach N
      have ha := invA_reachable hrp
      have hk : (pad x.m N).kind = none := by rw [ha.kind_eq]; rfl
      obtain ⟨hx, hc, _⟩ := ha.x_none hk
      cases l with
      | drop t j =>
          exfalso
          have hop := out_pre hst
          rcases hop.2.2.2.1 t j rfl with ht | ⟨i, ht⟩
          · subst ht
            obtain ⟨rest, hd⟩ := hop.2.1 j rfl
            rw [hx] at hd; cases hd
          · subst ht
            obtain ⟨sb, h1, h2, _⟩ := hop.2.2.1 i j rfl
            have := ha.dropping_was sb (List.mem_of_getElem? h1) h2
            omega
      | _ => simp [pEv]

/-- the unstopped pool with the (unreachable) drop steps removed from its step relation -/
def poolExecAlive (n : Nat) (spur : Bool) : Exec :=
  { σ := PX, Lab := PLab, init := (poolExec n none spur).init,
    step := fun x l x' => PStep spur x l x' ∧ ∀ a, pEv l ≠ some (.drop a), ev := pEv }

/-- it never Drops, in the literal sense of `CoMutex.NeverDrops` (stated here without importing the mutex files) -/
theorem alive_never_drops (n : Nat) (spur : Bool) :
    ∀ (x : (poolExecAlive n spur).σ) (l : (poolExecAlive n spur).Lab) (x' : (poolExecAlive n spur).σ) (a : Nat),
      (poolExecAlive n spur).step x l x' → (poolExecAlive n spur).ev l ≠ some (.drop a) :=
  fun _ _ _ a hs => hs.2 a

theorem alive_reach_full {n spur} {x : (poolExecAlive n spur).σ} (h : (poolExecAlive n spur).Reach x) :
    (poolExec n none spur).Reach (show PX from x) := by
  induction h with
  | init => exact .init
  | step _ hs ih => exact .step ih hs.1

/-- on reachable states the two systems have the same steps … -/
theorem alive_step_iff {n spur} {x : PX} (h : (poolExec n none spur).Reach x) (l : PLab) (x' : PX) :
    (poolExecAlive n spur).step x l x' ↔ (poolExec n none spur).step x l x' :=
  ⟨fun hs => hs.1, fun hs => ⟨hs, unstopped_no_drop h hs⟩⟩

/-- … hence the same reachable states: `poolExecAlive n spur` *is* the pool that nobody stops -/
theorem full_reach_alive {n spur} {x : (poolExec n none spur).σ} (h : (poolExec n none spur).Reach x) :
    (poolExecAlive n spur).Reach (show PX from x) := by
  induction h with
  | init => exact .init
  | step hr hs ih => exact .step ih ((alive_step_iff hr _ _).mpr hs)

theorem alive_reach_iff {n spur} {x : PX} : (poolExecAlive n spur).Reach x ↔ (poolExec n none spur).Reach x :=
  ⟨alive_reach_full, full_reach_alive⟩

theorem alive_run_full {n spur} {x : (poolExecAlive n spur).σ} {p : Prot} (h : (poolExecAlive n spur).Run x p) :
    (poolExec n none spur).Run (show PX from x) p := by
  induction h with
  | init => exact .init
  | tau _ hs he ih => exact .tau ih hs.1 he
  | inp _ hs he hi hp ih => exact .inp ih hs.1 he hi hp
  | out _ hs he ho ih => exact .out ih hs.1 he ho

/-- the unstopped pool honours the contract -/
theorem alive_contract {n : Nat} (hn : 0 < n) (spur : Bool) : ExecContract (poolExecAlive n spur) := by
  have hc := pool_contract hn none spur
  refine ⟨?_, ?_, ?_, ?_⟩
  · intro x p l x' e hr hs he ho
    exact hc.safe (alive_run_full hr) hs.1 he ho
  · intro x p a hr hp
    obtain ⟨l, x', hs, he⟩ := hc.accepts_sub a (alive_run_full hr) hp
    exact ⟨l, x', ⟨hs, fun b hb => by
      have : pEv l = some (.sub a) := he
      rw [this] at hb; cases hb⟩, he⟩
  · intro x p a hr hp
    obtain ⟨l, x', hs, he⟩ := hc.accepts_ret a (alive_run_full hr) hp
    exact ⟨l, x', ⟨hs, fun b hb => by
      have : pEv l = some (.ret a) := he
      rw [this] at hb; cases hb⟩, he⟩
  · intro x p hr hq hnc
    have hrf := alive_run_full hr
    apply hc.progress hrf ?_ hnc
    intro l x' hs
    exact hq l x' ((alive_step_iff hrf.reach l x').mpr hs)

end Yaclib.Pool
