import YaclibModel.Proofs.CoMutex
namespace Yaclib.CoMutex

set_option maxHeartbeats 1000000 in
theorem inv_step_2 {cfg s l s'} (hi : Inv cfg s) (hs : Step s l s') (hg : grpOf l = 2) : Inv cfg s' := by
  cases hi
  cases hs with
  | enter c h => inv_auto
  | exit c h => inv_auto
  | resubmit c k h => inv_auto [length_pos_of_ne_nil]
  | _ => simp [grpOf] at hg

end Yaclib.CoMutex
