import YaclibModel.Proofs.CoSharedMutex
namespace Yaclib.CoSharedMutex

set_option maxHeartbeats 4000000 in
theorem inv_wuFsub {cfg : Cfg} {s : State} (hi : Inv cfg s) (c : Cid) (h : s.pc c = .uLocked) (hs : s.spin = .held c) :
    Inv cfg ((doWuFsub s c)) := by
  cases hi
  by_cases hb1 : (s.cfg.fifo = true ∧ s.prio ≠ 0)
  · simp only [doWuFsub, branchOf, hb1, and_self, givesUp, Bool.false_eq_true, ↓reduceIte]; sm_auto [List.count_le_length]
  · by_cases hq : s.Q = []
    · by_cases hb2 : (¬ s.cfg.fifo = true ∧ s.W ≠ 1)
      · simp only [doWuFsub, branchOf, hb1, hq, hb2, ne_eq, not_true_eq_false, and_self, givesUp, Bool.false_eq_true, ↓reduceIte]; sm_auto [List.count_le_length]
      · simp only [doWuFsub, branchOf, hb1, hq, hb2, ne_eq, not_true_eq_false, givesUp, Bool.false_eq_true, ↓reduceIte]; sm_auto [List.count_le_length]
    · by_cases hw1 : s.W = 1
      · simp only [doWuFsub, branchOf, hb1, hq, hw1, ne_eq, not_true_eq_false, not_false_eq_true, givesUp, Bool.false_eq_true, ↓reduceIte]; sm_auto [List.count_le_length]
      · simp only [doWuFsub, branchOf, hb1, hq, hw1, ne_eq, not_false_eq_true, givesUp, Bool.false_eq_true, ↓reduceIte]; sm_auto [List.count_le_length]

end Yaclib.CoSharedMutex
