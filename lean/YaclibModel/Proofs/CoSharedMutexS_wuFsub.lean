import YaclibModel.Proofs.CoSharedMutexS_wuFsub_1
import YaclibModel.Proofs.CoSharedMutexS_wuFsub_2
import YaclibModel.Proofs.CoSharedMutexS_wuFsub_3
import YaclibModel.Proofs.CoSharedMutexS_wuFsub_4
import YaclibModel.Proofs.CoSharedMutexS_wuFsub_5
namespace Yaclib.CoSharedMutex

theorem inv_wuFsub {cfg : Cfg} {s : State} (hi : Inv cfg s) (c : Cid) (h : s.pc c = .uLocked) (hs : s.spin = .held c) :
    Inv cfg ((doWuFsub s c)) := by
  by_cases hb1 : (s.cfg.fifo = true ∧ s.prio ≠ 0)
  · exact inv_wuFsub_1 hi c h hs hb1
  · by_cases hq : s.Q = []
    · by_cases hb2 : (¬ s.cfg.fifo = true ∧ s.W ≠ 1)
      · exact inv_wuFsub_2 hi c h hs hb1 hq hb2
      · exact inv_wuFsub_3 hi c h hs hb1 hq hb2
    · by_cases hw1 : s.W = 1
      · exact inv_wuFsub_4 hi c h hs hb1 hq hw1
      · exact inv_wuFsub_5 hi c h hs hb1 hq hw1

end Yaclib.CoSharedMutex
