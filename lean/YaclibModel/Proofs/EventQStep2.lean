/- C16: preservation of the invariants of part 4 — the steps of `SetImpl` -/
import YaclibModel.Proofs.EventQStep1

namespace Yaclib.Event
variable {s s' : State} {l : Label} {w : Workload}

attribute [local grind =] Pc.setter Pc.releasing Pc.owner Pc.bphase JSt.inList List.nodup_cons Pc.runList
attribute [local grind →] Pc.bphase_owner

/-- `SetImpl` has finished with the job in hand: the jobs still running are the rest of its list -/
theorem q_running_next (hq : InvQ s) {t j : Nat} {rest : List Nat} (hz : s.zeroer = some t)
    (hlist : (s.thr t).pc.runList = j :: rest) {job' : Nat → Job} {x : Thr}
    (hj : (job' j).st ≠ .running) (hoth : ∀ k, k ≠ j → (job' k).st = (s.job k).st) (hx : x.pc.runList = rest) :
    ∀ j', (job' j').st = .running →
      s.zeroer ≠ none ∧ ∀ tz, s.zeroer = some tz → j' ∈ (updT s.thr t x tz).pc.runList := by
  intro j' hst
  have hne : j' ≠ j := fun h => by subst h; exact hj hst
  rw [hoth j' hne] at hst
  have hr := hq.q_running j' hst
  refine ⟨hr.1, ?_⟩
  intro tz htz
  have : tz = t := by rw [hz] at htz; cases htz; rfl
  subst this
  have h2 := hr.2 tz hz
  rw [hlist] at h2
  simp only [updT_same, hx]
  rcases List.mem_cons.mp h2 with h2 | h2
  · exact absurd h2 hne
  · exact h2

set_option maxHeartbeats 4000000 in
theorem invQ_tXchgHead (hz : InvZ s) (ht : InvT s) (hi : InvJ s) (hq : InvQ s) (t : Nat) (h : (s.thr t).pc = .xchgHead) :
    InvQ (doXchgHead s t) := by
  have hnotz : 1 ≤ s.count → s.zeroed = false := ht.not_zeroed
  have hx := ht.t_xh t h
  have hz' := hq.q_xh t (by simp [h, Pc.setter])
  simp only [doXchgHead, runNext, goto, finish, setT]
  repeat' split
  all_goals (constructor <;> q_solve3 hz ht hi hq)


set_option maxHeartbeats 4000000 in
theorem invQ_tRunLock (hz : InvZ s) (ht : InvT s) (hi : InvJ s) (hq : InvQ s) (t j : Nat) (rest : List Nat) (h : (s.thr t).pc = .run (j :: rest) false) (hk : (s.job j).kind ≠ .coro) :
    InvQ (doRunLock s t j rest) := by
  have hnotz : 1 ≤ s.count → s.zeroed = false := ht.not_zeroed
  have hl := hi.l_run t _ _ h
  have hz' := hq.q_xh t (by simp [h, Pc.setter])
  simp only [doRunLock, touch, goto, setT]
  constructor <;> q_solve3 hz ht hi hq


set_option maxHeartbeats 4000000 in
theorem invQ_tRunUnlock (hz : InvZ s) (ht : InvT s) (hi : InvJ s) (hq : InvQ s) (t j : Nat) (rest : List Nat) (h : (s.thr t).pc = .run (j :: rest) true) :
    InvQ (doRunUnlock s t j rest) := by
  have hnotz : 1 ≤ s.count → s.zeroed = false := ht.not_zeroed
  have hl := hi.l_run t _ _ h
  have hk := hi.l_runk t j rest h
  have hz' := hq.q_xh t (by simp [h, Pc.setter])
  have hr := hq.q_locked t j rest h
  simp only [doRunUnlock, touch, runNext, goto, finish, setT]
  repeat' split
  all_goals constructor
  case h_2.q_running =>
    apply q_running_next hq (j := j) hz'
    · rw [h]; rfl
    · simp [updJ_same]
    · intro k hk; simp [updJ_other _ _ _ _ hk]
    · rfl
  all_goals q_solve3 hz ht hi hq


set_option maxHeartbeats 4000000 in
theorem invQ_tRunDec (hz : InvZ s) (ht : InvT s) (hi : InvJ s) (hq : InvQ s) (t j : Nat) (rest : List Nat) (h : (s.thr t).pc = .runDec j rest) :
    InvQ (doRunDec s t j rest) := by
  have hnotz : 1 ≤ s.count → s.zeroed = false := ht.not_zeroed
  have hl := hi.l_dec t j rest h
  have hz' := hq.q_xh t (by simp [h, Pc.setter])
  have hr := hq.q_lockedD t j rest h
  simp only [doRunDec, decJob, touch, runNext, goto, finish, setT]
  repeat' split
  all_goals constructor
  case h_2.isTrue.q_running =>
    apply q_running_next hq (j := j) hz'
    · rw [h]; rfl
    · simp [updJ_same]
    · intro k hk; simp [updJ_other _ _ _ _ hk]
    · rfl
  case h_2.isFalse.q_running =>
    apply q_running_next hq (j := j) hz'
    · rw [h]; rfl
    · simp [updJ_same]
    · intro k hk; simp [updJ_other _ _ _ _ hk]
    · rfl
  all_goals q_solve3 hz ht hi hq


set_option maxHeartbeats 4000000 in
theorem invQ_tRunRel (hz : InvZ s) (ht : InvT s) (hi : InvJ s) (hq : InvQ s) (t j : Nat) (rest : List Nat) (h : (s.thr t).pc = .run (j :: rest) false) (hk : (s.job j).kind = .coro) :
    InvQ (doRunRel s t j rest) := by
  have hnotz : 1 ≤ s.count → s.zeroed = false := ht.not_zeroed
  have hl := hi.l_run t _ _ h
  have hz' := hq.q_xh t (by simp [h, Pc.setter])
  simp only [doRunRel, touch, runNext, goto, finish, setT]
  repeat' split
  all_goals constructor
  case h_2.q_running =>
    apply q_running_next hq (j := j) hz'
    · rw [h]; rfl
    · simp [updJ_same]
    · intro k hk; simp [updJ_other _ _ _ _ hk]
    · rfl
  all_goals q_solve3 hz ht hi hq


end Yaclib.Event
