/- preservation of InvD: start, tstore, submit, Drop, and the resumption itself -/
import YaclibModel.Proofs.CoroD1
namespace Yaclib.Coro

theorem allDone_of_all_res {s : State} {op : Op} (h : ∀ j, j ∈ op.cells → (s.word j).isResult = true) :
    allDoneOf s op = true := by
  simp only [allDoneOf, List.all_eq_true]; exact h

theorem got_eq_want {w : Workload} {s : State} {op : Op} (hw : s.w = w)
    (h : ∀ j, j ∈ op.cells → (s.word j).isResult = true) : gotOf s op = wantOf w op := by
  simp only [gotOf, wantOf]
  cases hg : op.get
  · simp
  · cases hc : op.cells with
    | nil => simp
    | cons j t =>
        have := h j (by rw [hc]; simp)
        simp [State.stored, this, hw]

theorem escaped_eq {w : Workload} {s : State} {r : Rec} {op : Op} (hw : s.w = w) (hr : r.got = gotOf s op) :
    Rec.escaped w r = escapes s op := by
  simp only [Rec.escaped, escapes, hr, hw]
  rfl

theorem ctxOk_own_not_cell {k : AKind} {j : Nat} (h : ownKind k = true) : ctxOk k (.cell j) = false := by
  cases k <;> simp_all [ownKind, ctxOk]

theorem ctxOk_own_cases {k : AKind} {c : Ctx} (h : ownKind k = true) (hc : ctxOk k c = true) :
    c = .inl ∨ ∃ e, c = .exec e := by
  cases c with
  | inl => left; rfl
  | exec e => right; exact ⟨e, rfl⟩
  | cell j => rw [ctxOk_own_not_cell h] at hc; cases hc

set_option maxHeartbeats 16000000 in
theorem invD_step_2 {w s l s'} (hwf : w.WF) (hi : Inv w s) (hd : InvD w s) (hs : Step s l s')
    (hl : match l with | .start | .tstore | .submit _ | .exDrop | .current _ => True | _ => False) : InvD w s' := by
  have ha := hi.a
  cases hs with
  | start op rest h ht =>
      cases hd
      cases hk : op.kind <;> (try (rename_i o; cases o)) <;>
        (simp only [doStart, regFrom, afterReg, hk, isMulti, startExec, startCnt, selfDone]) <;>
        (repeat' split) <;>
        (constructor <;> grind [inOp, outcome, finalRes, startExec])
  | tstore op rest j h ht hj =>
      have hpk := ha.pc_kind op rest ht
      rw [h] at hpk
      have hk : op.kind = .task := by simpa [pcKindOk] using hpk
      cases hd
      simp only [doTstore]
      constructor <;> grind [inOp, outcome, finalRes]
  | submit e h =>
      have hpk := ha.pc_kind
      have hsub : ∀ op, w.prog[s.k]? = some op → execOk op.kind e = true := by
        intro op hop
        obtain ⟨op', rest, ht⟩ := todo_cons_of_inop ha (by rw [h]; rfl)
        have h1 := prog_at_k ha ht
        rw [h1] at hop
        have hoo : op' = op := Option.some.inj hop
        subst hoo
        have := hpk op' rest ht
        rw [h] at this; simpa [pcKindOk] using this
      cases hd
      simp only [doSubmit]
      constructor <;> grind [inOp, outcome, finalRes]
  | exDrop e h =>
      have hk := k_lt_of_inop ha (show inOp s.pc = true by rw [h]; rfl)
      cases hd
      simp only [doDrop]
      constructor <;> grind [inOp, outcome, finalRes]
  | current op rest h ht =>
      have hop := prog_at_k ha ht
      have hpk := ha.pc_kind op rest ht
      rw [h] at hpk
      have hk : op.kind = .current := by simpa [pcKindOk] using hpk
      have hcells := wf_nocells (op_wf hwf ha ht) (by rw [hk]; rfl)
      have hwant : wantOf w op = none := by simp [wantOf, hcells]
      have hex := hd.exec_op op rest ht (by rw [h]; rfl) (by rw [hk]; simp)
      have hdrop : w.prog.drop s.k = op :: rest := by
        rcases ha.todo_eq with h1 | h1
        · rw [ht] at h1; exact h1.symm
        · rw [h1.2] at ht; cases ht
      have hkk := (drop_succ_of_cons hdrop).2
      cases hd
      simp only [doCurrent]
      constructor <;>
        grind [inOp, outcome, finalRes, List.range_succ, Rec.escaped, ownKind, startExec]
  | _ => simp at hl

end Yaclib.Coro
