import YaclibModel.Proofs.CoSharedMutex
namespace Yaclib.CoSharedMutex

set_option maxHeartbeats 4000000 in
theorem inv_spinBusy_3 {cfg : Cfg} {s : State} (hi : Inv cfg s) (c : Cid) (k : SpinK) (h : s.pc c = .spinning k false) (hf : s.spin ≠ .free) (hk : k = .un) :
    Inv cfg ({ s with pc := upd s.pc c (.spinning k true) }) := by
  subst hk
  cases hi
  sm_auto [List.count_le_length]

end Yaclib.CoSharedMutex
