import YaclibModel.Proofs.CoSharedMutexS_rdFadd_1
import YaclibModel.Proofs.CoSharedMutexS_rdFadd_2
namespace Yaclib.CoSharedMutex

theorem inv_rdFadd {cfg : Cfg} {s : State} (hi : Inv cfg s) (c : Cid) (h : s.pc c = .idle) (ht : s.todo c ≠ []) (ho : curOp s c = .rd) :
    Inv cfg ((doRdFadd s c)) := by
  by_cases hW : s.W = 0
  · exact inv_rdFadd_1 hi c h ht ho hW
  · exact inv_rdFadd_2 hi c h ht ho hW

end Yaclib.CoSharedMutex
