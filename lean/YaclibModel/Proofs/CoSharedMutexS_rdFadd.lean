import YaclibModel.Proofs.CoSharedMutex
namespace Yaclib.CoSharedMutex

set_option maxHeartbeats 4000000 in
theorem inv_rdFadd {cfg : Cfg} {s : State} (hi : Inv cfg s) (c : Cid) (h : s.pc c = .idle) (ht : s.todo c ≠ []) (ho : curOp s c = .rd) :
    Inv cfg ((doRdFadd s c)) := by
  cases hi
  by_cases hW : s.W = 0
  · simp only [doRdFadd, hW, ↓reduceIte]; sm_auto [List.count_le_length]
  · simp only [doRdFadd, hW, ↓reduceIte]; sm_auto [List.count_le_length]

end Yaclib.CoSharedMutex
