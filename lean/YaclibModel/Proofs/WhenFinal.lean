/- What holds when the strategy destructor runs (the last consumption dropped its reference): nobody was elected, hence
   (FirstFail) nothing failed / (Any<FirstFail>) a failure was saved / (Any<None>, Any<LastFail>) impossible. -/
import YaclibModel.Proofs.WhenOut

namespace Yaclib.When

theorem winFree_of {w s} (hC : InvC w s) (hR : InvR w s)
    (hF : w.strat.usesFlag = true → InvF w s) (hG : w.strat = .anyFF → InvG w s) (hL : w.strat = .anyLF → InvL w s) :
    WinFree w s := by
  refine ⟨?_, ?_, ?_⟩
  · intro hu hf
    have := (hF hu).flag_win
    cases hw : s.win with
    | none => rfl
    | some k => have h2 := this.mpr (by rw [hw]; simp); rw [hf] at h2; cases h2
  · intro hg h3
    cases hw : s.win with
    | none => rfl
    | some k => exact absurd ((hG hg).s3_val.mpr (by rw [hw]; simp)) h3
  · intro hl i hp he
    have hI := hL hl
    have hi' : i < w.n := hC.idx (by rw [hp]; simp)
    have hnd : s.rmwDone i = false := by
      cases h : s.rmwDone i with
      | false => rfl
      | true => have := hR.done_past i h; rw [hp] at this; simp [past] at this
    have hclt := cnt_lt_of_false (p := s.rmwDone) hi' hnd
    have h1 := (hI.lf_even he).1
    have h2 := (hI.lf_win0 he).1
    cases hw : s.win with
    | none => rfl
    | some k =>
        have : s.lf = 0 := h2.mp (by rw [hw]; simp)
        omega

variable {w : Workload} {s : State}

/-- A: while the destructor runs with the promise still valid, nobody has been elected -/
theorem win_none_in_dtor (hC : InvC w s) (hR : InvR w s) (hO : InvO w s) {i : Nat}
    (hd : inDtor (s.pc i) = true) (hv : s.pValid = true) : s.win = none := by
  cases hw : s.win with
  | none => rfl
  | some k =>
      have hk1 := hR.done_past k (hR.win_done k hw)
      have hk : k < w.n := hC.idx (by intro h; rw [h] at hk1; simp [past] at hk1)
      rcases hO.win_set k hw with h | h
      · by_cases hki : k = i
        · subst hki; cases hp : s.pc k <;> simp_all [inDtor, isSetOut]
        · have := hC.dtor i k hd hk hki; rw [this] at h; simp [isSetOut] at h
      · rw [hv] at h; cases h

/-- every input is past its decision while the destructor runs -/
theorem past_in_dtor (hC : InvC w s) {i j : Nat} (hd : inDtor (s.pc i) = true) (hj : j < w.n) : past (s.pc j) = true := by
  by_cases hji : j = i
  · subst hji; cases hp : s.pc j <;> simp_all [inDtor, past]
  · rw [hC.dtor i j hd hj hji]; rfl

/-- B: FirstFail (All / AllTuple / Join): destructor + valid promise ⇒ no input failed -/
theorem all_ok_in_dtor (hC : InvC w s) (hR : InvR w s) (hO : InvO w s) (hF : InvF w s)
    {i : Nat} (hd : inDtor (s.pc i) = true) (hv : s.pValid = true) : ∀ j, j < w.n → ok (w.inp j) = true := by
  intro j hj
  cases hok : ok (w.inp j) with
  | true => rfl
  | false =>
      have hfl := hF.flag_past j (past_in_dtor hC hd hj) (Or.inl hok)
      have hw := hF.flag_win.mp hfl
      exact absurd (win_none_in_dtor hC hR hO hd hv) hw

/-- C: Any<FirstFail>: when the destructor publishes, the saved failure is that of the first RMW on the word -/
theorem saved_in_dtor (hC : InvC w s) (hR : InvR w s) (hO : InvO w s) (hG : InvG w s) {i : Nat}
    (hp : s.pc i = .dtorSet) : s.win = none ∧ ∃ e, s.errBy = some e ∧ s.saved = some (w.inp e) := by
  have hd : inDtor (s.pc i) = true := by rw [hp]; rfl
  have hv := hO.dtorset i hp
  have hw := win_none_in_dtor hC hR hO hd hv
  refine ⟨hw, ?_⟩
  have h1 : s.st3 ≠ .value := fun h => (hG.s3_val.mp h) hw
  have h2 : s.st3 ≠ .empty := hG.s3_past i (by rw [hp]; rfl)
  have h3 : s.st3 = .error := by cases h : s.st3 <;> simp_all
  cases he : s.errBy with
  | none => exact absurd he (hG.s3_err2 h3)
  | some e =>
      refine ⟨e, rfl, ?_⟩
      have hE := hG.s3_err e he
      rcases hE.2.2 with h | h
      · exfalso
        have hk1 := hR.done_past e (hR.err_done e he)
        have hk : e < w.n := hC.idx (by intro h'; rw [h'] at hk1; simp [past] at hk1)
        by_cases hei : e = i
        · subst hei; rw [hp] at h; cases h
        · rw [hC.dtor i e hd hk hei] at h; cases h
      · exact h

theorem cnt_all_true {p : Nat → Bool} {k : Nat} (h : ∀ i, i < k → p i = true) : cnt p k = k := by
  induction k with
  | zero => rfl
  | succ k ih => simp only [cnt]; rw [ih (fun i hi => h i (by omega)), h k (by omega)]; simp

/-- D: Any<None> / Any<LastFail> never reach `~Promise` with a valid promise -/
theorem no_dtorSet_anyNone (hC : InvC w s) (hR : InvR w s) (hO : InvO w s) (hF : InvF w s) (hs : w.strat = .anyNone)
    (i : Nat) : s.pc i ≠ .dtorSet := by
  intro hp
  have hd : inDtor (s.pc i) = true := by rw [hp]; rfl
  have hw := win_none_in_dtor hC hR hO hd (hO.dtorset i hp)
  have hfl := hF.flag_past i (by rw [hp]; rfl) (Or.inr hs)
  exact absurd hw (hF.flag_win.mp hfl)

theorem no_dtorSet_anyLF (hC : InvC w s) (hR : InvR w s) (hO : InvO w s) (hL : InvL w s) (i : Nat) : s.pc i ≠ .dtorSet := by
  intro hp
  have hd : inDtor (s.pc i) = true := by rw [hp]; rfl
  have hw := win_none_in_dtor hC hR hO hd (hO.dtorset i hp)
  have hi' : i < w.n := hC.idx (by rw [hp]; simp)
  by_cases he : s.lf % 2 = 0
  · have hall : ∀ j, j < w.n → s.rmwDone j = true := by
      intro j hj
      rcases hL.lf_past j (past_in_dtor hC hd hj) with h | h
      · exact h
      · omega
    have hc := cnt_all_true hall
    have h1 := (hL.lf_even he).1
    have h2 := (hL.lf_win0 he).1
    rw [hc] at h1
    have : s.lf = 0 := by omega
    exact absurd hw (h2.mpr this)
  · exact absurd hw (hL.lf_odd (by omega)).1

end Yaclib.When
