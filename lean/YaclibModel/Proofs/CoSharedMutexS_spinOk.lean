import YaclibModel.Proofs.CoSharedMutexS_spinOk_1
import YaclibModel.Proofs.CoSharedMutexS_spinOk_2
import YaclibModel.Proofs.CoSharedMutexS_spinOk_3
namespace Yaclib.CoSharedMutex

theorem inv_spinOk {cfg : Cfg} {s : State} (hi : Inv cfg s) (c : Cid) (k : SpinK) (h : s.pc c = .spinning k false) (hf : s.spin = .free) :
    Inv cfg ((doSpinOk s c k)) := by
  have hkd : k = .rd ∨ k = .wr ∨ k = .un := by cases k <;> simp
  rcases hkd with hk | hk | hk
  · exact inv_spinOk_1 hi c k h hf hk
  · exact inv_spinOk_2 hi c k h hf hk
  · exact inv_spinOk_3 hi c k h hf hk

end Yaclib.CoSharedMutex
