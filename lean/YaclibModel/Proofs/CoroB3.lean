/- preservation of InvB: the await_ready decisions -/
import YaclibModel.Proofs.Coro
namespace Yaclib.Coro

theorem mem_single {l : List Nat} {j j' : Nat} (hl : l.length = 1) (h0 : l[0]? = some j) (hm : j' ∈ l) : j' = j := by
  match l, hl with
  | [a], _ => simp at h0 hm; rw [hm, h0]

theorem emptyBased_single {k : AKind} (h : emptyBased k = true) : awaitsCells k = true ∧ isMulti k = false := by
  cases k <;> simp_all [emptyBased, awaitsCells, isMulti]

set_option maxHeartbeats 16000000 in
theorem invB_step_ready {w s l s'} (hwf : w.WF) (ha : InvA w s) (hb : InvB w s) (hc : InvC w s) (hs : Step s l s')
    (hl : match l with | .ready _ => True | _ => False) : InvB w s' := by
  cases hs with
  | ready x h =>
      cases hbv : awaitReady x
      · -- not ready: SetCallback next
        simp only [doReady, Bool.false_eq_true, ↓reduceIte]
        have hf := hb.fresh (by rw [h]; rfl)
        cases hb
        constructor <;> (try simp only [State.word] at *) <;>
          grind [inOp, decided, regPos, freshPc, afterRegPc]
      · -- ready: the word was `result` when it was loaded, and stays so
        have hx := awaitReady_true hbv
        subst hx
        simp only [doReady, ↓reduceIte]
        have hf := hb.fresh (by rw [h]; rfl)
        have hno := no_cbs_of_fresh ha hb (by rw [h]; rfl)
        have hres := hb.rdy_res h
        have hall : ∀ op rest j, s.todo = op :: rest → j ∈ op.cells → (s.word j).isResult = true := by
          intro op rest j ht hj
          have hpk := ha.pc_kind op rest ht
          rw [h] at hpk
          simp only [pcKindOk, Bool.and_eq_true, decide_eq_true_eq] at hpk
          have hes := emptyBased_single hpk.1
          have hlen := wf_single (op_wf hwf ha ht) hes.1 hes.2
          have h0 : ∃ j0, op.cells[0]? = some j0 := by
            match hc : op.cells, hlen with
            | [a], _ => exact ⟨a, rfl⟩
          obtain ⟨j0, hj0⟩ := h0
          rw [mem_single hlen hj0 hj]
          exact hres op rest j0 ht hj0
        cases hb
        constructor <;> (try simp only [State.word] at *) <;>
          grind [inOp, decided, regPos, freshPc, afterRegPc]
  | mready v h =>
      cases hbv : decide (v = 1)
      · simp only [doMReady, Bool.false_eq_true, ↓reduceIte]
        cases hb
        constructor <;> (try simp only [State.word] at *) <;>
          grind [inOp, decided, regPos, freshPc, afterRegPc]
      · have hv : v = 1 := by simpa using hbv
        subst hv
        simp only [doMReady, ↓reduceIte]
        have hnt := hb.no_todo (by rw [h]; rfl)
        have hle := hc.mrd_le 1 h
        have hnp : ∀ (q : Nat), s.st[q]? ≠ some CbSt.pending := by
          cases ht : s.todo with
          | nil => exact absurd ht (ha.inop (by rw [h]; rfl))
          | cons op rest =>
              have := hc.multi_mid op rest ht (Or.inr (Or.inr ⟨1, h⟩))
              exact forall_ne_of_count_eq_zero (by omega)
        have hno := no_cbs_of_no_pending ha hb hnp
        have hall : ∀ op rest j, s.todo = op :: rest → j ∈ op.cells → (s.word j).isResult = true := by
          intro op rest j ht hj
          exact all_result_of_settled (ha.st_len op rest ht (by rw [h]; rfl)) hnt hnp
            (fun p j hp hs => hb.settled_res op rest p j ht (by rw [h]; rfl) hp hs) j hj
        cases hb
        constructor <;> (try simp only [State.word] at *) <;>
          grind [inOp, decided, regPos, freshPc, afterRegPc]
  | _ => simp at hl

end Yaclib.Coro
